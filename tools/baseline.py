#!/usr/bin/env python3
"""Run /repo's test suite with the verif build tag OFF and compare with /root/.vp/BASELINE.json's
stable_pass list. Exit 0 iff every stable test passes. Usage: baseline.py [repo_dir]"""
import json, os, subprocess, sys
repo = sys.argv[1] if len(sys.argv) > 1 else "/repo"
env = dict(os.environ, GOFLAGS="-mod=mod", GOPROXY="off", GOSUMDB="off", GOTOOLCHAIN="local")
p = subprocess.run(["go", "test", "-json", "-vet=off", "-count=1", "-timeout", "25m", "./..."],
                   cwd=repo, env=env, capture_output=True, text=True)
res = {}
for line in p.stdout.splitlines():
    try:
        e = json.loads(line)
    except Exception:
        continue
    if e.get("Test") and e.get("Action") in ("pass", "fail", "skip"):
        res[e["Package"] + "::" + e["Test"]] = e["Action"]
try:
    stable = json.load(open("/root/.vp/BASELINE.json"))["stable_pass"]
except Exception:
    stable = [k for k, v in res.items() if v == "pass"]
bad = [t for t in stable if res.get(t) != "pass"]
print(f"baseline: {len(stable) - len(bad)}/{len(stable)} stable tests pass")
for t in bad:
    print("  NOT PASSING:", t, res.get(t))
sys.exit(1 if bad else 0)
