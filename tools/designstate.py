#!/usr/bin/env python3
"""Regenerate the generated blocks of DESIGN.md (between <!-- BEGIN GENERATED: x --> / <!-- END GENERATED: x -->):
state  - per property: model, theorems, correspondence counts of the last committed evidence, findings
seeds  - which seeded change is caught by which check (from seeded/*/result-*.json)"""
import json, glob, os, re, subprocess
ROOT = os.path.dirname(os.path.dirname(os.path.abspath(__file__)))
def known():
    out = []
    for p in [os.path.join(ROOT, "known_findings.json")] + sorted(glob.glob(os.path.join(ROOT, "known_findings.d", "*.json"))):
        out += json.load(open(p)).get("findings", [])
    return out
K = known()
rows = ["| id | model (coq/theories/) | theorems in Props | Coq lines | last quick run: cases / distinct non-trivial / wall | exhaustive universe | findings fixed in /repo | known findings (open) |", "|---|---|---|---|---|---|---|---|"]
for f in sorted(glob.glob(os.path.join(ROOT, "registry", "C*.json"))):
    P = json.load(open(f)); pid = P["id"]
    mod = P["check_coq"].split(".")[0]
    props = open(os.path.join(ROOT, "coq/theories/Props/%s.v" % pid)).read()
    thms = re.findall(r"^\s*(?:Theorem|Corollary)\s+(\w+)", props, flags=re.M)
    nref = sum(1 for t in thms if "refuted" in t); npar = sum(1 for t in thms if "partial" in t)
    lines = sum(len(open(v).read().splitlines()) for v in glob.glob(os.path.join(ROOT, "coq/theories", mod, "*.v"))) + len(props.splitlines())
    try:
        ev = json.load(open(os.path.join(ROOT, "evidence/%s.json" % pid))); c = ev.get("coverage", {})
        run = "%s / %s / %ss" % (c.get("evaluations", "?"), c.get("distinct_nontrivial", "?"), ev.get("wall_s", "?"))
        exh = "yes" if c.get("exhaustive") else "-"
    except Exception:
        run, exh = "?", "-"
    fx = [k for k in K if k["property"] == pid and k["status"] == "fixed"]
    kn = [k for k in K if k["property"] == pid and k["status"] == "known"]
    rows.append("| %s | %s | %d (%d `_refuted`, %d `_partial`) | %d | %s | %s | %s | %s |" % (
        pid, mod, len(thms), nref, npar, lines, run, exh,
        "<br>".join("`%s` %s" % (k.get("commit", "?"), k["id"]) for k in fx) or "-",
        "<br>".join(k["id"] for k in kn) or "-"))
state = "\n".join(rows)
srows = ["| seed | property | what it needs to manifest | outcome of the registered quick check(s) |", "|---|---|---|---|"]
for d in sorted(glob.glob(os.path.join(ROOT, "seeded", "*", ""))):
    name = os.path.basename(os.path.dirname(d))
    try:
        meta = json.load(open(d + "meta.json"))
    except Exception:
        continue
    res = []
    for r in sorted(glob.glob(d + "result-*.json")):
        j = json.load(open(r)); rp = j.get("replay"); how = ""
        if isinstance(rp, dict):
            how = "failing input" if rp.get("kind") == "failing-input" else "no-failing-input-found"
        res.append("%s: %s%s" % (j["property"], "DETECTED" if j["detected"] else "missed", (" (" + how + ")") if how and j["detected"] else ""))
    if meta.get("status") == "superseded":
        res = ["superseded (no longer a violation on the current tree)"]
    srows.append("| %s | %s | %s | %s |" % (name, meta.get("property"), (meta.get("needs") or "").replace("\n", " ").replace("|", "/")[:260], "; ".join(res) or "not run"))
seeds = "\n".join(srows)
frows = ["| property | id | status | commit | what fails (witness class) |", "|---|---|---|---|---|"]
for k in sorted(K, key=lambda k: (k["property"], k["status"] != "known", k["id"])):
    w = re.sub(r"^(known|fixed): *", "", k["what"]); w = re.sub(r"^property=C\d\d *[0-9a-f]{7}? *", "", w)
    frows.append("| %s | %s | %s | %s | %s |" % (k["property"], k["id"], k["status"], k.get("commit", "-"), w.replace("|", "/").replace("\n", " ")[:300]))
findings = "\n".join(frows)
p = os.path.join(ROOT, "DESIGN.md"); s = open(p).read()
for tag, body in (("state", state), ("seeds", seeds), ("findings", findings)):
    b, e = "<!-- BEGIN GENERATED: %s -->" % tag, "<!-- END GENERATED: %s -->" % tag
    if b in s:
        s = s[:s.index(b) + len(b)] + "\n" + body + "\n" + s[s.index(e):]
open(p, "w").write(s)
print("DESIGN.md blocks regenerated")
