#!/usr/bin/env python3
"""Give every per-property harness file harness/cmd/run/c*.go the build constraint `!skip_<basename>` and every
hooks file /repo/verif_hooks_<topic>.go the constraint `verif && !verif_skip_<topic>`, so that ./check can leave
out exactly the pieces that no longer compile against a changed tree (see build_harness in ./check)."""
import glob, os, re, sys
ROOT = os.path.dirname(os.path.dirname(os.path.abspath(__file__)))
REPO = sys.argv[1] if len(sys.argv) > 1 else "/repo"
def retag(path, want):
    s = open(path).read()
    lines = s.split("\n")
    idx = next((i for i, l in enumerate(lines[:10]) if l.startswith("//go:build")), None)
    if idx is not None:
        if lines[idx] == want:
            return False
        lines[idx] = want
    else:
        lines = [want, ""] + lines
    open(path, "w").write("\n".join(lines))
    return True
n = 0
for f in glob.glob(os.path.join(ROOT, "harness", "cmd", "run", "c[0-9]*.go")):
    base = re.sub(r"\W", "_", os.path.basename(f)[:-3])
    n += retag(f, "//go:build !skip_%s" % base)
for f in glob.glob(os.path.join(REPO, "verif_hooks_*.go")):
    topic = os.path.basename(f)[len("verif_hooks_"):-3]
    n += retag(f, "//go:build verif && !verif_skip_%s" % topic)
print("retagged %d files" % n)
