#!/usr/bin/env python3
"""Run the registered check(s) against a seeded change: apply seeded/<name>/patch.diff to /repo,
run ./check run <property> (quick, or tier given), undo the change, record the outcome in
seeded/<name>/result.json. Usage: seedtest.py <name> [tier] [property-override]"""
import json, os, subprocess, sys, time
ROOT = os.path.dirname(os.path.dirname(os.path.abspath(__file__)))
name = sys.argv[1]
tier = sys.argv[2] if len(sys.argv) > 2 else "quick"
d = os.path.join(ROOT, "seeded", name)
meta = json.load(open(os.path.join(d, "meta.json")))
pid = sys.argv[3] if len(sys.argv) > 3 else meta["property"]
assert subprocess.run(["git", "-C", "/repo", "status", "--porcelain"], capture_output=True, text=True).stdout.strip() == "", "/repo not clean"
subprocess.run(["git", "-C", "/repo", "apply", os.path.join(d, "patch.diff")], check=True)
t0 = time.time()
# the evidence file must always come from a run on the UNCHANGED tree: keep it aside and put it back
evp = os.path.join(ROOT, "evidence", pid + ".json")
ev_saved = open(evp).read() if os.path.exists(evp) else None
try:
    p = subprocess.run(["./check", "run", pid, "--tier", tier], cwd=ROOT, capture_output=True, text=True, timeout=3600)
    out = p.stdout + p.stderr
    viol = [l for l in out.splitlines() if l.startswith("VIOLATION")]
    rp = None
    if viol and "replay=" in viol[0]:
        rp = viol[0].split("replay=")[1].split()[0]
        try:
            rj = json.load(open(rp))
            rp = {"kind": rj.get("kind"), "case": rj.get("case"), "broken": [b.get("what") for b in rj.get("broken", [])]}
        except Exception:
            pass
    res = {"property": pid, "tier": tier, "exit": p.returncode, "detected": p.returncode == 1 and bool(viol),
           "violation_line": viol[0] if viol else None, "replay": rp, "wall_s": round(time.time() - t0, 1),
           "known_finding_lines": [l for l in out.splitlines() if l.startswith("KNOWN-FINDING")]}
finally:
    if ev_saved is not None:
        open(evp, "w").write(ev_saved)
    subprocess.run(["git", "-C", "/repo", "checkout", "--", "."], check=True)
    subprocess.run(["git", "-C", "/repo", "clean", "-fdq", "--", "seed_demo_test.go"], check=False)
json.dump(res, open(os.path.join(d, "result-%s-%s.json" % (pid, tier)), "w"), indent=1)
print("%s vs %s/%s: detected=%s exit=%s %ss | %s | %s" % (name, pid, tier, res["detected"], res["exit"], res["wall_s"], res["violation_line"], json.dumps(res["replay"])[:400]))
