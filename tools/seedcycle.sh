#!/bin/bash
# seedcycle.sh <pid> <x> [tier] [prop-override]: confirm a delivered seed (/tmp/seed/<pid>/<x>.*) and run the check against it
cd "$(dirname "$0")/.." || exit 2
pid=$1; x=$2
timeout 1500 python3 tools/seedconfirm.py "$pid" "$x" 2>&1 | grep -E '"confirmed"|false' 
[ -d "seeded/$pid-$x" ] || { echo "NOT CONFIRMED: $pid-$x"; exit 1; }
timeout 3000 python3 tools/seedtest.py "$pid-$x" ${3:-quick} $4 2>&1 | tail -n 1 | cut -c1-600
git -C /repo status --short | head -3
