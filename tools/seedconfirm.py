#!/usr/bin/env python3
"""Confirm a seeded change delivered by a sub-agent in /tmp/seed/<pid>/<x>.{patch.diff,seed_demo_test.go,meta.json}:
in a fresh scratch worktree of /repo: demo passes without the change; patch applies; builds (with and without
the verif tag); baseline 51/51; demo fails with the change. On success store it as /verif/seeded/<pid>-<x>/.
Usage: seedconfirm.py <pid> <x>"""
import json, os, shutil, subprocess, sys, time
pid, x = sys.argv[1], sys.argv[2]
src = "/tmp/seed/%s" % pid
wt = "/tmp/seedconfirm-%s-%s" % (pid, x)
env = dict(os.environ, GOFLAGS="-mod=mod", GOPROXY="off", GOSUMDB="off", GOTOOLCHAIN="local")
def run(cmd, cwd=wt, timeout=900):
    p = subprocess.run(cmd, cwd=cwd, env=env, capture_output=True, text=True, timeout=timeout, shell=isinstance(cmd, str))
    return p.returncode, (p.stdout + p.stderr)
subprocess.run(["git", "-C", "/repo", "worktree", "remove", "--force", wt], capture_output=True)
subprocess.run(["git", "-C", "/repo", "worktree", "add", "-q", "--detach", wt, "HEAD"], check=True)
res = {}
try:
    shutil.copy("%s/%s.seed_demo_test.go" % (src, x), wt + "/seed_demo_test.go")
    rc, out = run("go test -vet=off -count=1 -run TestSeedDemo . 2>&1 | tail -5")
    rc, out = run(["go", "test", "-vet=off", "-count=1", "-run", "TestSeedDemo", "."])
    res["demo_passes_without_change"] = rc == 0 and "no tests to run" not in out
    rc, out = run(["git", "apply", "%s/%s.patch.diff" % (src, x)])
    res["applies"] = rc == 0
    rc1, o1 = run(["go", "build", "./..."]); rc2, o2 = run(["go", "build", "-tags", "verif", "./..."])
    res["builds"] = rc1 == 0 and rc2 == 0
    rc, out = run(["go", "test", "-vet=off", "-count=1", "-run", "TestSeedDemo", "."])
    res["demo_fails_with_change"] = rc != 0
    res["demo_output_tail"] = out[-600:]
    os.remove(wt + "/seed_demo_test.go")
    rc, out = run(["python3", "/verif/tools/baseline.py", wt], cwd="/")
    res["baseline_51_of_51"] = rc == 0
    res["touches_only_source"] = all(not f.endswith("_test.go") and not os.path.basename(f).startswith("verif_")
                                     for f in subprocess.run(["git", "diff", "--name-only"], cwd=wt, capture_output=True, text=True).stdout.split())
    ok = all(res[k] for k in ["demo_passes_without_change", "applies", "builds", "demo_fails_with_change", "baseline_51_of_51", "touches_only_source"])
    res["confirmed"] = ok
    print(json.dumps(res, indent=1))
    if ok:
        d = "/verif/seeded/%s-%s" % (pid, x)
        os.makedirs(d, exist_ok=True)
        shutil.copy("%s/%s.patch.diff" % (src, x), d + "/patch.diff")
        shutil.copy("%s/%s.seed_demo_test.go" % (src, x), d + "/seed_demo_test.go")
        meta = json.load(open("%s/%s.meta.json" % (src, x)))
        meta["property"] = pid
        meta["confirmed_by_me"] = {k: res[k] for k in res if k != "demo_output_tail"}
        meta["what_i_ran"] = "tools/seedconfirm.py %s %s: fresh worktree of /repo HEAD; demo without change (pass), git apply, go build ./... and -tags verif, demo with change (fail), tools/baseline.py (51/51)" % (pid, x)
        json.dump(meta, open(d + "/meta.json", "w"), indent=1)
finally:
    subprocess.run(["git", "-C", "/repo", "worktree", "remove", "--force", wt], capture_output=True)
    shutil.rmtree(wt, ignore_errors=True)
