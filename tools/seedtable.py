#!/usr/bin/env python3
"""Regenerate seeded/README.md: which seeded change is caught by which check (from seeded/*/result-*.json)."""
import glob, json, os
ROOT = os.path.dirname(os.path.dirname(os.path.abspath(__file__)))
rows = []
for d in sorted(glob.glob(os.path.join(ROOT, "seeded", "*", ""))):
    name = os.path.basename(os.path.dirname(d))
    try:
        meta = json.load(open(d + "meta.json"))
    except Exception:
        continue
    res = []
    for r in sorted(glob.glob(d + "result-*.json")):
        j = json.load(open(r))
        how = ""
        rp = j.get("replay")
        if isinstance(rp, dict):
            how = "failing input" if rp.get("kind") == "failing-input" else "no-failing-input-found: " + "; ".join(rp.get("broken") or [])[:140]
        res.append("%s/%s: %s%s" % (j["property"], j["tier"], "DETECTED" if j["detected"] else "missed", (" (" + how + ")") if how else ""))
    rows.append((name, meta.get("property"), (meta.get("summary") or "").replace("\n", " ").replace("|", "/")[:220],
                 (meta.get("needs") or "").replace("\n", " ").replace("|", "/")[:200], "<br>".join(res) or "not run yet"))
out = ["# Seeded changes and which checks catch them", "",
       "Each directory holds `patch.diff` (the change), `seed_demo_test.go` (fails with the change, passes without),",
       "`meta.json` (property, what it needs to manifest, what was run to confirm it) and `result-<prop>-<tier>.json`",
       "(outcome of `tools/seedtest.py`: the registered check run against /repo with the change applied).", "",
       "| seed | property | change | needs | check outcome |", "|---|---|---|---|---|"]
for r in rows:
    out.append("| %s | %s | %s | %s | %s |" % r)
open(os.path.join(ROOT, "seeded", "README.md"), "w").write("\n".join(out) + "\n")
print("%d seeds" % len(rows))
