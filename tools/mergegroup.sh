#!/bin/bash
# mergegroup.sh <G> [ref]: bring group G's green state into the main lines (repo: cherry-pick what main lacks; verif: merge)
set -e
G=$1; REF=${2:-green-$G}
cd /repo
[ -z "$(git status --porcelain)" ] || { echo "/repo not clean"; exit 1; }
commits=$(git rev-list --reverse --cherry-pick --right-only --no-merges main...$REF)
for c in $commits; do
  git cherry-pick $c >/dev/null 2>&1 || { echo "cherry-pick of $c failed"; git status --short | head; exit 1; }
  echo "picked $(git log --oneline -1 | cut -c1-100)"
done
cd /verif
[ -z "$(git status --porcelain)" ] || { echo "/verif not clean"; exit 1; }
git merge $REF -m "merge $G ($REF)" >/tmp/merge_$G.log 2>&1 || true
for f in $(git diff --name-only --diff-filter=U); do
  case $f in evidence/*|MANIFEST.json|seeded/README.md) git checkout --ours $f; git add $f;; *) echo "CONFLICT $f";; esac
done
if [ -n "$(git diff --name-only --diff-filter=U)" ]; then echo "UNRESOLVED CONFLICTS - resolve, then git commit; do NOT git add -A blindly"; exit 3; fi
git commit -qm "merge $G ($REF)" 2>/dev/null || true
python3 tools/tagfiles.py
./check manifest
git add MANIFEST.json && git commit -qm "manifest after merging $G" 2>/dev/null || true
python3 tools/fixhashes.py | tail -3
git -C /repo status --short
