#!/usr/bin/env python3
"""Write the brief for a seeding sub-agent: seedprompt.py <pid> <x>  -> /work/prompts/seed/<pid>-<x>.txt
The brief contains only the property text (nothing from /verif's machinery) and a one-line description of
the changes already tried for that property (so that the new one is of a different kind)."""
import json, os, sys, glob
pid, x = sys.argv[1], sys.argv[2]
props = {json.loads(l)['id']: json.loads(l) for l in open('/verif/properties.jsonl') if l.strip()}
P = props[pid]
prev = []
for d in sorted(glob.glob('/verif/seeded/%s-*' % pid)):
    try:
        m = json.load(open(d + '/meta.json')); prev.append("- " + m['summary'][:400])
    except Exception:
        pass
wt = "/tmp/seedwt-%s-%s" % (pid, x)
txt = f"""You are helping to test a verification effort for the Go library caddyserver/certmagic. Your job: write ONE small, realistic code change (the kind of edit a maintainer might make in a refactoring, optimisation, clean-up or feature commit) that BREAKS the semantic property below while the package still compiles and the existing test suite still passes — plus a demonstration test that fails with the change and passes without it.

Your scratch copy of the library: {wt} (a git worktree of the repository at its current commit; create it first with `git -C /repo worktree add --detach {wt} HEAD` if it does not exist). Work ONLY inside {wt} and /tmp/seed/{pid}/ . Never modify /repo itself, never read or write anything under /verif or /work. Files named verif_hooks_*.go in the repository are test instrumentation behind a build tag: ignore them, do not edit them and do not use them.

Environment: no network. In every shell call: `export GOFLAGS=-mod=mod GOPROXY=off GOSUMDB=off GOTOOLCHAIN=local`. Every Bash call prints a harmless conda WARNING line first. Existing test suite: `python3 /verif/tools/baseline.py {wt}` (this one script you may run; it must report 51/51 passing with your change applied). Build: `cd {wt} && go build ./... && go build -tags verif ./...` must succeed with your change.

THE PROPERTY ({pid}: {P['title']})
Statement: {P['statement']}
Quantified over: {P['quantifier']['text']}
Anchored in: {json.dumps(P['anchors'])}

Requirements for the change
* It must make the library violate the property as stated, for some input / state / interleaving / fault / history — and ONLY in circumstances that need something specific to manifest: a particular interleaving, a crash or fault at a particular point, a multi-step sequence of operations, an unusual input, or two cooperating sites that each look fine alone. NOT something ordinary use (or the existing tests) would expose at once.
* Realistic and small (typically 1-15 changed lines in non-test source files of the package; no new files; do not touch *_test.go or verif_hooks_*.go). It should look like a plausible commit, not sabotage; no comments that give it away.
* Changes already tried for this property (make yours a DIFFERENT kind, at a different place if possible):
{chr(10).join(prev) if prev else '- (none)'}

Deliverables (all three in /tmp/seed/{pid}/ ; create the directory):
1. /tmp/seed/{pid}/{x}.patch.diff — `git -C {wt} diff` of the change only (must apply with `git apply` to a clean checkout).
2. /tmp/seed/{pid}/{x}.seed_demo_test.go — a Go test file, `package certmagic`, containing `func TestSeedDemo(t *testing.T)` (helpers allowed, all identifiers prefixed seedDemo), self-contained (no network; in-memory or temp-dir storage; fake issuers etc. written inside the file), deterministic, finishing in under 60 s, that PASSES on the unchanged library and FAILS with your change when run as `cp <file> {wt}/seed_demo_test.go && cd {wt} && go test -vet=off -count=1 -run TestSeedDemo .` . It must demonstrate the violation of the property (observable wrong behaviour), not merely detect that the source text changed.
3. /tmp/seed/{pid}/{x}.meta.json — {{"summary": "<which file/function was changed and how>", "why_it_breaks": "<which clause of the property fails and how>", "needs": "<what specific input/interleaving/fault/sequence is needed for it to manifest, and why ordinary use and the existing tests do not expose it>", "demo_cmd": "go test -vet=off -count=1 -run TestSeedDemo .", "verified": {{"builds": true, "baseline_51_of_51": true, "demo_fails_with_change": true, "demo_passes_without_change": true}}}} — set each flag only after you have actually checked it.

Verify everything yourself: demo passes on the clean worktree (`git -C {wt} stash` is NOT allowed; use `git -C {wt} diff > /tmp/seed/{pid}/{x}.patch.diff && git -C {wt} checkout -- .` to get back to clean and `git -C {wt} apply /tmp/seed/{pid}/{x}.patch.diff` to re-apply), fails with the change, baseline 51/51 with the change, builds with and without `-tags verif`. When done leave the worktree CLEAN (change not applied, no seed_demo_test.go in it) and reply with 5 lines: the file changed, what the change is, what it needs to manifest, and the verification results.
"""
os.makedirs('/work/prompts/seed', exist_ok=True)
open('/work/prompts/seed/%s-%s.txt' % (pid, x), 'w').write(txt)
print('/work/prompts/seed/%s-%s.txt' % (pid, x))
