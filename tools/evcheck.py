#!/usr/bin/env python3
"""Sanity gate before committing: MANIFEST validates; every claimed check has an evidence file that validates,
comes from a run on the unchanged tree (no violations, nothing broken, discharged == obligations)."""
import json, glob, os, subprocess, sys
ROOT = os.path.dirname(os.path.dirname(os.path.abspath(__file__)))
code = r'''
import json, jsonschema, sys, os
ROOT = sys.argv[1]
m = json.load(open(ROOT + "/MANIFEST.json")); jsonschema.validate(m, json.load(open("/root/.vp/MANIFEST.schema.json")))
es = json.load(open("/root/.vp/EVIDENCE.schema.json")); bad = 0
for c in m["checks"]:
    f = c["evidence_file"]
    try:
        e = json.load(open(f)); jsonschema.validate(e, es); cv = e["coverage"]
        assert cv["obligations"] == cv["discharged"] >= 1, "discharged %s != obligations %s" % (cv["discharged"], cv["obligations"])
        assert e["violations"] == 0 and not cv.get("broken"), "evidence of a failing run: %s" % cv.get("broken")
        ax = [t for t in cv.get("trusted_base", []) if t.startswith("Axioms")]
        assert not ax, "theorem depends on axioms: %s" % ax[0][:120]
        closed = sum(1 for t in cv.get("trusted_base", []) if t.startswith("Closed under the global context"))
        assert closed >= cv["obligations"], "Print Assumptions outputs (%d) fewer than theorems (%d)" % (closed, cv["obligations"])
    except Exception as x:
        bad += 1; print("BAD", f, str(x)[:200])
print("evcheck: %d checks, %d bad" % (len(m["checks"]), bad)); sys.exit(1 if bad else 0)
'''
sys.exit(subprocess.run(["python3-vt", "-c", code, ROOT]).returncode)
