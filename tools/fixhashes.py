#!/usr/bin/env python3
"""After cherry-picking / rebasing group branches onto /repo main the short hashes quoted in /verif
(known_findings*.json, notes, registry, Coq comments, DESIGN.md) may name commits that are not on main.
Map every such hash to the main commit with the same subject line. Usage: fixhashes.py [--dry]"""
import subprocess, re, os, sys, glob
ROOT = os.path.dirname(os.path.dirname(os.path.abspath(__file__)))
def git(*a):
    return subprocess.run(["git", "-C", "/repo"] + list(a), capture_output=True, text=True).stdout
main = {}
for l in git("log", "--format=%h\t%s", "main").splitlines():
    h, s = l.split("\t", 1)
    main.setdefault(s, h)
mainhashes = set(main.values())
other = {}
for l in git("log", "--all", "--format=%h\t%s").splitlines():
    h, s = l.split("\t", 1)
    if h not in mainhashes and s in main:
        other[h] = main[s]
files = [f for pat in ("known_findings.json", "known_findings.d/*.json", "notes/*.md", "registry/*.json", "DESIGN.md",
                       "coq/theories/**/*.v", "harness/cmd/run/*.go", "harness/cmd/consts/*.go")
         for f in glob.glob(os.path.join(ROOT, pat), recursive=True)]
n = 0
for f in files:
    s = open(f).read()
    t = re.sub(r"\b[0-9a-f]{7}\b", lambda m: other.get(m.group(0), m.group(0)), s)
    if t != s:
        n += 1
        print("fixed", os.path.relpath(f, ROOT), sorted({m for m in re.findall(r"\b[0-9a-f]{7}\b", s) if m in other}))
        if "--dry" not in sys.argv:
            open(f, "w").write(t)
print("%d files" % n)
