(* modelrun <property> [explain] : reads one case per line (space-separated integers) on stdin,
   converts each to Coq's [list Z], applies the extracted check function and prints its integer
   result (or, with "explain", the integers the model's explain function returns).
   This file and the int<->Z conversion are the only hand-written OCaml in the trusted base. *)
open Model

let rec pos_of_int (n : int) : positive =
  if n = 1 then XH
  else if n land 1 = 0 then XO (pos_of_int (n lsr 1))
  else XI (pos_of_int (n lsr 1))

(* inputs are decimal strings that may exceed OCaml's 63-bit ints: parse by chunks *)
let rec pos_add1 p = match p with XH -> XO XH | XO q -> XI q | XI q -> XO (pos_add1 q)

let z_of_string (s : string) : z =
  let neg = String.length s > 0 && s.[0] = '-' in
  let digits = if neg then String.sub s 1 (String.length s - 1) else s in
  (* Horner in Coq's Z using extracted Z.add / Z.mul *)
  let ten = Zpos (pos_of_int 10) in
  let acc = ref Z0 in
  String.iter (fun c ->
      let d = Char.code c - 48 in
      if d < 0 || d > 9 then failwith ("bad integer: " ^ s);
      let dz = if d = 0 then Z0 else Zpos (pos_of_int d) in
      acc := Z.add (Z.mul !acc ten) dz) digits;
  if neg then Z.opp !acc else !acc

let rec string_of_pos p =
  (* positive -> decimal via repeated division is overkill; results are small: use int *)
  let rec to_int p = match p with XH -> 1 | XO q -> 2 * to_int q | XI q -> 2 * to_int q + 1 in
  string_of_int (to_int p)

let string_of_z = function
  | Z0 -> "0"
  | Zpos p -> string_of_pos p
  | Zneg p -> "-" ^ string_of_pos p

let split_line l = List.filter (fun s -> s <> "") (String.split_on_char ' ' (String.trim l))

let () =
  let prop = Sys.argv.(1) in
  let explain = Array.length Sys.argv > 2 && Sys.argv.(2) = "explain" in
  let check, expl = Dispatch.lookup prop in
  (try
     while true do
       let line = input_line stdin in
       let zs = List.map z_of_string (split_line line) in
       if explain then
         print_endline (String.concat " " (List.map string_of_z (expl zs)))
       else print_endline (string_of_z (check zs))
     done
   with End_of_file -> ())
