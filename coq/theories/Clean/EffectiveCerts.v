(** C18 — effectiveness for certificates (not part of the property, which says "only"): in a run
    without storage faults and without cancellation, on a storage in which every [X.crt] lying
    directly in a site folder is a parseable certificate file, the certificate, key and metadata of
    every certificate that is expired for the grace period at every reading of the clock are gone
    afterwards -- and a site folder all of whose content is such material is gone with them
    (the emptied folder is removed). Shows that the safety theorems are not met vacuously by a
    cleaner that deletes no certificate. *)
From CM Require Import Lib.Str Lib.CleanSyntax Gen.Consts Clean.Model Clean.Proofs Clean.Effective Clean.Prog Clean.Interfere.
From Coq Require Import Lia FinFun.
Open Scope Z_scope.

(** * Listings have no duplicates *)
Lemma str_cmp_refl a : str_cmp a a = Eq.
Proof. induction a as [|x a IH]; cbn; [reflexivity|]. rewrite N.compare_refl. exact IH. Qed.
Lemma str_cmp_lt_trans a : forall b c, str_cmp a b = Lt -> str_cmp b c = Lt -> str_cmp a c = Lt.
Proof.
  induction a as [|x a IH]; intros [|y b] [|z c]; cbn; try congruence; try discriminate.
  intros H1 H2.
  destruct (N.compare x y) eqn:Exy; [apply N.compare_eq in Exy; subst y| |discriminate].
  - destruct (N.compare x z) eqn:Exz; [eapply IH; eassumption | reflexivity | discriminate].
  - destruct (N.compare y z) eqn:Eyz; [apply N.compare_eq in Eyz; subst z; rewrite Exy; reflexivity | | discriminate].
    apply N.compare_lt_iff in Exy, Eyz. assert (H : (x < z)%N) by (eapply N.lt_trans; eassumption). apply N.compare_lt_iff in H. rewrite H. reflexivity.
Qed.
Lemma str_cmp_gt_lt a : forall b, str_cmp a b = Gt -> str_cmp b a = Lt.
Proof.
  induction a as [|x a IH]; intros [|y b]; cbn; try discriminate; try reflexivity.
  rewrite (N.compare_antisym x y). destruct (N.compare x y); cbn; [apply IH | discriminate | reflexivity].
Qed.
Fixpoint ssorted (l : list str) : Prop :=
  match l with [] => True | x :: r => Forall (fun y => str_cmp x y = Lt) r /\ ssorted r end.
Lemma insert_ssorted x l : ssorted l -> ssorted (insert x l).
Proof.
  induction l as [|y r IH]; cbn [insert ssorted]; [intros _; split; constructor|].
  intros [Hy Hr]. destruct (str_cmp x y) eqn:E.
  - split; assumption.
  - cbn [ssorted]. split; [|split; assumption]. constructor; [exact E|].
    eapply Forall_impl; [|exact Hy]. intros z Hz. exact (str_cmp_lt_trans _ _ _ E Hz).
  - cbn [ssorted]. split; [|apply IH; exact Hr].
    apply Forall_forall. intros z Hz. apply in_insert in Hz.
    destruct Hz as [->|Hz]; [apply str_cmp_gt_lt; exact E | exact (proj1 (Forall_forall _ _) Hy z Hz)].
Qed.
Lemma ssorted_nodup l : ssorted l -> NoDup l.
Proof.
  induction l as [|x r IH]; intros H; [constructor|]. destruct H as [Hx Hr]. constructor; [|apply IH; exact Hr].
  intros Hin. pose proof (proj1 (Forall_forall _ _) Hx x Hin) as E. cbn beta in E. rewrite str_cmp_refl in E. discriminate.
Qed.
Lemma sort_dedup_nodup l : NoDup (sort_dedup l).
Proof.
  apply ssorted_nodup. unfold sort_dedup. induction l as [|a l IH]; cbn [fold_right]; [exact I | apply insert_ssorted; exact IH].
Qed.
Lemma children_nodup s k : NoDup (children s k).
Proof.
  unfold children. apply Injective_map_NoDup; [|apply sort_dedup_nodup].
  intros c1 c2 E. apply app_inv_head in E. injection E; auto.
Qed.
Lemma list_pure_nodup l s k ks : list_pure l s k = Some ks -> NoDup ks.
Proof.
  unfold list_pure. destruct (lookup s k) as [[v c|]|].
  - destruct l; [intros H; injection H; intros <-; constructor | discriminate].
  - intros H; injection H; intros <-. apply children_nodup.
  - destruct (children s k) eqn:C; [discriminate|]. intros H; injection H; intros <-. rewrite <- C. apply children_nodup.
Qed.

(** * Listings are sound and complete w.r.t. the keys at or below an entry *)
Lemma take_comp_split rest : exists t, rest = take_comp rest ++ t /\ (t = [] \/ exists t', t = c_sl :: t').
Proof.
  induction rest as [|x r IH]; cbn [take_comp]; [exists []; auto|].
  destruct (N.eqb_spec x c_sl) as [->|Ne].
  - exists (c_sl :: r). split; [reflexivity | right; eauto].
  - destruct IH as [t [E Ht]]. exists t. split; [cbn; rewrite <- E; reflexivity | exact Ht].
Qed.
Lemma in_lookup s k n : In (k, n) s -> lookup s k <> None.
Proof.
  induction s as [|[k1 n1] r IH]; [contradiction|]. cbn [lookup]. intros [E|Hin].
  - injection E; intros -> ->. rewrite seqb_refl. discriminate.
  - destruct (seqb k1 k); [discriminate | exact (IH Hin)].
Qed.
Lemma lookup_some_in s k n : lookup s k = Some n -> In (k, n) s.
Proof.
  induction s as [|[k1 n1] r IH]; [discriminate|]. cbn [lookup].
  destruct (seqb k1 k) eqn:E; [apply seqb_eq in E; subst; intros H; injection H; intros ->; left; reflexivity|].
  intros H; right; exact (IH H).
Qed.
Lemma comps_below_sound k s c : In c (comps_below k s) ->
  exists k', covers (k ++ c_sl :: c) k' = true /\ lookup s k' <> None.
Proof.
  induction s as [|[k1 n] r IH]; cbn [comps_below]; [contradiction|].
  assert (Tail : (exists k', covers (k ++ c_sl :: c) k' = true /\ lookup r k' <> None) ->
                 exists k', covers (k ++ c_sl :: c) k' = true /\ lookup ((k1, n) :: r) k' <> None).
  { intros [k' [C L]]. exists k'. split; [exact C|]. cbn [lookup]. destruct (seqb k1 k'); [discriminate | exact L]. }
  destruct (strip_prefix (k ++ [c_sl]) k1) as [rest|] eqn:E; [|intros H; exact (Tail (IH H))].
  intros [<-|Hin]; [|exact (Tail (IH Hin))].
  apply strip_prefix_spec in E. exists k1. split; [|cbn [lookup]; rewrite seqb_refl; discriminate].
  destruct (take_comp_split rest) as [t [Er Ht]]. unfold covers. apply orb_true_iff.
  destruct Ht as [->|[t' ->]].
  - left. apply seqb_eq. rewrite app_nil_r in Er. rewrite E, <- Er, <- app_assoc. reflexivity.
  - right. apply under_spec. exists t'. rewrite E, Er at 1. rewrite <- !app_assoc. reflexivity.
Qed.
Lemma comps_below_complete k s ca k' n : lookup s k' = Some n -> mem c_sl ca = false ->
  covers (k ++ c_sl :: ca) k' = true -> In ca (comps_below k s).
Proof.
  intros Hl Hc C. apply lookup_some_in in Hl. induction s as [|[k1 n1] r IH]; [contradiction|]. cbn [comps_below].
  destruct Hl as [E|Hin].
  - injection E; intros -> ->.
    assert (Ek : exists t, k' = (k ++ [c_sl]) ++ ca ++ t /\ (t = [] \/ exists t', t = c_sl :: t')).
    { unfold covers in C. apply orb_true_iff in C. destruct C as [C|C].
      - apply seqb_eq in C. exists []. split; [rewrite app_nil_r, <- C, <- app_assoc; reflexivity | auto].
      - apply under_spec in C. destruct C as [t' ->]. exists (c_sl :: t'). split; [rewrite <- !app_assoc; reflexivity | eauto]. }
    destruct Ek as [t [-> Ht]]. rewrite strip_prefix_app. left.
    destruct Ht as [->|[t' ->]].
    + rewrite app_nil_r. apply take_comp_id. exact Hc.
    + clear -Hc. induction ca as [|x ca IH]; cbn [app take_comp]; [rewrite N.eqb_refl; reflexivity|].
      rewrite mem_cons in Hc. apply orb_false_iff in Hc. destruct Hc as [H1 H2].
      rewrite N.eqb_sym, H1. rewrite (IH H2). reflexivity.
  - destruct (strip_prefix (k ++ [c_sl]) k1); [right|]; exact (IH Hin).
Qed.

Definition notfile (s : store) (k : key) : Prop := forall v c, lookup s k <> Some (File v c).
Definition present_below (s : store) (a : key) : Prop := exists k, covers a k = true /\ lookup s k <> None.

Lemma list_pure_sound l s p ks a : list_pure l s p = Some ks -> In a ks -> present_below s a.
Proof.
  unfold list_pure. destruct (lookup s p) as [[v c|]|].
  - destruct l; [intros H; injection H; intros <-; contradiction | discriminate].
  - intros H; injection H; intros <-. unfold children. intros Hin. apply in_map_iff in Hin.
    destruct Hin as [c [<- Hc]]. apply (proj1 (in_sort_dedup _ _)) in Hc. exact (comps_below_sound _ _ _ Hc).
  - destruct (children s p) eqn:C; [discriminate|]. intros H; injection H; intros <-. rewrite <- C.
    unfold children. intros Hin. apply in_map_iff in Hin.
    destruct Hin as [c [<- Hc]]. apply (proj1 (in_sort_dedup _ _)) in Hc. exact (comps_below_sound _ _ _ Hc).
Qed.
Lemma list_pure_complete' l s p a : present_below s a -> child p a -> notfile s p ->
  exists ks, list_pure l s p = Some ks /\ In a ks.
Proof.
  intros [k' [C Hl]] [ca [-> Hc]] Hp.
  destruct (lookup s k') as [n|] eqn:Lk; [|congruence].
  assert (Hin : In (p ++ c_sl :: ca) (children s p)).
  { unfold children. apply in_map_iff. exists ca. split; [reflexivity|].
    apply in_sort_dedup. exact (comps_below_complete _ _ _ _ _ Lk Hc C). }
  unfold list_pure. destruct (lookup s p) as [[v c|]|] eqn:Lp.
  - exfalso. exact (Hp v c Lp).
  - eexists; split; [reflexivity | exact Hin].
  - destruct (children s p) as [|x xs] eqn:Cc; [contradiction|]. eexists; split; [reflexivity | exact Hin].
Qed.

(** * Whatever [remove] preserves, the loops preserve *)
Section RemInv.
  Variable Q : store -> Prop.
  Hypothesis Qrem : forall x s, Q s -> Q (remove x s).
  Variables (e : env) (clk : nat -> Z).
  Hypothesis NF : no_faults e.

  Lemma do_delete_Q k s : Q (sto s) -> Q (sto (snd (do_delete e k s))).
  Proof.
    intros H. unfold do_delete. rewrite (nf_faulty e s NF), (nf_pfaulty e s NF), (nf_efaulty e s NF).
    cbn [snd sto logged]. apply Qrem; exact H.
  Qed.
  Lemma staples_loop_Q ks : forall s, Q (sto s) -> Q (sto (staples_loop e clk ks s)).
  Proof.
    induction ks as [|a r IH]; intros s H; cbn [staples_loop]; [exact H|].
    destruct (cancelled e s); [exact H|].
    pose proof (do_load_sto e a s) as E. destruct (do_load e a s) as [res s1]. cbn [snd] in E.
    assert (H1 : Q (sto s1)) by (rewrite E; exact H).
    destruct res as [v c| |]; try (apply IH; exact H1).
    destruct (stale_staple (rd clk s1) c); [|apply IH; exact H1].
    pose proof (do_delete_Q a s1 H1) as D. destruct (do_delete e a s1) as [b s2]. cbn [snd] in D. apply IH; exact D.
  Qed.
  Lemma delete_old_staples_Q s : Q (sto s) -> Q (sto (delete_old_staples e clk s)).
  Proof.
    intros H. unfold delete_old_staples.
    pose proof (do_list_sto e prefix_ocsp s) as E. destruct (do_list e prefix_ocsp s) as [res s1]. cbn [snd] in E.
    assert (H1 : Q (sto s1)) by (rewrite E; exact H).
    destruct res; [apply staples_loop_Q; exact H1 | exact H1].
  Qed.
  Lemma delete_related_Q base sufs : forall s, Q (sto s) -> Q (sto (delete_related e base sufs s)).
  Proof.
    induction sufs as [|x r IH]; intros s H; cbn [delete_related]; [exact H|].
    pose proof (do_delete_Q (base ++ x) s H) as D. destruct (do_delete e (base ++ x) s) as [b s1]. cbn [snd] in D.
    apply IH; exact D.
  Qed.
  Lemma assets_loop_Q gr assets : forall s, Q (sto s) -> Q (sto (snd (assets_loop e clk gr assets s))).
  Proof.
    induction assets as [|a r IH]; intros s H; cbn [assets_loop]; [exact H|].
    destruct (negb (seqb (path_ext a) clean_ext_crt)); [apply IH; exact H|].
    pose proof (do_load_sto e a s) as E. destruct (do_load e a s) as [res s1]. cbn [snd] in E.
    assert (H1 : Q (sto s1)) by (rewrite E; exact H).
    destruct res as [v c| |]; cbn [snd]; try exact H1.
    destruct (as_cert c); cbn [snd]; [|exact H1].
    destruct (expired_cert (rd clk s1) gr c); [|apply IH; exact H1].
    pose proof (do_delete_Q a s1 H1) as D. destruct (do_delete e a s1) as [b s2]. cbn [snd] in D.
    apply IH. apply delete_related_Q. exact D.
  Qed.
  Lemma sites_loop_Q gr sites : forall s, Q (sto s) -> Q (sto (snd (sites_loop e clk gr sites s))).
  Proof.
    induction sites as [|sk r IH]; intros s H; cbn [sites_loop]; [exact H|].
    destruct (cancelled e s); [exact H|].
    pose proof (do_list_sto e sk s) as E1. destruct (do_list e sk s) as [res s1]. cbn [snd] in E1.
    assert (H1 : Q (sto s1)) by (rewrite E1; exact H).
    destruct res as [assets|]; [|apply IH; exact H1].
    pose proof (assets_loop_Q gr assets s1 H1) as A. destruct (assets_loop e clk gr assets s1) as [ab s2]. cbn [snd] in A.
    destruct ab; cbn [snd]; [exact A|].
    pose proof (do_list_sto e sk s2) as E3. destruct (do_list e sk s2) as [res2 s3]. cbn [snd] in E3.
    assert (H3 : Q (sto s3)) by (rewrite E3; exact A).
    destruct res2 as [[|x xs]|]; try (apply IH; exact H3).
    pose proof (do_stat_sto e sk s3) as E4. destruct (do_stat e sk s3) as [sr s4]. cbn [snd] in E4.
    assert (H4 : Q (sto s4)) by (rewrite E4; exact H3).
    destruct sr; try (apply IH; exact H4).
    pose proof (do_delete_Q sk s4 H4) as D. destruct (do_delete e sk s4) as [ok s5]. cbn [snd] in D.
    destruct ok; cbn [snd]; [apply IH; exact D | exact D].
  Qed.
  Lemma issuers_loop_Q gr iss : forall s, Q (sto s) -> Q (sto (snd (issuers_loop e clk gr iss s))).
  Proof.
    induction iss as [|ik r IH]; intros s H; cbn [issuers_loop]; [exact H|].
    pose proof (do_list_sto e ik s) as E1. destruct (do_list e ik s) as [res s1]. cbn [snd] in E1.
    assert (H1 : Q (sto s1)) by (rewrite E1; exact H).
    destruct res as [sites|]; [|apply IH; exact H1].
    pose proof (sites_loop_Q gr sites s1 H1) as A. destruct (sites_loop e clk gr sites s1) as [ab s2]. cbn [snd] in A.
    destruct ab; cbn [snd]; [exact A | apply IH; exact A].
  Qed.
End RemInv.

(** what [remove] preserves *)
Lemma notfile_remove k x s : notfile s k -> notfile (remove x s) k.
Proof. intros H v c. rewrite lookup_remove. destruct (covers x k); [discriminate | apply H]. Qed.

(** every [X.crt] directly in a site folder at or below which something exists is a certificate file *)
Definition cert_file (s : store) (a : key) : Prop :=
  exists v c na, lookup s a = Some (File v c) /\ as_cert c = Some na.
Definition crt_wf (s : store) : Prop :=
  forall a, site_assetb a = true -> seqb (path_ext a) spec_ext_crt = true -> present_below s a -> cert_file s a.
Lemma crt_wf_remove x s : crt_wf s -> crt_wf (remove x s).
Proof.
  intros H a Sa Ext [k [C L]]. rewrite lookup_remove in L. destruct (covers x k) eqn:Cx; [congruence|].
  destruct (H a Sa Ext (ex_intro _ k (conj C L))) as (v & c & na & Hl & Hc).
  exists v, c, na. split; [|exact Hc]. rewrite lookup_remove.
  destruct (covers x a) eqn:Ca; [|exact Hl]. rewrite (covers_trans _ _ _ Ca C) in Cx. discriminate.
Qed.

(** * Shapes *)
Definition trio (a : key) : list key :=
  [a; trim_suffix spec_ext_crt a ++ spec_ext_key; trim_suffix spec_ext_crt a ++ spec_ext_json].
Definition is_crt (a : key) : Prop := seqb (path_ext a) spec_ext_crt = true.

Lemma crt_base a : is_crt a -> exists b, a = b ++ spec_ext_crt /\ trim_suffix spec_ext_crt a = b.
Proof.
  intros H. apply seqb_eq in H. destruct (path_ext_suffix _ _ H) as [b ->]; [discriminate|].
  exists b. split; [reflexivity | apply trim_suffix_app].
Qed.
Lemma trio_nsep a x : site_assetb a = true -> is_crt a -> In x (trio a) -> nsep x = 3%nat.
Proof.
  intros Sa Hc Hx. destruct (crt_base a Hc) as [b [-> Eb]]. unfold trio in Hx. rewrite Eb in Hx.
  pose proof (site_assetb_nsep _ Sa) as N. rewrite nsep_app, (ext_nsep spec_ext_crt) in N by (cbn; auto).
  destruct Hx as [<-|[<-|[<-|[]]]]; rewrite nsep_app; [rewrite (ext_nsep spec_ext_crt)|rewrite (ext_nsep spec_ext_key)|rewrite (ext_nsep spec_ext_json)]; cbn; auto; lia.
Qed.
(** the assets of one certificate do not cover another [X.crt] of a site folder *)
Lemma trio_not_cover a a' x : site_assetb a = true -> is_crt a -> site_assetb a' = true -> is_crt a' -> a <> a' ->
  In x (trio a) -> covers x a' = false.
Proof.
  intros Sa Hc Sa' Hc' Ne Hx. destruct (covers x a') eqn:C; [|reflexivity]. exfalso.
  apply covers_nsep in C; [|rewrite (trio_nsep a x Sa Hc Hx); exact (site_assetb_nsep _ Sa')].
  subst a'. destruct (crt_base a Hc) as [b [-> Eb]]. unfold trio in Hx. rewrite Eb in Hx.
  destruct (crt_base x Hc') as [b' [Ex _]].
  destruct Hx as [<-|[<-|[<-|[]]]]; [congruence| |];
    (apply ext_inj in Ex; [destruct Ex as [_ Ex]; discriminate | cbn; auto | cbn; auto]).
Qed.
(** X of [sk/X.crt] extends [sk/] *)
Lemma base_under sk b : child sk (b ++ spec_ext_crt) -> exists cb, b = sk ++ c_sl :: cb /\ mem c_sl cb = false.
Proof.
  intros [ca [Ea Hca]].
  assert (Ea' : b ++ spec_ext_crt = (sk ++ [c_sl]) ++ ca) by (rewrite <- app_assoc; exact Ea).
  destruct (app_eq_app _ _ _ _ Ea') as [l [[E1 E2]|[E1 E2]]].
  - exists l. split; [rewrite E1, <- app_assoc; reflexivity|].
    rewrite E2, mem_app in Hca. apply orb_false_iff in Hca. exact (proj1 Hca).
  - destruct l as [|z l0 _] using rev_ind.
    + exists []. split; [rewrite app_nil_r in E1; rewrite <- E1; reflexivity | reflexivity].
    + exfalso. rewrite app_assoc in E1. apply app_inj_tail in E1. destruct E1 as [_ Ez]. subst z.
      assert (X : mem c_sl spec_ext_crt = true) by (rewrite E2, !mem_app; cbn; rewrite orb_true_r; reflexivity).
      vm_compute in X. discriminate.
Qed.
Lemma trio_children sk a x : child sk a -> is_crt a -> In x (trio a) -> child sk x.
Proof.
  intros Ca Hc Hx. destruct (crt_base a Hc) as [b [-> Eb]]. unfold trio in Hx. rewrite Eb in Hx.
  destruct Hx as [<-|Hx]; [exact Ca|].
  destruct (base_under sk b Ca) as [cb [-> Hcb]].
  assert (G : forall suf, mem c_sl suf = false -> child sk ((sk ++ c_sl :: cb) ++ suf)).
  { intros suf Hs. exists (cb ++ suf). split; [rewrite <- app_assoc; reflexivity | rewrite mem_app, Hcb, Hs; reflexivity]. }
  destruct Hx as [<-|[<-|[]]]; apply G; reflexivity.
Qed.
Lemma child_parent_unique p p' a : child p a -> child p' a -> p = p'.
Proof.
  intros [c [-> Hc]] [c' [E Hc']].
  assert (R : rev c ++ c_sl :: rev p = rev c' ++ c_sl :: rev p').
  { apply (f_equal (@rev N)) in E. rewrite !rev_app_distr in E. cbn [rev] in E. rewrite <- !app_assoc in E. exact E. }
  assert (Hr : mem c_sl (rev c) = false).
  { destruct (mem c_sl (rev c)) eqn:M; [|reflexivity]. apply mem_in in M. apply in_rev in M. apply mem_in in M. congruence. }
  assert (Hr' : mem c_sl (rev c') = false).
  { destruct (mem c_sl (rev c')) eqn:M; [|reflexivity]. apply mem_in in M. apply in_rev in M. apply mem_in in M. congruence. }
  clear E Hc Hc'. revert R Hr Hr'. generalize (rev c) (rev c'). intros u u'. revert u'.
  induction u as [|x u IH]; intros [|y u'] R Hu Hu'.
  - cbn in R. injection R; intros R'. apply (f_equal (@rev N)) in R'. rewrite !rev_involutive in R'. exact R'.
  - cbn in R. injection R; intros _ <-. rewrite mem_cons, N.eqb_refl in Hu'. discriminate.
  - cbn in R. injection R; intros _ ->. rewrite mem_cons, N.eqb_refl in Hu. discriminate.
  - cbn in R. injection R; intros R' _. rewrite mem_cons in Hu, Hu'. apply orb_false_iff in Hu, Hu'.
    exact (IH u' R' (proj2 Hu) (proj2 Hu')).
Qed.
Lemma child_under p a k : child p a -> covers a k = true -> under p k = true.
Proof.
  intros [c [-> _]] C. unfold covers in C. apply orb_true_iff in C. apply under_spec. destruct C as [C|C].
  - apply seqb_eq in C. subst k. eauto.
  - apply under_spec in C. destruct C as [r ->]. exists (c ++ c_sl :: r). rewrite <- app_assoc. reflexivity.
Qed.
Lemma site_child_nsep sk a : site_folder sk -> child sk a -> nsep a = 3%nat.
Proof. intros Hs Ha. exact (site_assetb_nsep _ (site_asset_shape _ _ Hs Ha)). Qed.

(** * The calls of a run without faults *)
Section NF.
  Variables (e : env) (clk : nat -> Z) (gr : Z).
  Hypothesis NF : no_faults e.

  Lemma nf_delete k s : do_delete e k s = (true, logged KDelete k true (remove k (sto s)) s).
  Proof. unfold do_delete. rewrite (nf_faulty e s NF), (nf_pfaulty e s NF), (nf_efaulty e s NF). reflexivity. Qed.
  Lemma nf_load_file k s v c : lookup (sto s) k = Some (File v c) ->
    do_load e k s = (LOk v c, logged KLoad k true (sto s) s).
  Proof. intros H. unfold do_load. rewrite (nf_faulty e s NF), H. reflexivity. Qed.
  Lemma nf_list k s : exists s1, do_list e k s = (list_pure (lfe e) (sto s) k, s1) /\ sto s1 = sto s.
  Proof. unfold do_list. rewrite (nf_faulty e s NF). eexists. split; reflexivity. Qed.
  Lemma nf_stat k s : exists s1, do_stat e k s = (stat_pure (sto s) k, s1) /\ sto s1 = sto s.
  Proof. unfold do_stat. rewrite (nf_faulty e s NF). eexists. split; reflexivity. Qed.
  Lemma nf_related base s :
    sto (delete_related e base [spec_ext_key; spec_ext_json] s) =
    remove (base ++ spec_ext_json) (remove (base ++ spec_ext_key) (sto s)).
  Proof.
    cbn [delete_related].
    destruct (do_delete e (base ++ spec_ext_key) s) as [b1 s1] eqn:D1. rewrite nf_delete in D1. injection D1; intros <- _.
    destruct (do_delete e (base ++ spec_ext_json) _) as [b2 s2] eqn:D2. rewrite nf_delete in D2. injection D2; intros <- _.
    reflexivity.
  Qed.

  Definition xp (c : cls) : Prop := forall i, expired_cert (clk i) gr c = true.

  Lemma assets_effective : forall assets, NoDup assets -> Forall (fun a => site_assetb a = true) assets ->
    forall s, (forall a, In a assets -> is_crt a -> cert_file (sto s) a) ->
    fst (assets_loop e clk gr assets s) = false /\
    (forall a v c, In a assets -> is_crt a -> lookup (sto s) a = Some (File v c) -> xp c ->
       forall x, In x (trio a) -> forall k, covers x k = true ->
       lookup (sto (snd (assets_loop e clk gr assets s))) k = None).
  Proof.
    destruct consts_ok as (Ec & Et & Er & _).
    induction assets as [|a0 r IH]; intros ND SA s HC; cbn [assets_loop]; [split; [reflexivity | intros a v c []]|].
    inversion ND as [|? ? Hnin ND']; subst. inversion SA as [|? ? Sa0 SA']; subst.
    assert (HCr : forall a, In a r -> is_crt a -> cert_file (sto s) a) by (intros a H; apply HC; right; exact H).
    rewrite Ec. destruct (seqb (path_ext a0) spec_ext_crt) eqn:Ext; cbn [negb].
    2:{ destruct (IH ND' SA' s HCr) as [F G]. split; [exact F|].
        intros a v c [<-|Hin] Hcrt; [unfold is_crt in Hcrt; congruence|]. exact (G a v c Hin Hcrt). }
    destruct (HC a0 (or_introl eq_refl) Ext) as (v0 & c0 & na0 & L0 & A0).
    rewrite (nf_load_file a0 s v0 c0 L0). rewrite A0.
    set (s1 := logged KLoad a0 true (sto s) s).
    destruct (expired_cert (rd clk s1) gr c0) eqn:X.
    - destruct (do_delete e a0 s1) as [b2 s2] eqn:D2. rewrite nf_delete in D2. injection D2; intros <- _.
      rewrite Et, Er.
      match goal with |- context [assets_loop e clk gr r ?sx] => set (s3 := sx) end.
      assert (E3 : sto s3 = remove (trim_suffix spec_ext_crt a0 ++ spec_ext_json)
                              (remove (trim_suffix spec_ext_crt a0 ++ spec_ext_key) (remove a0 (sto s))))
        by (subst s3; rewrite nf_related; reflexivity).
      assert (Keep : forall a, In a r -> is_crt a -> lookup (sto s3) a = lookup (sto s) a).
      { intros a Hin Hcrt. assert (Ne : a0 <> a) by (intros ->; contradiction).
        pose proof (proj1 (Forall_forall _ _) SA' a Hin) as Sa.
        rewrite E3, !lookup_remove.
        rewrite (trio_not_cover a0 a (trim_suffix spec_ext_crt a0 ++ spec_ext_json) Sa0 Ext Sa Hcrt Ne) by (cbn; auto).
        rewrite (trio_not_cover a0 a (trim_suffix spec_ext_crt a0 ++ spec_ext_key) Sa0 Ext Sa Hcrt Ne) by (cbn; auto).
        rewrite (trio_not_cover a0 a a0 Sa0 Ext Sa Hcrt Ne) by (cbn; auto). reflexivity. }
      assert (HC' : forall a, In a r -> is_crt a -> cert_file (sto s3) a).
      { intros a Hin Hcrt. destruct (HCr a Hin Hcrt) as (v & c & na & L & A). exists v, c, na.
        split; [rewrite (Keep a Hin Hcrt); exact L | exact A]. }
      destruct (IH ND' SA' s3 HC') as [F G]. split; [exact F|].
      intros a v c [<-|Hin] Hcrt La Hxp x Hx k Ck.
      + apply assets_loop_shrinks. rewrite E3, !lookup_remove. unfold trio in Hx.
        destruct Hx as [<-|[<-|[<-|[]]]]; rewrite ?Ck;
          repeat match goal with |- (if ?b then None else _) = None => destruct b eqn:?; [reflexivity|] end;
          try reflexivity; congruence.
      + exact (G a v c Hin Hcrt (eq_trans (Keep a Hin Hcrt) La) Hxp x Hx k Ck).
    - assert (HC1 : forall a, In a r -> is_crt a -> cert_file (sto s1) a) by exact HCr.
      destruct (IH ND' SA' s1 HC1) as [F G]. split; [exact F|].
      intros a v c [<-|Hin] Hcrt La Hxp; [|exact (G a v c Hin Hcrt La Hxp)].
      exfalso. rewrite L0 in La. injection La; intros <- _. specialize (Hxp (length (lg s1))).
      unfold rd in X. congruence.
  Qed.

  (** the assets loop of one site folder touches nothing outside that folder (faults or not) *)
  Lemma assets_frame sk : site_folder sk -> forall assets, Forall (child sk) assets ->
    forall s a, nsep a = 3%nat -> ~ child sk a ->
    lookup (sto (snd (assets_loop e clk gr assets s))) a = lookup (sto s) a.
  Proof.
    destruct consts_ok as (Ec & Et & Er & _).
    intros Hsk. induction assets as [|a0 r IH]; intros HF s a Na Nc; cbn [assets_loop]; [reflexivity|].
    inversion HF as [|? ? C0 HF']; subst.
    rewrite Ec. destruct (seqb (path_ext a0) spec_ext_crt) eqn:Ext; cbn [negb]; [|apply IH; assumption].
    pose proof (do_load_sto e a0 s) as E1. destruct (do_load e a0 s) as [res s1]. cbn [snd] in E1.
    destruct res as [v c| |]; cbn [snd]; try (rewrite E1; reflexivity).
    destruct (as_cert c); cbn [snd]; [|rewrite E1; reflexivity].
    destruct (expired_cert (rd clk s1) gr c); [|rewrite <- E1; apply IH; assumption].
    assert (NC : forall x, In x (trio a0) -> covers x a = false).
    { intros x Hx. destruct (covers x a) eqn:C; [|reflexivity]. exfalso.
      apply covers_nsep in C; [|rewrite Na; symmetry; exact (trio_nsep a0 x (site_asset_shape _ _ Hsk C0) Ext Hx)].
      subst a. exact (Nc (trio_children sk a0 x C0 Ext Hx)). }
    assert (Del : forall x st, In x (trio a0) -> lookup (sto (snd (do_delete e x st))) a = lookup (sto st) a).
    { intros x st Hx. destruct (do_delete e x st) as [b st'] eqn:D. cbn [snd].
      destruct (do_delete_spec _ _ _ _ _ D) as [-> | [-> | [keep ->]]]; [reflexivity| |].
      - rewrite lookup_remove, (NC x Hx). reflexivity.
      - rewrite lookup_removep, (NC x Hx). reflexivity. }
    pose proof (Del a0 s1 (or_introl eq_refl)) as D0. destruct (do_delete e a0 s1) as [b2 s2]. cbn [snd] in D0.
    rewrite Et, Er. rewrite IH by assumption. cbn [delete_related].
    pose proof (Del (trim_suffix spec_ext_crt a0 ++ spec_ext_key) s2 (or_intror (or_introl eq_refl))) as D1.
    destruct (do_delete e (trim_suffix spec_ext_crt a0 ++ spec_ext_key) s2) as [b3 s3]. cbn [snd] in D1.
    pose proof (Del (trim_suffix spec_ext_crt a0 ++ spec_ext_json) s3 (or_intror (or_intror (or_introl eq_refl)))) as D2.
    destruct (do_delete e (trim_suffix spec_ext_crt a0 ++ spec_ext_json) s3) as [b4 s4]. cbn [snd] in D2.
    congruence.
  Qed.
End NF.

Lemma covers_refl a : covers a a = true.
Proof. unfold covers. rewrite seqb_refl. reflexivity. Qed.
Lemma child_covers p a : child p a -> covers p a = true.
Proof. intros C. unfold covers. rewrite (child_under p a a C (covers_refl a)). apply orb_true_r. Qed.

Definition reminv (Q : store -> Prop) : Prop := forall x st, Q st -> Q (remove x st).
Lemma reminv_none k : reminv (fun st => lookup st k = None).
Proof. intros x st H. rewrite lookup_remove. destruct (covers x k); [reflexivity | exact H]. Qed.
Lemma reminv_notfile k : reminv (fun st => notfile st k).
Proof. intros x st. apply notfile_remove. Qed.

(** * What a run without faults achieves, site folder by site folder *)
Section Clauses.
  Variables (clk : nat -> Z) (gr : Z).
  (** the assets of every certificate of the folder that is expired at every reading are gone *)
  Definition trio_clause (s s' : store) (sk : key) : Prop :=
    forall a v c, child sk a -> is_crt a -> lookup s a = Some (File v c) -> xp clk gr c ->
      forall x, In x (trio a) -> forall k, covers x k = true -> lookup s' k = None.
  (** everything in the folder is (or lies under) an asset of such a certificate *)
  Definition all_expired (s : store) (sk : key) : Prop :=
    forall k, under sk k = true -> lookup s k <> None ->
      exists a v c x, child sk a /\ is_crt a /\ lookup s a = Some (File v c) /\ xp clk gr c /\ In x (trio a) /\ covers x k = true.
  (** ... then the folder is gone too *)
  Definition folder_clause (s s' : store) (sk : key) : Prop :=
    all_expired s sk -> forall k, covers sk k = true -> lookup s' k = None.
  Definition clauses (s s' : store) (sk : key) : Prop := trio_clause s s' sk /\ folder_clause s s' sk.

  Lemma clauses_shrink s s1 s' sk : shrinks s1 s' -> clauses s s1 sk -> clauses s s' sk.
  Proof.
    intros SH [T Fo]. split.
    - intros a v c Ca Hc La Hx x Hi k Ck. apply SH. exact (T a v c Ca Hc La Hx x Hi k Ck).
    - intros AE k Ck. apply SH. exact (Fo AE k Ck).
  Qed.
  Lemma clauses_transfer s s1 s' sk : (forall a, child sk a -> lookup s1 a = lookup s a) -> shrinks s s1 ->
    clauses s1 s' sk -> clauses s s' sk.
  Proof.
    intros Keep SH [T Fo]. split.
    - intros a v c Ca Hc La Hx. apply (T a v c Ca Hc); [rewrite (Keep a Ca); exact La | exact Hx].
    - intros AE. apply Fo. intros k U Lk.
      assert (Ls : lookup s k <> None) by (intros N; apply Lk; exact (SH k N)).
      destruct (AE k U Ls) as (a & v & c & x & Ca & Hc & La & Hx & Hi & Ck).
      exists a, v, c, x. repeat split; try assumption. rewrite (Keep a Ca). exact La.
  Qed.
  Lemma clauses_absent s s' sk : shrinks s s' -> ~ present_below s sk -> clauses s s' sk.
  Proof.
    intros SH NP. split.
    - intros a v c Ca _ La. exfalso. apply NP. exists a. split; [exact (child_covers _ _ Ca) | congruence].
    - intros _ k Ck. apply SH. destruct (lookup s k) eqn:Lk; [|reflexivity]. exfalso. apply NP. exists k. split; [exact Ck | congruence].
  Qed.
End Clauses.

Section NF2.
  Variables (e : env) (clk : nat -> Z) (gr : Z).
  Hypothesis NF : no_faults e.

  Lemma site_step sk r s : site_folder sk -> crt_wf (sto s) ->
    exists s', sites_loop e clk gr (sk :: r) s = sites_loop e clk gr r s' /\
      (forall Q, reminv Q -> Q (sto s) -> Q (sto s')) /\
      (forall a, nsep a = 3%nat -> ~ child sk a -> lookup (sto s') a = lookup (sto s) a) /\
      (notfile (sto s) sk -> clauses clk gr (sto s) (sto s') sk).
  Proof.
    intros Hsk WF. cbn [sites_loop]. rewrite (nf_cancelled e s NF).
    destruct (nf_list e NF sk s) as [s1 [L1 E1]]. rewrite L1.
    destruct (list_pure (lfe e) (sto s) sk) as [assets|] eqn:LP.
    2:{ exists s1. split; [reflexivity|]. split; [intros Q _ H; rewrite E1; exact H|]. split; [intros; rewrite E1; reflexivity|].
        intros NFl. rewrite E1. apply clauses_absent; [apply shrinks_refl|].
        intros PB.
        assert (PB' : exists a, child sk a /\ present_below (sto s) a \/ lookup (sto s) sk <> None).
        { destruct PB as [k [Ck Lk]]. unfold covers in Ck. apply orb_true_iff in Ck. destruct Ck as [Ck|Ck].
          - apply seqb_eq in Ck. subst k. exists sk. right. exact Lk.
          - apply under_spec in Ck. destruct Ck as [rest ->].
            destruct (take_comp_split rest) as [t [Er Ht]]. exists (sk ++ c_sl :: take_comp rest). left. split.
            + exists (take_comp rest). split; [reflexivity | apply take_comp_nosep].
            + exists (sk ++ c_sl :: rest). split; [|exact Lk]. unfold covers. apply orb_true_iff.
              destruct Ht as [->|[t' ->]].
              * left. apply seqb_eq. rewrite app_nil_r in Er. rewrite <- Er. reflexivity.
              * right. apply under_spec. exists t'. rewrite Er at 1. rewrite <- !app_assoc. reflexivity. }
        destruct PB' as [a [[Ca PBa]|Lk]].
        - destruct (list_pure_complete' (lfe e) _ _ _ PBa Ca NFl) as [ks [X _]]. congruence.
        - unfold list_pure in LP. destruct (lookup (sto s) sk) as [[v c|]|] eqn:Ls; [exact (NFl v c Ls) | discriminate | congruence]. }
    pose proof (list_pure_nodup _ _ _ _ LP) as ND.
    pose proof (list_pure_child _ _ _ _ LP) as CH.
    assert (SA : Forall (fun a => site_assetb a = true) assets).
    { apply Forall_forall. intros a Hin. exact (site_asset_shape _ _ Hsk (proj1 (Forall_forall _ _) CH a Hin)). }
    assert (HC : forall a, In a assets -> is_crt a -> cert_file (sto s1) a).
    { intros a Hin Hc. rewrite E1. apply WF; [exact (proj1 (Forall_forall _ _) SA a Hin) | exact Hc | exact (list_pure_sound _ _ _ _ _ LP Hin)]. }
    destruct (assets_effective e clk gr NF assets ND SA s1 HC) as [F G].
    pose proof (assets_frame e clk gr sk Hsk assets CH s1) as FR.
    pose proof (assets_loop_shrinks e clk gr assets s1) as SH.
    pose proof (fun Q (HQ : reminv Q) => assets_loop_Q Q HQ e clk NF gr assets s1) as PQ.
    destruct (assets_loop e clk gr assets s1) as [ab s2]. cbn [fst snd] in *. subst ab.
    rewrite E1 in G, FR, SH, PQ.
    assert (InA : notfile (sto s) sk -> forall a, child sk a -> lookup (sto s) a <> None -> In a assets).
    { intros NFl a Ca La. destruct (list_pure_complete' (lfe e) (sto s) sk a) as [ks [X Hin]];
        [exists a; split; [apply covers_refl | exact La] | exact Ca | exact NFl|].
      rewrite LP in X. injection X; intros ->. exact Hin. }
    assert (TC : notfile (sto s) sk -> trio_clause clk gr (sto s) (sto s2) sk).
    { intros NFl a v c Ca Hc La Hx x Hin k Ck.
      assert (Ia : In a assets) by (apply (InA NFl a Ca); congruence).
      exact (G a v c Ia Hc La Hx x Hin k Ck). }
    assert (U2 : notfile (sto s) sk -> all_expired clk gr (sto s) sk -> forall k, under sk k = true -> lookup (sto s2) k = None).
    { intros NFl AE k U. destruct (lookup (sto s2) k) eqn:Lk; [|reflexivity]. exfalso.
      assert (Ls : lookup (sto s) k <> None) by (intros N; rewrite (SH k N) in Lk; discriminate).
      destruct (AE k U Ls) as (a & v & c & x & Ca & Hc & La & Hx & Hin & Ck).
      rewrite (TC NFl a v c Ca Hc La Hx x Hin k Ck) in Lk. discriminate. }
    assert (NF2 : notfile (sto s) sk -> notfile (sto s2) sk).
    { intros NFl. exact (PQ (fun st => notfile st sk) (reminv_notfile sk) NFl). }
    (* what remains to be shown when the iteration ends in a state with the storage of s2 *)
    assert (Same : forall s', sto s' = sto s2 ->
              (notfile (sto s) sk -> all_expired clk gr (sto s) sk -> lookup (sto s2) sk = None) ->
              (forall Q, reminv Q -> Q (sto s) -> Q (sto s')) /\
              (forall a, nsep a = 3%nat -> ~ child sk a -> lookup (sto s') a = lookup (sto s) a) /\
              (notfile (sto s) sk -> clauses clk gr (sto s) (sto s') sk)).
    { intros s' Es Hroot. rewrite Es. split; [exact PQ|]. split; [exact FR|]. intros NFl. split; [exact (TC NFl)|].
      intros AE k Ck. unfold covers in Ck. apply orb_true_iff in Ck. destruct Ck as [Ck|Ck].
      - apply seqb_eq in Ck. subst k. exact (Hroot NFl AE).
      - exact (U2 NFl AE k Ck). }
    destruct (nf_list e NF sk s2) as [s3 [L3 E3]]. rewrite L3.
    destruct (list_pure (lfe e) (sto s2) sk) as [[|y ys]|] eqn:LP2.
    - destruct (nf_stat e NF sk s3) as [s4 [L4 E4]]. rewrite L4, E3.
      destruct (list_pure_nil _ _ _ LP2) as [(v & c & Hfile)|[Hd Hnil]].
      + (* a terminal key: Stat says so *)
        unfold stat_pure. rewrite Hfile. exists s4. split; [reflexivity|]. apply Same; [rewrite E4; exact E3|].
        intros NFl _. exfalso. exact (NF2 NFl v c Hfile).
      + unfold stat_pure. rewrite Hd. unfold is_dir. rewrite Hd.
        rewrite (nf_delete e NF sk s4).
        eexists. split; [reflexivity|]. cbn [sto logged]. rewrite E4, E3. split; [|split].
        * intros Q HQ H. apply HQ. exact (PQ Q HQ H).
        * intros a Na Nc. rewrite lookup_remove. destruct (covers sk a) eqn:C; [|exact (FR a Na Nc)].
          exfalso. exact (Nc (folder_child sk a Hsk Na C)).
        * intros NFl. split.
          -- intros a v c Ca Hc La Hx x Hin k Ck. rewrite lookup_remove. destruct (covers sk k); [reflexivity|].
             exact (TC NFl a v c Ca Hc La Hx x Hin k Ck).
          -- intros _ k Ck. rewrite lookup_remove, Ck. reflexivity.
    - exists s3. split; [reflexivity|]. apply Same; [exact E3|].
      intros NFl AE. exfalso.
      destruct (list_pure_sound _ _ _ _ y LP2 (or_introl eq_refl)) as [k [Ck Lk]].
      pose proof (proj1 (Forall_forall _ _) (list_pure_child _ _ _ _ LP2) y (or_introl eq_refl)) as Cy.
      apply Lk. exact (U2 NFl AE k (child_under sk y k Cy Ck)).
    - exists s3. split; [reflexivity|]. apply Same; [exact E3|].
      intros NFl _. unfold list_pure in LP2. destruct (lookup (sto s2) sk) as [[v c|]|] eqn:Ls; [|discriminate|reflexivity].
      exfalso. exact (NF2 NFl v c Ls).
  Qed.

  Lemma sites_all ik : child spec_certs ik -> forall sites, NoDup sites -> Forall (child ik) sites ->
    forall s, crt_wf (sto s) ->
    fst (sites_loop e clk gr sites s) = false /\
    (forall Q, reminv Q -> Q (sto s) -> Q (sto (snd (sites_loop e clk gr sites s)))) /\
    (forall a, nsep a = 3%nat -> (forall sk, In sk sites -> ~ child sk a) ->
       lookup (sto (snd (sites_loop e clk gr sites s))) a = lookup (sto s) a) /\
    (forall sk, In sk sites -> notfile (sto s) sk ->
       clauses clk gr (sto s) (sto (snd (sites_loop e clk gr sites s))) sk).
  Proof.
    intros Hik. induction sites as [|sk0 r IH]; intros ND HF s WF.
    - cbn [sites_loop fst snd]. split; [reflexivity|]. split; [intros Q _ H; exact H|]. split; [reflexivity|]. intros sk [].
    - inversion ND as [|? ? Hnin ND']; subst. inversion HF as [|? ? C0 HF']; subst.
      assert (Hsk0 : site_folder sk0) by (exists ik; auto).
      destruct (site_step sk0 r s Hsk0 WF) as (s1 & Eq & Q1 & F1 & Eff1). rewrite Eq.
      assert (WF1 : crt_wf (sto s1)) by (apply (Q1 crt_wf); [exact crt_wf_remove | exact WF]).
      destruct (IH ND' HF' s1 WF1) as (F & Q2 & F2 & Eff2).
      pose proof (sites_loop_shrinks e clk gr r s1) as SH.
      split; [exact F|]. split; [intros Q HQ H; exact (Q2 Q HQ (Q1 Q HQ H))|]. split.
      + intros a Na Nc. rewrite F2; [apply F1; [exact Na | apply Nc; left; reflexivity] | exact Na | intros sk Hin; apply Nc; right; exact Hin].
      + intros sk [<-|Hin] NFl.
        * exact (clauses_shrink clk gr _ _ _ _ SH (Eff1 NFl)).
        * assert (Ne : sk <> sk0) by (intros ->; contradiction).
          assert (Hsk : site_folder sk) by (exists ik; split; [exact Hik | exact (proj1 (Forall_forall _ _) HF' sk Hin)]).
          assert (NF1 : notfile (sto s1) sk) by (exact (Q1 _ (reminv_notfile sk) NFl)).
          apply (clauses_transfer clk gr (sto s) (sto s1)); [| |exact (Eff2 sk Hin NF1)].
          -- intros a Ca. apply F1; [exact (site_child_nsep sk a Hsk Ca)|]. intros C0'. apply Ne. exact (child_parent_unique _ _ _ Ca C0').
          -- intros k N. exact (Q1 _ (reminv_none k) N).
  Qed.

  Lemma issuers_all : forall iss, NoDup iss -> Forall (child spec_certs) iss ->
    forall s, crt_wf (sto s) ->
    fst (issuers_loop e clk gr iss s) = false /\
    (forall Q, reminv Q -> Q (sto s) -> Q (sto (snd (issuers_loop e clk gr iss s)))) /\
    (forall a, nsep a = 3%nat -> (forall ik sk, In ik iss -> child ik sk -> ~ child sk a) ->
       lookup (sto (snd (issuers_loop e clk gr iss s))) a = lookup (sto s) a) /\
    (forall ik sk, In ik iss -> child ik sk -> notfile (sto s) ik -> notfile (sto s) sk ->
       clauses clk gr (sto s) (sto (snd (issuers_loop e clk gr iss s))) sk).
  Proof.
    induction iss as [|ik0 r IH]; intros ND HF s WF.
    - cbn [issuers_loop fst snd]. split; [reflexivity|]. split; [intros Q _ H; exact H|]. split; [reflexivity|]. intros ik sk [].
    - inversion ND as [|? ? Hnin ND']; subst. inversion HF as [|? ? C0 HF']; subst.
      cbn [issuers_loop]. destruct (nf_list e NF ik0 s) as [s1 [L1 E1]]. rewrite L1.
      destruct (list_pure (lfe e) (sto s) ik0) as [sites|] eqn:LP.
      + pose proof (list_pure_nodup _ _ _ _ LP) as NDs. pose proof (list_pure_child _ _ _ _ LP) as CHs.
        assert (WF1 : crt_wf (sto s1)) by (rewrite E1; exact WF).
        destruct (sites_all ik0 C0 sites NDs CHs s1 WF1) as (F & Q1 & F1 & Eff1).
        destruct (sites_loop e clk gr sites s1) as [ab s2]. cbn [fst snd] in *. subst ab. rewrite E1 in Q1, F1, Eff1.
        assert (WF2 : crt_wf (sto s2)) by (exact (Q1 crt_wf crt_wf_remove WF)).
        destruct (IH ND' HF' s2 WF2) as (F' & Q2 & F2 & Eff2).
        pose proof (issuers_loop_shrinks e clk gr r s2) as SH.
        split; [exact F'|]. split; [intros Q HQ H; exact (Q2 Q HQ (Q1 Q HQ H))|]. split.
        * intros a Na Nc. rewrite F2; [apply F1; [exact Na|] | exact Na | intros ik sk Hin; apply Nc; right; exact Hin].
          intros sk Hin. apply (Nc ik0 sk (or_introl eq_refl)). exact (proj1 (Forall_forall _ _) CHs sk Hin).
        * intros ik sk [<-|Hin] Csk NFi NFs.
          -- apply (clauses_shrink clk gr _ (sto s2)); [exact SH|].
             destruct (in_dec (list_eq_dec N.eq_dec) sk sites) as [Hs|Hs]; [exact (Eff1 sk Hs NFs)|].
             apply clauses_absent; [intros k N; exact (Q1 _ (reminv_none k) N)|].
             intros PB. apply Hs. destruct (list_pure_complete' (lfe e) _ _ _ PB Csk NFi) as [ks [X Hk]].
             rewrite LP in X. injection X; intros ->. exact Hk.
          -- assert (Ne : ik <> ik0) by (intros ->; contradiction).
             apply (clauses_transfer clk gr (sto s) (sto s2)); [| |apply (Eff2 ik sk Hin Csk)].
             ++ intros a Ca. apply F1.
                ** apply (site_child_nsep sk a); [|exact Ca]. exists ik. split; [exact (proj1 (Forall_forall _ _) HF' ik Hin) | exact Csk].
                ** intros sk' Hin' C'. pose proof (child_parent_unique _ _ _ Ca C') as ->.
                   apply Ne. exact (child_parent_unique _ _ _ Csk (proj1 (Forall_forall _ _) CHs sk' Hin')).
             ++ intros k N. exact (Q1 _ (reminv_none k) N).
             ++ exact (Q1 _ (reminv_notfile ik) NFi).
             ++ exact (Q1 _ (reminv_notfile sk) NFs).
      + assert (WF1 : crt_wf (sto s1)) by (rewrite E1; exact WF).
        destruct (IH ND' HF' s1 WF1) as (F' & Q2 & F2 & Eff2). rewrite E1 in Q2, F2, Eff2.
        pose proof (issuers_loop_shrinks e clk gr r s1) as SH. rewrite E1 in SH.
        split; [exact F'|]. split; [exact Q2|]. split.
        * intros a Na Nc. apply F2; [exact Na|]. intros ik sk Hin; apply Nc; right; exact Hin.
        * intros ik sk [<-|Hin] Csk NFi NFs; [|exact (Eff2 ik sk Hin Csk NFi NFs)].
          apply clauses_absent; [exact SH|].
          intros PB. destruct (list_pure_complete' (lfe e) _ _ _ PB Csk NFi) as [ks [X _]]. congruence.
  Qed.
End NF2.

(** * The whole run *)
Lemma clauses_shrink_under clk gr s s1 s' sk :
  (forall k, covers sk k = true -> lookup s1 k = None -> lookup s' k = None) ->
  clauses clk gr s s1 sk -> clauses clk gr s s' sk.
Proof.
  intros SH [T Fo]. split.
  - intros a v c Ca Hc La Hx x Hi k Ck. apply SH; [|exact (T a v c Ca Hc La Hx x Hi k Ck)].
    exact (covers_trans _ _ _ (child_covers _ _ (trio_children sk a x Ca Hc Hi)) Ck).
  - intros AE k Ck. apply SH; [exact Ck | exact (Fo AE k Ck)].
Qed.

(** the staples phase leaves keys outside ocsp/ alone (faults or not) *)
Lemma staples_frame e clk ks : Forall (child spec_ocsp) ks -> forall s k, has_prefix ocsp_pfx k = false ->
  lookup (sto (staples_loop e clk ks s)) k = lookup (sto s) k.
Proof.
  induction ks as [|a r IH]; intros HF s k Hk; cbn [staples_loop]; [reflexivity|].
  inversion HF as [|? ? Ca HF']; subst.
  destruct (cancelled e s); [reflexivity|].
  pose proof (do_load_sto e a s) as E. destruct (do_load e a s) as [res s1]. cbn [snd] in E.
  destruct res as [v c| |]; try (rewrite IH by assumption; rewrite E; reflexivity).
  destruct (stale_staple (rd clk s1) c); [|rewrite IH by assumption; rewrite E; reflexivity].
  destruct (do_delete e a s1) as [b s2] eqn:D. rewrite IH by assumption. rewrite <- E.
  assert (NC : covers a k = false).
  { destruct (covers a k) eqn:C; [|reflexivity]. exfalso.
    assert (P : has_prefix ocsp_pfx a = true).
    { destruct Ca as [ca [-> _]]. apply has_prefix_spec. exists ca. unfold ocsp_pfx. rewrite <- app_assoc. reflexivity. }
    rewrite (covers_prefix _ _ _ P C) in Hk. discriminate. }
  destruct (do_delete_spec _ _ _ _ _ D) as [-> | [-> | [keep ->]]]; [reflexivity| |].
  - rewrite lookup_remove, NC. reflexivity.
  - rewrite lookup_removep, NC. reflexivity.
Qed.
Lemma old_staples_frame e clk s k : has_prefix ocsp_pfx k = false ->
  lookup (sto (delete_old_staples e clk s)) k = lookup (sto s) k.
Proof.
  intros Hk. unfold delete_old_staples.
  destruct (do_list e prefix_ocsp s) as [res s1] eqn:L. destruct (do_list_spec _ _ _ _ _ L) as (E1 & Hl).
  destruct res as [ks|]; [|rewrite E1; reflexivity].
  rewrite staples_frame; [rewrite E1; reflexivity | | exact Hk].
  destruct consts_ok as (_ & _ & _ & _ & _ & _ & _ & _ & _ & <-). exact (list_pure_child _ _ _ _ (Hl ks eq_refl)).
Qed.

Lemma site_folder_prefix sk k : site_folder sk -> covers sk k = true -> has_prefix certs_pfx k = true.
Proof.
  intros Hs C. apply (covers_prefix _ sk); [|exact C]. exact (site_folderb_prefix _ (site_folder_shape _ Hs)).
Qed.

Section Top.
  Variables (e : env) (o : opts) (clk : nat -> Z) (s0 : store).
  Hypotheses (NF : no_faults e) (Hc : do_certs o = true) (Hi : interval o <= 0)
             (WF : crt_wf s0) (NFc : notfile s0 spec_certs).
  Variables (ik sk : key).
  Hypotheses (Cik : child spec_certs ik) (Csk : child ik sk) (NFi : notfile s0 ik) (NFs : notfile s0 sk).

  Lemma certs_phase s : crt_wf (sto s) -> notfile (sto s) spec_certs -> notfile (sto s) ik -> notfile (sto s) sk ->
    clauses clk (grace o) (sto s) (sto (snd (delete_expired_certs e clk (grace o) s))) sk.
  Proof.
    intros WFs N1 N2 N3. unfold delete_expired_certs.
    destruct consts_ok as (_ & _ & _ & _ & _ & _ & _ & _ & -> & _).
    destruct (nf_list e NF spec_certs s) as [s1 [L1 E1]]. rewrite L1.
    destruct (list_pure (lfe e) (sto s) spec_certs) as [iss|] eqn:LP.
    - pose proof (list_pure_nodup _ _ _ _ LP) as ND. pose proof (list_pure_child _ _ _ _ LP) as CH.
      assert (WF1 : crt_wf (sto s1)) by (rewrite E1; exact WFs).
      destruct (issuers_all e clk (grace o) NF iss ND CH s1 WF1) as (_ & Q1 & _ & Eff). rewrite E1 in Q1, Eff.
      destruct (in_dec (list_eq_dec N.eq_dec) ik iss) as [Hin|Hin]; [exact (Eff ik sk Hin Csk N2 N3)|].
      apply clauses_absent; [intros k N; exact (Q1 _ (reminv_none k) N)|].
      intros [k [Ck Lk]]. apply Hin.
      destruct (list_pure_complete' (lfe e) (sto s) spec_certs ik) as [ks [X Hk]]; [|exact Cik|exact N1|].
      + exists k. split; [exact (covers_trans _ _ _ (child_covers _ _ Csk) Ck) | exact Lk].
      + rewrite LP in X. injection X; intros ->. exact Hk.
    - cbn [snd]. rewrite E1. apply clauses_absent; [apply shrinks_refl|].
      intros [k [Ck Lk]].
      destruct (list_pure_complete' (lfe e) (sto s) spec_certs ik) as [ks [X _]]; [|exact Cik|exact N1|congruence].
      exists k. split; [exact (covers_trans _ _ _ (child_covers _ _ Csk) Ck) | exact Lk].
  Qed.

  Lemma clean_clauses : clauses clk (grace o) s0 (sto (snd (clean e o clk s0))) sk.
  Proof.
    assert (Hsk : site_folder sk) by (exists ik; auto).
    unfold clean, do_lock. rewrite (nf_faulty e _ NF).
    set (sA := logged KLock clean_lock_name true (sto (St s0 [])) (St s0 [])).
    unfold clean_locked, interval_check.
    replace (0 <? interval o) with false by (symmetry; apply Z.ltb_ge; exact Hi).
    rewrite Hc.
    set (s2 := if do_ocsp o then delete_old_staples e clk sA else sA).
    assert (Q2 : forall Q, reminv Q -> Q s0 -> Q (sto s2)).
    { intros Q HQ H. subst s2. destruct (do_ocsp o); [apply delete_old_staples_Q; [exact HQ | exact NF | exact H] | exact H]. }
    assert (K2 : forall k, has_prefix ocsp_pfx k = false -> lookup (sto s2) k = lookup s0 k).
    { intros k Hk. subst s2. destruct (do_ocsp o); [rewrite old_staples_frame by exact Hk; reflexivity | reflexivity]. }
    pose proof (certs_phase s2 (Q2 _ crt_wf_remove WF) (Q2 _ (reminv_notfile _) NFc) (Q2 _ (reminv_notfile _) NFi)
                  (Q2 _ (reminv_notfile _) NFs)) as C3.
    set (s3 := snd (delete_expired_certs e clk (grace o) s2)) in *.
    assert (C03 : clauses clk (grace o) s0 (sto s3) sk).
    { apply (clauses_transfer clk (grace o) s0 (sto s2)); [| |exact C3].
      - intros a Ca. apply K2. destruct (has_prefix ocsp_pfx a) eqn:P; [|reflexivity]. exfalso.
        exact (pfx_disjoint _ P (site_folder_prefix sk a Hsk (child_covers _ _ Ca))).
      - intros k N. exact (Q2 _ (reminv_none k) N). }
    destruct (do_store e clean_storage_key (written (rd clk s3) o) s3) as [ok s4] eqn:S. cbn [snd].
    unfold do_unlock. cbn [sto logged].
    apply (clauses_shrink_under clk (grace o) s0 (sto s3)); [|exact C03].
    intros k Ck N. destruct (do_store_spec _ _ _ _ _ _ S) as [(_ & -> & _)|(-> & _ & _)]; [exact N|].
    rewrite lookup_put. destruct consts_ok as (_ & _ & _ & _ & _ & _ & _ & -> & _).
    destruct (seqb spec_last_clean k) eqn:E; [|exact N]. exfalso. apply seqb_eq in E. subst k.
    pose proof (site_folder_prefix sk _ Hsk Ck) as P. vm_compute in P. discriminate.
  Qed.
End Top.

Lemma spec_expired_xp clk gr c : (forall i, spec_expired (clk i) gr c = true) -> xp clk gr c.
Proof.
  intros H i. specialize (H i). unfold spec_expired in H. unfold expired_cert.
  destruct (as_cert c); [|discriminate]. destruct consts_ok as (_ & _ & _ & -> & _). rewrite cmp_ge_spec. exact H.
Qed.
Lemma xp_spec_expired clk gr c : xp clk gr c -> forall i, spec_expired (clk i) gr c = true.
Proof.
  intros H i. specialize (H i). unfold spec_expired. unfold expired_cert in H.
  destruct (as_cert c); [|discriminate]. destruct consts_ok as (_ & _ & _ & Eg & _). rewrite Eg, cmp_ge_spec in H. exact H.
Qed.

(** a certificate file X.crt directly in a site folder that is expired for the grace period at every
    reading of the clock is gone after a cleaning with certificates on, no interval, no storage
    faults, no cancellation -- together with X.key and X.json and everything below them *)
Theorem expired_cert_assets_removed e o clk s0 ik sk a v c :
  no_faults e -> do_certs o = true -> interval o <= 0 -> crt_wf s0 ->
  notfile s0 spec_certs -> child spec_certs ik -> child ik sk -> notfile s0 ik -> notfile s0 sk ->
  child sk a -> seqb (path_ext a) spec_ext_crt = true -> file s0 a = Some (v, c) ->
  (forall i, spec_expired (clk i) (grace o) c = true) ->
  forall x, In x (trio a) -> forall k, covers x k = true -> lookup (sto (snd (clean e o clk s0))) k = None.
Proof.
  intros NF Hc Hi WF NFc Cik Csk NFi NFs Ca Ext Hf Hx.
  assert (Hl : lookup s0 a = Some (File v c)).
  { unfold file in Hf. destruct (lookup s0 a) as [[v' c'|]|]; try discriminate. injection Hf; intros -> ->. reflexivity. }
  destruct (clean_clauses e o clk s0 NF Hc Hi WF NFc ik sk Cik Csk NFi NFs) as [T _].
  exact (T a v c Ca Ext Hl (spec_expired_xp _ _ _ Hx)).
Qed.

(** ... and a site folder in which everything is (or lies under) X.crt, X.key or X.json of such
    certificates is gone itself, with everything below it *)
Theorem expired_site_folder_removed e o clk s0 ik sk :
  no_faults e -> do_certs o = true -> interval o <= 0 -> crt_wf s0 ->
  notfile s0 spec_certs -> child spec_certs ik -> child ik sk -> notfile s0 ik -> notfile s0 sk ->
  (forall k, under sk k = true -> lookup s0 k <> None ->
     exists a v c x, child sk a /\ seqb (path_ext a) spec_ext_crt = true /\ lookup s0 a = Some (File v c) /\
                     (forall i, spec_expired (clk i) (grace o) c = true) /\ In x (trio a) /\ covers x k = true) ->
  forall k, covers sk k = true -> lookup (sto (snd (clean e o clk s0))) k = None.
Proof.
  intros NF Hc Hi WF NFc Cik Csk NFi NFs AE.
  destruct (clean_clauses e o clk s0 NF Hc Hi WF NFc ik sk Cik Csk NFi NFs) as [_ Fo].
  apply Fo. intros k U Lk. destruct (AE k U Lk) as (a & v & c & x & Ca & Ext & La & Hx & Hin & Ck).
  exists a, v, c, x. exact (conj Ca (conj Ext (conj La (conj (spec_expired_xp _ _ _ Hx) (conj Hin Ck))))).
Qed.

(** * A computable sufficient condition for [crt_wf] (used for the examples) *)
Fixpoint prefixes (k : str) : list str :=
  match k with
  | [] => [[]]
  | c :: r => (if N.eqb c c_sl then [[]] else []) ++ map (cons c) (prefixes r)
  end.
Lemma covers_in_prefixes a : forall k, covers a k = true -> In a (prefixes k).
Proof.
  induction a as [|x a IH]; intros k C.
  - unfold covers in C. apply orb_true_iff in C. destruct C as [C|C].
    + apply seqb_eq in C. subst k. left; reflexivity.
    + apply under_spec in C. destruct C as [r ->]. cbn [app prefixes]. rewrite N.eqb_refl. left; reflexivity.
  - assert (Ek : exists r, k = x :: r /\ covers a r = true).
    { unfold covers in *. apply orb_true_iff in C. destruct C as [C|C].
      - apply seqb_eq in C. subst k. exists a. rewrite seqb_refl. auto.
      - apply under_spec in C. destruct C as [r ->]. exists (a ++ c_sl :: r). split; [reflexivity|].
        apply orb_true_iff. right. apply under_spec. eauto. }
    destruct Ek as [r [-> Cr]]. cbn [prefixes]. apply in_or_app. right. apply in_map. exact (IH r Cr).
Qed.
Definition cert_fileb (s : store) (a : key) : bool :=
  match lookup s a with Some (File _ c) => match as_cert c with Some _ => true | None => false end | _ => false end.
Definition crt_wfb (s : store) : bool :=
  forallb (fun en => forallb (fun a =>
    if site_assetb a then if seqb (path_ext a) spec_ext_crt then cert_fileb s a else true else true)
    (prefixes (fst en))) s.
Lemma crt_wfb_sound s : crt_wfb s = true -> crt_wf s.
Proof.
  intros H a Sa Ext [k [C Lk]].
  destruct (lookup s k) as [n|] eqn:L; [|congruence]. apply lookup_some_in in L.
  unfold crt_wfb in H. rewrite forallb_forall in H. specialize (H _ L). cbn [fst] in H.
  rewrite forallb_forall in H. specialize (H a (covers_in_prefixes a k C)). rewrite Sa, Ext in H.
  unfold cert_fileb in H. destruct (lookup s a) as [[v c|]|] eqn:La; try discriminate.
  destruct (as_cert c) as [na|] eqn:A; [|discriminate]. exists v, c, na. split; [exact La | exact A].
Qed.
