(** C18 — several cleanings one after the other (the order in which cleaners hold the storage_clean lock), with
    other actors acting during each of them (at any of its calls) and between them: the frame theorems of
    Clean/Interfere.v for one cleaning with foreign operations carry over to any such history. Together with
    [Interfere.deletes_warranted] (every Delete of a cleaner is warranted by what it read, against ANY world,
    i.e. whatever other cleaners and other actors do) this covers several foreign actors at several instants
    alongside several cleaners. *)
From CM Require Import Lib.Str Lib.CleanSyntax Gen.Consts Clean.Model Clean.Proofs Clean.Prog Clean.Concurrent Clean.Effective Clean.Interfere.
From Coq Require Import Lia.
Open Scope Z_scope.

(** one cleaning of the history: what the others do before it starts ([ir_pre]) and during it ([ir_fs]) *)
Record irun := IRun { ir_env : env; ir_fs : list (nat * fop); ir_opts : opts; ir_clk : nat -> Z; ir_pre : list fop }.
Definition fapply_all (fs : list fop) (s : store) : store := fold_left (fun s f => fapply f s) fs s.
Fixpoint cleani_seq (runs : list irun) (s : store) : store :=
  match runs with
  | [] => s
  | r :: rest =>
      cleani_seq rest (sto (snd (cleani (ir_env r) (ir_fs r) (ir_opts r) (ir_clk r) (fapply_all (ir_pre r) s))))
  end.

Lemma fapply_all_keeps (P : fop -> bool) k : (forall f s, P f = false -> lookup (fapply f s) k = lookup s k) ->
  forall fs s, (forall f, In f fs -> P f = false) -> lookup (fapply_all fs s) k = lookup s k.
Proof.
  intros HP. induction fs as [|f r IH]; intros s H; [reflexivity|]. cbn [fapply_all fold_left].
  change (lookup (fapply_all r (fapply f s)) k = lookup s k).
  rewrite IH by (intros f' Hf; apply H; right; exact Hf). apply HP. apply H. left; reflexivity.
Qed.

(** a key outside ocsp/ and certificates/ other than last_clean.json that none of the other actors ever
    changes has, after any number of cleanings with any foreign operations during and between them, the node
    it had at the beginning *)
Theorem cleani_seq_frame k : has_prefix ocsp_pfx k = false -> has_prefix certs_pfx k = false -> k <> spec_last_clean ->
  forall runs s0,
  (forall r, In r runs -> (forall i f, In (i, f) (ir_fs r) -> touches k f = false) /\
                          (forall f, In f (ir_pre r) -> touches k f = false)) ->
  lookup (cleani_seq runs s0) k = lookup s0 k.
Proof.
  intros H1 H2 H3. induction runs as [|r rest IH]; intros s0 H; [reflexivity|]. cbn [cleani_seq].
  destruct (H r (or_introl eq_refl)) as [Hfs Hpre].
  rewrite IH by (intros r' Hr; apply H; right; exact Hr).
  rewrite (cleani_frame (ir_env r) (ir_clk r) (ir_fs r) (ir_opts r) _ k H1 H2 H3 Hfs).
  apply (fapply_all_keeps (touches k)); [|exact Hpre].
  intros f s T. destruct f as [k' n|k']; cbn [fapply touches] in *.
  - rewrite lookup_put, T. reflexivity.
  - rewrite lookup_remove, T. reflexivity.
Qed.

(** the assets of a certificate that is not expired for the grace period of any of the cleanings at any of
    their readings of the clock, and that no other actor writes or deletes (nor a key above them): X.crt, X.key,
    X.json have at the end the nodes they had at the beginning *)
Theorem cleani_seq_live base v c : site_assetb (base ++ spec_ext_crt) = true ->
  forall runs s0, lookup s0 (base ++ spec_ext_crt) = Some (File v c) ->
  (forall r, In r runs ->
     (forall i, spec_expired (ir_clk r i) (grace (ir_opts r)) c = false) /\
     (forall suf, In suf asset_exts ->
        (forall i f, In (i, f) (ir_fs r) -> covers (fkey f) (base ++ spec_ext_crt) = false /\ covers (fkey f) (base ++ suf) = false) /\
        (forall f, In f (ir_pre r) -> covers (fkey f) (base ++ spec_ext_crt) = false /\ covers (fkey f) (base ++ suf) = false))) ->
  forall suf, In suf asset_exts -> lookup (cleani_seq runs s0) (base ++ suf) = lookup s0 (base ++ suf).
Proof.
  intros Ha. induction runs as [|r rest IH]; intros s0 Hf H suf Hs; [reflexivity|]. cbn [cleani_seq].
  destruct (H r (or_introl eq_refl)) as [Hlive Hno].
  set (s0' := fapply_all (ir_pre r) s0).
  assert (Pre : forall suf', In suf' asset_exts -> lookup s0' (base ++ suf') = lookup s0 (base ++ suf')).
  { intros suf' Hs'. destruct (Hno suf' Hs') as [_ Hp]. subst s0'.
    apply (fapply_all_keeps (fun f => covers (fkey f) (base ++ suf'))); [|intros f Hf'; exact (proj2 (Hp f Hf'))].
    intros f s T. destruct f as [k' n|k']; cbn [fapply fkey] in *.
    - rewrite lookup_put. unfold covers in T. apply orb_false_iff in T. rewrite (proj1 T). reflexivity.
    - rewrite lookup_remove, T. reflexivity. }
  assert (Hf' : lookup s0' (base ++ spec_ext_crt) = Some (File v c)) by (rewrite Pre by (cbn; auto); exact Hf).
  assert (Step : forall suf', In suf' asset_exts ->
            lookup (sto (snd (cleani (ir_env r) (ir_fs r) (ir_opts r) (ir_clk r) s0'))) (base ++ suf') = lookup s0 (base ++ suf')).
  { intros suf' Hs'. rewrite <- (Pre suf' Hs').
    exact (cleani_live_frame (ir_env r) (ir_clk r) (ir_fs r) (ir_opts r) s0' base suf' v c Ha Hs' Hf' Hlive (proj1 (Hno suf' Hs'))). }
  rewrite IH; [exact (Step suf Hs) | | | exact Hs].
  - rewrite (Step spec_ext_crt) by (cbn; auto). exact Hf.
  - intros r' Hr. apply H. right; exact Hr.
Qed.
