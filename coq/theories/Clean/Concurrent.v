(** C18 — concurrent cleaners at call granularity.

    The body of a cleaning (what [clean_locked] does between Lock and Unlock) as a resumption
    [prog] (Clean/Prog.v): a tree of Storage calls whose continuation receives the call's
    response, is proved equal to the direct-style model ([run_clean_locked_prog]). Threads are
    Fresh -> (Lock) -> Locked body -> (Unlock) -> Finished, exactly the structure of [clean]
    (acquireLock; body; deferred releaseLock). A state holds the shared storage, the lock holder
    and any number of threads; a step of thread t performs t's next call atomically on the shared
    storage ([Lock] is enabled only while the lock is free). For every schedule:
    - at most one thread is inside, the holder is inside ([cinv]);
    - whenever the lock is free the storage equals [clean_seq] of the cleanings completed so far,
      in the order in which they got the lock (serialisability, [concurrent_serial]);
    - unless all threads are finished some thread can move ([no_deadlock]). *)
From CM Require Import Lib.Str Lib.CleanSyntax Gen.Consts Clean.Model Clean.Prog Clean.Proofs.
From Coq Require Import Lia.
Open Scope Z_scope.

(** ** the resumption is the model *)
Section Equiv.
  Variables (e : env) (clk : nat -> Z).

  Lemma staples_prog_ok ks kont : forall s,
    run e clk (staples_prog ks kont) s = run e clk kont (staples_loop e clk ks s).
  Proof.
    induction ks as [|a r IH]; intros s; cbn [staples_prog staples_loop]; [reflexivity|].
    cbn [run exec]. destruct (cancelled e s); [reflexivity|].
    cbn [run exec]. destruct (do_load e a s) as [res s1]. destruct res as [v c| |]; try apply IH.
    cbn [run exec]. destruct (stale_staple (rd clk s1) c); [|apply IH].
    cbn [run exec]. destruct (do_delete e a s1) as [b s2]. apply IH.
  Qed.
  Lemma old_staples_prog_ok kont s :
    run e clk (old_staples_prog kont) s = run e clk kont (delete_old_staples e clk s).
  Proof.
    unfold old_staples_prog, delete_old_staples. cbn [run exec].
    destruct (do_list e prefix_ocsp s) as [res s1]. destruct res as [ks|]; [apply staples_prog_ok | reflexivity].
  Qed.
  Lemma related_prog_ok base sufs kont : forall s,
    run e clk (related_prog base sufs kont) s = run e clk kont (delete_related e base sufs s).
  Proof.
    induction sufs as [|x r IH]; intros s; cbn [related_prog delete_related]; [reflexivity|].
    cbn [run exec]. destruct (do_delete e (base ++ x) s) as [b s1]. apply IH.
  Qed.
  Lemma assets_prog_ok gr assets kont : forall s,
    run e clk (assets_prog gr assets kont) s =
    run e clk (kont (fst (assets_loop e clk gr assets s))) (snd (assets_loop e clk gr assets s)).
  Proof.
    induction assets as [|a r IH]; intros s; cbn [assets_prog assets_loop]; [reflexivity|].
    destruct (negb (seqb (path_ext a) clean_ext_crt)); [apply IH|].
    cbn [run exec]. destruct (do_load e a s) as [res s1]. destruct res as [v c| |]; try reflexivity.
    destruct (as_cert c); [|reflexivity].
    cbn [run exec]. destruct (expired_cert (rd clk s1) gr c); [|apply IH].
    cbn [run exec]. destruct (do_delete e a s1) as [b s2]. rewrite related_prog_ok. apply IH.
  Qed.
  Lemma sites_prog_ok gr sites kont : forall s,
    run e clk (sites_prog gr sites kont) s =
    run e clk (kont (fst (sites_loop e clk gr sites s))) (snd (sites_loop e clk gr sites s)).
  Proof.
    induction sites as [|sk r IH]; intros s; cbn [sites_prog sites_loop]; [reflexivity|].
    cbn [run exec]. destruct (cancelled e s); [reflexivity|].
    cbn [run exec]. destruct (do_list e sk s) as [res s1]. destruct res as [assets|]; [|apply IH].
    rewrite assets_prog_ok. destruct (assets_loop e clk gr assets s1) as [ab s2]. cbn [fst snd].
    destruct ab; [reflexivity|].
    cbn [run exec]. destruct (do_list e sk s2) as [res2 s3]. destruct res2 as [[|x xs]|]; try apply IH.
    cbn [run exec]. destruct (do_stat e sk s3) as [sr s4]. destruct sr; try apply IH.
    cbn [run exec]. destruct (do_delete e sk s4) as [ok s5]. destruct ok; [apply IH | reflexivity].
  Qed.
  Lemma issuers_prog_ok gr iss kont : forall s,
    run e clk (issuers_prog gr iss kont) s =
    run e clk (kont (fst (issuers_loop e clk gr iss s))) (snd (issuers_loop e clk gr iss s)).
  Proof.
    induction iss as [|ik r IH]; intros s; cbn [issuers_prog issuers_loop]; [reflexivity|].
    cbn [run exec]. destruct (do_list e ik s) as [res s1]. destruct res as [sites|]; [|apply IH].
    rewrite sites_prog_ok. destruct (sites_loop e clk gr sites s1) as [ab s2]. cbn [fst snd].
    destruct ab; [reflexivity | apply IH].
  Qed.
  Lemma expired_certs_prog_ok gr kont s :
    run e clk (expired_certs_prog gr kont) s = run e clk kont (snd (delete_expired_certs e clk gr s)).
  Proof.
    unfold expired_certs_prog, delete_expired_certs. cbn [run exec].
    destruct (do_list e prefix_certs s) as [res s1]. destruct res as [iss|]; [|reflexivity].
    rewrite issuers_prog_ok. reflexivity.
  Qed.

  Lemma work_prog_ok o s :
    run e clk (work_prog o) s =
    (let s2 := if do_ocsp o then delete_old_staples e clk s else s in
     let s3 := if do_certs o then snd (delete_expired_certs e clk (grace o) s2) else s2 in
     let '(ok, s4) := do_store e clean_storage_key (written (rd clk s3) o) s3 in
     (if ok then RNil else RErrStore, s4)).
  Proof.
    unfold work_prog. cbn zeta.
    assert (P3 : forall s3, run e clk (record_prog o) s3 =
                 (let '(ok, s4) := do_store e clean_storage_key (written (rd clk s3) o) s3 in
                  (if ok then RNil else RErrStore, s4))).
    { intros s3. unfold record_prog. cbn [run exec].
      destruct (do_store e clean_storage_key (written (rd clk s3) o) s3) as [ok s4].
      destruct ok; reflexivity. }
    destruct (do_ocsp o); [rewrite old_staples_prog_ok|];
      (destruct (do_certs o); [rewrite expired_certs_prog_ok|]); apply P3.
  Qed.

  Theorem run_clean_locked_prog o s :
    run e clk (clean_locked_prog o) s = clean_locked e o clk s.
  Proof.
    unfold clean_locked_prog, clean_locked, interval_check.
    destruct (0 <? interval o); [|apply work_prog_ok].
    cbn [run exec]. destruct (do_load e clean_storage_key s) as [res s1].
    destruct res as [v c| |]; try reflexivity; [|apply work_prog_ok].
    destruct (as_clean c) as [[ts i]|]; [|reflexivity].
    cbn [run exec].
    destruct (cmp_holds clean_interval_cmp (rd clk s1 - ts) (interval o)); [reflexivity | apply work_prog_ok].
  Qed.
End Equiv.

(** * Threads and schedules *)
Inductive tphase := Fresh | Locked (p : prog) | Finished (r : result).
Record thr := Thr { th_env : env; th_opts : opts; th_clk : nat -> Z; th_ph : tphase; th_lg : list event }.
Record cstate := CS { cs_store : store; cs_holder : option nat; cs_thr : nat -> option thr }.

Definition set_thr (f : nat -> option thr) (t : nat) (x : thr) : nat -> option thr :=
  fun t' => if Nat.eqb t' t then Some x else f t'.
Definition with_ph (th : thr) (ph : tphase) (lg' : list event) : thr :=
  Thr (th_env th) (th_opts th) (th_clk th) ph lg'.

(** one step of thread t (the state is unchanged if t cannot move: unknown, finished, or
    waiting for the lock) *)
Definition cstep (c : cstate) (t : nat) : cstate :=
  match cs_thr c t with
  | None => c
  | Some th =>
      let e := th_env th in
      match th_ph th with
      | Fresh =>
          if faulty e (St (cs_store c) (th_lg th)) then
            (* Lock returns an error: CleanStorage returns without touching anything *)
            CS (cs_store c) (cs_holder c)
               (set_thr (cs_thr c) t (with_ph th (Finished RErrLock) (lg (snd (do_lock e (St (cs_store c) (th_lg th)))))))
          else
            match cs_holder c with
            | Some _ => c   (* blocks in Lock *)
            | None =>
                CS (cs_store c) (Some t)
                   (set_thr (cs_thr c) t
                      (with_ph th (Locked (clean_locked_prog (th_opts th)))
                               (lg (snd (do_lock e (St (cs_store c) (th_lg th)))))))
            end
      | Locked (Do a k) =>
          let '(x, s1) := exec e (th_clk th) a (St (cs_store c) (th_lg th)) in
          CS (sto s1) (cs_holder c) (set_thr (cs_thr c) t (with_ph th (Locked (k x)) (lg s1)))
      | Locked (Done r) =>
          CS (cs_store c) None
             (set_thr (cs_thr c) t
                (with_ph th (Finished r) (lg (do_unlock e (St (cs_store c) (th_lg th))))))
      | Finished _ => c
      end
  end.

Definition csteps (c : cstate) (sched : list nat) : cstate := fold_left cstep sched c.

Definition run_of (th : thr) : Model.run := Run (th_env th) (th_opts th) (th_clk th).

(** ** the invariant *)
Section Inv.
  Variables (s0 : store) (thr0 : nat -> option thr).

  (** [done] = the cleanings that have completed, in the order in which they held the lock *)
  Record cinv (c : cstate) (done : list Model.run) : Prop := {
    ci_params : forall t th, cs_thr c t = Some th ->
      exists th0, thr0 t = Some th0 /\ run_of th = run_of th0;
    ci_fresh : forall t th, cs_thr c t = Some th -> th_ph th = Fresh -> th_lg th = [];
    ci_locked : forall t th p, cs_thr c t = Some th -> th_ph th = Locked p ->
      cs_holder c = Some t /\
      faulty (th_env th) (St (clean_seq done s0) []) = false /\
      run (th_env th) (th_clk th) p (St (cs_store c) (th_lg th)) =
        clean_locked (th_env th) (th_opts th) (th_clk th)
          (snd (do_lock (th_env th) (St (clean_seq done s0) [])));
    ci_free : cs_holder c = None -> cs_store c = clean_seq done s0;
    ci_holder : forall t, cs_holder c = Some t ->
      exists th p, cs_thr c t = Some th /\ th_ph th = Locked p;
    ci_done : Forall (fun r => exists t th0, thr0 t = Some th0 /\ r = run_of th0) done
  }.

  Lemma faulty_lg e s s' : lg s = lg s' -> faulty e s = faulty e s'.
  Proof. unfold faulty, dead. intros ->. reflexivity. Qed.

  Lemma clean_seq_app a b s : clean_seq (a ++ b) s = clean_seq b (clean_seq a s).
  Proof. revert s; induction a as [|x a IH]; intros s; cbn [app clean_seq]; [reflexivity | apply IH]. Qed.

  Lemma set_thr_same f t x : set_thr f t x t = Some x.
  Proof. unfold set_thr. rewrite Nat.eqb_refl. reflexivity. Qed.
  Lemma set_thr_other f t x t' : t' <> t -> set_thr f t x t' = f t'.
  Proof. intros H. unfold set_thr. destruct (Nat.eqb_spec t' t); [contradiction | reflexivity]. Qed.

  Lemma cstep_inv c done t : cinv c done -> exists done', cinv (cstep c t) done'.
  Proof.
    intros I. unfold cstep. destruct (cs_thr c t) as [th|] eqn:Ht; [|exists done; exact I].
    destruct (th_ph th) as [|p|r] eqn:Hp; [| |exists done; exact I].
    - (* Fresh: Lock *)
      pose proof (ci_fresh _ _ I t th Ht Hp) as Hlg. rewrite Hlg.
      destruct (faulty (th_env th) (St (cs_store c) [])) eqn:F.
      + (* Lock fails *)
        exists done. constructor; cbn [cs_thr cs_holder cs_store].
        * intros t' th' H. destruct (Nat.eq_dec t' t) as [->|Ne].
          -- rewrite set_thr_same in H. injection H; intros <-. exact (ci_params _ _ I t th Ht).
          -- rewrite set_thr_other in H by exact Ne. exact (ci_params _ _ I t' th' H).
        * intros t' th' H Hf. destruct (Nat.eq_dec t' t) as [->|Ne].
          -- rewrite set_thr_same in H. injection H; intros <-. discriminate.
          -- rewrite set_thr_other in H by exact Ne. exact (ci_fresh _ _ I t' th' H Hf).
        * intros t' th' p' H Hl. destruct (Nat.eq_dec t' t) as [->|Ne].
          -- rewrite set_thr_same in H. injection H; intros <-. discriminate.
          -- rewrite set_thr_other in H by exact Ne. exact (ci_locked _ _ I t' th' p' H Hl).
        * exact (ci_free _ _ I).
        * intros t' Hh. destruct (ci_holder _ _ I t' Hh) as (th' & p' & H & Hl).
          exists th', p'. split; [|exact Hl]. rewrite set_thr_other; [exact H|].
          intros ->. rewrite Ht in H. injection H; intros <-. congruence.
        * exact (ci_done _ _ I).
      + destruct (cs_holder c) as [h|] eqn:Hh; [exists done; exact I|].
        (* Lock granted *)
        pose proof (ci_free _ _ I Hh) as Hs.
        exists done. constructor; cbn [cs_thr cs_holder cs_store].
        * intros t' th' H. destruct (Nat.eq_dec t' t) as [->|Ne].
          -- rewrite set_thr_same in H. injection H; intros <-. exact (ci_params _ _ I t th Ht).
          -- rewrite set_thr_other in H by exact Ne. exact (ci_params _ _ I t' th' H).
        * intros t' th' H Hf. destruct (Nat.eq_dec t' t) as [->|Ne].
          -- rewrite set_thr_same in H. injection H; intros <-. discriminate.
          -- rewrite set_thr_other in H by exact Ne. exact (ci_fresh _ _ I t' th' H Hf).
        * intros t' th' p' H Hl. destruct (Nat.eq_dec t' t) as [->|Ne].
          -- rewrite set_thr_same in H. injection H; intros <-. cbn in Hl. injection Hl; intros <-.
             cbn [th_env th_opts th_clk th_lg with_ph]. split; [reflexivity|].
             rewrite <- Hs. split; [exact F|].
             rewrite run_clean_locked_prog. f_equal.
             unfold do_lock. rewrite F. reflexivity.
          -- rewrite set_thr_other in H by exact Ne.
             destruct (ci_locked _ _ I t' th' p' H Hl) as [Hx _]. congruence.
        * discriminate.
        * intros t' Hh'. injection Hh'; intros <-. eexists; eexists. rewrite set_thr_same. split; reflexivity.
        * exact (ci_done _ _ I).
    - (* Locked *)
      destruct (ci_locked _ _ I t th p Ht Hp) as (Hh & Fl & Hrun).
      assert (Others : forall t' th' p', t' <> t -> cs_thr c t' = Some th' -> th_ph th' = Locked p' -> False).
      { intros t' th' p' Ne H Hl. destruct (ci_locked _ _ I t' th' p' H Hl) as [Hx _]. congruence. }
      destruct p as [r|a k].
      + (* body finished: Unlock *)
        exists (done ++ [run_of th]). constructor; cbn [cs_thr cs_holder cs_store].
        * intros t' th' H. destruct (Nat.eq_dec t' t) as [->|Ne].
          -- rewrite set_thr_same in H. injection H; intros <-. exact (ci_params _ _ I t th Ht).
          -- rewrite set_thr_other in H by exact Ne. exact (ci_params _ _ I t' th' H).
        * intros t' th' H Hf. destruct (Nat.eq_dec t' t) as [->|Ne].
          -- rewrite set_thr_same in H. injection H; intros <-. discriminate.
          -- rewrite set_thr_other in H by exact Ne. exact (ci_fresh _ _ I t' th' H Hf).
        * intros t' th' p' H Hl. destruct (Nat.eq_dec t' t) as [->|Ne].
          -- rewrite set_thr_same in H. injection H; intros <-. discriminate.
          -- rewrite set_thr_other in H by exact Ne. exfalso. exact (Others t' th' p' Ne H Hl).
        * intros _. rewrite clean_seq_app. cbn [clean_seq run_of r_env r_opts r_clk].
          unfold clean. destruct (do_lock (th_env th) (St (clean_seq done s0) [])) as [ok s1] eqn:L.
          assert (ok = true) by (unfold do_lock in L; rewrite Fl in L; injection L; intros _ <-; reflexivity).
          subst ok. cbn [snd] in Hrun. cbn [run] in Hrun. rewrite <- Hrun. reflexivity.
        * discriminate.
        * apply Forall_app. split; [exact (ci_done _ _ I)|]. constructor; [|constructor].
          destruct (ci_params _ _ I t th Ht) as [th0 [H0 E0]]. exists t, th0. split; assumption.
      + (* one call of the body *)
        destruct (exec (th_env th) (th_clk th) a (St (cs_store c) (th_lg th))) as [x s1] eqn:Ex.
        exists done. constructor; cbn [cs_thr cs_holder cs_store].
        * intros t' th' H. destruct (Nat.eq_dec t' t) as [->|Ne].
          -- rewrite set_thr_same in H. injection H; intros <-. exact (ci_params _ _ I t th Ht).
          -- rewrite set_thr_other in H by exact Ne. exact (ci_params _ _ I t' th' H).
        * intros t' th' H Hf. destruct (Nat.eq_dec t' t) as [->|Ne].
          -- rewrite set_thr_same in H. injection H; intros <-. discriminate.
          -- rewrite set_thr_other in H by exact Ne. exact (ci_fresh _ _ I t' th' H Hf).
        * intros t' th' p' H Hl. destruct (Nat.eq_dec t' t) as [->|Ne].
          -- rewrite set_thr_same in H. injection H; intros <-. cbn in Hl. injection Hl; intros <-.
             cbn [th_env th_opts th_clk th_lg with_ph]. split; [exact Hh|]. split; [exact Fl|].
             rewrite <- Hrun. cbn [run]. rewrite Ex. destruct s1; reflexivity.
          -- rewrite set_thr_other in H by exact Ne. exfalso. exact (Others t' th' p' Ne H Hl).
        * intros Hn. congruence.
        * intros t' Hh'. assert (t' = t) by congruence. subst t'.
          eexists; eexists. rewrite set_thr_same. split; reflexivity.
        * exact (ci_done _ _ I).
  Qed.

  Definition init_ok : Prop :=
    forall t th, thr0 t = Some th -> th_ph th = Fresh /\ th_lg th = [].

  Lemma cinv_init : init_ok -> cinv (CS s0 None thr0) [].
  Proof.
    intros H0. constructor; cbn [cs_thr cs_holder cs_store].
    - intros t th H. exists th. auto.
    - intros t th H _. exact (proj2 (H0 t th H)).
    - intros t th p H Hp. destruct (H0 t th H) as [Hf _]. congruence.
    - reflexivity.
    - discriminate.
    - constructor.
  Qed.

  Lemma csteps_inv sched : forall c done, cinv c done -> exists done', cinv (csteps c sched) done'.
  Proof.
    induction sched as [|t r IH]; intros c done I; cbn [csteps fold_left]; [eauto|].
    destruct (cstep_inv c done t I) as [d' I']. exact (IH _ _ I').
  Qed.

  (** serialisability: under every schedule, whenever the lock is free -- in particular when all
      cleaners are finished -- the shared storage is the result of running the completed
      cleanings one after the other, each a cleaning of one of the threads *)
  Theorem concurrent_serial sched : init_ok ->
    let c := csteps (CS s0 None thr0) sched in
    exists done,
      Forall (fun r => exists t th0, thr0 t = Some th0 /\ r = run_of th0) done /\
      (cs_holder c = None -> cs_store c = clean_seq done s0) /\
      (* mutual exclusion: a thread is inside its critical section iff it holds the lock *)
      (forall t th p, cs_thr c t = Some th -> th_ph th = Locked p -> cs_holder c = Some t) /\
      (forall t, cs_holder c = Some t -> exists th p, cs_thr c t = Some th /\ th_ph th = Locked p).
  Proof.
    intros H0 c. destruct (csteps_inv sched _ _ (cinv_init H0)) as [done I]. fold c in I.
    exists done. split; [exact (ci_done _ _ I)|]. split; [exact (ci_free _ _ I)|]. split.
    - intros t th p H Hp. exact (proj1 (ci_locked _ _ I t th p H Hp)).
    - exact (ci_holder _ _ I).
  Qed.

  (** all finished => the lock is free, so the storage is a sequential composition *)
  Corollary concurrent_final sched : init_ok ->
    let c := csteps (CS s0 None thr0) sched in
    (forall t th, cs_thr c t = Some th -> exists r, th_ph th = Finished r) ->
    exists done,
      Forall (fun r => exists t th0, thr0 t = Some th0 /\ r = run_of th0) done /\
      cs_store c = clean_seq done s0.
  Proof.
    intros H0 c Hfin. destruct (concurrent_serial sched H0) as (done & Hd & Hfree & _ & Hhold).
    exists done. split; [exact Hd|]. apply Hfree.
    destruct (cs_holder (csteps (CS s0 None thr0) sched)) as [t|] eqn:Hh; [|reflexivity].
    destruct (Hhold t eq_refl) as (th & p & H & Hp). destruct (Hfin t th H) as [r Hr]. congruence.
  Qed.

  (** no deadlock: a thread that is not finished exists => some thread's step changes the state
      (the holder can always move; with the lock free any fresh thread can take it) *)
  Theorem no_deadlock sched : init_ok ->
    let c := csteps (CS s0 None thr0) sched in
    forall t th, cs_thr c t = Some th -> (forall r, th_ph th <> Finished r) ->
    exists t', cstep c t' <> c.
  Proof.
    intros H0 c t th Ht Hnf. destruct (csteps_inv sched _ _ (cinv_init H0)) as [done I]. fold c in I.
    assert (Sub : forall (q : prog) (a' : act) (k' : resp -> prog) (x' : resp), q = Do a' k' -> k' x' <> q).
    { induction q as [r'|a0 k0 IHq]; intros a' k' x' Ep; [discriminate|].
      injection Ep; intros <- <-. intros Ek'. exact (IHq x' a0 k0 x' Ek' eq_refl). }
    assert (Move : forall t1 th1 p1, cs_thr c t1 = Some th1 -> th_ph th1 = Locked p1 -> cstep c t1 <> c).
    { intros t1 th1 p1 H1 Hp1 E. unfold cstep in E. rewrite H1, Hp1 in E.
      destruct p1 as [r|a k].
      - apply (f_equal (fun x => cs_thr x t1)) in E. cbn in E. rewrite set_thr_same, H1 in E.
        injection E; intros E'. apply (f_equal th_ph) in E'. cbn in E'. congruence.
      - destruct (exec (th_env th1) (th_clk th1) a (St (cs_store c) (th_lg th1))) as [x s1] eqn:Ex.
        apply (f_equal (fun x => cs_thr x t1)) in E. cbn in E. rewrite set_thr_same, H1 in E.
        injection E; intros E'. apply (f_equal th_lg) in E'. cbn in E'.
        (* every call but the cancellation test extends the log; the test changes the program *)
        destruct a; cbn [exec] in Ex;
          try (match type of Ex with (let '(_, _) := ?d in _) = _ => destruct d as [r1 sx] eqn:D end;
               injection Ex; intros <- <-).
        + pose proof (do_load_ext (th_env th1) k0 (St (cs_store c) (th_lg th1))) as X. rewrite D in X.
          destruct X as [new [Xe _]]. cbn in Xe. unfold do_load in D.
          destruct (faulty _ _); [|destruct (lookup _ _) as [[? ?|]|]; try destruct (is_dir _ _)];
            injection D; intros <- _; cbn in E'; apply (f_equal (@length event)) in E'; cbn in E'; lia.
        + unfold do_list in D. destruct (faulty _ _); injection D; intros <- _; cbn in E';
            apply (f_equal (@length event)) in E'; cbn in E'; lia.
        + unfold do_stat in D. destruct (faulty _ _); injection D; intros <- _; cbn in E';
            apply (f_equal (@length event)) in E'; cbn in E'; lia.
        + unfold do_delete in D. destruct (faulty _ _); [|destruct (pfaulty _ _); [|destruct (efaulty _ _)]]; injection D; intros <- _; cbn in E';
            apply (f_equal (@length event)) in E'; cbn in E'; lia.
        + unfold do_store in D. destruct (faulty _ _); [|destruct (is_dir _ _); [|destruct (efaulty _ _)]]; injection D; intros <- _; cbn in E';
            apply (f_equal (@length event)) in E'; cbn in E'; lia.
        + (* ACancelled: no log entry, but the program advances to a strict subterm *)
          injection Ex; intros <- <-.
          injection E; intros E2. apply (f_equal th_ph) in E2. cbn in E2. rewrite Hp1 in E2.
          injection E2; intros Ek. exact (Sub _ _ _ _ eq_refl Ek).
        + (* ANow: likewise *)
          injection Ex; intros <- <-.
          injection E; intros E2. apply (f_equal th_ph) in E2. cbn in E2. rewrite Hp1 in E2.
          injection E2; intros Ek. exact (Sub _ _ _ _ eq_refl Ek). }
    destruct (cs_holder c) as [h|] eqn:Hh.
    - destruct (ci_holder _ _ I h Hh) as (th1 & p1 & H1 & Hp1). exists h. exact (Move h th1 p1 H1 Hp1).
    - destruct (th_ph th) as [|p|r] eqn:Hp.
      + exists t. intros E. unfold cstep in E. rewrite Ht, Hp in E.
        destruct (faulty (th_env th) (St (cs_store c) (th_lg th))).
        * apply (f_equal (fun x => cs_thr x t)) in E. cbn in E. rewrite set_thr_same, Ht in E.
          injection E; intros E'. apply (f_equal th_ph) in E'. cbn in E'. congruence.
        * rewrite Hh in E. apply (f_equal cs_holder) in E. cbn in E. congruence.
      + exists t. exact (Move t th p Ht Hp).
      + exfalso. exact (Hnf r eq_refl).
  Qed.
End Inv.
