(** C18 — concurrent cleaners some of whom are KILLED, at call granularity, composed with the behaviour of the
    lock. Threads step call by call on a shared storage as in Clean/Concurrent.v; in addition a thread's process
    may die at any moment ([LKill]: it makes no further call; if it holds the storage_clean lock it keeps it), and
    the lock of a DEAD holder expires ([LExpire]; FileStorage: the lock file is no longer refreshed, goes stale
    after 2 x lockFreshnessInterval and is removed by the next contender -- C08_stale_recovers; a live holder's
    lock does not expire -- C08_mutex_no_crash under H-live). For every schedule: cleaners never overlap, and
    whenever the lock is free the storage is the sequential composition of the cleanings completed or cut short
    so far, a cleaning cut short at its call n being the model's cleaning under [with_kill e n]. *)
From CM Require Import Lib.Str Lib.CleanSyntax Gen.Consts Clean.Model Clean.Proofs Clean.Prog Clean.Concurrent Clean.Kill.
From Coq Require Import Lia.
Open Scope Z_scope.

(** * reachability inside one cleaning *)
Inductive reach (e : env) (clk : nat -> Z) : prog -> st -> prog -> st -> Prop :=
| reach_refl p s : reach e clk p s p s
| reach_step a k s x s1 p' s' : exec e clk a s = (x, s1) -> reach e clk (k x) s1 p' s' ->
    reach e clk (Do a k) s p' s'.

Lemma reach_run e clk p0 s0 p s : reach e clk p0 s0 p s -> run e clk p0 s0 = run e clk p s.
Proof. induction 1 as [|a k s x s1 p' s' Ex _ IH]; [reflexivity|]. cbn [run]. rewrite Ex. exact IH. Qed.
Lemma reach_snoc e clk p0 s0 a k s x s1 : reach e clk p0 s0 (Do a k) s -> exec e clk a s = (x, s1) ->
  reach e clk p0 s0 (k x) s1.
Proof.
  intros R Ex. remember (Do a k) as q eqn:Eq. revert a k Eq Ex.
  induction R as [p s|a0 k0 s x0 s10 p' s' Ex0 R IH]; intros a k Eq Ex.
  - subst p. eapply reach_step; [exact Ex | apply reach_refl].
  - eapply reach_step; [exact Ex0 | exact (IH a k Eq Ex)].
Qed.
Lemma exec_len e clk a s : (length (lg s) <= length (lg (snd (exec e clk a s))))%nat.
Proof.
  destruct (logs a) eqn:L.
  - rewrite (exec_logs_one e clk a s L). lia.
  - rewrite (exec_nolog_state e clk a s L). lia.
Qed.
Lemma reach_len e clk p0 s0 p s : reach e clk p0 s0 p s -> (length (lg s0) <= length (lg s))%nat.
Proof.
  induction 1 as [|a k s x s1 p' s' Ex _ IH]; [lia|].
  pose proof (exec_len e clk a s) as L. rewrite Ex in L. cbn [snd] in L. lia.
Qed.

(** a cleaning that has got as far as (p, s) and dies there leaves what the model leaves when every call from
    number [length (lg s)] on fails *)
Lemma reach_kill e clk (Alive : kill_at e = None) p0 s0 p s : reach e clk p0 s0 p s ->
  sto (snd (run (with_kill e (length (lg s))) clk p0 s0)) = sto s.
Proof.
  induction 1 as [p s|a k s x s1 p' s' Ex R IH].
  - exact (proj1 (run_dead e (length (lg s)) clk p s (le_n _))).
  - cbn [run].
    assert (Ex' : exec (with_kill e (length (lg s'))) clk a s = exec e clk a s).
    { destruct (logs a) eqn:L.
      - apply (exec_alive e _ clk Alive).
        pose proof (exec_logs_one e clk a s L) as L1. rewrite Ex in L1. cbn [snd] in L1.
        pose proof (reach_len _ _ _ _ _ _ R). lia.
      - apply exec_nolog. exact L. }
    rewrite Ex', Ex. exact IH.
Qed.

(** * threads, kills, expiry *)
Inductive kphase := KFresh | KLocked (p : prog) | KFinished (r : result) | KDead.
Record kthr := KThr { kt_env : env; kt_opts : opts; kt_clk : nat -> Z; kt_ph : kphase; kt_lg : list event }.
Record kstate := KS { ks_store : store; ks_holder : option nat; ks_thr : nat -> option kthr }.
Inductive klabel := LStep (t : nat) | LKill (t : nat) | LExpire.

Definition kwith (th : kthr) (ph : kphase) (lg' : list event) : kthr :=
  KThr (kt_env th) (kt_opts th) (kt_clk th) ph lg'.
Definition kset (f : nat -> option kthr) (t : nat) (x : kthr) : nat -> option kthr :=
  fun t' => if Nat.eqb t' t then Some x else f t'.

Definition kstep (c : kstate) (l : klabel) : kstate :=
  match l with
  | LStep t =>
      match ks_thr c t with
      | None => c
      | Some th =>
          let e := kt_env th in
          match kt_ph th with
          | KFresh =>
              if faulty e (St (ks_store c) (kt_lg th)) then
                KS (ks_store c) (ks_holder c)
                   (kset (ks_thr c) t (kwith th (KFinished RErrLock) (lg (snd (do_lock e (St (ks_store c) (kt_lg th)))))))
              else
                match ks_holder c with
                | Some _ => c   (* blocks in Lock: held by a live cleaner, or by a dead one whose lock has not expired yet *)
                | None =>
                    KS (ks_store c) (Some t)
                       (kset (ks_thr c) t
                          (kwith th (KLocked (clean_locked_prog (kt_opts th)))
                                 (lg (snd (do_lock e (St (ks_store c) (kt_lg th)))))))
                end
          | KLocked (Do a k) =>
              let '(x, s1) := exec e (kt_clk th) a (St (ks_store c) (kt_lg th)) in
              KS (sto s1) (ks_holder c) (kset (ks_thr c) t (kwith th (KLocked (k x)) (lg s1)))
          | KLocked (Done r) =>
              KS (ks_store c) None
                 (kset (ks_thr c) t (kwith th (KFinished r) (lg (do_unlock e (St (ks_store c) (kt_lg th))))))
          | KFinished _ | KDead => c
          end
      end
  | LKill t =>
      match ks_thr c t with
      | None => c
      | Some th =>
          match kt_ph th with
          | KFinished _ | KDead => c   (* CleanStorage has returned, or the process is dead already *)
          | _ => KS (ks_store c) (ks_holder c) (kset (ks_thr c) t (kwith th KDead (kt_lg th)))
          end
      end
  | LExpire =>
      match ks_holder c with
      | None => c
      | Some t =>
          match ks_thr c t with
          | Some th => match kt_ph th with KDead => KS (ks_store c) None (ks_thr c) | _ => c end
          | None => c
          end
      end
  end.
Definition ksteps (c : kstate) (sched : list klabel) : kstate := fold_left kstep sched c.
Definition krun_of (th : kthr) : Model.run := Run (kt_env th) (kt_opts th) (kt_clk th).

Section KInv.
  Variables (s0 : store) (thr0 : nat -> option kthr).

  (** a completed cleaning of one of the threads, or one cut short at some call *)
  Definition okrun (r : Model.run) : Prop :=
    exists t th0, thr0 t = Some th0 /\
      (r = krun_of th0 \/ exists n, r = Run (with_kill (kt_env th0) n) (kt_opts th0) (kt_clk th0)).

  Record kinv (c : kstate) (done : list Model.run) : Prop := {
    ki_params : forall t th, ks_thr c t = Some th ->
      exists th0, thr0 t = Some th0 /\ krun_of th = krun_of th0 /\ kill_at (kt_env th) = None;
    ki_fresh : forall t th, ks_thr c t = Some th -> kt_ph th = KFresh -> kt_lg th = [];
    ki_locked : forall t th p, ks_thr c t = Some th -> kt_ph th = KLocked p ->
      ks_holder c = Some t /\
      faulty (kt_env th) (St (clean_seq done s0) []) = false /\
      reach (kt_env th) (kt_clk th) (clean_locked_prog (kt_opts th))
            (snd (do_lock (kt_env th) (St (clean_seq done s0) []))) p (St (ks_store c) (kt_lg th));
    ki_free : ks_holder c = None -> ks_store c = clean_seq done s0;
    ki_holder : forall t, ks_holder c = Some t -> exists th, ks_thr c t = Some th /\
      ((exists p, kt_ph th = KLocked p) \/
       (kt_ph th = KDead /\ exists n,
          ks_store c = sto (snd (clean (with_kill (kt_env th) n) (kt_opts th) (kt_clk th) (clean_seq done s0)))));
    ki_done : Forall okrun done
  }.

  Lemma kset_same f t x : kset f t x t = Some x.
  Proof. unfold kset. rewrite Nat.eqb_refl. reflexivity. Qed.
  Lemma kset_other f t x t' : t' <> t -> kset f t x t' = f t'.
  Proof. intros H. unfold kset. destruct (Nat.eqb_spec t' t); [contradiction | reflexivity]. Qed.

  (** replacing thread t's phase and log (parameters unchanged) keeps the per-thread facts of the others *)
  Lemma params_kset c done t th ph lg' : kinv c done -> ks_thr c t = Some th ->
    forall t' th', kset (ks_thr c) t (kwith th ph lg') t' = Some th' ->
    exists th0, thr0 t' = Some th0 /\ krun_of th' = krun_of th0 /\ kill_at (kt_env th') = None.
  Proof.
    intros I Ht t' th' H. destruct (Nat.eq_dec t' t) as [->|Ne].
    - rewrite kset_same in H. injection H; intros <-. exact (ki_params _ _ I t th Ht).
    - rewrite kset_other in H by exact Ne. exact (ki_params _ _ I t' th' H).
  Qed.

  Lemma kstep_inv c done l : kinv c done -> exists done', kinv (kstep c l) done'.
  Proof.
    intros I. destruct l as [t|t|]; cbn [kstep].
    - (* a call of thread t *)
      destruct (ks_thr c t) as [th|] eqn:Ht; [|exists done; exact I].
      destruct (kt_ph th) as [|p|r|] eqn:Hp; [| |exists done; exact I|exists done; exact I].
      + (* Lock *)
        pose proof (ki_fresh _ _ I t th Ht Hp) as Hlg. rewrite Hlg.
        assert (NotHolder : ks_holder c <> Some t).
        { intros Hh. destruct (ki_holder _ _ I t Hh) as (th' & H' & [[p Hl]|[Hd _]]); rewrite Ht in H'; injection H'; intros <-; congruence. }
        destruct (faulty (kt_env th) (St (ks_store c) [])) eqn:F.
        * exists done. constructor; cbn [ks_thr ks_holder ks_store].
          -- exact (params_kset c done t th _ _ I Ht).
          -- intros t' th' H Hf. destruct (Nat.eq_dec t' t) as [->|Ne].
             ++ rewrite kset_same in H. injection H; intros <-. discriminate.
             ++ rewrite kset_other in H by exact Ne. exact (ki_fresh _ _ I t' th' H Hf).
          -- intros t' th' p' H Hl. destruct (Nat.eq_dec t' t) as [->|Ne].
             ++ rewrite kset_same in H. injection H; intros <-. discriminate.
             ++ rewrite kset_other in H by exact Ne. exact (ki_locked _ _ I t' th' p' H Hl).
          -- exact (ki_free _ _ I).
          -- intros t' Hh. destruct (ki_holder _ _ I t' Hh) as (th' & H & D).
             exists th'. split; [|exact D]. rewrite kset_other; [exact H | congruence].
          -- exact (ki_done _ _ I).
        * destruct (ks_holder c) as [h|] eqn:Hh; [exists done; exact I|].
          pose proof (ki_free _ _ I Hh) as Hs.
          exists done. constructor; cbn [ks_thr ks_holder ks_store].
          -- exact (params_kset c done t th _ _ I Ht).
          -- intros t' th' H Hf. destruct (Nat.eq_dec t' t) as [->|Ne].
             ++ rewrite kset_same in H. injection H; intros <-. discriminate.
             ++ rewrite kset_other in H by exact Ne. exact (ki_fresh _ _ I t' th' H Hf).
          -- intros t' th' p' H Hl. destruct (Nat.eq_dec t' t) as [->|Ne].
             ++ rewrite kset_same in H. injection H; intros <-. cbn in Hl. injection Hl; intros <-.
                cbn [kt_env kt_opts kt_clk kt_lg kwith]. split; [reflexivity|]. rewrite <- Hs. split; [exact F|].
                unfold do_lock. rewrite F. cbn [snd lg logged sto]. apply reach_refl.
             ++ rewrite kset_other in H by exact Ne.
                destruct (ki_locked _ _ I t' th' p' H Hl) as [Hx _]. congruence.
          -- discriminate.
          -- intros t' Hh'. injection Hh'; intros <-. eexists. rewrite kset_same. split; [reflexivity|]. left. eexists; reflexivity.
          -- exact (ki_done _ _ I).
      + (* inside the lock *)
        destruct (ki_locked _ _ I t th p Ht Hp) as (Hh & Fl & Hreach).
        assert (Others : forall t' th' p', t' <> t -> ks_thr c t' = Some th' -> kt_ph th' = KLocked p' -> False).
        { intros t' th' p' Ne H Hl. destruct (ki_locked _ _ I t' th' p' H Hl) as [Hx _]. congruence. }
        destruct p as [r|a k].
        * (* Unlock *)
          exists (done ++ [krun_of th]). constructor; cbn [ks_thr ks_holder ks_store].
          -- exact (params_kset c done t th _ _ I Ht).
          -- intros t' th' H Hf. destruct (Nat.eq_dec t' t) as [->|Ne].
             ++ rewrite kset_same in H. injection H; intros <-. discriminate.
             ++ rewrite kset_other in H by exact Ne. exact (ki_fresh _ _ I t' th' H Hf).
          -- intros t' th' p' H Hl. destruct (Nat.eq_dec t' t) as [->|Ne].
             ++ rewrite kset_same in H. injection H; intros <-. discriminate.
             ++ rewrite kset_other in H by exact Ne. exfalso. exact (Others t' th' p' Ne H Hl).
          -- intros _. rewrite clean_seq_app. cbn [clean_seq krun_of r_env r_opts r_clk].
             unfold clean. destruct (do_lock (kt_env th) (St (clean_seq done s0) [])) as [ok s1] eqn:L.
             assert (ok = true) by (unfold do_lock in L; rewrite Fl in L; injection L; intros _ <-; reflexivity).
             subst ok. cbn [snd] in Hreach. pose proof (reach_run _ _ _ _ _ _ Hreach) as Hrun.
             rewrite run_clean_locked_prog in Hrun. rewrite Hrun. cbn [run]. reflexivity.
          -- discriminate.
          -- apply Forall_app. split; [exact (ki_done _ _ I)|]. constructor; [|constructor].
             destruct (ki_params _ _ I t th Ht) as [th0 [H0 [E0 _]]]. exists t, th0. split; [exact H0 | left; exact E0].
        * (* one call *)
          destruct (exec (kt_env th) (kt_clk th) a (St (ks_store c) (kt_lg th))) as [x s1] eqn:Ex.
          exists done. constructor; cbn [ks_thr ks_holder ks_store].
          -- exact (params_kset c done t th _ _ I Ht).
          -- intros t' th' H Hf. destruct (Nat.eq_dec t' t) as [->|Ne].
             ++ rewrite kset_same in H. injection H; intros <-. discriminate.
             ++ rewrite kset_other in H by exact Ne. exact (ki_fresh _ _ I t' th' H Hf).
          -- intros t' th' p' H Hl. destruct (Nat.eq_dec t' t) as [->|Ne].
             ++ rewrite kset_same in H. injection H; intros <-. cbn in Hl. injection Hl; intros <-.
                cbn [kt_env kt_opts kt_clk kt_lg kwith]. split; [exact Hh|]. split; [exact Fl|].
                pose proof (reach_snoc _ _ _ _ _ _ _ _ _ Hreach Ex) as R. destruct s1; exact R.
             ++ rewrite kset_other in H by exact Ne. exfalso. exact (Others t' th' p' Ne H Hl).
          -- intros Hn. congruence.
          -- intros t' Hh'. assert (t' = t) by congruence. subst t'.
             eexists. rewrite kset_same. split; [reflexivity|]. left. eexists; reflexivity.
          -- exact (ki_done _ _ I).
    - (* the process of thread t dies *)
      destruct (ks_thr c t) as [th|] eqn:Ht; [|exists done; exact I].
      destruct (kt_ph th) as [|p|r|] eqn:Hp; [| |exists done; exact I|].
      + (* before Lock *)
        assert (NotHolder : ks_holder c <> Some t).
        { intros Hh. destruct (ki_holder _ _ I t Hh) as (th' & H' & [[p Hl]|[Hd _]]); rewrite Ht in H'; injection H'; intros <-; congruence. }
        exists done. constructor; cbn [ks_thr ks_holder ks_store].
        * exact (params_kset c done t th _ _ I Ht).
        * intros t' th' H Hf. destruct (Nat.eq_dec t' t) as [->|Ne].
          -- rewrite kset_same in H. injection H; intros <-. discriminate.
          -- rewrite kset_other in H by exact Ne. exact (ki_fresh _ _ I t' th' H Hf).
        * intros t' th' p' H Hl. destruct (Nat.eq_dec t' t) as [->|Ne].
          -- rewrite kset_same in H. injection H; intros <-. discriminate.
          -- rewrite kset_other in H by exact Ne. exact (ki_locked _ _ I t' th' p' H Hl).
        * exact (ki_free _ _ I).
        * intros t' Hh. destruct (ki_holder _ _ I t' Hh) as (th' & H & D).
          exists th'. split; [|exact D]. rewrite kset_other; [exact H | congruence].
        * exact (ki_done _ _ I).
      + (* while holding the lock *)
        destruct (ki_locked _ _ I t th p Ht Hp) as (Hh & Fl & Hreach).
        destruct (ki_params _ _ I t th Ht) as (th0 & H0 & E0 & Alive).
        exists done. constructor; cbn [ks_thr ks_holder ks_store].
        * exact (params_kset c done t th _ _ I Ht).
        * intros t' th' H Hf. destruct (Nat.eq_dec t' t) as [->|Ne].
          -- rewrite kset_same in H. injection H; intros <-. discriminate.
          -- rewrite kset_other in H by exact Ne. exact (ki_fresh _ _ I t' th' H Hf).
        * intros t' th' p' H Hl. destruct (Nat.eq_dec t' t) as [->|Ne].
          -- rewrite kset_same in H. injection H; intros <-. discriminate.
          -- rewrite kset_other in H by exact Ne. destruct (ki_locked _ _ I t' th' p' H Hl) as [Hx _]. congruence.
        * intros Hn. congruence.
        * intros t' Hh'. assert (t' = t) by congruence. subst t'.
          eexists. rewrite kset_same. split; [reflexivity|]. right. split; [reflexivity|].
          cbn [kt_env kt_opts kt_clk kwith].
          exists (length (kt_lg th)).
          (* the storage now is what the model leaves under with_kill *)
          set (e := kt_env th) in *. set (n := length (kt_lg th)).
          pose proof (reach_kill e (kt_clk th) Alive _ _ _ _ Hreach) as K. cbn [lg sto] in K. fold n in K.
          pose proof (reach_len _ _ _ _ _ _ Hreach) as Ln. cbn [lg] in Ln.
          unfold clean.
          assert (Fk : faulty (with_kill e n) (St (clean_seq done s0) []) = faulty e (St (clean_seq done s0) [])).
          { apply faulty_alive; [exact Alive|]. cbn [lg length]. unfold do_lock in Ln. rewrite Fl in Ln. cbn in Ln. fold n in Ln. lia. }
          unfold do_lock in *. rewrite Fk, Fl in *. cbn [snd] in K.
          rewrite <- run_clean_locked_prog.
          match goal with |- context [run (with_kill e n) ?c0 ?p0 ?sx] => destruct (run (with_kill e n) c0 p0 sx) as [r2 s2] eqn:R end.
          cbn [snd] in K. unfold do_unlock. cbn [snd sto logged]. symmetry. exact K.
        * exact (ki_done _ _ I).
      + exists done. exact I.
    - (* the lock of a dead holder expires *)
      destruct (ks_holder c) as [t|] eqn:Hh; [|exists done; exact I].
      destruct (ks_thr c t) as [th|] eqn:Ht; [|exists done; exact I].
      destruct (kt_ph th) eqn:Hp; try (exists done; exact I).
      destruct (ki_holder _ _ I t Hh) as (th' & H' & D). rewrite Ht in H'. injection H'; intros <-.
      destruct D as [[p Hl]|[_ [n Hs]]]; [congruence|].
      destruct (ki_params _ _ I t th Ht) as (th0 & H0 & E0 & _).
      exists (done ++ [Run (with_kill (kt_env th) n) (kt_opts th) (kt_clk th)]).
      constructor; cbn [ks_thr ks_holder ks_store].
      + exact (ki_params _ _ I).
      + exact (ki_fresh _ _ I).
      + intros t' th' p' H Hl. exfalso. destruct (ki_locked _ _ I t' th' p' H Hl) as [Hx _].
        assert (t' = t) by congruence. subst t'. rewrite Ht in H. injection H; intros <-. congruence.
      + intros _. rewrite clean_seq_app. cbn [clean_seq r_env r_opts r_clk]. exact Hs.
      + discriminate.
      + apply Forall_app. split; [exact (ki_done _ _ I)|]. constructor; [|constructor].
        exists t, th0. split; [exact H0|]. right. exists n.
        unfold krun_of in E0. injection E0; intros -> -> ->. reflexivity.
  Qed.

  Definition kinit_ok : Prop :=
    forall t th, thr0 t = Some th -> kt_ph th = KFresh /\ kt_lg th = [] /\ kill_at (kt_env th) = None.

  Lemma kinv_init : kinit_ok -> kinv (KS s0 None thr0) [].
  Proof.
    intros H0. constructor; cbn [ks_thr ks_holder ks_store].
    - intros t th H. exists th. split; [exact H|]. split; [reflexivity | exact (proj2 (proj2 (H0 t th H)))].
    - intros t th H _. exact (proj1 (proj2 (H0 t th H))).
    - intros t th p H Hp. destruct (H0 t th H) as [Hf _]. congruence.
    - reflexivity.
    - discriminate.
    - constructor.
  Qed.

  Lemma ksteps_inv sched : forall c done, kinv c done -> exists done', kinv (ksteps c sched) done'.
  Proof.
    induction sched as [|l r IH]; intros c done I; cbn [ksteps fold_left]; [eauto|].
    destruct (kstep_inv c done l I) as [d' I']. exact (IH _ _ I').
  Qed.

  (** every schedule of calls, kills and expiries: a live thread is inside its critical section only while it holds
      the lock, the holder is inside or dead, and whenever the lock is free the storage is the sequential
      composition of the cleanings completed or cut short so far *)
  Theorem concurrent_kill_serial sched : kinit_ok ->
    let c := ksteps (KS s0 None thr0) sched in
    exists done,
      Forall okrun done /\
      (ks_holder c = None -> ks_store c = clean_seq done s0) /\
      (forall t th p, ks_thr c t = Some th -> kt_ph th = KLocked p -> ks_holder c = Some t) /\
      (forall t, ks_holder c = Some t -> exists th, ks_thr c t = Some th /\
                 ((exists p, kt_ph th = KLocked p) \/ kt_ph th = KDead)).
  Proof.
    intros H0 c. destruct (ksteps_inv sched _ _ (kinv_init H0)) as [done I]. fold c in I.
    exists done. split; [exact (ki_done _ _ I)|]. split; [exact (ki_free _ _ I)|]. split.
    - intros t th p H Hp. exact (proj1 (ki_locked _ _ I t th p H Hp)).
    - intros t Hh. destruct (ki_holder _ _ I t Hh) as (th & H & [D|[D _]]); exists th; auto.
  Qed.

  (** hence safety, whoever dies whenever: with the lock free, every key other than last_clean.json has its
      initial value or is gone and justified for one of the cleaners *)
  Corollary concurrent_kill_safe sched k : kinit_ok -> k <> spec_last_clean ->
    let c := ksteps (KS s0 None thr0) sched in
    ks_holder c = None ->
    file (ks_store c) k = file s0 k \/
    (file (ks_store c) k = None /\
     exists t th0 i, thr0 t = Some th0 /\ justified (kt_opts th0) (kt_clk th0 i) s0 k = true).
  Proof.
    intros H0 Hk c Hfree. destruct (concurrent_kill_serial sched H0) as (done & Hd & Hs & _). fold c in Hs.
    rewrite (Hs Hfree).
    destruct (clean_seq_post done s0 k Hk) as [E|[E [r [Hin [i J]]]]]; [left; exact E|]. right. split; [exact E|].
    destruct (proj1 (Forall_forall _ _) Hd r Hin) as (t & th0 & Ht & [->|[n ->]]); exists t, th0, i; split; try exact Ht; exact J.
  Qed.
End KInv.
