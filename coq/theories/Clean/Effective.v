(** C18 — effectiveness (not part of the property, which says "only"): in a run without storage
    faults and without cancellation, with a clock that does not go backwards, on a well-formed
    storage, a staple that is stale when the run starts is gone when it ends, together with
    everything below it. Shows that the safety theorems are not satisfied vacuously by a cleaner
    that deletes nothing. *)
From CM Require Import Lib.Str Lib.CleanSyntax Gen.Consts Clean.Model Clean.Proofs.
From Coq Require Import Lia.
Open Scope Z_scope.

Definition no_faults (e : env) : Prop :=
  faults e = [] /\ efaults e = [] /\ cancel_at e = None /\ pfaults e = [] /\ kill_at e = None.
Lemma nf_faulty e s : no_faults e -> faulty e s = false.
Proof. intros (H & _ & _ & _ & K). unfold faulty, dead. rewrite H, K. reflexivity. Qed.
Lemma nf_efaulty e s : no_faults e -> efaulty e s = false.
Proof. intros [_ [H _]]. unfold efaulty. rewrite H. reflexivity. Qed.
Lemma nf_pfaulty e s : no_faults e -> pfaulty e s = None.
Proof. intros (_ & _ & _ & H & _). unfold pfaulty. rewrite H. reflexivity. Qed.
Lemma nf_cancelled e s : no_faults e -> cancelled e s = false.
Proof. intros [_ [_ [H _]]]. unfold cancelled. rewrite H. reflexivity. Qed.

(** the storage only shrinks, except for one key *)
Definition shrinks (s s' : store) : Prop := forall k, lookup s k = None -> lookup s' k = None.
Lemma shrinks_refl s : shrinks s s.
Proof. intros k H; exact H. Qed.
Lemma shrinks_trans a b c : shrinks a b -> shrinks b c -> shrinks a c.
Proof. intros H1 H2 k H. exact (H2 k (H1 k H)). Qed.
Lemma shrinks_remove x s : shrinks s (remove x s).
Proof. intros k H. rewrite lookup_remove. destruct (covers x k); [reflexivity | exact H]. Qed.
Lemma shrinks_removep x keep s : shrinks s (removep x keep s).
Proof. intros k H. rewrite lookup_removep. destruct (covers x k && negb (memk k keep)); [reflexivity | exact H]. Qed.

Lemma do_load_sto e k s : sto (snd (do_load e k s)) = sto s.
Proof. destruct (do_load e k s) as [r s1] eqn:D. exact (proj1 (do_load_spec _ _ _ _ _ D)). Qed.
Lemma do_list_sto e k s : sto (snd (do_list e k s)) = sto s.
Proof. destruct (do_list e k s) as [r s1] eqn:D. exact (proj1 (do_list_spec _ _ _ _ _ D)). Qed.
Lemma do_stat_sto e k s : sto (snd (do_stat e k s)) = sto s.
Proof. destruct (do_stat e k s) as [r s1] eqn:D. exact (proj1 (do_stat_spec _ _ _ _ _ D)). Qed.
Lemma do_delete_shrinks e k s : shrinks (sto s) (sto (snd (do_delete e k s))).
Proof.
  destruct (do_delete e k s) as [b s1] eqn:D. cbn [snd].
  destruct (do_delete_spec _ _ _ _ _ D) as [-> | [-> | [keep ->]]]; [apply shrinks_refl | apply shrinks_remove | apply shrinks_removep].
Qed.

Lemma staples_loop_shrinks e clk ks : forall s, shrinks (sto s) (sto (staples_loop e clk ks s)).
Proof.
  induction ks as [|a r IH]; intros s; cbn [staples_loop]; [apply shrinks_refl|].
  destruct (cancelled e s); [apply shrinks_refl|].
  pose proof (do_load_sto e a s) as E. destruct (do_load e a s) as [res s1]. cbn [snd] in E.
  destruct res as [v c| |]; try (rewrite <- E; apply IH).
  destruct (stale_staple (rd clk s1) c); [|rewrite <- E; apply IH].
  pose proof (do_delete_shrinks e a s1) as D. destruct (do_delete e a s1) as [b s2]. cbn [snd] in D.
  rewrite <- E. exact (shrinks_trans _ _ _ D (IH s2)).
Qed.

(** distinct direct children of the same key do not cover each other *)
Lemma sibling_not_covers p a b : child p a -> child p b -> a <> b -> covers a b = false.
Proof.
  intros [ca [-> Ha]] [cb [-> Hb]] Ne. unfold covers.
  destruct (seqb (p ++ c_sl :: ca) (p ++ c_sl :: cb)) eqn:E; [apply seqb_eq in E; contradiction|]. cbn [orb].
  destruct (under (p ++ c_sl :: ca) (p ++ c_sl :: cb)) eqn:U; [|reflexivity]. exfalso.
  apply under_spec in U. destruct U as [r U]. rewrite <- app_assoc in U. apply app_inv_head in U.
  injection U; intros ->. rewrite mem_app in Hb. cbn in Hb. rewrite orb_true_r in Hb. discriminate.
Qed.

Section Staples.
  Variables (e : env) (clk : nat -> Z).
  Hypothesis NF : no_faults e.

  (** a listed staple that is stale at every reading is gone after the loop, with what lies below it *)
  Lemma staples_loop_effective ks : Forall (child spec_ocsp) ks ->
    forall s a v c, In a ks -> child spec_ocsp a -> lookup (sto s) a = Some (File v c) ->
    (forall i, stale_staple (clk i) c = true) ->
    forall k, covers a k = true -> lookup (sto (staples_loop e clk ks s)) k = None.
  Proof.
    induction ks as [|x r IH]; intros HF s a v c Hin Ha Hl Hst k Ck; [contradiction|].
    inversion HF as [|? ? Hx HF']; subst. cbn [staples_loop]. rewrite (nf_cancelled e s NF).
    destruct (seqb x a) eqn:E.
    - apply seqb_eq in E; subst x.
      unfold do_load. rewrite (nf_faulty e s NF), Hl. cbn [logged].
      match goal with |- context [stale_staple ?t c] => rewrite (Hst _ : stale_staple t c = true) end.
      unfold do_delete. match goal with |- context [faulty e ?s'] => rewrite (nf_faulty e s' NF), (nf_pfaulty e s' NF), (nf_efaulty e s' NF) end.
      apply staples_loop_shrinks. cbn [sto logged]. rewrite lookup_remove, Ck. reflexivity.
    - apply seqb_neq in E. destruct Hin as [->|Hin]; [contradiction|].
      pose proof (sibling_not_covers _ _ _ Hx Ha E) as NC.
      pose proof (do_load_sto e x s) as El. destruct (do_load e x s) as [res s1]. cbn [snd] in El.
      assert (Hl1 : lookup (sto s1) a = Some (File v c)) by (rewrite El; exact Hl).
      destruct res as [v' c'| |]; try exact (IH HF' s1 a v c Hin Ha Hl1 Hst k Ck).
      destruct (stale_staple (rd clk s1) c'); [|exact (IH HF' s1 a v c Hin Ha Hl1 Hst k Ck)].
      destruct (do_delete e x s1) as [b s2] eqn:D.
      apply (IH HF' s2 a v c Hin Ha); try assumption.
      destruct (do_delete_spec _ _ _ _ _ D) as [-> | [-> | [keep ->]]]; [exact Hl1| |].
      + rewrite lookup_remove, NC. exact Hl1.
      + rewrite lookup_removep, NC. exact Hl1.
  Qed.
End Staples.

(** * listings are complete *)
Lemma take_comp_id c : mem c_sl c = false -> take_comp c = c.
Proof.
  induction c as [|x r IH]; [reflexivity|]. rewrite mem_cons. intros H. apply orb_false_iff in H. destruct H as [H1 H2].
  cbn [take_comp]. rewrite N.eqb_sym, H1. rewrite (IH H2). reflexivity.
Qed.
Lemma comps_below_in s p ca n : lookup s (p ++ c_sl :: ca) = Some n -> mem c_sl ca = false ->
  In ca (comps_below p s).
Proof.
  intros Hl Hc. induction s as [|[k' n'] r IH]; [discriminate|]. cbn [lookup] in Hl. cbn [comps_below].
  destruct (seqb k' (p ++ c_sl :: ca)) eqn:E.
  - apply seqb_eq in E; subst k'.
    replace (p ++ c_sl :: ca) with ((p ++ [c_sl]) ++ ca) by (rewrite <- app_assoc; reflexivity).
    rewrite strip_prefix_app, (take_comp_id _ Hc). left; reflexivity.
  - destruct (strip_prefix (p ++ [c_sl]) k'); [right|]; exact (IH Hl).
Qed.
Lemma list_pure_complete l s p a n : lookup s a = Some n -> child p a ->
  (forall v c, lookup s p <> Some (File v c)) ->
  exists ks, list_pure l s p = Some ks /\ In a ks.
Proof.
  intros Hl [ca [-> Hc]] Hp.
  assert (Hin : In (p ++ c_sl :: ca) (children s p)).
  { unfold children. apply in_map_iff. exists ca. split; [reflexivity|].
    apply in_sort_dedup. exact (comps_below_in _ _ _ _ Hl Hc). }
  unfold list_pure. destruct (lookup s p) as [[v c|]|] eqn:Lp.
  - exfalso. exact (Hp v c eq_refl).
  - eexists; split; [reflexivity | exact Hin].
  - destruct (children s p) as [|x xs] eqn:C; [contradiction|]. eexists; split; [reflexivity | exact Hin].
Qed.

(** * the other loops only shrink the storage *)
Lemma delete_related_shrinks e base sufs : forall s, shrinks (sto s) (sto (delete_related e base sufs s)).
Proof.
  induction sufs as [|x r IH]; intros s; cbn [delete_related]; [apply shrinks_refl|].
  pose proof (do_delete_shrinks e (base ++ x) s) as D. destruct (do_delete e (base ++ x) s) as [b s1]. cbn [snd] in D.
  exact (shrinks_trans _ _ _ D (IH s1)).
Qed.
Lemma assets_loop_shrinks e clk gr assets : forall s, shrinks (sto s) (sto (snd (assets_loop e clk gr assets s))).
Proof.
  induction assets as [|a r IH]; intros s; cbn [assets_loop]; [apply shrinks_refl|].
  destruct (negb (seqb (path_ext a) clean_ext_crt)); [apply IH|].
  pose proof (do_load_sto e a s) as E. destruct (do_load e a s) as [res s1]. cbn [snd] in E.
  destruct res as [v c| |]; cbn [snd]; try (rewrite E; apply shrinks_refl).
  destruct (as_cert c); cbn [snd]; [|rewrite E; apply shrinks_refl].
  destruct (expired_cert (rd clk s1) gr c); [|rewrite <- E; apply IH].
  pose proof (do_delete_shrinks e a s1) as D. destruct (do_delete e a s1) as [b s2]. cbn [snd] in D.
  rewrite <- E. eapply shrinks_trans; [exact D|]. eapply shrinks_trans; [apply delete_related_shrinks | apply IH].
Qed.
Lemma sites_loop_shrinks e clk gr sites : forall s, shrinks (sto s) (sto (snd (sites_loop e clk gr sites s))).
Proof.
  induction sites as [|sk r IH]; intros s; cbn [sites_loop]; [apply shrinks_refl|].
  destruct (cancelled e s); [apply shrinks_refl|].
  pose proof (do_list_sto e sk s) as E1. destruct (do_list e sk s) as [res s1]. cbn [snd] in E1.
  destruct res as [assets|]; [|rewrite <- E1; apply IH].
  pose proof (assets_loop_shrinks e clk gr assets s1) as A. destruct (assets_loop e clk gr assets s1) as [ab s2]. cbn [snd] in A.
  rewrite <- E1. destruct ab; cbn [snd]; [exact A|].
  pose proof (do_list_sto e sk s2) as E3. destruct (do_list e sk s2) as [res2 s3]. cbn [snd] in E3.
  assert (A3 : shrinks (sto s1) (sto s3)) by (rewrite E3; exact A).
  destruct res2 as [[|x xs]|]; try exact (shrinks_trans _ _ _ A3 (IH s3)).
  pose proof (do_stat_sto e sk s3) as E4. destruct (do_stat e sk s3) as [sr s4]. cbn [snd] in E4.
  assert (A4 : shrinks (sto s1) (sto s4)) by (rewrite E4; exact A3).
  destruct sr; try exact (shrinks_trans _ _ _ A4 (IH s4)).
  pose proof (do_delete_shrinks e sk s4) as D. destruct (do_delete e sk s4) as [ok s5]. cbn [snd] in D.
  destruct ok; cbn [snd]; [exact (shrinks_trans _ _ _ A4 (shrinks_trans _ _ _ D (IH s5))) | exact (shrinks_trans _ _ _ A4 D)].
Qed.
Lemma issuers_loop_shrinks e clk gr iss : forall s, shrinks (sto s) (sto (snd (issuers_loop e clk gr iss s))).
Proof.
  induction iss as [|ik r IH]; intros s; cbn [issuers_loop]; [apply shrinks_refl|].
  pose proof (do_list_sto e ik s) as E1. destruct (do_list e ik s) as [res s1]. cbn [snd] in E1.
  destruct res as [sites|]; [|rewrite <- E1; apply IH].
  pose proof (sites_loop_shrinks e clk gr sites s1) as A. destruct (sites_loop e clk gr sites s1) as [ab s2]. cbn [snd] in A.
  rewrite <- E1. destruct ab; cbn [snd]; [exact A | exact (shrinks_trans _ _ _ A (IH s2))].
Qed.
Lemma delete_expired_certs_shrinks e clk gr s : shrinks (sto s) (sto (snd (delete_expired_certs e clk gr s))).
Proof.
  unfold delete_expired_certs.
  pose proof (do_list_sto e prefix_certs s) as E1. destruct (do_list e prefix_certs s) as [res s1]. cbn [snd] in E1.
  destruct res as [iss|]; cbn [snd]; rewrite <- E1; [apply issuers_loop_shrinks | apply shrinks_refl].
Qed.

(** * stale staples are removed *)
Lemma clean_locked_staples e o clk s a v c :
  no_faults e -> do_ocsp o = true -> interval o <= 0 ->
  (forall v' c', lookup (sto s) spec_ocsp <> Some (File v' c')) ->
  child spec_ocsp a -> lookup (sto s) a = Some (File v c) -> (forall i, spec_stale (clk i) c = true) ->
  forall k, covers a k = true -> lookup (sto (snd (clean_locked e o clk s))) k = None.
Proof.
  intros NF Ho Hi Hp Ha Hl Hst k Ck.
  destruct consts_ok as (_ & _ & _ & _ & _ & Es & _ & Ek & _ & Epo).
  assert (Hst' : forall i, stale_staple (clk i) c = true).
  { intros i. specialize (Hst i). unfold stale_staple, spec_stale in *. destruct (as_staple c); [|reflexivity].
    rewrite Es. exact Hst. }
  assert (Nk : k <> spec_last_clean).
  { intros ->. destruct Ha as [ca [-> _]].
    assert (X : has_prefix ocsp_pfx spec_last_clean = true).
    { apply (covers_prefix _ (spec_ocsp ++ c_sl :: ca)); [|exact Ck]. apply has_prefix_spec. exists ca.
      unfold ocsp_pfx. rewrite <- app_assoc. reflexivity. }
    vm_compute in X. discriminate. }
  unfold clean_locked, interval_check.
  replace (0 <? interval o) with false by (symmetry; apply Z.ltb_ge; exact Hi).
  rewrite Ho.
  assert (G2 : lookup (sto (delete_old_staples e clk s)) k = None).
  { unfold delete_old_staples, do_list. rewrite (nf_faulty e s NF). rewrite Epo.
    destruct (list_pure_complete (lfe e) (sto s) spec_ocsp a _ Hl Ha Hp) as [ks [Lk Hin]]. rewrite Lk.
    apply (staples_loop_effective e clk NF ks (list_pure_child _ _ _ _ Lk) _ a v c Hin Ha); try assumption. }
  set (s2 := delete_old_staples e clk s) in *.
  set (s3 := if do_certs o then snd (delete_expired_certs e clk (grace o) s2) else s2).
  assert (G3 : lookup (sto s3) k = None).
  { subst s3. destruct (do_certs o); [apply delete_expired_certs_shrinks|]; exact G2. }
  destruct (do_store e clean_storage_key (written (rd clk s3) o) s3) as [ok s4] eqn:S. cbn [snd].
  destruct (do_store_spec _ _ _ _ _ _ S) as [(_ & E4 & _)|(E4 & _ & _)]; rewrite E4; [exact G3|].
  rewrite lookup_put, Ek. destruct (seqb spec_last_clean k) eqn:E; [apply seqb_eq in E; congruence | exact G3].
Qed.

(** a staple (a terminal key directly in ocsp/) that is unparseable or past NextUpdate at every reading
    of the clock is gone after a cleaning with staples on, no interval, no storage faults, no
    cancellation -- with everything below it *)
Theorem stale_staples_removed e o clk s0 a v c :
  no_faults e -> do_ocsp o = true -> interval o <= 0 ->
  (forall v' c', lookup s0 spec_ocsp <> Some (File v' c')) ->
  child spec_ocsp a -> file s0 a = Some (v, c) -> (forall i, spec_stale (clk i) c = true) ->
  forall k, covers a k = true -> lookup (sto (snd (clean e o clk s0))) k = None.
Proof.
  intros NF Ho Hi Hp Ha Hf Hst k Ck.
  assert (Hl : lookup s0 a = Some (File v c)).
  { unfold file in Hf. destruct (lookup s0 a) as [[v' c'|]|]; try discriminate. injection Hf; intros -> ->. reflexivity. }
  unfold clean, do_lock. rewrite (nf_faulty e _ NF).
  match goal with |- context [clean_locked e o clk ?sx] =>
    pose proof (clean_locked_staples e o clk sx a v c NF Ho Hi Hp Ha Hl Hst k Ck) as G;
    destruct (clean_locked e o clk sx) as [r s2] end.
  cbn [snd] in *. unfold do_unlock. cbn [sto logged]. exact G.
Qed.
