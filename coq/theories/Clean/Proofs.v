(** C18 — proofs about the Clean model. *)
From CM Require Import Lib.Str Lib.CleanSyntax Gen.Consts Clean.Model.
From Coq Require Import Lia.
Open Scope Z_scope.

(** * What the theorems need of the constants the translator reads from maintain.go.
    Checked by computation against the regenerated [Gen.Consts]: a changed literal or
    comparison operator breaks this lemma, and with it every theorem below. *)
Lemma consts_ok :
  clean_ext_crt = spec_ext_crt /\ clean_trim_suffix = spec_ext_crt /\
  clean_related_suffixes = [spec_ext_key; spec_ext_json] /\
  clean_grace_cmp = CmpGe /\ clean_interval_cmp = CmpLt /\ clean_staple_cmp = CmpGt /\
  clean_lock_name = spec_lock /\ clean_storage_key = spec_last_clean /\
  prefix_certs = spec_certs /\ prefix_ocsp = spec_ocsp.
Proof. repeat split; reflexivity. Qed.

(** the control-flow shape the translator reads (item emitC18Shape) is the one [Model.clean]
    hard-codes: order of the steps of CleanStorage ([clean] / [clean_locked]: lock, deferred unlock,
    interval check, staples, certificates, record); a staple that cannot be loaded is skipped
    ([staples_loop]: continue) while an unloadable / non-PEM / unparseable .crt and a failing
    site-folder Delete abandon deleteExpiredCerts ([assets_loop], [sites_loop]: return); listing
    errors below certificates/ are skipped; the site folder is deleted only when it lists as empty
    (length = 0) and Stat succeeds on a non-terminal key; the PEM block type the oracle [as_cert]
    stands for *)
Definition spec_steps : list str :=
  [ [108; 111; 99; 107]; [100; 101; 102; 101; 114; 95; 117; 110; 108; 111; 99; 107];
    [105; 110; 116; 101; 114; 118; 97; 108]; [115; 116; 97; 112; 108; 101; 115];
    [99; 101; 114; 116; 115]; [114; 101; 99; 111; 114; 100] ]%N.
    (* lock, defer_unlock, interval, staples, certs, record *)
Lemma consts_shape_ok :
  clean_steps = spec_steps /\
  clean_staple_load_error_aborts = false /\ clean_crt_errors_abort = [true; true; true] /\
  clean_folder_delete_error_aborts = true /\ clean_list_errors_abort = [true; false; false; false] /\
  clean_pem_type = [67; 69; 82; 84; 73; 70; 73; 67; 65; 84; 69]%N /\
  clean_folder_empty_cmp = CmpEq /\ clean_folder_guard = true /\
  (* certificates.go expiresAt = NotAfter.Truncate(1 s).Add(1 s): [Model.expires_at] *)
  clean_expires_trunc = second /\ clean_expires_add = second.
Proof. repeat split; reflexivity. Qed.

(** who cleans (translator item emitC18Callers): inside the package nothing calls CleanStorage (no timer path:
    a cleaning starts only when the application calls it, e.g. Caddy's cleanStorageRegularly), and CleanStorage
    is the only user of its two helpers -- so they run under the storage_clean lock taken by CleanStorage,
    as modelled; the storage is mutated at two Delete sites in each helper and one Store site in
    CleanStorage, the lock is taken and released once, through acquireLock / releaseLock *)
Definition spec_clean_storage_name : str := [67; 108; 101; 97; 110; 83; 116; 111; 114; 97; 103; 101]%N. (* "CleanStorage" *)
Lemma consts_callers_ok :
  clean_users_CleanStorage = [] /\
  clean_users_deleteOldOCSPStaples = [spec_clean_storage_name] /\
  clean_users_deleteExpiredCerts = [spec_clean_storage_name] /\
  clean_sites_Delete = [0; 2; 2]%nat /\ clean_sites_Store = [1; 0; 0]%nat /\
  clean_sites_acquireLock = [1; 0; 0]%nat /\ clean_sites_releaseLock = [1; 0; 0]%nat /\
  clean_sites_Lock = [0; 0; 0]%nat /\ clean_sites_Unlock = [0; 0; 0]%nat.
Proof. repeat split; reflexivity. Qed.

(** FileStorage.Delete is os.RemoveAll of the key's path (the key and everything below: [remove]; in part when it
    fails half-way: [removep]) and a missing key is not an error (translator item emitC18FsDelete) *)
Lemma consts_fs_delete_ok :
  clean_fs_delete_fn = [111; 115; 46; 82; 101; 109; 111; 118; 101; 65; 108; 108]%N /\   (* "os.RemoveAll" *)
  clean_fs_delete_arg = [115; 46; 70; 105; 108; 101; 110; 97; 109; 101; 40; 107; 101; 121; 41]%N /\   (* "s.Filename(key)" *)
  clean_fs_delete_missing_ok = true.
Proof. repeat split; reflexivity. Qed.

(** * Strings *)
Lemma seqb_eq a b : seqb a b = true <-> a = b.
Proof.
  revert b; induction a as [|x a IH]; intros [|y b]; cbn; try (split; congruence).
  rewrite andb_true_iff, N.eqb_eq, IH. split; [intros [-> ->]; reflexivity | intros H; injection H; auto].
Qed.
Lemma seqb_refl a : seqb a a = true.
Proof. apply seqb_eq; reflexivity. Qed.
Lemma seqb_neq a b : seqb a b = false <-> a <> b.
Proof. rewrite <- seqb_eq. destruct (seqb a b); split; congruence. Qed.

Lemma has_prefix_spec p s : has_prefix p s = true <-> exists r, s = p ++ r.
Proof.
  unfold has_prefix. destruct (strip_prefix p s) as [r|] eqn:E.
  - apply strip_prefix_spec in E. split; eauto.
  - split; [discriminate|]. intros [r Hr]. apply strip_prefix_spec in Hr. congruence.
Qed.

Lemma strip_prefix_app p r : strip_prefix p (p ++ r) = Some r.
Proof. apply strip_prefix_spec; reflexivity. Qed.

Lemma under_spec k k' : under k k' = true <-> exists r, k' = k ++ c_sl :: r.
Proof.
  unfold under. rewrite has_prefix_spec. split; intros [r ->]; exists r; rewrite <- app_assoc; reflexivity.
Qed.

Lemma mem_in x s : mem x s = true <-> In x s.
Proof.
  unfold mem. rewrite existsb_exists. split.
  - intros [y [Hy E]]. apply N.eqb_eq in E. subst; assumption.
  - intros H; exists x; split; [assumption | apply N.eqb_refl].
Qed.
Lemma mem_app x a b : mem x (a ++ b) = mem x a || mem x b.
Proof. unfold mem. apply existsb_app. Qed.

(** number of separators; [split_on] yields one more field *)
Fixpoint nsep (s : str) : nat :=
  match s with [] => O | c :: r => if N.eqb c c_sl then S (nsep r) else nsep r end.
Lemma split_on_length s : length (split_on c_sl s) = S (nsep s).
Proof.
  induction s as [|c r IH]; cbn; [reflexivity|].
  destruct (N.eqb c c_sl); cbn; [rewrite IH; reflexivity|].
  destruct (split_on c_sl r); cbn in *; lia.
Qed.
Lemma nsep_app a b : nsep (a ++ b) = (nsep a + nsep b)%nat.
Proof. induction a as [|c a IH]; cbn; [reflexivity|]. destruct (N.eqb c c_sl); cbn; lia. Qed.
Lemma mem_cons x c r : mem x (c :: r) = N.eqb x c || mem x r.
Proof. reflexivity. Qed.
Lemma nsep_cons c r : nsep (c :: r) = if N.eqb c c_sl then S (nsep r) else nsep r.
Proof. reflexivity. Qed.
Lemma nsep_nomem s : mem c_sl s = false -> nsep s = O.
Proof.
  induction s as [|c r IH]; [reflexivity|].
  rewrite mem_cons, nsep_cons, N.eqb_sym. destruct (N.eqb c c_sl); cbn [orb]; [discriminate | exact IH].
Qed.
Lemma nsep_zero_nomem s : nsep s = O -> mem c_sl s = false.
Proof.
  induction s as [|c r IH]; [reflexivity|].
  rewrite mem_cons, nsep_cons, (N.eqb_sym c_sl c). destruct (N.eqb c c_sl); cbn [orb]; [discriminate | exact IH].
Qed.

Lemma take_comp_nosep s : mem c_sl (take_comp s) = false.
Proof.
  induction s as [|c r IH]; [reflexivity|].
  cbn [take_comp]. destruct (N.eqb c c_sl) eqn:E; [reflexivity|].
  rewrite mem_cons, N.eqb_sym, E. exact IH.
Qed.

(** * Sorting *)
Lemma str_cmp_eq a b : str_cmp a b = Eq -> a = b.
Proof.
  revert b; induction a as [|x a IH]; intros [|y b]; cbn; try congruence.
  destruct (N.compare x y) eqn:E; try discriminate.
  apply N.compare_eq in E. intros H; rewrite (IH _ H); congruence.
Qed.
Lemma in_insert z x l : In z (insert x l) <-> z = x \/ In z l.
Proof.
  induction l as [|y r IH]; cbn; [intuition|].
  destruct (str_cmp x y) eqn:E; cbn.
  - apply str_cmp_eq in E; subst. intuition.
  - intuition.
  - rewrite IH. intuition.
Qed.
Lemma in_sort_dedup z l : In z (sort_dedup l) <-> In z l.
Proof.
  induction l as [|y r IH]; cbn; [reflexivity|]. rewrite in_insert, IH. intuition.
Qed.
Lemma insert_not_nil x l : insert x l <> [].
Proof. destruct l as [|y r]; cbn; [discriminate|]. destruct (str_cmp x y); discriminate. Qed.
Lemma sort_dedup_nil l : sort_dedup l = [] -> l = [].
Proof. destruct l as [|y r]; cbn; [reflexivity|]. intros H. exfalso. exact (insert_not_nil _ _ H). Qed.

(** * Stores *)
Lemma lookup_remove x s k : lookup (remove x s) k = if covers x k then None else lookup s k.
Proof.
  unfold remove. induction s as [|[k1 n] r IH]; cbn; [destruct (covers x k); reflexivity|].
  destruct (covers x k1) eqn:C1; cbn.
  - rewrite IH. destruct (seqb k1 k) eqn:E; [|reflexivity].
    apply seqb_eq in E; subst. rewrite C1. reflexivity.
  - rewrite IH. destruct (seqb k1 k) eqn:E; [|reflexivity].
    apply seqb_eq in E; subst. rewrite C1. reflexivity.
Qed.
Lemma file_remove x s k : file (remove x s) k = if covers x k then None else file s k.
Proof. unfold file. rewrite lookup_remove. destruct (covers x k); reflexivity. Qed.

Lemma lookup_removep x keep s k :
  lookup (removep x keep s) k = if covers x k && negb (memk k keep) then None else lookup s k.
Proof.
  unfold removep. induction s as [|[k1 n] r IH]; cbn; [destruct (covers x k && negb (memk k keep)); reflexivity|].
  destruct (negb (covers x k1) || memk k1 keep) eqn:C1; cbn.
  - rewrite IH. destruct (seqb k1 k) eqn:E; [|reflexivity].
    apply seqb_eq in E; subst. destruct (covers x k); destruct (memk k keep); cbn in *; try reflexivity; discriminate.
  - rewrite IH. destruct (seqb k1 k) eqn:E; [|reflexivity].
    apply seqb_eq in E; subst. destruct (covers x k); destruct (memk k keep); cbn in *; try reflexivity; discriminate.
Qed.
Lemma lookup_put x n s k : lookup (put x n s) k = if seqb x k then Some n else lookup s k.
Proof.
  unfold put; cbn. destruct (seqb x k) eqn:E; [reflexivity|].
  induction s as [|[k1 n1] r IH]; cbn; [reflexivity|].
  destruct (seqb k1 x) eqn:E1; cbn.
  - apply seqb_eq in E1; subst. rewrite E. exact IH.
  - rewrite IH. reflexivity.
Qed.

Lemma lookup_in s k n : lookup s k = Some n -> In k (map fst s).
Proof.
  induction s as [|[k1 n1] r IH]; cbn; [discriminate|].
  destruct (seqb k1 k) eqn:E; [apply seqb_eq in E; auto | auto].
Qed.

Lemma comps_below_nil k s : comps_below k s = [] ->
  forall k', under k k' = true -> lookup s k' = None.
Proof.
  induction s as [|[k1 n] r IH]; cbn; intros H k' U; [reflexivity|].
  destruct (strip_prefix (k ++ [c_sl]) k1) eqn:E; [discriminate|].
  destruct (seqb k1 k') eqn:E1; [|exact (IH H k' U)].
  apply seqb_eq in E1; subst. unfold under, has_prefix in U. rewrite E in U. discriminate.
Qed.

(** [k] is a direct child of [p] *)
Definition child (p k : key) : Prop := exists c, k = p ++ c_sl :: c /\ mem c_sl c = false.

Lemma children_child s k c : In c (children s k) -> child k c.
Proof.
  unfold children. intros H. apply in_map_iff in H. destruct H as [comp [<- Hin]].
  exists comp; split; [reflexivity|].
  rewrite in_sort_dedup in Hin.
  induction s as [|[k1 n] r IH]; cbn in Hin; [contradiction|].
  destruct (strip_prefix (k ++ [c_sl]) k1); [|exact (IH Hin)].
  cbn [In] in Hin. destruct Hin as [<-|Hin]; [apply take_comp_nosep | exact (IH Hin)].
Qed.
Lemma children_nil s k : children s k = [] -> comps_below k s = [].
Proof.
  unfold children. intros H. apply map_eq_nil in H. exact (sort_dedup_nil _ H).
Qed.

Lemma childb_child p k : childb p k = true <-> child p k.
Proof.
  unfold childb, child. destruct (strip_prefix (p ++ [c_sl]) k) as [c|] eqn:E.
  - apply strip_prefix_spec in E. rewrite <- app_assoc in E. cbn in E. rewrite negb_true_iff. split.
    + intros H; exists c; auto.
    + intros [c' [E' H]]. rewrite E in E'. apply app_inv_head in E'. injection E'; intros ->. exact H.
  - split; [discriminate|]. intros [c [-> H]].
    rewrite (app_assoc p [c_sl] c : p ++ c_sl :: c = (p ++ [c_sl]) ++ c), strip_prefix_app in E. discriminate.
Qed.

(** * Effect of the single calls *)
Lemma do_load_spec e k s r s1 : do_load e k s = (r, s1) ->
  sto s1 = sto s /\ (forall v c, r = LOk v c -> lookup (sto s) k = Some (File v c)) /\
  (r = LNotExist -> lookup (sto s) k = None).
Proof.
  unfold do_load. destruct (faulty e s).
  - intros H; injection H; intros <- <-. repeat split; intros; try discriminate; reflexivity.
  - destruct (lookup (sto s) k) as [[v c|]|] eqn:L.
    + intros H; injection H; intros <- <-. repeat split; intros; try congruence; reflexivity.
    + unfold is_dir; rewrite L. intros H; injection H; intros <- <-; repeat split; intros; try discriminate; reflexivity.
    + destruct (is_dir (sto s) k); intros H; injection H; intros <- <-; repeat split; intros; try discriminate; reflexivity.
Qed.

Lemma list_pure_child l s k ks : list_pure l s k = Some ks -> Forall (child k) ks.
Proof.
  unfold list_pure. destruct (lookup s k) as [[v c|]|].
  - destruct l; [intros H; injection H; intros <-; constructor | discriminate].
  - intros H; injection H; intros <-. apply Forall_forall. intros x. apply children_child.
  - destruct (children s k) eqn:C; [discriminate|]. intros H; injection H; intros <-.
    rewrite <- C. apply Forall_forall. intros x. apply children_child.
Qed.
Lemma list_pure_nil l s k : list_pure l s k = Some [] ->
  (exists v c, lookup s k = Some (File v c)) \/ (lookup s k = Some Dir /\ comps_below k s = []).
Proof.
  unfold list_pure. destruct (lookup s k) as [[v c|]|].
  - intros _; left; eauto.
  - intros H; injection H; intros C. right. split; [reflexivity | exact (children_nil _ _ C)].
  - destruct (children s k); discriminate.
Qed.
Lemma do_list_spec e k s r s1 : do_list e k s = (r, s1) ->
  sto s1 = sto s /\ (forall ks, r = Some ks -> list_pure (lfe e) (sto s) k = Some ks).
Proof.
  unfold do_list. destruct (faulty e s); intros H; injection H; intros <- <-; split; try reflexivity.
  - intros; discriminate.
  - intros ks E; exact E.
Qed.

Lemma do_stat_spec e k s r s1 : do_stat e k s = (r, s1) ->
  sto s1 = sto s /\ (r = StatDir -> forall v c, lookup (sto s) k <> Some (File v c)).
Proof.
  unfold do_stat. destruct (faulty e s); intros H; injection H; intros <- <-; split; try reflexivity.
  - discriminate.
  - unfold stat_pure. destruct (lookup (sto s) k) as [[v c|]|]; try discriminate; intros _ v' c'; discriminate.
Qed.

Lemma do_delete_spec e k s b s1 : do_delete e k s = (b, s1) ->
  sto s1 = sto s \/ sto s1 = remove k (sto s) \/ exists keep, sto s1 = removep k keep (sto s).
Proof.
  unfold do_delete. destruct (faulty e s); [|destruct (pfaulty e s); [|destruct (efaulty e s)]];
    intros H; injection H; intros <- _; cbn; eauto.
Qed.

Lemma do_store_spec e k n s b s1 : do_store e k n s = (b, s1) ->
  (b = false /\ sto s1 = sto s /\ lg s1 = Ev KStore k false :: lg s) \/
  (sto s1 = put k n (sto s) /\ is_dir (sto s) k = false /\ lg s1 = Ev KStore k b :: lg s).
Proof.
  unfold do_store. destruct (faulty e s); [intros H; injection H; intros <- <-; cbn; auto|].
  destruct (is_dir (sto s) k) eqn:D; [intros H; injection H; intros <- <-; cbn; auto 6|].
  destruct (efaulty e s); intros H; injection H; intros <- <-; cbn; auto 6.
Qed.

(** * Shapes of keys *)
Definition site_folder (sk : key) : Prop := exists ik, child spec_certs ik /\ child ik sk.

Lemma site_asset_shape sk a : site_folder sk -> child sk a -> site_assetb a = true.
Proof.
  intros [ik [[c1 [-> H1]] [c2 [-> H2]]]] [c3 [-> H3]].
  unfold site_assetb.
  replace (((spec_certs ++ c_sl :: c1) ++ c_sl :: c2) ++ c_sl :: c3)
    with ((spec_certs ++ [c_sl]) ++ (c1 ++ c_sl :: c2 ++ c_sl :: c3)).
  2:{ repeat rewrite <- app_assoc. cbn. repeat rewrite <- app_assoc. reflexivity. }
  rewrite strip_prefix_app, split_on_length.
  replace (c1 ++ c_sl :: c2 ++ c_sl :: c3) with (c1 ++ [c_sl] ++ c2 ++ [c_sl] ++ c3) by reflexivity.
  repeat rewrite nsep_app. rewrite (nsep_nomem _ H1), (nsep_nomem _ H2), (nsep_nomem _ H3). reflexivity.
Qed.

Lemma cmp_ge_spec x g : cmp_holds CmpGe x g = (g <=? x).
Proof. reflexivity. Qed.

(** nothing is left below k *)
Definition gone_under (cur : store) (k : key) : Prop := forall k', under k k' = true -> lookup cur k' = None.
Lemma gone_under_remove x cur k : gone_under cur k -> gone_under (remove x cur) k.
Proof. intros G k' U. rewrite lookup_remove. destruct (covers x k'); [reflexivity | exact (G k' U)]. Qed.

Lemma site_folder_shape sk : site_folder sk -> site_folderb sk = true.
Proof.
  intros [ik [[c1 [-> H1]] [c2 [-> H2]]]]. unfold site_folderb.
  replace ((spec_certs ++ c_sl :: c1) ++ c_sl :: c2) with ((spec_certs ++ [c_sl]) ++ (c1 ++ c_sl :: c2)).
  2:{ repeat rewrite <- app_assoc. cbn. reflexivity. }
  rewrite strip_prefix_app, split_on_length.
  replace (c1 ++ c_sl :: c2) with (c1 ++ [c_sl] ++ c2) by reflexivity.
  repeat rewrite nsep_app. rewrite (nsep_nomem _ H1), (nsep_nomem _ H2). reflexivity.
Qed.

(** * The invariant: the current storage is the initial one minus justified keys *)
Section Safety.
  Variables (o : opts) (clk : nat -> Z) (s0 : store).

  (** deleting k is justified at one of the readings of the clock *)
  Definition jt (k : key) : Prop := exists i, justified o (clk i) s0 k = true.

  (** how a key may differ from the initial storage: not at all; gone and justified; or it was a
      directory node -- an emptied site folder -- and nothing is left below it *)
  Inductive kstate (cur : store) (k : key) : Prop :=
  | KSame : lookup cur k = lookup s0 k -> kstate cur k
  | KJust : lookup cur k = None -> jt k -> kstate cur k
  | KFolder : lookup cur k = None -> lookup s0 k = Some Dir -> site_folderb k = true ->
              do_certs o = true -> gone_under cur k -> kstate cur k.
  Definition Inv (cur : store) : Prop := forall k, kstate cur k.

  Lemma gone_under_removep x keep cur k : gone_under cur k -> gone_under (removep x keep cur) k.
  Proof. intros G k' U. rewrite lookup_removep. destruct (covers x k' && negb (memk k' keep)); [reflexivity | exact (G k' U)]. Qed.

  (** a Delete(x) that removes all or part of what x covers *)
  Lemma Inv_removep x keep cur : Inv cur ->
    (forall k, covers x k = true ->
       lookup cur k = None \/ jt k \/
       (lookup s0 k = Some Dir /\ site_folderb k = true /\ do_certs o = true /\ gone_under cur k)) ->
    Inv (removep x keep cur).
  Proof.
    intros HI H k. pose proof (lookup_removep x keep cur k) as L.
    destruct (covers x k && negb (memk k keep)) eqn:C.
    - apply andb_true_iff in C. destruct C as [C _]. destruct (H k C) as [N|[J|(D & Sf & Ho & G)]].
      + destruct (HI k) as [E|N' J|N' D Sf Ho G].
        * apply KSame. congruence.
        * apply KJust; assumption.
        * apply KFolder; try assumption. apply gone_under_removep; exact G.
      + apply KJust; assumption.
      + apply KFolder; try assumption. apply gone_under_removep; exact G.
    - destruct (HI k) as [E|N' J|N' D Sf Ho G].
      + apply KSame. congruence.
      + apply KJust; [congruence | assumption].
      + apply KFolder; try assumption; [congruence | apply gone_under_removep; exact G].
  Qed.
  Lemma removep_nil x s : removep x [] s = remove x s.
  Proof.
    unfold removep, remove. apply filter_ext. intros a. cbn. apply orb_false_r.
  Qed.
  Lemma Inv_remove x cur : Inv cur ->
    (forall k, covers x k = true ->
       lookup cur k = None \/ jt k \/
       (lookup s0 k = Some Dir /\ site_folderb k = true /\ do_certs o = true /\ gone_under cur k)) ->
    Inv (remove x cur).
  Proof. intros HI H. rewrite <- removep_nil. apply Inv_removep; assumption. Qed.

  Lemma Inv_some cur k v c : Inv cur -> file cur k = Some (v, c) -> file s0 k = Some (v, c).
  Proof.
    intros HI E. unfold file in *. destruct (HI k) as [E'|N _|N _ _ _ _].
    - rewrite <- E'. exact E.
    - rewrite N in E. discriminate.
    - rewrite N in E. discriminate.
  Qed.

  Lemma file_in s k x : file s k = Some x -> In k (map fst s).
  Proof.
    unfold file. destruct (lookup s k) as [n|] eqn:L; [|discriminate]. intros _. exact (lookup_in _ _ _ L).
  Qed.

  (** a stale staple justifies deleting it and whatever lies under it *)
  Lemma staple_justifies now a v c : do_ocsp o = true -> child spec_ocsp a ->
    file s0 a = Some (v, c) -> spec_stale now c = true ->
    forall k, covers a k = true -> justified o now s0 k = true.
  Proof.
    intros Ho Hc Hf Hs k Ck. unfold justified. rewrite Ho.
    assert (J : j_staple now s0 k = true); [|rewrite J; reflexivity].
    unfold j_staple. apply existsb_exists. exists a. split; [exact (file_in _ _ _ Hf)|].
    unfold j_staple_by. apply childb_child in Hc. rewrite Hc, Ck, Hf. exact Hs.
  Qed.

  (** an expired certificate file in a site folder justifies deleting X.crt, X.key, X.json *)
  Lemma cert_justifies now a v c x : do_certs o = true -> site_assetb a = true ->
    seqb (path_ext a) spec_ext_crt = true -> file s0 a = Some (v, c) ->
    spec_expired now (grace o) c = true ->
    In x [a; trim_suffix spec_ext_crt a ++ spec_ext_key; trim_suffix spec_ext_crt a ++ spec_ext_json] ->
    forall k, covers x k = true -> justified o now s0 k = true.
  Proof.
    intros Ho Ha He Hf Hx Hin k Ck. unfold justified. rewrite Ho.
    assert (J : j_cert now (grace o) s0 k = true).
    { unfold j_cert. apply existsb_exists. exists a. split; [exact (file_in _ _ _ Hf)|].
      unfold j_cert_by. rewrite Ha, He, Hf.
      match goal with |- (if ?b then _ else _) = true => assert (B : b = true); [|rewrite B; exact Hx] end.
      destruct Hin as [<-|[<-|[<-|[]]]]; rewrite Ck.
      - reflexivity.
      - destruct (covers a k); reflexivity.
      - destruct (covers a k); [reflexivity|].
        destruct (covers (trim_suffix spec_ext_crt a ++ spec_ext_key) k); reflexivity. }
    rewrite J. destruct (if do_ocsp o then j_staple now s0 k else false); reflexivity.
  Qed.

  Section Loops.
    Variable e : env.

    Lemma delete_keeps_inv k s b s1 : do_delete e k s = (b, s1) -> Inv (sto s) ->
      (forall k', covers k k' = true ->
         lookup (sto s) k' = None \/ jt k' \/
         (lookup s0 k' = Some Dir /\ site_folderb k' = true /\ do_certs o = true /\
          gone_under (sto s) k')) ->
      Inv (sto s1).
    Proof.
      intros D HI H. destruct (do_delete_spec _ _ _ _ _ D) as [->| [-> | [keep ->]]]; [exact HI| |].
      - apply Inv_remove; assumption.
      - apply Inv_removep; assumption.
    Qed.

    Lemma staples_loop_inv ks : do_ocsp o = true -> Forall (child spec_ocsp) ks ->
      forall s, Inv (sto s) -> Inv (sto (staples_loop e clk ks s)).
    Proof.
      intros Ho. induction ks as [|a r IH]; intros HF s HI; cbn [staples_loop]; [exact HI|].
      inversion HF as [|? ? Ha HF']; subst.
      destruct (cancelled e s); [exact HI|].
      destruct (do_load e a s) as [res s1] eqn:L.
      destruct (do_load_spec _ _ _ _ _ L) as (E1 & Hok & _).
      destruct res as [v c| |]; try (apply IH; [assumption | rewrite E1; exact HI]).
      destruct (stale_staple (rd clk s1) c) eqn:St; [|apply IH; [assumption | rewrite E1; exact HI]].
      destruct (do_delete e a s1) as [b s2] eqn:D. apply IH; [assumption|].
      apply (delete_keeps_inv _ _ _ _ D); [rewrite E1; exact HI|].
      intros k' Ck. right; left. exists (length (lg s1)).
      assert (Hf : file (sto s) a = Some (v, c)) by (unfold file; rewrite (Hok v c eq_refl); reflexivity).
      apply (staple_justifies (rd clk s1) a v c Ho Ha (Inv_some _ _ _ _ HI Hf)); [|exact Ck].
      unfold stale_staple in St. unfold spec_stale. destruct (as_staple c); [|reflexivity].
      destruct consts_ok as (_ & _ & _ & _ & _ & Es & _). rewrite Es in St. exact St.
    Qed.

    Lemma delete_old_staples_inv s : do_ocsp o = true -> Inv (sto s) ->
      Inv (sto (delete_old_staples e clk s)).
    Proof.
      intros Ho HI. unfold delete_old_staples.
      destruct (do_list e prefix_ocsp s) as [res s1] eqn:L.
      destruct (do_list_spec _ _ _ _ _ L) as (E1 & Hl).
      destruct res as [ks|]; [|rewrite E1; exact HI].
      apply staples_loop_inv; [exact Ho| |rewrite E1; exact HI].
      destruct consts_ok as (_ & _ & _ & _ & _ & _ & _ & _ & _ & <-).
      exact (list_pure_child _ _ _ _ (Hl ks eq_refl)).
    Qed.

    Lemma delete_related_inv base sufs :
      Forall (fun suf => forall k, covers (base ++ suf) k = true -> jt k) sufs ->
      forall s, Inv (sto s) -> Inv (sto (delete_related e base sufs s)).
    Proof.
      induction sufs as [|x r IH]; intros HF s HI; cbn [delete_related]; [exact HI|].
      inversion HF as [|? ? Hx HF']; subst.
      destruct (do_delete e (base ++ x) s) as [b s1] eqn:D. apply IH; [assumption|].
      apply (delete_keeps_inv _ _ _ _ D HI). intros k' Ck. right; left. exact (Hx k' Ck).
    Qed.

    Lemma assets_loop_inv assets : do_certs o = true ->
      forall sk, site_folder sk -> Forall (child sk) assets ->
      forall s, Inv (sto s) -> Inv (sto (snd (assets_loop e clk (grace o) assets s))).
    Proof.
      intros Ho sk Hsk. induction assets as [|a r IH]; intros HF s HI; cbn [assets_loop]; [exact HI|].
      inversion HF as [|? ? Ha HF']; subst.
      destruct (negb (seqb (path_ext a) clean_ext_crt)) eqn:Ext; [apply IH; assumption|].
      apply negb_false_iff in Ext.
      destruct (do_load e a s) as [res s1] eqn:L.
      destruct (do_load_spec _ _ _ _ _ L) as (E1 & Hok & _).
      destruct res as [v c| |]; cbn [snd]; try (rewrite E1; exact HI).
      destruct (as_cert c) as [na|] eqn:Ac; cbn [snd]; [|rewrite E1; exact HI].
      destruct (expired_cert (rd clk s1) (grace o) c) eqn:Ex; [|apply IH; [assumption | rewrite E1; exact HI]].
      destruct (do_delete e a s1) as [b s2] eqn:D.
      assert (Hf : file (sto s) a = Some (v, c)) by (unfold file; rewrite (Hok v c eq_refl); reflexivity).
      apply (Inv_some _ _ _ _ HI) in Hf.
      destruct consts_ok as (Ec & Et & Er & Eg & _).
      rewrite Ec in Ext.
      assert (Hx : spec_expired (rd clk s1) (grace o) c = true).
      { unfold expired_cert in Ex. unfold spec_expired. rewrite Ac in *. rewrite Eg, cmp_ge_spec in Ex. exact Ex. }
      pose proof (cert_justifies (rd clk s1) a v c) as CJ0.
      specialize (fun x => CJ0 x Ho (site_asset_shape _ _ Hsk Ha) Ext Hf Hx).
      assert (CJ : forall x, In x [a; trim_suffix spec_ext_crt a ++ spec_ext_key; trim_suffix spec_ext_crt a ++ spec_ext_json] ->
                   forall k, covers x k = true -> jt k).
      { intros x Hin k Ck. exists (length (lg s1)). exact (CJ0 x Hin k Ck). }
      apply IH; [assumption|]. rewrite Et, Er.
      apply delete_related_inv.
      - repeat constructor; intros k; apply CJ; cbn; auto.
      - apply (delete_keeps_inv _ _ _ _ D); [rewrite E1; exact HI|].
        intros k' Ck. right; left. apply (CJ a); cbn; auto.
    Qed.

    Lemma sites_loop_inv sites : do_certs o = true ->
      forall ik, child spec_certs ik -> Forall (child ik) sites ->
      forall s, Inv (sto s) -> Inv (sto (snd (sites_loop e clk (grace o) sites s))).
    Proof.
      intros Ho ik Hik. induction sites as [|sk r IH]; intros HF s HI; cbn [sites_loop]; [exact HI|].
      inversion HF as [|? ? Hsk HF']; subst.
      destruct (cancelled e s); [exact HI|].
      destruct (do_list e sk s) as [res s1] eqn:L1.
      destruct (do_list_spec _ _ _ _ _ L1) as (E1 & Hl1).
      destruct res as [assets|]; [|apply IH; [assumption | rewrite E1; exact HI]].
      destruct (assets_loop e clk (grace o) assets s1) as [ab s2] eqn:A.
      assert (HI2 : Inv (sto s2)).
      { change s2 with (snd (ab, s2)). rewrite <- A.
        apply (assets_loop_inv assets Ho sk); [exists ik; auto | | rewrite E1; exact HI].
        exact (list_pure_child _ _ _ _ (Hl1 assets eq_refl)). }
      destruct ab; [exact HI2|].
      destruct (do_list e sk s2) as [res2 s3] eqn:L2.
      destruct (do_list_spec _ _ _ _ _ L2) as (E3 & Hl2).
      destruct res2 as [[|x xs]|]; try (apply IH; [assumption | rewrite E3; exact HI2]).
      destruct (do_stat e sk s3) as [sr s4] eqn:S.
      destruct (do_stat_spec _ _ _ _ _ S) as (E4 & Hdir).
      destruct sr; try (apply IH; [assumption | rewrite E4, E3; exact HI2]).
      destruct (do_delete e sk s4) as [ok s5] eqn:D.
      assert (HI5 : Inv (sto s5)).
      { apply (delete_keeps_inv _ _ _ _ D); [rewrite E4, E3; exact HI2|].
        intros k' Ck. rewrite E4.
        destruct (list_pure_nil _ _ _ (Hl2 [] eq_refl)) as [(v & c & Hfile)|[Hd Hnil]].
        - exfalso. rewrite <- E3 in Hfile. exact (Hdir eq_refl v c Hfile).
        - rewrite <- E3 in Hnil, Hd. unfold covers in Ck. apply orb_true_iff in Ck. destruct Ck as [Ck|Ck].
          + apply seqb_eq in Ck; subst k'. right; right.
            assert (Hd0 : lookup s0 sk = Some Dir).
            { destruct (HI2 sk) as [E'|N _|N _ _ _ _]; rewrite <- E3 in *; congruence. }
            split; [exact Hd0|]. split; [apply site_folder_shape; exists ik; auto|]. split; [exact Ho|].
            intros k'' U. exact (comps_below_nil _ _ Hnil _ U).
          + left. exact (comps_below_nil _ _ Hnil _ Ck). }
      destruct ok; [apply IH; assumption | exact HI5].
    Qed.

    Lemma issuers_loop_inv iss : do_certs o = true -> Forall (child spec_certs) iss ->
      forall s, Inv (sto s) -> Inv (sto (snd (issuers_loop e clk (grace o) iss s))).
    Proof.
      intros Ho. induction iss as [|ik r IH]; intros HF s HI; cbn [issuers_loop]; [exact HI|].
      inversion HF as [|? ? Hik HF']; subst.
      destruct (do_list e ik s) as [res s1] eqn:L1.
      destruct (do_list_spec _ _ _ _ _ L1) as (E1 & Hl1).
      destruct res as [sites|]; [|apply IH; [assumption | rewrite E1; exact HI]].
      destruct (sites_loop e clk (grace o) sites s1) as [ab s2] eqn:A.
      assert (HI2 : Inv (sto s2)).
      { change s2 with (snd (ab, s2)). rewrite <- A.
        apply (sites_loop_inv sites Ho ik Hik); [|rewrite E1; exact HI].
        exact (list_pure_child _ _ _ _ (Hl1 sites eq_refl)). }
      destruct ab; [exact HI2 | apply IH; assumption].
    Qed.

    Lemma delete_expired_certs_inv s : do_certs o = true -> Inv (sto s) ->
      Inv (sto (snd (delete_expired_certs e clk (grace o) s))).
    Proof.
      intros Ho HI. unfold delete_expired_certs.
      destruct (do_list e prefix_certs s) as [res s1] eqn:L.
      destruct (do_list_spec _ _ _ _ _ L) as (E1 & Hl).
      destruct res as [iss|]; [|cbn; rewrite E1; exact HI].
      apply issuers_loop_inv; [exact Ho| |rewrite E1; exact HI].
      destruct consts_ok as (_ & _ & _ & _ & _ & _ & _ & _ & <- & _).
      exact (list_pure_child _ _ _ _ (Hl iss eq_refl)).
    Qed.
  End Loops.
End Safety.

(** * Where justified keys live *)
Lemma has_prefix_app p x y : has_prefix p x = true -> has_prefix p (x ++ y) = true.
Proof. rewrite !has_prefix_spec. intros [r ->]. exists (r ++ y). rewrite app_assoc. reflexivity. Qed.
Lemma covers_prefix p x k : has_prefix p x = true -> covers x k = true -> has_prefix p k = true.
Proof.
  intros Hp C. unfold covers in C. apply orb_true_iff in C. destruct C as [C|C].
  - apply seqb_eq in C. subst; exact Hp.
  - apply under_spec in C. destruct C as [r ->]. apply has_prefix_app. exact Hp.
Qed.

Lemma trim_suffix_spec suf s : trim_suffix suf s = s \/ s = trim_suffix suf s ++ suf.
Proof.
  unfold trim_suffix. destruct (strip_prefix (rev suf) (rev s)) as [r|] eqn:E; [right | left; reflexivity].
  apply strip_prefix_spec in E. apply (f_equal (@rev N)) in E.
  rewrite rev_involutive, rev_app_distr, rev_involutive in E. exact E.
Qed.

Definition certs_pfx : str := spec_certs ++ [c_sl].
Definition ocsp_pfx : str := spec_ocsp ++ [c_sl].

Lemma site_assetb_spec a : site_assetb a = true <-> exists r, a = certs_pfx ++ r /\ nsep r = 2%nat.
Proof.
  unfold site_assetb, certs_pfx. destruct (strip_prefix (spec_certs ++ [c_sl]) a) as [r|] eqn:E.
  - apply strip_prefix_spec in E. rewrite split_on_length, Nat.eqb_eq. split.
    + intros H. exists r. split; [exact E | lia].
    + intros [r' [E' H]]. rewrite E in E'. apply app_inv_head in E'. subst. lia.
  - split; [discriminate|]. intros [r [-> _]]. rewrite strip_prefix_app in E. discriminate.
Qed.

Lemma asset_base_prefix a : site_assetb a = true ->
  has_prefix certs_pfx (trim_suffix spec_ext_crt a) = true.
Proof.
  intros Ha. apply site_assetb_spec in Ha. destruct Ha as [r [Ea Hr]].
  destruct (trim_suffix_spec spec_ext_crt a) as [->|E].
  - apply has_prefix_spec. eauto.
  - set (b := trim_suffix spec_ext_crt a) in *. rewrite Ea in E.
    apply app_eq_app in E. destruct E as [l [[E1 E2]|[E1 E2]]].
    + exfalso. apply (f_equal nsep) in E2. rewrite nsep_app, Hr in E2. cbn in E2. lia.
    + apply has_prefix_spec. eauto.
Qed.

Theorem justified_in_namespace o now s0 k : justified o now s0 k = true ->
  has_prefix ocsp_pfx k = true \/ has_prefix certs_pfx k = true.
Proof.
  unfold justified.
  destruct (if do_ocsp o then j_staple now s0 k else false) eqn:JS.
  - intros _. left. destruct (do_ocsp o); [|discriminate].
    unfold j_staple in JS. apply existsb_exists in JS. destruct JS as [a [_ Ja]].
    unfold j_staple_by in Ja. destruct (childb spec_ocsp a) eqn:Ch; [|discriminate].
    destruct (covers a k) eqn:C; [|discriminate].
    apply childb_child in Ch. destruct Ch as [c [-> _]].
    apply (covers_prefix _ (spec_ocsp ++ c_sl :: c)); [|exact C].
    apply has_prefix_spec. exists c. unfold ocsp_pfx. rewrite <- app_assoc. reflexivity.
  - destruct (do_certs o); [|discriminate]. intros J. right.
    unfold j_cert in J. apply existsb_exists in J. destruct J as [a [_ Ja]].
    unfold j_cert_by in Ja. destruct (site_assetb a) eqn:Sa; [|discriminate].
    destruct (seqb (path_ext a) spec_ext_crt); [|discriminate].
    pose proof (asset_base_prefix a Sa) as Hb.
    apply site_assetb_spec in Sa. destruct Sa as [r [Ea _]].
    destruct (covers a k) eqn:C1.
    + apply (covers_prefix _ a); [|exact C1]. apply has_prefix_spec; eauto.
    + destruct (covers (trim_suffix spec_ext_crt a ++ spec_ext_key) k) eqn:C2.
      * apply (covers_prefix _ _ _ (has_prefix_app _ _ _ Hb) C2).
      * destruct (covers (trim_suffix spec_ext_crt a ++ spec_ext_json) k) eqn:C3; [|discriminate].
        apply (covers_prefix _ _ _ (has_prefix_app _ _ _ Hb) C3).
Qed.

Lemma last_clean_not_justified o now s0 : justified o now s0 spec_last_clean = false.
Proof.
  destruct (justified o now s0 spec_last_clean) eqn:J; [|reflexivity].
  apply justified_in_namespace in J. destruct J as [J|J]; vm_compute in J; discriminate.
Qed.

(** * The whole cleaning *)
(** the storage afterwards: every terminal key is unchanged, or gone and justified, or it is
    last_clean.json holding the freshly written record *)
Definition Post (o : opts) (clk : nat -> Z) (s0 fin : store) : Prop :=
  forall k, (file fin k = file s0 k \/ (file fin k = None /\ jt o clk s0 k)) \/
            (k = spec_last_clean /\ exists i, lookup fin k = Some (written (clk i) o)).

Lemma interval_check_sto e o clk s r s1 : interval_check e o clk s = (r, s1) -> sto s1 = sto s.
Proof.
  unfold interval_check. destruct (0 <? interval o); [|intros H; injection H; intros <- _; reflexivity].
  destruct (do_load e clean_storage_key s) as [res s2] eqn:L.
  destruct (do_load_spec _ _ _ _ _ L) as (E & _).
  destruct res as [v c| |]; try (intros H; injection H; intros <- _; exact E).
  destruct (as_clean c) as [[ts i]|]; [|intros H; injection H; intros <- _; exact E].
  destruct (cmp_holds clean_interval_cmp (rd clk s2 - ts) (interval o)); intros H; injection H; intros <- _; exact E.
Qed.

(** the storage afterwards, node by node: as [kstate], or last_clean.json freshly written --
    which happens only through a successful Store call ([stored]) and never onto a directory *)
Inductive kpost (o : opts) (clk : nat -> Z) (s0 fin : store) (stored : bool) (k : key) : Prop :=
| PState : kstate o clk s0 fin k -> kpost o clk s0 fin stored k
| PWritten i : k = spec_last_clean -> lookup fin k = Some (written (clk i) o) -> stored = true ->
             lookup s0 k <> Some Dir -> kpost o clk s0 fin stored k.
Definition PostN (o : opts) (clk : nat -> Z) (s0 : store) (s' : st) : Prop :=
  forall k, kpost o clk s0 (sto s') (stored_any (lg s')) k.

Lemma site_folderb_prefix k : site_folderb k = true -> has_prefix (spec_certs ++ [c_sl]) k = true.
Proof.
  unfold site_folderb, has_prefix. destruct (strip_prefix (spec_certs ++ [c_sl]) k); [reflexivity | discriminate].
Qed.

Lemma clean_locked_postN e o clk s0 s : Inv o clk s0 (sto s) ->
  PostN o clk s0 (snd (clean_locked e o clk s)).
Proof.
  intros HI. unfold clean_locked.
  destruct (interval_check e o clk s) as [ir s1] eqn:IC.
  pose proof (interval_check_sto _ _ _ _ _ _ IC) as E1.
  destruct ir; cbn [snd]; try (intros k; apply PState; rewrite E1; exact (HI k)).
  set (s2 := if do_ocsp o then delete_old_staples e clk s1 else s1).
  assert (HI2 : Inv o clk s0 (sto s2)).
  { subst s2. destruct (do_ocsp o) eqn:Ho; [|rewrite E1; exact HI].
    apply delete_old_staples_inv; [exact Ho | rewrite E1; exact HI]. }
  set (s3 := if do_certs o then snd (delete_expired_certs e clk (grace o) s2) else s2).
  assert (HI3 : Inv o clk s0 (sto s3)).
  { subst s3. destruct (do_certs o) eqn:Ho; [|exact HI2].
    apply delete_expired_certs_inv; [exact Ho | exact HI2]. }
  destruct (do_store e clean_storage_key (written (rd clk s3) o) s3) as [ok s4] eqn:S. cbn [snd].
  destruct (do_store_spec _ _ _ _ _ _ S) as [(_ & E4 & _)|(E4 & Hnd & L4)];
    [intros k; apply PState; rewrite E4; exact (HI3 k)|].
  destruct consts_ok as (_ & _ & _ & _ & _ & _ & _ & Ek & _). rewrite Ek in *.
  intros k. rewrite E4. pose proof (lookup_put spec_last_clean (written (rd clk s3) o) (sto s3) k) as L.
  destruct (seqb spec_last_clean k) eqn:E.
  - apply seqb_eq in E; subst k. apply (PWritten _ _ _ _ _ _ (length (lg s3))); [reflexivity | exact L | rewrite L4; reflexivity |].
    intros D0. destruct (HI3 spec_last_clean) as [E'|N J|N D Sf Ho G].
    + unfold is_dir in Hnd. rewrite E', D0 in Hnd. discriminate.
    + destruct J as [i J]. rewrite last_clean_not_justified in J. discriminate.
    + vm_compute in Sf. discriminate.
  - apply PState. destruct (HI3 k) as [E'|N J|N D Sf Ho G].
    + apply KSame. congruence.
    + apply KJust; [congruence | exact J].
    + apply KFolder; try assumption; [congruence|].
      intros k' U. rewrite lookup_put. destruct (seqb spec_last_clean k') eqn:E'; [|exact (G k' U)].
      exfalso. apply seqb_eq in E'; subst k'.
      pose proof (site_folderb_prefix _ Sf) as P. apply under_spec in U. destruct U as [r U].
      apply has_prefix_spec in P. destruct P as [r' ->]. rewrite <- app_assoc in U.
      assert (X : has_prefix (spec_certs ++ [c_sl]) spec_last_clean = true) by (apply has_prefix_spec; eauto).
      vm_compute in X. discriminate.
Qed.

Lemma Inv_init o clk s0 : Inv o clk s0 s0.
Proof. intros k; apply KSame; reflexivity. Qed.

(** node-level statement (covers the directory nodes of the FileStorage flavour) *)
Theorem clean_post_nodes e o clk s0 : PostN o clk s0 (snd (clean e o clk s0)).
Proof.
  unfold clean, do_lock. destruct (faulty e (St s0 [])); cbn [snd].
  - intros k; apply PState, KSame; reflexivity.
  - destruct (clean_locked e o clk _) as [r s2] eqn:C. cbn [snd].
    match type of C with clean_locked _ _ _ ?sx = _ =>
      pose proof (clean_locked_postN e o clk s0 sx (Inv_init o clk s0)) as P end.
    rewrite C in P. cbn [snd] in P. intros k. specialize (P k). unfold do_unlock. cbn [sto lg logged].
    unfold stored_any in *. cbn [existsb ev_kind]. exact P.
Qed.

(** the same for terminal keys *)
Theorem clean_post e o clk s0 : Post o clk s0 (sto (snd (clean e o clk s0))).
Proof.
  intros k. destruct (clean_post_nodes e o clk s0 k) as [[E|N J|N D _ _ _]|i E W _ _].
  - left; left. unfold file. rewrite E. reflexivity.
  - left; right. split; [unfold file; rewrite N; reflexivity | exact J].
  - left; left. unfold file. rewrite N, D. reflexivity.
  - right. split; [assumption | exists i; assumption].
Qed.

(** * Shape of the call log *)
Definition nolock (l : list event) : bool := forallb (fun ev => negb (is_lockop (ev_kind ev))) l.
(** [s'] is reached from [s] by storage calls only (no Lock / Unlock) *)
Definition ext (s s' : st) : Prop := exists new, lg s' = new ++ lg s /\ nolock new = true.

Lemma ext_refl s : ext s s.
Proof. exists []; split; reflexivity. Qed.
Lemma ext_trans s1 s2 s3 : ext s1 s2 -> ext s2 s3 -> ext s1 s3.
Proof.
  intros [n1 [E1 H1]] [n2 [E2 H2]]. exists (n2 ++ n1). split.
  - rewrite E2, E1, app_assoc. reflexivity.
  - unfold nolock in *. rewrite forallb_app, H1, H2. reflexivity.
Qed.
Lemma ext_one k ky ok st' s : is_lockop k = false -> ext s (logged k ky ok st' s).
Proof. intros H. exists [Ev k ky ok]. split; [reflexivity|]. cbn. rewrite H. reflexivity. Qed.

Lemma do_load_ext e k s : ext s (snd (do_load e k s)).
Proof.
  unfold do_load. destruct (faulty e s); [apply ext_one; reflexivity|].
  destruct (lookup (sto s) k) as [[v c|]|]; try destruct (is_dir (sto s) k); apply ext_one; reflexivity.
Qed.
Lemma do_list_ext e k s : ext s (snd (do_list e k s)).
Proof. unfold do_list. destruct (faulty e s); apply ext_one; reflexivity. Qed.
Lemma do_stat_ext e k s : ext s (snd (do_stat e k s)).
Proof. unfold do_stat. destruct (faulty e s); apply ext_one; reflexivity. Qed.
Lemma do_delete_ext e k s : ext s (snd (do_delete e k s)).
Proof. unfold do_delete. destruct (faulty e s); [|destruct (pfaulty e s); [|destruct (efaulty e s)]]; apply ext_one; reflexivity. Qed.

Ltac ext_step :=
  match goal with
  | |- context [do_load ?e ?k ?s] =>
      let r := fresh "r" in let s1 := fresh "s" in let E := fresh "E" in let X := fresh "X" in
      pose proof (do_load_ext e k s) as X; destruct (do_load e k s) as [r s1] eqn:E; cbn [snd] in X
  | |- context [do_list ?e ?k ?s] =>
      let r := fresh "r" in let s1 := fresh "s" in let E := fresh "E" in let X := fresh "X" in
      pose proof (do_list_ext e k s) as X; destruct (do_list e k s) as [r s1] eqn:E; cbn [snd] in X
  | |- context [do_stat ?e ?k ?s] =>
      let r := fresh "r" in let s1 := fresh "s" in let E := fresh "E" in let X := fresh "X" in
      pose proof (do_stat_ext e k s) as X; destruct (do_stat e k s) as [r s1] eqn:E; cbn [snd] in X
  | |- context [do_delete ?e ?k ?s] =>
      let r := fresh "r" in let s1 := fresh "s" in let E := fresh "E" in let X := fresh "X" in
      pose proof (do_delete_ext e k s) as X; destruct (do_delete e k s) as [r s1] eqn:E; cbn [snd] in X
  end.
Ltac ext_close := repeat first [ apply ext_refl | eassumption | (eapply ext_trans; [eassumption|]) ].

Lemma staples_loop_ext e clk ks : forall s, ext s (staples_loop e clk ks s).
Proof.
  induction ks as [|a r IH]; intros s; cbn [staples_loop]; [apply ext_refl|].
  destruct (cancelled e s); [apply ext_refl|].
  ext_step. destruct r0 as [v c| |]; try (ext_close; apply IH).
  destruct (stale_staple _ c); [ext_step|]; ext_close; apply IH.
Qed.
Lemma delete_old_staples_ext e clk s : ext s (delete_old_staples e clk s).
Proof.
  unfold delete_old_staples. ext_step. destruct r as [ks|]; ext_close. apply staples_loop_ext.
Qed.
Lemma delete_related_ext e base sufs : forall s, ext s (delete_related e base sufs s).
Proof.
  induction sufs as [|x r IH]; intros s; cbn [delete_related]; [apply ext_refl|].
  ext_step. ext_close. apply IH.
Qed.
Lemma assets_loop_ext e clk gr assets : forall s, ext s (snd (assets_loop e clk gr assets s)).
Proof.
  induction assets as [|a r IH]; intros s; cbn [assets_loop]; [apply ext_refl|].
  destruct (negb (seqb (path_ext a) clean_ext_crt)); [apply IH|].
  ext_step. destruct r0 as [v c| |]; cbn [snd]; ext_close.
  destruct (as_cert c); cbn [snd]; ext_close.
  destruct (expired_cert _ gr c); [ext_step|]; ext_close; [|apply IH].
  eapply ext_trans; [apply delete_related_ext | apply IH].
Qed.
Lemma sites_loop_ext e clk gr sites : forall s, ext s (snd (sites_loop e clk gr sites s)).
Proof.
  induction sites as [|sk r IH]; intros s; cbn [sites_loop]; [apply ext_refl|].
  destruct (cancelled e s); [apply ext_refl|].
  ext_step. destruct r0 as [assets|]; [|ext_close; apply IH].
  match goal with |- context [assets_loop e clk gr assets ?x] =>
    pose proof (assets_loop_ext e clk gr assets x) as XA;
    destruct (assets_loop e clk gr assets x) as [ab s2] end. cbn [snd] in XA.
  destruct ab; cbn [snd]; [ext_close|].
  ext_step. destruct r0 as [[|x xs]|]; try (ext_close; apply IH).
  ext_step. destruct r0; try (ext_close; apply IH).
  ext_step. destruct r0; cbn [snd]; ext_close. apply IH.
Qed.
Lemma issuers_loop_ext e clk gr iss : forall s, ext s (snd (issuers_loop e clk gr iss s)).
Proof.
  induction iss as [|ik r IH]; intros s; cbn [issuers_loop]; [apply ext_refl|].
  ext_step. destruct r0 as [sites|]; [|ext_close; apply IH].
  match goal with |- context [sites_loop e clk gr sites ?x] =>
    pose proof (sites_loop_ext e clk gr sites x) as XA;
    destruct (sites_loop e clk gr sites x) as [ab s2] end. cbn [snd] in XA.
  destruct ab; cbn [snd]; ext_close. apply IH.
Qed.
Lemma delete_expired_certs_ext e clk gr s : ext s (snd (delete_expired_certs e clk gr s)).
Proof.
  unfold delete_expired_certs. ext_step. destruct r as [iss|]; cbn [snd]; ext_close. apply issuers_loop_ext.
Qed.

Lemma interval_check_log e o clk s r s1 : interval_check e o clk s = (r, s1) ->
  exists pre, lg s1 = pre ++ lg s /\ (pre = [] \/ exists ok, pre = [Ev KLoad spec_last_clean ok]).
Proof.
  unfold interval_check. destruct consts_ok as (_ & _ & _ & _ & _ & _ & _ & -> & _).
  destruct (0 <? interval o); [|intros H; injection H; intros <- _; exists []; auto].
  assert (L : exists ok, lg (snd (do_load e spec_last_clean s)) = [Ev KLoad spec_last_clean ok] ++ lg s).
  { unfold do_load. destruct (faulty e s); [eexists; reflexivity|].
    destruct (lookup (sto s) spec_last_clean) as [[v c|]|]; try destruct (is_dir (sto s) spec_last_clean); eexists; reflexivity. }
  destruct (do_load e spec_last_clean s) as [res s2]. cbn [snd] in L. destruct L as [ok L].
  assert (G : exists pre, lg s2 = pre ++ lg s /\ (pre = [] \/ exists ok, pre = [Ev KLoad spec_last_clean ok])) by eauto.
  destruct res as [v c| |]; try (intros H; injection H; intros <- _; exact G).
  destruct (as_clean c) as [[ts i]|]; [|intros H; injection H; intros <- _; exact G].
  destruct (cmp_holds clean_interval_cmp (rd clk s2 - ts) (interval o)); intros H; injection H; intros <- _; exact G.
Qed.

Lemma has_kind_app p a b : has_kind p (a ++ b) = has_kind p a || has_kind p b.
Proof. unfold has_kind. apply existsb_app. Qed.

(** the calls made while the lock is held: either at most the Load of last_clean.json (skip /
    abort), or they end with the Store of last_clean.json whose success is the result *)
Lemma clean_locked_log e o clk s r s' : clean_locked e o clk s = (r, s') ->
  exists body, lg s' = body ++ lg s /\ nolock body = true /\
    ((has_kind does_work body = false /\ r <> RErrStore /\ r <> RErrLock) \/
     (exists oks mid, body = Ev KStore spec_last_clean oks :: mid /\ r = if oks then RNil else RErrStore)).
Proof.
  unfold clean_locked. destruct (interval_check e o clk s) as [ir s1] eqn:IC.
  destruct (interval_check_log _ _ _ _ _ _ IC) as [pre [Epre Hpre]].
  assert (Npre : nolock pre = true /\ has_kind does_work pre = false)
    by (destruct Hpre as [->|[ok ->]]; split; reflexivity).
  assert (Hres : forall r0, ir = IAbort r0 -> r0 <> RErrStore /\ r0 <> RErrLock).
  { revert IC. unfold interval_check. destruct (0 <? interval o); [|intros H; injection H; intros _ <-; discriminate].
    destruct (do_load e clean_storage_key s) as [res s2]. destruct res as [v c| |].
    - destruct (as_clean c) as [[ts i]|]; [destruct (cmp_holds _ _ _)|];
        intros H; injection H; intros _ <-; intros r0 E; try discriminate; injection E; intros <-; split; discriminate.
    - intros H; injection H; intros _ <-; discriminate.
    - intros H; injection H; intros _ <-; intros r0 E; injection E; intros <-; split; discriminate. }
  destruct ir as [| |r0].
  - (* proceed *)
    set (s2 := if do_ocsp o then delete_old_staples e clk s1 else s1).
    assert (X2 : ext s1 s2) by (subst s2; destruct (do_ocsp o); [apply delete_old_staples_ext | apply ext_refl]).
    set (s3 := if do_certs o then snd (delete_expired_certs e clk (grace o) s2) else s2).
    assert (X3 : ext s1 s3).
    { eapply ext_trans; [exact X2|]. subst s3. destruct (do_certs o); [apply delete_expired_certs_ext | apply ext_refl]. }
    destruct X3 as [new [Enew Hnew]].
    destruct consts_ok as (_ & _ & _ & _ & _ & _ & _ & -> & _).
    unfold do_store.
    destruct (faulty e s3); [|destruct (is_dir (sto s3) spec_last_clean); [|destruct (efaulty e s3)]];
      intros H; injection H; intros <- <-; cbn [lg logged];
      (eexists (_ :: new ++ pre); split; [rewrite Enew, Epre, app_assoc; reflexivity|]; split;
       [cbn; unfold nolock in *; rewrite forallb_app, Hnew; exact (proj1 Npre) | right; eexists; eexists; split; reflexivity]).
  - intros H; injection H; intros <- <-. exists pre. split; [exact Epre|]. split; [exact (proj1 Npre)|].
    left. split; [exact (proj2 Npre)|]. split; discriminate.
  - intros H; injection H; intros <- <-. exists pre. split; [exact Epre|]. split; [exact (proj1 Npre)|].
    left. split; [exact (proj2 Npre)|]. exact (Hres r0 eq_refl).
Qed.

(** the whole call log of a cleaning (newest first) *)
Theorem clean_log e o clk s0 r s' : clean e o clk s0 = (r, s') ->
  (r = RErrLock /\ lg s' = [Ev KLock spec_lock false] /\ sto s' = s0) \/
  (exists body u, lg s' = Ev KUnlock spec_lock u :: body ++ [Ev KLock spec_lock true] /\
     nolock body = true /\
     ((has_kind does_work body = false /\ r <> RErrStore /\ r <> RErrLock) \/
      (exists oks mid, body = Ev KStore spec_last_clean oks :: mid /\ r = if oks then RNil else RErrStore))).
Proof.
  unfold clean, do_lock. destruct consts_ok as (_ & _ & _ & _ & _ & _ & El & _). rewrite El.
  destruct (faulty e (St s0 [])).
  - intros H; injection H; intros <- <-. left. repeat split.
  - destruct (clean_locked e o clk _) as [r1 s2] eqn:C.
    intros H; injection H; intros <- <-. right.
    destruct (clean_locked_log _ _ _ _ _ _ C) as [body [Eb [Nb Hb]]].
    exists body. eexists. unfold do_unlock. rewrite El. cbn [lg logged]. split; [rewrite Eb; reflexivity|].
    split; [exact Nb | exact Hb].
Qed.

Lemma has_kind_rev p l : has_kind p (rev l) = has_kind p l.
Proof.
  unfold has_kind. destruct (existsb _ l) eqn:E.
  - apply existsb_exists in E. destruct E as [x [Hx Px]]. apply existsb_exists. exists x. split; [apply in_rev; rewrite rev_involutive; exact Hx | exact Px].
  - destruct (existsb _ (rev l)) eqn:E'; [|reflexivity].
    apply existsb_exists in E'. destruct E' as [x [Hx Px]]. apply in_rev in Hx.
    assert (existsb (fun ev => p (ev_kind ev)) l = true) by (apply existsb_exists; eauto). congruence.
Qed.
Lemma stored_ok_rev l : stored_ok (rev l) = stored_ok l.
Proof.
  unfold stored_ok. destruct (existsb _ l) eqn:E.
  - apply existsb_exists in E. destruct E as [x [Hx Px]]. apply existsb_exists. exists x. split; [apply in_rev; rewrite rev_involutive; exact Hx | exact Px].
  - destruct (existsb _ (rev l)) eqn:E'; [|reflexivity].
    apply existsb_exists in E'. destruct E' as [x [Hx Px]]. apply in_rev in Hx.
    match type of E with existsb ?f l = false => assert (existsb f l = true) by (apply existsb_exists; eauto) end. congruence.
Qed.

(** the lock is taken first and released last; all storage calls lie in between *)
Theorem clean_bracketed e o clk s0 : bracketedb (rev (lg (snd (clean e o clk s0)))) = true.
Proof.
  destruct (clean e o clk s0) as [r s'] eqn:C. cbn [snd].
  destruct (clean_log _ _ _ _ _ _ C) as [(_ & -> & _)|(body & u & -> & Nb & _)].
  - reflexivity.
  - cbn [rev]. rewrite rev_app_distr. cbn [rev app]. unfold bracketedb.
    rewrite rev_app_distr, rev_involutive. cbn [rev app]. rewrite seqb_refl. cbn [andb]. exact Nb.
Qed.

(** a successful cleaning either recorded itself or did no work at all (it was skipped) *)
Theorem clean_records e o clk s0 : let log := rev (lg (snd (clean e o clk s0))) in
  fst (clean e o clk s0) = RNil -> stored_ok log = true \/ has_kind does_work log = false.
Proof.
  cbn zeta. rewrite stored_ok_rev, has_kind_rev.
  destruct (clean e o clk s0) as [r s'] eqn:C. cbn [fst snd]. intros ->.
  destruct (clean_log _ _ _ _ _ _ C) as [(E & _)|(body & u & -> & Nb & [(Hw & _)|(oks & mid & -> & Er)])].
  - discriminate.
  - right. change (Ev KUnlock spec_lock u :: body ++ [Ev KLock spec_lock true]) with ([Ev KUnlock spec_lock u] ++ body ++ [Ev KLock spec_lock true]).
    rewrite !has_kind_app, Hw. reflexivity.
  - left. destruct oks; [|discriminate]. unfold stored_ok. cbn. reflexivity.
Qed.

(** whoever deletes something goes on to write the record (the Store call is made) *)
Theorem clean_delete_then_record e o clk s0 : let log := rev (lg (snd (clean e o clk s0))) in
  has_kind (fun k => match k with KDelete => true | _ => false end) log = true ->
  has_kind (fun k => match k with KStore => true | _ => false end) log = true.
Proof.
  cbn zeta. rewrite !has_kind_rev.
  destruct (clean e o clk s0) as [r s'] eqn:C. cbn [snd].
  destruct (clean_log _ _ _ _ _ _ C) as [(_ & -> & _)|(body & u & -> & Nb & [(Hw & _)|(oks & mid & -> & Er)])].
  - cbn. discriminate.
  - change (Ev KUnlock spec_lock u :: body ++ [Ev KLock spec_lock true]) with ([Ev KUnlock spec_lock u] ++ body ++ [Ev KLock spec_lock true]).
    rewrite !has_kind_app. cbn. rewrite !orb_false_r. intros H. exfalso.
    unfold has_kind in *. apply existsb_exists in H. destruct H as [x [Hx Px]].
    assert (existsb (fun ev => does_work (ev_kind ev)) body = true); [|congruence].
    apply existsb_exists. exists x. split; [exact Hx|]. destruct (ev_kind x); try discriminate; reflexivity.
  - intros _. cbn. reflexivity.
Qed.

(** a recently recorded cleaning: the storage is left exactly as it was and no work is done *)
Theorem skip_when_recent e o clk s0 : (forall i, recent o (clk i) s0 = true) ->
  sto (snd (clean e o clk s0)) = s0 /\
  has_kind does_work (rev (lg (snd (clean e o clk s0)))) = false.
Proof.
  rewrite has_kind_rev. intros Hall. pose proof (Hall 2%nat) as H.
  unfold recent in H. apply andb_true_iff in H. destruct H as [Hi Hf].
  unfold file in Hf. destruct (lookup s0 spec_last_clean) as [[v c|]|] eqn:L; try discriminate.
  destruct (as_clean c) as [[ts i]|] eqn:A; [|discriminate].
  destruct consts_ok as (_ & _ & _ & _ & Ei & _ & _ & Ek & _).
  unfold clean, do_lock. destruct (faulty e (St s0 [])); [split; reflexivity|].
  unfold clean_locked, interval_check. rewrite Hi, Ek. unfold do_load. cbn [sto logged].
  match goal with |- context [faulty e ?s] => destruct (faulty e s) end; [split; reflexivity|].
  rewrite L, A, Ei. cbn [cmp_holds]. unfold rd. cbn [lg logged length]. rewrite Hf. split; reflexivity.
Qed.

(** * Several cleanings in sequence (= concurrent cleaners, serialised by the lock) *)
Definition sub_store (s1 s : store) : Prop :=
  forall k, k <> spec_last_clean -> file s1 k = file s k \/ file s1 k = None.

Lemma justified_mono o now s1 s k : sub_store s1 s ->
  justified o now s1 k = true -> justified o now s k = true.
Proof.
  intros Hs. unfold justified.
  assert (St : j_staple now s1 k = true -> j_staple now s k = true).
  { unfold j_staple. rewrite !existsb_exists. intros [a [_ Ja]]. unfold j_staple_by in *.
    destruct (childb spec_ocsp a) eqn:Ch; [|discriminate]. destruct (covers a k) eqn:C; [|discriminate].
    destruct (file s1 a) as [[v c]|] eqn:F; [|discriminate].
    assert (Na : a <> spec_last_clean) by (intros ->; vm_compute in Ch; discriminate).
    destruct (Hs a Na) as [E|E]; [|congruence]. rewrite F in E. symmetry in E.
    exists a. split; [exact (file_in _ _ _ E)|]. rewrite Ch, C, E. exact Ja. }
  assert (Ce : j_cert now (grace o) s1 k = true -> j_cert now (grace o) s k = true).
  { unfold j_cert. rewrite !existsb_exists. intros [a [_ Ja]]. unfold j_cert_by in *.
    destruct (site_assetb a) eqn:Sa; [|discriminate]. destruct (seqb (path_ext a) spec_ext_crt) eqn:Ex; [|discriminate].
    match type of Ja with (if ?b then _ else _) = true => destruct b eqn:B; [|discriminate] end.
    destruct (file s1 a) as [[v c]|] eqn:F; [|discriminate].
    assert (Na : a <> spec_last_clean) by (intros ->; vm_compute in Sa; discriminate).
    destruct (Hs a Na) as [E|E]; [|congruence]. rewrite F in E. symmetry in E.
    exists a. split; [exact (file_in _ _ _ E)|]. rewrite Sa, Ex, B, E. exact Ja. }
  destruct (do_ocsp o); destruct (do_certs o).
  - destruct (j_staple now s1 k) eqn:J1; [rewrite (St eq_refl); reflexivity|].
    intros J. rewrite (Ce J). destruct (j_staple now s k); reflexivity.
  - destruct (j_staple now s1 k) eqn:J1; [rewrite (St eq_refl); reflexivity | discriminate].
  - exact Ce.
  - discriminate.
Qed.

Lemma clean_sub_store e o clk s0 : sub_store (sto (snd (clean e o clk s0))) s0.
Proof.
  intros k Hk. destruct (clean_post e o clk s0 k) as [[E|[E _]]|[E _]]; auto. contradiction.
Qed.

Theorem clean_seq_post runs : forall s0 k, k <> spec_last_clean ->
  file (clean_seq runs s0) k = file s0 k \/
  (file (clean_seq runs s0) k = None /\
   exists r, In r runs /\ jt (r_opts r) (r_clk r) s0 k).
Proof.
  induction runs as [|a rest IH]; intros s0 k Hk; cbn [clean_seq]; [left; reflexivity|].
  set (s1 := sto (snd (clean (r_env a) (r_opts a) (r_clk a) s0))).
  destruct (IH s1 k Hk) as [E|[E [r [Hr J]]]].
  - rewrite E. destruct (clean_post (r_env a) (r_opts a) (r_clk a) s0 k) as [[E1|[E1 J1]]|[E1 _]].
    + left; exact E1.
    + right. split; [exact E1|]. exists a. split; [left; reflexivity | exact J1].
    + contradiction.
  - right. split; [exact E|]. exists r. split; [right; exact Hr|].
    destruct J as [i J]. exists i. apply (justified_mono _ _ s1); [apply clean_sub_store | exact J].
Qed.

(** * Mutual exclusion on merged traces *)
Lemma proj_cons_same x r : proj (te_tid x) (x :: r) = te_ev x :: proj (te_tid x) r.
Proof. unfold proj. cbn. rewrite Nat.eqb_refl. reflexivity. Qed.
Lemma proj_cons_other x r t : t <> te_tid x -> proj t (x :: r) = proj t r.
Proof. intros H. unfold proj. cbn. destruct (Nat.eqb_spec (te_tid x) t); [congruence | reflexivity]. Qed.

Lemma holds_some h t : holds h t = true -> h = Some t.
Proof. destruct h as [t'|]; cbn; [|discriminate]. intros H. apply Nat.eqb_eq in H. congruence. Qed.

(** if every cleaner, seen alone, brackets its storage calls by Lock/Unlock, and the Locker
    grants the lock only while it is free, then in the merged trace of all cleaners every
    storage call is made by the current holder of the lock: cleanings never overlap *)
Theorem bracketed_threads_exclusive tr : forall h (ph : nat -> bool),
  (forall t, ph t = holds h t) ->
  (forall t, accepts (ph t) (proj t tr) = true) ->
  locker_ok h tr = true -> under_lock h tr = true.
Proof.
  induction tr as [|x r IH]; intros h ph Hph Hacc Hlk.
  - cbn. destruct h as [t|]; [|reflexivity].
    specialize (Hacc t). cbn in Hacc. rewrite Hph in Hacc. cbn in Hacc. rewrite Nat.eqb_refl in Hacc. discriminate.
  - pose proof (Hacc (te_tid x)) as Hx. rewrite proj_cons_same in Hx.
    cbn [under_lock accepts locker_ok] in *.
    destruct (ev_kind (te_ev x)) eqn:K.
    + (* Lock *)
      apply andb_true_iff in Hx. destruct Hx as [Hx Hrest]. apply andb_true_iff in Hx. destruct Hx as [Hkey Hout].
      rewrite Hkey. cbn [andb]. apply negb_true_iff in Hout.
      destruct (ev_ok (te_ev x)) eqn:Ok.
      * destruct h as [t'|]; [discriminate|].
        apply (IH (Some (te_tid x)) (fun t => if Nat.eqb (te_tid x) t then true else ph t)).
        -- intros t. cbn. destruct (Nat.eqb (te_tid x) t); [reflexivity|]. rewrite Hph. reflexivity.
        -- intros t. destruct (Nat.eqb_spec (te_tid x) t) as [<-|Ne]; [exact Hrest|].
           specialize (Hacc t). rewrite proj_cons_other in Hacc by congruence. exact Hacc.
        -- exact Hlk.
      * rewrite <- Hph, Hout. cbn [negb andb]. apply (IH h ph Hph); [|exact Hlk].
        intros t. destruct (Nat.eq_dec t (te_tid x)) as [->|Ne]; [rewrite Hout; exact Hrest|].
        specialize (Hacc t). rewrite proj_cons_other in Hacc by exact Ne. exact Hacc.
    + (* Unlock *)
      apply andb_true_iff in Hx. destruct Hx as [Hx Hrest]. apply andb_true_iff in Hx. destruct Hx as [Hkey Hin].
      rewrite Hkey, <- Hph, Hin. cbn [andb]. rewrite Hph in Hin. rewrite Hin in Hlk.
      apply (IH None (fun t => if Nat.eqb (te_tid x) t then false else ph t)).
      * intros t. cbn. destruct (Nat.eqb_spec (te_tid x) t) as [<-|Ne]; [reflexivity|].
        rewrite Hph. rewrite (holds_some _ _ Hin). cbn. apply Nat.eqb_neq. exact Ne.
      * intros t. destruct (Nat.eqb_spec (te_tid x) t) as [<-|Ne]; [exact Hrest|].
        specialize (Hacc t). rewrite proj_cons_other in Hacc by congruence. exact Hacc.
      * exact Hlk.
    + apply andb_true_iff in Hx; destruct Hx as [Hin Hrest]; rewrite <- Hph, Hin; cbn [andb];
      apply (IH h ph Hph); [|exact Hlk]; intros t; destruct (Nat.eq_dec t (te_tid x)) as [->|Ne];
      [rewrite Hin in Hrest; rewrite Hin; exact Hrest | specialize (Hacc t); rewrite proj_cons_other in Hacc by exact Ne; exact Hacc].
    + apply andb_true_iff in Hx; destruct Hx as [Hin Hrest]; rewrite <- Hph, Hin; cbn [andb];
      apply (IH h ph Hph); [|exact Hlk]; intros t; destruct (Nat.eq_dec t (te_tid x)) as [->|Ne];
      [rewrite Hin in Hrest; rewrite Hin; exact Hrest | specialize (Hacc t); rewrite proj_cons_other in Hacc by exact Ne; exact Hacc].
    + apply andb_true_iff in Hx; destruct Hx as [Hin Hrest]; rewrite <- Hph, Hin; cbn [andb];
      apply (IH h ph Hph); [|exact Hlk]; intros t; destruct (Nat.eq_dec t (te_tid x)) as [->|Ne];
      [rewrite Hin in Hrest; rewrite Hin; exact Hrest | specialize (Hacc t); rewrite proj_cons_other in Hacc by exact Ne; exact Hacc].
    + apply andb_true_iff in Hx; destruct Hx as [Hin Hrest]; rewrite <- Hph, Hin; cbn [andb];
      apply (IH h ph Hph); [|exact Hlk]; intros t; destruct (Nat.eq_dec t (te_tid x)) as [->|Ne];
      [rewrite Hin in Hrest; rewrite Hin; exact Hrest | specialize (Hacc t); rewrite proj_cons_other in Hacc by exact Ne; exact Hacc].
    + apply andb_true_iff in Hx; destruct Hx as [Hin Hrest]; rewrite <- Hph, Hin; cbn [andb];
      apply (IH h ph Hph); [|exact Hlk]; intros t; destruct (Nat.eq_dec t (te_tid x)) as [->|Ne];
      [rewrite Hin in Hrest; rewrite Hin; exact Hrest | specialize (Hacc t); rewrite proj_cons_other in Hacc by exact Ne; exact Hacc].
Qed.

Lemma accepts_app l1 : forall i l2, accepts i l1 = true -> accepts false l2 = true -> accepts i (l1 ++ l2) = true.
Proof.
  induction l1 as [|ev r IH]; intros i l2 H1 H2.
  - cbn in *. apply negb_true_iff in H1. subst. exact H2.
  - cbn [app accepts] in *. destruct (ev_kind ev).
    + apply andb_true_iff in H1. destruct H1 as [H1 Hr]. rewrite H1. cbn [andb]. exact (IH _ _ Hr H2).
    + apply andb_true_iff in H1. destruct H1 as [H1 Hr]. rewrite H1. cbn [andb]. exact (IH _ _ Hr H2).
    + apply andb_true_iff in H1; destruct H1 as [-> Hr]; cbn [andb]; exact (IH _ _ Hr H2).
    + apply andb_true_iff in H1; destruct H1 as [-> Hr]; cbn [andb]; exact (IH _ _ Hr H2).
    + apply andb_true_iff in H1; destruct H1 as [-> Hr]; cbn [andb]; exact (IH _ _ Hr H2).
    + apply andb_true_iff in H1; destruct H1 as [-> Hr]; cbn [andb]; exact (IH _ _ Hr H2).
    + apply andb_true_iff in H1; destruct H1 as [-> Hr]; cbn [andb]; exact (IH _ _ Hr H2).
Qed.

Lemma accepts_nolock body : nolock body = true -> forall tl, accepts true tl = true -> accepts true (body ++ tl) = true.
Proof.
  induction body as [|ev r IH]; intros H tl Ht; [exact Ht|].
  cbn [nolock forallb] in H. apply andb_true_iff in H. destruct H as [Hk Hr].
  cbn [app accepts]. destruct (ev_kind ev); try discriminate; cbn [andb]; exact (IH Hr tl Ht).
Qed.

(** the model's cleaner is such a thread *)
Theorem clean_thread_ok e o clk s0 : accepts false (rev (lg (snd (clean e o clk s0)))) = true.
Proof.
  destruct (clean e o clk s0) as [r s'] eqn:C. cbn [snd].
  destruct (clean_log _ _ _ _ _ _ C) as [(_ & -> & _)|(body & u & -> & Nb & _)].
  - reflexivity.
  - cbn [rev]. rewrite rev_app_distr. cbn [rev app accepts ev_kind ev_key ev_ok]. rewrite seqb_refl. cbn [andb negb].
    apply accepts_nolock.
    + unfold nolock in *. rewrite forallb_forall in *. intros x Hx. apply Nb. apply in_rev. exact Hx.
    + cbn. reflexivity.
Qed.

(** any number of cleaners, each running any number of cleanings on whatever they find, under
    any interleaving the Locker admits: storage calls only by the lock holder *)
Fixpoint thread_log (runs : list (run * store)) : list event :=
  match runs with
  | [] => []
  | (r, s) :: rest => rev (lg (snd (clean (r_env r) (r_opts r) (r_clk r) s))) ++ thread_log rest
  end.
Lemma thread_log_ok runs : accepts false (thread_log runs) = true.
Proof.
  induction runs as [|[r s] rest IH]; [reflexivity|]. cbn [thread_log].
  apply accepts_app; [apply clean_thread_ok | exact IH].
Qed.
Theorem cleaners_never_overlap tr :
  (forall t, exists runs, proj t tr = thread_log runs) ->
  locker_ok None tr = true -> under_lock None tr = true.
Proof.
  intros H L. apply (bracketed_threads_exclusive tr None (fun _ => false)); [reflexivity| |exact L].
  intros t. destruct (H t) as [runs ->]. apply thread_log_ok.
Qed.

(** * What is never touched *)
Lemma justified_inv o now s0 k : justified o now s0 k = true ->
  (do_ocsp o = true /\ j_staple now s0 k = true) \/ (do_certs o = true /\ j_cert now (grace o) s0 k = true).
Proof.
  unfold justified. destruct (do_ocsp o); destruct (do_certs o); destruct (j_staple now s0 k); auto; discriminate.
Qed.

Lemma pfx_disjoint k : has_prefix ocsp_pfx k = true -> has_prefix certs_pfx k = true -> False.
Proof.
  rewrite !has_prefix_spec. intros [r1 E1] [r2 E2]. rewrite E1 in E2. vm_compute in E2. discriminate.
Qed.

Lemma trim_suffix_app suf b : trim_suffix suf (b ++ suf) = b.
Proof.
  unfold trim_suffix. rewrite rev_app_distr, strip_prefix_app. apply rev_involutive.
Qed.

Lemma ext_scan_spec r : forall acc e, ext_scan r acc = e -> e <> [] ->
  exists r1 r2, r = r1 ++ c_dot :: r2 /\ e = c_dot :: rev r1 ++ acc.
Proof.
  induction r as [|c r IH]; intros acc e H Hne; cbn [ext_scan] in H; [congruence|].
  destruct (N.eqb c c_sl); [congruence|].
  destruct (N.eqb_spec c c_dot) as [->|_].
  - exists [], r. split; [reflexivity | cbn; congruence].
  - destruct (IH _ _ H Hne) as [r1 [r2 [-> ->]]]. exists (c :: r1), r2. split; [reflexivity|].
    cbn [rev]. rewrite <- app_assoc. reflexivity.
Qed.
Lemma path_ext_suffix a e : path_ext a = e -> e <> [] -> exists b, a = b ++ e.
Proof.
  unfold path_ext. intros H Hne. destruct (ext_scan_spec _ _ _ H Hne) as [r1 [r2 [E ->]]].
  apply (f_equal (@rev N)) in E. rewrite rev_involutive, rev_app_distr in E. cbn [rev] in E.
  exists (rev r2). rewrite E, app_nil_r, <- app_assoc. reflexivity.
Qed.

Definition asset_exts : list str := [spec_ext_crt; spec_ext_key; spec_ext_json].
(** X.crt / X.key / X.json determine X and the extension *)
Lemma ext_inj a b s1 s2 : In s1 asset_exts -> In s2 asset_exts -> a ++ s1 = b ++ s2 -> a = b /\ s1 = s2.
Proof.
  intros H1 H2 E.
  assert (S : s1 = s2).
  { apply (f_equal (@rev N)) in E. rewrite !rev_app_distr in E.
    cbn in H1, H2. destruct H1 as [<-|[<-|[<-|[]]]]; destruct H2 as [<-|[<-|[<-|[]]]];
      try reflexivity; cbn in E; discriminate. }
  subst s2. split; [exact (app_inv_tail _ _ _ E) | reflexivity].
Qed.
Lemma ext_nsep s : In s asset_exts -> nsep s = O.
Proof. cbn. intros [<-|[<-|[<-|[]]]]; reflexivity. Qed.

Lemma site_assetb_nsep a : site_assetb a = true -> nsep a = 3%nat.
Proof.
  intros H. apply site_assetb_spec in H. destruct H as [r [-> Hr]]. rewrite nsep_app, Hr. reflexivity.
Qed.

Lemma covers_nsep x k : covers x k = true -> nsep k = nsep x -> k = x.
Proof.
  unfold covers. intros C E. apply orb_true_iff in C. destruct C as [C|C].
  - apply seqb_eq in C. congruence.
  - apply under_spec in C. destruct C as [r ->]. rewrite nsep_app in E. cbn in E. lia.
Qed.

(** the certificate-clause of the justification, inverted for a key X<ext> of a site folder *)
Lemma j_cert_asset now gr s0 base suf : site_assetb (base ++ spec_ext_crt) = true -> In suf asset_exts ->
  j_cert now gr s0 (base ++ suf) = true ->
  match file s0 (base ++ spec_ext_crt) with Some (_, c) => spec_expired now gr c | None => false end = true.
Proof.
  intros Hb Hs J. unfold j_cert in J. apply existsb_exists in J. destruct J as [a [_ Ja]].
  unfold j_cert_by in Ja. destruct (site_assetb a) eqn:Sa; [|discriminate].
  destruct (seqb (path_ext a) spec_ext_crt) eqn:Ex; [|discriminate].
  match type of Ja with (if ?b then _ else _) = true => destruct b eqn:B; [|discriminate] end.
  apply seqb_eq in Ex. destruct (path_ext_suffix _ _ Ex) as [b' Ea]; [discriminate|].
  subst a. rewrite trim_suffix_app in B.
  assert (Nk : nsep (base ++ suf) = 3%nat).
  { pose proof (site_assetb_nsep _ Hb) as H. rewrite nsep_app in *. rewrite (ext_nsep suf Hs).
    rewrite (ext_nsep spec_ext_crt) in H by (cbn; auto). exact H. }
  assert (Nb' : nsep b' = 3%nat).
  { pose proof (site_assetb_nsep _ Sa) as H. rewrite nsep_app, (ext_nsep spec_ext_crt) in H by (cbn; auto). lia. }
  assert (Hx : exists s', In s' asset_exts /\ covers (b' ++ s') (base ++ suf) = true).
  { destruct (covers (b' ++ spec_ext_crt) (base ++ suf)) eqn:C1; [exists spec_ext_crt; cbn; auto|].
    destruct (covers (b' ++ spec_ext_key) (base ++ suf)) eqn:C2; [exists spec_ext_key; cbn; auto|].
    exists spec_ext_json; cbn; auto. }
  destruct Hx as [s' [Hs' C]].
  apply covers_nsep in C; [|rewrite Nk, nsep_app, Nb', (ext_nsep s' Hs'); reflexivity].
  destruct (ext_inj _ _ _ _ Hs Hs' C) as [-> _]. exact Ja.
Qed.

Lemma asset_key_prefix base suf : site_assetb (base ++ spec_ext_crt) = true ->
  has_prefix certs_pfx (base ++ suf) = true.
Proof.
  intros Hb. apply has_prefix_app. rewrite <- (trim_suffix_app spec_ext_crt base). exact (asset_base_prefix _ Hb).
Qed.

Lemma j_staple_prefix now s0 k : j_staple now s0 k = true -> has_prefix ocsp_pfx k = true.
Proof.
  unfold j_staple. intros JS. apply existsb_exists in JS. destruct JS as [a [_ Ja]].
  unfold j_staple_by in Ja. destruct (childb spec_ocsp a) eqn:Ch; [|discriminate].
  destruct (covers a k) eqn:C; [|discriminate].
  apply childb_child in Ch. destruct Ch as [c [-> _]].
  apply (covers_prefix _ (spec_ocsp ++ c_sl :: c)); [|exact C].
  apply has_prefix_spec. exists c. unfold ocsp_pfx. rewrite <- app_assoc. reflexivity.
Qed.

Lemma j_cert_prefix now gr s0 k : j_cert now gr s0 k = true -> has_prefix certs_pfx k = true.
Proof.
  intros J. unfold j_cert in J. apply existsb_exists in J. destruct J as [a [_ Ja]].
  unfold j_cert_by in Ja. destruct (site_assetb a) eqn:Sa; [|discriminate].
  destruct (seqb (path_ext a) spec_ext_crt); [|discriminate].
  pose proof (asset_base_prefix a Sa) as Hb.
  apply site_assetb_spec in Sa. destruct Sa as [r [Ea _]].
  destruct (covers a k) eqn:C1.
  - apply (covers_prefix _ a); [|exact C1]. apply has_prefix_spec; eauto.
  - destruct (covers (trim_suffix spec_ext_crt a ++ spec_ext_key) k) eqn:C2.
    + apply (covers_prefix _ _ _ (has_prefix_app _ _ _ Hb) C2).
    + destruct (covers (trim_suffix spec_ext_crt a ++ spec_ext_json) k) eqn:C3; [|discriminate].
      apply (covers_prefix _ _ _ (has_prefix_app _ _ _ Hb) C3).
Qed.

(** the certificate, key and metadata of a certificate that is not expired for the grace
    period (or whose X.crt is missing or unparseable) are never removed or altered *)
Theorem live_assets_untouched e o clk s0 base suf :
  site_assetb (base ++ spec_ext_crt) = true -> In suf asset_exts ->
  (forall i, match file s0 (base ++ spec_ext_crt) with
             | Some (_, c) => spec_expired (clk i) (grace o) c | None => false end = false) ->
  file (sto (snd (clean e o clk s0))) (base ++ suf) = file s0 (base ++ suf).
Proof.
  intros Hb Hs Hlive. pose proof (asset_key_prefix base suf Hb) as Hp.
  destruct (clean_post e o clk s0 (base ++ suf)) as [[E|[_ [i J]]]|[E _]].
  - exact E.
  - exfalso. specialize (Hlive i). apply justified_inv in J. destruct J as [[_ J]|[_ J]].
    + exact (pfx_disjoint _ (j_staple_prefix _ _ _ J) Hp).
    + rewrite (j_cert_asset _ _ _ _ _ Hb Hs J) in Hlive. discriminate.
  - exfalso. rewrite E in Hp. vm_compute in Hp. discriminate.
Qed.

(** a parseable staple that is not past NextUpdate is never removed or altered *)
Theorem fresh_staple_untouched e o clk s0 k v c : child spec_ocsp k ->
  file s0 k = Some (v, c) -> (forall i, spec_stale (clk i) c = false) ->
  file (sto (snd (clean e o clk s0))) k = file s0 k.
Proof.
  intros Hk Hf Hfresh.
  assert (Hp : has_prefix ocsp_pfx k = true).
  { destruct Hk as [x [-> _]]. apply has_prefix_spec. exists x. unfold ocsp_pfx. rewrite <- app_assoc. reflexivity. }
  destruct (clean_post e o clk s0 k) as [[E|[_ [i J]]]|[E _]].
  - exact E.
  - exfalso. specialize (Hfresh i). apply justified_inv in J. destruct J as [[_ J]|[_ J]].
    + unfold j_staple in J. apply existsb_exists in J. destruct J as [a [_ Ja]].
      unfold j_staple_by in Ja. destruct (childb spec_ocsp a) eqn:Ch; [|discriminate].
      destruct (covers a k) eqn:C; [|discriminate].
      apply childb_child in Ch. destruct Ch as [ca [Ea Hca]]. destruct Hk as [ck [Ek Hck]].
      apply covers_nsep in C.
      * subst a. rewrite <- C, Hf in Ja. congruence.
      * subst a k. rewrite !nsep_app. cbn [nsep]. rewrite (nsep_nomem _ Hca), (nsep_nomem _ Hck). reflexivity.
    + exact (pfx_disjoint _ Hp (j_cert_prefix _ _ _ _ J)).
  - exfalso. rewrite E in Hp. vm_compute in Hp. discriminate.
Qed.

(** * The justification, spelled out *)
Lemma path_ext_crt b : path_ext (b ++ spec_ext_crt) = spec_ext_crt.
Proof. unfold path_ext. rewrite rev_app_distr. reflexivity. Qed.

(** the boolean [justified] says exactly what the property allows to be deleted *)
Definition may_delete (o : opts) (now : Z) (s0 : store) (k : key) : Prop :=
  (do_ocsp o = true /\
   exists a v c, child spec_ocsp a /\ covers a k = true /\ file s0 a = Some (v, c) /\
     (as_staple c = None \/ exists nu, as_staple c = Some nu /\ nu < now)) \/
  (do_certs o = true /\
   exists base v c na suf, site_assetb (base ++ spec_ext_crt) = true /\
     file s0 (base ++ spec_ext_crt) = Some (v, c) /\ as_cert c = Some na /\
     grace o <= now - expires_at na /\ In suf asset_exts /\ covers (base ++ suf) k = true).

Theorem justified_iff o now s0 k : justified o now s0 k = true <-> may_delete o now s0 k.
Proof.
  split.
  - intros J. apply justified_inv in J. destruct J as [[Ho J]|[Ho J]]; [left|right]; split; try exact Ho.
    + unfold j_staple in J. apply existsb_exists in J. destruct J as [a [_ Ja]]. unfold j_staple_by in Ja.
      destruct (childb spec_ocsp a) eqn:Ch; [|discriminate]. destruct (covers a k) eqn:C; [|discriminate].
      destruct (file s0 a) as [[v c]|] eqn:F; [|discriminate].
      exists a, v, c. split; [apply childb_child; exact Ch|]. split; [exact C|]. split; [exact F|].
      unfold spec_stale in Ja. destruct (as_staple c) as [nu|]; [right; exists nu; split; [reflexivity|lia] | left; reflexivity].
    + unfold j_cert in J. apply existsb_exists in J. destruct J as [a [_ Ja]]. unfold j_cert_by in Ja.
      destruct (site_assetb a) eqn:Sa; [|discriminate].
      destruct (seqb (path_ext a) spec_ext_crt) eqn:Ex; [|discriminate].
      match type of Ja with (if ?b then _ else _) = true => destruct b eqn:B; [|discriminate] end.
      apply seqb_eq in Ex. destruct (path_ext_suffix _ _ Ex) as [b' Ea]; [discriminate|]. subst a.
      rewrite trim_suffix_app in B.
      destruct (file s0 (b' ++ spec_ext_crt)) as [[v c]|] eqn:F; [|discriminate].
      unfold spec_expired in Ja. destruct (as_cert c) as [na|] eqn:Ac; [|discriminate].
      assert (Hx : exists s', In s' asset_exts /\ covers (b' ++ s') k = true).
      { destruct (covers (b' ++ spec_ext_crt) k) eqn:C1; [exists spec_ext_crt; cbn; auto|].
        destruct (covers (b' ++ spec_ext_key) k) eqn:C2; [exists spec_ext_key; cbn; auto|].
        exists spec_ext_json; cbn; auto. }
      destruct Hx as [s' [Hs' C]].
      exists b', v, c, na, s'. apply Z.leb_le in Ja. repeat split; assumption.
  - intros [[Ho (a & v & c & Ha & C & F & Hst)]|[Ho (base & v & c & na & suf & Sa & F & Ac & Hg & Hs & C)]].
    + apply (staple_justifies o s0 now a v c Ho Ha F); [|exact C].
      unfold spec_stale. destruct Hst as [->|[nu [-> Hnu]]]; [reflexivity | apply Z.ltb_lt; exact Hnu].
    + apply (cert_justifies o s0 now (base ++ spec_ext_crt) v c (base ++ suf) Ho Sa); try assumption.
      * rewrite path_ext_crt. apply seqb_refl.
      * unfold spec_expired. rewrite Ac. apply Z.leb_le. exact Hg.
      * rewrite trim_suffix_app. cbn in Hs. destruct Hs as [<-|[<-|[<-|[]]]]; cbn; auto.
Qed.

(** keys outside ocsp/ and certificates/ (account data under acme/, locks, anything else) *)
Theorem foreign_keys_untouched e o clk s0 k :
  has_prefix ocsp_pfx k = false -> has_prefix certs_pfx k = false -> k <> spec_last_clean ->
  file (sto (snd (clean e o clk s0))) k = file s0 k.
Proof.
  intros H1 H2 H3. destruct (clean_post e o clk s0 k) as [[E|[_ [i J]]]|[E _]]; [exact E| |contradiction].
  apply justified_in_namespace in J. destruct J as [J|J]; congruence.
Qed.

(** * Time: a justification stays one as the clock advances (a staple past NextUpdate stays past it,
    a certificate expired for the grace period stays so) -- so with all readings of the clock at
    most [t1], whatever is justified at a reading is justified at [t1] *)
Lemma justified_mono_time o t t' s0 k : t <= t' ->
  justified o t s0 k = true -> justified o t' s0 k = true.
Proof.
  intros Ht. unfold justified.
  assert (St : j_staple t s0 k = true -> j_staple t' s0 k = true).
  { unfold j_staple. rewrite !existsb_exists. intros [a [Hin Ja]]. exists a. split; [exact Hin|].
    unfold j_staple_by in *. destruct (childb spec_ocsp a); [|discriminate]. destruct (covers a k); [|discriminate].
    destruct (file s0 a) as [[v c]|]; [|discriminate]. unfold spec_stale in *.
    destruct (as_staple c) as [nu|]; [|reflexivity]. apply Z.ltb_lt in Ja. apply Z.ltb_lt. lia. }
  assert (Ce : j_cert t (grace o) s0 k = true -> j_cert t' (grace o) s0 k = true).
  { unfold j_cert. rewrite !existsb_exists. intros [a [Hin Ja]]. exists a. split; [exact Hin|].
    unfold j_cert_by in *. destruct (site_assetb a); [|discriminate].
    destruct (seqb (path_ext a) spec_ext_crt); [|discriminate].
    match type of Ja with (if ?b then _ else _) = true => destruct b; [|discriminate] end.
    destruct (file s0 a) as [[v c]|]; [|discriminate]. unfold spec_expired in *.
    destruct (as_cert c) as [na|]; [|discriminate]. apply Z.leb_le in Ja. apply Z.leb_le. lia. }
  destruct (do_ocsp o); destruct (do_certs o).
  - destruct (j_staple t s0 k) eqn:J1; [rewrite (St eq_refl); reflexivity|].
    intros J. rewrite (Ce J). destruct (j_staple t' s0 k); reflexivity.
  - destruct (j_staple t s0 k) eqn:J1; [rewrite (St eq_refl); reflexivity | discriminate].
  - exact Ce.
  - discriminate.
Qed.
Lemma jt_bounded o clk s0 k t1 : (forall i, clk i <= t1) -> jt o clk s0 k -> justified o t1 s0 k = true.
Proof. intros Hb [i J]. exact (justified_mono_time _ _ _ _ _ (Hb i) J). Qed.

(** * The record links one cleaning to the next: a cleaning that returned nil after doing work has
    left (a reading of its clock, its instance) in last_clean.json; a cleaning that starts less than
    its interval after every reading of that clock does nothing *)
Lemma clean_locked_record e o clk s r s' : clean_locked e o clk s = (r, s') -> r = RNil ->
  (exists pre, lg s' = pre ++ lg s /\ has_kind does_work pre = false) \/
  (exists i, lookup (sto s') spec_last_clean = Some (written (clk i) o)).
Proof.
  unfold clean_locked. destruct (interval_check e o clk s) as [ir s1] eqn:IC.
  destruct (interval_check_log _ _ _ _ _ _ IC) as [pre [Epre Hpre]].
  destruct ir as [| |r0].
  - set (s2 := if do_ocsp o then delete_old_staples e clk s1 else s1).
    set (s3 := if do_certs o then snd (delete_expired_certs e clk (grace o) s2) else s2).
    destruct (do_store e clean_storage_key (written (rd clk s3) o) s3) as [ok s4] eqn:S.
    intros H; injection H; intros <- <-. intros Hr. destruct ok; [|discriminate]. right.
    exists (length (lg s3)).
    destruct consts_ok as (_ & _ & _ & _ & _ & _ & _ & Ek & _). rewrite Ek in S.
    destruct (do_store_spec _ _ _ _ _ _ S) as [(Hb & _)|(E4 & _ & _)]; [discriminate|].
    rewrite E4, lookup_put, seqb_refl. reflexivity.
  - intros H; injection H; intros <- _. intros _. left. exists pre. split; [exact Epre|].
    destruct Hpre as [->|[ok ->]]; reflexivity.
  - intros H; injection H; intros _ <-. intros ->. exfalso.
    revert IC. unfold interval_check. destruct (0 <? interval o); [|intros X; discriminate].
    destruct (do_load e clean_storage_key s) as [res s2]. destruct res as [v c| |].
    + destruct (as_clean c) as [[ts i]|]; [destruct (cmp_holds _ _ _)|]; intros X; discriminate.
    + intros X; discriminate.
    + intros X; discriminate.
Qed.

Theorem recorded_then_skip e1 o1 clk1 e2 o2 clk2 s0 :
  fst (clean e1 o1 clk1 s0) = RNil ->
  has_kind does_work (rev (lg (snd (clean e1 o1 clk1 s0)))) = true ->
  0 < interval o2 -> (forall i j, clk2 i - clk1 j < interval o2) ->
  let s1 := sto (snd (clean e1 o1 clk1 s0)) in
  sto (snd (clean e2 o2 clk2 s1)) = s1 /\
  has_kind does_work (rev (lg (snd (clean e2 o2 clk2 s1)))) = false.
Proof.
  intros Hr Hw Hi Hc s1. apply skip_when_recent. intros i.
  assert (R : exists j, lookup s1 spec_last_clean = Some (written (clk1 j) o1)).
  { subst s1. revert Hr Hw. rewrite has_kind_rev. unfold clean, do_lock.
    destruct (faulty e1 (St s0 [])); [cbn; discriminate|].
    destruct (clean_locked e1 o1 clk1 _) as [r s2] eqn:C. cbn [fst snd]. intros ->.
    destruct (clean_locked_record _ _ _ _ _ _ C eq_refl) as [(pre & Ep & Hp)|R]; [|intros _; exact R].
    unfold do_unlock. cbn [lg logged]. rewrite Ep. cbn [lg logged].
    change (Ev KUnlock clean_lock_name (negb (faulty e1 s2)) :: pre ++ [Ev KLock clean_lock_name true])
      with ([Ev KUnlock clean_lock_name (negb (faulty e1 s2))] ++ pre ++ [Ev KLock clean_lock_name true]).
    rewrite !has_kind_app, Hp. cbn. discriminate. }
  destruct R as [j R]. unfold recent, file. rewrite R. unfold written. cbn [as_clean].
  apply andb_true_iff. split; apply Z.ltb_lt; [exact Hi | exact (Hc i j)].
Qed.
