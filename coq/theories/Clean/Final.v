(** C18 — final round: clauses the monitor checks on the implementation, or that were added for seeded
    changes, stated as theorems about the model. *)
From CM Require Import Lib.Str Lib.Wire Lib.CleanSyntax Gen.Consts Clean.Model Clean.Proofs Clean.Prog Clean.Check Clean.SpecProofs Clean.Concurrent Clean.Effective Clean.Interfere Clean.EffectiveCerts Clean.Kill.
From Coq Require Import Lia.
Open Scope Z_scope.

(** * a record dated in the future counts as recent *)
Theorem recorded_within_interval_or_future_skips e o clk s0 v c ts i0 : 0 < interval o ->
  file s0 spec_last_clean = Some (v, c) -> as_clean c = Some (ts, i0) ->
  (forall i, clk i - ts < interval o) ->
  sto (snd (clean e o clk s0)) = s0 /\ has_kind does_work (rev (lg (snd (clean e o clk s0)))) = false.
Proof.
  intros Hi Hf Ha Hc. apply skip_when_recent. intros i. unfold recent. rewrite Hf, Ha.
  replace (0 <? interval o) with true by (symmetry; apply Z.ltb_lt; exact Hi). cbn [andb].
  apply Z.ltb_lt. exact (Hc i).
Qed.
Corollary future_record_skips e o clk s0 v c ts i0 : 0 < interval o ->
  file s0 spec_last_clean = Some (v, c) -> as_clean c = Some (ts, i0) -> (forall i, clk i <= ts) ->
  sto (snd (clean e o clk s0)) = s0 /\ has_kind does_work (rev (lg (snd (clean e o clk s0)))) = false.
Proof.
  intros Hi Hf Ha Hc. apply (recorded_within_interval_or_future_skips e o clk s0 v c ts i0 Hi Hf Ha).
  intros i. specialize (Hc i). lia.
Qed.

(** * staples: NextUpdate alone decides *)
(** whatever else the bytes read as ([vid], a certificate, a record), whatever the response says beside
    NextUpdate (the model's reading of a staple IS its NextUpdate): not past NextUpdate at any reading =>
    kept with its value, under every fault plan; past it at every reading, or unparseable => gone in a
    fault-free run *)
Theorem staple_fate_is_next_update e o clk s0 a v ac ast acl : child spec_ocsp a ->
  file s0 a = Some (v, Cls ac ast acl) ->
  (forall nu, ast = Some nu -> (forall i, clk i <= nu) ->
     file (sto (snd (clean e o clk s0))) a = file s0 a) /\
  (no_faults e -> do_ocsp o = true -> interval o <= 0 -> notfile s0 spec_ocsp ->
   (ast = None \/ exists nu, ast = Some nu /\ forall i, nu < clk i) ->
   lookup (sto (snd (clean e o clk s0))) a = None).
Proof.
  intros Ha Hf. split.
  - intros nu -> Hc. apply (fresh_staple_untouched e o clk s0 a v _ Ha Hf).
    intros i. unfold spec_stale. cbn [as_staple]. apply Z.ltb_ge. exact (Hc i).
  - intros NF Ho Hi Hp Hst.
    apply (stale_staples_removed e o clk s0 a v _ NF Ho Hi Hp Ha Hf); [|apply covers_refl].
    intros i. unfold spec_stale. cbn [as_staple]. destruct Hst as [->|[nu [-> Hn]]]; [reflexivity|].
    apply Z.ltb_lt. exact (Hn i).
Qed.

(** * certificates: the NotAfter of the certificate the file reads as (its first PEM block, the leaf)
    alone decides *)
Lemma expired_na now gr c na : as_cert c = Some na ->
  (spec_expired now gr c = true -> gr < now - na) /\ (gr + second <= now - na -> spec_expired now gr c = true).
Proof.
  intros A. unfold spec_expired, expires_at. rewrite A.
  assert (S : 0 < second) by reflexivity.
  pose proof (Z.div_mod na second ltac:(lia)) as D. pose proof (Z.mod_pos_bound na second S) as B.
  rewrite Z.leb_le. split; intros H; nia.
Qed.
Theorem cert_fate_is_not_after e o clk s0 base v na ast acl :
  site_assetb (base ++ spec_ext_crt) = true ->
  file s0 (base ++ spec_ext_crt) = Some (v, Cls (Some na) ast acl) ->
  (* not past NotAfter by more than the grace period at any reading: all three assets keep their values,
     whatever the faults, whatever else X.crt holds (further PEM blocks are not part of the reading) *)
  ((forall i, clk i - na <= grace o) ->
   forall suf, In suf asset_exts -> file (sto (snd (clean e o clk s0))) (base ++ suf) = file s0 (base ++ suf)) /\
  (* past it by the grace period and a second at every reading: gone in a fault-free run *)
  (forall ik sk, no_faults e -> do_certs o = true -> interval o <= 0 -> crt_wf s0 ->
   notfile s0 spec_certs -> child spec_certs ik -> child ik sk -> notfile s0 ik -> notfile s0 sk ->
   child sk (base ++ spec_ext_crt) ->
   (forall i, grace o + second <= clk i - na) ->
   forall suf, In suf asset_exts -> lookup (sto (snd (clean e o clk s0))) (base ++ suf) = None).
Proof.
  intros Sa Hf. set (c := Cls (Some na) ast acl) in *.
  assert (A : as_cert c = Some na) by reflexivity. split.
  - intros Hc suf Hs. apply (live_assets_untouched e o clk s0 base suf Sa Hs). intros i. rewrite Hf.
    destruct (spec_expired (clk i) (grace o) c) eqn:X; [|reflexivity]. exfalso.
    pose proof (proj1 (expired_na _ _ _ _ A) X). specialize (Hc i). lia.
  - intros ik sk NF Ho Hi WF NFc Cik Csk NFi NFs Ca Hx suf Hs.
    assert (Ext : seqb (path_ext (base ++ spec_ext_crt)) spec_ext_crt = true) by (rewrite path_ext_crt; apply seqb_refl).
    apply (expired_cert_assets_removed e o clk s0 ik sk (base ++ spec_ext_crt) v c NF Ho Hi WF NFc Cik Csk NFi NFs Ca Ext Hf)
      with (x := base ++ suf); [| |apply covers_refl].
    + intros i. exact (proj2 (expired_na _ _ _ _ A) (Hx i)).
    + unfold trio. rewrite trim_suffix_app. cbn in Hs. destruct Hs as [<-|[<-|[<-|[]]]]; cbn; auto.
Qed.

(** * a Load error is not a reason to delete: against any world, every Delete of a cleaning comes after a
    SUCCESSFUL Load of the key that decided it (the staple itself; X.crt for X.crt, X.key, X.json) -- or is
    the Delete of a folder that was just listed empty and Stat'ed as a folder *)
Section ReadsBeforeDeletes.
  Variable o : opts.
  Lemma all_warranted_reads h : all_warranted o h -> forall k x, In (ADelete k, x) h ->
    (exists a v c, In (ALoad a, XLoad (LOk v c)) h /\ In k (related a)) \/ In (AStat k, XStat StatDir) h.
  Proof.
    induction h as [|[a0 y] h IH]; intros HA k x Hin; [contradiction|].
    cbn [all_warranted] in HA. destruct HA as [Hd HA].
    assert (Mono : (exists a v c, In (ALoad a, XLoad (LOk v c)) h /\ In k (related a)) \/ In (AStat k, XStat StatDir) h ->
                   (exists a v c, In (ALoad a, XLoad (LOk v c)) ((a0, y) :: h) /\ In k (related a)) \/
                   In (AStat k, XStat StatDir) ((a0, y) :: h)).
    { intros [(a & v & c & Hl & Hr)|Hs]; [left; exists a, v, c; split; [right; exact Hl | exact Hr] | right; right; exact Hs]. }
    destruct Hin as [E|Hin]; [|exact (Mono (IH HA k x Hin))].
    injection E; intros _ ->. apply Mono.
    destruct (Hd k eq_refl) as [c t _ _ [v Hr] _ _|ik sk a c t _ _ _ _ _ [v Hr] _ _ Hin'|ik h' _ _ _ Eh].
    - left. exists k, v, c. split; [exact Hr | left; reflexivity].
    - left. exists a, v, c. split; [exact Hr | exact Hin'].
    - right. rewrite Eh. left; reflexivity.
  Qed.
  Theorem deletes_follow_successful_loads W (wexec : act -> W -> resp * W) w :
    let h := fst (wrun W wexec (clean_locked_prog o) w []) in
    forall k x, In (ADelete k, x) h ->
    (exists a v c, In (ALoad a, XLoad (LOk v c)) h /\ In k (related a)) \/ In (AStat k, XStat StatDir) h.
  Proof. intros h. apply all_warranted_reads. apply deletes_warranted. Qed.
End ReadsBeforeDeletes.

(** * the monitor under interference, as far as the frame theorems reach: on the model's own observation of a
    cleaning with foreign operations, the difference clause [diff_ok_f] of [spec_ok] holds for every key
    the two frame theorems speak about *)
Section MonitorInterference.
  Variables (e : env) (fs : list (nat * fop)) (o : opts) (clk : nat -> Z) (t0 t1 : Z) (s0 : store) (t : nat).
  Definition model_case_i : case :=
    Case (lfe e) s0
         [RunRec t o (faults e) (efaults e) (cancel_at e) t0 t1 (result_code (fst (cleani e fs o clk s0))) fs (pfaults e) None]
         (map (TEv t) (rev (lg (snd (cleani e fs o clk s0))))) (sto (snd (cleani e fs o clk s0))).

  Lemma touched_false k : (forall i f, In (i, f) fs -> touches k f = false) -> touched model_case_i k = false.
  Proof.
    intros H. unfold touched, all_fops. cbn [c_runs model_case_i flat_map rr_fops]. rewrite app_nil_r.
    destruct (existsb _ (map snd fs)) eqn:E; [|reflexivity]. exfalso.
    apply existsb_exists in E. destruct E as [f [Hin Hf]]. apply in_map_iff in Hin. destruct Hin as [[i f'] [<- Hin]].
    cbn [snd] in Hf. pose proof (H i f' Hin) as T. unfold touches in T. congruence.
  Qed.
  Lemma diff_ok_f_same (c : case) sf k : touched c k = false -> lookup (c_s1 c) k = lookup (c_s0 c) k ->
    diff_ok_f c sf k = true.
  Proof.
    intros T E. unfold diff_ok_f. cbv zeta. rewrite T. unfold file. rewrite E, file_eqb_refl. cbn [andb].
    destruct (lookup (c_s0 c) k) as [[v c0|]|]; reflexivity.
  Qed.

  (** keys outside ocsp/ and certificates/ other than last_clean.json that no other actor changes *)
  Theorem monitor_sound_other_keys k :
    has_prefix ocsp_pfx k = false -> has_prefix certs_pfx k = false -> k <> spec_last_clean ->
    (forall i f, In (i, f) fs -> touches k f = false) ->
    diff_ok_f model_case_i (s0f model_case_i) k = true.
  Proof.
    intros H1 H2 H3 Hfs. apply diff_ok_f_same; [exact (touched_false k Hfs)|].
    cbn [c_s1 c_s0 model_case_i]. exact (cleani_frame e clk fs o s0 k H1 H2 H3 Hfs).
  Qed.

  (** X.crt, X.key, X.json of a certificate that is not expired for the grace period at any reading and that no
      other actor writes or deletes *)
  Theorem monitor_sound_live_assets base suf v c :
    site_assetb (base ++ spec_ext_crt) = true -> In suf asset_exts ->
    lookup s0 (base ++ spec_ext_crt) = Some (File v c) ->
    (forall i, spec_expired (clk i) (grace o) c = false) ->
    (forall i f, In (i, f) fs ->
       covers (fkey f) (base ++ spec_ext_crt) = false /\ covers (fkey f) (base ++ suf) = false) ->
    diff_ok_f model_case_i (s0f model_case_i) (base ++ suf) = true.
  Proof.
    intros Ha Hs Hf Hl Hfs. apply diff_ok_f_same.
    - apply touched_false. intros i f Hin. destruct (Hfs i f Hin) as [_ T]. unfold touches.
      destruct f as [k' n|k']; cbn [fkey] in T; [|exact T].
      unfold covers in T. apply orb_false_iff in T. exact (proj1 T).
    - cbn [c_s1 c_s0 model_case_i]. exact (cleani_live_frame e clk fs o s0 base suf v c Ha Hs Hf Hl Hfs).
  Qed.
End MonitorInterference.

(** * the replay clause of the monitor for a killed run: the case assembled from the first n calls of the model's
    run under [with_kill e n] and the storage it leaves is accepted by [Check.replay] (with [Kill.killed_is_model]:
    this is the observation of the run that simply stops) *)
Theorem model_ok_refl_killed e n o now s0 t : kill_at e = None ->
  let st' := snd (clean (with_kill e n) o (fun _ => now) s0) in
  let c := Case (lfe e) s0 [RunRec t o (faults e) (efaults e) (cancel_at e) now now 9%N [] (pfaults e) (Some n)]
                (map (TEv t) (firstn n (rev (lg st')))) (sto st') in
  replay c (c_runs c) s0 = Some (sto st').
Proof.
  intros Hk st' c.
  assert (L : forall l, list_eqb event_eqb l l = true).
  { induction l as [|x l IH]; [reflexivity|]. cbn [list_eqb]. rewrite IH, andb_true_r.
    unfold event_eqb. rewrite N.eqb_refl, seqb_refl. destruct (ev_ok x); reflexivity. }
  subst c. cbn [c_runs c_s0 replay rr_fops rr_kill]. unfold env_of.
  cbn [rr_faults rr_efaults rr_cancel c_lfe rr_opts rr_t0 rr_tid c_trace rr_pfaults rr_kill].
  change (Env (faults e) (efaults e) (cancel_at e) (lfe e) (pfaults e) (Some n)) with (with_kill e n).
  subst st'. destruct (clean (with_kill e n) o (fun _ => now) s0) as [r0 st0]. cbn [snd].
  rewrite proj_single, L. reflexivity.
Qed.

Lemma firstn_in {A} (m : nat) : forall (l : list A) x, In x (firstn m l) -> In x l.
Proof.
  induction m as [|m IH]; intros [|y l] x H; cbn [firstn] in H; try contradiction.
  destruct H as [->|H]; [left; reflexivity | right; exact (IH l x H)].
Qed.

Lemma Inv_last o clk s0 cur : Inv o clk s0 cur -> lookup cur spec_last_clean = lookup s0 spec_last_clean.
Proof.
  intros HI. destruct (HI spec_last_clean) as [E|N J|N D Sf Ho G]; [exact E| |].
  - destruct J as [i J]. rewrite last_clean_not_justified in J. discriminate.
  - vm_compute in Sf. discriminate.
Qed.
(** under [with_kill e n] the record is either not written, or written by a Store call made before the death *)
Lemma clean_locked_record_alive e n o clk s0 s : Inv o clk s0 (sto s) ->
  lookup (sto (snd (clean_locked (with_kill e n) o clk s))) spec_last_clean = lookup s0 spec_last_clean \/
  exists s3 b, (length (lg s3) < n)%nat /\
    lg (snd (clean_locked (with_kill e n) o clk s)) = Ev KStore spec_last_clean b :: lg s3.
Proof.
  intros HI. unfold clean_locked. set (e' := with_kill e n).
  destruct (interval_check e' o clk s) as [ir s1] eqn:IC.
  pose proof (interval_check_sto _ _ _ _ _ _ IC) as E1.
  destruct ir; cbn [snd]; try (left; rewrite E1; exact (Inv_last _ _ _ _ HI)).
  set (s2 := if do_ocsp o then delete_old_staples e' clk s1 else s1).
  assert (HI2 : Inv o clk s0 (sto s2)).
  { subst s2. destruct (do_ocsp o) eqn:Ho; [|rewrite E1; exact HI].
    apply delete_old_staples_inv; [exact Ho | rewrite E1; exact HI]. }
  set (s3 := if do_certs o then snd (delete_expired_certs e' clk (grace o) s2) else s2).
  assert (HI3 : Inv o clk s0 (sto s3)).
  { subst s3. destruct (do_certs o) eqn:Ho; [|exact HI2].
    apply delete_expired_certs_inv; [exact Ho | exact HI2]. }
  destruct consts_ok as (_ & _ & _ & _ & _ & _ & _ & Ek & _). rewrite Ek.
  unfold do_store. destruct (faulty e' s3) eqn:F; [left; cbn [snd sto logged]; exact (Inv_last _ _ _ _ HI3)|].
  assert (Ln : (length (lg s3) < n)%nat).
  { unfold faulty in F. apply orb_false_iff in F. destruct F as [_ F]. unfold dead in F. subst e'. cbn [kill_at with_kill] in F.
    apply Nat.leb_gt in F. exact F. }
  destruct (is_dir (sto s3) spec_last_clean); [left; cbn [snd sto logged]; exact (Inv_last _ _ _ _ HI3)|].
  destruct (efaulty e' s3); cbn [snd lg logged]; right; eexists s3, _; (split; [exact Ln | reflexivity]).
Qed.
Lemma in_firstn_mid {A} (l1 : list A) x l2 m : (length l1 < m)%nat -> In x (firstn m (l1 ++ x :: l2)).
Proof.
  intros H. rewrite firstn_app. apply in_or_app. right.
  destruct (m - length l1)%nat as [|j] eqn:E; [lia|]. left; reflexivity.
Qed.
Lemma diff_ok_same (c : case) k : lookup (c_s1 c) k = lookup (c_s0 c) k -> diff_ok c k = true.
Proof.
  intros E. unfold diff_ok. cbv zeta. unfold file. rewrite E, file_eqb_refl. cbn [andb].
  destruct (lookup (c_s0 c) k) as [[v c0|]|]; reflexivity.
Qed.

(** * the monitor on the observation of a KILLED run: the first n calls of the model's run under [with_kill e n]
    (= the calls of the run that simply stops, [Kill.killed_is_model]) and the storage it leaves. Proved: the lock
    discipline with the harness-supplied expiry ([lock_trace]), the per-run clauses ([runs_ok], with the kill
    exemption), and the difference clause for every key other than last_clean.json. *)
Section MonitorKilled.
  Variables (e : env) (n : nat) (o : opts) (clk : nat -> Z) (t0 t1 : Z) (s0 : store) (t : nat).
  Hypothesis Hclk : forall i, t0 <= clk i <= t1.
  Notation e' := (with_kill e n).
  Notation s' := (snd (clean e' o clk s0)).
  Notation log := (rev (lg (snd (clean e' o clk s0)))).
  Definition killed_case : case :=
    Case (lfe e) s0 [RunRec t o (faults e) (efaults e) (cancel_at e) t0 t1 9%N [] (pfaults e) (Some n)]
         (map (TEv t) (firstn n log)) (sto s').

  Lemma has_kind_firstn p m l : has_kind p l = false -> has_kind p (firstn m l) = false.
  Proof.
    intros H. unfold has_kind in *. destruct (existsb _ (firstn m l)) eqn:E; [|reflexivity].
    apply existsb_exists in E. destruct E as [x [Hin Hx]].
    assert (X : existsb (fun ev => p (ev_kind ev)) l = true) by (apply existsb_exists; exists x; split; [exact (firstn_in _ _ _ Hin) | exact Hx]).
    congruence.
  Qed.

  Theorem killed_runs_ok : runs_ok killed_case (c_runs killed_case) (rec0 (c_s0 killed_case)) = true.
  Proof.
    cbn [c_runs c_s0 killed_case runs_ok rr_tid rr_opts rr_t1 rr_res c_trace rr_kill orb]. rewrite proj_single.
    rewrite andb_true_r. cbn [N.eqb negb orb andb]. rewrite andb_true_r.
    destruct (rec0 s0) as [ts|] eqn:R; [|reflexivity].
    destruct ((0 <? interval o) && (t1 - ts <? interval o)) eqn:C; [|reflexivity].
    cbn [negb orb]. destruct (skip_when_recent e' o clk s0 (rec0_recent o clk t0 t1 s0 Hclk ts R C)) as [_ H].
    rewrite (has_kind_firstn _ n _ H). reflexivity.
  Qed.

  Theorem killed_diff_ok k : k <> spec_last_clean -> diff_ok killed_case k = true.
  Proof.
    intros Hk. rewrite <- (model_diff_ok e' o clk t0 t1 s0 t Hclk k).
    assert (E : seqb k spec_last_clean = false) by (apply seqb_neq; exact Hk).
    unfold diff_ok. cbn [c_s0 c_s1 c_runs c_trace killed_case model_case existsb rr_opts rr_t1 rr_t0 rr_tid].
    rewrite E. reflexivity.
  Qed.

  (** the lock discipline: Lock granted, the calls made before the death, then the expiry of the dead holder's lock *)
  Lemma expire_single l x : expire_after_last t (map (TEv t) (l ++ [x])) =
    (map (TEv t) (l ++ [x]) ++ [TEv t (Ev KUnlock spec_lock false)], true).
  Proof.
    induction l as [|y l IH]; cbn [app map expire_after_last te_tid].
    - rewrite Nat.eqb_refl. reflexivity.
    - cbn [app map] in IH. rewrite IH. reflexivity.
  Qed.
  Lemma under_lock_body body u : forallb (fun ev => negb (is_lockop (ev_kind ev))) body = true ->
    ev_kind u = KUnlock -> seqb (ev_key u) spec_lock = true ->
    under_lock (Some t) (map (TEv t) body ++ [TEv t u]) = true.
  Proof.
    intros Hb Hu Hk. induction body as [|x r IH]; cbn [map app under_lock te_tid te_ev].
    - rewrite Hu, Hk. cbn [holds]. rewrite Nat.eqb_refl. reflexivity.
    - cbn [forallb] in Hb. apply andb_true_iff in Hb. destruct Hb as [Hx Hr].
      destruct (ev_kind x); try discriminate; cbn [holds]; rewrite Nat.eqb_refl; exact (IH Hr).
  Qed.

  Theorem killed_lock_discipline :
    (1 <= n < length log)%nat -> (exists k, hd_error log = Some (Ev KLock k true)) ->
    under_lock None (lock_trace killed_case) = true.
  Proof.
    intros Hn [k0 Hhd]. pose proof (clean_bracketed e' o clk s0) as B.
    destruct log as [|ev0 r] eqn:El; [discriminate|]. cbn [hd_error] in Hhd. injection Hhd; intros ->.
    cbn [bracketedb] in B. apply andb_true_iff in B. destruct B as [Bk B].
    destruct (rev r) as [|u body] eqn:Er; [discriminate|].
    destruct u as [uk ukey uok]. destruct uk; try discriminate.
    apply andb_true_iff in B. destruct B as [Bu Bb].
    assert (Rr : r = rev body ++ [Ev KUnlock ukey uok]).
    { apply (f_equal (@rev event)) in Er. rewrite rev_involutive in Er. exact Er. }
    unfold lock_trace. cbn [c_runs c_trace killed_case fold_left rr_kill rr_tid]. rewrite El.
    destruct n as [|m]; [lia|]. cbn [firstn].
    assert (Fm : firstn m r = firstn m (rev body)).
    { rewrite Rr. rewrite firstn_app. cbn [length] in Hn. rewrite Rr, app_length in Hn. cbn [length] in Hn.
      replace (m - length (rev body))%nat with 0%nat by lia. cbn [firstn]. apply app_nil_r. }
    rewrite Fm.
    assert (Nb : forallb (fun ev => negb (is_lockop (ev_kind ev))) (firstn m (rev body)) = true).
    { apply forallb_forall. intros x Hx. apply firstn_in in Hx. apply in_rev in Hx.
      exact (proj1 (forallb_forall _ _) Bb x Hx). }
    set (pre := firstn m (rev body)) in *.
    change (Ev KLock k0 true :: pre) with ([] ++ Ev KLock k0 true :: pre).
    assert (Sp : exists l x, Ev KLock k0 true :: pre = l ++ [x]).
    { destruct (@exists_last _ (Ev KLock k0 true :: pre)) as [l [x E]]; [discriminate|]. exists l, x. exact E. }
    destruct Sp as [l [x E]]. cbn [app]. rewrite E, expire_single. cbn [fst]. rewrite <- E.
    cbn [map app under_lock te_tid te_ev ev_kind ev_key ev_ok]. rewrite Bk. cbn [andb].
    apply (under_lock_body pre (Ev KUnlock spec_lock false) Nb); [reflexivity | apply seqb_refl].
  Qed.
  Lemma killed_record :
    lookup (sto s') spec_last_clean = lookup s0 spec_last_clean \/
    (stored_any (firstn n log) = true /\ stored_any log = true).
  Proof.
    unfold clean, do_lock. destruct (faulty e' (St s0 [])); [left; reflexivity|]. cbn [logged sto lg].
    match goal with |- context [clean_locked e' o clk ?sx] =>
      destruct (clean_locked_record_alive e n o clk s0 sx (Inv_init o clk s0)) as [L|(s3 & b & Ln & L)];
      destruct (clean_locked e' o clk sx) as [r2 s2] end; cbn [snd] in *.
    - left. unfold do_unlock. cbn [sto logged]. exact L.
    - right. unfold do_unlock. cbn [lg logged]. rewrite L. cbn [rev]. rewrite <- app_assoc. cbn [app].
      assert (P : (fun ev => match ev_kind ev with KStore => seqb (ev_key ev) spec_last_clean | _ => false end)
                    (Ev KStore spec_last_clean b) = true) by (vm_compute; reflexivity).
      split; unfold stored_any; apply existsb_exists; exists (Ev KStore spec_last_clean b); (split; [|exact P]).
      + apply in_firstn_mid. rewrite rev_length. exact Ln.
      + apply in_or_app. right. left; reflexivity.
  Qed.

  Theorem killed_diff_ok_record : diff_ok killed_case spec_last_clean = true.
  Proof.
    destruct killed_record as [L|[H1 H2]].
    - apply diff_ok_same. cbn [c_s1 c_s0 killed_case]. exact L.
    - rewrite <- (model_diff_ok e' o clk t0 t1 s0 t Hclk spec_last_clean).
      unfold diff_ok. cbn [c_s0 c_s1 c_runs c_trace killed_case model_case existsb rr_opts rr_t1 rr_t0 rr_tid].
      rewrite !proj_single, H1, H2. reflexivity.
  Qed.

  (** together: the whole monitor holds of the observation of a killed run (the kill falls inside the locked part) *)
  Theorem killed_satisfies_spec :
    (1 <= n < length log)%nat -> (exists k, hd_error log = Some (Ev KLock k true)) ->
    spec_ok killed_case = true.
  Proof.
    intros Hn Hl. unfold spec_ok. rewrite (killed_lock_discipline Hn Hl), killed_runs_ok, andb_true_r. cbn [andb].
    unfold all_fops. cbn [c_runs killed_case flat_map rr_fops map app].
    apply forallb_forall. intros k _. destruct (seqb k spec_last_clean) eqn:E.
    - apply seqb_eq in E. subst k. exact killed_diff_ok_record.
    - apply killed_diff_ok. apply seqb_neq. exact E.
  Qed.
End MonitorKilled.

(** * what cannot be loaded is not deleted: a key directly in ocsp/ that is not a file (a directory -- Load fails --
    or nothing at all) keeps everything below it, under every fault plan *)
Lemma slashfree_split ca : forall ca' t t', mem c_sl ca = false -> mem c_sl ca' = false ->
  (t = [] \/ exists r, t = c_sl :: r) -> (t' = [] \/ exists r, t' = c_sl :: r) ->
  ca ++ t = ca' ++ t' -> ca = ca'.
Proof.
  induction ca as [|x ca IH]; intros [|y ca'] t t' H H' Ht Ht' E.
  - reflexivity.
  - exfalso. cbn in E. destruct Ht as [->|[r ->]]; [discriminate|]. injection E; intros _ <-.
    rewrite mem_cons, N.eqb_refl in H'. discriminate.
  - exfalso. cbn in E. destruct Ht' as [->|[r ->]]; [discriminate|]. injection E; intros _ ->.
    rewrite mem_cons, N.eqb_refl in H. discriminate.
  - cbn in E. injection E; intros E' ->. rewrite mem_cons in H, H'. apply orb_false_iff in H, H'.
    f_equal. exact (IH ca' t t' (proj2 H) (proj2 H') Ht Ht' E').
Qed.
Lemma covers_tail a k : covers a k = true -> exists t, k = a ++ t /\ (t = [] \/ exists r, t = c_sl :: r).
Proof.
  unfold covers. intros C. apply orb_true_iff in C. destruct C as [C|C].
  - apply seqb_eq in C. exists []. rewrite app_nil_r. auto.
  - apply under_spec in C. destruct C as [r ->]. exists (c_sl :: r). eauto.
Qed.
Lemma child_cover_unique p a a' k : child p a -> child p a' -> covers a k = true -> covers a' k = true -> a = a'.
Proof.
  intros [ca [-> Hc]] [ca' [-> Hc']] C C'.
  destruct (covers_tail _ _ C) as [t [E Ht]]. destruct (covers_tail _ _ C') as [t' [E' Ht']].
  rewrite E in E'. rewrite <- !app_assoc in E'. apply app_inv_head in E'. cbn [app] in E'. injection E'; intros E''.
  rewrite (slashfree_split ca ca' t t' Hc Hc' Ht Ht' E''). reflexivity.
Qed.
Theorem not_a_file_under_ocsp_kept e o clk s0 a k : child spec_ocsp a -> file s0 a = None ->
  covers a k = true -> file (sto (snd (clean e o clk s0))) k = file s0 k.
Proof.
  intros Ha Hf Ck.
  assert (Hp : has_prefix ocsp_pfx k = true).
  { apply (covers_prefix _ a); [|exact Ck]. destruct Ha as [x [-> _]]. apply has_prefix_spec. exists x.
    unfold ocsp_pfx. rewrite <- app_assoc. reflexivity. }
  destruct (clean_post e o clk s0 k) as [[E|[_ [i J]]]|[E _]].
  - exact E.
  - exfalso. apply justified_inv in J. destruct J as [[_ J]|[_ J]].
    + unfold j_staple in J. apply existsb_exists in J. destruct J as [a' [_ Ja]].
      unfold j_staple_by in Ja. destruct (childb spec_ocsp a') eqn:Ch; [|discriminate].
      destruct (covers a' k) eqn:C; [|discriminate]. apply childb_child in Ch.
      rewrite <- (child_cover_unique _ _ _ _ Ha Ch Ck C), Hf in Ja. discriminate.
    + exact (pfx_disjoint _ Hp (j_cert_prefix _ _ _ _ J)).
  - exfalso. rewrite E in Hp. vm_compute in Hp. discriminate.
Qed.

(** * the lock discipline on the model's observation of a cleaning WITH foreign operations: whatever the others do,
    the cleaner's calls lie between its Lock and its Unlock ([under_lock] clause of [spec_ok] on [model_case_i]) *)
Lemma do_store_ext e k nd s : ext s (snd (do_store e k nd s)).
Proof.
  unfold do_store. destruct (faulty e s); [|destruct (is_dir (sto s) k); [|destruct (efaulty e s)]];
    cbn [snd]; apply ext_one; reflexivity.
Qed.
Lemma exec_ext e clk a s : ext s (snd (exec e clk a s)).
Proof.
  destruct a as [k|k|k|k|k nd| |]; cbn [exec].
  - pose proof (do_load_ext e k s) as X. destruct (do_load e k s); exact X.
  - pose proof (do_list_ext e k s) as X. destruct (do_list e k s); exact X.
  - pose proof (do_stat_ext e k s) as X. destruct (do_stat e k s); exact X.
  - pose proof (do_delete_ext e k s) as X. destruct (do_delete e k s); exact X.
  - pose proof (do_store_ext e k nd s) as X. destruct (do_store e k nd s); exact X.
  - apply ext_refl.
  - apply ext_refl.
Qed.
Lemma runi_ext e clk fs p : forall s, ext s (snd (runi e clk fs p s)).
Proof.
  induction p as [r|a k IH]; intros s; cbn [runi]; [apply ext_refl|].
  set (s' := if logs a then interfere fs s else s).
  assert (El : lg s' = lg s) by (subst s'; destruct (logs a); reflexivity).
  pose proof (exec_ext e clk a s') as X. destruct (exec e clk a s') as [x s1]. cbn [snd] in X.
  apply (ext_trans s s1); [|apply IH]. destruct X as [new [E N]]. exists new. rewrite E, El. auto.
Qed.
Lemma under_lock_body_t t body u : forallb (fun ev => negb (is_lockop (ev_kind ev))) body = true ->
  ev_kind u = KUnlock -> seqb (ev_key u) spec_lock = true ->
  under_lock (Some t) (map (TEv t) body ++ [TEv t u]) = true.
Proof.
  intros Hb Hu Hk. induction body as [|x r IH]; cbn [map app under_lock te_tid te_ev].
  - rewrite Hu, Hk. cbn [holds]. rewrite Nat.eqb_refl. reflexivity.
  - cbn [forallb] in Hb. apply andb_true_iff in Hb. destruct Hb as [Hx Hr].
    destruct (ev_kind x); try discriminate; cbn [holds]; rewrite Nat.eqb_refl; exact (IH Hr).
Qed.
Theorem interference_lock_discipline e fs o clk t0 t1 s0 t :
  under_lock None (lock_trace (model_case_i e fs o clk t0 t1 s0 t)) = true.
Proof.
  unfold lock_trace. cbn [c_runs c_trace model_case_i fold_left rr_kill].
  destruct consts_ok as (_ & _ & _ & _ & _ & _ & El & _).
  unfold cleani, do_lock. destruct (faulty e (St s0 [])).
  - rewrite El. vm_compute. reflexivity.
  - cbn [logged].
    match goal with |- context [runi e clk fs ?p ?sx] =>
      pose proof (runi_ext e clk fs p sx) as X; destruct (runi e clk fs p sx) as [r s2] end.
    cbn [snd] in *. destruct X as [new [E N]]. cbn [lg] in E.
    unfold do_unlock. cbn [lg logged]. rewrite E. cbn [rev]. rewrite rev_app_distr. cbn [rev app].
    rewrite <- app_assoc. cbn [lg logged rev app map under_lock te_tid te_ev ev_kind ev_key ev_ok]. rewrite El, seqb_refl. cbn [andb].
    rewrite map_app. cbn [map].
    apply under_lock_body_t; [|reflexivity | cbn [ev_key]; apply seqb_refl].
    apply forallb_forall. intros x Hx. apply in_rev in Hx. unfold nolock in N. exact (proj1 (forallb_forall _ _) N x Hx).
Qed.

(** * the lock discipline over a killed cleaning AND the cleaning that follows once the lock has expired (the history
    the harness produces for every kill): calls of the dead cleaner, expiry, then the bracketed calls of the next one *)
Lemma expire_none t B : (forall x, In x B -> te_tid x <> t) -> expire_after_last t B = (B, false).
Proof.
  induction B as [|x r IH]; intros H; [reflexivity|]. cbn [expire_after_last].
  rewrite IH by (intros y Hy; apply H; right; exact Hy).
  destruct (Nat.eqb_spec (te_tid x) t) as [E|_]; [exfalso; exact (H x (or_introl eq_refl) E) | reflexivity].
Qed.
Lemma expire_app t A B : (forall x, In x B -> te_tid x <> t) ->
  expire_after_last t (A ++ B) = (fst (expire_after_last t A) ++ B, snd (expire_after_last t A)).
Proof.
  intros H. induction A as [|a r IH]; cbn [app expire_after_last].
  - rewrite (expire_none t B H). reflexivity.
  - rewrite IH. destruct (expire_after_last t r) as [r' d]. cbn [fst snd].
    destruct d; [reflexivity|]. destruct (Nat.eqb (te_tid a) t); reflexivity.
Qed.
Lemma under_lock_body_then t body u Y : forallb (fun ev => negb (is_lockop (ev_kind ev))) body = true ->
  ev_kind u = KUnlock -> seqb (ev_key u) spec_lock = true ->
  under_lock (Some t) (map (TEv t) body ++ TEv t u :: Y) = under_lock None Y.
Proof.
  intros Hb Hu Hk. induction body as [|x r IH]; cbn [map app under_lock te_tid te_ev].
  - rewrite Hu, Hk. cbn [holds]. rewrite Nat.eqb_refl. reflexivity.
  - cbn [forallb] in Hb. apply andb_true_iff in Hb. destruct Hb as [Hx Hr].
    destruct (ev_kind x); try discriminate; cbn [holds]; rewrite Nat.eqb_refl; exact (IH Hr).
Qed.

Section KilledThenNext.
  Variables (e1 : env) (n : nat) (o1 : opts) (clk1 : nat -> Z) (e2 : env) (o2 : opts) (clk2 : nat -> Z)
            (a0 a1 b0 b1 : Z) (s0 : store).
  Notation st1 := (snd (clean (with_kill e1 n) o1 clk1 s0)).
  Notation log1 := (rev (lg (snd (clean (with_kill e1 n) o1 clk1 s0)))).
  Notation st2 := (snd (clean e2 o2 clk2 (sto (snd (clean (with_kill e1 n) o1 clk1 s0))))).
  Notation log2 := (rev (lg (snd (clean e2 o2 clk2 (sto (snd (clean (with_kill e1 n) o1 clk1 s0))))))).
  Definition killed_then_next_case : case :=
    Case (lfe e1) s0
      [RunRec 0 o1 (faults e1) (efaults e1) (cancel_at e1) a0 a1 9%N [] (pfaults e1) (Some n);
       RunRec 1 o2 (faults e2) (efaults e2) (cancel_at e2) b0 b1 (result_code (fst (clean e2 o2 clk2 (sto st1)))) [] (pfaults e2) None]
      (map (TEv 0%nat) (firstn n log1) ++ map (TEv 1%nat) log2) (sto st2).

  Theorem killed_then_next_lock_discipline :
    (1 <= n < length log1)%nat -> (exists k, hd_error log1 = Some (Ev KLock k true)) ->
    under_lock None (lock_trace killed_then_next_case) = true.
  Proof.
    intros Hn [k0 Hhd]. pose proof (clean_bracketed (with_kill e1 n) o1 clk1 s0) as B.
    assert (U2 : under_lock None (map (TEv 1%nat) log2) = true).
    { pose proof (model_under_lock e2 o2 clk2 b0 b1 (sto st1) 1%nat) as M. unfold lock_trace in M.
      cbn [c_runs c_trace model_case fold_left rr_kill] in M. exact M. }
    destruct log1 as [|ev0 r] eqn:El; [discriminate|]. cbn [hd_error] in Hhd. injection Hhd; intros ->.
    cbn [bracketedb] in B. apply andb_true_iff in B. destruct B as [Bk B].
    destruct (rev r) as [|u body] eqn:Er; [discriminate|].
    destruct u as [uk ukey uok]. destruct uk; try discriminate.
    apply andb_true_iff in B. destruct B as [Bu Bb].
    assert (Rr : r = rev body ++ [Ev KUnlock ukey uok]).
    { apply (f_equal (@rev event)) in Er. rewrite rev_involutive in Er. exact Er. }
    unfold lock_trace. cbn [c_runs c_trace killed_then_next_case fold_left rr_kill rr_tid]. rewrite El.
    destruct n as [|m]; [lia|]. cbn [firstn].
    assert (Fm : firstn m r = firstn m (rev body)).
    { rewrite Rr. rewrite firstn_app. cbn [length] in Hn. rewrite Rr, app_length in Hn. cbn [length] in Hn.
      replace (m - length (rev body))%nat with 0%nat by lia. cbn [firstn]. apply app_nil_r. }
    rewrite Fm.
    assert (Nb : forallb (fun ev => negb (is_lockop (ev_kind ev))) (firstn m (rev body)) = true).
    { apply forallb_forall. intros x Hx. apply firstn_in in Hx. apply in_rev in Hx.
      exact (proj1 (forallb_forall _ _) Bb x Hx). }
    set (pre := firstn m (rev body)) in *.
    rewrite expire_app by (intros x Hx; apply in_map_iff in Hx; destruct Hx as [y [<- _]]; cbn; discriminate).
    destruct (@exists_last _ (Ev KLock k0 true :: pre)) as [l [x E]]; [discriminate|].
    rewrite E, expire_single. cbn [fst]. rewrite <- E.
    cbn [map app under_lock te_tid te_ev ev_kind ev_key ev_ok]. rewrite Bk. cbn [andb].
    rewrite <- app_assoc. cbn [app].
    rewrite (under_lock_body_then 0%nat pre (Ev KUnlock spec_lock false) _ Nb eq_refl (seqb_refl _)). exact U2.
  Qed.
End KilledThenNext.
