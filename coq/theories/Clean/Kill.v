(** C18 — a cleaner that is killed while it holds the storage_clean lock.

    [Prog.cleank e n o clk s0] is the run of CleanStorage in a process that dies when its call number n
    begins: the resumption simply stops; the lock is not released (on FileStorage the lock file stays
    and goes stale, C08: the next cleaner removes it after 2 x lockFreshnessInterval and proceeds).
    [killed_is_model]: the storage such a run leaves is the storage the model [clean] leaves under the
    environment [with_kill e n] (every call from number n on fails without effect), and its log is a
    prefix of that run's log. Hence EVERY theorem about [clean] that holds for all environments --
    only justified keys disappear, everything else keeps its value, live assets, fresh staples and
    foreign keys are untouched, the interference theorems -- holds for what a killed cleaner leaves
    behind, and a cleaning that follows is a cleaning of that storage ([killed_then_cleaned_safe]). *)
From CM Require Import Lib.Str Lib.CleanSyntax Gen.Consts Clean.Model Clean.Proofs Clean.Prog Clean.Concurrent.
From Coq Require Import Lia.
Open Scope Z_scope.

Section Kill.
  Variables (e : env) (n : nat) (clk : nat -> Z).
  Hypothesis Alive : kill_at e = None.
  Local Notation e' := (with_kill e n).

  Lemma faulty_alive s : (length (lg s) < n)%nat -> faulty e' s = faulty e s.
  Proof.
    intros H. unfold faulty, dead. cbn [kill_at faults with_kill]. rewrite Alive.
    replace (n <=? length (lg s))%nat with false by (symmetry; apply Nat.leb_gt; exact H). reflexivity.
  Qed.
  Lemma faulty_dead s : (n <= length (lg s))%nat -> faulty e' s = true.
  Proof.
    intros H. unfold faulty, dead. cbn [kill_at with_kill].
    replace (n <=? length (lg s))%nat with true by (symmetry; apply Nat.leb_le; exact H). apply orb_true_r.
  Qed.

  Lemma exec_alive a s : (length (lg s) < n)%nat -> exec e' clk a s = exec e clk a s.
  Proof.
    intros H. pose proof (faulty_alive s H) as F.
    destruct a as [k|k|k|k|k nd| |]; cbn [exec]; try reflexivity;
      unfold do_load, do_list, do_stat, do_delete, do_store; rewrite F; reflexivity.
  Qed.
  Lemma exec_nolog a s : logs a = false -> exec e' clk a s = exec e clk a s.
  Proof. destruct a; try discriminate; reflexivity. Qed.
  Lemma exec_dead a s : (n <= length (lg s))%nat ->
    sto (snd (exec e' clk a s)) = sto s /\ exists new, lg (snd (exec e' clk a s)) = new ++ lg s.
  Proof.
    intros H. pose proof (faulty_dead s H) as F.
    destruct a as [k|k|k|k|k nd| |]; cbn [exec];
      try (split; [reflexivity | exists []; reflexivity]);
      unfold do_load, do_list, do_stat, do_delete, do_store; rewrite F; cbn [snd sto lg logged];
      (split; [reflexivity | eexists [_]; reflexivity]).
  Qed.
  Lemma exec_logs_one a s : logs a = true -> length (lg (snd (exec e clk a s))) = S (length (lg s)).
  Proof.
    destruct a as [k|k|k|k|k nd| |]; try discriminate; intros _; cbn [exec].
    - unfold do_load. destruct (faulty e s); [reflexivity|].
      destruct (lookup (sto s) k) as [[v c|]|]; [reflexivity| |]; destruct (is_dir (sto s) k); reflexivity.
    - unfold do_list. destruct (faulty e s); reflexivity.
    - unfold do_stat. destruct (faulty e s); reflexivity.
    - unfold do_delete. destruct (faulty e s); [reflexivity|]. destruct (pfaulty e s); [reflexivity|].
      destruct (efaulty e s); reflexivity.
    - unfold do_store. destruct (faulty e s); [reflexivity|]. destruct (is_dir (sto s) k); [reflexivity|].
      destruct (efaulty e s); reflexivity.
  Qed.
  Lemma exec_nolog_state a s : logs a = false -> snd (exec e clk a s) = s.
  Proof. destruct a; try discriminate; reflexivity. Qed.

  Lemma run_dead p : forall s, (n <= length (lg s))%nat ->
    sto (snd (run e' clk p s)) = sto s /\ exists new, lg (snd (run e' clk p s)) = new ++ lg s.
  Proof.
    induction p as [r|a k IH]; intros s H; cbn [run]; [split; [reflexivity | exists []; reflexivity]|].
    destruct (exec_dead a s H) as [Es [new El]]. destruct (exec e' clk a s) as [x s1]. cbn [snd] in *.
    assert (H1 : (n <= length (lg s1))%nat) by (rewrite El, app_length; lia).
    destruct (IH x s1 H1) as [Es' [new' El']]. split; [congruence|].
    exists (new' ++ new). rewrite El', El, app_assoc. reflexivity.
  Qed.

  Lemma agree p : forall m s, (length (lg s) + m = n)%nat ->
    sto (snd (run e' clk p s)) = sto (snd (run e clk (cutl m p) s)) /\
    exists new, lg (snd (run e' clk p s)) = new ++ lg (snd (run e clk (cutl m p) s)).
  Proof.
    induction p as [r|a k IH]; intros m s H; cbn [cutl]; [cbn [run snd]; split; [reflexivity | exists []; reflexivity]|].
    destruct (logs a) eqn:La.
    - destruct m as [|m'].
      + cbn [run snd]. apply (run_dead (Do a k)). lia.
      + cbn [run]. rewrite exec_alive by lia.
        pose proof (exec_logs_one a s La) as L1. destruct (exec e clk a s) as [x s1]. cbn [snd] in L1.
        apply IH. lia.
    - cbn [run]. rewrite (exec_nolog a s La).
      pose proof (exec_nolog_state a s La) as L1. destruct (exec e clk a s) as [x s1]. cbn [snd] in L1. subst s1.
      apply IH. exact H.
  Qed.

End Kill.

(** what a killed cleaner leaves is what the model leaves under [with_kill]; the dead process's calls
    are the first calls of that run *)
Theorem killed_is_model e n clk (Alive : kill_at e = None) o s0 :
  sto (cleank e n o clk s0) = sto (snd (clean (with_kill e n) o clk s0)) /\
  exists rest, lg (snd (clean (with_kill e n) o clk s0)) = rest ++ lg (cleank e n o clk s0).
Proof.
  unfold cleank, clean. destruct n as [|m].
  - unfold do_lock. rewrite (faulty_dead e 0) by (cbn; lia). cbn. split; [reflexivity | eexists; rewrite app_nil_r; reflexivity].
  - assert (Fl : faulty (with_kill e (S m)) (St s0 []) = faulty e (St s0 [])) by (apply faulty_alive; [exact Alive | cbn; lia]).
    unfold do_lock. rewrite Fl. destruct (faulty e (St s0 [])).
    + cbn. split; [reflexivity | exists []; reflexivity].
    + rewrite <- run_clean_locked_prog.
      match goal with |- context [run (with_kill e (S m)) clk ?p ?sx] =>
        destruct (agree e (S m) clk Alive p m sx) as [Es [new El]]; [cbn; lia|];
        destruct (run (with_kill e (S m)) clk p sx) as [r s2] end.
      cbn [snd] in *. unfold do_unlock. cbn [sto lg logged]. split; [symmetry; exact Es|].
      eexists (_ :: new). rewrite El. reflexivity.
Qed.

(** the cleaning that follows (after the dead holder's lock went stale) finds that storage; whatever
    has disappeared after both is justified for one of them on the initial storage *)
Theorem killed_then_cleaned_safe e1 n o1 clk1 e2 o2 clk2 s0 k : kill_at e1 = None -> k <> spec_last_clean ->
  let s1 := sto (cleank e1 n o1 clk1 s0) in
  let s2 := sto (snd (clean e2 o2 clk2 s1)) in
  file s2 k = file s0 k \/
  (file s2 k = None /\
   ((exists i, justified o1 (clk1 i) s0 k = true) \/ (exists i, justified o2 (clk2 i) s0 k = true))).
Proof.
  intros A Hk s1 s2.
  destruct (killed_is_model e1 n clk1 A o1 s0) as [Es _].
  pose proof (clean_seq_post [Run (with_kill e1 n) o1 clk1; Run e2 o2 clk2] s0 k Hk) as P.
  cbn [clean_seq r_env r_opts r_clk] in P. rewrite <- Es in P. fold s1 in P. fold s2 in P.
  destruct P as [P|[P [r [Hin [i J]]]]]; [left; exact P|]. right. split; [exact P|].
  destruct Hin as [<-|[<-|[]]]; cbn [r_opts r_clk] in J; [left | right]; exists i; exact J.
Qed.
