(** C18 — final round, third part: what later cleanings DO finish after a death. A cleaning under any environment without
    partial Deletes -- in particular the model of a killed cleaner, [with_kill e n] -- only removes whole subtrees and writes
    the record, so the well-formedness hypotheses of the effectiveness theorems carry over to the storage it leaves; the
    next fault-free cleaning then removes every expired certificate whose X.crt is still there. *)
From CM Require Import Lib.Str Lib.CleanSyntax Gen.Consts Clean.Model Clean.Proofs Clean.Prog Clean.Effective Clean.Interfere Clean.EffectiveCerts Clean.Kill.
From Coq Require Import Lia.
Open Scope Z_scope.

Section RemOnly.
  Variable Q : store -> Prop.
  Hypothesis Qrem : forall x s, Q s -> Q (remove x s).
  Hypothesis Qput : forall n s, Q s -> Q (put spec_last_clean n s).
  Variables (e : env) (clk : nat -> Z).
  Hypothesis NoPartial : pfaults e = [].

  Lemma ro_delete k s : Q (sto s) -> Q (sto (snd (do_delete e k s))).
  Proof.
    intros H. unfold do_delete, pfaulty. rewrite NoPartial. cbn [assoc_nat].
    destruct (faulty e s); [exact H|]. destruct (efaulty e s); cbn [snd sto logged]; apply Qrem; exact H.
  Qed.
  Lemma ro_staples ks : forall s, Q (sto s) -> Q (sto (staples_loop e clk ks s)).
  Proof.
    induction ks as [|a r IH]; intros s H; cbn [staples_loop]; [exact H|].
    destruct (cancelled e s); [exact H|].
    pose proof (do_load_sto e a s) as E. destruct (do_load e a s) as [res s1]. cbn [snd] in E.
    assert (H1 : Q (sto s1)) by (rewrite E; exact H).
    destruct res as [v c| |]; try (apply IH; exact H1).
    destruct (stale_staple (rd clk s1) c); [|apply IH; exact H1].
    pose proof (ro_delete a s1 H1) as D. destruct (do_delete e a s1) as [b s2]. cbn [snd] in D. apply IH; exact D.
  Qed.
  Lemma ro_old_staples s : Q (sto s) -> Q (sto (delete_old_staples e clk s)).
  Proof.
    intros H. unfold delete_old_staples.
    pose proof (do_list_sto e prefix_ocsp s) as E. destruct (do_list e prefix_ocsp s) as [res s1]. cbn [snd] in E.
    assert (H1 : Q (sto s1)) by (rewrite E; exact H).
    destruct res; [apply ro_staples; exact H1 | exact H1].
  Qed.
  Lemma ro_related base sufs : forall s, Q (sto s) -> Q (sto (delete_related e base sufs s)).
  Proof.
    induction sufs as [|x r IH]; intros s H; cbn [delete_related]; [exact H|].
    pose proof (ro_delete (base ++ x) s H) as D. destruct (do_delete e (base ++ x) s) as [b s1]. cbn [snd] in D.
    apply IH; exact D.
  Qed.
  Lemma ro_assets gr assets : forall s, Q (sto s) -> Q (sto (snd (assets_loop e clk gr assets s))).
  Proof.
    induction assets as [|a r IH]; intros s H; cbn [assets_loop]; [exact H|].
    destruct (negb (seqb (path_ext a) clean_ext_crt)); [apply IH; exact H|].
    pose proof (do_load_sto e a s) as E. destruct (do_load e a s) as [res s1]. cbn [snd] in E.
    assert (H1 : Q (sto s1)) by (rewrite E; exact H).
    destruct res as [v c| |]; cbn [snd]; try exact H1.
    destruct (as_cert c); cbn [snd]; [|exact H1].
    destruct (expired_cert (rd clk s1) gr c); [|apply IH; exact H1].
    pose proof (ro_delete a s1 H1) as D. destruct (do_delete e a s1) as [b s2]. cbn [snd] in D.
    apply IH. apply ro_related. exact D.
  Qed.
  Lemma ro_sites gr sites : forall s, Q (sto s) -> Q (sto (snd (sites_loop e clk gr sites s))).
  Proof.
    induction sites as [|sk r IH]; intros s H; cbn [sites_loop]; [exact H|].
    destruct (cancelled e s); [exact H|].
    pose proof (do_list_sto e sk s) as E1. destruct (do_list e sk s) as [res s1]. cbn [snd] in E1.
    assert (H1 : Q (sto s1)) by (rewrite E1; exact H).
    destruct res as [assets|]; [|apply IH; exact H1].
    pose proof (ro_assets gr assets s1 H1) as A. destruct (assets_loop e clk gr assets s1) as [ab s2]. cbn [snd] in A.
    destruct ab; cbn [snd]; [exact A|].
    pose proof (do_list_sto e sk s2) as E3. destruct (do_list e sk s2) as [res2 s3]. cbn [snd] in E3.
    assert (H3 : Q (sto s3)) by (rewrite E3; exact A).
    destruct res2 as [[|x xs]|]; try (apply IH; exact H3).
    pose proof (do_stat_sto e sk s3) as E4. destruct (do_stat e sk s3) as [sr s4]. cbn [snd] in E4.
    assert (H4 : Q (sto s4)) by (rewrite E4; exact H3).
    destruct sr; try (apply IH; exact H4).
    pose proof (ro_delete sk s4 H4) as D. destruct (do_delete e sk s4) as [ok s5]. cbn [snd] in D.
    destruct ok; cbn [snd]; [apply IH; exact D | exact D].
  Qed.
  Lemma ro_issuers gr iss : forall s, Q (sto s) -> Q (sto (snd (issuers_loop e clk gr iss s))).
  Proof.
    induction iss as [|ik r IH]; intros s H; cbn [issuers_loop]; [exact H|].
    pose proof (do_list_sto e ik s) as E1. destruct (do_list e ik s) as [res s1]. cbn [snd] in E1.
    assert (H1 : Q (sto s1)) by (rewrite E1; exact H).
    destruct res as [sites|]; [|apply IH; exact H1].
    pose proof (ro_sites gr sites s1 H1) as A. destruct (sites_loop e clk gr sites s1) as [ab s2]. cbn [snd] in A.
    destruct ab; cbn [snd]; [exact A | apply IH; exact A].
  Qed.
  Lemma ro_expired_certs gr s : Q (sto s) -> Q (sto (snd (delete_expired_certs e clk gr s))).
  Proof.
    intros H. unfold delete_expired_certs.
    pose proof (do_list_sto e prefix_certs s) as E. destruct (do_list e prefix_certs s) as [res s1]. cbn [snd] in E.
    assert (H1 : Q (sto s1)) by (rewrite E; exact H).
    destruct res; cbn [snd]; [apply ro_issuers; exact H1 | exact H1].
  Qed.
  (** the whole cleaning preserves whatever removals of subtrees and the write of the record preserve *)
  Theorem clean_preserves o s0 : Q s0 -> Q (sto (snd (clean e o clk s0))).
  Proof.
    intros H. unfold clean, do_lock. destruct (faulty e (St s0 [])); [exact H|].
    match goal with |- context [clean_locked e o clk ?sx] => set (sA := sx) end.
    assert (HA : Q (sto sA)) by exact H. clearbody sA.
    unfold clean_locked. destruct (interval_check e o clk sA) as [ir s1] eqn:IC.
    pose proof (interval_check_sto _ _ _ _ _ _ IC) as E1.
    assert (H1 : Q (sto s1)) by (rewrite E1; exact HA).
    destruct ir; cbn [snd]; try (unfold do_unlock; cbn [sto logged]; exact H1).
    set (s2 := if do_ocsp o then delete_old_staples e clk s1 else s1).
    assert (H2 : Q (sto s2)) by (subst s2; destruct (do_ocsp o); [apply ro_old_staples|]; exact H1).
    set (s3 := if do_certs o then snd (delete_expired_certs e clk (grace o) s2) else s2).
    assert (H3 : Q (sto s3)) by (subst s3; destruct (do_certs o); [apply ro_expired_certs|]; exact H2).
    destruct (do_store e clean_storage_key (written (rd clk s3) o) s3) as [ok s4] eqn:S. cbn [snd].
    unfold do_unlock. cbn [sto logged].
    destruct (do_store_spec _ _ _ _ _ _ S) as [(_ & -> & _)|(-> & _ & _)]; [exact H3|].
    destruct consts_ok as (_ & _ & _ & _ & _ & _ & _ & -> & _). apply Qput. exact H3.
  Qed.
End RemOnly.

(** what the write of the record preserves *)
Lemma notfile_put k n s : k <> spec_last_clean -> notfile s k -> notfile (put spec_last_clean n s) k.
Proof.
  intros Hk H v c. rewrite lookup_put. destruct (seqb spec_last_clean k) eqn:E; [apply seqb_eq in E; congruence | apply H].
Qed.
Lemma crt_wf_put n s : crt_wf s -> crt_wf (put spec_last_clean n s).
Proof.
  intros H a Sa Ext [k [C L]].
  assert (Pa : has_prefix certs_pfx a = true).
  { apply site_assetb_spec in Sa. destruct Sa as [r [-> _]]. apply has_prefix_spec. eauto. }
  assert (Ne : forall q, covers a q = true -> seqb spec_last_clean q = false).
  { intros q Cq. destruct (seqb spec_last_clean q) eqn:E; [|reflexivity]. exfalso. apply seqb_eq in E. subst q.
    pose proof (covers_prefix _ _ _ Pa Cq) as P. vm_compute in P. discriminate. }
  rewrite lookup_put, (Ne k C) in L.
  destruct (H a Sa Ext (ex_intro _ k (conj C L))) as (v & c & na & Hl & Hc).
  exists v, c, na. split; [|exact Hc]. rewrite lookup_put, (Ne a (covers_refl a)). exact Hl.
Qed.
Lemma certs_key_not_record p k : child p k -> has_prefix certs_pfx k = true -> k <> spec_last_clean.
Proof. intros _ P ->. vm_compute in P. discriminate. Qed.

(** after a death: the next fault-free cleaning removes X.crt, X.key, X.json of every certificate whose X.crt is still there
    and that is expired for the grace period at every reading of ITS clock *)
Theorem next_cleaning_finishes_what_is_left e1 n o1 clk1 e2 o2 clk2 s0 ik sk a v c :
  pfaults e1 = [] -> no_faults e2 -> do_certs o2 = true -> interval o2 <= 0 -> crt_wf s0 ->
  notfile s0 spec_certs -> child spec_certs ik -> child ik sk -> notfile s0 ik -> notfile s0 sk ->
  child sk a -> seqb (path_ext a) spec_ext_crt = true ->
  let s1 := sto (snd (clean (with_kill e1 n) o1 clk1 s0)) in
  file s1 a = Some (v, c) -> (forall i, spec_expired (clk2 i) (grace o2) c = true) ->
  forall x, In x (trio a) -> forall k, covers x k = true -> lookup (sto (snd (clean e2 o2 clk2 s1))) k = None.
Proof.
  intros NP NF Hc Hi WF NFc Cik Csk NFi NFs Ca Ext s1 Hf Hx.
  assert (Pik : has_prefix certs_pfx ik = true).
  { destruct Cik as [ci [-> _]]. apply has_prefix_spec. exists ci. unfold certs_pfx. rewrite <- app_assoc. reflexivity. }
  assert (Psk : has_prefix certs_pfx sk = true).
  { destruct Csk as [cs [-> _]]. apply has_prefix_app. exact Pik. }
  assert (NPk : pfaults (with_kill e1 n) = []) by exact NP.
  assert (Nc : spec_certs <> spec_last_clean) by (intros E; vm_compute in E; discriminate).
  apply (expired_cert_assets_removed e2 o2 clk2 s1 ik sk a v c NF Hc Hi); try assumption.
  - apply (clean_preserves crt_wf crt_wf_remove crt_wf_put (with_kill e1 n) clk1 NPk o1 s0 WF).
  - apply (clean_preserves (fun st => notfile st spec_certs) (fun x st => notfile_remove spec_certs x st)
             (fun nd st => notfile_put spec_certs nd st Nc) (with_kill e1 n) clk1 NPk o1 s0 NFc).
  - apply (clean_preserves (fun st => notfile st ik) (fun x st => notfile_remove ik x st)
             (fun nd st => notfile_put ik nd st (certs_key_not_record _ _ Cik Pik)) (with_kill e1 n) clk1 NPk o1 s0 NFi).
  - apply (clean_preserves (fun st => notfile st sk) (fun x st => notfile_remove sk x st)
             (fun nd st => notfile_put sk nd st (certs_key_not_record _ _ Csk Psk)) (with_kill e1 n) clk1 NPk o1 s0 NFs).
Qed.
