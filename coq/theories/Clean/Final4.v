(** C18 — final round, fourth part: the history form of "records when it ran, and does nothing if a cleaning was recorded
    more recently than the interval" as the monitor evaluates it over two cleanings in lock order ([runs_ok] with the recorded
    time carried from run to run), proved of the model. *)
From CM Require Import Lib.Str Lib.Wire Lib.CleanSyntax Gen.Consts Clean.Model Clean.Proofs Clean.Prog Clean.Check Clean.SpecProofs Clean.Concurrent Clean.Effective Clean.Interfere Clean.Final Clean.Final2.
From Coq Require Import Lia.
Open Scope Z_scope.

Section StoredWritten.
  Variables (e : env) (clk : nat -> Z) (o : opts).
  (** from a state whose log shows no successful Store of the record: if the run's log shows one, the record is what this
      run wrote, with a reading of its clock *)
  Definition SW (p : prog) : Prop := forall s, stored_ok (lg s) = false ->
    stored_ok (lg (snd (run e clk p s))) = true ->
    exists i, lookup (sto (snd (run e clk p s))) spec_last_clean = Some (written (clk i) o).

  Lemma exec_keeps_unstored a s : (forall key n, a <> AStore key n) -> stored_ok (lg s) = false ->
    stored_ok (lg (snd (exec e clk a s))) = false.
  Proof.
    intros Ha Hs. destruct a as [k|k|k|k|k nd| |]; cbn [exec]; try exact Hs.
    - unfold do_load. destruct (faulty e s); [|destruct (lookup (sto s) k) as [[v c|]|]; try destruct (is_dir (sto s) k)];
        cbn [snd lg logged stored_ok existsb ev_kind orb]; exact Hs.
    - unfold do_list. destruct (faulty e s); cbn [snd lg logged stored_ok existsb ev_kind orb]; exact Hs.
    - unfold do_stat. destruct (faulty e s); cbn [snd lg logged stored_ok existsb ev_kind orb]; exact Hs.
    - unfold do_delete. destruct (faulty e s); [|destruct (pfaulty e s); [|destruct (efaulty e s)]];
        cbn [snd lg logged stored_ok existsb ev_kind orb]; exact Hs.
    - exfalso. exact (Ha k nd eq_refl).
  Qed.
  Lemma sw_do a k : (forall key n, a <> AStore key n) -> (forall x, SW (k x)) -> SW (Do a k).
  Proof.
    intros Ha H s Hs. cbn [run]. pose proof (exec_keeps_unstored a s Ha Hs) as K.
    destruct (exec e clk a s) as [x s1]. cbn [snd] in K. apply H. exact K.
  Qed.
  Lemma sw_done r : SW (Done r).
  Proof. intros s Hs H. cbn [run snd] in H. congruence. Qed.
  Ltac nost := let key := fresh in let n := fresh in let E := fresh in intros key n E; discriminate E.

  Lemma sw_record : SW (record_prog o).
  Proof.
    intros s Hs. unfold record_prog. cbn [run exec].
    destruct consts_ok as (_ & _ & _ & _ & _ & _ & _ & Ek & _). rewrite Ek. unfold do_store.
    unfold stored_ok in *.
    destruct (faulty e s); [|destruct (is_dir (sto s) spec_last_clean); [|destruct (efaulty e s)]];
      cbn [run fst snd lg logged sto existsb ev_kind ev_key ev_ok]; rewrite Hs, ?andb_false_r; cbn [orb];
      try (intros H; discriminate H).
    intros _. exists (length (lg s)). rewrite lookup_put, seqb_refl. reflexivity.
  Qed.
  Lemma sw_staples kont : SW kont -> forall ks, SW (staples_prog ks kont).
  Proof.
    intros HK. induction ks as [|k r IH]; cbn [staples_prog]; [exact HK|].
    apply sw_do; [nost|]. intros c. destruct c as [| | |[|]|]; try exact HK.
    apply sw_do; [nost|]. intros x. destruct x as [[v c| |]| | | |]; try exact IH.
    apply sw_do; [nost|]. intros t. destruct t as [| | | |now]; try exact IH.
    destruct (stale_staple now c); [|exact IH]. apply sw_do; [nost|]. intros _. exact IH.
  Qed.
  Lemma sw_related base kont : SW kont -> forall sufs, SW (related_prog base sufs kont).
  Proof.
    intros HK. induction sufs as [|x r IH]; cbn [related_prog]; [exact HK|]. apply sw_do; [nost|]. intros _. exact IH.
  Qed.
  Lemma sw_assets gr kont : (forall b, SW (kont b)) -> forall assets, SW (assets_prog gr assets kont).
  Proof.
    intros HK. induction assets as [|a r IH]; cbn [assets_prog]; [apply HK|].
    destruct (negb (seqb (path_ext a) clean_ext_crt)); [exact IH|].
    apply sw_do; [nost|]. intros x. destruct x as [[v c| |]| | | |]; try apply HK.
    destruct (as_cert c); [|apply HK].
    apply sw_do; [nost|]. intros t. destruct t as [| | | |now]; try apply HK.
    destruct (expired_cert now gr c); [|exact IH].
    apply sw_do; [nost|]. intros _. apply sw_related. exact IH.
  Qed.
  Lemma sw_sites gr kont : (forall b, SW (kont b)) -> forall sites, SW (sites_prog gr sites kont).
  Proof.
    intros HK. induction sites as [|sk r IH]; cbn [sites_prog]; [apply HK|].
    apply sw_do; [nost|]. intros c. destruct c as [| | |[|]|]; try apply HK.
    apply sw_do; [nost|]. intros x. destruct x as [|[assets|]| | |]; try exact IH.
    apply sw_assets. intros ab. destruct ab; [apply HK|].
    apply sw_do; [nost|]. intros y. destruct y as [|[[|y0 ys]|]| | |]; try exact IH.
    apply sw_do; [nost|]. intros z. destruct z as [| |[| |]| |]; try exact IH.
    apply sw_do; [nost|]. intros d. destruct d as [| | |[|]|]; try apply HK. exact IH.
  Qed.
  Lemma sw_issuers gr kont : (forall b, SW (kont b)) -> forall iss, SW (issuers_prog gr iss kont).
  Proof.
    intros HK. induction iss as [|ik r IH]; cbn [issuers_prog]; [apply HK|].
    apply sw_do; [nost|]. intros x. destruct x as [|[sites|]| | |]; try exact IH.
    apply sw_sites. intros ab. destruct ab; [apply HK | exact IH].
  Qed.
  Lemma sw_work : SW (work_prog o).
  Proof.
    unfold work_prog. cbv zeta.
    assert (P2 : SW (if do_certs o then expired_certs_prog (grace o) (record_prog o) else record_prog o)).
    { destruct (do_certs o); [|apply sw_record]. unfold expired_certs_prog. apply sw_do; [nost|].
      intros x. destruct x as [|[iss|]| | |]; try apply sw_record.
      apply sw_issuers. intros _. apply sw_record. }
    destruct (do_ocsp o); [|exact P2]. unfold old_staples_prog. apply sw_do; [nost|].
    intros x. destruct x as [|[ks|]| | |]; try exact P2. apply sw_staples. exact P2.
  Qed.
  Lemma sw_clean_locked : SW (clean_locked_prog o).
  Proof.
    unfold clean_locked_prog. destruct (0 <? interval o); [|apply sw_work].
    apply sw_do; [nost|]. intros x. destruct x as [[v c| |]| | | |]; try apply sw_done; [|apply sw_work].
    destruct (as_clean c) as [[ts i]|]; [|apply sw_done].
    apply sw_do; [nost|]. intros t. destruct t as [| | | |now]; try apply sw_done.
    destruct (cmp_holds clean_interval_cmp (now - ts) (interval o)); [apply sw_done | apply sw_work].
  Qed.

  (** a cleaning whose log shows a successful Store of the record leaves the record it wrote *)
  Theorem stored_ok_written s0 : stored_ok (lg (snd (clean e o clk s0))) = true ->
    exists i, lookup (sto (snd (clean e o clk s0))) spec_last_clean = Some (written (clk i) o).
  Proof.
    unfold clean, do_lock. destruct (faulty e (St s0 [])); [cbn; discriminate|]. cbn [logged].
    rewrite <- run_clean_locked_prog.
    match goal with |- context [run e clk ?p ?sx] =>
      pose proof (sw_clean_locked sx eq_refl) as X; destruct (run e clk p sx) as [r s2] end.
    cbn [snd] in *. unfold do_unlock. cbn [lg logged sto stored_ok existsb ev_kind orb]. exact X.
  Qed.
End StoredWritten.

(** a cleaning that issued no Store of the record leaves the record alone *)
Lemma no_store_record_untouched e o clk s0 : stored_any (lg (snd (clean e o clk s0))) = false ->
  lookup (sto (snd (clean e o clk s0))) spec_last_clean = lookup s0 spec_last_clean.
Proof.
  intros H. destruct (clean_post_nodes e o clk s0 spec_last_clean) as [[E|N J|N D Sf Ho G]|i E W St Nd].
  - exact E.
  - destruct J as [i J]. rewrite last_clean_not_justified in J. discriminate.
  - vm_compute in Sf. discriminate.
  - congruence.
Qed.

Lemma proj_app t A B : proj t (A ++ B) = proj t A ++ proj t B.
Proof. unfold proj. rewrite filter_app, map_app. reflexivity. Qed.
Lemma stored_any_rev l : stored_any (rev l) = stored_any l.
Proof.
  unfold stored_any. destruct (existsb _ l) eqn:E.
  - apply existsb_exists in E. destruct E as [x [Hx Px]]. apply existsb_exists. exists x. split; [apply in_rev in Hx; exact Hx | exact Px].
  - destruct (existsb _ (rev l)) eqn:E2; [|reflexivity]. apply existsb_exists in E2. destruct E2 as [x [Hx Px]].
    assert (X : existsb (fun ev => match ev_kind ev with KStore => seqb (ev_key ev) spec_last_clean | _ => false end) l = true)
      by (apply existsb_exists; exists x; split; [apply in_rev; exact Hx | exact Px]).
    congruence.
Qed.

(** two cleanings one after the other (lock order), each with its own options, fault plan and clock within its bracket *)
Section TwoRuns.
  Variables (e1 : env) (o1 : opts) (clk1 : nat -> Z) (a0 a1 : Z) (e2 : env) (o2 : opts) (clk2 : nat -> Z) (b0 b1 : Z) (s0 : store).
  Hypotheses (H1 : forall i, a0 <= clk1 i <= a1) (H2 : forall i, b0 <= clk2 i <= b1).
  Notation r1 := (clean e1 o1 clk1 s0).
  Notation s1 := (sto (snd (clean e1 o1 clk1 s0))).
  Notation r2 := (clean e2 o2 clk2 (sto (snd (clean e1 o1 clk1 s0)))).
  Notation log1 := (rev (lg (snd (clean e1 o1 clk1 s0)))).
  Notation log2 := (rev (lg (snd (clean e2 o2 clk2 (sto (snd (clean e1 o1 clk1 s0))))))).
  Definition seq2_case : case :=
    Case (lfe e1) s0
      [RunRec 0 o1 (faults e1) (efaults e1) (cancel_at e1) a0 a1 (result_code (fst r1)) [] (pfaults e1) None;
       RunRec 1 o2 (faults e2) (efaults e2) (cancel_at e2) b0 b1 (result_code (fst r2)) [] (pfaults e2) None]
      (map (TEv 0%nat) log1 ++ map (TEv 1%nat) log2) (sto (snd r2)).

  (** the clauses that do not depend on the record carried along: success = recorded or no work; a Delete is followed by the Store *)
  Lemma clause2 e o clk s :
    negb (N.eqb (result_code (fst (clean e o clk s))) 0) || stored_ok (rev (lg (snd (clean e o clk s)))) ||
    negb (has_kind does_work (rev (lg (snd (clean e o clk s))))) = true.
  Proof.
    destruct (N.eqb (result_code (fst (clean e o clk s))) 0) eqn:R0; [|reflexivity]. cbn [negb orb].
    assert (Er : fst (clean e o clk s) = RNil) by (destruct (fst (clean e o clk s)); try discriminate; reflexivity).
    destruct (clean_records e o clk s Er) as [H|H]; rewrite H; [reflexivity | apply orb_true_r].
  Qed.
  Lemma clause3 e o clk s :
    false || negb (has_kind (fun k => match k with KDelete => true | _ => false end) (rev (lg (snd (clean e o clk s))))) ||
    has_kind (fun k => match k with KStore => true | _ => false end) (rev (lg (snd (clean e o clk s)))) = true.
  Proof.
    cbn [orb].
    destruct (has_kind (fun k => match k with KDelete => true | _ => false end) (rev (lg (snd (clean e o clk s))))) eqn:D; [|reflexivity].
    cbn [negb orb]. exact (clean_delete_then_record e o clk s D).
  Qed.

  Lemma rec0_same s s' : lookup s' spec_last_clean = lookup s spec_last_clean -> rec0 s' = rec0 s.
  Proof. intros E. unfold rec0, file. rewrite E. reflexivity. Qed.

  Theorem seq2_runs_ok : runs_ok seq2_case (c_runs seq2_case) (rec0 (c_s0 seq2_case)) = true.
  Proof.
    cbn [c_runs c_s0 seq2_case runs_ok rr_tid rr_opts rr_t1 rr_t0 rr_res c_trace rr_kill].
    rewrite !proj_app, !proj_single, (proj_other 1%nat 0%nat) by discriminate.
    rewrite (proj_other 0%nat 1%nat) by discriminate. rewrite app_nil_r. cbn [app].
    repeat (apply andb_true_iff; split); try apply clause2; try apply clause3; try reflexivity.
    - (* first run: as for a single run *)
      destruct (rec0 s0) as [ts|] eqn:R; [|reflexivity].
      destruct ((0 <? interval o1) && (a1 - ts <? interval o1)) eqn:C; [|reflexivity].
      cbn [negb orb]. destruct (skip_when_recent e1 o1 clk1 s0 (rec0_recent o1 clk1 a0 a1 s0 H1 ts R C)) as [_ H].
      rewrite H. reflexivity.
    - (* second run: what the monitor carries along is a sound lower bound of the recorded time, or nothing *)
      rewrite stored_ok_rev, stored_any_rev.
      destruct (stored_ok (lg (snd r1))) eqn:So.
      + destruct ((0 <? interval o2) && (b1 - a0 <? interval o2)) eqn:C; [|reflexivity]. cbn [negb orb].
        destruct (stored_ok_written e1 clk1 o1 s0 So) as [i W].
        assert (Rc : forall j, recent o2 (clk2 j) s1 = true).
        { intros j. unfold recent, file. rewrite W. unfold written. cbn [as_clean].
          apply andb_true_iff in C. destruct C as [C1 C2]. rewrite C1. cbn [andb]. apply Z.ltb_lt in C2. apply Z.ltb_lt.
          pose proof (proj2 (H2 j)). pose proof (proj1 (H1 i)). lia. }
        destruct (skip_when_recent e2 o2 clk2 s1 Rc) as [_ H]. rewrite H. reflexivity.
      + destruct (stored_any (lg (snd r1))) eqn:Sa; [reflexivity|].
        pose proof (rec0_same s0 s1 (no_store_record_untouched e1 o1 clk1 s0 Sa)) as Er.
        destruct (rec0 s0) as [ts|] eqn:R; [|reflexivity].
        destruct ((0 <? interval o2) && (b1 - ts <? interval o2)) eqn:C; [|reflexivity].
        cbn [negb orb]. destruct (skip_when_recent e2 o2 clk2 s1 (rec0_recent o2 clk2 b0 b1 s1 H2 ts Er C)) as [_ H].
        rewrite H. reflexivity.
  Qed.
End TwoRuns.
