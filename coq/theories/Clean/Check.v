(** Correspondence for C18. A case = initial storage (every value classified by an independent
    reading), the cleanings that were run on it (options, fault plan, clock bracket [t0,t1],
    returned error class) in the order in which they got the lock, the merged call trace of all
    cleaners as recorded by the logging Storage wrapper, and the storage found afterwards.
    [model_ok]: replaying the runs on the model gives the same results, the same per-run call
    sequences and the same final storage. [spec_ok]: the property's clauses evaluated on the
    implementation's observation alone (model vocabulary, not the model's output). *)
From CM Require Import Lib.Str Lib.Wire Lib.CleanSyntax Gen.Consts Clean.Model Clean.Prog.
Open Scope Z_scope.

Record runrec := RunRec {
  rr_tid : nat; rr_opts : opts; rr_faults : list nat; rr_efaults : list nat; rr_cancel : option nat;
  rr_t0 : Z; rr_t1 : Z; rr_res : N;
  rr_fops : list (nat * fop);  (* foreign operations (another actor, no lock) just before call number n of the run *)
  rr_pfaults : list (nat * list key);  (* Deletes that took effect in part: call number, the covered keys that survived *)
  rr_kill : option nat         (* the cleaner's process was killed when this call began; its lock expired afterwards *)
}.
Record case := Case {
  c_lfe : bool; c_s0 : store; c_runs : list runrec; c_trace : list tev; c_s1 : store
}.

(** *** equality tests *)
Definition opt_eqb {A} (f : A -> A -> bool) (a b : option A) : bool :=
  match a, b with Some x, Some y => f x y | None, None => true | _, _ => false end.
Definition cls_eqb (a b : cls) : bool :=
  opt_eqb Z.eqb (as_cert a) (as_cert b) && opt_eqb Z.eqb (as_staple a) (as_staple b) &&
  opt_eqb (fun x y => (fst x =? fst y) && seqb (snd x) (snd y)) (as_clean a) (as_clean b).
Definition node_eqb (a b : node) : bool :=
  match a, b with
  | Dir, Dir => true
  | File v c, File v' c' => (v =? v') && cls_eqb c c'
  | _, _ => false
  end.
Definition file_eqb (a b : option (Z * cls)) : bool :=
  opt_eqb (fun x y => (fst x =? fst y) && cls_eqb (snd x) (snd y)) a b.
Definition opk_code (k : opk) : N :=
  match k with KLock => 0 | KUnlock => 1 | KLoad => 2 | KList => 3 | KStat => 4 | KDelete => 5 | KStore => 6 end%N.
Definition event_eqb (a b : event) : bool :=
  N.eqb (opk_code (ev_kind a)) (opk_code (ev_kind b)) && seqb (ev_key a) (ev_key b) && Bool.eqb (ev_ok a) (ev_ok b).
Fixpoint list_eqb {A} (f : A -> A -> bool) (a b : list A) : bool :=
  match a, b with
  | [], [] => true
  | x :: a', y :: b' => f x y && list_eqb f a' b'
  | _, _ => false
  end.

(** *** the model on a case *)
Definition env_of (c : case) (r : runrec) : env :=
  Env (rr_faults r) (rr_efaults r) (rr_cancel r) (c_lfe c) (rr_pfaults r) (rr_kill r).

(** replay the runs (clock = constantly t0 of each run: the harness skips cases whose outcome depends on
    where in [t0,t1] a reading fell); [None] as soon as a result or a call sequence differs *)
Fixpoint replay (c : case) (runs : list runrec) (s : store) : option store :=
  match runs with
  | [] => Some s
  | r :: rest =>
      let '(res, st') := match rr_fops r with
                         | [] => clean (env_of c r) (rr_opts r) (fun _ => rr_t0 r) s
                         | fs => cleani (env_of c r) fs (rr_opts r) (fun _ => rr_t0 r) s
                         end in
      if match rr_kill r with
         | Some n =>
             (* a killed run returns nothing; its calls are the first n of the model's run under [kill_at]
                (Kill.killed_is_model), which leaves the same storage *)
             list_eqb event_eqb (firstn n (rev (lg st'))) (proj (rr_tid r) (c_trace c))
         | None =>
             N.eqb (result_code res) (rr_res r) &&
             list_eqb event_eqb (rev (lg st')) (proj (rr_tid r) (c_trace c))
         end
      then replay c rest (sto st')
      else None
  end.

(** the observed value of a key the model wrote: fresh value, same instance id, time stamp
    within the clock bracket of the run whose (model) clock the model's value carries *)
Definition written_match (c : case) (m o : node) : bool :=
  match m, o with
  | File v cm, File v' co =>
      (v =? -1) && (v' =? -1) &&
      match as_clean cm, as_clean co, as_cert co, as_staple co with
      | Some (ts, i), Some (ts', i'), None, None =>
          seqb i i' &&
          existsb (fun r => (rr_t0 r =? ts) && (ts <=? ts') && (ts' <=? rr_t1 r)) (c_runs c)
      | _, _, _, _ => false
      end
  | _, _ => false
  end.
Definition store_match (c : case) (m o : store) : bool :=
  forallb (fun k =>
    match lookup m k, lookup o k with
    | None, None => true
    | Some a, Some b => node_eqb a b || written_match c a b
    | _, _ => false
    end) (map fst m ++ map fst o).

Definition model_ok (c : case) : bool :=
  match replay c (c_runs c) (c_s0 c) with
  | Some m => store_match c m (c_s1 c)
  | None => false
  end.

(** *** the specification on the implementation's observation *)

(** every difference between the storage before and after is allowed
    (written with [if] so that the justification is only computed for keys that changed) *)
Definition diff_ok (c : case) (k : key) : bool :=
  let s0 := c_s0 c in let s1 := c_s1 c in
  (* terminal keys *)
  (if file_eqb (file s0 k) (file s1 k) then true else
   match file s1 k with
   | None => existsb (fun r => justified (rr_opts r) (rr_t1 r) s0 k) (c_runs c)
   | Some (v, cl) =>
       seqb k spec_last_clean && (v =? -1) &&
       match as_clean cl with
       | Some (ts, i) =>
           existsb (fun r => (rr_t0 r <=? ts) && (ts <=? rr_t1 r) && seqb i (inst (rr_opts r)) &&
                             stored_any (proj (rr_tid r) (c_trace c))) (c_runs c)
       | None => false
       end
   end) &&
  (* directories: none appears, none turns into a file; one disappears only as an emptied site
     folder or as (or below) a justified key *)
  match lookup s0 k, lookup s1 k with
  | Some Dir, Some Dir => true
  | _, Some Dir => false
  | Some Dir, Some (File _ _) => false
  | Some Dir, None =>
      if site_folderb k && forallb (fun en => negb (under k (fst en))) s1 &&
         existsb (fun r => do_certs (rr_opts r)) (c_runs c) then true
      else existsb (fun r => justified (rr_opts r) (rr_t1 r) s0 k) (c_runs c)
  | _, _ => true
  end.

(** *** the same when other actors wrote during the cleaning. [s0f] = the initial storage with
    the foreign operations applied. A key touched by a foreign operation must end as that
    operation left it, unless its deletion is justified by what the storage then held; a key not
    touched is judged as before, a deletion being justified by the initial storage or by what
    the other actors put there (e.g. X.key of an expired X.crt that appeared meanwhile). *)
Definition all_fops (c : case) : list fop := flat_map (fun r => map snd (rr_fops r)) (c_runs c).
Definition s0f (c : case) : store := fold_left (fun s f => fapply f s) (all_fops c) (c_s0 c).
Definition touched (c : case) (k : key) : bool :=
  existsb (fun f => match f with FPut k' _ => seqb k' k | FDel k' => covers k' k end) (all_fops c).
(** several actors at several instants: the storage as the OTHER actors alone would have made it after each
    of their operations is S_0 = s0, S_1, .., S_n = sf. A deletion of k by a cleaner is justified by what one
    of these states held -- for a key the others touched: one of the states from the last such operation on
    (what a cleaner decided before that operation was overwritten by it; deleting afterwards on the strength of
    the older state is the check-then-delete window, tracked as a known finding) *)
Definition ftouches (k : key) (f : fop) : bool :=
  match f with FPut k' _ => seqb k' k | FDel k' => covers k' k end.
Fixpoint states_since_touch (k : key) (fs : list fop) (s : store) : list store :=
  let rest := match fs with [] => [] | f :: r => states_since_touch k r (fapply f s) end in
  if existsb (ftouches k) fs then rest else s :: rest.
(** ([sf] = [s0f c], computed once; [just] is a thunk: evaluation is call-by-value) *)
Definition diff_ok_f (c : case) (sf : store) (k : key) : bool :=
  let s1 := c_s1 c in
  let t := touched c k in
  let base := if t then sf else c_s0 c in
  let just := fun _ : unit =>
    existsb (fun st => existsb (fun r => justified (rr_opts r) (rr_t1 r) st k) (c_runs c))
            (states_since_touch k (all_fops c) (c_s0 c)) in
  (if file_eqb (file base k) (file s1 k) then true else
   match file s1 k with
   | None => just tt
   | Some (v, cl) =>
       seqb k spec_last_clean && (v =? -1) &&
       match as_clean cl with
       | Some (ts, i) =>
           existsb (fun r => (rr_t0 r <=? ts) && (ts <=? rr_t1 r) && seqb i (inst (rr_opts r)) &&
                             stored_any (proj (rr_tid r) (c_trace c))) (c_runs c)
       | None => false
       end
   end) &&
  match lookup base k, lookup s1 k with
  | Some Dir, Some Dir => true
  | _, Some Dir => false
  | Some Dir, Some (File _ _) => false
  | Some Dir, None =>
      if site_folderb k && forallb (fun en => negb (under k (fst en))) s1 &&
         existsb (fun r => do_certs (rr_opts r)) (c_runs c) then true
      else just tt
  | _, _ => true
  end.

(** per run, in lock order; [rec] = lower bound of the recorded time of the last cleaning *)
Fixpoint runs_ok (c : case) (runs : list runrec) (rec : option Z) : bool :=
  match runs with
  | [] => true
  | r :: rest =>
      let l := proj (rr_tid r) (c_trace c) in
      let o := rr_opts r in
      (* does nothing if a cleaning was recorded more recently than the interval *)
      (match rec with
       | Some ts => negb ((0 <? interval o) && (rr_t1 r - ts <? interval o)) || negb (has_kind does_work l)
       | None => true
       end) &&
      (* records when it ran: success = skipped or recorded; deletions are followed by the record *)
      (negb (N.eqb (rr_res r) 0) || stored_ok l || negb (has_kind does_work l)) &&
      (match rr_kill r with Some _ => true | None => false end ||
       negb (has_kind (fun k => match k with KDelete => true | _ => false end) l) ||
       has_kind (fun k => match k with KStore => true | _ => false end) l) &&
      (* a Store of the record that reported an error may or may not have taken effect: nothing is known of the
         record afterwards *)
      runs_ok c rest (if stored_ok l then Some (rr_t0 r) else if stored_any l then None else rec)
  end.

Definition rec0 (s0 : store) : option Z :=
  match file s0 spec_last_clean with
  | Some (_, cl) => match as_clean cl with Some (ts, _) => Some ts | None => None end
  | None => None
  end.

(** a killed cleaner never unlocks: its lock expires (FileStorage: the lock file goes stale and the next
    cleaner removes it, C08; the harness lets that happen before the next cleaner starts). For the lock
    discipline the expiry is an event after the last call of each killed run. *)
Fixpoint expire_after_last (t : nat) (tr : list tev) : list tev * bool :=
  match tr with
  | [] => ([], false)
  | x :: r =>
      let '(r', done) := expire_after_last t r in
      if done then (x :: r', true)
      else if Nat.eqb (te_tid x) t then (x :: TEv t (Ev KUnlock spec_lock false) :: r', true)
      else (x :: r', false)
  end.
Definition lock_trace (c : case) : list tev :=
  fold_left (fun tr r => match rr_kill r with Some _ => fst (expire_after_last (rr_tid r) tr) | None => tr end)
            (c_runs c) (c_trace c).

Definition spec_ok (c : case) : bool :=
  under_lock None (lock_trace c) &&
  match all_fops c with
  | [] => forallb (diff_ok c) (map fst (c_s0 c) ++ map fst (c_s1 c))
  | _ => let sf := s0f c in forallb (diff_ok_f c sf) (map fst (c_s0 c) ++ map fst sf ++ map fst (c_s1 c))
  end &&
  runs_ok c (c_runs c) (rec0 (c_s0 c)).

(** *** wire: keys and strings are packed (7 bytes per number); values are
    interned in a table (fresh = bytes that did not exist before the runs, model vid -1) *)
Fixpoint pos_bits (p : positive) : list bool :=
  match p with xH => [true] | xO q => false :: pos_bits q | xI q => true :: pos_bits q end.
Fixpoint take_bits (k : nat) (w : N) (b : list bool) : N * list bool :=
  match k with
  | O => (0%N, b)
  | S k' => match b with
            | [] => (0%N, [])
            | x :: r => let '(v, rest) := take_bits k' (2 * w)%N r in (((if x then w else 0) + v)%N, rest)
            end
  end.
Fixpoint unpack (n : nat) (b : list bool) : str :=
  match n with
  | O => []
  | S k => let '(v, r) := take_bits 8 1%N b in v :: unpack k r
  end.
(** a string = its length n, then ceil(n/7) numbers of 7 bytes each (little-endian) *)
Definition get_pstr : dec str :=
  n <- get_nat ;; zs <- get_items get_z ((n + 6) / 7) ;;
  ret (firstn n (flat_map (fun z => unpack 7 (match z with Zpos p => pos_bits p | _ => [] end)) zs)).
(** the key table: the distinct path components, then every key as the numbers of its components *)
Fixpoint join_sl (l : list str) : str :=
  match l with
  | [] => []
  | [x] => x
  | x :: r => x ++ c_sl :: join_sl r
  end.
Definition get_keytbl : dec (list str) :=
  comps <- get_list get_pstr ;; ks <- get_list (get_list get_nat) ;;
  ret (map (fun ix => join_sl (map (fun i => nth i comps []) ix)) ks).
Definition get_key (tbl : list str) : dec key := i <- get_nat ;; ret (nth i tbl []).
Definition get_cls : dec cls :=
  a <- get_opt get_z ;; b <- get_opt get_z ;; c <- get_opt (get_pair get_z get_pstr) ;; ret (Cls a b c).
Definition get_val : dec (bool * cls) := get_pair get_bool get_cls.
Definition get_node (vals : list (bool * cls)) : dec node :=
  v <- get_z ;;
  if v <? 0 then ret Dir else
  match nth_error vals (Z.to_nat v) with
  | Some (fresh, c) => ret (File (if fresh then -1 else v) c)
  | None => (fun _ => None)
  end.
(** node from its code: 0 = directory, v + 2 = value number v of the table *)
Definition node_of (vals : list (bool * cls)) (code : Z) : option node :=
  if code =? 0 then Some Dir else
  match nth_error vals (Z.to_nat (code - 2)) with
  | Some (fresh, c) => Some (File (if fresh then -1 else code - 2) c)
  | None => None
  end.
(** store entry = key index * 1000 + node code *)
Definition get_entry (tbl : list str) (vals : list (bool * cls)) : dec (key * node) :=
  p <- get_z ;;
  if (p <? 0) || (p mod 1000 =? 1) then (fun _ => None) else
  match node_of vals (p mod 1000) with
  | Some n => ret (nth (Z.to_nat (p / 1000)) tbl [], n)
  | None => (fun _ => None)
  end.
Definition get_store (tbl : list str) (vals : list (bool * cls)) : dec store :=
  get_list (get_entry tbl vals).
Definition get_opts : dec opts :=
  i <- get_z ;; a <- get_bool ;; b <- get_bool ;; g <- get_z ;; n <- get_pstr ;; ret (Opts i a b g n).
Definition get_run : dec runrec :=
  t <- get_nat ;; o <- get_opts ;; f <- get_list get_nat ;; ef <- get_list get_nat ;; c <- get_opt get_nat ;;
  t0 <- get_z ;; t1 <- get_z ;; r <- get_n ;; ret (RunRec t o f ef c t0 t1 r [] [] None).
(** foreign operation: call index, kind (0 Store, 1 Delete), key, node (Store only) *)
Definition get_fop (tbl : list str) (vals : list (bool * cls)) : dec (nat * fop) :=
  i <- get_nat ;; kd <- get_z ;; ky <- get_key tbl ;;
  if kd =? 0 then n <- get_node vals ;; ret (i, FPut ky n) else ret (i, FDel ky).
Definition with_fops (r : runrec) (fs : list (nat * fop)) (pf : list (nat * list key)) (kl : option nat) : runrec :=
  RunRec (rr_tid r) (rr_opts r) (rr_faults r) (rr_efaults r) (rr_cancel r) (rr_t0 r) (rr_t1 r) (rr_res r) fs pf kl.
Definition get_run_f (tbl : list str) (vals : list (bool * cls)) : dec runrec :=
  r <- get_run ;; fs <- get_list (get_fop tbl vals) ;;
  pf <- get_list (get_pair get_nat (get_list (get_key tbl))) ;; kl <- get_opt get_nat ;;
  ret (with_fops r fs pf kl).
Definition opk_of (n : Z) : option opk :=
  match n with
  | 0 => Some KLock | 1 => Some KUnlock | 2 => Some KLoad | 3 => Some KList
  | 4 => Some KStat | 5 => Some KDelete | 6 => Some KStore | _ => None
  end.
(** event = (tid * 16 + kind * 2 + ok) * 1000 + key index *)
Definition get_tev (tbl : list str) : dec tev :=
  q <- get_z ;;
  let p := q / 1000 in let ky := nth (Z.to_nat (q mod 1000)) tbl [] in
  if q <? 0 then (fun _ => None) else
  match opk_of ((p / 2) mod 8) with
  | Some op => ret (TEv (Z.to_nat (p / 16)) (Ev op ky (negb (p mod 2 =? 0))))
  | None => (fun _ => None)
  end.
Definition get_case : dec case :=
  tbl <- get_keytbl ;; vals <- get_list get_val ;; l <- get_bool ;;
  s0 <- get_store tbl vals ;; rs <- get_list (get_run_f tbl vals) ;;
  tr <- get_list (get_tev tbl) ;; s1 <- get_store tbl vals ;; ret (Case l s0 rs tr s1).

Definition check_line (l : list Z) : Z :=
  match decode get_case l with
  | Some c => code (model_ok c) (spec_ok c)
  | None => code_decode_error
  end.

(** diagnostics: per run the model's result code and call sequence (kind, length of key, ok),
    then 1/0 for each clause of [spec_ok] *)
Fixpoint explain_runs (c : case) (runs : list runrec) (s : store) : list Z :=
  match runs with
  | [] => []
  | r :: rest =>
      let '(res, st') := cleani (env_of c r) (rr_fops r) (rr_opts r) (fun _ => rr_t0 r) s in
      (-1) :: Z.of_N (result_code res) ::
      flat_map (fun ev => [Z.of_N (opk_code (ev_kind ev)); Z.of_nat (length (ev_key ev)); if ev_ok ev then 1 else 0]) (rev (lg st'))
      ++ explain_runs c rest (sto st')
  end.
Definition explain_line (l : list Z) : list Z :=
  match decode get_case l with
  | Some c =>
      explain_runs c (c_runs c) (c_s0 c) ++
      [-2; if under_lock None (lock_trace c) then 1 else 0;
       if match all_fops c with
          | [] => forallb (diff_ok c) (map fst (c_s0 c) ++ map fst (c_s1 c))
          | _ => let sf := s0f c in forallb (diff_ok_f c sf) (map fst (c_s0 c) ++ map fst sf ++ map fst (c_s1 c))
          end then 1 else 0;
       if runs_ok c (c_runs c) (rec0 (c_s0 c)) then 1 else 0]
  | None => []
  end.
