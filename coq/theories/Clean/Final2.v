(** C18 — final round, second part: the per-run clauses of the monitor ([runs_ok]) on the model's observation of a
    cleaning WITH foreign operations. Whatever the others do: a run that deletes goes on to store the record, and a run
    that returns nil has stored it or done no work (every path through the work ends in the Store of the record). *)
From CM Require Import Lib.Str Lib.Wire Lib.CleanSyntax Gen.Consts Clean.Model Clean.Proofs Clean.Prog Clean.Check Clean.SpecProofs Clean.Concurrent Clean.Effective Clean.Interfere Clean.EffectiveCerts Clean.Kill Clean.Final.
From Coq Require Import Lia.
Open Scope Z_scope.

Section RunsOkInterference.
  Variables (e : env) (clk : nat -> Z) (fs : list (nat * fop)).

  (** every complete run of p stores the record; if it returns nil the Store succeeded *)
  Definition Good (p : prog) : Prop := forall s,
    stored_any (lg (snd (runi e clk fs p s))) = true /\
    (fst (runi e clk fs p s) = RNil -> stored_ok (lg (snd (runi e clk fs p s))) = true).

  Lemma good_do a k : (forall x, Good (k x)) -> Good (Do a k).
  Proof.
    intros H s. cbn [runi]. destruct (exec e clk a (if logs a then interfere fs s else s)) as [x s1]. apply H.
  Qed.

  Lemma good_record o : Good (record_prog o).
  Proof.
    intros s. unfold record_prog. cbn [runi logs exec].
    destruct consts_ok as (_ & _ & _ & _ & _ & _ & _ & Ek & _). rewrite Ek.
    set (s' := interfere fs s). unfold do_store.
    destruct (faulty e s'); [|destruct (is_dir (sto s') spec_last_clean); [|destruct (efaulty e s')]];
      cbn [runi fst snd lg logged stored_any stored_ok existsb ev_kind ev_key ev_ok];
      rewrite seqb_refl; cbn [orb andb]; (split; [reflexivity | intros H; first [discriminate H | reflexivity]]).
  Qed.

  Lemma good_staples kont : Good kont -> forall ks, Good (staples_prog ks kont).
  Proof.
    intros HK. induction ks as [|k r IH]; cbn [staples_prog]; [exact HK|].
    apply good_do. intros c. destruct c as [| | |[|]|]; try exact HK.
    apply good_do. intros x. destruct x as [[v c| |]| | | |]; try exact IH.
    apply good_do. intros t. destruct t as [| | | |now]; try exact IH.
    destruct (stale_staple now c); [|exact IH]. apply good_do. intros _. exact IH.
  Qed.
  Lemma good_related base kont : Good kont -> forall sufs, Good (related_prog base sufs kont).
  Proof.
    intros HK. induction sufs as [|x r IH]; cbn [related_prog]; [exact HK|]. apply good_do. intros _. exact IH.
  Qed.
  Lemma good_assets gr kont : (forall b, Good (kont b)) -> forall assets, Good (assets_prog gr assets kont).
  Proof.
    intros HK. induction assets as [|a r IH]; cbn [assets_prog]; [apply HK|].
    destruct (negb (seqb (path_ext a) clean_ext_crt)); [exact IH|].
    apply good_do. intros x. destruct x as [[v c| |]| | | |]; try apply HK.
    destruct (as_cert c); [|apply HK].
    apply good_do. intros t. destruct t as [| | | |now]; try apply HK.
    destruct (expired_cert now gr c); [|exact IH].
    apply good_do. intros _. apply good_related. exact IH.
  Qed.
  Lemma good_sites gr kont : (forall b, Good (kont b)) -> forall sites, Good (sites_prog gr sites kont).
  Proof.
    intros HK. induction sites as [|sk r IH]; cbn [sites_prog]; [apply HK|].
    apply good_do. intros c. destruct c as [| | |[|]|]; try apply HK.
    apply good_do. intros x. destruct x as [|[assets|]| | |]; try exact IH.
    apply good_assets. intros ab. destruct ab; [apply HK|].
    apply good_do. intros y. destruct y as [|[[|y0 ys]|]| | |]; try exact IH.
    apply good_do. intros z. destruct z as [| |[| |]| |]; try exact IH.
    apply good_do. intros d. destruct d as [| | |[|]|]; try apply HK. exact IH.
  Qed.
  Lemma good_issuers gr kont : (forall b, Good (kont b)) -> forall iss, Good (issuers_prog gr iss kont).
  Proof.
    intros HK. induction iss as [|ik r IH]; cbn [issuers_prog]; [apply HK|].
    apply good_do. intros x. destruct x as [|[sites|]| | |]; try exact IH.
    apply good_sites. intros ab. destruct ab; [apply HK | exact IH].
  Qed.
  Lemma good_work o : Good (work_prog o).
  Proof.
    unfold work_prog. cbv zeta.
    assert (P2 : Good (if do_certs o then expired_certs_prog (grace o) (record_prog o) else record_prog o)).
    { destruct (do_certs o); [|apply good_record]. unfold expired_certs_prog. apply good_do.
      intros x. destruct x as [|[iss|]| | |]; try apply good_record.
      apply good_issuers. intros _. apply good_record. }
    destruct (do_ocsp o); [|exact P2]. unfold old_staples_prog. apply good_do.
    intros x. destruct x as [|[ks|]| | |]; try exact P2. apply good_staples. exact P2.
  Qed.

  (** from a state whose log shows no work: the run stores the record (and succeeded in it if it returns nil), or does no work *)
  Definition Top (p : prog) : Prop := forall s, has_kind does_work (lg s) = false ->
    (stored_any (lg (snd (runi e clk fs p s))) = true /\
     (fst (runi e clk fs p s) = RNil -> stored_ok (lg (snd (runi e clk fs p s))) = true)) \/
    has_kind does_work (lg (snd (runi e clk fs p s))) = false.
  Lemma top_good p : Good p -> Top p.
  Proof. intros H s _. left. apply H. Qed.
  Lemma top_done r : Top (Done r).
  Proof. intros s H. right. exact H. Qed.
  Lemma top_load key k : (forall x, Top (k x)) -> Top (Do (ALoad key) k).
  Proof.
    intros H s Hs. cbn [runi logs exec]. set (s' := interfere fs s).
    assert (Hs' : has_kind does_work (lg s') = false) by exact Hs.
    destruct (do_load e key s') as [res s1] eqn:D. apply H.
    unfold do_load in D. destruct (faulty e s'); [|destruct (lookup (sto s') key) as [[v c|]|]; try destruct (is_dir (sto s') key)];
      injection D; intros <- _; cbn [lg logged has_kind existsb ev_kind does_work orb]; exact Hs'.
  Qed.
  Lemma top_now k : (forall x, Top (k x)) -> Top (Do ANow k).
  Proof. intros H s Hs. cbn [runi logs exec]. apply H. exact Hs. Qed.
  Lemma top_clean_locked o : Top (clean_locked_prog o).
  Proof.
    unfold clean_locked_prog. destruct (0 <? interval o); [|apply top_good, good_work].
    apply top_load. intros x. destruct x as [[v c| |]| | | |]; try apply top_done; [|apply top_good, good_work].
    destruct (as_clean c) as [[ts i]|]; [|apply top_done].
    apply top_now. intros t. destruct t as [| | | |now]; try apply top_done.
    destruct (cmp_holds clean_interval_cmp (now - ts) (interval o)); [apply top_done | apply top_good, good_work].
  Qed.
End RunsOkInterference.

Lemma stored_any_has_store l : stored_any l = true -> has_kind (fun k => match k with KStore => true | _ => false end) l = true.
Proof.
  unfold stored_any, has_kind. intros H. apply existsb_exists in H. destruct H as [x [Hin Hx]].
  apply existsb_exists. exists x. split; [exact Hin|]. destruct (ev_kind x); try discriminate; reflexivity.
Qed.
Lemma nowork_nodelete l : has_kind does_work l = false -> has_kind (fun k => match k with KDelete => true | _ => false end) l = false.
Proof.
  unfold has_kind. intros H.
  destruct (existsb (fun ev => match ev_kind ev with KDelete => true | _ => false end) l) eqn:E; [|reflexivity].
  apply existsb_exists in E. destruct E as [x [Hin Hx]].
  assert (X : existsb (fun ev => does_work (ev_kind ev)) l = true).
  { apply existsb_exists. exists x. split; [exact Hin|]. destruct (ev_kind x); try discriminate; reflexivity. }
  congruence.
Qed.

(** the per-run clauses on the model's observation of a cleaning with foreign operations, when no earlier record makes it
    skip (the skip itself needs the record not to be replaced by the others before it is read) *)
Theorem interference_runs_ok e fs o clk t0 t1 s0 t :
  (forall ts, rec0 s0 = Some ts -> (0 <? interval o) && (t1 - ts <? interval o) = false) ->
  runs_ok (model_case_i e fs o clk t0 t1 s0 t) (c_runs (model_case_i e fs o clk t0 t1 s0 t)) (rec0 s0) = true.
Proof.
  intros Hrec.
  cbn [c_runs model_case_i runs_ok rr_tid rr_opts rr_t1 rr_res c_trace rr_kill orb]. rewrite proj_single, andb_true_r.
  assert (C1 : match rec0 s0 with
               | Some ts => negb ((0 <? interval o) && (t1 - ts <? interval o)) ||
                            negb (has_kind does_work (rev (lg (snd (cleani e fs o clk s0)))))
               | None => true end = true).
  { destruct (rec0 s0) as [ts|] eqn:R; [|reflexivity]. rewrite (Hrec ts eq_refl). reflexivity. }
  rewrite C1. cbn [andb]. rewrite !has_kind_rev, stored_ok_rev.
  unfold cleani, do_lock. destruct (faulty e (St s0 [])).
  - cbn [fst snd lg logged result_code N.eqb negb orb has_kind existsb ev_kind does_work andb]. reflexivity.
  - cbn [logged].
    match goal with |- context [runi e clk fs ?p ?sx] =>
      destruct (top_clean_locked e clk fs o sx eq_refl) as [[Ha Hn]|Hw];
      destruct (runi e clk fs p sx) as [r s2] end; cbn [fst snd] in *; unfold do_unlock; cbn [lg logged].
    + unfold stored_ok, has_kind in *. cbn [existsb ev_kind ev_ok does_work orb andb].
      apply stored_any_has_store in Ha. unfold has_kind in Ha. rewrite Ha. rewrite orb_true_r. rewrite andb_true_r.
      destruct r; cbn [result_code N.eqb negb orb]; try reflexivity. rewrite (Hn eq_refl). reflexivity.
    + pose proof (nowork_nodelete _ Hw) as Nd. unfold stored_ok, has_kind in *. cbn [existsb ev_kind ev_ok does_work orb andb].
      rewrite Hw, Nd. cbn [negb orb]. rewrite !orb_true_r. reflexivity.
Qed.

(** the skip under interference: if the others leave last_clean.json alone, a record more recent than the interval (or dated
    in the future) makes the cleaner do no work, whatever else they do meanwhile *)
Lemma interference_recent_no_work e fs o clk t1 s0 ts :
  (forall i, clk i <= t1) -> (forall i f, In (i, f) fs -> touches spec_last_clean f = false) ->
  rec0 s0 = Some ts -> (0 <? interval o) && (t1 - ts <? interval o) = true ->
  has_kind does_work (lg (snd (cleani e fs o clk s0))) = false.
Proof.
  intros Hclk Hfs R C. apply andb_true_iff in C. destruct C as [Ci Ct]. apply Z.ltb_lt in Ct.
  unfold rec0 in R. destruct (file s0 spec_last_clean) as [[v c]|] eqn:Hf; [|discriminate].
  destruct (as_clean c) as [[ts' i0]|] eqn:Ac; [|discriminate]. injection R; intros ->.
  assert (Hl : lookup s0 spec_last_clean = Some (File v c)).
  { unfold file in Hf. destruct (lookup s0 spec_last_clean) as [[v' c'|]|]; try discriminate. injection Hf; intros -> ->. reflexivity. }
  destruct consts_ok as (_ & _ & _ & _ & Ei & _ & _ & Ek & _).
  unfold cleani, do_lock. destruct (faulty e (St s0 [])); [reflexivity|]. cbn [logged sto lg].
  unfold clean_locked_prog. rewrite Ci, Ek. cbn [runi logs exec].
  set (s1 := interfere fs _).
  assert (L1 : lookup (sto s1) spec_last_clean = Some (File v c)).
  { subst s1. unfold interfere. cbn [sto lg]. rewrite apply_at_frame by exact Hfs. exact Hl. }
  assert (G1 : lg s1 = [Ev KLock clean_lock_name true]) by reflexivity.
  unfold do_load. destruct (faulty e s1).
  - cbn [runi fst snd]. unfold do_unlock. cbn [lg logged]. rewrite G1. reflexivity.
  - rewrite L1. cbn [runi logs exec]. rewrite Ac. cbn [runi logs exec]. rewrite Ei. cbn [cmp_holds].
    match goal with |- context [rd clk ?sx - ts <? interval o] =>
      replace (rd clk sx - ts <? interval o) with true
        by (symmetry; apply Z.ltb_lt; unfold rd; pose proof (Hclk (length (lg sx))); lia) end.
    cbn [runi fst snd]. unfold do_unlock. cbn [lg logged]. rewrite G1. reflexivity.
Qed.

Theorem interference_runs_ok_untouched_record e fs o clk t0 t1 s0 t :
  (forall i, clk i <= t1) -> (forall i f, In (i, f) fs -> touches spec_last_clean f = false) ->
  runs_ok (model_case_i e fs o clk t0 t1 s0 t) (c_runs (model_case_i e fs o clk t0 t1 s0 t)) (rec0 s0) = true.
Proof.
  intros Hclk Hfs.
  destruct (rec0 s0) as [ts|] eqn:R.
  2:{ rewrite <- R. apply interference_runs_ok. intros ts R'. congruence. }
  destruct ((0 <? interval o) && (t1 - ts <? interval o)) eqn:C.
  2:{ rewrite <- R. apply interference_runs_ok. intros ts' R'. rewrite R in R'. injection R'; intros <-. exact C. }
  pose proof (interference_recent_no_work e fs o clk t1 s0 ts Hclk Hfs R C) as Hw.
  cbn [c_runs model_case_i runs_ok rr_tid rr_opts rr_t1 rr_res c_trace rr_kill orb]. rewrite proj_single, andb_true_r.
  rewrite !has_kind_rev, Hw, (nowork_nodelete _ Hw). cbn [negb orb andb]. rewrite !orb_true_r. reflexivity.
Qed.

(** hence: on the model's observation of a cleaning with foreign operations that leave last_clean.json alone, the monitor's
    verdict IS its difference clause -- the only clause the model can fail under interference is [diff_ok_f] on a key inside
    the cleaned namespaces that another actor wrote (the check-then-delete window, C18_foreign_writer_refuted) *)
Theorem interference_spec_ok_is_diff e fs o clk t0 t1 s0 t :
  (forall i, clk i <= t1) -> (forall i f, In (i, f) fs -> touches spec_last_clean f = false) ->
  let c := model_case_i e fs o clk t0 t1 s0 t in
  spec_ok c =
  match all_fops c with
  | [] => forallb (diff_ok c) (map fst (c_s0 c) ++ map fst (c_s1 c))
  | _ => forallb (diff_ok_f c (s0f c)) (map fst (c_s0 c) ++ map fst (s0f c) ++ map fst (c_s1 c))
  end.
Proof.
  intros Hclk Hfs c. unfold spec_ok. subst c.
  rewrite interference_lock_discipline.
  change (c_s0 (model_case_i e fs o clk t0 t1 s0 t)) with s0 at 1.
  cbn [andb].
  replace (runs_ok (model_case_i e fs o clk t0 t1 s0 t) (c_runs (model_case_i e fs o clk t0 t1 s0 t))
             (rec0 (c_s0 (model_case_i e fs o clk t0 t1 s0 t)))) with true
    by (symmetry; exact (interference_runs_ok_untouched_record e fs o clk t0 t1 s0 t Hclk Hfs)).
  apply andb_true_r.
Qed.
