(** C18 — executable model of storage cleaning: [CleanStorage], [deleteOldOCSPStaples],
    [deleteExpiredCerts] (maintain.go), over an abstract key tree.

    Storage = association list from keys (slash-separated strings) to nodes. A [File] carries
    the identity of its bytes ([vid]) and an independent reading of the bytes by the three
    parsers the code applies ([cls]); a [Dir] node is an explicitly existing directory (the
    FileStorage back-end keeps directories when their last file goes; the in-memory double has no
    [Dir] nodes, directories are implied by the keys below them).

    The code is modelled statement by statement as a state-passing program over
    [st = (store, log)]; every Storage/Locker call appends one [event] to the log and may be
    made to fail by the fault plan of the environment ([faults] = indices of failing calls);
    [cancel_at] = index of the call at whose beginning the context is cancelled. Executable
    definitions only. *)
From CM Require Import Lib.Str Lib.CleanSyntax Gen.Consts.
Open Scope Z_scope.

Definition c_sl : N := 47%N.
Definition key := str.

(** boolean equality of strings (computes fast under vm_compute, unlike [Str.seqb]) *)
Fixpoint seqb (a b : str) : bool :=
  match a, b with
  | [], [] => true
  | x :: a', y :: b' => N.eqb x y && seqb a' b'
  | _, _ => false
  end.

(** what the three readers see in a value *)
Record cls := Cls {
  as_cert : option Z;          (* pem.Decode + x509.ParseCertificate ok: NotAfter, Unix ns *)
  as_staple : option Z;        (* ocsp.ParseResponse ok: NextUpdate, Unix ns *)
  as_clean : option (Z * str)  (* JSON decodes as lastCleanPayload: ["tls"].Timestamp, InstanceID *)
}.
Inductive node := File (vid : Z) (c : cls) | Dir.
Definition store := list (key * node).

Fixpoint lookup (s : store) (k : key) : option node :=
  match s with
  | [] => None
  | (k', n) :: r => if seqb k' k then Some n else lookup r k
  end.
(** terminal keys only *)
Definition file (s : store) (k : key) : option (Z * cls) :=
  match lookup s k with Some (File v c) => Some (v, c) | _ => None end.

(** [under k k']: k' lies strictly below k *)
Definition under (k k' : key) : bool := has_prefix (k ++ [c_sl]) k'.
Definition covers (k k' : key) : bool := seqb k k' || under k k'.
(** Delete(k): os.RemoveAll / prefix delete *)
Definition remove (k : key) (s : store) : store :=
  filter (fun e => negb (covers k (fst e))) s.
(** a Delete(k) that fails half-way: everything k covers goes, except the keys of [keep] *)
Definition memk (k : key) (l : list key) : bool := existsb (seqb k) l.
Definition removep (k : key) (keep : list key) (s : store) : store :=
  filter (fun e => negb (covers k (fst e)) || memk (fst e) keep) s.
(** Store(k, n) of a terminal key *)
Definition put (k : key) (n : node) (s : store) : store :=
  (k, n) :: filter (fun e => negb (seqb (fst e) k)) s.

Definition mem (x : N) (s : str) : bool := existsb (N.eqb x) s.
Fixpoint take_comp (s : str) : str :=
  match s with
  | [] => []
  | c :: r => if N.eqb c c_sl then [] else c :: take_comp r
  end.

Fixpoint str_cmp (a b : str) : comparison :=
  match a, b with
  | [], [] => Eq
  | [], _ :: _ => Lt
  | _ :: _, [] => Gt
  | x :: a', y :: b' => match N.compare x y with Eq => str_cmp a' b' | c => c end
  end.
Fixpoint insert (x : str) (l : list str) : list str :=
  match l with
  | [] => [x]
  | y :: r => match str_cmp x y with Lt => x :: l | Eq => l | Gt => y :: insert x r end
  end.
Definition sort_dedup (l : list str) : list str := fold_right insert [] l.

(** names of the entries directly below k (first component of everything below k) *)
Fixpoint comps_below (k : key) (s : store) : list str :=
  match s with
  | [] => []
  | (k', _) :: r =>
      match strip_prefix (k ++ [c_sl]) k' with
      | Some rest => take_comp rest :: comps_below k r
      | None => comps_below k r
      end
  end.
Definition children (s : store) (k : key) : list key :=
  map (fun c => k ++ c_sl :: c) (sort_dedup (comps_below k s)).

(** path.Ext: from the last dot of the last slash-separated element *)
Fixpoint ext_scan (r acc : str) : str :=
  match r with
  | [] => []
  | c :: r' => if N.eqb c c_sl then [] else if N.eqb c c_dot then c :: acc else ext_scan r' (c :: acc)
  end.
Definition path_ext (p : str) : str := ext_scan (rev p) [].
(** strings.TrimSuffix *)
Definition trim_suffix (suf s : str) : str :=
  match strip_prefix (rev suf) (rev s) with Some r => rev r | None => s end.

(** environment of one run *)
Record env := Env {
  faults : list nat;        (* indices (in the run's call sequence) of calls that fail without effect *)
  efaults : list nat;       (* indices of calls that TAKE EFFECT and report an error (a time-out after the
                               back-end did the work); only Delete and Store have an effect to take *)
  cancel_at : option nat;   (* ctx is cancelled when this call begins *)
  lfe : bool;               (* List of a terminal key: empty listing (FileStorage) or error *)
  pfaults : list (nat * list key);
                            (* calls that take effect IN PART and report an error: a Delete (os.RemoveAll) that
                               removes what it covers except the listed keys, then fails *)
  kill_at : option nat      (* the cleaner's process dies when this call begins: this call and all later
                               ones have no effect (as far as the storage is concerned a dead process and one
                               all of whose calls fail are the same; [Kill.v] relates this to the run that
                               simply stops, without Unlock) *)
}.
Record opts := Opts {
  interval : Z; do_ocsp : bool; do_certs : bool; grace : Z; inst : str
}.

Inductive opk := KLock | KUnlock | KLoad | KList | KStat | KDelete | KStore.
Record event := Ev { ev_kind : opk; ev_key : key; ev_ok : bool }.
Record st := St { sto : store; lg : list event (* newest first *) }.

Definition dead (e : env) (s : st) : bool :=
  match kill_at e with Some n => (n <=? length (lg s))%nat | None => false end.
Definition faulty (e : env) (s : st) : bool := existsb (Nat.eqb (length (lg s))) (faults e) || dead e s.
Fixpoint assoc_nat {A} (i : nat) (l : list (nat * A)) : option A :=
  match l with
  | [] => None
  | (j, x) :: r => if Nat.eqb j i then Some x else assoc_nat i r
  end.
Definition pfaulty (e : env) (s : st) : option (list key) := assoc_nat (length (lg s)) (pfaults e).
Definition efaulty (e : env) (s : st) : bool := existsb (Nat.eqb (length (lg s))) (efaults e).
Definition cancelled (e : env) (s : st) : bool :=
  match cancel_at e with Some c => (c <? length (lg s))%nat | None => false end.
Definition logged (k : opk) (ky : key) (ok : bool) (sto' : store) (s : st) : st :=
  St sto' (Ev k ky ok :: lg s).

Definition is_dir (s : store) (k : key) : bool :=
  match lookup s k with
  | Some Dir => true
  | Some (File _ _) => false
  | None => match comps_below k s with [] => false | _ => true end
  end.

Inductive load_res := LOk (v : Z) (c : cls) | LNotExist | LErr.
Definition do_load (e : env) (k : key) (s : st) : load_res * st :=
  if faulty e s then (LErr, logged KLoad k false (sto s) s) else
  match lookup (sto s) k with
  | Some (File v c) => (LOk v c, logged KLoad k true (sto s) s)
  | _ => if is_dir (sto s) k then (LErr, logged KLoad k false (sto s) s)
         else (LNotExist, logged KLoad k false (sto s) s)
  end.

Definition list_pure (l : bool) (s : store) (k : key) : option (list key) :=
  match lookup s k with
  | Some (File _ _) => if l then Some [] else None
  | Some Dir => Some (children s k)
  | None => match children s k with [] => None | l => Some l end
  end.
Definition do_list (e : env) (k : key) (s : st) : option (list key) * st :=
  if faulty e s then (None, logged KList k false (sto s) s) else
  let r := list_pure (lfe e) (sto s) k in
  (r, logged KList k (match r with Some _ => true | None => false end) (sto s) s).

Inductive stat_res := StatFile | StatDir | StatErr.
Definition stat_pure (s : store) (k : key) : stat_res :=
  match lookup s k with
  | Some (File _ _) => StatFile
  | _ => if is_dir s k then StatDir else StatErr
  end.
Definition do_stat (e : env) (k : key) (s : st) : stat_res * st :=
  if faulty e s then (StatErr, logged KStat k false (sto s) s) else
  let r := stat_pure (sto s) k in
  (r, logged KStat k (match r with StatErr => false | _ => true end) (sto s) s).

Definition do_delete (e : env) (k : key) (s : st) : bool * st :=
  if faulty e s then (false, logged KDelete k false (sto s) s)
  else match pfaulty e s with
       | Some keep => (false, logged KDelete k false (removep k keep (sto s)) s)
       | None =>
           if efaulty e s then (false, logged KDelete k false (remove k (sto s)) s)
           else (true, logged KDelete k true (remove k (sto s)) s)
       end.

(** Store of a terminal key; fails on an existing directory (rename over a directory) *)
Definition do_store (e : env) (k : key) (n : node) (s : st) : bool * st :=
  if faulty e s then (false, logged KStore k false (sto s) s) else
  if is_dir (sto s) k then (false, logged KStore k false (sto s) s)
  else if efaulty e s then (false, logged KStore k false (put k n (sto s)) s)
  else (true, logged KStore k true (put k n (sto s)) s).

Definition do_lock (e : env) (s : st) : bool * st :=
  if faulty e s then (false, logged KLock clean_lock_name false (sto s) s)
  else (true, logged KLock clean_lock_name true (sto s) s).
Definition do_unlock (e : env) (s : st) : st :=
  logged KUnlock clean_lock_name (negb (faulty e s)) (sto s) s.

(** *** times *)
Definition second : Z := 1000000000.
(** expiresAt: NotAfter.Truncate(time.Second).Add(1 * time.Second) *)
Definition expires_at (not_after : Z) : Z := not_after / second * second + second.
(** time.Since(expiresAt(cert)) >= gracePeriod *)
Definition expired_cert (now gr : Z) (c : cls) : bool :=
  match as_cert c with Some na => cmp_holds clean_grace_cmp (now - expires_at na) gr | None => false end.
(** unparseable, or time.Now().After(resp.NextUpdate) *)
Definition stale_staple (now : Z) (c : cls) : bool :=
  match as_staple c with Some nu => cmp_holds clean_staple_cmp now nu | None => true end.

(** *** the clock. The code reads the clock several times during a run (time.Since for the interval
    check, time.Now / time.Since for every staple and certificate it judges, time.Now for the record).
    [clk i] = what the clock shows when the run has made i Storage/Locker calls; a reading taken in
    state s is [rd clk s]. Nothing is assumed about [clk] (not even monotonicity). *)
Definition rd (clk : nat -> Z) (s : st) : Z := clk (length (lg s)).

(** *** deleteOldOCSPStaples *)
Fixpoint staples_loop (e : env) (clk : nat -> Z) (ks : list key) (s : st) : st :=
  match ks with
  | [] => s
  | k :: r =>
      if cancelled e s then s else
      let '(res, s1) := do_load e k s in
      match res with
      | LOk _ c =>
          if stale_staple (rd clk s1) c
          then let '(_, s2) := do_delete e k s1 in staples_loop e clk r s2
          else staples_loop e clk r s1
      | _ => staples_loop e clk r s1
      end
  end.
Definition delete_old_staples (e : env) (clk : nat -> Z) (s : st) : st :=
  let '(res, s1) := do_list e prefix_ocsp s in
  match res with
  | None => s1
  | Some ks => staples_loop e clk ks s1
  end.

(** *** deleteExpiredCerts; the boolean is "returned an error" (stops the whole function) *)
Fixpoint delete_related (e : env) (base : key) (sufs : list str) (s : st) : st :=
  match sufs with
  | [] => s
  | x :: r => let '(_, s1) := do_delete e (base ++ x) s in delete_related e base r s1
  end.

Fixpoint assets_loop (e : env) (clk : nat -> Z) (gr : Z) (assets : list key) (s : st) : bool * st :=
  match assets with
  | [] => (false, s)
  | a :: r =>
      if negb (seqb (path_ext a) clean_ext_crt) then assets_loop e clk gr r s else
      let '(res, s1) := do_load e a s in
      match res with
      | LOk _ c =>
          match as_cert c with
          | None => (true, s1)
          | Some _ =>
              if expired_cert (rd clk s1) gr c then
                let base := trim_suffix clean_trim_suffix a in
                let '(_, s2) := do_delete e a s1 in
                assets_loop e clk gr r (delete_related e base clean_related_suffixes s2)
              else assets_loop e clk gr r s1
          end
      | _ => (true, s1)
      end
  end.

Fixpoint sites_loop (e : env) (clk : nat -> Z) (gr : Z) (sites : list key) (s : st) : bool * st :=
  match sites with
  | [] => (false, s)
  | sk :: r =>
      if cancelled e s then (true, s) else
      let '(res, s1) := do_list e sk s in
      match res with
      | None => sites_loop e clk gr r s1
      | Some assets =>
          let '(ab, s2) := assets_loop e clk gr assets s1 in
          if ab then (true, s2) else
          let '(res2, s3) := do_list e sk s2 in
          match res2 with
          | Some [] =>
              let '(sr, s4) := do_stat e sk s3 in
              match sr with
              | StatDir =>
                  let '(ok, s5) := do_delete e sk s4 in
                  if ok then sites_loop e clk gr r s5 else (true, s5)
              | _ => sites_loop e clk gr r s4
              end
          | _ => sites_loop e clk gr r s3
          end
      end
  end.

Fixpoint issuers_loop (e : env) (clk : nat -> Z) (gr : Z) (iss : list key) (s : st) : bool * st :=
  match iss with
  | [] => (false, s)
  | ik :: r =>
      let '(res, s1) := do_list e ik s in
      match res with
      | None => issuers_loop e clk gr r s1
      | Some sites =>
          let '(ab, s2) := sites_loop e clk gr sites s1 in
          if ab then (true, s2) else issuers_loop e clk gr r s2
      end
  end.

Definition delete_expired_certs (e : env) (clk : nat -> Z) (gr : Z) (s : st) : bool * st :=
  let '(res, s1) := do_list e prefix_certs s in
  match res with
  | None => (false, s1)
  | Some iss => issuers_loop e clk gr iss s1
  end.

(** *** CleanStorage *)
Inductive result := RNil | RErrLock | RErrLoad | RErrDecode | RErrStore.
Definition result_code (r : result) : N :=
  match r with RNil => 0 | RErrLock => 1 | RErrLoad => 2 | RErrDecode => 3 | RErrStore => 4 end%N.

Inductive ires := IProceed | ISkip | IAbort (r : result).
Definition interval_check (e : env) (o : opts) (clk : nat -> Z) (s : st) : ires * st :=
  if 0 <? interval o then
    let '(res, s1) := do_load e clean_storage_key s in
    match res with
    | LNotExist => (IProceed, s1)
    | LErr => (IAbort RErrLoad, s1)
    | LOk _ c =>
        match as_clean c with
        | None => (IAbort RErrDecode, s1)
        | Some (ts, _) =>
            if cmp_holds clean_interval_cmp (rd clk s1 - ts) (interval o) then (ISkip, s1) else (IProceed, s1)
        end
    end
  else (IProceed, s).

(** the value CleanStorage writes: a fresh value (vid -1) decoding to (now, InstanceID) *)
Definition written (now : Z) (o : opts) : node :=
  File (-1) (Cls None None (Some (now, inst o))).

Definition clean_locked (e : env) (o : opts) (clk : nat -> Z) (s : st) : result * st :=
  match interval_check e o clk s with
  | (IAbort r, s1) => (r, s1)
  | (ISkip, s1) => (RNil, s1)
  | (IProceed, s1) =>
      let s2 := if do_ocsp o then delete_old_staples e clk s1 else s1 in
      let s3 := if do_certs o then snd (delete_expired_certs e clk (grace o) s2) else s2 in
      let '(ok, s4) := do_store e clean_storage_key (written (rd clk s3) o) s3 in
      (if ok then RNil else RErrStore, s4)
  end.

Definition clean (e : env) (o : opts) (clk : nat -> Z) (s0 : store) : result * st :=
  let '(ok, s1) := do_lock e (St s0 []) in
  if ok then
    let '(r, s2) := clean_locked e o clk s1 in (r, do_unlock e s2)
  else (RErrLock, s1).

(** several cleanings one after the other (the order in which cleaners get the lock) *)
Record run := Run { r_env : env; r_opts : opts; r_clk : nat -> Z }.
Fixpoint clean_seq (runs : list run) (s : store) : store :=
  match runs with
  | [] => s
  | r :: rest => clean_seq rest (sto (snd (clean (r_env r) (r_opts r) (r_clk r) s)))
  end.

(** *** vocabulary of the specification *)
Definition spec_ext_crt : str := [46; 99; 114; 116]%N.    (* ".crt" *)
Definition spec_ext_key : str := [46; 107; 101; 121]%N.   (* ".key" *)
Definition spec_ext_json : str := [46; 106; 115; 111; 110]%N. (* ".json" *)
Definition spec_certs : str := [99; 101; 114; 116; 105; 102; 105; 99; 97; 116; 101; 115]%N. (* "certificates" *)
Definition spec_ocsp : str := [111; 99; 115; 112]%N.       (* "ocsp" *)
Definition spec_last_clean : str := [108; 97; 115; 116; 95; 99; 108; 101; 97; 110; 46; 106; 115; 111; 110]%N. (* "last_clean.json" *)
Definition spec_lock : str := [115; 116; 111; 114; 97; 103; 101; 95; 99; 108; 101; 97; 110]%N. (* "storage_clean" *)

(** k is a direct child of p *)
Definition childb (p k : key) : bool :=
  match strip_prefix (p ++ [c_sl]) k with Some c => negb (mem c_sl c) | None => false end.
(** certificates/<issuer>/<site>/<name> *)
Definition site_assetb (a : key) : bool :=
  match strip_prefix (spec_certs ++ [c_sl]) a with
  | Some r => (length (split_on c_sl r) =? 3)%nat
  | None => false
  end.
(** certificates/<issuer>/<site> *)
Definition site_folderb (a : key) : bool :=
  match strip_prefix (spec_certs ++ [c_sl]) a with
  | Some r => (length (split_on c_sl r) =? 2)%nat
  | None => false
  end.

(** the certificate is expired for at least the grace period: now - expiresAt >= grace *)
Definition spec_expired (now gr : Z) (c : cls) : bool :=
  match as_cert c with Some na => gr <=? now - expires_at na | None => false end.

(** the staple is unparseable or past NextUpdate: now > NextUpdate *)
Definition spec_stale (now : Z) (c : cls) : bool :=
  match as_staple c with Some nu => nu <? now | None => true end.
(** k is (or lies under) an OCSP staple -- a terminal key directly in ocsp/ -- that is
    unparseable or past NextUpdate *)
Definition j_staple_by (now : Z) (s0 : store) (k a : key) : bool :=
  if childb spec_ocsp a then
    if covers a k then match file s0 a with Some (_, c) => spec_stale now c | None => false end
    else false
  else false.
Definition j_staple (now : Z) (s0 : store) (k : key) : bool :=
  existsb (j_staple_by now s0 k) (map fst s0).
(** k is (or lies under) X.crt, X.key or X.json where X.crt is a file directly in a site
    folder that parses as a certificate expired for at least the grace period *)
Definition j_cert_by (now gr : Z) (s0 : store) (k a : key) : bool :=
  (* nested [if]s = lazy conjunction (cheap tests first) *)
  if site_assetb a then
    if seqb (path_ext a) spec_ext_crt then
      let base := trim_suffix spec_ext_crt a in
      if (if covers a k then true else
          if covers (base ++ spec_ext_key) k then true else covers (base ++ spec_ext_json) k)
      then match file s0 a with Some (_, c) => spec_expired now gr c | None => false end
      else false
    else false
  else false.
Definition j_cert (now gr : Z) (s0 : store) (k : key) : bool :=
  existsb (j_cert_by now gr s0 k) (map fst s0).
(** deleting k is justified for a cleaning with options o at time now on storage s0 *)
Definition justified (o : opts) (now : Z) (s0 : store) (k : key) : bool :=
  if (if do_ocsp o then j_staple now s0 k else false) then true
  else if do_certs o then j_cert now (grace o) s0 k else false.

(** a cleaning was recorded more recently than the interval *)
Definition recent (o : opts) (now : Z) (s0 : store) : bool :=
  (0 <? interval o) &&
  match file s0 spec_last_clean with
  | Some (_, c) => match as_clean c with Some (ts, _) => now - ts <? interval o | None => false end
  | None => false
  end.

(** log shape: the lock is taken first and released last, every storage call lies in between *)
Definition is_lockop (k : opk) : bool := match k with KLock | KUnlock => true | _ => false end.
Definition bracketedb (l : list event) : bool :=
  match l with
  | [Ev KLock k false] => seqb k spec_lock
  | Ev KLock k true :: r =>
      seqb k spec_lock &&
      match rev r with
      | Ev KUnlock k' _ :: body => seqb k' spec_lock && forallb (fun ev => negb (is_lockop (ev_kind ev))) body
      | _ => false
      end
  | _ => false
  end.
Definition mutates (k : opk) : bool := match k with KDelete | KStore => true | _ => false end.

(** *** vocabulary about logs *)
Definition has_kind (p : opk -> bool) (l : list event) : bool := existsb (fun ev => p (ev_kind ev)) l.
Definition stored_ok (l : list event) : bool :=
  existsb (fun ev => match ev_kind ev with KStore => seqb (ev_key ev) spec_last_clean && ev_ok ev | _ => false end) l.
(** a Store of last_clean.json was issued (whatever it reported) *)
Definition stored_any (l : list event) : bool :=
  existsb (fun ev => match ev_kind ev with KStore => seqb (ev_key ev) spec_last_clean | _ => false end) l.
Definition does_work (k : opk) : bool :=
  match k with KList | KStat | KDelete | KStore => true | _ => false end.

(** *** merged traces of several cleaners *)
Record tev := TEv { te_tid : nat; te_ev : event }.
Definition proj (t : nat) (tr : list tev) : list event :=
  map te_ev (filter (fun x => Nat.eqb (te_tid x) t) tr).
Definition holds (h : option nat) (t : nat) : bool :=
  match h with Some t' => Nat.eqb t' t | None => false end.

(** mutual exclusion and bracketing on the merged trace: a cleaner issues storage calls only
    while it holds the lock, takes it only when it is free, releases only what it holds; the
    lock is free at the end *)
Fixpoint under_lock (holder : option nat) (tr : list tev) : bool :=
  match tr with
  | [] => match holder with None => true | Some _ => false end
  | x :: r =>
      let t := te_tid x in
      match ev_kind (te_ev x) with
      | KLock =>
          seqb (ev_key (te_ev x)) spec_lock &&
          if ev_ok (te_ev x)
          then match holder with None => under_lock (Some t) r | Some _ => false end
          else negb (holds holder t) && under_lock holder r
      | KUnlock =>
          seqb (ev_key (te_ev x)) spec_lock && holds holder t && under_lock None r
      | _ => holds holder t && under_lock holder r
      end
  end.

(** what one cleaner may do, seen alone: a sequence of bracketed logs ([inside] = it holds the lock) *)
Fixpoint accepts (inside : bool) (l : list event) : bool :=
  match l with
  | [] => negb inside
  | ev :: r =>
      match ev_kind ev with
      | KLock => seqb (ev_key ev) spec_lock && negb inside && accepts (ev_ok ev) r
      | KUnlock => seqb (ev_key ev) spec_lock && inside && accepts false r
      | _ => inside && accepts inside r
      end
  end.

(** what the Locker guarantees (lock events only): Lock succeeds only while the lock is free *)
Fixpoint locker_ok (h : option nat) (tr : list tev) : bool :=
  match tr with
  | [] => true
  | x :: r =>
      match ev_kind (te_ev x) with
      | KLock =>
          if ev_ok (te_ev x)
          then match h with None => locker_ok (Some (te_tid x)) r | Some _ => false end
          else locker_ok h r
      | KUnlock => locker_ok (if holds h (te_tid x) then None else h) r
      | _ => locker_ok h r
      end
  end.
