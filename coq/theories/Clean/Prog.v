(** C18 — the body of a cleaning as a resumption, and cleaning under interference.

    What [clean_locked] does between Lock and Unlock is re-expressed as a resumption [prog]: a
    tree of Storage calls whose continuation receives the call's response ([Concurrent.v] proves
    it equal to the direct-style model: [run_clean_locked_prog]). The resumption is what lets
    other actors act on the shared storage *between two calls* of a cleaner:
    - [runi] / [cleani]: a cleaning during which foreign operations [fop] -- what an instance that
      obtains or renews a certificate, or an operator, does to the storage WITHOUT holding the
      storage_clean lock -- are applied just before given calls of the cleaner;
    - [wrun]: the resumption run against an arbitrary world (any response to any call -- reading the
      clock, [ANow], is a call to the world too), recording the history of calls and responses.
    Executable definitions only. *)
From CM Require Import Lib.Str Lib.CleanSyntax Gen.Consts Clean.Model.
Open Scope Z_scope.

(** * The body as a resumption *)
Inductive act :=
| ALoad (k : key) | AList (k : key) | AStat (k : key) | ADelete (k : key)
| AStore (k : key) (n : node) | ACancelled
| ANow.   (* time.Now() / time.Since(): the clock is part of the world *)
Inductive resp :=
| XLoad (r : load_res) | XList (r : option (list key)) | XStat (r : stat_res) | XBool (b : bool)
| XTime (t : Z).
Inductive prog := Done (r : result) | Do (a : act) (k : resp -> prog).

Definition exec (e : env) (clk : nat -> Z) (a : act) (s : st) : resp * st :=
  match a with
  | ALoad k => let '(r, s1) := do_load e k s in (XLoad r, s1)
  | AList k => let '(r, s1) := do_list e k s in (XList r, s1)
  | AStat k => let '(r, s1) := do_stat e k s in (XStat r, s1)
  | ADelete k => let '(b, s1) := do_delete e k s in (XBool b, s1)
  | AStore k n => let '(b, s1) := do_store e k n s in (XBool b, s1)
  | ACancelled => (XBool (cancelled e s), s)
  | ANow => (XTime (rd clk s), s)
  end.

Fixpoint run (e : env) (clk : nat -> Z) (p : prog) (s : st) : result * st :=
  match p with
  | Done r => (r, s)
  | Do a k => let '(x, s1) := exec e clk a s in run e clk (k x) s1
  end.

Fixpoint staples_prog (ks : list key) (kont : prog) : prog :=
  match ks with
  | [] => kont
  | k :: r =>
      Do ACancelled (fun c =>
        match c with
        | XBool false =>
            Do (ALoad k) (fun x =>
              match x with
              | XLoad (LOk _ c) =>
                  Do ANow (fun t =>
                    match t with
                    | XTime now =>
                        if stale_staple now c then Do (ADelete k) (fun _ => staples_prog r kont)
                        else staples_prog r kont
                    | _ => staples_prog r kont
                    end)
              | _ => staples_prog r kont
              end)
        | _ => kont
        end)
  end.
Definition old_staples_prog (kont : prog) : prog :=
  Do (AList prefix_ocsp) (fun x =>
    match x with XList (Some ks) => staples_prog ks kont | _ => kont end).

Fixpoint related_prog (base : key) (sufs : list str) (kont : prog) : prog :=
  match sufs with
  | [] => kont
  | x :: r => Do (ADelete (base ++ x)) (fun _ => related_prog base r kont)
  end.

Fixpoint assets_prog (gr : Z) (assets : list key) (kont : bool -> prog) : prog :=
  match assets with
  | [] => kont false
  | a :: r =>
      if negb (seqb (path_ext a) clean_ext_crt) then assets_prog gr r kont else
      Do (ALoad a) (fun x =>
        match x with
        | XLoad (LOk _ c) =>
            match as_cert c with
            | None => kont true
            | Some _ =>
                Do ANow (fun t =>
                  match t with
                  | XTime now =>
                      if expired_cert now gr c then
                        Do (ADelete a) (fun _ =>
                          related_prog (trim_suffix clean_trim_suffix a) clean_related_suffixes
                                       (assets_prog gr r kont))
                      else assets_prog gr r kont
                  | _ => kont true
                  end)
            end
        | _ => kont true
        end)
  end.

Fixpoint sites_prog (gr : Z) (sites : list key) (kont : bool -> prog) : prog :=
  match sites with
  | [] => kont false
  | sk :: r =>
      Do ACancelled (fun c =>
        match c with
        | XBool false =>
            Do (AList sk) (fun x =>
              match x with
              | XList (Some assets) =>
                  assets_prog gr assets (fun ab =>
                    if ab then kont true else
                    Do (AList sk) (fun y =>
                      match y with
                      | XList (Some []) =>
                          Do (AStat sk) (fun z =>
                            match z with
                            | XStat StatDir =>
                                Do (ADelete sk) (fun d =>
                                  match d with
                                  | XBool true => sites_prog gr r kont
                                  | _ => kont true
                                  end)
                            | _ => sites_prog gr r kont
                            end)
                      | _ => sites_prog gr r kont
                      end))
              | _ => sites_prog gr r kont
              end)
        | _ => kont true
        end)
  end.

Fixpoint issuers_prog (gr : Z) (iss : list key) (kont : bool -> prog) : prog :=
  match iss with
  | [] => kont false
  | ik :: r =>
      Do (AList ik) (fun x =>
        match x with
        | XList (Some sites) =>
            sites_prog gr sites (fun ab => if ab then kont true else issuers_prog gr r kont)
        | _ => issuers_prog gr r kont
        end)
  end.
Definition expired_certs_prog (gr : Z) (kont : prog) : prog :=
  Do (AList prefix_certs) (fun x =>
    match x with XList (Some iss) => issuers_prog gr iss (fun _ => kont) | _ => kont end).

Definition record_prog (o : opts) : prog :=
  Do ANow (fun t =>
    match t with
    | XTime now =>
        Do (AStore clean_storage_key (written now o)) (fun b =>
          match b with XBool true => Done RNil | _ => Done RErrStore end)
    | _ => Done RErrStore
    end).
Definition work_prog (o : opts) : prog :=
  let p3 := record_prog o in
  let p2 := if do_certs o then expired_certs_prog (grace o) p3 else p3 in
  if do_ocsp o then old_staples_prog p2 else p2.

Definition clean_locked_prog (o : opts) : prog :=
  if 0 <? interval o then
    Do (ALoad clean_storage_key) (fun x =>
      match x with
      | XLoad LNotExist => work_prog o
      | XLoad (LOk _ c) =>
          match as_clean c with
          | None => Done RErrDecode
          | Some (ts, _) =>
              Do ANow (fun t =>
                match t with
                | XTime now =>
                    if cmp_holds clean_interval_cmp (now - ts) (interval o) then Done RNil else work_prog o
                | _ => Done RErrDecode
                end)
          end
      | _ => Done RErrLoad
      end)
  else work_prog o.

(** * Foreign operations interleaved with a cleaning *)
Inductive fop := FPut (k : key) (n : node) | FDel (k : key).
Definition fapply (f : fop) (s : store) : store :=
  match f with FPut k n => put k n s | FDel k => remove k s end.
(** the foreign operations scheduled just before the cleaner's call number [i] *)
Fixpoint apply_at (fs : list (nat * fop)) (i : nat) (s : store) : store :=
  match fs with
  | [] => s
  | (j, f) :: r => apply_at r i (if Nat.eqb j i then fapply f s else s)
  end.
Definition interfere (fs : list (nat * fop)) (s : st) : st :=
  St (apply_at fs (length (lg s)) (sto s)) (lg s).
Definition logs (a : act) : bool := match a with ACancelled | ANow => false | _ => true end.

Fixpoint runi (e : env) (clk : nat -> Z) (fs : list (nat * fop)) (p : prog) (s : st) : result * st :=
  match p with
  | Done r => (r, s)
  | Do a k =>
      let '(x, s1) := exec e clk a (if logs a then interfere fs s else s) in
      runi e clk fs (k x) s1
  end.

(** CleanStorage with foreign operations happening during the locked part *)
Definition cleani (e : env) (fs : list (nat * fop)) (o : opts) (clk : nat -> Z) (s0 : store) : result * st :=
  let '(ok, s1) := do_lock e (St s0 []) in
  if ok then
    let '(r, s2) := runi e clk fs (clean_locked_prog o) s1 in (r, do_unlock e s2)
  else (RErrLock, s1).

(** * The resumption against an arbitrary world *)
Definition hist := list (act * resp).   (* newest first *)
Section World.
  Variables (W : Type) (wexec : act -> W -> resp * W).
  Fixpoint wrun (p : prog) (w : W) (h : hist) : hist * W :=
    match p with
    | Done _ => (h, w)
    | Do a k => let '(x, w1) := wexec a w in wrun (k x) w1 ((a, x) :: h)
    end.
End World.

(** * A cleaner whose process dies *)
(** the body stops just before its (m+1)-th Storage call; nothing more happens -- in particular no Unlock *)
Fixpoint cutl (m : nat) (p : prog) : prog :=
  match p with
  | Done r => Done r
  | Do a k =>
      if logs a then match m with O => Done RNil | S m' => Do a (fun x => cutl m' (k x)) end
      else Do a (fun x => cutl m (k x))
  end.
(** CleanStorage in a process that dies when the run's call number [n] (Lock = 0) begins *)
Definition cleank (e : env) (n : nat) (o : opts) (clk : nat -> Z) (s0 : store) : st :=
  match n with
  | O => St s0 []
  | S m =>
      let '(ok, s1) := do_lock e (St s0 []) in
      if ok then snd (run e clk (cutl m (clean_locked_prog o)) s1) else s1
  end.
(** the same death expressed in the environment of the model [clean] *)
Definition with_kill (e : env) (n : nat) : env :=
  Env (faults e) (efaults e) (cancel_at e) (lfe e) (pfaults e) (Some n).
