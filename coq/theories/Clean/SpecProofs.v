(** C18 — the run-time monitor [Check.spec_ok] holds of the model's own output: for every input,
    the case assembled from what the model does (its result, its call log as a one-cleaner
    trace, its final storage) satisfies [spec_ok]. So a [spec_ok] failure on the
    implementation's observation is a behaviour the (proved) model cannot show. *)
From CM Require Import Lib.Str Lib.Wire Lib.CleanSyntax Gen.Consts Clean.Model Clean.Check Clean.Proofs.
From Coq Require Import Lia.
Open Scope Z_scope.

Lemma opt_eqb_refl {A} (f : A -> A -> bool) (x : option A) : (forall a, f a a = true) -> opt_eqb f x x = true.
Proof. intros H. destruct x; cbn; auto. Qed.
Lemma cls_eqb_refl c : cls_eqb c c = true.
Proof.
  unfold cls_eqb. rewrite !opt_eqb_refl; try reflexivity; try apply Z.eqb_refl.
  intros [z s]. cbn. rewrite Z.eqb_refl, seqb_refl. reflexivity.
Qed.
Lemma file_eqb_refl x : file_eqb x x = true.
Proof. unfold file_eqb. apply opt_eqb_refl. intros [v c]. cbn. rewrite Z.eqb_refl, cls_eqb_refl. reflexivity. Qed.

Lemma proj_single t l : proj t (map (TEv t) l) = l.
Proof.
  unfold proj. induction l as [|x r IH]; [reflexivity|]. cbn. rewrite Nat.eqb_refl. cbn. rewrite IH. reflexivity.
Qed.
Lemma proj_other t t' l : t <> t' -> proj t' (map (TEv t) l) = [].
Proof.
  intros H. unfold proj. induction l as [|x r IH]; [reflexivity|]. cbn.
  destruct (Nat.eqb_spec t t'); [contradiction | exact IH].
Qed.

(** a single bracketed thread respects the Locker trivially *)
Lemma single_locker_ok t l : forall i, accepts i l = true ->
  locker_ok (if i then Some t else None) (map (TEv t) l) = true.
Proof.
  induction l as [|ev r IH]; intros i H; [reflexivity|].
  cbn [map locker_ok te_ev te_tid accepts] in *. destruct (ev_kind ev).
  - apply andb_true_iff in H. destruct H as [H Hr]. apply andb_true_iff in H. destruct H as [_ Hi].
    apply negb_true_iff in Hi. subst i. destruct (ev_ok ev); [exact (IH true Hr) | exact (IH false Hr)].
  - apply andb_true_iff in H. destruct H as [H Hr]. apply andb_true_iff in H. destruct H as [_ Hi]. subst i.
    cbn [holds]. rewrite Nat.eqb_refl. exact (IH false Hr).
  - apply andb_true_iff in H; destruct H as [_ Hr]; exact (IH i Hr).
  - apply andb_true_iff in H; destruct H as [_ Hr]; exact (IH i Hr).
  - apply andb_true_iff in H; destruct H as [_ Hr]; exact (IH i Hr).
  - apply andb_true_iff in H; destruct H as [_ Hr]; exact (IH i Hr).
  - apply andb_true_iff in H; destruct H as [_ Hr]; exact (IH i Hr).
Qed.

Lemma in_lookup s k n : In (k, n) s -> lookup s k <> None.
Proof.
  induction s as [|[k1 n1] r IH]; cbn; [contradiction|]. intros [E|H].
  - injection E; intros -> ->. rewrite seqb_refl. discriminate.
  - destruct (seqb k1 k); [discriminate | exact (IH H)].
Qed.

Section Single.
  (** any clock whose readings lie in the run's clock bracket [t0,t1] (the harness measures the
      bracket: Lock returned .. Unlock called) *)
  Variables (e : env) (o : opts) (clk : nat -> Z) (t0 t1 : Z) (s0 : store) (t : nat).
  Hypothesis Hclk : forall i, t0 <= clk i <= t1.
  Notation r := (fst (clean e o clk s0)).
  Notation s' := (snd (clean e o clk s0)).
  Notation log := (rev (lg (snd (clean e o clk s0)))).
  Definition model_case : case :=
    Case (lfe e) s0 [RunRec t o (faults e) (efaults e) (cancel_at e) t0 t1 (result_code r) [] (pfaults e) None]
         (map (TEv t) log) (sto s').

  Lemma model_under_lock : under_lock None (lock_trace model_case) = true.
  Proof.
    unfold lock_trace. cbn [c_runs c_trace model_case fold_left rr_kill].
    apply (bracketed_threads_exclusive _ None (fun _ => false)); [reflexivity| |].
    - intros t'. destruct (Nat.eq_dec t t') as [<-|Ne].
      + rewrite proj_single. apply clean_thread_ok.
      + rewrite proj_other by exact Ne. reflexivity.
    - exact (single_locker_ok t log false (clean_thread_ok e o clk s0)).
  Qed.

  Lemma stored_log : stored_any (proj t (map (TEv t) log)) = stored_any (lg s').
  Proof.
    rewrite proj_single. unfold stored_any. destruct (existsb _ (lg s')) eqn:E.
    - apply existsb_exists in E. destruct E as [x [Hx Px]]. apply existsb_exists. exists x. split; [apply in_rev in Hx; exact Hx | exact Px].
    - destruct (existsb _ (rev (lg s'))) eqn:E2; [|reflexivity]. apply existsb_exists in E2. destruct E2 as [x [Hx Px]].
      assert (existsb (fun ev => match ev_kind ev with KStore => seqb (ev_key ev) spec_last_clean | _ => false end) (lg s') = true); [|congruence].
      apply existsb_exists. exists x. split; [apply in_rev; exact Hx | exact Px].
  Qed.

  Lemma model_diff_ok k : diff_ok model_case k = true.
  Proof.
    unfold diff_ok. cbn [c_s0 c_s1 c_runs c_trace model_case existsb rr_opts rr_t1 rr_t0 rr_tid].
    rewrite stored_log, !orb_false_r.
    destruct (clean_post_nodes e o clk s0 k) as [[E|N J|N D Sf Ho G]|i E W St Nd].
    all: try (apply (jt_bounded _ _ _ _ t1 (fun i => proj2 (Hclk i))) in J).
    - (* unchanged *)
      unfold file. rewrite E. rewrite file_eqb_refl. cbn [andb].
      destruct (lookup s0 k) as [[v c|]|]; reflexivity.
    - (* gone, justified *)
      unfold file. rewrite N, J.
      destruct (lookup s0 k) as [[v c|]|]; cbn; try reflexivity.
      destruct (site_folderb k && _ && _); reflexivity.
    - (* emptied site folder *)
      unfold file. rewrite N, D, Sf, Ho. cbn [file_eqb opt_eqb andb].
      assert (F : forallb (fun en => negb (under k (fst en))) (sto s') = true).
      { apply forallb_forall. intros [k' n] Hin. cbn [fst]. destruct (under k k') eqn:U; [|reflexivity].
        exfalso. exact (in_lookup _ _ _ Hin (G k' U)). }
      rewrite F. reflexivity.
    - (* last_clean.json written *)
      subst k. unfold file. rewrite W. unfold written at 2 3 4.
      assert (Hd : match lookup s0 spec_last_clean with
                   | Some Dir => false | _ => true end = true)
        by (destruct (lookup s0 spec_last_clean) as [[v c|]|]; [reflexivity | contradiction | reflexivity]).
      destruct (file_eqb _ _).
      + cbn [andb]. unfold written. destruct (lookup s0 spec_last_clean) as [[v c|]|]; [reflexivity | discriminate | reflexivity].
      + rewrite seqb_refl, St. cbn [as_clean andb Z.eqb].
        rewrite (proj2 (Z.leb_le _ _) (proj1 (Hclk i))), (proj2 (Z.leb_le _ _) (proj2 (Hclk i))), seqb_refl. cbn [andb].
        unfold written. destruct (lookup s0 spec_last_clean) as [[v c|]|]; [reflexivity | discriminate | reflexivity].
  Qed.

  Lemma rec0_recent ts : rec0 s0 = Some ts -> (0 <? interval o) && (t1 - ts <? interval o) = true ->
    forall i, recent o (clk i) s0 = true.
  Proof.
    unfold rec0, recent. destruct (file s0 spec_last_clean) as [[v c]|]; [|discriminate].
    destruct (as_clean c) as [[ts' j]|]; [|discriminate]. intros H; injection H; intros ->.
    intros C i. apply andb_true_iff in C. destruct C as [C1 C2]. rewrite C1. cbn [andb].
    apply Z.ltb_lt in C2. apply Z.ltb_lt. pose proof (proj2 (Hclk i)). lia.
  Qed.

  Lemma model_runs_ok : runs_ok model_case (c_runs model_case) (rec0 (c_s0 model_case)) = true.
  Proof.
    cbn [c_runs c_s0 model_case runs_ok rr_tid rr_opts rr_t1 rr_res c_trace rr_kill orb]. rewrite proj_single.
    rewrite andb_true_r. apply andb_true_iff; split; [apply andb_true_iff; split|].
    - destruct (rec0 s0) as [ts|] eqn:R; [|reflexivity].
      destruct ((0 <? interval o) && (t1 - ts <? interval o)) eqn:C; [|reflexivity].
      cbn [negb orb]. destruct (skip_when_recent e o clk s0 (rec0_recent ts R C)) as [_ H].
      rewrite H. reflexivity.
    - destruct (N.eqb (result_code r) 0) eqn:R0; [|reflexivity]. cbn [negb orb].
      assert (Er : r = RNil) by (destruct r; try discriminate; reflexivity).
      destruct (clean_records e o clk s0 Er) as [H|H]; rewrite H; [reflexivity | apply orb_true_r].
    - destruct (has_kind (fun k => match k with KDelete => true | _ => false end) log) eqn:D; [|reflexivity].
      cbn [negb orb]. exact (clean_delete_then_record e o clk s0 D).
  Qed.

  (** forall inputs: spec_ok (model's observation) = true *)
  Theorem model_satisfies_spec : spec_ok model_case = true.
  Proof.
    unfold spec_ok. rewrite model_under_lock, model_runs_ok, andb_true_r. cbn [andb].
    unfold all_fops. cbn [c_runs model_case flat_map rr_fops map app].
    apply forallb_forall. intros k _. apply model_diff_ok.
  Qed.

End Single.

(** and of course the model agrees with itself: check_line's first component (the replay runs the
    model with the constant clock t0) *)
Theorem model_ok_refl e o now s0 t : kill_at e = None ->
  replay (model_case e o (fun _ => now) now now s0 t) (c_runs (model_case e o (fun _ => now) now now s0 t)) s0
  = Some (sto (snd (clean e o (fun _ => now) s0))).
Proof.
  assert (L : forall l, list_eqb event_eqb l l = true).
  { induction l as [|x l IH]; [reflexivity|]. cbn [list_eqb]. rewrite IH, andb_true_r.
    unfold event_eqb. rewrite N.eqb_refl, seqb_refl. destruct (ev_ok x); reflexivity. }
  intros Hk. unfold model_case.
  cbn [c_runs c_s0 replay rr_fops rr_kill]. unfold env_of. cbn [rr_faults rr_efaults rr_cancel c_lfe rr_opts rr_t0 rr_res rr_tid c_trace rr_pfaults rr_kill].
  replace (Env (faults e) (efaults e) (cancel_at e) (lfe e) (pfaults e) None) with e by (destruct e; cbn in Hk; subst; reflexivity).
  destruct (clean e o (fun _ => now) s0) as [r0 st0]. cbn [fst snd]. rewrite N.eqb_refl, proj_single, L. reflexivity.
Qed.
