(** C18 — everything at once: any number of cleaners stepping call by call, some of them killed, locks of dead
    holders expiring, and OTHER actors (no storage_clean lock) storing and deleting at any moment. No serialisation
    argument is needed for the frame property: every thread carries the history of what it was answered, the
    program it is at only issues Deletes warranted by that history ([Interfere.SP]) and the one Store of the
    record; listings answer with children. Hence a key outside ocsp/ and certificates/ other than
    last_clean.json that no other actor changes keeps its node under EVERY schedule. *)
From CM Require Import Lib.Str Lib.CleanSyntax Gen.Consts Clean.Model Clean.Proofs Clean.Prog Clean.Concurrent Clean.Effective Clean.Interfere Clean.Kill Clean.ConcurrentKill.
From Coq Require Import Lia.
Open Scope Z_scope.

Inductive flabel := FL (l : klabel) | FOp (f : fop).
Definition kstepf (c : kstate) (l : flabel) : kstate :=
  match l with
  | FL l' => kstep c l'
  | FOp f => KS (fapply f (ks_store c)) (ks_holder c) (ks_thr c)
  end.
Definition kstepsf (c : kstate) (sched : list flabel) : kstate := fold_left kstepf sched c.

Section FrameAll.
  Variables (s0 : store) (q : key).
  Hypotheses (Hout1 : has_prefix ocsp_pfx q = false) (Hout2 : has_prefix certs_pfx q = false)
             (Hq : q <> spec_last_clean).

  (** the key has its initial node; every cleaner inside its critical section is at a program that is safe
      w.r.t. a history with honest listings *)
  Definition finv (c : kstate) : Prop :=
    lookup (ks_store c) q = lookup s0 q /\
    forall t th p, ks_thr c t = Some th -> kt_ph th = KLocked p ->
      exists h, SP (kt_opts th) h p /\ honest h.

  Lemma exec_frame o e clk h a k x s s1 : SP o h (Do a k) -> honest h -> exec e clk a s = (x, s1) ->
    lookup (sto s) q = lookup s0 q ->
    lookup (sto s1) q = lookup s0 q /\ SP o ((a, x) :: h) (k x) /\ honest ((a, x) :: h).
  Proof.
    intros HS Hh Ex HP. inversion HS as [|? ? ? Hd Hst Hk']; subst.
    split; [|split; [apply Hk'|]].
    - destruct a as [k0|k0|k0|k0|k0 n| |]; cbn [exec] in Ex.
      + destruct (do_load e k0 s) as [r s2] eqn:D. injection Ex; intros <- _.
        rewrite (proj1 (do_load_spec _ _ _ _ _ D)). exact HP.
      + destruct (do_list e k0 s) as [r s2] eqn:D. injection Ex; intros <- _.
        rewrite (proj1 (do_list_spec _ _ _ _ _ D)). exact HP.
      + destruct (do_stat e k0 s) as [r s2] eqn:D. injection Ex; intros <- _.
        rewrite (proj1 (do_stat_spec _ _ _ _ _ D)). exact HP.
      + destruct (do_delete e k0 s) as [r s2] eqn:D. injection Ex; intros <- _.
        pose proof (not_covered q Hout1 Hout2 k0 (warranted_namespace o h k0 Hh (Hd k0 eq_refl))) as NC.
        destruct (do_delete_spec _ _ _ _ _ D) as [-> | [-> | [keep ->]]]; [exact HP| |].
        * rewrite lookup_remove, NC. exact HP.
        * rewrite lookup_removep, NC. exact HP.
      + destruct (do_store e k0 n s) as [r s2] eqn:D. injection Ex; intros <- _.
        destruct (do_store_spec _ _ _ _ _ _ D) as [(_ & -> & _)|(-> & _ & _)]; [exact HP|].
        rewrite lookup_put, (Hst k0 n eq_refl).
        destruct consts_ok as (_ & _ & _ & _ & _ & _ & _ & -> & _).
        destruct (seqb spec_last_clean q) eqn:E; [apply seqb_eq in E; congruence | exact HP].
      + injection Ex; intros <- _. exact HP.
      + injection Ex; intros <- _. exact HP.
    - intros p ks [E|Hin]; [|exact (Hh p ks Hin)]. injection E; intros -> ->.
      cbn [exec] in Ex. destruct (do_list e p s) as [r s2] eqn:D. injection Ex; intros _ Er. subst r.
      destruct (do_list_spec _ _ _ _ _ D) as [_ Hl]. exact (list_pure_child _ _ _ _ (Hl ks eq_refl)).
  Qed.

  Lemma kstepf_finv c l : (forall f, l = FOp f -> touches q f = false) -> finv c -> finv (kstepf c l).
  Proof.
    intros Hl [HP HT]. destruct l as [l|f]; cbn [kstepf].
    2:{ split; [|exact HT]. cbn [ks_store]. specialize (Hl f eq_refl).
        destruct f as [k' n|k']; cbn [fapply touches] in *.
        - rewrite lookup_put, Hl. exact HP.
        - rewrite lookup_remove, Hl. exact HP. }
    destruct l as [t|t|]; cbn [kstep].
    - destruct (ks_thr c t) as [th|] eqn:Ht; [|split; assumption].
      destruct (kt_ph th) as [|p|r|] eqn:Hp; [| |split; assumption|split; assumption].
      + (* Lock *)
        destruct (faulty (kt_env th) (St (ks_store c) (kt_lg th))).
        * split; [exact HP|]. cbn [ks_thr]. intros t' th' p' H Hl'. destruct (Nat.eq_dec t' t) as [->|Ne].
          -- rewrite kset_same in H. injection H; intros <-. discriminate.
          -- rewrite kset_other in H by exact Ne. exact (HT t' th' p' H Hl').
        * destruct (ks_holder c); [split; assumption|].
          split; [exact HP|]. cbn [ks_thr]. intros t' th' p' H Hl'. destruct (Nat.eq_dec t' t) as [->|Ne].
          -- rewrite kset_same in H. injection H; intros <-. cbn in Hl'. injection Hl'; intros <-.
             cbn [kt_opts kwith]. exists []. split; [apply clean_locked_safe | intros p ks []].
          -- rewrite kset_other in H by exact Ne. exact (HT t' th' p' H Hl').
      + destruct (HT t th p Ht Hp) as (h & HS & Hh).
        destruct p as [r|a k].
        * split; [exact HP|]. cbn [ks_thr]. intros t' th' p' H Hl'. destruct (Nat.eq_dec t' t) as [->|Ne].
          -- rewrite kset_same in H. injection H; intros <-. discriminate.
          -- rewrite kset_other in H by exact Ne. exact (HT t' th' p' H Hl').
        * destruct (exec (kt_env th) (kt_clk th) a (St (ks_store c) (kt_lg th))) as [x s1] eqn:Ex.
          destruct (exec_frame _ _ _ _ _ _ _ _ _ HS Hh Ex HP) as (HP1 & HS1 & Hh1).
          split; [exact HP1|]. cbn [ks_thr]. intros t' th' p' H Hl'. destruct (Nat.eq_dec t' t) as [->|Ne].
          -- rewrite kset_same in H. injection H; intros <-. cbn in Hl'. injection Hl'; intros <-.
             cbn [kt_opts kwith]. exists ((a, x) :: h). split; assumption.
          -- rewrite kset_other in H by exact Ne. exact (HT t' th' p' H Hl').
    - destruct (ks_thr c t) as [th|] eqn:Ht; [|split; assumption].
      destruct (kt_ph th) eqn:Hp; try (split; assumption);
        (split; [exact HP|]; cbn [ks_thr]; intros t' th' p' H Hl'; destruct (Nat.eq_dec t' t) as [->|Ne];
         [rewrite kset_same in H; injection H; intros <-; discriminate
         |rewrite kset_other in H by exact Ne; exact (HT t' th' p' H Hl')]).
    - destruct (ks_holder c) as [t|]; [|split; assumption].
      destruct (ks_thr c t) as [th|]; [|split; assumption].
      destruct (kt_ph th); split; assumption.
  Qed.

  (** every schedule of calls of any number of cleaners, kills, lock expiries and operations of other actors:
      a key outside the cleaned namespaces (account data, locks, anything else) other than last_clean.json that
      none of the other actors' operations changes has the node it had at the beginning *)
  Theorem frame_all_schedules thr0 sched :
    (forall t th, thr0 t = Some th -> kt_ph th = KFresh) ->
    (forall f, In (FOp f) sched -> touches q f = false) ->
    lookup (ks_store (kstepsf (KS s0 None thr0) sched)) q = lookup s0 q.
  Proof.
    intros H0 Hs.
    assert (I0 : finv (KS s0 None thr0)).
    { split; [reflexivity|]. cbn [ks_thr]. intros t th p H Hp. rewrite (H0 t th H) in Hp. discriminate. }
    assert (G : forall sc c, (forall f, In (FOp f) sc -> touches q f = false) -> finv c -> finv (kstepsf c sc)).
    { induction sc as [|l r IH]; intros c Hsc I; [exact I|]. cbn [kstepsf fold_left].
      apply IH; [intros f Hf; apply Hsc; right; exact Hf|].
      apply kstepf_finv; [|exact I]. intros f ->. apply Hsc. left; reflexivity. }
    exact (proj1 (G sched _ Hs I0)).
  Qed.
End FrameAll.

(** the same for the assets of a live certificate: X.crt holds a certificate that is not expired for the grace period
    of any of the cleaners at any reading of their clocks; no other actor writes or deletes X.crt, the asset in question
    or a key above them. Under EVERY schedule the asset keeps its node. *)
Section LiveAll.
  Variables (s0 : store) (base suf : key) (v : Z) (c : cls) (thr0 : nat -> option kthr).
  Local Notation a := (base ++ spec_ext_crt).
  Local Notation k := (base ++ suf).
  Hypotheses (Ha : site_assetb a = true) (Hs : In suf asset_exts) (Hf : lookup s0 a = Some (File v c))
             (Hlive : forall t th0, thr0 t = Some th0 ->
                        forall i, spec_expired (kt_clk th0 i) (grace (kt_opts th0)) c = false).

  Definition linv (st : kstate) : Prop :=
    (forall q, prot base suf q -> lookup (ks_store st) q = lookup s0 q) /\
    (forall t th, ks_thr st t = Some th -> exists th0, thr0 t = Some th0 /\ krun_of th = krun_of th0) /\
    (forall t th p, ks_thr st t = Some th -> kt_ph th = KLocked p ->
       exists h, SP (kt_opts th) h p /\ Hsound (kt_clk th) s0 base suf c h).

  Lemma params_kset' st t th ph lg' :
    (forall t th, ks_thr st t = Some th -> exists th0, thr0 t = Some th0 /\ krun_of th = krun_of th0) ->
    ks_thr st t = Some th ->
    forall t' th', kset (ks_thr st) t (kwith th ph lg') t' = Some th' ->
    exists th0, thr0 t' = Some th0 /\ krun_of th' = krun_of th0.
  Proof.
    intros HPa Ht t' th' H. destruct (Nat.eq_dec t' t) as [->|Ne].
    - rewrite kset_same in H. injection H; intros <-. exact (HPa t th Ht).
    - rewrite kset_other in H by exact Ne. exact (HPa t' th' H).
  Qed.

  Lemma kstepf_linv st l :
    (forall f, l = FOp f -> covers (fkey f) a = false /\ covers (fkey f) k = false) -> linv st -> linv (kstepf st l).
  Proof.
    intros Hl (HP & HPa & HT). destruct l as [l|f]; cbn [kstepf].
    2:{ split; [|split; [exact HPa | exact HT]]. cbn [ks_store]. destruct (Hl f eq_refl) as [T1 T2].
        intros q Hq.
        assert (T : covers (fkey f) q = false).
        { destruct Hq as [->|Hq]; [exact T2|]. destruct (covers (fkey f) q) eqn:C; [|reflexivity].
          rewrite (covers_trans _ _ _ C Hq) in T1. discriminate. }
        destruct f as [k' n|k']; cbn [fapply fkey] in *.
        - rewrite lookup_put. unfold covers in T. apply orb_false_iff in T. rewrite (proj1 T). exact (HP q Hq).
        - rewrite lookup_remove, T. exact (HP q Hq). }
    destruct l as [t|t|]; cbn [kstep].
    - destruct (ks_thr st t) as [th|] eqn:Ht; [|repeat split; assumption].
      destruct (kt_ph th) as [|p|r|] eqn:Hp; [| |repeat split; assumption|repeat split; assumption].
      + destruct (faulty (kt_env th) (St (ks_store st) (kt_lg th))).
        * split; [exact HP|]. split; [exact (params_kset' st t th _ _ HPa Ht)|].
          cbn [ks_thr]. intros t' th' p' H Hl'. destruct (Nat.eq_dec t' t) as [->|Ne].
          -- rewrite kset_same in H. injection H; intros <-. discriminate.
          -- rewrite kset_other in H by exact Ne. exact (HT t' th' p' H Hl').
        * destruct (ks_holder st); [repeat split; assumption|].
          split; [exact HP|]. split; [exact (params_kset' st t th _ _ HPa Ht)|].
          cbn [ks_thr]. intros t' th' p' H Hl'. destruct (Nat.eq_dec t' t) as [->|Ne].
          -- rewrite kset_same in H. injection H; intros <-. cbn in Hl'. injection Hl'; intros <-.
             cbn [kt_opts kt_clk kwith]. exists []. split; [apply clean_locked_safe|].
             repeat split; try (intros; contradiction). intros p ks [].
          -- rewrite kset_other in H by exact Ne. exact (HT t' th' p' H Hl').
      + destruct (HT t th p Ht Hp) as (h & HS & Hh).
        destruct p as [r|act kont].
        * split; [exact HP|]. split; [exact (params_kset' st t th _ _ HPa Ht)|].
          cbn [ks_thr]. intros t' th' p' H Hl'. destruct (Nat.eq_dec t' t) as [->|Ne].
          -- rewrite kset_same in H. injection H; intros <-. discriminate.
          -- rewrite kset_other in H by exact Ne. exact (HT t' th' p' H Hl').
        * destruct (exec (kt_env th) (kt_clk th) act (St (ks_store st) (kt_lg th))) as [x s1] eqn:Ex.
          destruct (HPa t th Ht) as (th0 & H0 & E0).
          assert (Hlv : forall i, spec_expired (kt_clk th i) (grace (kt_opts th)) c = false).
          { unfold krun_of in E0. injection E0; intros -> -> _. exact (Hlive t th0 H0). }
          destruct (live_step (kt_env th) (kt_clk th) [] (kt_opts th) s0 base suf v c Ha Hs Hf Hlv
                      (fun i f (H : In (i, f) []) => match H with end)
                      act kont (St (ks_store st) (kt_lg th)) h x s1 HS Hh HP Ex) as (HS1 & Hh1 & HI1).
          split; [exact HI1|]. split; [exact (params_kset' st t th _ _ HPa Ht)|].
          cbn [ks_thr]. intros t' th' p' H Hl'. destruct (Nat.eq_dec t' t) as [->|Ne].
          -- rewrite kset_same in H. injection H; intros <-. cbn in Hl'. injection Hl'; intros <-.
             cbn [kt_opts kt_clk kwith]. exists ((act, x) :: h). split; assumption.
          -- rewrite kset_other in H by exact Ne. exact (HT t' th' p' H Hl').
    - destruct (ks_thr st t) as [th|] eqn:Ht; [|repeat split; assumption].
      destruct (kt_ph th) eqn:Hp; try (repeat split; assumption);
        (split; [exact HP|]; split; [exact (params_kset' st t th _ _ HPa Ht)|];
         cbn [ks_thr]; intros t' th' p' H Hl'; destruct (Nat.eq_dec t' t) as [->|Ne];
         [rewrite kset_same in H; injection H; intros <-; discriminate
         |rewrite kset_other in H by exact Ne; exact (HT t' th' p' H Hl')]).
    - destruct (ks_holder st) as [t|]; [|repeat split; assumption].
      destruct (ks_thr st t) as [th|]; [|repeat split; assumption].
      destruct (kt_ph th); repeat split; assumption.
  Qed.

  Theorem live_all_schedules sched :
    (forall t th, thr0 t = Some th -> kt_ph th = KFresh) ->
    (forall f, In (FOp f) sched -> covers (fkey f) a = false /\ covers (fkey f) k = false) ->
    lookup (ks_store (kstepsf (KS s0 None thr0) sched)) k = lookup s0 k.
  Proof.
    intros H0 Hsc.
    assert (I0 : linv (KS s0 None thr0)).
    { split; [intros q _; reflexivity|]. split; [intros t th H; exists th; auto|].
      cbn [ks_thr]. intros t th p H Hp. rewrite (H0 t th H) in Hp. discriminate. }
    assert (G : forall sc st, (forall f, In (FOp f) sc -> covers (fkey f) a = false /\ covers (fkey f) k = false) ->
                linv st -> linv (kstepsf st sc)).
    { induction sc as [|l r IH]; intros st Hs' I; [exact I|]. cbn [kstepsf fold_left].
      apply IH; [intros f Hf'; apply Hs'; right; exact Hf'|].
      apply kstepf_linv; [|exact I]. intros f ->. apply Hs'. left; reflexivity. }
    exact (proj1 (G sched _ Hsc I0) k (or_introl eq_refl)).
  Qed.
End LiveAll.
