(** C18 — a cleaning while OTHER actors use the storage.

    The property's schedules are concurrent cleaners (Clean/Concurrent.v: they are serialised by
    the storage_clean lock). Actors that are not cleaners -- an instance obtaining or renewing a
    certificate, an operator -- do not take that lock. This file states what remains true of a
    cleaner whatever happens to the storage between two of its calls, and what does not:

    - [deletes_warranted]: against ANY world (arbitrary responses to its calls: other writers, a
      misbehaving back-end, any clock -- reading the clock is a call to the world) a cleaning issues Delete(k) only if, earlier in this very run,
      * k was listed in ocsp/, loaded, and what was loaded is unparseable or past NextUpdate, or
      * k is X.crt, X.key or X.json where X.crt was listed in a listed site folder of a listed
        issuer folder, loaded, and what was loaded parses and is expired for the grace period, or
      * k is a listed site folder that the two immediately preceding calls found empty (List)
        and non-terminal (Stat).
    - [cleani_deletes_in_namespace]: on a storage that honours the List contract, with any foreign
      operations [fop] interleaved at any calls: every Delete call of the cleaner addresses
      ocsp/<x>, certificates/<i>/<s>/<X>.crt|.key|.json or certificates/<i>/<s> -- never account
      data, locks, or anything else, whoever else writes whatever wherever.
    - [cleani_nil]: without foreign operations [cleani] is the model [clean].
    - the window that remains (Props/C18.v, [C18_foreign_writer_refuted]): between "site folder
      listed empty + Stat" and "Delete(site folder)" another instance can store a fresh
      certificate into that folder; Delete is recursive and removes it. *)
From CM Require Import Lib.Str Lib.CleanSyntax Gen.Consts Clean.Model Clean.Prog Clean.Proofs Clean.Concurrent Clean.Effective.
From Coq Require Import Lia.
Open Scope Z_scope.

(** * without foreign operations [cleani] is [clean] *)
Lemma apply_at_nil i s : apply_at [] i s = s.
Proof. reflexivity. Qed.
Lemma interfere_nil s : interfere [] s = s.
Proof. destruct s; reflexivity. Qed.
Lemma runi_nil e clk p : forall s, runi e clk [] p s = run e clk p s.
Proof.
  induction p as [r|a k IH]; intros s; cbn [runi run]; [reflexivity|].
  rewrite interfere_nil. destruct (logs a); destruct (exec e clk a s) as [x s1]; apply IH.
Qed.
Theorem cleani_nil e o clk s0 : cleani e [] o clk s0 = clean e o clk s0.
Proof.
  unfold cleani, clean. destruct (do_lock e (St s0 [])) as [ok s1]. destruct ok; [|reflexivity].
  rewrite runi_nil, run_clean_locked_prog. reflexivity.
Qed.

(** * What warrants a Delete *)
Section Warrant.
  Variable o : opts.

  (** earlier in this run, a listing of [p] returned [k] *)
  Definition listed (h : hist) (p k : key) : Prop :=
    exists ks, In (AList p, XList (Some ks)) h /\ In k ks.
  (** earlier in this run, [a] was loaded and its bytes read as [c] *)
  Definition was_read (h : hist) (a : key) (c : cls) : Prop :=
    exists v, In (ALoad a, XLoad (LOk v c)) h.
  (** earlier in this run, the clock was read and showed [t] *)
  Definition was_now (h : hist) (t : Z) : Prop := In (ANow, XTime t) h.
  Definition related (a : key) : list key :=
    a :: map (fun x => trim_suffix clean_trim_suffix a ++ x) clean_related_suffixes.

  Inductive warranted (h : hist) (k : key) : Prop :=
  | WStaple c t : do_ocsp o = true -> listed h prefix_ocsp k -> was_read h k c ->
      was_now h t -> stale_staple t c = true -> warranted h k
  | WCert ik sk a c t : do_certs o = true ->
      listed h prefix_certs ik -> listed h ik sk -> listed h sk a ->
      seqb (path_ext a) clean_ext_crt = true -> was_read h a c ->
      was_now h t -> expired_cert t (grace o) c = true -> In k (related a) -> warranted h k
  | WFolder ik h' : do_certs o = true -> listed h prefix_certs ik -> listed h ik k ->
      h = (AStat k, XStat StatDir) :: (AList k, XList (Some [])) :: h' -> warranted h k.

  (** every Delete in the history is warranted by the history before it *)
  Fixpoint all_warranted (h : hist) : Prop :=
    match h with
    | [] => True
    | (a, _) :: h' => (forall k, a = ADelete k -> warranted h' k) /\ all_warranted h'
    end.

  (** [p] run from history [h] only issues warranted Deletes, whatever the responses *)
  Inductive SP : hist -> prog -> Prop :=
  | SP_done h r : SP h (Done r)
  | SP_do h a k : (forall key, a = ADelete key -> warranted h key) ->
      (forall key n, a = AStore key n -> key = clean_storage_key) ->
      (forall x, SP ((a, x) :: h) (k x)) -> SP h (Do a k).

  Lemma SP_sound W (wexec : act -> W -> resp * W) p : forall h w, SP h p -> all_warranted h ->
    all_warranted (fst (wrun W wexec p w h)).
  Proof.
    induction p as [r|a k IH]; intros h w HS HA; cbn [wrun]; [exact HA|].
    inversion HS as [|? ? ? Hd _ Hk]; subst.
    destruct (wexec a w) as [x w1]. apply IH; [apply Hk|]. cbn [all_warranted]. split; assumption.
  Qed.

  (** [h1] extends [h] *)
  Definition hext (h1 h : hist) : Prop := exists h', h1 = h' ++ h.
  Lemma hext_refl h : hext h h.
  Proof. exists []; reflexivity. Qed.
  Lemma hext_cons x h1 h : hext h1 h -> hext (x :: h1) h.
  Proof. intros [h' ->]. exists (x :: h'); reflexivity. Qed.
  Lemma hext_trans h2 h1 h : hext h2 h1 -> hext h1 h -> hext h2 h.
  Proof. intros [a ->] [b ->]. exists (a ++ b). rewrite app_assoc. reflexivity. Qed.
  Lemma listed_ext h1 h p k : hext h1 h -> listed h p k -> listed h1 p k.
  Proof. intros [h' ->] [ks [Hi Hk]]. exists ks. split; [apply in_or_app; right; exact Hi | exact Hk]. Qed.
  Lemma listed_here h p ks k : In k ks -> listed ((AList p, XList (Some ks)) :: h) p k.
  Proof. intros Hk. exists ks. split; [left; reflexivity | exact Hk]. Qed.
  Lemma was_read_ext h1 h a c : hext h1 h -> was_read h a c -> was_read h1 a c.
  Proof. intros [h' ->] [v Hi]. exists v. apply in_or_app; right; exact Hi. Qed.
  Lemma was_now_ext h1 h t : hext h1 h -> was_now h t -> was_now h1 t.
  Proof. intros [h' ->] Hi. apply in_or_app; right; exact Hi. Qed.

  (** safe whatever is prepended to the history *)
  Definition K (h : hist) (p : prog) : Prop := forall h1, hext h1 h -> SP h1 p.
  Lemma K_ext h1 h p : hext h1 h -> K h p -> K h1 p.
  Proof. intros E HK h2 E2. apply HK. exact (hext_trans _ _ _ E2 E). Qed.

  Ltac nodel := let key := fresh in let E := fresh in intros key E; discriminate E.
  Ltac nostore := let key := fresh in let n := fresh in let E := fresh in intros key n E; discriminate E.

  Lemma staples_safe kont : do_ocsp o = true -> forall ks h,
    (forall k, In k ks -> listed h prefix_ocsp k) -> K h kont -> K h (staples_prog ks kont).
  Proof.
    intros Ho. induction ks as [|k r IH]; intros h HL HK; cbn [staples_prog]; [exact HK|].
    assert (HLr : forall k', In k' r -> listed h prefix_ocsp k') by (intros k' H; apply HL; right; exact H).
    intros h1 E1. apply SP_do; [nodel|nostore|]. intros c.
    assert (Ec : hext ((ACancelled, c) :: h1) h) by (apply hext_cons; exact E1).
    destruct c as [| | |[|]|]; try exact (HK _ Ec).
    apply SP_do; [nodel|nostore|]. intros x.
    assert (Ex : hext ((ALoad k, x) :: (ACancelled, XBool false) :: h1) h) by (apply hext_cons; exact Ec).
    destruct x as [[v c| |]| | | |]; try exact (IH h HLr HK _ Ex).
    apply SP_do; [nodel|nostore|]. intros tm.
    assert (Et : hext ((ANow, tm) :: (ALoad k, XLoad (LOk v c)) :: (ACancelled, XBool false) :: h1) h)
      by (apply hext_cons; exact Ex).
    destruct tm as [| | | |t]; try exact (IH h HLr HK _ Et).
    destruct (stale_staple t c) eqn:St; [|exact (IH h HLr HK _ Et)].
    apply SP_do; [|nostore|].
    - intros key E; injection E; intros <-. apply (WStaple _ _ c t Ho).
      + apply (listed_ext _ h); [exact Et | apply HL; left; reflexivity].
      + exists v. right; left; reflexivity.
      + left; reflexivity.
      + exact St.
    - intros d. apply (IH h HLr HK). apply hext_cons; exact Et.
  Qed.

  Lemma old_staples_safe kont : do_ocsp o = true -> (forall h, K h kont) ->
    forall h, K h (old_staples_prog kont).
  Proof.
    intros Ho HK h h1 E1. unfold old_staples_prog. apply SP_do; [nodel|nostore|]. intros x.
    destruct x as [|[ks|]| | |]; try (apply (HK _ _ (hext_refl _))).
    apply (staples_safe kont Ho ks _ (fun k => listed_here h1 prefix_ocsp ks k) (HK _) _ (hext_refl _)).
  Qed.

  Section CertFacts.
    Variables (ik sk a : key) (c : cls) (t : Z) (h : hist).
    Hypotheses (Ho : do_certs o = true) (L1 : listed h prefix_certs ik) (L2 : listed h ik sk)
               (L3 : listed h sk a) (Hext : seqb (path_ext a) clean_ext_crt = true)
               (Hr : was_read h a c) (Hn : was_now h t) (Hx : expired_cert t (grace o) c = true).

    Lemma cert_warrant h1 k : hext h1 h -> In k (related a) -> warranted h1 k.
    Proof.
      intros E Hin. apply (WCert h1 k ik sk a c t Ho); try assumption;
        try (eapply listed_ext; eassumption); [eapply was_read_ext; eassumption | eapply was_now_ext; eassumption].
    Qed.

    Lemma related_safe kont : forall sufs, incl sufs clean_related_suffixes -> K h kont ->
      K h (related_prog (trim_suffix clean_trim_suffix a) sufs kont).
    Proof.
      induction sufs as [|x r IH]; intros Hi HK; cbn [related_prog]; [exact HK|].
      intros h1 E1. apply SP_do; [|nostore|].
      - intros key E; injection E; intros <-. apply cert_warrant; [exact E1|].
        right. apply in_map_iff. exists x. split; [reflexivity | apply Hi; left; reflexivity].
      - intros d. apply IH; [intros y Hy; apply Hi; right; exact Hy | exact HK | apply hext_cons; exact E1].
    Qed.
  End CertFacts.

  Lemma assets_safe kont ik sk : do_certs o = true -> forall assets h,
    listed h prefix_certs ik -> listed h ik sk -> (forall a, In a assets -> listed h sk a) ->
    (forall b, K h (kont b)) -> K h (assets_prog (grace o) assets kont).
  Proof.
    intros Ho. induction assets as [|a r IH]; intros h L1 L2 L3 HK; cbn [assets_prog]; [apply HK|].
    assert (L3r : forall a', In a' r -> listed h sk a') by (intros a' H; apply L3; right; exact H).
    destruct (negb (seqb (path_ext a) clean_ext_crt)) eqn:Ext; [exact (IH h L1 L2 L3r HK)|].
    apply negb_false_iff in Ext.
    intros h1 E1. apply SP_do; [nodel|nostore|]. intros x.
    assert (Ex : hext ((ALoad a, x) :: h1) h) by (apply hext_cons; exact E1).
    destruct x as [[v c| |]| | | |]; try exact (HK true _ Ex).
    destruct (as_cert c) eqn:Ac; [|exact (HK true _ Ex)].
    apply SP_do; [nodel|nostore|]. intros tm.
    assert (Et : hext ((ANow, tm) :: (ALoad a, XLoad (LOk v c)) :: h1) h) by (apply hext_cons; exact Ex).
    destruct tm as [| | | |t]; try exact (HK true _ Et).
    destruct (expired_cert t (grace o) c) eqn:Xp; [|exact (IH h L1 L2 L3r HK _ Et)].
    clear Ex. rename Et into Ex.
    set (hx := (ANow, XTime t) :: (ALoad a, XLoad (LOk v c)) :: h1) in *.
    assert (R : was_read hx a c) by (exists v; right; left; reflexivity).
    assert (Nw : was_now hx t) by (left; reflexivity).
    assert (M1 := listed_ext _ _ _ _ Ex L1). assert (M2 := listed_ext _ _ _ _ Ex L2).
    assert (M3 := listed_ext _ _ _ _ Ex (L3 a (or_introl eq_refl))).
    apply SP_do; [|nostore|].
    - intros key E; injection E; intros <-.
      apply (cert_warrant ik sk a c t hx Ho M1 M2 M3 Ext R Nw Xp); [apply hext_refl | left; reflexivity].
    - intros d.
      apply (related_safe ik sk a c t hx Ho M1 M2 M3 Ext R Nw Xp _ _ (incl_refl _)); [|apply hext_cons, hext_refl].
      apply (K_ext _ h); [exact Ex|]. exact (IH h L1 L2 L3r HK).
  Qed.

  Lemma sites_safe kont ik : do_certs o = true -> forall sites h,
    listed h prefix_certs ik -> (forall sk, In sk sites -> listed h ik sk) ->
    (forall b, K h (kont b)) -> K h (sites_prog (grace o) sites kont).
  Proof.
    intros Ho. induction sites as [|sk r IH]; intros h L1 L2 HK; cbn [sites_prog]; [apply HK|].
    assert (L2r : forall s', In s' r -> listed h ik s') by (intros s' H; apply L2; right; exact H).
    assert (Rest : K h (sites_prog (grace o) r kont)) by exact (IH h L1 L2r HK).
    intros h1 E1. apply SP_do; [nodel|nostore|]. intros c.
    assert (Ec : hext ((ACancelled, c) :: h1) h) by (apply hext_cons; exact E1).
    destruct c as [| | |[|]|]; try exact (HK true _ Ec).
    apply SP_do; [nodel|nostore|]. intros x.
    set (hx := (AList sk, x) :: (ACancelled, XBool false) :: h1).
    assert (Ex : hext hx h) by (apply hext_cons; exact Ec).
    destruct x as [|[assets|]| | |]; try exact (Rest _ Ex).
    assert (M1 := listed_ext _ _ _ _ Ex L1).
    assert (M2 := listed_ext _ _ _ _ Ex (L2 sk (or_introl eq_refl))).
    apply (assets_safe _ ik sk Ho assets hx M1 M2 (fun a => listed_here _ sk assets a)); [|apply hext_refl].
    intros ab h2 E2. assert (E2h : hext h2 h) by exact (hext_trans _ _ _ E2 Ex).
    destruct ab; [exact (HK true _ E2h)|].
    apply SP_do; [nodel|nostore|]. intros y.
    assert (Ey : hext ((AList sk, y) :: h2) h) by (apply hext_cons; exact E2h).
    destruct y as [|[[|y0 ys]|]| | |]; try exact (Rest _ Ey).
    apply SP_do; [nodel|nostore|]. intros z.
    assert (Ez : hext ((AStat sk, z) :: (AList sk, XList (Some [])) :: h2) h) by (apply hext_cons; exact Ey).
    destruct z as [| |[| |]| |]; try exact (Rest _ Ez).
    apply SP_do; [|nostore|].
    - intros key E; injection E; intros <-. apply (WFolder _ _ ik h2 Ho).
      + exact (listed_ext _ _ _ _ Ez L1).
      + exact (listed_ext _ _ _ _ Ez (L2 sk (or_introl eq_refl))).
      + reflexivity.
    - intros d. assert (Ed : hext ((ADelete sk, d) :: (AStat sk, XStat StatDir) :: (AList sk, XList (Some [])) :: h2) h)
        by (apply hext_cons; exact Ez).
      destruct d as [| | |[|]|]; try exact (HK true _ Ed). exact (Rest _ Ed).
  Qed.

  Lemma issuers_safe kont : do_certs o = true -> forall iss h,
    (forall ik, In ik iss -> listed h prefix_certs ik) ->
    (forall b, K h (kont b)) -> K h (issuers_prog (grace o) iss kont).
  Proof.
    intros Ho. induction iss as [|ik r IH]; intros h L1 HK; cbn [issuers_prog]; [apply HK|].
    assert (L1r : forall i', In i' r -> listed h prefix_certs i') by (intros i' H; apply L1; right; exact H).
    assert (Rest : K h (issuers_prog (grace o) r kont)) by exact (IH h L1r HK).
    intros h1 E1. apply SP_do; [nodel|nostore|]. intros x.
    set (hx := (AList ik, x) :: h1).
    assert (Ex : hext hx h) by (apply hext_cons; exact E1).
    destruct x as [|[sites|]| | |]; try exact (Rest _ Ex).
    apply (sites_safe _ ik Ho sites hx (listed_ext _ _ _ _ Ex (L1 ik (or_introl eq_refl)))
             (fun s => listed_here _ ik sites s)); [|apply hext_refl].
    intros ab h2 E2. assert (E2h : hext h2 h) by exact (hext_trans _ _ _ E2 Ex).
    destruct ab; [exact (HK true _ E2h) | exact (Rest _ E2h)].
  Qed.

  Lemma expired_certs_safe kont : do_certs o = true -> (forall h, K h kont) ->
    forall h, K h (expired_certs_prog (grace o) kont).
  Proof.
    intros Ho HK h h1 E1. unfold expired_certs_prog. apply SP_do; [nodel|nostore|]. intros x.
    destruct x as [|[iss|]| | |]; try (apply (HK _ _ (hext_refl _))).
    apply (issuers_safe _ Ho iss _ (fun i => listed_here h1 prefix_certs iss i) (fun _ => HK _) _ (hext_refl _)).
  Qed.

  Lemma record_safe h : K h (record_prog o).
  Proof.
    intros h1 _. unfold record_prog. apply SP_do; [nodel|nostore|]. intros [| | | |t]; try apply SP_done.
    apply SP_do; [nodel| |]; [intros key n E; injection E; intros _ <-; reflexivity|]. intros [| | |[|]|]; apply SP_done.
  Qed.
  Lemma work_safe h : K h (work_prog o).
  Proof.
    unfold work_prog. cbn zeta.
    assert (P2 : forall h, K h (if do_certs o then expired_certs_prog (grace o) (record_prog o) else record_prog o)).
    { intros h0. destruct (do_certs o) eqn:Hc; [apply expired_certs_safe; [assumption | apply record_safe] | apply record_safe]. }
    destruct (do_ocsp o) eqn:Ho; [apply old_staples_safe; assumption | apply P2].
  Qed.

  Lemma clean_locked_safe h : SP h (clean_locked_prog o).
  Proof.
    unfold clean_locked_prog. destruct (0 <? interval o); [|exact (work_safe h h (hext_refl _))].
    apply SP_do; [nodel|nostore|]. intros x.
    destruct x as [[v c| |]| | | |]; try apply SP_done; [|exact (work_safe _ _ (hext_refl _))].
    destruct (as_clean c) as [[ts i]|]; [|apply SP_done].
    apply SP_do; [nodel|nostore|]. intros [| | | |t]; try apply SP_done.
    destruct (cmp_holds clean_interval_cmp (t - ts) (interval o)); [apply SP_done | exact (work_safe _ _ (hext_refl _))].
  Qed.

  (** whatever the world answers -- to the storage calls and to the readings of the clock --
      every Delete of a cleaning is warranted by what the cleaner itself has read earlier in this run *)
  Theorem deletes_warranted W (wexec : act -> W -> resp * W) w :
    all_warranted (fst (wrun W wexec (clean_locked_prog o) w [])).
  Proof. apply SP_sound; [apply clean_locked_safe | exact I]. Qed.

  (** * On a storage that honours the List contract: the keys a cleaner can address *)
  Definition honest (h : hist) : Prop :=
    forall p ks, In (AList p, XList (Some ks)) h -> Forall (child p) ks.
  Definition in_clean_namespace (k : key) : Prop :=
    child spec_ocsp k \/
    (exists a, site_assetb a = true /\ seqb (path_ext a) spec_ext_crt = true /\
               In k [a; trim_suffix spec_ext_crt a ++ spec_ext_key; trim_suffix spec_ext_crt a ++ spec_ext_json]) \/
    site_folder k.

  Lemma listed_child h p k : honest h -> listed h p k -> child p k.
  Proof. intros Hh [ks [Hi Hk]]. exact (proj1 (Forall_forall _ _) (Hh p ks Hi) k Hk). Qed.

  Lemma warranted_namespace h k : honest h -> warranted h k -> in_clean_namespace k.
  Proof.
    destruct consts_ok as (Ec & Et & Er & _ & _ & _ & _ & _ & Epc & Epo).
    intros Hh [c t _ L _ _ _|ik sk a c t _ L1 L2 L3 Ext _ _ _ Hin|ik h' _ L1 L2 _].
    - left. rewrite <- Epo. exact (listed_child _ _ _ Hh L).
    - right; left. exists a.
      assert (Sf : site_folder sk).
      { exists ik. split; [rewrite <- Epc; exact (listed_child _ _ _ Hh L1) | exact (listed_child _ _ _ Hh L2)]. }
      split; [exact (site_asset_shape _ _ Sf (listed_child _ _ _ Hh L3))|].
      split; [rewrite <- Ec; exact Ext|].
      unfold related in Hin. rewrite Et, Er in Hin. exact Hin.
    - right; right. exists ik. split; [rewrite <- Epc; exact (listed_child _ _ _ Hh L1) | exact (listed_child _ _ _ Hh L2)].
  Qed.

  Lemma honest_tail x h : honest (x :: h) -> honest h.
  Proof. intros Hh p ks Hi. apply Hh. right; exact Hi. Qed.

  Lemma all_warranted_in h : honest h -> all_warranted h ->
    forall k x, In (ADelete k, x) h -> in_clean_namespace k.
  Proof.
    induction h as [|[a y] h IH]; intros Hh HA k x Hin; [contradiction|].
    cbn [all_warranted] in HA. destruct HA as [Hd HA].
    destruct Hin as [E|Hin].
    - injection E; intros _ ->. exact (warranted_namespace h k (honest_tail _ _ Hh) (Hd k eq_refl)).
    - exact (IH (honest_tail _ _ Hh) HA k x Hin).
  Qed.
End Warrant.

(** * A cleaning with foreign operations on an honest storage *)
Section Foreign.
  Variables (e : env) (clk : nat -> Z) (fs : list (nat * fop)).
  Definition iexec (a : act) (s : st) : resp * st := exec e clk a (if logs a then interfere fs s else s).

  Lemma runi_wrun p : forall s h, snd (runi e clk fs p s) = snd (wrun st iexec p s h).
  Proof.
    induction p as [r|a k IH]; intros s h; cbn [runi wrun]; [reflexivity|].
    unfold iexec. destruct (exec e clk a (if logs a then interfere fs s else s)) as [x s1]. apply IH.
  Qed.

  (** one call: the log grows by at most one event, a Delete event only for [ADelete];
      a listing answers with children *)
  Lemma iexec_spec a s x s1 : iexec a s = (x, s1) ->
    (lg s1 = lg s \/ exists ev, lg s1 = ev :: lg s /\
       (ev_kind ev = KDelete -> a = ADelete (ev_key ev))) /\
    (forall p ks, a = AList p -> x = XList (Some ks) -> Forall (child p) ks).
  Proof.
    unfold iexec. set (s' := if logs a then interfere fs s else s).
    assert (El : lg s' = lg s) by (subst s'; destruct (logs a); reflexivity).
    rewrite <- El. clearbody s'. clear El.
    destruct a as [k|k|k|k|k n| |]; cbn [exec].
    - destruct (do_load e k s') as [r s2] eqn:D. intros H; injection H; intros <- <-.
      split; [|discriminate]. right.
      unfold do_load in D. destruct (faulty e s'); [|destruct (lookup (sto s') k) as [[? ?|]|]; try destruct (is_dir _ _)];
        injection D; intros <- _; eexists; (split; [reflexivity | discriminate]).
    - destruct (do_list e k s') as [r s2] eqn:D. intros H; injection H; intros <- <-.
      split.
      + right. unfold do_list in D. destruct (faulty e s'); injection D; intros <- _;
          eexists; (split; [reflexivity | discriminate]).
      + intros p ks Ea Ex. injection Ea; intros <-. injection Ex; intros ->.
        destruct (do_list_spec _ _ _ _ _ D) as [_ Hl]. exact (list_pure_child _ _ _ _ (Hl ks eq_refl)).
    - destruct (do_stat e k s') as [r s2] eqn:D. intros H; injection H; intros <- <-.
      split; [|discriminate]. right.
      unfold do_stat in D. destruct (faulty e s'); injection D; intros <- _; eexists; (split; [reflexivity | discriminate]).
    - destruct (do_delete e k s') as [r s2] eqn:D. intros H; injection H; intros <- <-.
      split; [|discriminate]. right.
      unfold do_delete in D. destruct (faulty e s'); [|destruct (pfaulty e s'); [|destruct (efaulty e s')]]; injection D; intros <- _; eexists; (split; [reflexivity | reflexivity]).
    - destruct (do_store e k n s') as [r s2] eqn:D. intros H; injection H; intros <- <-.
      split; [|discriminate]. right.
      unfold do_store in D. destruct (faulty e s'); [|destruct (is_dir _ _); [|destruct (efaulty e s')]]; injection D; intros <- _;
        eexists; (split; [reflexivity | discriminate]).
    - intros H; injection H; intros <- <-. split; [left; reflexivity | discriminate].
    - intros H; injection H; intros <- <-. split; [left; reflexivity | discriminate].
  Qed.

  (** invariant of the run: listings in the history are honest, every Delete event of the log
      (beyond the log [l0] the body started with) is a Delete of the history *)
  Definition J (l0 : list event) (s : st) (h : hist) : Prop :=
    honest h /\
    forall ev, In ev (lg s) -> ev_kind ev = KDelete -> In ev l0 \/ exists x, In (ADelete (ev_key ev), x) h.

  Lemma wrun_J l0 p : forall s h, J l0 s h ->
    J l0 (snd (wrun st iexec p s h)) (fst (wrun st iexec p s h)).
  Proof.
    induction p as [r|a k IH]; intros s h HJ; cbn [wrun]; [exact HJ|].
    destruct (iexec a s) as [x s1] eqn:Ex. apply IH.
    destruct (iexec_spec _ _ _ _ Ex) as (Hlog & Hlist). destruct HJ as [Hh Hd]. split.
    - intros p ks [E|Hin]; [|exact (Hh p ks Hin)].
      injection E; intros -> ->. exact (Hlist p ks eq_refl eq_refl).
    - intros ev Hin Hk. destruct Hlog as [El|[ev' [El Hev]]]; rewrite El in Hin.
      + destruct (Hd ev Hin Hk) as [H|[y H]]; [left; exact H | right; exists y; right; exact H].
      + destruct Hin as [<-|Hin].
        * right. exists x. left. rewrite (Hev Hk). reflexivity.
        * destruct (Hd ev Hin Hk) as [H|[y H]]; [left; exact H | right; exists y; right; exact H].
  Qed.

  (** every Delete call of a cleaning -- with any foreign operations applied at any of its calls,
      any storage content, fault plan, cancellation point -- addresses a key of the cleaned
      namespaces *)
  Theorem cleani_deletes_in_namespace o s0 ev :
    In ev (lg (snd (cleani e fs o clk s0))) -> ev_kind ev = KDelete -> in_clean_namespace (ev_key ev).
  Proof.
    unfold cleani. destruct (do_lock e (St s0 [])) as [ok s1] eqn:L.
    assert (L1 : forall ev, In ev (lg s1) -> ev_kind ev <> KDelete).
    { unfold do_lock in L. destruct (faulty e (St s0 [])); injection L; intros <- _; cbn;
        intros ev' [<-|[]]; discriminate. }
    destruct ok; [|intros Hin Hk; exfalso; exact (L1 ev Hin Hk)].
    destruct (runi e clk fs (clean_locked_prog o) s1) as [r s2] eqn:R. cbn [snd].
    assert (E2 : s2 = snd (wrun st iexec (clean_locked_prog o) s1 [])).
    { rewrite <- (runi_wrun _ s1 []). rewrite R. reflexivity. }
    intros Hin Hk. unfold do_unlock in Hin. cbn [lg logged] in Hin. destruct Hin as [<-|Hin]; [discriminate|].
    assert (J0 : J (lg s1) s1 []).
    { split; [intros p ks []|]. intros ev' H _. left; exact H. }
    pose proof (wrun_J (lg s1) (clean_locked_prog o) s1 [] J0) as [Hh Hd].
    rewrite <- E2 in Hd. destruct (Hd ev Hin Hk) as [H|[x H]]; [exfalso; exact (L1 ev H Hk)|].
    exact (all_warranted_in o _ Hh (deletes_warranted o st iexec s1) _ _ H).
  Qed.
End Foreign.

(** * Frame: what the cleaner does not touch, whatever the others do elsewhere *)
Lemma namespace_prefix x : in_clean_namespace x ->
  has_prefix ocsp_pfx x = true \/ has_prefix certs_pfx x = true.
Proof.
  intros [[c [-> _]]|[(a & Sa & _ & Hin)|(ik & [c1 [-> _]] & [c2 [-> _]])]].
  - left. apply has_prefix_spec. exists c. unfold ocsp_pfx. rewrite <- app_assoc. reflexivity.
  - right. pose proof (asset_base_prefix a Sa) as Hb.
    apply site_assetb_spec in Sa. destruct Sa as [r [Ea _]].
    destruct Hin as [<-|[<-|[<-|[]]]].
    + apply has_prefix_spec. eauto.
    + apply has_prefix_app. exact Hb.
    + apply has_prefix_app. exact Hb.
  - right. apply has_prefix_spec. exists (c1 ++ c_sl :: c2). unfold certs_pfx.
    rewrite <- !app_assoc. reflexivity.
Qed.

Section Frame.
  Variables (e : env) (clk : nat -> Z) (fs : list (nat * fop)) (o : opts) (s0 : store) (k : key).
  Hypotheses (Hout1 : has_prefix ocsp_pfx k = false) (Hout2 : has_prefix certs_pfx k = false)
             (Hk : k <> spec_last_clean).
  (** the foreign operation changes the node of k *)
  Definition touches (f : fop) : bool :=
    match f with FPut k' _ => seqb k' k | FDel k' => covers k' k end.
  Hypothesis Hfs : forall i f, In (i, f) fs -> touches f = false.

  Lemma apply_at_frame l i : (forall j f, In (j, f) l -> touches f = false) ->
    forall s, lookup (apply_at l i s) k = lookup s k.
  Proof.
    induction l as [|[j f] r IH]; intros Hl s; [reflexivity|]. cbn [apply_at].
    rewrite IH by (intros j' f' H; apply (Hl j' f'); right; exact H).
    destruct (Nat.eqb j i); [|reflexivity].
    pose proof (Hl j f (or_introl eq_refl)) as T. destruct f as [k' n|k']; cbn [fapply touches] in *.
    - rewrite lookup_put, T. reflexivity.
    - rewrite lookup_remove, T. reflexivity.
  Qed.

  Lemma not_covered x : in_clean_namespace x -> covers x k = false.
  Proof.
    intros Hn. destruct (covers x k) eqn:C; [|reflexivity]. exfalso.
    destruct (namespace_prefix x Hn) as [P|P]; pose proof (covers_prefix _ _ _ P C); congruence.
  Qed.

  Lemma wrun_frame p : forall s h, SP o h p -> honest h -> lookup (sto s) k = lookup s0 k ->
    lookup (sto (snd (wrun st (iexec e clk fs) p s h))) k = lookup s0 k.
  Proof.
    induction p as [r|a kont IH]; intros s h HS Hh HP; cbn [wrun]; [exact HP|].
    inversion HS as [|? ? ? Hd Hst Hk']; subst.
    destruct (iexec e clk fs a s) as [x s1] eqn:Ex.
    destruct (iexec_spec e clk fs _ _ _ _ Ex) as (_ & Hlist).
    apply IH; [apply Hk'| |].
    - intros p ks [E|Hin]; [|exact (Hh p ks Hin)]. injection E; intros -> ->. exact (Hlist p ks eq_refl eq_refl).
    - unfold iexec in Ex. set (s' := if logs a then interfere fs s else s) in Ex.
      assert (HP' : lookup (sto s') k = lookup s0 k).
      { subst s'. destruct (logs a); [|exact HP]. unfold interfere. cbn [sto]. rewrite apply_at_frame; [exact HP | exact Hfs]. }
      clearbody s'. destruct a as [k0|k0|k0|k0|k0 n| |]; cbn [exec] in Ex.
      + destruct (do_load e k0 s') as [r s2] eqn:D. injection Ex; intros <- _.
        rewrite (proj1 (do_load_spec _ _ _ _ _ D)). exact HP'.
      + destruct (do_list e k0 s') as [r s2] eqn:D. injection Ex; intros <- _.
        rewrite (proj1 (do_list_spec _ _ _ _ _ D)). exact HP'.
      + destruct (do_stat e k0 s') as [r s2] eqn:D. injection Ex; intros <- _.
        rewrite (proj1 (do_stat_spec _ _ _ _ _ D)). exact HP'.
      + destruct (do_delete e k0 s') as [r s2] eqn:D. injection Ex; intros <- _.
        destruct (do_delete_spec _ _ _ _ _ D) as [-> | [-> | [keep ->]]]; [exact HP'| |].
        * rewrite lookup_remove, (not_covered k0 (warranted_namespace o h k0 Hh (Hd k0 eq_refl))). exact HP'.
        * rewrite lookup_removep, (not_covered k0 (warranted_namespace o h k0 Hh (Hd k0 eq_refl))). exact HP'.
      + destruct (do_store e k0 n s') as [r s2] eqn:D. injection Ex; intros <- _.
        destruct (do_store_spec _ _ _ _ _ _ D) as [(_ & -> & _)|(-> & _ & _)]; [exact HP'|].
        rewrite lookup_put, (Hst k0 n eq_refl).
        destruct consts_ok as (_ & _ & _ & _ & _ & _ & _ & -> & _).
        destruct (seqb spec_last_clean k) eqn:E; [apply seqb_eq in E; congruence | exact HP'].
      + injection Ex; intros <- _. exact HP'.
      + injection Ex; intros <- _. exact HP'.
  Qed.

  (** a key outside ocsp/ and certificates/ (account data, locks, anything else) other than
      last_clean.json, whose node no other actor changes, has after the cleaning the node it had
      before -- whatever the other actors do to other keys, whenever *)
  Theorem cleani_frame : lookup (sto (snd (cleani e fs o clk s0))) k = lookup s0 k.
  Proof.
    unfold cleani, do_lock. destruct (faulty e (St s0 [])); [reflexivity|]. cbn [logged].
    match goal with |- context [runi e clk fs ?p ?sx] =>
      pose proof (runi_wrun e clk fs p sx []) as R;
      pose proof (wrun_frame p sx [] (clean_locked_safe o []) (fun _ _ H => match H with end) eq_refl) as F;
      destruct (runi e clk fs p sx) as [r s2] end.
    cbn [snd] in *. unfold do_unlock. cbn [sto logged]. rewrite R. exact F.
  Qed.
End Frame.

(** * Frame for the assets of a live certificate: if no other actor touches X.crt (an unexpired
    certificate), the asset in question, or a key above them, the cleaner leaves the asset alone --
    whatever the others do elsewhere (e.g. in other site folders, in ocsp/, to accounts) *)
Lemma covers_trans x y z : covers x y = true -> covers y z = true -> covers x z = true.
Proof.
  unfold covers. intros H1 H2. apply orb_true_iff in H1. apply orb_true_iff in H2. apply orb_true_iff.
  destruct H1 as [H1|H1]; [apply seqb_eq in H1; subst y; exact H2|].
  destruct H2 as [H2|H2]; [apply seqb_eq in H2; subst z; right; exact H1|].
  right. apply under_spec in H1. apply under_spec in H2. destruct H1 as [r1 ->]. destruct H2 as [r2 ->].
  apply under_spec. exists (r1 ++ c_sl :: r2). rewrite <- app_assoc. reflexivity.
Qed.

Lemma site_folder_nsep x : site_folder x -> nsep x = 2%nat.
Proof.
  intros [ik [[c1 [-> H1]] [c2 [-> H2]]]].
  replace ((spec_certs ++ c_sl :: c1) ++ c_sl :: c2) with (spec_certs ++ [c_sl] ++ c1 ++ [c_sl] ++ c2)
    by (rewrite <- !app_assoc; reflexivity).
  rewrite !nsep_app, (nsep_nomem _ H1), (nsep_nomem _ H2). reflexivity.
Qed.
Lemma folder_child x q : site_folder x -> nsep q = 3%nat -> covers x q = true -> child x q.
Proof.
  intros Hx Hq C. pose proof (site_folder_nsep x Hx) as Nx. unfold covers in C. apply orb_true_iff in C.
  destruct C as [C|C]; [apply seqb_eq in C; subst q; lia|].
  apply under_spec in C. destruct C as [r ->]. exists r. split; [reflexivity|].
  apply nsep_zero_nomem. rewrite nsep_app in Hq. cbn [nsep] in Hq. rewrite N.eqb_refl in Hq. lia.
Qed.

Section LiveFrame.
  Variables (e : env) (clk : nat -> Z) (fs : list (nat * fop)) (o : opts) (s0 : store).
  Variables (base suf : key) (v : Z) (c : cls).
  Local Notation a := (base ++ spec_ext_crt).
  Local Notation k := (base ++ suf).
  Hypotheses (Ha : site_assetb a = true) (Hs : In suf asset_exts)
             (Hf : lookup s0 a = Some (File v c))
             (Hlive : forall i, spec_expired (clk i) (grace o) c = false).
  (** the foreign operation acts on q or on a key above it *)
  Definition fkey (f : fop) : key := match f with FPut k' _ => k' | FDel k' => k' end.
  Hypothesis Hfs : forall i f, In (i, f) fs -> covers (fkey f) a = false /\ covers (fkey f) k = false.

  Definition prot (q : key) : Prop := q = k \/ covers q a = true.

  Lemma nsep_k : nsep k = 3%nat.
  Proof.
    rewrite nsep_app, (ext_nsep _ Hs). pose proof (site_assetb_nsep a Ha) as N.
    rewrite nsep_app in N. cbn in N. lia.
  Qed.
  Lemma k_prefix : has_prefix certs_pfx k = true.
  Proof. exact (asset_key_prefix base suf Ha). Qed.
  Lemma a_prefix : has_prefix certs_pfx a = true.
  Proof. apply site_assetb_spec in Ha. destruct Ha as [r [E _]]. apply has_prefix_spec. eauto. Qed.

  Lemma apply_at_prot l i : (forall j f, In (j, f) l -> covers (fkey f) a = false /\ covers (fkey f) k = false) ->
    forall s q, prot q -> lookup (apply_at l i s) q = lookup s q.
  Proof.
    induction l as [|[j f] r IH]; intros Hl s q Hq; [reflexivity|]. cbn [apply_at].
    rewrite IH by (first [exact Hq | intros j' f' H; apply (Hl j' f'); right; exact H]).
    destruct (Nat.eqb j i); [|reflexivity].
    destruct (Hl j f (or_introl eq_refl)) as [T1 T2].
    assert (T : covers (fkey f) q = false).
    { destruct Hq as [->|Hq]; [exact T2|]. destruct (covers (fkey f) q) eqn:C; [|reflexivity].
      rewrite (covers_trans _ _ _ C Hq) in T1. discriminate. }
    destruct f as [k' n|k']; cbn [fapply fkey] in *.
    - rewrite lookup_put. unfold covers in T. apply orb_false_iff in T. rewrite (proj1 T). reflexivity.
    - rewrite lookup_remove, T. reflexivity.
  Qed.

  (** k and X.crt lie in the same folder *)
  Lemma same_folder p : child p k -> covers p a = true.
  Proof.
    intros [ck [Ek Hck]].
    assert (Hb : exists b', base = p ++ c_sl :: b').
    { assert (Ek' : base ++ suf = (p ++ [c_sl]) ++ ck) by (rewrite <- app_assoc; exact Ek).
      destruct (app_eq_app _ _ _ _ Ek') as [l [[E1 E2]|[E1 E2]]].
      - exists l. rewrite E1, <- app_assoc. reflexivity.
      - destruct l as [|z l0] using rev_ind.
        + exists []. rewrite app_nil_r in E1. exact (eq_sym E1).
        + exfalso. rewrite app_assoc in E1. apply app_inj_tail in E1. destruct E1 as [_ Ez]. subst z.
          pose proof (nsep_zero_nomem _ (ext_nsep _ Hs)) as Ns. rewrite E2, !mem_app in Ns. cbn in Ns.
          rewrite orb_true_r in Ns. discriminate. }
    destruct Hb as [b' ->]. unfold covers. apply orb_true_iff. right. apply under_spec.
    exists (b' ++ spec_ext_crt). rewrite <- app_assoc. reflexivity.
  Qed.

  (** what the history must say for the argument: it reflects the storage and the clock *)
  Definition Hsound (h : hist) : Prop :=
    honest h /\
    (forall v' c', In (ALoad a, XLoad (LOk v' c')) h -> c' = c) /\
    (forall t, In (ANow, XTime t) h -> exists i, t = clk i) /\
    (forall p ks q, In (AList p, XList (Some ks)) h -> (q = a \/ (q = k /\ lookup s0 k <> None)) -> child p q ->
       (forall v'' c'', lookup s0 p <> Some (File v'' c'')) -> In q ks) /\
    (forall p, In (AStat p, XStat StatDir) h -> covers p a = true -> forall v'' c'', lookup s0 p <> Some (File v'' c'')).

  (** a warranted Delete covers neither X.crt nor (unless it does not exist anyway) the asset *)
  Lemma warranted_spares h x : Hsound h -> warranted o h x ->
    covers x a = false /\ (covers x k = false \/ lookup s0 k = None).
  Proof.
    intros (Hh & Hld & Hnw & Hls & Hst) W.
    destruct consts_ok as (Ec & Et & Er & Eg & _ & _ & _ & _ & Epc & Epo).
    destruct W as [c' t _ L _ _ _|ik sk a' c' t _ L1 L2 L3 Ext Rd Nw Xp Hin|ik h' _ L1 L2 Eh].
    - (* a staple: another namespace *)
      assert (P : has_prefix ocsp_pfx x = true).
      { rewrite Epo in L. destruct (listed_child _ _ _ Hh L) as [cx [-> _]]. apply has_prefix_spec. exists cx.
        unfold ocsp_pfx. rewrite <- app_assoc. reflexivity. }
      split; [|left].
      + destruct (covers x a) eqn:C; [|reflexivity]. exfalso. exact (pfx_disjoint _ (covers_prefix _ _ _ P C) a_prefix).
      + destruct (covers x k) eqn:C; [|reflexivity]. exfalso. exact (pfx_disjoint _ (covers_prefix _ _ _ P C) k_prefix).
    - (* the assets of a certificate X'.crt read as expired: X' is not X *)
      assert (Sa' : site_assetb a' = true).
      { apply (site_asset_shape sk a'); [|exact (listed_child _ _ _ Hh L3)].
        exists ik. split; [rewrite <- Epc; exact (listed_child _ _ _ Hh L1) | exact (listed_child _ _ _ Hh L2)]. }
      rewrite Ec in Ext. unfold related in Hin. rewrite Et, Er in Hin.
      assert (Xs : spec_expired t (grace o) c' = true).
      { unfold expired_cert in Xp. unfold spec_expired. destruct (as_cert c'); [|discriminate]. rewrite Eg, cmp_ge_spec in Xp. exact Xp. }
      assert (Key : forall suf', In suf' asset_exts -> covers x (base ++ suf') = true -> False).
      { intros suf' Hs' C.
        assert (J : j_cert t (grace o) [(a', File 0 c')] (base ++ suf') = true).
        { unfold j_cert. cbn [map fst existsb]. rewrite orb_false_r. unfold j_cert_by. rewrite Sa', Ext.
          assert (B : (if covers a' (base ++ suf') then true
                       else if covers (trim_suffix spec_ext_crt a' ++ spec_ext_key) (base ++ suf') then true
                            else covers (trim_suffix spec_ext_crt a' ++ spec_ext_json) (base ++ suf')) = true).
          { destruct Hin as [<-|[<-|[<-|[]]]]; rewrite C.
            - reflexivity.
            - destruct (covers a' (base ++ suf')); reflexivity.
            - destruct (covers a' (base ++ suf')); [reflexivity|].
              destruct (covers (trim_suffix spec_ext_crt a' ++ spec_ext_key) (base ++ suf')); reflexivity. }
          rewrite B. unfold file. cbn [lookup]. rewrite seqb_refl. exact Xs. }
        pose proof (j_cert_asset _ _ _ _ _ Ha Hs' J) as M. unfold file in M. cbn [lookup] in M.
        destruct (seqb a' a) eqn:E; [|discriminate]. apply seqb_eq in E. subst a'.
        destruct Rd as [v' Rd]. rewrite (Hld v' c' Rd) in Xs.
        destruct (Hnw t Nw) as [i ->]. rewrite Hlive in Xs. discriminate. }
      split; [|left].
      + destruct (covers x a) eqn:C; [|reflexivity]. exfalso. apply (Key spec_ext_crt); [left; reflexivity | exact C].
      + destruct (covers x k) eqn:C; [|reflexivity]. exfalso. exact (Key suf Hs C).
    - (* a site folder listed empty and Stat'ed non-terminal: X.crt would have been listed *)
      assert (Sf : site_folder x).
      { exists ik. split; [rewrite <- Epc; exact (listed_child _ _ _ Hh L1) | exact (listed_child _ _ _ Hh L2)]. }
      assert (InS : In (AStat x, XStat StatDir) h) by (rewrite Eh; left; reflexivity).
      assert (InL : In (AList x, XList (Some [])) h) by (rewrite Eh; right; left; reflexivity).
      assert (NoA : covers x a = false).
      { destruct (covers x a) eqn:C; [|reflexivity]. exfalso.
        pose proof (folder_child x a Sf (site_assetb_nsep a Ha) C) as Ch.
        exact (Hls x [] a InL (or_introl eq_refl) Ch (Hst x InS C)). }
      split; [exact NoA|].
      destruct (covers x k) eqn:C; [|left; reflexivity]. right.
      destruct (lookup s0 k) as [n|] eqn:Lk; [|reflexivity]. exfalso.
      pose proof (folder_child x k Sf nsep_k C) as Ch.
      (* x is the folder of k, hence of a: both are base ++ ext below the same last slash *)
      pose proof (same_folder x Ch) as Ca.
      rewrite Ca in NoA. discriminate.
  Qed.

  Definition Ilive (s : st) : Prop := forall q, prot q -> lookup (sto s) q = lookup s0 q.

  Lemma prot_a : prot a.
  Proof. right. unfold covers. rewrite seqb_refl. reflexivity. Qed.
  Lemma prot_not_record q : prot q -> seqb spec_last_clean q = false.
  Proof.
    intros Hq. destruct (seqb spec_last_clean q) eqn:E; [|reflexivity]. exfalso. apply seqb_eq in E. subst q.
    destruct Hq as [E|C].
    - pose proof k_prefix as P. rewrite <- E in P. vm_compute in P. discriminate.
    - pose proof (covers_prefix (spec_last_clean) spec_last_clean a) as X.
      pose proof a_prefix as P. apply has_prefix_spec in P. destruct P as [r Er].
      unfold covers in C. apply orb_true_iff in C. destruct C as [C|C].
      + apply seqb_eq in C. rewrite <- C in Er. vm_compute in Er. discriminate.
      + apply under_spec in C. destruct C as [r' Er']. rewrite Er' in Er. vm_compute in Er. discriminate.
  Qed.

  (** one call of the cleaner on a storage in which the protected keys have their initial nodes: the history
      stays sound and the protected keys keep their nodes *)
  Lemma live_step act kont s' h x s1 : SP o h (Do act kont) -> Hsound h -> Ilive s' ->
    exec e clk act s' = (x, s1) ->
    SP o ((act, x) :: h) (kont x) /\ Hsound ((act, x) :: h) /\ Ilive s1.
  Proof.
    intros HS Hh HI' Ex. inversion HS as [|? ? ? Hd Hst Hk']; subst.
    assert (Hlist : forall p ks, act = AList p -> x = XList (Some ks) -> Forall (child p) ks).
    { intros p ks -> ->. cbn [exec] in Ex. destruct (do_list e p s') as [r s2] eqn:D. injection Ex; intros _ Er. subst r.
      destruct (do_list_spec _ _ _ _ _ D) as [_ Hl]. exact (list_pure_child _ _ _ _ (Hl ks eq_refl)). }
    split; [apply Hk'|]. split.
    - (* the history stays sound *)
      destruct Hh as (Hh & Hld & Hnw & Hls & Hsd). repeat split.
      + intros p ks [E|Hin]; [|exact (Hh p ks Hin)]. injection E; intros -> ->. exact (Hlist p ks eq_refl eq_refl).
      + intros v' c' [E|Hin]; [|exact (Hld v' c' Hin)]. injection E; intros -> ->. cbn [exec] in Ex.
        destruct (do_load e a s') as [r s2] eqn:D. injection Ex; intros _ ->.
        destruct (do_load_spec _ _ _ _ _ D) as (_ & Hok & _). pose proof (Hok v' c' eq_refl) as L.
        rewrite (HI' a prot_a), Hf in L. injection L; intros _ _. congruence.
      + intros t [E|Hin]; [|exact (Hnw t Hin)]. injection E; intros -> ->. cbn [exec] in Ex.
        injection Ex; intros _ <-. eexists; reflexivity.
      + intros p ks q [E|Hin] Hq Ch Hp; [|exact (Hls p ks q Hin Hq Ch Hp)]. injection E; intros -> ->. cbn [exec] in Ex.
        destruct (do_list e p s') as [r s2] eqn:D. injection Ex; intros _ ->.
        destruct (do_list_spec _ _ _ _ _ D) as (_ & Hl). pose proof (Hl ks eq_refl) as L.
        assert (Pp : prot p).
        { right. destruct Hq as [->|[-> _]]; [|exact (same_folder p Ch)].
          destruct Ch as [ca [-> _]]. unfold covers. apply orb_true_iff. right. apply under_spec. eauto. }
        assert (Pq : prot q) by (destruct Hq as [->|[-> _]]; [exact prot_a | left; reflexivity]).
        assert (Lq : exists n, lookup (sto s') q = Some n).
        { rewrite (HI' q Pq). destruct Hq as [->|[-> Hn]]; [rewrite Hf; eauto|].
          destruct (lookup s0 k) as [n|]; [eauto | contradiction]. }
        destruct Lq as [n Lq].
        assert (Hp' : forall v'' c'', lookup (sto s') p <> Some (File v'' c'')) by (rewrite (HI' p Pp); exact Hp).
        destruct (list_pure_complete (lfe e) (sto s') p q n Lq Ch Hp') as [ks' [L' Hin']].
        rewrite L in L'. injection L'; intros <-. exact Hin'.
      + intros p [E|Hin] C; [|exact (Hsd p Hin C)]. injection E; intros -> ->. cbn [exec] in Ex.
        destruct (do_stat e p s') as [r s2] eqn:D. injection Ex; intros _ ->.
        destruct (do_stat_spec _ _ _ _ _ D) as (_ & Hdir). intros v'' c''.
        rewrite <- (HI' p (or_intror C)). exact (Hdir eq_refl v'' c'').
    - (* the protected keys keep their nodes *)
      destruct act as [k0|k0|k0|k0|k0 n| |]; cbn [exec] in Ex.
      + destruct (do_load e k0 s') as [r s2] eqn:D. injection Ex; intros <- _.
        intros q Hq. rewrite (proj1 (do_load_spec _ _ _ _ _ D)). exact (HI' q Hq).
      + destruct (do_list e k0 s') as [r s2] eqn:D. injection Ex; intros <- _.
        intros q Hq. rewrite (proj1 (do_list_spec _ _ _ _ _ D)). exact (HI' q Hq).
      + destruct (do_stat e k0 s') as [r s2] eqn:D. injection Ex; intros <- _.
        intros q Hq. rewrite (proj1 (do_stat_spec _ _ _ _ _ D)). exact (HI' q Hq).
      + destruct (do_delete e k0 s') as [r s2] eqn:D. injection Ex; intros <- _.
        intros q Hq.
        assert (Rm : forall b, (if covers k0 q && b then None else lookup (sto s') q) = lookup s0 q).
        { intros b. destruct (warranted_spares h k0 Hh (Hd k0 eq_refl)) as [Na Nk].
          destruct (covers k0 q) eqn:C; [|exact (HI' q Hq)]. destruct b; [|exact (HI' q Hq)]. cbn [andb].
          destruct Hq as [->|Hq].
          * destruct Nk as [Nk|Nk]; [congruence | symmetry; exact Nk].
          * rewrite (covers_trans _ _ _ C Hq) in Na. discriminate. }
        destruct (do_delete_spec _ _ _ _ _ D) as [-> | [-> | [keep ->]]]; [exact (HI' q Hq)| |].
        * rewrite lookup_remove. specialize (Rm true). rewrite andb_true_r in Rm. exact Rm.
        * rewrite lookup_removep. apply Rm.
      + destruct (do_store e k0 n s') as [r s2] eqn:D. injection Ex; intros <- _.
        intros q Hq. destruct (do_store_spec _ _ _ _ _ _ D) as [(_ & -> & _)|(-> & _ & _)]; [exact (HI' q Hq)|].
        rewrite lookup_put, (Hst k0 n eq_refl).
        destruct consts_ok as (_ & _ & _ & _ & _ & _ & _ & -> & _).
        rewrite (prot_not_record q Hq). exact (HI' q Hq).
      + injection Ex; intros <- _. exact HI'.
      + injection Ex; intros <- _. exact HI'.
  Qed.

  Lemma wrun_live p : forall s h, SP o h p -> Hsound h -> Ilive s ->
    Ilive (snd (wrun st (iexec e clk fs) p s h)).
  Proof.
    induction p as [r|act kont IH]; intros s h HS Hh HI; cbn [wrun]; [exact HI|].
    destruct (iexec e clk fs act s) as [x s1] eqn:Ex.
    unfold iexec in Ex. set (s' := if logs act then interfere fs s else s) in Ex.
    assert (HI' : Ilive s').
    { subst s'. destruct (logs act); [|exact HI]. intros q Hq. unfold interfere. cbn [sto].
      rewrite (apply_at_prot fs _ Hfs _ q Hq). exact (HI q Hq). }
    clearbody s'.
    destruct (live_step act kont s' h x s1 HS Hh HI' Ex) as (HS1 & Hh1 & HI1).
    exact (IH x s1 _ HS1 Hh1 HI1).
  Qed.

  (** the asset keeps its node *)
  Theorem cleani_live_frame : lookup (sto (snd (cleani e fs o clk s0))) k = lookup s0 k.
  Proof.
    unfold cleani, do_lock. destruct (faulty e (St s0 [])); [reflexivity|]. cbn [logged].
    assert (H0 : Hsound []).
    { repeat split; try (intros; contradiction). intros p ks []. }
    match goal with |- context [runi e clk fs ?p ?sx] =>
      pose proof (runi_wrun e clk fs p sx []) as R;
      pose proof (wrun_live p sx [] (clean_locked_safe o []) H0 (fun q _ => eq_refl)) as F;
      destruct (runi e clk fs p sx) as [r s2] end.
    cbn [snd] in *. unfold do_unlock. cbn [sto logged]. rewrite R. exact (F k (or_introl eq_refl)).
  Qed.
End LiveFrame.
