(** C06 under storage faults: a REPORTED SUCCESS of obtain / renew / manage leaves a complete, matching
    bundle for the subject - under every fault plan (any set of failing Storage calls; a call that
    returns has not died). The walk follows the programs and tracks results: reads never lie
    (a failing read is an error or, for Exists, "absent"), and [save] returns Ok only when all three
    Stores succeeded. *)
From Coq Require Import List NArith ZArith Bool Lia.
From CM Require Import Bundle.Model Bundle.Proofs Bundle.Faults.
Import ListNotations.
Open Scope N_scope.

Definition good_dir (sp : subject) (st : storage) (i : nat) : Prop :=
  exists k x m, bundle_at st i (s_save sp) = Some (i, k, x, m) /\ c_pub x = k /\ c_sub x = s_id sp.
Definition Good (cfg : config) (sp : subject) (st : storage) : Prop :=
  exists i, In i (issuers cfg) /\ good_dir sp st i.

(** what the start state must satisfy (every reachable state does) *)
Record Pre (cfg : config) (sp : subject) (st : storage) : Prop := {
  p_typed : typed st;
  p_good : forall i b, bundle_at st i (s_save sp) = Some b -> good_dir sp st i
}.
Lemma pre_of_inv cfg sp c : Inv6 cfg sp c -> Pre cfg sp (k_st c).
Proof.
  intros I. constructor; [apply (i_typed _ _ _ I)|].
  intros i [[[j k] x] m] Hb. destruct (inv_bundle_good _ _ _ _ _ _ _ _ _ I Hb) as (_ & -> & Hp & Hs & _).
  exists k, x, m. auto.
Qed.

Section Walk.
  Variable pl : plan.

  Lemma exists_true k w : fst (exists_ pl k w) = Ok true -> present (w_st w) k = true.
  Proof.
    unfold exists_, prim, present, w_st. destruct (p_fail pl (w_cnt w)); destruct (crash_at pl (w_cnt w)); cbn; try discriminate.
    destruct (sget (k_st (w_core w)) k); intros H; [reflexivity | discriminate].
  Qed.
  Lemma has_res_true i d w : fst (has_res pl i d w) = Ok true -> complete (w_st w) i d = true.
  Proof.
    unfold has_res. rewrite bind_run.
    generalize (exists_true (i, d, FCrt) w), (ro_exists pl (i, d, FCrt) w).
    destruct (exists_ pl (i, d, FCrt) w) as [[c|e|] w1]; cbn [fst snd]; intros H1 R1; try discriminate.
    destruct c; cbn [negb]; [|cbn; discriminate]. rewrite bind_run.
    assert (E1 : w_st w1 = w_st w) by (unfold w_st; rewrite R1; reflexivity).
    generalize (exists_true (i, d, FKey) w1), (ro_exists pl (i, d, FKey) w1).
    destruct (exists_ pl (i, d, FKey) w1) as [[k|e|] w2]; cbn [fst snd]; intros H2 R2; try discriminate.
    destruct k; cbn [negb]; [|cbn; discriminate].
    assert (E2 : w_st w2 = w_st w) by (unfold w_st; rewrite R2, R1; reflexivity).
    intros H3. apply exists_true in H3. unfold complete.
    specialize (H1 eq_refl). specialize (H2 eq_refl). rewrite E1 in H2. rewrite E2 in H3.
    rewrite H1, H2, H3. reflexivity.
  Qed.
  Lemma has_any_true is d w :
    fst (has_any pl is d w) = Ok true -> exists i, In i is /\ complete (w_st w) i d = true.
  Proof.
    revert w. induction is as [|i r IH]; intros w; cbn [has_any]; [cbn; discriminate|].
    rewrite bind_run. generalize (has_res_true i d w), (ro_has_res pl i d w).
    destruct (has_res pl i d w) as [[b|e|] w1]; cbn [fst snd]; intros H1 R1; try discriminate.
    destruct b.
    - intros _. exists i. split; [left; reflexivity | apply H1; reflexivity].
    - intros H. destruct (IH w1 H) as (j & Hj & Hc). exists j. split; [right; exact Hj|].
      unfold w_st in *. rewrite R1 in Hc. exact Hc.
  Qed.

  Lemma save_ok i d k x m w :
    fst (save pl i d k x m w) = Ok tt -> w_st (snd (save pl i d k x m w)) = put_bundle (w_st w) i d k x m.
  Proof.
    unfold save, store, delete, prim, bind, catch, ret, fail, w_st. cbn.
    repeat match goal with
           | |- context [if ?b then _ else _] => destruct b; cbn
           end; try discriminate; intros _; reflexivity.
  Qed.

  Lemma tail_ok orc order k id d m w :
    fst ((ic <- try_issuers orc order k id ;; save pl (fst ic) d k (snd ic) m) w) = Ok tt ->
    exists i x, In i order /\ c_pub x = k /\ c_sub x = id /\
      w_st (snd ((ic <- try_issuers orc order k id ;; save pl (fst ic) d k (snd ic) m) w)) = put_bundle (w_st w) i d k x m.
  Proof.
    rewrite bind_run.
    generalize (pres_try_issuers orc order k id w), (try_issuers_res orc order k id w).
    destruct (try_issuers orc order k id w) as [[[i x]|e|] w1]; cbn [fst snd]; intros HP HR; try discriminate.
    destruct (HR i x eq_refl) as (Hi & Hp & Hs). destruct HP as (E & _).
    intros H. exists i, x. repeat split; auto. rewrite (save_ok _ _ _ _ _ _ H). unfold w_st. rewrite E. reflexivity.
  Qed.

  Definition step_ok (cfg : config) (sp : subject) (d0 : N) (st st' : storage) : Prop :=
    (st' = st /\ exists i b, In i (issuers cfg) /\ bundle_at st i d0 = Some b) \/
    (exists i k x, In i (issuers cfg) /\ c_pub x = k /\ c_sub x = s_id sp /\
                   st' = put_bundle st i (s_save sp) k x [s_id sp]).

  Lemma obtain_body_ok cfg sp orc w :
    typed (w_st w) -> oracle_ok cfg orc ->
    fst (obtain_body pl cfg sp orc w) = Ok tt ->
    step_ok cfg sp (s_pre sp) (w_st w) (w_st (snd (obtain_body pl cfg sp orc w))).
  Proof.
    intros T HOr. unfold obtain_body. rewrite bind_run.
    generalize (has_any_true (issuers cfg) (s_pre sp) w), (ro_has_any pl (issuers cfg) (s_pre sp) w).
    destruct (has_any pl (issuers cfg) (s_pre sp) w) as [[re|e|] w1]; cbn [fst snd]; intros H1 R1; try discriminate.
    assert (E1 : w_st w1 = w_st w) by (unfold w_st; rewrite R1; reflexivity).
    destruct re.
    - intros _. left. split; [exact E1|]. destruct (H1 eq_refl) as (i & Hi & Hc).
      apply (complete_bundle_at _ _ _ T) in Hc. destruct Hc as [b Hb]. exists i, b. auto.
    - rewrite bind_run.
      assert (HK : forall kr w2, fst ((if reuse cfg then reuse_key pl (issuers cfg) (s_pre sp) else ret None) w1) = Ok kr ->
                   w2 = snd ((if reuse cfg then reuse_key pl (issuers cfg) (s_pre sp) else ret None) w1) ->
                   w_st w2 = w_st w /\ forall i k, kr = Some (i, k) -> In i (issuers cfg)).
      { intros kr w2 HF ->. destruct (reuse cfg).
        - pose proof (ro_reuse_key pl (issuers cfg) (s_pre sp) w1) as R2.
          pose proof (reuse_key_res pl (issuers cfg) (s_pre sp) w1 kr HF) as RR.
          split; [unfold w_st; rewrite R2, R1; reflexivity|]. intros i k ->. apply RR.
        - cbn in HF. injection HF as <-. split; [exact E1 | discriminate]. }
      destruct ((if reuse cfg then reuse_key pl (issuers cfg) (s_pre sp) else ret None) w1) as [[kr|e|] w2] eqn:EK;
        cbn [fst snd]; try discriminate.
      destruct (HK kr w2 eq_refl eq_refl) as [E2 Hkr].
      rewrite bind_run.
      set (order := if rnd cfg then o_perm orc
                    else match kr with Some (i, _) => move_front i (issuers cfg) | None => issuers cfg end).
      assert (Hord : incl order (issuers cfg)).
      { unfold order. destruct (rnd cfg) eqn:ER; [apply HOr, ER|].
        destruct kr as [[i k]|]; [apply move_front_incl, (Hkr i k eq_refl) | apply incl_refl]. }
      assert (G : forall k w3, w_st w3 = w_st w ->
                  fst ((ic <- try_issuers orc order k (s_id sp) ;; save pl (fst ic) (s_save sp) k (snd ic) [s_id sp]) w3) = Ok tt ->
                  step_ok cfg sp (s_pre sp) (w_st w)
                    (w_st (snd ((ic <- try_issuers orc order k (s_id sp) ;; save pl (fst ic) (s_save sp) k (snd ic) [s_id sp]) w3)))).
      { intros k w3 E3 H. destruct (tail_ok orc order k (s_id sp) (s_save sp) [s_id sp] w3 H) as (i & x & Hi & Hp & Hs & Est).
        right. exists i, k, x. rewrite Est, E3. repeat split; auto. }
      destruct kr as [[i0 k0]|].
      + cbn [ret fst snd]. intros H. apply (G k0 w2 E2 H).
      + generalize (pres_gen_key w2). destruct (gen_key w2) as [[k|e|] w3] eqn:EG; cbn [fst snd]; intros HP; try discriminate.
        intros H. apply (G k w3); [|exact H]. destruct HP as (E & _). unfold w_st. rewrite E. exact E2.
  Qed.

  (** lock / unlock / checkStorage do not touch the certificate files *)
  Lemma with_lock_ok {A} (body : M A) w a :
    fst (with_lock pl body w) = Ok a ->
    exists w1, w_st w1 = w_st w /\ fst (body w1) = Ok a /\ w_st (snd (with_lock pl body w)) = w_st (snd (body w1)).
  Proof.
    unfold with_lock, bind, catch, ret, fail.
    generalize (pres_lock pl w). destruct (lock pl w) as [[u|e|] w1]; cbn [fst snd]; intros (E1 & _); try discriminate.
    destruct (body w1) as [[a'|e|] w2] eqn:EB; cbn [fst snd].
    - generalize (pres_unlock pl w2). destruct (unlock pl w2) as [[u2|e|] w3]; cbn [fst snd]; intros (E3 & _); try discriminate;
        intros [= <-]; exists w1; rewrite EB; cbn [fst snd]; unfold w_st; rewrite E1, E3; auto.
    - destruct (unlock pl w2) as [[u2|e2|] w3]; cbn; discriminate.
    - discriminate.
  Qed.

  Lemma obtain_ok cfg sp orc w :
    typed (w_st w) -> oracle_ok cfg orc ->
    fst (obtain pl cfg sp orc w) = Ok tt ->
    step_ok cfg sp (s_pre sp) (w_st w) (w_st (snd (obtain pl cfg sp orc w))).
  Proof.
    intros T HOr. unfold obtain. rewrite bind_run.
    generalize (has_any_true (issuers cfg) (s_pre sp) w), (ro_has_any pl (issuers cfg) (s_pre sp) w).
    destruct (has_any pl (issuers cfg) (s_pre sp) w) as [[pre|e|] w1]; cbn [fst snd]; intros H1 R1; try discriminate.
    assert (E1 : w_st w1 = w_st w) by (unfold w_st; rewrite R1; reflexivity).
    destruct pre.
    - intros _. left. split; [exact E1|]. destruct (H1 eq_refl) as (i & Hi & Hc).
      apply (complete_bundle_at _ _ _ T) in Hc. destruct Hc as [b Hb]. exists i, b. auto.
    - rewrite bind_run. generalize (ro_check_storage pl w1).
      destruct (check_storage pl w1) as [[u|e|] w2]; cbn [fst snd]; intros R2; try discriminate.
      assert (E2 : w_st w2 = w_st w) by (unfold w_st; rewrite R2, R1; reflexivity).
      intros H. destruct (with_lock_ok _ _ _ H) as (w3 & E3 & HB & EF). rewrite EF.
      rewrite <- E2, <- E3. apply obtain_body_ok; [rewrite E3, E2; exact T | exact HOr | exact HB].
  Qed.

  Lemma renew_body_ok cfg sp orc f w :
    fst (renew_body pl cfg sp orc f w) = Ok tt ->
    step_ok cfg sp (s_load sp) (w_st w) (w_st (snd (renew_body pl cfg sp orc f w))).
  Proof.
    unfold renew_body. rewrite bind_run.
    generalize (ro_load_any pl cfg (s_load sp) w), (load_any_res pl cfg (s_load sp) w).
    destruct (load_any pl cfg (s_load sp) w) as [[b|e|] w1]; cbn [fst snd]; intros R1 HRes; try discriminate.
    assert (E1 : w_st w1 = w_st w) by (unfold w_st; rewrite R1; reflexivity).
    destruct (HRes b eq_refl) as (j & Hj & Hb). destruct b as [[[j0 k0] c0] m0].
    destruct (negb (is_due c0) && negb f).
    - intros _. left. split; [exact E1|]. exists j, (j0, k0, c0, m0). auto.
    - rewrite bind_run.
      assert (G : forall k w3, w_st w3 = w_st w ->
                  fst ((ic <- try_issuers orc (issuers cfg) k (s_id sp) ;; save pl (fst ic) (s_save sp) k (snd ic) [s_id sp]) w3) = Ok tt ->
                  step_ok cfg sp (s_load sp) (w_st w)
                    (w_st (snd ((ic <- try_issuers orc (issuers cfg) k (s_id sp) ;; save pl (fst ic) (s_save sp) k (snd ic) [s_id sp]) w3)))).
      { intros k w3 E3 H. destruct (tail_ok orc (issuers cfg) k (s_id sp) (s_save sp) [s_id sp] w3 H) as (i & x & Hi & Hp & Hs & Est).
        right. exists i, k, x. rewrite Est, E3. repeat split; auto. }
      destruct (reuse cfg).
      + cbn [ret fst snd]. intros H. apply (G k0 w1 E1 H).
      + generalize (pres_gen_key w1). destruct (gen_key w1) as [[k|e|] w3] eqn:EG; cbn [fst snd]; intros HP; try discriminate.
        intros H. apply (G k w3); [|exact H]. destruct HP as (E & _). unfold w_st. rewrite E. exact E1.
  Qed.
  Lemma renew_ok cfg sp orc f w :
    fst (renew pl cfg sp orc f w) = Ok tt ->
    step_ok cfg sp (s_load sp) (w_st w) (w_st (snd (renew pl cfg sp orc f w))).
  Proof.
    unfold renew. rewrite bind_run. generalize (ro_check_storage pl w).
    destruct (check_storage pl w) as [[u|e|] w2]; cbn [fst snd]; intros R2; try discriminate.
    assert (E2 : w_st w2 = w_st w) by (unfold w_st; rewrite R2; reflexivity).
    intros H. destruct (with_lock_ok _ _ _ H) as (w3 & E3 & HB & EF). rewrite EF.
    rewrite <- E2, <- E3. apply renew_body_ok. exact HB.
  Qed.

  Lemma load_managed_ok cfg d w mc :
    fst (load_managed pl cfg d w) = Ok mc ->
    exists i m, In i (issuers cfg) /\ bundle_at (w_st w) i d = Some (i, m_k mc, m_c mc, m) /\ c_pub (m_c mc) = m_k mc.
  Proof.
    unfold load_managed. rewrite bind_run.
    generalize (load_any_res pl cfg d w).
    destruct (load_any pl cfg d w) as [[[[[i k] x] m]|e|] w1]; cbn [fst snd]; intros HRes; try discriminate.
    destruct (HRes _ eq_refl) as (j & Hj & Hb). destruct (bundle_at_inv _ _ _ _ _ _ _ Hb) as (E & _). subst i.
    destruct (N.eqb (c_pub x) k) eqn:EP; cbn [negb]; [|cbn; discriminate].
    rewrite bind_run. destruct (catch (load_ocsp pl (c_ser x)) w1) as [[o|e|] w2]; cbn [fst snd]; try discriminate.
    intros [= <-]. cbn [m_k m_c]. exists j, m. apply N.eqb_eq in EP. auto.
  Qed.
End Walk.

Lemma step_ok_good cfg sp d0 st st' :
  Pre cfg sp st -> d0 = s_save sp -> step_ok cfg sp d0 st st' -> Pre cfg sp st' /\ Good cfg sp st'.
Proof.
  intros P -> [(-> & i & b & Hi & Hb)|(i & k & x & Hi & Hp & Hs & ->)].
  - split; [exact P|]. exists i. split; [exact Hi | apply (p_good _ _ _ P i b Hb)].
  - assert (Hnew : good_dir sp (put_bundle st i (s_save sp) k x [s_id sp]) i).
    { exists k, x, [s_id sp]. rewrite bundle_at_put_bundle.
      assert (E : same_dir i (s_save sp) i (s_save sp) = true) by (apply same_dir_true; auto). rewrite E. auto. }
    split; [|exists i; auto]. constructor; [apply typed_put_bundle, (p_typed _ _ _ P)|].
    intros j b. rewrite bundle_at_put_bundle. destruct (same_dir i (s_save sp) j (s_save sp)) eqn:ED.
    + apply same_dir_true in ED. destruct ED as [<- _]. intros _. exact Hnew.
    + intros Hb. destruct (p_good _ _ _ P j b Hb) as (k' & x' & m' & Hb' & A & B).
      exists k', x', m'. rewrite bundle_at_put_bundle, ED. auto.
Qed.

(** success_bundle_complete_under_faults *)
Theorem success_bundle_complete_under_faults pl cfg sp orc h w r :
  Inv6 cfg sp (w_core w) -> k_ocsp (w_core w) = [] -> canonical sp -> oracle_ok cfg orc -> is_op h = true ->
  fst (run_hop pl cfg sp orc h w) = Ok r ->
  Good cfg sp (w_st (snd (run_hop pl cfg sp orc h w))).
Proof.
  intros I HO [HP HL] HOr Hop. pose proof (pre_of_inv _ _ _ I) as P. fold (w_st w) in P.
  destruct h as [|f| |i kc|]; try discriminate; cbn [run_hop]; rewrite bind_run.
  - destruct (obtain pl cfg sp orc w) as [[u|e|] w1] eqn:EO; unfold ret; cbn [fst snd]; try discriminate. intros _.
    assert (H : fst (obtain pl cfg sp orc w) = Ok tt) by (rewrite EO; destruct u; reflexivity).
    pose proof (obtain_ok pl cfg sp orc w (p_typed _ _ _ P) HOr H) as S. rewrite EO in S. cbn [snd] in S.
    apply (step_ok_good cfg sp (s_pre sp) (w_st w)); auto.
  - destruct (renew pl cfg sp orc f w) as [[u|e|] w1] eqn:EO; unfold ret; cbn [fst snd]; try discriminate. intros _.
    assert (H : fst (renew pl cfg sp orc f w) = Ok tt) by (rewrite EO; destruct u; reflexivity).
    pose proof (renew_ok pl cfg sp orc f w H) as S. rewrite EO in S. cbn [snd] in S.
    apply (step_ok_good cfg sp (s_load sp) (w_st w)); auto.
  - destruct (manage pl cfg sp orc w) as [[mc|e|] wF] eqn:EM; unfold ret; cbn [fst snd]; try discriminate. intros _.
    (* follow manage *)
    revert EM. unfold manage. rewrite bind_run. unfold catch at 1.
    generalize (ro_load_managed pl cfg (s_load sp) w), (load_managed_rev_none pl cfg (s_load sp) w), (load_managed_ok pl cfg (s_load sp) w).
    destruct (load_managed pl cfg (s_load sp) w) as [[mc0|e|] w1]; cbn [fst snd]; intros R1 HRev HLd; try discriminate.
    + rewrite (HRev mc0 HO eq_refl). rewrite andb_false_r.
      assert (E1 : w_st w1 = w_st w) by (unfold w_st; rewrite R1; reflexivity).
      destruct (is_due (m_c mc0)).
      * (* renewed, then reloaded *)
        rewrite bind_run. destruct (renew pl cfg sp orc false w1) as [[u|e|] w2] eqn:ER; cbn [fst snd]; try discriminate.
        assert (H : fst (renew pl cfg sp orc false w1) = Ok tt) by (rewrite ER; destruct u; reflexivity).
        pose proof (renew_ok pl cfg sp orc false w1 H) as S. rewrite ER in S. cbn [snd] in S. rewrite E1 in S.
        destruct (step_ok_good cfg sp (s_load sp) (w_st w) (w_st w2) P HL S) as [_ G].
        intros EM. assert (EF : w_st wF = w_st w2).
        { pose proof (ro_load_managed pl cfg (s_save sp) w2) as R. rewrite EM in R. cbn [snd] in R. unfold w_st. rewrite R. reflexivity. }
        rewrite EF. exact G.
      * intros [= <- <-]. rewrite E1.
        destruct (HLd mc0 eq_refl) as (i & m & Hi & Hb & _). rewrite HL in Hb.
        exists i. split; [exact Hi | apply (p_good _ _ _ P i _ Hb)].
    + destruct e; try discriminate.
      assert (E1 : w_st w1 = w_st w) by (unfold w_st; rewrite R1; reflexivity).
      rewrite bind_run. destruct (obtain pl cfg sp orc w1) as [[u|e|] w2] eqn:EOb; cbn [fst snd]; try discriminate.
      assert (H : fst (obtain pl cfg sp orc w1) = Ok tt) by (rewrite EOb; destruct u; reflexivity).
      assert (T1 : typed (w_st w1)) by (rewrite E1; apply (p_typed _ _ _ P)).
      pose proof (obtain_ok pl cfg sp orc w1 T1 HOr H) as S. rewrite EOb in S. cbn [snd] in S. rewrite E1 in S.
      destruct (step_ok_good cfg sp (s_pre sp) (w_st w) (w_st w2) P HP S) as [_ G].
      intros EM. assert (EF : w_st wF = w_st w2).
      { pose proof (ro_load_managed pl cfg (s_load sp) w2) as R. rewrite EM in R. cbn [snd] in R. unfold w_st. rewrite R. reflexivity. }
      rewrite EF. exact G.
Qed.
