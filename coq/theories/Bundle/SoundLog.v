(** The log clause of C06's monitor (fresh key unless reuse: [generated (ob_log o) k] for every issuer call
    in the step's log) holds of the MODEL's own observation of every kind of step - plain, with failing
    Storage calls, retried, cancelled - from any world. *)
From Coq Require Import List NArith ZArith Bool Lia.
From CM Require Import Bundle.Model Bundle.LogKeys Bundle.Check.
Import ListNotations.
Open Scope N_scope.

Lemma issued_ok_in l i k : In (i, k) (issued_ok l) -> In (LIssue i k true) l.
Proof.
  unfold issued_ok. intros H. apply in_flat_map in H. destruct H as (e & He & Hin).
  destruct e as [? ? ?|i' k' [|]|?]; cbn in Hin; try contradiction. destruct Hin as [[= <- <-]|[]]. exact He.
Qed.
Lemma generated_in l k : In (LGen k) l -> generated l k = true.
Proof. intros H. unfold generated. apply existsb_exists. exists (LGen k). split; [exact H | apply N.eqb_refl]. Qed.

Lemma run_step_fresh pl cfg sp orc more cancel h :
  reuse cfg = false -> emits (run_step pl cfg sp orc more cancel h) fresh_seg.
Proof.
  intros NR. destruct (fresh_key_in_log_async pl cfg sp orc more (match h with HRenew f => f | _ => false end) NR) as (A & B & C & D).
  unfold run_step. destruct cancel as [n|]; destruct h as [|f| |i kc|]; try apply (fresh_key_in_log pl cfg sp orc _ NR);
    try (destruct more; apply (fresh_key_in_log pl cfg sp orc _ NR)).
  - apply (e_bind fresh_seg fresh_app); [apply C | intros _; apply (e_ret fresh_seg fresh_nil)].
  - apply (e_bind fresh_seg fresh_app); [apply D | intros _; apply (e_ret fresh_seg fresh_nil)].
  - destruct more; [apply (fresh_key_in_log pl cfg sp orc _ NR)|].
    apply (e_bind fresh_seg fresh_app); [apply A | intros _; apply (e_ret fresh_seg fresh_nil)].
  - destruct more; [apply (fresh_key_in_log pl cfg sp orc _ NR)|].
    apply (e_bind fresh_seg fresh_app); [apply B | intros _; apply (e_ret fresh_seg fresh_nil)].
Qed.

Theorem monitor_sound_log_fresh pl cfg sp w h orc more cancel :
  reuse cfg = false ->
  let o := fst (model_step_r pl cfg sp w h orc more cancel) in
  forallb (fun ik => generated (ob_log o) (snd ik)) (issued_ok (ob_log o)) = true.
Proof.
  intros NR. unfold model_step_r.
  destruct (run_step_fresh pl cfg sp orc more cancel h NR (clear_log w)) as (seg & E & F).
  destruct (run_step pl cfg sp orc more cancel h (clear_log w)) as [r w']. cbn [fst snd ob_log] in *.
  cbn [clear_log w_log] in E. rewrite app_nil_r in E. rewrite E.
  apply forallb_forall. intros [i k] Hin. cbn [snd].
  apply issued_ok_in in Hin. apply in_rev in Hin. apply generated_in. apply -> in_rev. apply (F _ _ _ Hin).
Qed.
