(** Proofs about the Bundle model: storage algebra, a small program logic for the
    state/exception monad (deterministic evaluation without faults; Hoare triples under an
    arbitrary fault plan), functional characterisation of every program fragment. *)
From Coq Require Import List NArith ZArith Bool Lia Sorted.
From CM Require Import Bundle.Model.
Import ListNotations.
Open Scope N_scope.

(** * Storage *)
Lemma fkind_eqb_eq a b : fkind_eqb a b = true <-> a = b.
Proof. destruct a, b; cbn; split; intros H; try reflexivity; try discriminate. Qed.
Lemma fkey_eqb_eq a b : fkey_eqb a b = true <-> a = b.
Proof.
  destruct a as [[i d] k], b as [[i' d'] k']; cbn.
  rewrite !andb_true_iff, Nat.eqb_eq, N.eqb_eq, fkind_eqb_eq.
  split; [intros [[-> ->] ->]; reflexivity | intros H; inversion H; auto].
Qed.
Lemma fkey_eqb_refl a : fkey_eqb a a = true.
Proof. apply fkey_eqb_eq; reflexivity. Qed.
Lemma fkey_eqb_neq a b : a <> b -> fkey_eqb a b = false.
Proof. intros H. destruct (fkey_eqb a b) eqn:E; [apply fkey_eqb_eq in E; contradiction | reflexivity]. Qed.
Lemma fkey_eq_dec (a b : fkey) : {a = b} + {a <> b}.
Proof. destruct (fkey_eqb a b) eqn:E; [left; apply fkey_eqb_eq; exact E | right; intros H; apply fkey_eqb_eq in H; congruence]. Qed.

Lemma sget_sdel_same st k : sget (sdel st k) k = None.
Proof.
  induction st as [|[k' v] r IH]; cbn; [reflexivity|].
  destruct (fkey_eqb k' k) eqn:E; cbn; [exact IH | rewrite E; exact IH].
Qed.
Lemma sget_sdel_other st k k' : k <> k' -> sget (sdel st k) k' = sget st k'.
Proof.
  intros Hne. induction st as [|[k0 v] r IH]; cbn; [reflexivity|].
  destruct (fkey_eqb k0 k) eqn:E; cbn.
  - apply fkey_eqb_eq in E; subst k0. rewrite (fkey_eqb_neq k k' Hne). exact IH.
  - destruct (fkey_eqb k0 k'); [reflexivity | exact IH].
Qed.
Lemma sget_sput_same st k v : sget (sput st k v) k = Some v.
Proof. unfold sput; cbn. rewrite fkey_eqb_refl. reflexivity. Qed.
Lemma sget_sput_other st k k' v : k <> k' -> sget (sput st k v) k' = sget st k'.
Proof. intros Hne. unfold sput; cbn. rewrite (fkey_eqb_neq k k' Hne). apply sget_sdel_other; exact Hne. Qed.
Lemma sget_sput st k k' v : sget (sput st k v) k' = if fkey_eqb k k' then Some v else sget st k'.
Proof.
  destruct (fkey_eqb k k') eqn:E.
  - apply fkey_eqb_eq in E; subst; apply sget_sput_same.
  - apply sget_sput_other. intros ->. rewrite fkey_eqb_refl in E; discriminate.
Qed.
Lemma sget_sdel st k k' : sget (sdel st k) k' = if fkey_eqb k k' then None else sget st k'.
Proof.
  destruct (fkey_eqb k k') eqn:E.
  - apply fkey_eqb_eq in E; subst; apply sget_sdel_same.
  - apply sget_sdel_other. intros ->. rewrite fkey_eqb_refl in E; discriminate.
Qed.
Lemma sget_sdel_dir st i d k' :
  sget (sdel_dir st i d) k' =
  if fkey_eqb (i, d, FKey) k' || fkey_eqb (i, d, FCrt) k' || fkey_eqb (i, d, FMeta) k' || fkey_eqb (i, d, FComp) k'
  then None else sget st k'.
Proof.
  unfold sdel_dir. rewrite !sget_sdel.
  destruct (fkey_eqb (i, d, FKey) k'), (fkey_eqb (i, d, FCrt) k'), (fkey_eqb (i, d, FMeta) k'), (fkey_eqb (i, d, FComp) k'); reflexivity.
Qed.

Global Arguments sput : simpl never.
Global Arguments sdel : simpl never.
Global Arguments sdel_dir : simpl never.

(** extensional equality of storages: everything the programs and the specifications do goes through [sget] *)
Definition steq (a b : storage) : Prop := forall k, sget a k = sget b k.
Lemma steq_refl a : steq a a. Proof. intros k; reflexivity. Qed.
Lemma steq_sym a b : steq a b -> steq b a. Proof. intros H k; symmetry; apply H. Qed.
Lemma steq_trans a b c : steq a b -> steq b c -> steq a c.
Proof. intros H1 H2 k; rewrite H1; apply H2. Qed.

Lemma dir_key_steq a b i d : steq a b -> dir_key a i d = dir_key b i d.
Proof. intros H; unfold dir_key; rewrite H; reflexivity. Qed.
Lemma dir_crt_steq a b i d : steq a b -> dir_crt a i d = dir_crt b i d.
Proof. intros H; unfold dir_crt; rewrite H; reflexivity. Qed.
Lemma dir_meta_steq a b i d : steq a b -> dir_meta a i d = dir_meta b i d.
Proof. intros H; unfold dir_meta; rewrite H; reflexivity. Qed.
Lemma bundle_at_steq a b i d : steq a b -> bundle_at a i d = bundle_at b i d.
Proof.
  intros H; unfold bundle_at.
  rewrite (dir_key_steq a b i d H), (dir_crt_steq a b i d H), (dir_meta_steq a b i d H). reflexivity.
Qed.
Lemma complete_steq a b i d : steq a b -> complete a i d = complete b i d.
Proof. intros H; unfold complete, present; rewrite !H; reflexivity. Qed.
Lemma bundles_steq a b is d : steq a b -> bundles a is d = bundles b is d.
Proof.
  intros H; induction is as [|i r IH]; cbn; [reflexivity|].
  rewrite (bundle_at_steq a b i d H), IH. reflexivity.
Qed.
Lemma newest_bundle_steq a b cfg d : steq a b -> newest_bundle a cfg d = newest_bundle b cfg d.
Proof. intros H; unfold newest_bundle; rewrite (bundles_steq a b _ d H); reflexivity. Qed.
Lemma stuck_steq a b cfg d : steq a b -> stuck a cfg d = stuck b cfg d.
Proof. intros H; unfold stuck; rewrite (newest_bundle_steq a b cfg d H); reflexivity. Qed.

(** well-typed storage: each file holds the kind of value its name says *)
Definition typed (st : storage) : Prop :=
  forall i d,
    (forall v, sget st (i, d, FKey) = Some v -> exists k, v = VKey k) /\
    (forall v, sget st (i, d, FCrt) = Some v -> exists c, v = VCrt c) /\
    (forall v, sget st (i, d, FMeta) = Some v -> exists m, v = VMeta m) /\
    (forall v, sget st (i, d, FComp) = Some v -> exists k, v = VKey k).
Lemma typed_steq a b : steq a b -> typed a -> typed b.
Proof. intros H T i d. destruct (T i d) as (A & B & C & D). rewrite <- !H. auto. Qed.

Lemma complete_bundle_at st i d : typed st -> complete st i d = true <-> exists b, bundle_at st i d = Some b.
Proof.
  intros T. destruct (T i d) as (A & B & C & _).
  unfold complete, present, bundle_at, dir_key, dir_crt, dir_meta.
  destruct (sget st (i, d, FKey)) as [vk|]; [destruct (A _ eq_refl) as [k ->]|];
  (destruct (sget st (i, d, FCrt)) as [vc|]; [destruct (B _ eq_refl) as [c ->]|]);
  (destruct (sget st (i, d, FMeta)) as [vm|]; [destruct (C _ eq_refl) as [m ->]|]); cbn;
  (split; [try discriminate; eauto | try reflexivity; intros [b Hb]; discriminate]).
Qed.

(** * Program logic *)

(** deterministic evaluation (used for fault-free runs): from any world whose core is [c], the
    program returns [r] and ends in core [c'] — counters and logs are irrelevant *)
Definition evals {A} (m : M A) (c : core) (r : res A) (c' : core) : Prop :=
  forall w, w_core w = c -> fst (m w) = r /\ w_core (snd (m w)) = c'.

Lemma evals_ret {A} (a : A) c : evals (ret a) c (Ok a) c.
Proof. intros w H; cbn; auto. Qed.
Lemma evals_fail {A} e c : evals (@fail A e) c (Fail e) c.
Proof. intros w H; cbn; auto. Qed.
Lemma evals_bind_ok {A B} (m : M A) (f : A -> M B) c a c1 r c2 :
  evals m c (Ok a) c1 -> evals (f a) c1 r c2 -> evals (bind m f) c r c2.
Proof.
  intros H1 H2 w Hw. unfold bind. destruct (H1 w Hw) as [E1 E2].
  destruct (m w) as [r1 w1]; cbn in *; subst r1. apply H2; exact E2.
Qed.
Lemma evals_bind_fail {A B} (m : M A) (f : A -> M B) c e c1 :
  evals m c (Fail e) c1 -> evals (bind m f) c (Fail e) c1.
Proof.
  intros H1 w Hw. unfold bind. destruct (H1 w Hw) as [E1 E2].
  destruct (m w) as [r1 w1]; cbn in *; subst r1. cbn; auto.
Qed.
Lemma evals_catch_ok {A} (m : M A) c a c1 : evals m c (Ok a) c1 -> evals (catch m) c (Ok (inl a)) c1.
Proof.
  intros H1 w Hw. unfold catch. destruct (H1 w Hw) as [E1 E2].
  destruct (m w) as [r1 w1]; cbn in *; subst r1; cbn; auto.
Qed.
Lemma evals_catch_fail {A} (m : M A) c e c1 : evals m c (Fail e) c1 -> evals (catch m) c (Ok (inr e)) c1.
Proof.
  intros H1 w Hw. unfold catch. destruct (H1 w Hw) as [E1 E2].
  destruct (m w) as [r1 w1]; cbn in *; subst r1; cbn; auto.
Qed.
Lemma evals_prim {A} k t (onf : res A) eff c r c' :
  eff c = (r, c') -> evals (prim no_faults k t onf eff) c r c'.
Proof. intros E w Hw. unfold prim; cbn. rewrite Hw, E. cbn. auto. Qed.
Lemma evals_local {A} (f : core -> res A * core * logev) c r c' e :
  f c = (r, c', e) -> evals (local f) c r c'.
Proof. intros E w Hw. unfold local. rewrite Hw, E. cbn; auto. Qed.
Lemma evals_det {A} (m : M A) c r1 c1 r2 c2 : evals m c r1 c1 -> evals m c r2 c2 -> r1 = r2 /\ c1 = c2.
Proof.
  intros H1 H2. destruct (H1 (World c 0 []) eq_refl) as [A1 B1], (H2 (World c 0 []) eq_refl) as [A2 B2].
  split; congruence.
Qed.

(** Hoare triples on cores, for programs under any plan *)
Definition hoare {A} (P : core -> Prop) (m : M A) (Q : res A -> core -> Prop) : Prop :=
  forall w, P (w_core w) -> Q (fst (m w)) (w_core (snd (m w))).

Lemma hoare_conseq {A} (P P' : core -> Prop) (m : M A) (Q Q' : res A -> core -> Prop) :
  hoare P m Q -> (forall c, P' c -> P c) -> (forall r c, Q r c -> Q' r c) -> hoare P' m Q'.
Proof. intros H HP HQ w Hw. apply HQ, H, HP, Hw. Qed.
Lemma hoare_ret {A} (a : A) (Q : res A -> core -> Prop) : hoare (Q (Ok a)) (ret a) Q.
Proof. intros w H; exact H. Qed.
Lemma hoare_fail {A} e (Q : res A -> core -> Prop) : hoare (Q (Fail e)) (fail e) Q.
Proof. intros w H; exact H. Qed.
Lemma hoare_bind {A B} P (m : M A) (f : A -> M B) (Q1 : res A -> core -> Prop) (Q : res B -> core -> Prop) :
  hoare P m Q1 ->
  (forall a, hoare (Q1 (Ok a)) (f a) Q) ->
  (forall e c, Q1 (Fail e) c -> Q (Fail e) c) ->
  (forall c, Q1 Dead c -> Q Dead c) ->
  hoare P (bind m f) Q.
Proof.
  intros H1 H2 HF HD w Hw. specialize (H1 w Hw). unfold bind.
  destruct (m w) as [[a|e|] w1]; cbn in *.
  - apply H2; exact H1.
  - apply HF; exact H1.
  - apply HD; exact H1.
Qed.
Lemma hoare_catch {A} P (m : M A) (Q1 : res A -> core -> Prop) (Q : res (A + err) -> core -> Prop) :
  hoare P m Q1 ->
  (forall a c, Q1 (Ok a) c -> Q (Ok (inl a)) c) ->
  (forall e c, Q1 (Fail e) c -> Q (Ok (inr e)) c) ->
  (forall c, Q1 Dead c -> Q Dead c) ->
  hoare P (catch m) Q.
Proof.
  intros H1 HO HF HD w Hw. specialize (H1 w Hw). unfold catch.
  destruct (m w) as [[a|e|] w1]; cbn in *; auto.
Qed.
(** a Storage call under any plan: it fails without effect, or takes effect; either way the
    process may die right after it *)
Lemma hoare_prim {A} pl k t (onf : res A) eff (P : core -> Prop) (Q : res A -> core -> Prop) :
  (forall c, P c -> Q onf c /\ Q Dead c /\ Q (fst (eff c)) (snd (eff c)) /\ Q Dead (snd (eff c))) ->
  hoare P (prim pl k t onf eff) Q.
Proof.
  intros H w Hw. destruct (H _ Hw) as (H1 & H2 & H3 & H4). unfold prim.
  destruct (p_fail pl (w_cnt w)); cbn.
  - destruct (crash_at pl (w_cnt w)); cbn; assumption.
  - destruct (eff (w_core w)) as [r c2]; cbn in *. destruct (crash_at pl (w_cnt w)); cbn; assumption.
Qed.
Lemma hoare_local {A} (f : core -> res A * core * logev) (P : core -> Prop) (Q : res A -> core -> Prop) :
  (forall c, P c -> Q (fst (fst (f c))) (snd (fst (f c)))) -> hoare P (local f) Q.
Proof. intros H w Hw. unfold local. specialize (H _ Hw). destruct (f (w_core w)) as [[r c] e]; cbn in *. exact H. Qed.
(** ghost initial state *)
Lemma hoare_ghost {A} (P : core -> Prop) (m : M A) (Q : res A -> core -> Prop) :
  (forall c0, P c0 -> hoare (eq c0) m Q) -> hoare P m Q.
Proof. intros H w Hw. apply (H (w_core w) Hw w eq_refl). Qed.

(** * Fault-free evaluation of the fragments *)
Local Notation nf := no_faults.

Lemma evals_load c k :
  evals (load nf k) c (match sget (k_st c) k with Some v => Ok v | None => Fail ENotExist end) c.
Proof. apply evals_prim. destruct (sget (k_st c) k); reflexivity. Qed.
Lemma evals_store c k v : evals (store nf k v) c (Ok tt) (set_st c (sput (k_st c) k v)).
Proof. apply evals_prim. reflexivity. Qed.
Lemma evals_delete c k : evals (delete nf k) c (Ok tt) (set_st c (sdel (k_st c) k)).
Proof. apply evals_prim. reflexivity. Qed.
Lemma evals_delete_dir c i d : evals (delete_dir nf i d) c (Ok tt) (set_st c (sdel_dir (k_st c) i d)).
Proof. apply evals_prim. reflexivity. Qed.
Lemma evals_exists c k : evals (exists_ nf k) c (Ok (present (k_st c) k)) c.
Proof. apply evals_prim. reflexivity. Qed.
Lemma evals_lock c : k_locked c = false -> evals (lock nf) c (Ok tt) (set_locked c true).
Proof. intros H. apply evals_prim. rewrite H. reflexivity. Qed.
Lemma evals_unlock c : evals (unlock nf) c (Ok tt) (set_locked c false).
Proof. apply evals_prim. reflexivity. Qed.
Lemma evals_load_ocsp c s :
  evals (load_ocsp nf s) c (match assoc_ser (k_ocsp c) s with Some b => Ok b | None => Fail ENotExist end) c.
Proof. apply evals_prim. destruct (assoc_ser (k_ocsp c) s); reflexivity. Qed.

Definition bump_key (c : core) : core := Core (k_st c) (k_ocsp c) (k_locked c) (k_nkey c + 1) (k_nser c).
Definition bump_ser (c : core) : core := Core (k_st c) (k_ocsp c) (k_locked c) (k_nkey c) (k_nser c + 1).
Lemma evals_gen_key c : evals gen_key c (Ok (k_nkey c)) (bump_key c).
Proof. eapply evals_local. reflexivity. Qed.

Lemma evals_check_storage c : evals (check_storage nf) c (Ok tt) c.
Proof.
  unfold check_storage.
  eapply evals_bind_ok; [apply evals_prim; reflexivity|].
  eapply evals_bind_ok; [apply evals_catch_ok; apply evals_prim; reflexivity|].
  eapply evals_bind_ok; [apply evals_catch_ok; apply evals_prim; reflexivity|].
  apply evals_ret.
Qed.

Lemma set_locked_roundtrip c : k_locked c = false -> set_locked (set_locked c true) false = c.
Proof. destruct c; cbn; intros ->; reflexivity. Qed.

Lemma evals_with_lock_ok {A} (body : M A) c a c' :
  k_locked c = false -> evals body (set_locked c true) (Ok a) c' ->
  evals (with_lock nf body) c (Ok a) (set_locked c' false).
Proof.
  intros HL HB. unfold with_lock.
  eapply evals_bind_ok; [apply evals_lock; exact HL|].
  eapply evals_bind_ok; [apply evals_catch_ok; exact HB|].
  eapply evals_bind_ok; [apply evals_catch_ok; apply evals_unlock|].
  apply evals_ret.
Qed.
Lemma evals_with_lock_fail {A} (body : M A) c e c' :
  k_locked c = false -> evals body (set_locked c true) (Fail e) c' ->
  evals (with_lock nf body) c (Fail e) (set_locked c' false).
Proof.
  intros HL HB. unfold with_lock.
  eapply evals_bind_ok; [apply evals_lock; exact HL|].
  eapply evals_bind_ok; [apply evals_catch_fail; exact HB|].
  eapply evals_bind_ok; [apply evals_catch_ok; apply evals_unlock|].
  apply evals_fail.
Qed.

(** ** storageHasCertResources *)
Lemma evals_has_res c i d : evals (has_res nf i d) c (Ok (complete (k_st c) i d)) c.
Proof.
  unfold has_res, complete.
  eapply evals_bind_ok; [apply evals_exists|].
  destruct (present (k_st c) (i, d, FCrt)); cbn; [|apply evals_ret].
  eapply evals_bind_ok; [apply evals_exists|].
  destruct (present (k_st c) (i, d, FKey)); cbn; [|apply evals_ret].
  apply evals_exists.
Qed.
Definition any_complete (st : storage) (is : list nat) (d : N) : bool :=
  existsb (fun i => complete st i d) is.
Lemma evals_has_any c is d : evals (has_any nf is d) c (Ok (any_complete (k_st c) is d)) c.
Proof.
  induction is as [|i r IH]; cbn; [apply evals_ret|].
  eapply evals_bind_ok; [apply evals_has_res|].
  destruct (complete (k_st c) i d); cbn; [apply evals_ret | exact IH].
Qed.

(** ** loads *)
Lemma evals_load_res c i d :
  typed (k_st c) ->
  evals (load_res nf i d) c (match bundle_at (k_st c) i d with Some b => Ok b | None => Fail ENotExist end) c.
Proof.
  intros T. destruct (T i d) as (A & B & C & _).
  unfold load_res, bundle_at, dir_key, dir_crt, dir_meta.
  destruct (sget (k_st c) (i, d, FKey)) as [vk|] eqn:EK.
  2:{ eapply evals_bind_fail. generalize (evals_load c (i, d, FKey)). rewrite EK. auto. }
  destruct (A _ eq_refl) as [k ->].
  eapply evals_bind_ok; [generalize (evals_load c (i, d, FKey)); rewrite EK; intros H; exact H|].
  destruct (sget (k_st c) (i, d, FCrt)) as [vc|] eqn:EC.
  2:{ eapply evals_bind_fail. generalize (evals_load c (i, d, FCrt)). rewrite EC. auto. }
  destruct (B _ eq_refl) as [x ->].
  eapply evals_bind_ok; [generalize (evals_load c (i, d, FCrt)); rewrite EC; intros H; exact H|].
  destruct (sget (k_st c) (i, d, FMeta)) as [vm|] eqn:EM.
  2:{ eapply evals_bind_fail. generalize (evals_load c (i, d, FMeta)). rewrite EM. auto. }
  destruct (C _ eq_refl) as [m ->].
  eapply evals_bind_ok; [generalize (evals_load c (i, d, FMeta)); rewrite EM; intros H; exact H|].
  apply evals_ret.
Qed.
Lemma evals_load_all c is d :
  typed (k_st c) -> evals (load_all nf is d) c (Ok (bundles (k_st c) is d)) c.
Proof.
  intros T. induction is as [|i r IH]; cbn; [apply evals_ret|].
  generalize (evals_load_res c i d T). destruct (bundle_at (k_st c) i d) as [b|]; intros H.
  - eapply evals_bind_ok; [apply evals_catch_ok; exact H|].
    eapply evals_bind_ok; [exact IH|]. apply evals_ret.
  - eapply evals_bind_ok; [apply evals_catch_fail; exact H|]. exact IH.
Qed.
Lemma evals_load_any c cfg d :
  typed (k_st c) ->
  evals (load_any nf cfg d) c
        (match newest_bundle (k_st c) cfg d with Some b => Ok b | None => Fail ENotExist end) c.
Proof.
  intros T. unfold load_any, newest_bundle.
  eapply evals_bind_ok; [apply evals_load_all; exact T|].
  destruct (newest (bundles (k_st c) (issuers cfg) d)); [apply evals_ret | apply evals_fail].
Qed.

Definition rev_of (ocsp : list (N * bool)) (x : cert) : option bool :=
  match assoc_ser ocsp (c_ser x) with
  | Some kc => if is_expired x then None else Some kc
  | None => None
  end.
(** what loadManagedCertificate returns *)
Definition managed_of (c : core) (cfg : config) (d : N) : res mcert :=
  match newest_bundle (k_st c) cfg d with
  | None => Fail ENotExist
  | Some (i, k, x, _) =>
      if N.eqb (c_pub x) k then Ok (MCert x k i (rev_of (k_ocsp c) x)) else Fail EMismatch
  end.
Lemma evals_load_managed c cfg d :
  typed (k_st c) -> evals (load_managed nf cfg d) c (managed_of c cfg d) c.
Proof.
  intros T. unfold load_managed, managed_of.
  generalize (evals_load_any c cfg d T).
  destruct (newest_bundle (k_st c) cfg d) as [[[[i k] x] m]|]; intros H.
  2:{ eapply evals_bind_fail; exact H. }
  eapply evals_bind_ok; [exact H|]. cbn.
  destruct (N.eqb (c_pub x) k); cbn; [|apply evals_fail].
  unfold rev_of. generalize (evals_load_ocsp c (c_ser x)).
  destruct (assoc_ser (k_ocsp c) (c_ser x)) as [kc|]; intros HO.
  - eapply evals_bind_ok; [apply evals_catch_ok; exact HO|]. apply evals_ret.
  - eapply evals_bind_ok; [apply evals_catch_fail; exact HO|]. apply evals_ret.
Qed.

(** ** issuers *)
Fixpoint first_up (orc : oracle) (is : list nat) : option (nat * (Z * validity)) :=
  match is with
  | [] => None
  | i :: r => match nth i (o_out orc) None with Some o => Some (i, o) | None => first_up orc r end
  end.
Lemma evals_try_issuers orc is k id c :
  evals (try_issuers orc is k id) c
        (match first_up orc is with
         | Some (i, (nb, v)) => Ok (i, Cert k id nb v (k_nser c))
         | None => Fail EIssuers end)
        (match first_up orc is with Some _ => bump_ser c | None => c end).
Proof.
  induction is as [|i r IH]; cbn; [apply evals_fail|].
  destruct (nth i (o_out orc) None) as [[nb v]|] eqn:E.
  - eapply evals_bind_ok.
    + apply evals_catch_ok. eapply evals_local. rewrite E. reflexivity.
    + apply evals_ret.
  - eapply evals_bind_ok.
    + apply evals_catch_fail. eapply evals_local. rewrite E. reflexivity.
    + exact IH.
Qed.
Lemma first_up_in orc is i o : first_up orc is = Some (i, o) -> In i is /\ nth i (o_out orc) None = Some o.
Proof.
  induction is as [|j r IH]; cbn; [discriminate|].
  destruct (nth j (o_out orc) None) eqn:E; intros H.
  - inversion H; subst. auto.
  - destruct (IH H); auto.
Qed.

(** ** reusePrivateKey *)
Fixpoint first_key_i (st : storage) (is : list nat) (d : N) : option (nat * keyid) :=
  match is with
  | [] => None
  | i :: r => match dir_key st i d with Some k => Some (i, k) | None => first_key_i st r d end
  end.
Lemma evals_reuse_key c is d :
  typed (k_st c) -> evals (reuse_key nf is d) c (Ok (first_key_i (k_st c) is d)) c.
Proof.
  intros T. induction is as [|i r IH]; cbn; [apply evals_ret|].
  destruct (T i d) as (A & _). unfold dir_key.
  generalize (evals_load c (i, d, FKey)).
  destruct (sget (k_st c) (i, d, FKey)) as [v|]; intros H.
  - destruct (A _ eq_refl) as [k ->].
    eapply evals_bind_ok; [apply evals_catch_ok; exact H|]. apply evals_ret.
  - eapply evals_bind_ok; [apply evals_catch_fail; exact H|]. exact IH.
Qed.
Lemma first_key_i_in st is d i k : first_key_i st is d = Some (i, k) -> In i is /\ dir_key st i d = Some k.
Proof.
  induction is as [|j r IH]; cbn; [discriminate|].
  destruct (dir_key st j d) eqn:E; intros H.
  - inversion H; subst; auto.
  - destruct (IH H); auto.
Qed.

(** ** save *)
Definition put_bundle (st : storage) (i : nat) (d : N) (k : keyid) (x : cert) (m : list N) : storage :=
  sput (sput (sput st (i, d, FKey) (VKey k)) (i, d, FCrt) (VCrt x)) (i, d, FMeta) (VMeta m).
Lemma evals_save c i d k x m :
  evals (save nf i d k x m) c (Ok tt) (set_st c (put_bundle (k_st c) i d k x m)).
Proof.
  unfold save.
  eapply evals_bind_ok; [apply evals_catch_ok; apply evals_store|].
  eapply evals_bind_ok; [apply evals_catch_ok; apply evals_store|].
  eapply evals_bind_ok; [apply evals_catch_ok; apply evals_store|].
  apply evals_ret.
Qed.

(** ** typedness is preserved *)
Definition val_ok (k : fkey) (v : fval) : Prop :=
  match snd k with
  | FKey | FComp => exists x, v = VKey x
  | FCrt => exists x, v = VCrt x
  | FMeta => exists x, v = VMeta x
  end.
Lemma typed_alt st : typed st <-> (forall k v, sget st k = Some v -> val_ok k v).
Proof.
  split.
  - intros T [[i d] kd] v H. destruct (T i d) as (A & B & C & D). destruct kd; cbn; auto.
  - intros H i d. repeat split; intros v Hv; apply (H _ _ Hv).
Qed.
Lemma typed_sput st k v : typed st -> val_ok k v -> typed (sput st k v).
Proof.
  rewrite !typed_alt. intros T V k' v'. rewrite sget_sput.
  destruct (fkey_eqb k k') eqn:E; [apply fkey_eqb_eq in E; subst k'; intros [= <-]; exact V | apply T].
Qed.
Lemma typed_sdel st k : typed st -> typed (sdel st k).
Proof.
  rewrite !typed_alt. intros T k' v'. rewrite sget_sdel.
  destruct (fkey_eqb k k'); [discriminate | apply T].
Qed.
Lemma typed_sdel_dir st i d : typed st -> typed (sdel_dir st i d).
Proof. intros T. unfold sdel_dir. repeat apply typed_sdel. exact T. Qed.
Lemma typed_put_bundle st i d k x m : typed st -> typed (put_bundle st i d k x m).
Proof.
  intros T. unfold put_bundle.
  apply typed_sput; [apply typed_sput; [apply typed_sput; [exact T|]|]|]; cbn; eauto.
Qed.
Lemma typed_nil : typed [].
Proof. apply typed_alt. intros k v; cbn; discriminate. Qed.

(** * The data view: what each operation does to the core when nothing fails *)
Definition issue_save (sp : subject) (orc : oracle) (order : list nat) (k : keyid) (c : core) : res unit * core :=
  match first_up orc order with
  | None => (Fail EIssuers, c)
  | Some (i, (nb, v)) =>
      (Ok tt, set_st (bump_ser c) (put_bundle (k_st c) i (s_save sp) k (Cert k (s_id sp) nb v (k_nser c)) [s_id sp]))
  end.
Definition obtain_order (cfg : config) (orc : oracle) (kr : option (nat * keyid)) : list nat :=
  if rnd cfg then o_perm orc
  else match kr with Some (i, _) => move_front i (issuers cfg) | None => issuers cfg end.
Definition obtain_pure (cfg : config) (sp : subject) (orc : oracle) (c : core) : res unit * core :=
  if any_complete (k_st c) (issuers cfg) (s_pre sp) then (Ok tt, c) else
  let kr := if reuse cfg then first_key_i (k_st c) (issuers cfg) (s_pre sp) else None in
  match kr with
  | Some (_, k) => issue_save sp orc (obtain_order cfg orc kr) k c
  | None => issue_save sp orc (obtain_order cfg orc kr) (k_nkey c) (bump_key c)
  end.
Definition renew_pure (cfg : config) (sp : subject) (orc : oracle) (force : bool) (c : core) : res unit * core :=
  match newest_bundle (k_st c) cfg (s_load sp) with
  | None => (Fail ENotExist, c)
  | Some (_, k0, c0, _) =>
      if negb (is_due c0) && negb force then (Ok tt, c)
      else if reuse cfg then issue_save sp orc (issuers cfg) k0 c
           else issue_save sp orc (issuers cfg) (k_nkey c) (bump_key c)
  end.

Lemma set_locked_set_st c b st : set_locked (set_st c st) b = set_st (set_locked c b) st.
Proof. reflexivity. Qed.

Lemma evals_issue_save_locked sp orc order k c :
  evals (ic <- try_issuers orc order k (s_id sp) ;; save nf (fst ic) (s_save sp) k (snd ic) [s_id sp]) c
        (fst (issue_save sp orc order k c)) (snd (issue_save sp orc order k c)).
Proof.
  unfold issue_save. generalize (evals_try_issuers orc order k (s_id sp) c).
  destruct (first_up orc order) as [[i [nb v]]|]; intros H.
  - eapply evals_bind_ok; [exact H|]. cbn [fst snd].
    exact (evals_save (bump_ser c) i (s_save sp) k _ [s_id sp]).
  - eapply evals_bind_fail; exact H.
Qed.

(** results of the pure operations never are [Dead] *)
Lemma issue_save_not_dead sp orc order k c : fst (issue_save sp orc order k c) <> Dead.
Proof. unfold issue_save. destruct (first_up orc order) as [[i [nb v]]|]; cbn; discriminate. Qed.

Lemma issue_save_locked sp orc order k c b :
  issue_save sp orc order k (set_locked c b) =
  (fst (issue_save sp orc order k c), set_locked (snd (issue_save sp orc order k c)) b).
Proof. unfold issue_save. destruct (first_up orc order) as [[i [nb v]]|]; reflexivity. Qed.

Lemma evals_with_lock {A} (body : M A) c r c' :
  k_locked c = false -> r <> Dead -> evals body (set_locked c true) r c' ->
  evals (with_lock nf body) c r (set_locked c' false).
Proof.
  intros HL HD HB. destruct r as [a|e|]; [apply evals_with_lock_ok | apply evals_with_lock_fail | contradiction]; assumption.
Qed.

Lemma evals_obtain cfg sp orc c :
  typed (k_st c) -> k_locked c = false ->
  evals (obtain nf cfg sp orc) c (fst (obtain_pure cfg sp orc c)) (snd (obtain_pure cfg sp orc c)).
Proof.
  intros T HL. unfold obtain, obtain_pure.
  eapply evals_bind_ok; [apply evals_has_any|].
  destruct (any_complete (k_st c) (issuers cfg) (s_pre sp)) eqn:EP; cbn; [apply evals_ret|].
  eapply evals_bind_ok; [apply evals_check_storage|].
  set (kr := if reuse cfg then first_key_i (k_st c) (issuers cfg) (s_pre sp) else None).
  (* the locked body *)
  assert (HB : forall r c', (r, c') = match kr with
                                      | Some (_, k) => issue_save sp orc (obtain_order cfg orc kr) k c
                                      | None => issue_save sp orc (obtain_order cfg orc kr) (k_nkey c) (bump_key c)
                                      end ->
                evals (obtain_body nf cfg sp orc) (set_locked c true) r (set_locked c' true)).
  { intros r c' E. unfold obtain_body.
    eapply evals_bind_ok; [apply evals_has_any|]. cbn [k_st set_locked]. rewrite EP.
    eapply evals_bind_ok.
    { instantiate (2 := kr). instantiate (1 := set_locked c true). unfold kr.
      destruct (reuse cfg); [exact (evals_reuse_key (set_locked c true) _ _ T) | apply evals_ret]. }
    change (evals (k <- match kr with Some (_, k) => ret k | None => gen_key end ;;
                   ic <- try_issuers orc (obtain_order cfg orc kr) k (s_id sp) ;;
                   save nf (fst ic) (s_save sp) k (snd ic) [s_id sp])
                  (set_locked c true) r (set_locked c' true)).
    destruct kr as [[i0 k0]|].
    - eapply evals_bind_ok; [apply evals_ret|].
      generalize (evals_issue_save_locked sp orc (obtain_order cfg orc (Some (i0, k0))) k0 (set_locked c true)).
      rewrite issue_save_locked, <- E. cbn. auto.
    - eapply evals_bind_ok; [apply evals_gen_key|].
      generalize (evals_issue_save_locked sp orc (obtain_order cfg orc None) (k_nkey c) (bump_key (set_locked c true))).
      change (bump_key (set_locked c true)) with (set_locked (bump_key c) true).
      rewrite issue_save_locked, <- E. cbn. auto. }
  remember (match kr with
            | Some (_, k) => issue_save sp orc (obtain_order cfg orc kr) k c
            | None => issue_save sp orc (obtain_order cfg orc kr) (k_nkey c) (bump_key c)
            end) as rc eqn:Erc.
  destruct rc as [r c']. cbn [fst snd].
  assert (HD : r <> Dead).
  { destruct kr as [[i0 k0]|]; [generalize (issue_save_not_dead sp orc (obtain_order cfg orc (Some (i0, k0))) k0 c)
                               | generalize (issue_save_not_dead sp orc (obtain_order cfg orc None) (k_nkey c) (bump_key c))];
      rewrite <- Erc; auto. }
  assert (HLc' : set_locked (set_locked c' true) false = c').
  { assert (k_locked c' = false).
    { destruct kr as [[i0 k0]|]; unfold issue_save in Erc;
        destruct (first_up orc _) as [[i [nb v]]|]; inversion Erc; subst; cbn; exact HL. }
    destruct c'; cbn in *; subst; reflexivity. }
  rewrite <- HLc' at 1.
  apply evals_with_lock; [exact HL | exact HD | apply HB; reflexivity].
Qed.

Lemma evals_renew cfg sp orc force c :
  typed (k_st c) -> k_locked c = false ->
  evals (renew nf cfg sp orc force) c (fst (renew_pure cfg sp orc force c)) (snd (renew_pure cfg sp orc force c)).
Proof.
  intros T HL. unfold renew.
  eapply evals_bind_ok; [apply evals_check_storage|].
  remember (renew_pure cfg sp orc force c) as rc eqn:Erc. destruct rc as [r c']. cbn [fst snd].
  assert (HB : evals (renew_body nf cfg sp orc force) (set_locked c true) r (set_locked c' true)).
  { unfold renew_body. unfold renew_pure in Erc.
    generalize (evals_load_any (set_locked c true) cfg (s_load sp) T). cbn [k_st set_locked].
    destruct (newest_bundle (k_st c) cfg (s_load sp)) as [[[[i0 k0] c0] m0]|]; intros HLd.
    2:{ inversion Erc; subst. eapply evals_bind_fail; exact HLd. }
    eapply evals_bind_ok; [exact HLd|]. cbn.
    destruct (negb (is_due c0) && negb force); [inversion Erc; subst; apply evals_ret|].
    destruct (reuse cfg).
    - eapply evals_bind_ok; [apply evals_ret|].
      generalize (evals_issue_save_locked sp orc (issuers cfg) k0 (set_locked c true)).
      rewrite issue_save_locked, <- Erc. cbn. auto.
    - eapply evals_bind_ok; [apply evals_gen_key|].
      generalize (evals_issue_save_locked sp orc (issuers cfg) (k_nkey c) (bump_key (set_locked c true))).
      change (bump_key (set_locked c true)) with (set_locked (bump_key c) true).
      rewrite issue_save_locked, <- Erc. cbn. auto. }
  assert (HD : r <> Dead).
  { unfold renew_pure in Erc. destruct (newest_bundle (k_st c) cfg (s_load sp)) as [[[[i0 k0] c0] m0]|];
      [|inversion Erc; discriminate].
    destruct (negb (is_due c0) && negb force); [inversion Erc; discriminate|].
    destruct (reuse cfg);
      [generalize (issue_save_not_dead sp orc (issuers cfg) k0 c)
      | generalize (issue_save_not_dead sp orc (issuers cfg) (k_nkey c) (bump_key c))]; rewrite <- Erc; auto. }
  assert (HLc' : set_locked (set_locked c' true) false = c').
  { assert (k_locked c' = false).
    { unfold renew_pure in Erc. destruct (newest_bundle (k_st c) cfg (s_load sp)) as [[[[i0 k0] c0] m0]|];
        [|inversion Erc; subst; exact HL].
      destruct (negb (is_due c0) && negb force); [inversion Erc; subst; exact HL|].
      destruct (reuse cfg); unfold issue_save in Erc;
        destruct (first_up orc _) as [[i [nb v]]|]; inversion Erc; subst; cbn; exact HL. }
    destruct c'; cbn in *; subst; reflexivity. }
  rewrite <- HLc' at 1.
  apply evals_with_lock; [exact HL | exact HD | exact HB].
Qed.

(** moveCompromisedPrivateKey (errors are only logged by forceRenew) *)
Definition move_comp_pure (i : nat) (d : N) (c : core) : core :=
  match sget (k_st c) (i, d, FKey) with
  | None => c
  | Some v => set_st c (sdel (sput (k_st c) (i, d, FComp) v) (i, d, FKey))
  end.
Lemma evals_move_comp c i d :
  exists x, evals (catch (move_compromised nf i d)) c (Ok x) (move_comp_pure i d c).
Proof.
  unfold move_compromised, move_comp_pure.
  generalize (evals_load c (i, d, FKey)). destruct (sget (k_st c) (i, d, FKey)) as [v|]; intros H.
  - eexists. apply evals_catch_ok.
    eapply evals_bind_ok; [exact H|].
    eapply evals_bind_ok; [apply evals_catch_ok; apply evals_store|].
    exact (evals_delete (set_st c (sput (k_st c) (i, d, FComp) v)) (i, d, FKey)).
  - eexists. apply evals_catch_fail. eapply evals_bind_fail. exact H.
Qed.

Definition then_load (rc : res unit * core) (cfg : config) (d : N) : res mcert * core :=
  match fst rc with
  | Ok _ => (managed_of (snd rc) cfg d, snd rc)
  | Fail e => (Fail e, snd rc)
  | Dead => (Dead, snd rc)
  end.
Definition force_renew_pure (cfg : config) (sp : subject) (orc : oracle) (mc : mcert) (c : core) : res mcert * core :=
  then_load (match m_rev mc with
             | Some true => obtain_pure cfg (canon sp) orc (move_comp_pure (m_i mc) (s_save sp) c)
             | _ => renew_pure cfg (canon sp) orc true c
             end) cfg (s_save sp).
Definition manage_pure (cfg : config) (sp : subject) (orc : oracle) (c : core) : res mcert * core :=
  match managed_of c cfg (s_load sp) with
  | Fail ENotExist => then_load (obtain_pure cfg sp orc c) cfg (s_load sp)
  | Fail e => (Fail e, c)
  | Dead => (Dead, c)
  | Ok mc =>
      if negb (is_expired (m_c mc)) && (match m_rev mc with Some _ => true | None => false end)
      then force_renew_pure cfg sp orc mc c
      else if is_due (m_c mc) then then_load (renew_pure cfg sp orc false c) cfg (s_save sp)
      else (Ok mc, c)
  end.

(** typedness and the lock flag through the pure operations *)
Lemma issue_save_typed sp orc order k c : typed (k_st c) -> typed (k_st (snd (issue_save sp orc order k c))).
Proof.
  intros T. unfold issue_save. destruct (first_up orc order) as [[i [nb v]]|]; cbn; [|exact T].
  apply typed_put_bundle; exact T.
Qed.
Lemma issue_save_unlocked sp orc order k c : k_locked (snd (issue_save sp orc order k c)) = k_locked c.
Proof. unfold issue_save. destruct (first_up orc order) as [[i [nb v]]|]; reflexivity. Qed.
Lemma obtain_pure_typed cfg sp orc c : typed (k_st c) -> typed (k_st (snd (obtain_pure cfg sp orc c))).
Proof.
  intros T. unfold obtain_pure. destruct (any_complete _ _ _); [exact T|].
  destruct (if reuse cfg then _ else _) as [[i k]|]; apply issue_save_typed; exact T.
Qed.
Lemma obtain_pure_unlocked cfg sp orc c : k_locked (snd (obtain_pure cfg sp orc c)) = k_locked c.
Proof.
  unfold obtain_pure. destruct (any_complete _ _ _); [reflexivity|].
  destruct (if reuse cfg then _ else _) as [[i k]|]; rewrite issue_save_unlocked; reflexivity.
Qed.
Lemma renew_pure_typed cfg sp orc f c : typed (k_st c) -> typed (k_st (snd (renew_pure cfg sp orc f c))).
Proof.
  intros T. unfold renew_pure. destruct (newest_bundle _ _ _) as [[[[i0 k0] c0] m0]|]; [|exact T].
  destruct (negb (is_due c0) && negb f); [exact T|].
  destruct (reuse cfg); apply issue_save_typed; exact T.
Qed.
Lemma renew_pure_unlocked cfg sp orc f c : k_locked (snd (renew_pure cfg sp orc f c)) = k_locked c.
Proof.
  unfold renew_pure. destruct (newest_bundle _ _ _) as [[[[i0 k0] c0] m0]|]; [|reflexivity].
  destruct (negb (is_due c0) && negb f); [reflexivity|].
  destruct (reuse cfg); rewrite issue_save_unlocked; reflexivity.
Qed.
Lemma move_comp_typed i d c : typed (k_st c) -> typed (k_st (move_comp_pure i d c)).
Proof.
  intros T. unfold move_comp_pure. destruct (sget (k_st c) (i, d, FKey)) as [v|] eqn:E; [|exact T]. cbn [k_st set_st].
  apply typed_sdel, typed_sput; [exact T|].
  destruct (proj1 (typed_alt _) T _ _ E) as [x ->]. cbn. eauto.
Qed.
Lemma move_comp_unlocked i d c : k_locked (move_comp_pure i d c) = k_locked c.
Proof. unfold move_comp_pure. destruct (sget (k_st c) (i, d, FKey)); reflexivity. Qed.
Lemma obtain_pure_not_dead cfg sp orc c : fst (obtain_pure cfg sp orc c) <> Dead.
Proof.
  unfold obtain_pure. destruct (any_complete _ _ _); [discriminate|].
  destruct (if reuse cfg then _ else _) as [[i k]|]; apply issue_save_not_dead.
Qed.
Lemma renew_pure_not_dead cfg sp orc f c : fst (renew_pure cfg sp orc f c) <> Dead.
Proof.
  unfold renew_pure. destruct (newest_bundle _ _ _) as [[[[i0 k0] c0] m0]|]; [|discriminate].
  destruct (negb (is_due c0) && negb f); [discriminate|].
  destruct (reuse cfg); apply issue_save_not_dead.
Qed.

Lemma evals_then_load {A} (m : M A) cfg d c (rc : res unit * core) :
  (forall r, fst rc = Ok r -> exists a, evals m c (Ok a) (snd rc)) ->
  (forall e, fst rc = Fail e -> evals m c (Fail e) (snd rc)) ->
  fst rc <> Dead -> typed (k_st (snd rc)) ->
  evals (m ;;; load_managed nf cfg d) c (fst (then_load rc cfg d)) (snd (then_load rc cfg d)).
Proof.
  intros HO HF HD T. unfold then_load. destruct rc as [[u|e|] c1]; cbn in *.
  - destruct (HO u eq_refl) as [a Ha]. eapply evals_bind_ok; [exact Ha|]. apply evals_load_managed; exact T.
  - eapply evals_bind_fail. apply HF; reflexivity.
  - contradiction.
Qed.

Lemma evals_force_renew cfg sp orc mc c :
  typed (k_st c) -> k_locked c = false ->
  evals (force_renew nf cfg sp orc mc) c (fst (force_renew_pure cfg sp orc mc c)) (snd (force_renew_pure cfg sp orc mc c)).
Proof.
  intros T HL. unfold force_renew, force_renew_pure.
  destruct (m_rev mc) as [[|]|].
  - set (c1 := move_comp_pure (m_i mc) (s_save sp) c).
    assert (T1 : typed (k_st c1)) by (apply move_comp_typed; exact T).
    assert (L1 : k_locked c1 = false) by (unfold c1; rewrite move_comp_unlocked; exact HL).
    destruct (evals_move_comp c (m_i mc) (s_save sp)) as [x Hx].
    apply evals_then_load.
    + intros r Hr. exists tt. eapply evals_bind_ok; [exact Hx|].
      generalize (evals_obtain cfg (canon sp) orc c1 T1 L1). fold c1 in Hr. rewrite Hr. destruct r. auto.
    + intros e He. eapply evals_bind_ok; [exact Hx|].
      generalize (evals_obtain cfg (canon sp) orc c1 T1 L1). fold c1 in He. rewrite He. auto.
    + apply obtain_pure_not_dead.
    + apply obtain_pure_typed; exact T1.
  - apply evals_then_load.
    + intros r Hr. exists tt. generalize (evals_renew cfg (canon sp) orc true c T HL). rewrite Hr. destruct r; auto.
    + intros e He. generalize (evals_renew cfg (canon sp) orc true c T HL). rewrite He. auto.
    + apply renew_pure_not_dead.
    + apply renew_pure_typed; exact T.
  - apply evals_then_load.
    + intros r Hr. exists tt. generalize (evals_renew cfg (canon sp) orc true c T HL). rewrite Hr. destruct r; auto.
    + intros e He. generalize (evals_renew cfg (canon sp) orc true c T HL). rewrite He. auto.
    + apply renew_pure_not_dead.
    + apply renew_pure_typed; exact T.
Qed.

Lemma evals_manage cfg sp orc c :
  typed (k_st c) -> k_locked c = false ->
  evals (manage nf cfg sp orc) c (fst (manage_pure cfg sp orc c)) (snd (manage_pure cfg sp orc c)).
Proof.
  intros T HL. unfold manage, manage_pure.
  generalize (evals_load_managed c cfg (s_load sp) T).
  destruct (managed_of c cfg (s_load sp)) as [mc|e|] eqn:EM; intros HM.
  - eapply evals_bind_ok; [apply evals_catch_ok; exact HM|]. cbv beta iota.
    destruct (negb (is_expired (m_c mc)) && match m_rev mc with Some _ => true | None => false end).
    + apply evals_force_renew; assumption.
    + destruct (is_due (m_c mc)); [|apply evals_ret].
      apply evals_then_load.
      * intros r Hr. exists tt. generalize (evals_renew cfg sp orc false c T HL). rewrite Hr. destruct r; auto.
      * intros e He. generalize (evals_renew cfg sp orc false c T HL). rewrite He. auto.
      * apply renew_pure_not_dead.
      * apply renew_pure_typed; exact T.
  - eapply evals_bind_ok; [apply evals_catch_fail; exact HM|]. cbv beta iota.
    destruct e; try apply evals_fail.
    apply evals_then_load.
    + intros r Hr. exists tt. generalize (evals_obtain cfg sp orc c T HL). rewrite Hr. destruct r; auto.
    + intros e He. generalize (evals_obtain cfg sp orc c T HL). rewrite He. auto.
    + apply obtain_pure_not_dead.
    + apply obtain_pure_typed; exact T.
  - exfalso. unfold managed_of in EM. destruct (newest_bundle _ _ _) as [[[[i k] x] m]|]; [|discriminate].
    destruct (N.eqb (c_pub x) k); discriminate.
Qed.

(** RevokeCert and the environment's revocation *)
Definition del_assets (st : storage) (i : nat) (d : N) : storage :=
  sdel_dir (sdel (sdel (sdel st (i, d, FCrt)) (i, d, FKey)) (i, d, FMeta)) i d.
Fixpoint revoke_api_pure (is : list nat) (sp : subject) (c : core) : res unit * core :=
  match is with
  | [] => (Ok tt, c)
  | i :: r =>
      match bundle_at (k_st c) i (s_load sp) with
      | None => (Fail ENotExist, c)
      | Some _ =>
          if negb (present (k_st c) (i, s_pre sp, FKey)) then (Fail EOther, c)
          else revoke_api_pure r sp (set_st c (del_assets (k_st c) i (s_pre sp)))
      end
  end.
Lemma typed_del_assets st i d : typed st -> typed (del_assets st i d).
Proof. intros T. unfold del_assets. apply typed_sdel_dir. repeat apply typed_sdel. exact T. Qed.
Lemma evals_revoke_api is sp c :
  typed (k_st c) ->
  evals (revoke_api nf is sp) c (fst (revoke_api_pure is sp c)) (snd (revoke_api_pure is sp c)).
Proof.
  revert c. induction is as [|i r IH]; intros c T; cbn [revoke_api revoke_api_pure]; [apply evals_ret|].
  generalize (evals_load_res c i (s_load sp) T).
  destruct (bundle_at (k_st c) i (s_load sp)) as [b|]; intros HL.
  2:{ eapply evals_bind_fail; exact HL. }
  eapply evals_bind_ok; [exact HL|].
  eapply evals_bind_ok; [apply evals_exists|].
  destruct (present (k_st c) (i, s_pre sp, FKey)); cbn [negb]; [|apply evals_fail].
  eapply evals_bind_ok; [apply evals_delete|].
  eapply evals_bind_ok; [apply evals_delete|].
  eapply evals_bind_ok; [apply evals_delete|].
  eapply evals_bind_ok; [apply evals_delete_dir|].
  apply IH. cbn [k_st set_st]. repeat first [apply typed_sdel_dir | apply typed_sdel]. exact T.
Qed.
Lemma revoke_api_pure_typed is sp c : typed (k_st c) -> typed (k_st (snd (revoke_api_pure is sp c))).
Proof.
  revert c. induction is as [|i r IH]; intros c T; cbn [revoke_api_pure]; [exact T|].
  destruct (bundle_at (k_st c) i (s_load sp)); [|exact T].
  destruct (negb (present (k_st c) (i, s_pre sp, FKey))); [exact T|].
  apply IH. cbn [k_st set_st]. apply typed_del_assets; exact T.
Qed.
Lemma revoke_api_pure_unlocked is sp c : k_locked (snd (revoke_api_pure is sp c)) = k_locked c.
Proof.
  revert c. induction is as [|i r IH]; intros c; cbn [revoke_api_pure]; [reflexivity|].
  destruct (bundle_at (k_st c) i (s_load sp)); [|reflexivity].
  destruct (negb (present (k_st c) (i, s_pre sp, FKey))); [reflexivity|].
  rewrite IH. reflexivity.
Qed.

Definition revoke_env_pure (sp : subject) (i : nat) (kc : bool) (c : core) : core :=
  match sget (k_st c) (i, s_save sp, FCrt) with
  | Some (VCrt x) => Core (k_st c) ((c_ser x, kc) :: k_ocsp c) (k_locked c) (k_nkey c) (k_nser c)
  | _ => c
  end.
Lemma evals_revoke_env sp i kc c : evals (revoke_env sp i kc) c (Ok tt) (revoke_env_pure sp i kc c).
Proof.
  intros w Hw. unfold revoke_env, revoke_env_pure. rewrite Hw.
  destruct (sget (k_st c) (i, s_save sp, FCrt)) as [[k|x|m]|]; cbn; auto.
Qed.

Definition run_hop_pure (cfg : config) (sp : subject) (orc : oracle) (h : hop) (c : core) : res (option mcert) * core :=
  match h with
  | HObtain => let rc := obtain_pure cfg sp orc c in
               (match fst rc with Ok _ => Ok None | Fail e => Fail e | Dead => Dead end, snd rc)
  | HRenew f => let rc := renew_pure cfg sp orc f c in
                (match fst rc with Ok _ => Ok None | Fail e => Fail e | Dead => Dead end, snd rc)
  | HManage => let rc := manage_pure cfg sp orc c in
               (match fst rc with Ok mc => Ok (Some mc) | Fail e => Fail e | Dead => Dead end, snd rc)
  | HRevokeEnv i kc => (Ok None, revoke_env_pure sp i kc c)
  | HRevokeApi => let rc := revoke_api_pure (issuers cfg) sp c in
                  (match fst rc with Ok _ => Ok None | Fail e => Fail e | Dead => Dead end, snd rc)
  end.

Lemma managed_of_not_dead c cfg d : managed_of c cfg d <> Dead.
Proof.
  unfold managed_of. destruct (newest_bundle _ _ _) as [[[[i k] x] m]|]; [|discriminate].
  destruct (N.eqb (c_pub x) k); discriminate.
Qed.
Lemma then_load_not_dead rc cfg d : fst rc <> Dead -> fst (then_load rc cfg d) <> Dead.
Proof.
  unfold then_load. destruct rc as [[u|e|] c1]; cbn; intros H; try discriminate; [apply managed_of_not_dead | contradiction].
Qed.
Lemma manage_pure_not_dead cfg sp orc c : fst (manage_pure cfg sp orc c) <> Dead.
Proof.
  unfold manage_pure. destruct (managed_of c cfg (s_load sp)) as [mc|e|] eqn:E.
  - destruct (_ && _).
    + unfold force_renew_pure. apply then_load_not_dead.
      destruct (m_rev mc) as [[|]|]; [apply obtain_pure_not_dead | apply renew_pure_not_dead | apply renew_pure_not_dead].
    + destruct (is_due _); [apply then_load_not_dead, renew_pure_not_dead | discriminate].
  - destruct e; try discriminate. apply then_load_not_dead, obtain_pure_not_dead.
  - exfalso; exact (managed_of_not_dead _ _ _ E).
Qed.
Lemma revoke_api_pure_not_dead is sp c : fst (revoke_api_pure is sp c) <> Dead.
Proof.
  revert c. induction is as [|i r IH]; intros c; cbn [revoke_api_pure]; [discriminate|].
  destruct (bundle_at _ _ _); [|discriminate]. destruct (negb _); [discriminate | apply IH].
Qed.

Lemma evals_map_res {A B} (m : M A) (g : A -> B) c r c' :
  evals m c r c' -> r <> Dead ->
  evals (x <- m ;; ret (g x)) c (match r with Ok a => Ok (g a) | Fail e => Fail e | Dead => Dead end) c'.
Proof.
  intros H HD. destruct r as [a|e|]; [|apply evals_bind_fail; exact H | contradiction].
  eapply evals_bind_ok; [exact H | apply evals_ret].
Qed.

Lemma evals_run_hop cfg sp orc h c :
  typed (k_st c) -> k_locked c = false ->
  evals (run_hop nf cfg sp orc h) c (fst (run_hop_pure cfg sp orc h c)) (snd (run_hop_pure cfg sp orc h c)).
Proof.
  intros T HL. destruct h as [|f| |i kc|]; cbn [run_hop run_hop_pure fst snd].
  - apply (evals_map_res (obtain nf cfg sp orc) (fun _ => None)); [apply evals_obtain; assumption | apply obtain_pure_not_dead].
  - apply (evals_map_res (renew nf cfg sp orc f) (fun _ => None)); [apply evals_renew; assumption | apply renew_pure_not_dead].
  - apply (evals_map_res (manage nf cfg sp orc) (fun mc => Some mc)); [apply evals_manage; assumption | apply manage_pure_not_dead].
  - eapply evals_bind_ok; [apply evals_revoke_env | apply evals_ret].
  - apply (evals_map_res (revoke_api nf (issuers cfg) sp) (fun _ => None)); [apply evals_revoke_api; assumption | apply revoke_api_pure_not_dead].
Qed.

(** * Invariant of fault-free histories (C06) *)
Definition same_dir (i : nat) (d : N) (i' : nat) (d' : N) : bool := Nat.eqb i i' && N.eqb d d'.
Lemma same_dir_true i d i' d' : same_dir i d i' d' = true <-> i = i' /\ d = d'.
Proof. unfold same_dir. rewrite andb_true_iff, Nat.eqb_eq, N.eqb_eq. tauto. Qed.
Lemma fkey_eqb_dir i d k i' d' k' : fkey_eqb (i, d, k) (i', d', k') = same_dir i d i' d' && fkind_eqb k k'.
Proof. reflexivity. Qed.

Lemma sget_put_bundle st i d k x m i' d' kd :
  sget (put_bundle st i d k x m) (i', d', kd) =
  if same_dir i d i' d'
  then match kd with
       | FKey => Some (VKey k) | FCrt => Some (VCrt x) | FMeta => Some (VMeta m)
       | FComp => sget st (i', d', FComp)
       end
  else sget st (i', d', kd).
Proof.
  unfold put_bundle. rewrite !sget_sput, !fkey_eqb_dir.
  destruct (same_dir i d i' d'); cbn [andb]; [|reflexivity].
  destruct kd; cbn; reflexivity.
Qed.
Lemma dir_key_put_bundle st i d k x m i' d' :
  dir_key (put_bundle st i d k x m) i' d' = if same_dir i d i' d' then Some k else dir_key st i' d'.
Proof. unfold dir_key. rewrite sget_put_bundle. destruct (same_dir i d i' d'); reflexivity. Qed.
Lemma dir_crt_put_bundle st i d k x m i' d' :
  dir_crt (put_bundle st i d k x m) i' d' = if same_dir i d i' d' then Some x else dir_crt st i' d'.
Proof. unfold dir_crt. rewrite sget_put_bundle. destruct (same_dir i d i' d'); reflexivity. Qed.
Lemma dir_meta_put_bundle st i d k x m i' d' :
  dir_meta (put_bundle st i d k x m) i' d' = if same_dir i d i' d' then Some m else dir_meta st i' d'.
Proof. unfold dir_meta. rewrite sget_put_bundle. destruct (same_dir i d i' d'); reflexivity. Qed.
Lemma bundle_at_put_bundle st i d k x m i' d' :
  bundle_at (put_bundle st i d k x m) i' d' =
  if same_dir i d i' d' then Some (i', k, x, m) else bundle_at st i' d'.
Proof.
  unfold bundle_at. rewrite dir_key_put_bundle, dir_crt_put_bundle, dir_meta_put_bundle.
  destruct (same_dir i d i' d'); reflexivity.
Qed.

Definition dir_comp (st : storage) (i : nat) (d : N) : option keyid :=
  match sget st (i, d, FComp) with Some (VKey k) => Some k | _ => None end.

Record Inv6 (cfg : config) (sp : subject) (c : core) : Prop := {
  i_typed : typed (k_st c);
  i_unlocked : k_locked c = false;
  (** one subject per history: everything lives in its save directory *)
  i_dir : forall i d kd, sget (k_st c) (i, d, kd) <> None -> d = s_save sp;
  (** a key and a certificate in the same directory belong together *)
  i_match : forall i d k x, dir_key (k_st c) i d = Some k -> dir_crt (k_st c) i d = Some x -> c_pub x = k;
  i_crt : forall i d x, dir_crt (k_st c) i d = Some x ->
            c_sub x = s_id sp /\ dir_meta (k_st c) i d = Some [s_id sp] /\ c_ser x < k_nser c /\ c_pub x < k_nkey c;
  i_key : forall i d k, dir_key (k_st c) i d = Some k -> k < k_nkey c;
  i_comp : forall i d k, dir_comp (k_st c) i d = Some k -> k < k_nkey c;
  (** without key reuse no two directories hold certificates for the same key *)
  i_distinct : reuse cfg = false ->
               forall i d x i' d' x', dir_crt (k_st c) i d = Some x -> dir_crt (k_st c) i' d' = Some x' ->
                                      c_pub x = c_pub x' -> i = i' /\ d = d'
}.

Lemma Inv6_empty cfg sp : Inv6 cfg sp empty_core.
Proof.
  constructor; cbn; try reflexivity; try (intros; discriminate).
  - apply typed_nil.
  - intros i d kd H; contradiction H; reflexivity.
Qed.

(** storing a whole bundle for a key that is either brand new or already known *)
Lemma Inv6_put_bundle cfg sp c i k nb v :
  Inv6 cfg sp c ->
  (k = k_nkey c \/ (reuse cfg = true /\ k < k_nkey c)) ->
  forall c', k_st c' = put_bundle (k_st c) i (s_save sp) k (Cert k (s_id sp) nb v (k_nser c)) [s_id sp] ->
             k_locked c' = false -> k_nser c' = k_nser c + 1 ->
             (k_nkey c' = k_nkey c + 1 \/ (k < k_nkey c /\ k_nkey c' = k_nkey c)) ->
             Inv6 cfg sp c'.
Proof.
  intros I HK c' Est HL Hser Hkey.
  assert (Hk' : k < k_nkey c') by (destruct HK as [->|[_ HK]], Hkey as [->|[? ->]]; lia).
  assert (Hmono : k_nkey c <= k_nkey c') by (destruct Hkey as [->|[_ ->]]; lia).
  constructor.
  - rewrite Est. apply typed_put_bundle, (i_typed _ _ _ I).
  - exact HL.
  - intros i' d' kd. rewrite Est, sget_put_bundle.
    destruct (same_dir i (s_save sp) i' d') eqn:E.
    + apply same_dir_true in E. intros _. symmetry; apply E.
    + apply (i_dir _ _ _ I).
  - intros i' d' k' x'. rewrite Est, dir_key_put_bundle, dir_crt_put_bundle.
    destruct (same_dir i (s_save sp) i' d').
    + intros [= <-] [= <-]. reflexivity.
    + apply (i_match _ _ _ I).
  - intros i' d' x'. rewrite Est, dir_crt_put_bundle, dir_meta_put_bundle.
    destruct (same_dir i (s_save sp) i' d').
    + intros [= <-]. cbn. repeat split; try reflexivity; lia.
    + intros H. destruct (i_crt _ _ _ I _ _ _ H) as (A & B & C & D). repeat split; auto; lia.
  - intros i' d' k'. rewrite Est, dir_key_put_bundle.
    destruct (same_dir i (s_save sp) i' d').
    + intros [= <-]. exact Hk'.
    + intros H. generalize (i_key _ _ _ I _ _ _ H). lia.
  - intros i' d' k'. unfold dir_comp. rewrite Est, sget_put_bundle.
    destruct (same_dir i (s_save sp) i' d'); intros H; generalize (i_comp _ _ _ I i' d' k' H); lia.
  - intros HR i1 d1 x1 i2 d2 x2. rewrite Est, !dir_crt_put_bundle.
    destruct HK as [->|[HK _]]; [|congruence].
    destruct (same_dir i (s_save sp) i1 d1) eqn:E1, (same_dir i (s_save sp) i2 d2) eqn:E2.
    + apply same_dir_true in E1, E2. intros _ _ _. destruct E1, E2; subst; auto.
    + intros [= <-] H2 Hp. cbn in Hp. destruct (i_crt _ _ _ I _ _ _ H2) as (_ & _ & _ & D). lia.
    + intros H1 [= <-] Hp. cbn in Hp. destruct (i_crt _ _ _ I _ _ _ H1) as (_ & _ & _ & D). lia.
    + apply (i_distinct _ _ _ I HR).
Qed.

Lemma Inv6_issue_save cfg sp orc order k c c0 :
  Inv6 cfg sp c0 ->
  (* c is c0 after an optional key generation *)
  k_st c = k_st c0 -> k_locked c = false -> k_nser c = k_nser c0 ->
  ((k = k_nkey c0 /\ k_nkey c = k_nkey c0 + 1) \/ (reuse cfg = true /\ k < k_nkey c0 /\ k_nkey c = k_nkey c0)) ->
  Inv6 cfg sp (snd (issue_save sp orc order k c)).
Proof.
  intros I Est HL Hser HK. unfold issue_save.
  destruct (first_up orc order) as [[i [nb v]]|]; cbn [snd].
  - eapply (Inv6_put_bundle cfg sp c0 i k nb v I).
    + destruct HK as [[-> _]|(HR & Hk & _)]; [left; reflexivity | right; auto].
    + cbn. rewrite Est, Hser. reflexivity.
    + cbn. exact HL.
    + cbn. lia.
    + cbn. destruct HK as [[-> ->]|(HR & Hk & ->)]; [left; reflexivity | right; auto].
  - (* nothing stored; possibly a key was generated *)
    destruct I as [T U D Mt Cr Ky Cp Ds]. constructor; rewrite ?Est; auto.
    + intros i d x H. destruct (Cr i d x H) as (A & B & C1 & D1). repeat split; auto; lia.
    + intros i d k' H. generalize (Ky i d k' H). lia.
    + intros i d k' H. generalize (Cp i d k' H). lia.
Qed.

Lemma Inv6_obtain cfg sp orc c : Inv6 cfg sp c -> Inv6 cfg sp (snd (obtain_pure cfg sp orc c)).
Proof.
  intros I. unfold obtain_pure. destruct (any_complete _ _ _); [exact I|].
  destruct (reuse cfg) eqn:ER.
  - destruct (first_key_i (k_st c) (issuers cfg) (s_pre sp)) as [[i k]|] eqn:EK.
    + apply (Inv6_issue_save cfg sp orc _ k c c I); [reflexivity | apply (i_unlocked _ _ _ I) | reflexivity |].
      right. destruct (first_key_i_in _ _ _ _ _ EK) as [_ Hk]. repeat split; auto. apply (i_key _ _ _ I _ _ _ Hk).
    + apply (Inv6_issue_save cfg sp orc _ (k_nkey c) (bump_key c) c I); [reflexivity | apply (i_unlocked _ _ _ I) | reflexivity |].
      left; split; reflexivity.
  - apply (Inv6_issue_save cfg sp orc _ (k_nkey c) (bump_key c) c I); [reflexivity | apply (i_unlocked _ _ _ I) | reflexivity |].
    left; split; reflexivity.
Qed.

Lemma newest_in bs b : newest bs = Some b -> In b bs.
Proof.
  revert b. induction bs as [|a r IH]; cbn; [discriminate|]. intros b.
  destruct (newest r) as [b'|].
  - destruct (c_nb (b_cert a) <? c_nb (b_cert b'))%Z; intros [= <-]; [right; apply IH; reflexivity | left; reflexivity].
  - intros [= <-]; left; reflexivity.
Qed.
Lemma bundles_in st is d b : In b (bundles st is d) -> exists i, In i is /\ bundle_at st i d = Some b.
Proof.
  induction is as [|i r IH]; cbn; [contradiction|].
  destruct (bundle_at st i d) as [b0|] eqn:E.
  - intros [<-|H]; [exists i; auto | destruct (IH H) as (j & Hj & Hb); exists j; auto].
  - intros H. destruct (IH H) as (j & Hj & Hb); exists j; auto.
Qed.
Lemma bundle_at_inv st i d j k x m :
  bundle_at st i d = Some (j, k, x, m) -> j = i /\ dir_key st i d = Some k /\ dir_crt st i d = Some x /\ dir_meta st i d = Some m.
Proof.
  unfold bundle_at. destruct (dir_key st i d), (dir_crt st i d), (dir_meta st i d); try discriminate.
  intros [= <- <- <- <-]. auto.
Qed.
Lemma newest_bundle_inv st cfg d j k x m :
  newest_bundle st cfg d = Some (j, k, x, m) ->
  In j (issuers cfg) /\ dir_key st j d = Some k /\ dir_crt st j d = Some x /\ dir_meta st j d = Some m.
Proof.
  intros H. apply newest_in, bundles_in in H. destruct H as (i & Hi & Hb).
  apply bundle_at_inv in Hb. destruct Hb as (-> & A & B & C). auto.
Qed.

Lemma Inv6_renew cfg sp orc f c : Inv6 cfg sp c -> Inv6 cfg sp (snd (renew_pure cfg sp orc f c)).
Proof.
  intros I. unfold renew_pure.
  destruct (newest_bundle (k_st c) cfg (s_load sp)) as [[[[i0 k0] c0] m0]|] eqn:EN; [|exact I].
  destruct (negb (is_due c0) && negb f); [exact I|].
  destruct (reuse cfg) eqn:ER.
  - apply (Inv6_issue_save cfg sp orc _ k0 c c I); [reflexivity | apply (i_unlocked _ _ _ I) | reflexivity |].
    right. destruct (newest_bundle_inv _ _ _ _ _ _ _ EN) as (_ & Hk & _). repeat split; auto. apply (i_key _ _ _ I _ _ _ Hk).
  - apply (Inv6_issue_save cfg sp orc _ (k_nkey c) (bump_key c) c I); [reflexivity | apply (i_unlocked _ _ _ I) | reflexivity |].
    left; split; reflexivity.
Qed.

Lemma sget_move_comp st i d v i' d' kd :
  sget (sdel (sput st (i, d, FComp) v) (i, d, FKey)) (i', d', kd) =
  if same_dir i d i' d'
  then match kd with FKey => None | FComp => Some v | _ => sget st (i', d', kd) end
  else sget st (i', d', kd).
Proof.
  rewrite sget_sdel, sget_sput, !fkey_eqb_dir.
  destruct (same_dir i d i' d'); cbn [andb]; [|reflexivity]. destruct kd; reflexivity.
Qed.

Lemma Inv6_move_comp cfg sp i c : Inv6 cfg sp c -> Inv6 cfg sp (move_comp_pure i (s_save sp) c).
Proof.
  intros I. unfold move_comp_pure.
  destruct (sget (k_st c) (i, s_save sp, FKey)) as [v|] eqn:EV; [|exact I].
  destruct (proj1 (typed_alt _) (i_typed _ _ _ I) _ _ EV) as [k0 ->].
  assert (Hk0 : k0 < k_nkey c) by (apply (i_key _ _ _ I i (s_save sp)); unfold dir_key; rewrite EV; reflexivity).
  constructor; cbn [k_st set_st k_locked k_nkey k_nser].
  - apply typed_sdel, typed_sput; [apply (i_typed _ _ _ I) | cbn; eauto].
  - apply (i_unlocked _ _ _ I).
  - intros i' d' kd. rewrite sget_move_comp. destruct (same_dir i (s_save sp) i' d') eqn:E.
    + apply same_dir_true in E. intros _; symmetry; apply E.
    + apply (i_dir _ _ _ I).
  - intros i' d' k x. unfold dir_key, dir_crt. rewrite !sget_move_comp.
    destruct (same_dir i (s_save sp) i' d'); [discriminate | apply (i_match _ _ _ I)].
  - intros i' d' x. unfold dir_crt, dir_meta. rewrite !sget_move_comp.
    destruct (same_dir i (s_save sp) i' d'); apply (i_crt _ _ _ I).
  - intros i' d' k. unfold dir_key. rewrite sget_move_comp.
    destruct (same_dir i (s_save sp) i' d'); [discriminate | apply (i_key _ _ _ I)].
  - intros i' d' k. unfold dir_comp. rewrite sget_move_comp.
    destruct (same_dir i (s_save sp) i' d'); [intros [= <-]; exact Hk0 | apply (i_comp _ _ _ I)].
  - intros HR i1 d1 x1 i2 d2 x2. unfold dir_crt. rewrite !sget_move_comp.
    destruct (same_dir i (s_save sp) i1 d1), (same_dir i (s_save sp) i2 d2); apply (i_distinct _ _ _ I HR).
Qed.

(** deletions keep the invariant: every clause is about what is present *)
Lemma sget_del_assets st i d k' :
  sget (del_assets st i d) k' = None \/ sget (del_assets st i d) k' = sget st k'.
Proof.
  unfold del_assets. rewrite sget_sdel_dir, !sget_sdel.
  destruct (_ || _ || _ || _); [left; reflexivity|].
  destruct (fkey_eqb (i, d, FMeta) k'); [left; reflexivity|].
  destruct (fkey_eqb (i, d, FKey) k'); [left; reflexivity|].
  destruct (fkey_eqb (i, d, FCrt) k'); [left; reflexivity | right; reflexivity].
Qed.
Lemma sget_del_assets_dir st i d i' d' kd :
  sget (del_assets st i d) (i', d', kd) = if same_dir i d i' d' then None else sget st (i', d', kd).
Proof.
  unfold del_assets. rewrite sget_sdel_dir, !sget_sdel, !fkey_eqb_dir.
  destruct (same_dir i d i' d'); cbn [andb orb]; [|reflexivity].
  destruct kd; cbn; reflexivity.
Qed.
Lemma Inv6_del_assets cfg sp i d c : Inv6 cfg sp c -> Inv6 cfg sp (set_st c (del_assets (k_st c) i d)).
Proof.
  intros I. constructor; cbn [k_st set_st k_locked k_nkey k_nser].
  - apply typed_del_assets, (i_typed _ _ _ I).
  - apply (i_unlocked _ _ _ I).
  - intros i' d' kd. rewrite sget_del_assets_dir. destruct (same_dir i d i' d'); [congruence | apply (i_dir _ _ _ I)].
  - intros i' d' k x. unfold dir_key, dir_crt. rewrite !sget_del_assets_dir.
    destruct (same_dir i d i' d'); [discriminate | apply (i_match _ _ _ I)].
  - intros i' d' x. unfold dir_crt, dir_meta. rewrite !sget_del_assets_dir.
    destruct (same_dir i d i' d'); [discriminate | apply (i_crt _ _ _ I)].
  - intros i' d' k. unfold dir_key. rewrite sget_del_assets_dir.
    destruct (same_dir i d i' d'); [discriminate | apply (i_key _ _ _ I)].
  - intros i' d' k. unfold dir_comp. rewrite sget_del_assets_dir.
    destruct (same_dir i d i' d'); [discriminate | apply (i_comp _ _ _ I)].
  - intros HR i1 d1 x1 i2 d2 x2. unfold dir_crt. rewrite !sget_del_assets_dir.
    destruct (same_dir i d i1 d1), (same_dir i d i2 d2); try discriminate. apply (i_distinct _ _ _ I HR).
Qed.
Lemma Inv6_revoke_api cfg sp is c : Inv6 cfg sp c -> Inv6 cfg sp (snd (revoke_api_pure is sp c)).
Proof.
  revert c. induction is as [|i r IH]; intros c I; cbn [revoke_api_pure]; [exact I|].
  destruct (bundle_at _ _ _); [|exact I]. destruct (negb _); [exact I|].
  apply IH, Inv6_del_assets, I.
Qed.
Lemma Inv6_revoke_env cfg sp i kc c : Inv6 cfg sp c -> Inv6 cfg sp (revoke_env_pure sp i kc c).
Proof.
  intros I. unfold revoke_env_pure. destruct (sget _ _) as [[k|x|m]|]; try exact I.
  destruct I as [T U D Mt Cr Ky Cp Ds]. constructor; auto.
Qed.
Lemma Inv6_then_load cfg sp rc d : Inv6 cfg sp (snd rc) -> Inv6 cfg sp (snd (then_load rc cfg d)).
Proof. unfold then_load. destruct rc as [[u|e|] c1]; auto. Qed.
Lemma Inv6_manage cfg sp orc c : Inv6 cfg sp c -> Inv6 cfg sp (snd (manage_pure cfg sp orc c)).
Proof.
  intros I. unfold manage_pure.
  destruct (managed_of c cfg (s_load sp)) as [mc|e|]; [| |exact I].
  - destruct (_ && _).
    + unfold force_renew_pure. apply Inv6_then_load.
      destruct (m_rev mc) as [[|]|].
      * change (s_save sp) with (s_save (canon sp)).
        assert (HI : forall c0, Inv6 cfg sp c0 -> Inv6 cfg (canon sp) c0).
        { intros c0 [T U D Mt Cr Ky Cp Ds]. constructor; auto. }
        assert (HI' : forall c0, Inv6 cfg (canon sp) c0 -> Inv6 cfg sp c0).
        { intros c0 [T U D Mt Cr Ky Cp Ds]. constructor; auto. }
        apply HI', Inv6_obtain, HI. apply (Inv6_move_comp cfg sp), I.
      * assert (HI : forall c0, Inv6 cfg sp c0 -> Inv6 cfg (canon sp) c0).
        { intros c0 [T U D Mt Cr Ky Cp Ds]. constructor; auto. }
        assert (HI' : forall c0, Inv6 cfg (canon sp) c0 -> Inv6 cfg sp c0).
        { intros c0 [T U D Mt Cr Ky Cp Ds]. constructor; auto. }
        apply HI', Inv6_renew, HI, I.
      * assert (HI : forall c0, Inv6 cfg sp c0 -> Inv6 cfg (canon sp) c0).
        { intros c0 [T U D Mt Cr Ky Cp Ds]. constructor; auto. }
        assert (HI' : forall c0, Inv6 cfg (canon sp) c0 -> Inv6 cfg sp c0).
        { intros c0 [T U D Mt Cr Ky Cp Ds]. constructor; auto. }
        apply HI', Inv6_renew, HI, I.
    + destruct (is_due _); [apply Inv6_then_load, Inv6_renew, I | exact I].
  - destruct e; try exact I. apply Inv6_then_load, Inv6_obtain, I.
Qed.
Lemma Inv6_run_hop cfg sp orc h c : Inv6 cfg sp c -> Inv6 cfg sp (snd (run_hop_pure cfg sp orc h c)).
Proof.
  intros I. destruct h; cbn [run_hop_pure snd].
  - apply Inv6_obtain, I.
  - apply Inv6_renew, I.
  - apply Inv6_manage, I.
  - apply Inv6_revoke_env, I.
  - apply Inv6_revoke_api, I.
Qed.

(** cores reachable by fault-free histories of the model (any operations, any issuer answers) *)
Inductive reach6 (cfg : config) (sp : subject) : core -> Prop :=
| reach6_empty : reach6 cfg sp empty_core
| reach6_step c orc h r c' :
    reach6 cfg sp c -> evals (run_hop nf cfg sp orc h) c r c' -> reach6 cfg sp c'.
Lemma reach6_inv cfg sp c : reach6 cfg sp c -> Inv6 cfg sp c.
Proof.
  induction 1 as [|c orc h r c' HR IH HE]; [apply Inv6_empty|].
  destruct (evals_det _ _ _ _ _ _ HE (evals_run_hop cfg sp orc h c (i_typed _ _ _ IH) (i_unlocked _ _ _ IH))) as [_ ->].
  apply Inv6_run_hop, IH.
Qed.

(** * C06: the clauses of the property *)
Definition oracle_ok (cfg : config) (orc : oracle) : Prop :=
  rnd cfg = true -> incl (o_perm orc) (issuers cfg).
Definition is_op (h : hop) : bool := match h with HObtain | HRenew _ | HManage => true | _ => false end.

Lemma move_front_incl i is : In i is -> incl (move_front i is) is.
Proof.
  intros Hi j [<-|Hj]; [exact Hi|]. apply filter_In in Hj. apply Hj.
Qed.
Lemma obtain_order_incl cfg orc kr :
  oracle_ok cfg orc -> (forall i k, kr = Some (i, k) -> In i (issuers cfg)) ->
  incl (obtain_order cfg orc kr) (issuers cfg).
Proof.
  intros HO HK. unfold obtain_order. destruct (rnd cfg) eqn:ER; [apply HO; exact ER|].
  destruct kr as [[i k]|]; [apply move_front_incl, (HK i k eq_refl) | apply incl_refl].
Qed.

(** what the invariant says about a complete bundle *)
Lemma inv_bundle_good cfg sp c i d j k x m :
  Inv6 cfg sp c -> bundle_at (k_st c) i d = Some (j, k, x, m) ->
  d = s_save sp /\ j = i /\ c_pub x = k /\ c_sub x = s_id sp /\ m = [s_id sp].
Proof.
  intros I H. apply bundle_at_inv in H. destruct H as (-> & HK & HC & HM).
  destruct (i_crt _ _ _ I _ _ _ HC) as (A & B & _ & _).
  repeat split; auto.
  - apply (i_dir _ _ _ I i d FCrt). unfold dir_crt in HC. destruct (sget (k_st c) (i, d, FCrt)); congruence.
  - apply (i_match _ _ _ I _ _ _ _ HK HC).
  - congruence.
Qed.

Definition good_at (cfg : config) (sp : subject) (c : core) : Prop :=
  exists i k x, In i (issuers cfg) /\ bundle_at (k_st c) i (s_save sp) = Some (i, k, x, [s_id sp]) /\
                c_pub x = k /\ c_sub x = s_id sp.

Lemma good_at_issue_save cfg sp orc order k c c' :
  incl order (issuers cfg) -> issue_save sp orc order k c = (Ok tt, c') -> good_at cfg sp c'.
Proof.
  intros HI. unfold issue_save. destruct (first_up orc order) as [[i [nb v]]|] eqn:E; [|discriminate].
  intros [= <-]. destruct (first_up_in _ _ _ _ E) as [Hi _].
  exists i, k, (Cert k (s_id sp) nb v (k_nser c)). cbn [k_st set_st bump_ser].
  rewrite bundle_at_put_bundle. replace (same_dir i (s_save sp) i (s_save sp)) with true
    by (symmetry; apply same_dir_true; auto).
  repeat split; auto.
Qed.
Lemma good_at_of_bundle cfg sp c i d b :
  Inv6 cfg sp c -> In i (issuers cfg) -> bundle_at (k_st c) i d = Some b -> good_at cfg sp c.
Proof.
  intros I Hi H. destruct b as [[[j k] x] m].
  destruct (inv_bundle_good _ _ _ _ _ _ _ _ _ I H) as (-> & -> & A & B & ->).
  exists i, k, x. auto.
Qed.
Lemma any_complete_ex st is d : any_complete st is d = true -> exists i, In i is /\ complete st i d = true.
Proof. unfold any_complete. rewrite existsb_exists. auto. Qed.

Lemma good_at_obtain cfg sp orc c c' :
  Inv6 cfg sp c -> oracle_ok cfg orc -> obtain_pure cfg sp orc c = (Ok tt, c') -> good_at cfg sp c'.
Proof.
  intros I HO. unfold obtain_pure.
  destruct (any_complete (k_st c) (issuers cfg) (s_pre sp)) eqn:EP.
  - intros [= <-]. destruct (any_complete_ex _ _ _ EP) as (i & Hi & Hc).
    apply (complete_bundle_at _ _ _ (i_typed _ _ _ I)) in Hc. destruct Hc as [b Hb].
    eapply good_at_of_bundle; eauto.
  - set (kr := if reuse cfg then first_key_i (k_st c) (issuers cfg) (s_pre sp) else None).
    assert (HK : forall i k, kr = Some (i, k) -> In i (issuers cfg)).
    { unfold kr. intros i k. destruct (reuse cfg); [|discriminate]. intros H. apply (first_key_i_in _ _ _ _ _ H). }
    destruct kr as [[i0 k0]|]; apply good_at_issue_save, obtain_order_incl; auto.
Qed.
Lemma good_at_renew cfg sp orc f c c' :
  Inv6 cfg sp c -> renew_pure cfg sp orc f c = (Ok tt, c') -> good_at cfg sp c'.
Proof.
  intros I. unfold renew_pure.
  destruct (newest_bundle (k_st c) cfg (s_load sp)) as [[[[i0 k0] c0] m0]|] eqn:EN; [|discriminate].
  destruct (negb (is_due c0) && negb f).
  - intros [= <-]. apply newest_in, bundles_in in EN. destruct EN as (i & Hi & Hb).
    eapply good_at_of_bundle; eauto.
  - destruct (reuse cfg); apply good_at_issue_save, incl_refl.
Qed.
Lemma managed_of_ok cfg sp c d mc :
  Inv6 cfg sp c -> managed_of c cfg d = Ok mc ->
  d = s_save sp /\ In (m_i mc) (issuers cfg) /\
  newest_bundle (k_st c) cfg (s_save sp) = Some (m_i mc, m_k mc, m_c mc, [s_id sp]) /\
  bundle_at (k_st c) (m_i mc) (s_save sp) = Some (m_i mc, m_k mc, m_c mc, [s_id sp]) /\
  c_pub (m_c mc) = m_k mc /\ c_sub (m_c mc) = s_id sp /\ m_rev mc = rev_of (k_ocsp c) (m_c mc).
Proof.
  intros I. unfold managed_of.
  destruct (newest_bundle (k_st c) cfg d) as [[[[i k] x] m]|] eqn:EN; [|discriminate].
  destruct (N.eqb (c_pub x) k) eqn:EQ; [|discriminate]. intros [= <-]. cbn [m_i m_k m_c m_rev].
  generalize EN; intros EN'. apply newest_in, bundles_in in EN'. destruct EN' as (j & Hj & Hb).
  destruct (inv_bundle_good _ _ _ _ _ _ _ _ _ I Hb) as (-> & -> & A & B & ->).
  repeat split; auto.
Qed.
Lemma then_load_ok rc cfg d mc c' :
  then_load rc cfg d = (Ok mc, c') -> c' = snd rc /\ managed_of c' cfg d = Ok mc /\ exists u, fst rc = Ok u.
Proof.
  unfold then_load. destruct rc as [[u|e|] c1]; cbn; intros [= H1 H2]; subst; eauto.
Qed.
Lemma manage_pure_ok cfg sp orc c mc c' :
  manage_pure cfg sp orc c = (Ok mc, c') -> exists d, managed_of c' cfg d = Ok mc.
Proof.
  unfold manage_pure. destruct (managed_of c cfg (s_load sp)) as [mc0|e|] eqn:EM; [| |discriminate].
  - destruct (_ && _).
    + unfold force_renew_pure. intros H. apply then_load_ok in H. destruct H as (_ & H & _). eauto.
    + destruct (is_due _).
      * intros H. apply then_load_ok in H. destruct H as (_ & H & _). eauto.
      * intros [= <- <-]. eauto.
  - destruct e; try discriminate. intros H. apply then_load_ok in H. destruct H as (_ & H & _). eauto.
Qed.

(** success_bundle_complete *)
Lemma success_bundle_complete cfg sp orc h c r c' :
  Inv6 cfg sp c -> oracle_ok cfg orc -> is_op h = true ->
  run_hop_pure cfg sp orc h c = (Ok r, c') -> good_at cfg sp c'.
Proof.
  intros I HO Hop. destruct h as [|f| |i kc|]; try discriminate; cbn [run_hop_pure].
  - destruct (obtain_pure cfg sp orc c) as [[u|e|] c1] eqn:E; cbn; intros [= <- <-]. destruct u.
    eapply good_at_obtain; eauto.
  - destruct (renew_pure cfg sp orc f c) as [[u|e|] c1] eqn:E; cbn; intros [= <- <-]. destruct u.
    eapply good_at_renew; eauto.
  - destruct (manage_pure cfg sp orc c) as [[mc|e|] c1] eqn:E; cbn; intros [= <- <-].
    destruct (manage_pure_ok _ _ _ _ _ _ E) as [d Hd].
    assert (I1 : Inv6 cfg sp c1) by (generalize (Inv6_manage cfg sp orc c I); rewrite E; auto).
    destruct (managed_of_ok _ _ _ _ _ I1 Hd) as (_ & Hi & _ & Hb & A & B & _).
    exists (m_i mc), (m_k mc), (m_c mc). auto.
Qed.

(** load_roundtrip: what was saved is what a load of that issuer's bundle returns *)
Lemma load_roundtrip c i d k x m :
  typed (k_st c) ->
  evals (save nf i d k x m ;;; load_res nf i d) c (Ok (i, k, x, m)) (set_st c (put_bundle (k_st c) i d k x m)).
Proof.
  intros T. eapply evals_bind_ok; [apply evals_save|].
  generalize (evals_load_res (set_st c (put_bundle (k_st c) i d k x m)) i d (typed_put_bundle _ i d k x m T)).
  cbn [k_st set_st]. rewrite bundle_at_put_bundle.
  replace (same_dir i d i d) with true by (symmetry; apply same_dir_true; auto). auto.
Qed.

Lemma newest_some bs b : In b bs -> exists b', newest bs = Some b'.
Proof.
  destruct bs as [|a r]; [contradiction|]. intros _. cbn.
  destruct (newest r) as [b'|]; [destruct (_ <? _)%Z|]; eauto.
Qed.
Lemma bundles_of st is d i b : In i is -> bundle_at st i d = Some b -> In b (bundles st is d).
Proof.
  induction is as [|j r IH]; cbn; [contradiction|]. intros [->|Hi] Hb.
  - rewrite Hb. left; reflexivity.
  - destruct (bundle_at st j d); [right|]; apply IH; auto.
Qed.

(** ... and a load with a spelling whose load directory is the save directory picks the newest
    stored bundle, whose key matches *)
Lemma reload_after_success cfg sp orc h c r c' :
  Inv6 cfg sp c -> oracle_ok cfg orc -> is_op h = true ->
  run_hop_pure cfg sp orc h c = (Ok r, c') -> s_load sp = s_save sp ->
  exists mc, managed_of c' cfg (s_load sp) = Ok mc /\
             newest_bundle (k_st c') cfg (s_save sp) = Some (m_i mc, m_k mc, m_c mc, [s_id sp]) /\
             c_pub (m_c mc) = m_k mc /\ c_sub (m_c mc) = s_id sp.
Proof.
  intros I HO Hop HR HS.
  assert (I1 : Inv6 cfg sp c') by (generalize (Inv6_run_hop cfg sp orc h c I); rewrite HR; auto).
  destruct (success_bundle_complete _ _ _ _ _ _ _ I HO Hop HR) as (i & k & x & Hi & Hb & _).
  destruct (newest_some _ _ (bundles_of _ _ _ _ _ Hi Hb)) as [[[[j k'] x'] m'] HN].
  fold (newest_bundle (k_st c') cfg (s_save sp)) in HN.
  destruct (newest_bundle_inv _ _ _ _ _ _ _ HN) as (Hj & HK & HC & HM).
  assert (HM' : c_pub x' = k') by (apply (i_match _ _ _ I1 _ _ _ _ HK HC)).
  exists (MCert x' k' j (rev_of (k_ocsp c') x')).
  assert (E : managed_of c' cfg (s_load sp) = Ok (MCert x' k' j (rev_of (k_ocsp c') x'))).
  { unfold managed_of. rewrite HS, HN. apply N.eqb_eq in HM'. rewrite HM'. reflexivity. }
  split; [exact E|]. destruct (managed_of_ok _ _ _ _ _ I1 E) as (_ & _ & A & _ & B & C & _). auto.
Qed.

(** ** which keys new certificates are for *)
(** every certificate in storage after the step was there before, or is for a key satisfying [Q]
    and lies next to that key *)
Definition new_certs_for (c c' : core) (Q : keyid -> Prop) : Prop :=
  forall i d x, dir_crt (k_st c') i d = Some x ->
                dir_crt (k_st c) i d = Some x \/ (Q (c_pub x) /\ dir_key (k_st c') i d = Some (c_pub x)).
Lemma ncf_refl c Q : new_certs_for c c Q.
Proof. intros i d x H; left; exact H. Qed.
Lemma ncf_issue_save sp orc order k c (Q : keyid -> Prop) :
  Q k -> new_certs_for c (snd (issue_save sp orc order k c)) Q.
Proof.
  intros HQ. unfold issue_save. destruct (first_up orc order) as [[i [nb v]]|]; cbn [snd]; [|apply ncf_refl].
  intros i' d' x. cbn [k_st set_st bump_ser]. rewrite dir_crt_put_bundle, dir_key_put_bundle.
  destruct (same_dir i (s_save sp) i' d'); [intros [= <-]; right; cbn; auto | left; assumption].
Qed.
Lemma ncf_st_eq c0 c c' Q : k_st c = k_st c0 -> new_certs_for c c' Q -> new_certs_for c0 c' Q.
Proof. intros E H i d x Hx. rewrite <- E. apply H, Hx. Qed.
Lemma ncf_crt_eq c0 c c' Q :
  (forall i d, dir_crt (k_st c) i d = dir_crt (k_st c0) i d) -> new_certs_for c c' Q -> new_certs_for c0 c' Q.
Proof. intros E H i d x Hx. rewrite <- E. apply H, Hx. Qed.
Lemma ncf_then_load c rc cfg d Q : new_certs_for c (snd rc) Q -> new_certs_for c (snd (then_load rc cfg d)) Q.
Proof. unfold then_load. destruct rc as [[u|e|] c1]; auto. Qed.

Lemma ncf_obtain_fresh cfg sp orc c :
  reuse cfg = false -> new_certs_for c (snd (obtain_pure cfg sp orc c)) (fun k => k = k_nkey c).
Proof.
  intros HR. unfold obtain_pure. destruct (any_complete _ _ _); [apply ncf_refl|]. rewrite HR.
  apply (ncf_st_eq c (bump_key c)); [reflexivity|]. apply ncf_issue_save. reflexivity.
Qed.
Lemma ncf_renew_fresh cfg sp orc f c :
  reuse cfg = false -> new_certs_for c (snd (renew_pure cfg sp orc f c)) (fun k => k = k_nkey c).
Proof.
  intros HR. unfold renew_pure. destruct (newest_bundle _ _ _) as [[[[i0 k0] c0] m0]|]; [|apply ncf_refl].
  destruct (_ && _); [apply ncf_refl|]. rewrite HR.
  apply (ncf_st_eq c (bump_key c)); [reflexivity|]. apply ncf_issue_save. reflexivity.
Qed.
Lemma dir_crt_move_comp i d c i' d' : dir_crt (k_st (move_comp_pure i d c)) i' d' = dir_crt (k_st c) i' d'.
Proof.
  unfold move_comp_pure. destruct (sget (k_st c) (i, d, FKey)) as [v|]; [|reflexivity].
  cbn [k_st set_st]. unfold dir_crt. rewrite sget_move_comp. destruct (same_dir i d i' d'); reflexivity.
Qed.
Lemma k_nkey_move_comp i d c : k_nkey (move_comp_pure i d c) = k_nkey c.
Proof. unfold move_comp_pure. destruct (sget (k_st c) (i, d, FKey)); reflexivity. Qed.
Lemma ncf_del_assets c i d Q : new_certs_for c (set_st c (del_assets (k_st c) i d)) Q.
Proof.
  intros i' d' x. cbn [k_st set_st]. unfold dir_crt. rewrite sget_del_assets_dir.
  destruct (same_dir i d i' d'); [discriminate | left; assumption].
Qed.
Lemma ncf_trans_old c c1 c2 Q :
  (forall i d x, dir_crt (k_st c1) i d = Some x -> dir_crt (k_st c) i d = Some x) ->
  new_certs_for c1 c2 Q -> new_certs_for c c2 Q.
Proof. intros H1 H2 i d x Hx. destruct (H2 i d x Hx) as [H|H]; [left; apply H1, H | right; exact H]. Qed.
Lemma ncf_revoke_api is sp c Q : new_certs_for c (snd (revoke_api_pure is sp c)) Q.
Proof.
  revert c. induction is as [|i r IH]; intros c; cbn [revoke_api_pure]; [apply ncf_refl|].
  destruct (bundle_at _ _ _); [|apply ncf_refl]. destruct (negb _); [apply ncf_refl|].
  eapply ncf_trans_old; [|apply IH].
  intros i' d' x H. destruct (ncf_del_assets c i (s_pre sp) (fun _ => False) i' d' x H) as [H'|[[] _]]. exact H'.
Qed.

(** fresh_key_unless_reuse: without key reuse, whatever operation runs, a certificate that was not
    in storage before is for the key generated during this very operation, stored next to it *)
Lemma fresh_key_unless_reuse cfg sp orc h c :
  reuse cfg = false ->
  new_certs_for c (snd (run_hop_pure cfg sp orc h c)) (fun k => k = k_nkey c).
Proof.
  intros HR. destruct h as [|f| |i kc|]; cbn [run_hop_pure snd].
  - apply ncf_obtain_fresh, HR.
  - apply ncf_renew_fresh, HR.
  - unfold manage_pure. destruct (managed_of c cfg (s_load sp)) as [mc|e|]; [| |apply ncf_refl].
    + destruct (_ && _).
      * unfold force_renew_pure. apply ncf_then_load. destruct (m_rev mc) as [[|]|].
        -- apply (ncf_crt_eq c (move_comp_pure (m_i mc) (s_save sp) c)); [apply dir_crt_move_comp|].
           rewrite <- (k_nkey_move_comp (m_i mc) (s_save sp) c). apply ncf_obtain_fresh, HR.
        -- apply ncf_renew_fresh, HR.
        -- apply ncf_renew_fresh, HR.
      * destruct (is_due _); [apply ncf_then_load, ncf_renew_fresh, HR | apply ncf_refl].
    + destruct e; try apply ncf_refl. apply ncf_then_load, ncf_obtain_fresh, HR.
  - unfold revoke_env_pure. destruct (sget _ _) as [[k|x|m]|]; intros i' d' x' H; left; exact H.
  - apply ncf_revoke_api.
Qed.
(** that key occurs nowhere in the storage the operation started from *)
Lemma fresh_key_is_new cfg sp c :
  Inv6 cfg sp c ->
  (forall i d, dir_key (k_st c) i d <> Some (k_nkey c)) /\
  (forall i d, dir_comp (k_st c) i d <> Some (k_nkey c)) /\
  (forall i d x, dir_crt (k_st c) i d = Some x -> c_pub x <> k_nkey c).
Proof.
  intros I. repeat split.
  - intros i d H. generalize (i_key _ _ _ I _ _ _ H). lia.
  - intros i d H. generalize (i_comp _ _ _ I _ _ _ H). lia.
  - intros i d x H. destruct (i_crt _ _ _ I _ _ _ H) as (_ & _ & _ & D). lia.
Qed.

(** reuse_keeps_key: with key reuse a renewal certifies the key of the bundle it loaded and
    generates none; an obtain uses the first key it finds under the name *)
Lemma reuse_keeps_key_renew cfg sp orc f c j k0 c0 m0 :
  reuse cfg = true -> newest_bundle (k_st c) cfg (s_load sp) = Some (j, k0, c0, m0) ->
  new_certs_for c (snd (renew_pure cfg sp orc f c)) (fun k => k = k0) /\
  k_nkey (snd (renew_pure cfg sp orc f c)) = k_nkey c.
Proof.
  intros HR HN. unfold renew_pure. rewrite HN.
  destruct (_ && _); [split; [apply ncf_refl | reflexivity]|]. rewrite HR.
  split; [apply ncf_issue_save; reflexivity|].
  unfold issue_save. destruct (first_up _ _) as [[i [nb v]]|]; reflexivity.
Qed.
Lemma reuse_keeps_key_obtain cfg sp orc c j k0 :
  reuse cfg = true -> first_key_i (k_st c) (issuers cfg) (s_pre sp) = Some (j, k0) ->
  new_certs_for c (snd (obtain_pure cfg sp orc c)) (fun k => k = k0) /\
  k_nkey (snd (obtain_pure cfg sp orc c)) = k_nkey c.
Proof.
  intros HR HK. unfold obtain_pure. destruct (any_complete _ _ _); [split; [apply ncf_refl | reflexivity]|].
  rewrite HR, HK. split; [apply ncf_issue_save; reflexivity|].
  unfold issue_save. destruct (first_up _ _) as [[i [nb v]]|]; reflexivity.
Qed.

(** cached_covers_requested: what manage caches is the newest stored bundle, its key matches, and
    it is a certificate for exactly the requested identifier *)
Lemma cached_covers_requested cfg sp orc c mc c' :
  Inv6 cfg sp c -> manage_pure cfg sp orc c = (Ok mc, c') ->
  c_sub (m_c mc) = s_id sp /\ c_pub (m_c mc) = m_k mc /\ In (m_i mc) (issuers cfg) /\
  newest_bundle (k_st c') cfg (s_save sp) = Some (m_i mc, m_k mc, m_c mc, [s_id sp]).
Proof.
  intros I E. destruct (manage_pure_ok _ _ _ _ _ _ E) as [d Hd].
  assert (I1 : Inv6 cfg sp c') by (generalize (Inv6_manage cfg sp orc c I); rewrite E; auto).
  destruct (managed_of_ok _ _ _ _ _ I1 Hd) as (_ & Hi & HN & _ & A & B & _). auto.
Qed.

(** newest_of_issuers_loaded: the bundle a load picks has the latest NotBefore among the issuers
    that have a complete bundle; among equals, the first configured issuer wins *)
Lemma newest_none_all st is d :
  newest (bundles st is d) = None -> forall j, In j is -> bundle_at st j d = None.
Proof.
  induction is as [|a r IH]; cbn; [contradiction|].
  destruct (bundle_at st a d) as [ba|] eqn:EA.
  - cbn. destruct (newest (bundles st r d)); [destruct (_ <? _)%Z|]; discriminate.
  - intros H j [<-|Hj]; auto.
Qed.
Lemma newest_of_sorted st d is :
  StronglySorted lt is ->
  forall i k x m, newest (bundles st is d) = Some (i, k, x, m) ->
  In i is /\ bundle_at st i d = Some (i, k, x, m) /\
  forall j b', In j is -> bundle_at st j d = Some b' ->
               (c_nb (b_cert b') <= c_nb x)%Z /\ (c_nb (b_cert b') = c_nb x -> (i <= j)%nat).
Proof.
  induction 1 as [|a r HS IH HA]; intros i k x m; cbn [bundles]; [discriminate|].
  destruct (bundle_at st a d) as [ba|] eqn:EA.
  - cbn [newest]. destruct (newest (bundles st r d)) as [br|] eqn:ER.
    + destruct (c_nb (b_cert ba) <? c_nb (b_cert br))%Z eqn:EL; intros [= ->].
      * apply Z.ltb_lt in EL. cbn in EL. destruct (IH _ _ _ _ eq_refl) as (Hir & Hbr & Hmax).
        split; [right; exact Hir|]. split; [exact Hbr|].
        intros j b' [<-|Hj] Hb.
        -- rewrite EA in Hb. injection Hb as <-. split; [lia | intros; lia].
        -- apply Hmax; assumption.
      * apply Z.ltb_ge in EL. cbn in EL.
        destruct (bundle_at_inv _ _ _ _ _ _ _ EA) as (-> & _).
        split; [left; reflexivity|]. split; [exact EA|].
        intros j b' [<-|Hj] Hb.
        -- rewrite EA in Hb. injection Hb as <-. cbn. split; [lia | intros; lia].
        -- destruct br as [[[ir kr] xr] mr]. destruct (IH _ _ _ _ eq_refl) as (_ & _ & Hmax).
           destruct (Hmax j b' Hj Hb) as [H1 _]. cbn in EL. split; [lia|].
           intros _. rewrite Forall_forall in HA. apply Nat.lt_le_incl, HA, Hj.
    + intros [= ->]. destruct (bundle_at_inv _ _ _ _ _ _ _ EA) as (-> & _).
      split; [left; reflexivity|]. split; [exact EA|].
      intros j b' [<-|Hj] Hb.
      * rewrite EA in Hb. injection Hb as <-. cbn. split; [lia | intros; lia].
      * rewrite (newest_none_all _ _ _ ER j Hj) in Hb. discriminate.
  - intros HN. destruct (IH _ _ _ _ HN) as (Hi & Hb & Hmax).
    split; [right; exact Hi|]. split; [exact Hb|].
    intros j b' [<-|Hj] Hb'; [rewrite EA in Hb'; discriminate | apply Hmax; assumption].
Qed.
Lemma seq_sorted a n : StronglySorted lt (seq a n).
Proof.
  revert a. induction n as [|n IH]; intros a; cbn; constructor; [apply IH|].
  apply Forall_forall. intros x Hx. apply in_seq in Hx. lia.
Qed.
Lemma newest_of_issuers_loaded st cfg d i k x m :
  newest_bundle st cfg d = Some (i, k, x, m) ->
  (i < n_iss cfg)%nat /\ bundle_at st i d = Some (i, k, x, m) /\
  forall j b', (j < n_iss cfg)%nat -> bundle_at st j d = Some b' ->
               (c_nb (b_cert b') <= c_nb x)%Z /\ (c_nb (b_cert b') = c_nb x -> (i <= j)%nat).
Proof.
  intros H. destruct (newest_of_sorted st d (issuers cfg) (seq_sorted 0 (n_iss cfg)) _ _ _ _ H) as (Hi & Hb & Hmax).
  split; [apply in_seq in Hi; lia|]. split; [exact Hb|].
  intros j b' Hj. apply Hmax. apply in_seq. lia.
Qed.

(** ** compromised_key_never_reused (one issuer, or no key reuse) *)
Lemma rev_of_some_not_expired ocsp x b : rev_of ocsp x = Some b -> is_expired x = false.
Proof. unfold rev_of. destruct (assoc_ser ocsp (c_ser x)); [|discriminate]. destruct (is_expired x); [discriminate | reflexivity]. Qed.
Lemma any_complete_of st is d i : In i is -> complete st i d = true -> any_complete st is d = true.
Proof. intros Hi Hc. unfold any_complete. apply existsb_exists. eauto. Qed.
Lemma Inv6_canon cfg sp c : Inv6 cfg sp c <-> Inv6 cfg (canon sp) c.
Proof. split; intros [T U D Mt Cr Ky Cp Ds]; constructor; auto. Qed.

Lemma compromised_key_never_reused_partial cfg sp orc c mc0 mc c' :
  Inv6 cfg sp c -> oracle_ok cfg orc -> (n_iss cfg = 1%nat \/ reuse cfg = false) ->
  managed_of c cfg (s_load sp) = Ok mc0 -> m_rev mc0 = Some true ->
  manage_pure cfg sp orc c = (Ok mc, c') ->
  m_k mc <> m_k mc0.
Proof.
  intros I HO Hcase EM0 Hrev.
  destruct (managed_of_ok _ _ _ _ _ I EM0) as (HS & Hi0 & HN0 & Hb0 & Hp0 & Hs0 & Hrev').
  assert (Hexp : is_expired (m_c mc0) = false) by (rewrite Hrev in Hrev'; symmetry in Hrev'; apply (rev_of_some_not_expired _ _ _ Hrev')).
  unfold manage_pure. rewrite EM0, Hexp, Hrev. cbn [negb andb].
  unfold force_renew_pure. rewrite Hrev.
  set (i0 := m_i mc0) in *. set (k0 := m_k mc0) in *. set (s := s_save sp) in *.
  set (c1 := move_comp_pure i0 s c).
  intros H. apply then_load_ok in H. destruct H as (-> & HM & [u Hu]).
  assert (I1 : Inv6 cfg sp c1) by (apply Inv6_move_comp, I).
  set (c2 := snd (obtain_pure cfg (canon sp) orc c1)) in *.
  assert (I2 : Inv6 cfg sp c2).
  { apply (proj2 (Inv6_canon cfg sp c2)). apply Inv6_obtain. apply (proj1 (Inv6_canon cfg sp c1)). exact I1. }
  destruct (managed_of_ok _ _ _ _ _ I2 HM) as (_ & Hi & _ & Hb & Hp & _).
  destruct (bundle_at_inv _ _ _ _ _ _ _ Hb0) as (_ & HK0 & HC0 & _).
  assert (Hk0 : k0 < k_nkey c) by (apply (i_key _ _ _ I _ _ _ HK0)).
  (* the storage after the quarantine *)
  assert (Est1 : k_st c1 = sdel (sput (k_st c) (i0, s, FComp) (VKey k0)) (i0, s, FKey)).
  { unfold c1, move_comp_pure. unfold dir_key in HK0.
    destruct (sget (k_st c) (i0, s, FKey)) as [[kk|?|?]|]; try discriminate. injection HK0 as ->. reflexivity. }
  assert (HK1 : forall j, dir_key (k_st c1) j s = if Nat.eqb i0 j then None else dir_key (k_st c) j s).
  { intros j. unfold dir_key. rewrite Est1, sget_move_comp. unfold same_dir. rewrite N.eqb_refl, andb_true_r.
    destruct (Nat.eqb i0 j); reflexivity. }
  assert (HB1 : forall j b, bundle_at (k_st c1) j s = Some b -> j <> i0).
  { intros j b Hj ->. destruct b as [[[jj kk] xx] mm]. apply bundle_at_inv in Hj. destruct Hj as (_ & Hkj & _).
    rewrite HK1, Nat.eqb_refl in Hkj. discriminate. }
  unfold c2, obtain_pure in Hb, Hu. cbn [s_pre s_save s_id canon] in Hb, Hu. fold s in Hb, Hu.
  destruct (any_complete (k_st c1) (issuers cfg) s) eqn:EA.
  - (* another complete bundle exists: obtain is a no-op *)
    cbn [snd] in Hb. generalize (HB1 _ _ Hb); intros Hne.
    destruct Hcase as [Hn|HR].
    + exfalso. unfold issuers in Hi, Hi0. rewrite Hn in Hi, Hi0. cbn in Hi, Hi0.
      destruct Hi as [Hi|[]], Hi0 as [Hi0|[]]. congruence.
    + intros Heq. apply Hne.
      destruct (bundle_at_inv _ _ _ _ _ _ _ Hb) as (_ & _ & HC & _).
      rewrite (dir_crt_move_comp i0 s c) in HC.
      apply (i_distinct _ _ _ I HR _ _ _ _ _ _ HC HC0). fold k0 in Hp0. congruence.
  - (* nothing complete: a certificate is obtained; the key is fresh in both cases *)
    assert (EKR : (if reuse cfg then first_key_i (k_st c1) (issuers cfg) s else None) = None).
    { destruct Hcase as [Hn|HR]; [|rewrite HR; reflexivity].
      destruct (reuse cfg); [|reflexivity].
      unfold issuers in *. rewrite Hn in *. cbn in Hi0 |- *. destruct Hi0 as [Hi0|[]].
      rewrite HK1, <- Hi0. cbn. reflexivity. }
    rewrite EKR in Hb, Hu. unfold issue_save in Hb, Hu.
    destruct (first_up orc (obtain_order cfg orc None)) as [[i' [nb v]]|]; [|discriminate].
    cbn [snd k_st set_st bump_ser bump_key] in Hb. rewrite bundle_at_put_bundle in Hb.
    change (s_save (canon sp)) with s in Hb.
    destruct (same_dir i' s (m_i mc) s).
    + injection Hb as Hk _. unfold c1 in Hk. rewrite k_nkey_move_comp in Hk. lia.
    + exfalso. assert (complete (k_st c1) (m_i mc) s = true) by (apply (complete_bundle_at _ _ _ (i_typed _ _ _ I1)); eauto).
      rewrite (any_complete_of _ _ _ _ Hi H) in EA. discriminate.
Qed.

(** * C07: recovery *)
Definition canonical (sp : subject) : Prop := s_pre sp = s_save sp /\ s_load sp = s_save sp.
(** the issuers of the recovery run all answer, with certificates that are not due and whose
    NotBefore is later than anything stored (they do not backdate before existing certificates) *)
Definition all_up (cfg : config) (orc : oracle) (st : storage) (d : N) : Prop :=
  (forall i, In i (issuers cfg) ->
             exists nb, nth i (o_out orc) None = Some (nb, VFresh) /\
                        forall j x, dir_crt st j d = Some x -> (c_nb x < nb)%Z) /\
  (rnd cfg = true -> o_perm orc <> [] /\ incl (o_perm orc) (issuers cfg)).
Record Rec7 (cfg : config) (sp : subject) (c : core) : Prop := {
  r_typed : typed (k_st c);
  r_unlocked : k_locked c = false;
  r_noocsp : k_ocsp c = [];
  r_sub : forall i x, dir_crt (k_st c) i (s_save sp) = Some x -> c_sub x = s_id sp;
  r_niss : (1 <= n_iss cfg)%nat
}.

Lemma first_up_all_up cfg orc st d order :
  all_up cfg orc st d -> order <> [] -> incl order (issuers cfg) ->
  exists i nb, first_up orc order = Some (i, (nb, VFresh)) /\ In i (issuers cfg) /\
               forall j x, dir_crt st j d = Some x -> (c_nb x < nb)%Z.
Proof.
  intros [HU _] Hne Hincl. destruct order as [|i r]; [contradiction|].
  destruct (HU i (Hincl i (or_introl eq_refl))) as (nb & Hnb & Hlt).
  exists i, nb. cbn. rewrite Hnb. auto using (Hincl i (or_introl eq_refl)).
Qed.
Lemma issuers_nonempty cfg : (1 <= n_iss cfg)%nat -> issuers cfg <> [].
Proof. unfold issuers. destruct (n_iss cfg); [lia | cbn; discriminate]. Qed.
Lemma obtain_order_nonempty cfg orc st d kr :
  all_up cfg orc st d -> (1 <= n_iss cfg)%nat -> obtain_order cfg orc kr <> [].
Proof.
  intros [_ HP] Hn. unfold obtain_order. destruct (rnd cfg); [apply HP; reflexivity|].
  destruct kr as [[i k]|]; [unfold move_front; discriminate | apply issuers_nonempty, Hn].
Qed.

Lemma newest_dominant bs b :
  In b bs -> (forall b', In b' bs -> b' = b \/ (c_nb (b_cert b') < c_nb (b_cert b))%Z) -> newest bs = Some b.
Proof.
  induction bs as [|a r IH]; [contradiction|]. intros Hin Hall. cbn [newest].
  assert (Hr : forall b', In b' r -> b' = b \/ (c_nb (b_cert b') < c_nb (b_cert b))%Z) by (intros; apply Hall; right; assumption).
  destruct Hin as [->|Hin].
  - destruct (newest r) as [b'|] eqn:ER; [|reflexivity].
    destruct (Hr b' (newest_in _ _ ER)) as [->|Hlt].
    + rewrite Z.ltb_irrefl. reflexivity.
    + destruct (Z.ltb_spec (c_nb (b_cert b)) (c_nb (b_cert b'))); [lia | reflexivity].
  - rewrite (IH Hin Hr).
    destruct (Hall a (or_introl eq_refl)) as [->|Hlt].
    + rewrite Z.ltb_irrefl. reflexivity.
    + destruct (Z.ltb_spec (c_nb (b_cert a)) (c_nb (b_cert b))); [reflexivity | lia].
Qed.

(** after a complete bundle with a later NotBefore than everything else has been stored with a
    configured issuer, it is what every load picks *)
Lemma newest_after_put st cfg d i k x m :
  In i (issuers cfg) ->
  (forall j y, dir_crt st j d = Some y -> (c_nb y < c_nb x)%Z) ->
  newest_bundle (put_bundle st i d k x m) cfg d = Some (i, k, x, m).
Proof.
  intros Hi Hlt. unfold newest_bundle. apply newest_dominant.
  - apply (bundles_of _ _ _ i); [exact Hi|]. rewrite bundle_at_put_bundle.
    replace (same_dir i d i d) with true by (symmetry; apply same_dir_true; auto). reflexivity.
  - intros b' Hb'. apply bundles_in in Hb'. destruct Hb' as (j & Hj & Hb). rewrite bundle_at_put_bundle in Hb.
    destruct (same_dir i d j d) eqn:E.
    + apply same_dir_true in E. destruct E as [-> _]. left. congruence.
    + right. destruct b' as [[[j' k'] y] m']. apply bundle_at_inv in Hb. destruct Hb as (_ & _ & HC & _).
      cbn. apply (Hlt j y HC).
Qed.

Lemma newest_none_no_complete st cfg d :
  typed st -> newest_bundle st cfg d = None -> any_complete st (issuers cfg) d = false.
Proof.
  intros T HN. unfold any_complete. apply not_true_is_false. intros H. apply existsb_exists in H.
  destruct H as (i & Hi & Hc). apply (complete_bundle_at _ _ _ T) in Hc. destruct Hc as [b Hb].
  rewrite (newest_none_all _ _ _ HN i Hi) in Hb. discriminate.
Qed.

(** what issue_save yields when all issuers are up *)
Lemma issue_save_all_up cfg sp orc order k c :
  all_up cfg orc (k_st c) (s_save sp) -> order <> [] -> incl order (issuers cfg) ->
  exists i nb, In i (issuers cfg) /\
    issue_save sp orc order k c =
      (Ok tt, set_st (bump_ser c) (put_bundle (k_st c) i (s_save sp) k (Cert k (s_id sp) nb VFresh (k_nser c)) [s_id sp])) /\
    newest_bundle (put_bundle (k_st c) i (s_save sp) k (Cert k (s_id sp) nb VFresh (k_nser c)) [s_id sp]) cfg (s_save sp)
      = Some (i, k, Cert k (s_id sp) nb VFresh (k_nser c), [s_id sp]).
Proof.
  intros HU Hne Hincl. destruct (first_up_all_up _ _ _ _ _ HU Hne Hincl) as (i & nb & HF & Hi & Hlt).
  exists i, nb. split; [exact Hi|]. split; [unfold issue_save; rewrite HF; reflexivity|].
  apply newest_after_put; [exact Hi | exact Hlt].
Qed.

Definition served_ok (cfg : config) (sp : subject) (mc : mcert) (c' : core) : Prop :=
  c_pub (m_c mc) = m_k mc /\ is_due (m_c mc) = false /\ c_sub (m_c mc) = s_id sp /\
  In (m_i mc) (issuers cfg) /\
  exists m, newest_bundle (k_st c') cfg (s_save sp) = Some (m_i mc, m_k mc, m_c mc, m).

Lemma managed_of_after_issue cfg sp c i k nb :
  k_ocsp c = [] ->
  newest_bundle (put_bundle (k_st c) i (s_save sp) k (Cert k (s_id sp) nb VFresh (k_nser c)) [s_id sp]) cfg (s_save sp)
    = Some (i, k, Cert k (s_id sp) nb VFresh (k_nser c), [s_id sp]) ->
  forall c', k_st c' = put_bundle (k_st c) i (s_save sp) k (Cert k (s_id sp) nb VFresh (k_nser c)) [s_id sp] ->
             k_ocsp c' = [] ->
  managed_of c' cfg (s_save sp) = Ok (MCert (Cert k (s_id sp) nb VFresh (k_nser c)) k i None).
Proof.
  intros HO HN c' Est HO'. unfold managed_of. rewrite Est, HN. cbn [c_pub]. rewrite N.eqb_refl.
  unfold rev_of. rewrite HO'. reflexivity.
Qed.

(** recoverable: from ANY well-typed storage in which the bundle a load picks (if there is one)
    has a matching key, a fresh instance's manage succeeds and ends up serving a certificate
    that is not due, names the subject, and whose key matches *)
Lemma recoverable cfg sp orc c :
  Rec7 cfg sp c -> canonical sp -> all_up cfg orc (k_st c) (s_save sp) ->
  stuck (k_st c) cfg (s_save sp) = false ->
  exists mc c', manage_pure cfg sp orc c = (Ok mc, c') /\ served_ok cfg sp mc c'.
Proof.
  intros R [HP HL] HU HS. unfold manage_pure, managed_of. rewrite HL.
  unfold stuck in HS.
  destruct (newest_bundle (k_st c) cfg (s_save sp)) as [[[[i k] x] m]|] eqn:EN.
  - (* a bundle is loaded; its key matches *)
    cbn in HS. apply negb_false_iff in HS. rewrite HS. cbn [m_c m_rev].
    unfold rev_of. rewrite (r_noocsp _ _ _ R). cbn [assoc_ser]. rewrite andb_false_r.
    destruct (newest_bundle_inv _ _ _ _ _ _ _ EN) as (Hi & HK & HC & HM).
    destruct (is_due x) eqn:ED.
    + (* due: renewed, reloaded *)
      unfold renew_pure. rewrite HL, EN, ED. cbn [negb andb].
      assert (HI : exists i' nb k', In i' (issuers cfg) /\
                 (if reuse cfg then issue_save sp orc (issuers cfg) k c
                  else issue_save sp orc (issuers cfg) (k_nkey c) (bump_key c)) =
                 (Ok tt, set_st (bump_ser (if reuse cfg then c else bump_key c))
                                (put_bundle (k_st c) i' (s_save sp) k' (Cert k' (s_id sp) nb VFresh (k_nser c)) [s_id sp])) /\
                 newest_bundle (put_bundle (k_st c) i' (s_save sp) k' (Cert k' (s_id sp) nb VFresh (k_nser c)) [s_id sp]) cfg (s_save sp)
                 = Some (i', k', Cert k' (s_id sp) nb VFresh (k_nser c), [s_id sp])).
      { destruct (reuse cfg).
        - destruct (issue_save_all_up cfg sp orc (issuers cfg) k c HU (issuers_nonempty _ (r_niss _ _ _ R)) (incl_refl _))
            as (i' & nb & Hi' & E1 & E2). exists i', nb, k. auto.
        - destruct (issue_save_all_up cfg sp orc (issuers cfg) (k_nkey c) (bump_key c) HU (issuers_nonempty _ (r_niss _ _ _ R)) (incl_refl _))
            as (i' & nb & Hi' & E1 & E2). exists i', nb, (k_nkey c). auto. }
      destruct HI as (i' & nb & k' & Hi' & E1 & E2). rewrite E1. unfold then_load. cbn [fst snd].
      erewrite managed_of_after_issue; [| apply (r_noocsp _ _ _ R) | exact E2 | | ].
      * eexists _, _. split; [reflexivity|]. cbn [m_c m_k m_i]. repeat split; auto.
        cbn [k_st set_st]. eexists; exact E2.
      * destruct (reuse cfg); reflexivity.
      * destruct (reuse cfg); cbn; apply (r_noocsp _ _ _ R).
    + (* not due: served as it is *)
      eexists _, _. split; [reflexivity|]. cbn [m_c m_k m_i]. apply N.eqb_eq in HS.
      repeat split; auto. * apply (r_sub _ _ _ R _ _ HC). * eauto.
  - (* nothing loadable: obtain, then load *)
    assert (EA : any_complete (k_st c) (issuers cfg) (s_pre sp) = false)
      by (rewrite HP; apply newest_none_no_complete; [apply (r_typed _ _ _ R) | exact EN]).
    unfold obtain_pure. rewrite EA.
    set (kr := if reuse cfg then first_key_i (k_st c) (issuers cfg) (s_pre sp) else None).
    assert (HKR : forall i k, kr = Some (i, k) -> In i (issuers cfg)).
    { unfold kr. intros i k. destruct (reuse cfg); [|discriminate]. intros H. apply (first_key_i_in _ _ _ _ _ H). }
    assert (Hord : incl (obtain_order cfg orc kr) (issuers cfg)).
    { apply obtain_order_incl; [|exact HKR]. intros Hr. apply (proj2 HU Hr). }
    assert (Hne : obtain_order cfg orc kr <> []) by (eapply obtain_order_nonempty; [exact HU | apply (r_niss _ _ _ R)]).
    assert (HI : exists i' nb k' c1, In i' (issuers cfg) /\ k_ocsp c1 = [] /\
                 match kr with
                 | Some (_, k) => issue_save sp orc (obtain_order cfg orc kr) k c
                 | None => issue_save sp orc (obtain_order cfg orc kr) (k_nkey c) (bump_key c)
                 end = (Ok tt, c1) /\
                 k_st c1 = put_bundle (k_st c) i' (s_save sp) k' (Cert k' (s_id sp) nb VFresh (k_nser c)) [s_id sp] /\
                 newest_bundle (put_bundle (k_st c) i' (s_save sp) k' (Cert k' (s_id sp) nb VFresh (k_nser c)) [s_id sp]) cfg (s_save sp)
                 = Some (i', k', Cert k' (s_id sp) nb VFresh (k_nser c), [s_id sp])).
    { destruct kr as [[i0 k0]|].
      - destruct (issue_save_all_up cfg sp orc _ k0 c HU Hne Hord) as (i' & nb & Hi' & E1 & E2).
        exists i', nb, k0. eexists. repeat split; [exact Hi' | | exact E1 | reflexivity | exact E2]. cbn. apply (r_noocsp _ _ _ R).
      - destruct (issue_save_all_up cfg sp orc _ (k_nkey c) (bump_key c) HU Hne Hord) as (i' & nb & Hi' & E1 & E2).
        exists i', nb, (k_nkey c). eexists. repeat split; [exact Hi' | | exact E1 | reflexivity | exact E2]. cbn. apply (r_noocsp _ _ _ R). }
    destruct HI as (i' & nb & k' & c1 & Hi' & HO1 & E1 & Est & E2). rewrite E1. unfold then_load. cbn [fst snd].
    erewrite managed_of_after_issue; [| apply (r_noocsp _ _ _ R) | exact E2 | exact Est | exact HO1].
    eexists _, _. split; [reflexivity|]. cbn [m_c m_k m_i]. repeat split; auto.
    rewrite Est. eexists; exact E2.
Qed.

(** the refuted class is permanent: on a stuck storage every manage fails with the key mismatch,
    obtain is a no-op, and neither changes anything — whatever the issuers would answer *)
Lemma stuck_is_permanent cfg sp orc c :
  typed (k_st c) -> canonical sp -> stuck (k_st c) cfg (s_save sp) = true ->
  manage_pure cfg sp orc c = (Fail EMismatch, c) /\ obtain_pure cfg sp orc c = (Ok tt, c).
Proof.
  intros T [HP HL] HS. unfold stuck in HS.
  destruct (newest_bundle (k_st c) cfg (s_save sp)) as [[[[i k] x] m]|] eqn:EN; [|discriminate].
  cbn in HS. apply negb_true_iff in HS. split.
  - unfold manage_pure, managed_of. rewrite HL, EN, HS. reflexivity.
  - unfold obtain_pure. rewrite HP.
    destruct (newest_bundle_inv _ _ _ _ _ _ _ EN) as (Hi & HK & HC & HM).
    assert (Hb : bundle_at (k_st c) i (s_save sp) = Some (i, k, x, m)) by (unfold bundle_at; rewrite HK, HC, HM; reflexivity).
    rewrite (any_complete_of _ _ _ i Hi); [reflexivity|]. apply (complete_bundle_at _ _ _ T). eauto.
Qed.

(** * The clauses stated on the monadic model (what the correspondence check executes) *)
Lemma evals_run_hop_inv cfg sp orc h c r c' :
  Inv6 cfg sp c -> evals (run_hop nf cfg sp orc h) c r c' -> run_hop_pure cfg sp orc h c = (r, c').
Proof.
  intros I HE.
  destruct (evals_det _ _ _ _ _ _ HE (evals_run_hop cfg sp orc h c (i_typed _ _ _ I) (i_unlocked _ _ _ I))) as [-> ->].
  destruct (run_hop_pure cfg sp orc h c); reflexivity.
Qed.
Lemma evals_manage_inv cfg sp orc c r c' :
  Inv6 cfg sp c -> evals (manage nf cfg sp orc) c r c' -> manage_pure cfg sp orc c = (r, c').
Proof.
  intros I HE.
  destruct (evals_det _ _ _ _ _ _ HE (evals_manage cfg sp orc c (i_typed _ _ _ I) (i_unlocked _ _ _ I))) as [-> ->].
  destruct (manage_pure cfg sp orc c); reflexivity.
Qed.
Lemma evals_load_managed_inv cfg d c r c' :
  typed (k_st c) -> evals (load_managed nf cfg d) c r c' -> managed_of c cfg d = r /\ c' = c.
Proof. intros T HE. destruct (evals_det _ _ _ _ _ _ HE (evals_load_managed c cfg d T)) as [-> ->]. auto. Qed.

Theorem m_success_bundle_complete cfg sp c orc h r c' :
  reach6 cfg sp c -> oracle_ok cfg orc -> is_op h = true ->
  evals (run_hop nf cfg sp orc h) c (Ok r) c' ->
  exists i k x, In i (issuers cfg) /\ bundle_at (k_st c') i (s_save sp) = Some (i, k, x, [s_id sp]) /\
                c_pub x = k /\ c_sub x = s_id sp.
Proof.
  intros HR HO Hop HE. apply reach6_inv in HR.
  change (good_at cfg sp c').
  apply (success_bundle_complete cfg sp orc h c r c' HR HO Hop). apply evals_run_hop_inv; assumption.
Qed.

Theorem m_reload_after_success cfg sp c orc h r c' :
  reach6 cfg sp c -> oracle_ok cfg orc -> is_op h = true ->
  evals (run_hop nf cfg sp orc h) c (Ok r) c' -> s_load sp = s_save sp ->
  exists mc, evals (load_managed nf cfg (s_load sp)) c' (Ok mc) c' /\
             newest_bundle (k_st c') cfg (s_save sp) = Some (m_i mc, m_k mc, m_c mc, [s_id sp]) /\
             c_pub (m_c mc) = m_k mc /\ c_sub (m_c mc) = s_id sp.
Proof.
  intros HR HO Hop HE HS. apply reach6_inv in HR.
  assert (EP := evals_run_hop_inv _ _ _ _ _ _ _ HR HE).
  destruct (reload_after_success _ _ _ _ _ _ _ HR HO Hop EP HS) as (mc & HM & A & B & C).
  exists mc. split; [|auto].
  assert (I1 : Inv6 cfg sp c') by (generalize (Inv6_run_hop cfg sp orc h c HR); rewrite EP; auto).
  generalize (evals_load_managed c' cfg (s_load sp) (i_typed _ _ _ I1)). rewrite HM. auto.
Qed.

Theorem m_fresh_key_unless_reuse cfg sp c orc h r c' :
  reach6 cfg sp c -> reuse cfg = false -> evals (run_hop nf cfg sp orc h) c r c' ->
  (forall i d x, dir_crt (k_st c') i d = Some x ->
                 dir_crt (k_st c) i d = Some x \/
                 (c_pub x = k_nkey c /\ dir_key (k_st c') i d = Some (c_pub x))) /\
  (forall i d, dir_key (k_st c) i d <> Some (k_nkey c)) /\
  (forall i d, dir_comp (k_st c) i d <> Some (k_nkey c)) /\
  (forall i d x, dir_crt (k_st c) i d = Some x -> c_pub x <> k_nkey c).
Proof.
  intros HR HRe HE. apply reach6_inv in HR. split; [|apply (fresh_key_is_new cfg sp c HR)].
  generalize (fresh_key_unless_reuse cfg sp orc h c HRe). rewrite (evals_run_hop_inv _ _ _ _ _ _ _ HR HE). auto.
Qed.

Theorem m_reuse_keeps_key cfg sp c orc f r c' j k0 c0 m0 :
  reach6 cfg sp c -> reuse cfg = true ->
  newest_bundle (k_st c) cfg (s_load sp) = Some (j, k0, c0, m0) ->
  evals (run_hop nf cfg sp orc (HRenew f)) c r c' ->
  (forall i d x, dir_crt (k_st c') i d = Some x ->
                 dir_crt (k_st c) i d = Some x \/ (c_pub x = k0 /\ dir_key (k_st c') i d = Some (c_pub x))) /\
  k_nkey c' = k_nkey c.
Proof.
  intros HR HRe HN HE. apply reach6_inv in HR.
  generalize (evals_run_hop_inv _ _ _ _ _ _ _ HR HE). cbn [run_hop_pure]. intros [= _ <-].
  apply (reuse_keeps_key_renew cfg sp orc f c j k0 c0 m0 HRe HN).
Qed.

Theorem m_cached_covers_requested cfg sp c orc mc c' :
  reach6 cfg sp c -> evals (manage nf cfg sp orc) c (Ok mc) c' ->
  c_sub (m_c mc) = s_id sp /\ c_pub (m_c mc) = m_k mc /\ In (m_i mc) (issuers cfg) /\
  newest_bundle (k_st c') cfg (s_save sp) = Some (m_i mc, m_k mc, m_c mc, [s_id sp]).
Proof.
  intros HR HE. apply reach6_inv in HR.
  apply (cached_covers_requested cfg sp orc c mc c' HR). apply evals_manage_inv; assumption.
Qed.

Theorem m_newest_of_issuers_loaded cfg d c i k x m c' :
  typed (k_st c) -> evals (load_any nf cfg d) c (Ok (i, k, x, m)) c' ->
  (i < n_iss cfg)%nat /\ bundle_at (k_st c) i d = Some (i, k, x, m) /\
  forall j b', (j < n_iss cfg)%nat -> bundle_at (k_st c) j d = Some b' ->
               (c_nb (b_cert b') <= c_nb x)%Z /\ (c_nb (b_cert b') = c_nb x -> (i <= j)%nat).
Proof.
  intros T HE. destruct (evals_det _ _ _ _ _ _ HE (evals_load_any c cfg d T)) as [E _].
  apply newest_of_issuers_loaded. revert E. destruct (newest_bundle (k_st c) cfg d) as [b|]; [intros [= ->]; reflexivity | discriminate].
Qed.

Theorem m_compromised_key_never_reused_partial cfg sp c orc mc0 mc c' :
  reach6 cfg sp c -> oracle_ok cfg orc -> (n_iss cfg = 1%nat \/ reuse cfg = false) ->
  evals (load_managed nf cfg (s_load sp)) c (Ok mc0) c -> m_rev mc0 = Some true ->
  evals (manage nf cfg sp orc) c (Ok mc) c' ->
  m_k mc <> m_k mc0.
Proof.
  intros HR HO Hc HL Hrev HM. apply reach6_inv in HR.
  destruct (evals_load_managed_inv _ _ _ _ _ (i_typed _ _ _ HR) HL) as [EL _].
  apply (compromised_key_never_reused_partial cfg sp orc c mc0 mc c' HR HO Hc EL Hrev). apply evals_manage_inv; assumption.
Qed.
