(** Proofs about the Bundle model: storage algebra, a small program logic for the
    state/exception monad (deterministic evaluation without faults; Hoare triples under an
    arbitrary fault plan), functional characterisation of every program fragment. *)
From Coq Require Import List NArith ZArith Bool Lia.
From CM Require Import Bundle.Model.
Import ListNotations.
Open Scope N_scope.

(** * Storage *)
Lemma fkind_eqb_eq a b : fkind_eqb a b = true <-> a = b.
Proof. destruct a, b; cbn; split; intros H; try reflexivity; try discriminate. Qed.
Lemma fkey_eqb_eq a b : fkey_eqb a b = true <-> a = b.
Proof.
  destruct a as [[i d] k], b as [[i' d'] k']; cbn.
  rewrite !andb_true_iff, Nat.eqb_eq, N.eqb_eq, fkind_eqb_eq.
  split; [intros [[-> ->] ->]; reflexivity | intros H; inversion H; auto].
Qed.
Lemma fkey_eqb_refl a : fkey_eqb a a = true.
Proof. apply fkey_eqb_eq; reflexivity. Qed.
Lemma fkey_eqb_neq a b : a <> b -> fkey_eqb a b = false.
Proof. intros H. destruct (fkey_eqb a b) eqn:E; [apply fkey_eqb_eq in E; contradiction | reflexivity]. Qed.
Lemma fkey_eq_dec (a b : fkey) : {a = b} + {a <> b}.
Proof. destruct (fkey_eqb a b) eqn:E; [left; apply fkey_eqb_eq; exact E | right; intros H; apply fkey_eqb_eq in H; congruence]. Qed.

Lemma sget_sdel_same st k : sget (sdel st k) k = None.
Proof.
  induction st as [|[k' v] r IH]; cbn; [reflexivity|].
  destruct (fkey_eqb k' k) eqn:E; cbn; [exact IH | rewrite E; exact IH].
Qed.
Lemma sget_sdel_other st k k' : k <> k' -> sget (sdel st k) k' = sget st k'.
Proof.
  intros Hne. induction st as [|[k0 v] r IH]; cbn; [reflexivity|].
  destruct (fkey_eqb k0 k) eqn:E; cbn.
  - apply fkey_eqb_eq in E; subst k0. rewrite (fkey_eqb_neq k k' Hne). exact IH.
  - destruct (fkey_eqb k0 k'); [reflexivity | exact IH].
Qed.
Lemma sget_sput_same st k v : sget (sput st k v) k = Some v.
Proof. unfold sput; cbn. rewrite fkey_eqb_refl. reflexivity. Qed.
Lemma sget_sput_other st k k' v : k <> k' -> sget (sput st k v) k' = sget st k'.
Proof. intros Hne. unfold sput; cbn. rewrite (fkey_eqb_neq k k' Hne). apply sget_sdel_other; exact Hne. Qed.
Lemma sget_sput st k k' v : sget (sput st k v) k' = if fkey_eqb k k' then Some v else sget st k'.
Proof.
  destruct (fkey_eqb k k') eqn:E.
  - apply fkey_eqb_eq in E; subst; apply sget_sput_same.
  - apply sget_sput_other. intros ->. rewrite fkey_eqb_refl in E; discriminate.
Qed.
Lemma sget_sdel st k k' : sget (sdel st k) k' = if fkey_eqb k k' then None else sget st k'.
Proof.
  destruct (fkey_eqb k k') eqn:E.
  - apply fkey_eqb_eq in E; subst; apply sget_sdel_same.
  - apply sget_sdel_other. intros ->. rewrite fkey_eqb_refl in E; discriminate.
Qed.
Lemma sget_sdel_dir st i d k' :
  sget (sdel_dir st i d) k' =
  if fkey_eqb (i, d, FKey) k' || fkey_eqb (i, d, FCrt) k' || fkey_eqb (i, d, FMeta) k' || fkey_eqb (i, d, FComp) k'
  then None else sget st k'.
Proof.
  unfold sdel_dir. rewrite !sget_sdel.
  destruct (fkey_eqb (i, d, FKey) k'), (fkey_eqb (i, d, FCrt) k'), (fkey_eqb (i, d, FMeta) k'), (fkey_eqb (i, d, FComp) k'); reflexivity.
Qed.

Global Arguments sput : simpl never.
Global Arguments sdel : simpl never.
Global Arguments sdel_dir : simpl never.

(** extensional equality of storages: everything the programs and the specifications do goes through [sget] *)
Definition steq (a b : storage) : Prop := forall k, sget a k = sget b k.
Lemma steq_refl a : steq a a. Proof. intros k; reflexivity. Qed.
Lemma steq_sym a b : steq a b -> steq b a. Proof. intros H k; symmetry; apply H. Qed.
Lemma steq_trans a b c : steq a b -> steq b c -> steq a c.
Proof. intros H1 H2 k; rewrite H1; apply H2. Qed.

Lemma dir_key_steq a b i d : steq a b -> dir_key a i d = dir_key b i d.
Proof. intros H; unfold dir_key; rewrite H; reflexivity. Qed.
Lemma dir_crt_steq a b i d : steq a b -> dir_crt a i d = dir_crt b i d.
Proof. intros H; unfold dir_crt; rewrite H; reflexivity. Qed.
Lemma dir_meta_steq a b i d : steq a b -> dir_meta a i d = dir_meta b i d.
Proof. intros H; unfold dir_meta; rewrite H; reflexivity. Qed.
Lemma bundle_at_steq a b i d : steq a b -> bundle_at a i d = bundle_at b i d.
Proof.
  intros H; unfold bundle_at.
  rewrite (dir_key_steq a b i d H), (dir_crt_steq a b i d H), (dir_meta_steq a b i d H). reflexivity.
Qed.
Lemma complete_steq a b i d : steq a b -> complete a i d = complete b i d.
Proof. intros H; unfold complete, present; rewrite !H; reflexivity. Qed.
Lemma bundles_steq a b is d : steq a b -> bundles a is d = bundles b is d.
Proof.
  intros H; induction is as [|i r IH]; cbn; [reflexivity|].
  rewrite (bundle_at_steq a b i d H), IH. reflexivity.
Qed.
Lemma newest_bundle_steq a b cfg d : steq a b -> newest_bundle a cfg d = newest_bundle b cfg d.
Proof. intros H; unfold newest_bundle; rewrite (bundles_steq a b _ d H); reflexivity. Qed.
Lemma stuck_steq a b cfg d : steq a b -> stuck a cfg d = stuck b cfg d.
Proof. intros H; unfold stuck; rewrite (newest_bundle_steq a b cfg d H); reflexivity. Qed.

(** well-typed storage: each file holds the kind of value its name says *)
Definition typed (st : storage) : Prop :=
  forall i d,
    (forall v, sget st (i, d, FKey) = Some v -> exists k, v = VKey k) /\
    (forall v, sget st (i, d, FCrt) = Some v -> exists c, v = VCrt c) /\
    (forall v, sget st (i, d, FMeta) = Some v -> exists m, v = VMeta m) /\
    (forall v, sget st (i, d, FComp) = Some v -> exists k, v = VKey k).
Lemma typed_steq a b : steq a b -> typed a -> typed b.
Proof. intros H T i d. destruct (T i d) as (A & B & C & D). rewrite <- !H. auto. Qed.

Lemma complete_bundle_at st i d : typed st -> complete st i d = true <-> exists b, bundle_at st i d = Some b.
Proof.
  intros T. destruct (T i d) as (A & B & C & _).
  unfold complete, present, bundle_at, dir_key, dir_crt, dir_meta.
  destruct (sget st (i, d, FKey)) as [vk|]; [destruct (A _ eq_refl) as [k ->]|];
  (destruct (sget st (i, d, FCrt)) as [vc|]; [destruct (B _ eq_refl) as [c ->]|]);
  (destruct (sget st (i, d, FMeta)) as [vm|]; [destruct (C _ eq_refl) as [m ->]|]); cbn;
  (split; [try discriminate; eauto | try reflexivity; intros [b Hb]; discriminate]).
Qed.

(** * Program logic *)

(** deterministic evaluation (used for fault-free runs): from any world whose core is [c], the
    program returns [r] and ends in core [c'] — counters and logs are irrelevant *)
Definition evals {A} (m : M A) (c : core) (r : res A) (c' : core) : Prop :=
  forall w, w_core w = c -> fst (m w) = r /\ w_core (snd (m w)) = c'.

Lemma evals_ret {A} (a : A) c : evals (ret a) c (Ok a) c.
Proof. intros w H; cbn; auto. Qed.
Lemma evals_fail {A} e c : evals (@fail A e) c (Fail e) c.
Proof. intros w H; cbn; auto. Qed.
Lemma evals_bind_ok {A B} (m : M A) (f : A -> M B) c a c1 r c2 :
  evals m c (Ok a) c1 -> evals (f a) c1 r c2 -> evals (bind m f) c r c2.
Proof.
  intros H1 H2 w Hw. unfold bind. destruct (H1 w Hw) as [E1 E2].
  destruct (m w) as [r1 w1]; cbn in *; subst r1. apply H2; exact E2.
Qed.
Lemma evals_bind_fail {A B} (m : M A) (f : A -> M B) c e c1 :
  evals m c (Fail e) c1 -> evals (bind m f) c (Fail e) c1.
Proof.
  intros H1 w Hw. unfold bind. destruct (H1 w Hw) as [E1 E2].
  destruct (m w) as [r1 w1]; cbn in *; subst r1. cbn; auto.
Qed.
Lemma evals_catch_ok {A} (m : M A) c a c1 : evals m c (Ok a) c1 -> evals (catch m) c (Ok (inl a)) c1.
Proof.
  intros H1 w Hw. unfold catch. destruct (H1 w Hw) as [E1 E2].
  destruct (m w) as [r1 w1]; cbn in *; subst r1; cbn; auto.
Qed.
Lemma evals_catch_fail {A} (m : M A) c e c1 : evals m c (Fail e) c1 -> evals (catch m) c (Ok (inr e)) c1.
Proof.
  intros H1 w Hw. unfold catch. destruct (H1 w Hw) as [E1 E2].
  destruct (m w) as [r1 w1]; cbn in *; subst r1; cbn; auto.
Qed.
Lemma evals_prim {A} k t (onf : res A) eff c r c' :
  eff c = (r, c') -> evals (prim no_faults k t onf eff) c r c'.
Proof. intros E w Hw. unfold prim; cbn. rewrite Hw, E. cbn. auto. Qed.
Lemma evals_local {A} (f : core -> res A * core * logev) c r c' e :
  f c = (r, c', e) -> evals (local f) c r c'.
Proof. intros E w Hw. unfold local. rewrite Hw, E. cbn; auto. Qed.
Lemma evals_det {A} (m : M A) c r1 c1 r2 c2 : evals m c r1 c1 -> evals m c r2 c2 -> r1 = r2 /\ c1 = c2.
Proof.
  intros H1 H2. destruct (H1 (World c 0 []) eq_refl) as [A1 B1], (H2 (World c 0 []) eq_refl) as [A2 B2].
  split; congruence.
Qed.

(** Hoare triples on cores, for programs under any plan *)
Definition hoare {A} (P : core -> Prop) (m : M A) (Q : res A -> core -> Prop) : Prop :=
  forall w, P (w_core w) -> Q (fst (m w)) (w_core (snd (m w))).

Lemma hoare_conseq {A} (P P' : core -> Prop) (m : M A) (Q Q' : res A -> core -> Prop) :
  hoare P m Q -> (forall c, P' c -> P c) -> (forall r c, Q r c -> Q' r c) -> hoare P' m Q'.
Proof. intros H HP HQ w Hw. apply HQ, H, HP, Hw. Qed.
Lemma hoare_ret {A} (a : A) (Q : res A -> core -> Prop) : hoare (Q (Ok a)) (ret a) Q.
Proof. intros w H; exact H. Qed.
Lemma hoare_fail {A} e (Q : res A -> core -> Prop) : hoare (Q (Fail e)) (fail e) Q.
Proof. intros w H; exact H. Qed.
Lemma hoare_bind {A B} P (m : M A) (f : A -> M B) (Q1 : res A -> core -> Prop) (Q : res B -> core -> Prop) :
  hoare P m Q1 ->
  (forall a, hoare (Q1 (Ok a)) (f a) Q) ->
  (forall e c, Q1 (Fail e) c -> Q (Fail e) c) ->
  (forall c, Q1 Dead c -> Q Dead c) ->
  hoare P (bind m f) Q.
Proof.
  intros H1 H2 HF HD w Hw. specialize (H1 w Hw). unfold bind.
  destruct (m w) as [[a|e|] w1]; cbn in *.
  - apply H2; exact H1.
  - apply HF; exact H1.
  - apply HD; exact H1.
Qed.
Lemma hoare_catch {A} P (m : M A) (Q1 : res A -> core -> Prop) (Q : res (A + err) -> core -> Prop) :
  hoare P m Q1 ->
  (forall a c, Q1 (Ok a) c -> Q (Ok (inl a)) c) ->
  (forall e c, Q1 (Fail e) c -> Q (Ok (inr e)) c) ->
  (forall c, Q1 Dead c -> Q Dead c) ->
  hoare P (catch m) Q.
Proof.
  intros H1 HO HF HD w Hw. specialize (H1 w Hw). unfold catch.
  destruct (m w) as [[a|e|] w1]; cbn in *; auto.
Qed.
(** a Storage call under any plan: it fails without effect, or takes effect; either way the
    process may die right after it *)
Lemma hoare_prim {A} pl k t (onf : res A) eff (P : core -> Prop) (Q : res A -> core -> Prop) :
  (forall c, P c -> Q onf c /\ Q Dead c /\ Q (fst (eff c)) (snd (eff c)) /\ Q Dead (snd (eff c))) ->
  hoare P (prim pl k t onf eff) Q.
Proof.
  intros H w Hw. destruct (H _ Hw) as (H1 & H2 & H3 & H4). unfold prim.
  destruct (p_fail pl (w_cnt w)); cbn.
  - destruct (crash_at pl (w_cnt w)); cbn; assumption.
  - destruct (eff (w_core w)) as [r c2]; cbn in *. destruct (crash_at pl (w_cnt w)); cbn; assumption.
Qed.
Lemma hoare_local {A} (f : core -> res A * core * logev) (P : core -> Prop) (Q : res A -> core -> Prop) :
  (forall c, P c -> Q (fst (fst (f c))) (snd (fst (f c)))) -> hoare P (local f) Q.
Proof. intros H w Hw. unfold local. specialize (H _ Hw). destruct (f (w_core w)) as [[r c] e]; cbn in *. exact H. Qed.
(** ghost initial state *)
Lemma hoare_ghost {A} (P : core -> Prop) (m : M A) (Q : res A -> core -> Prop) :
  (forall c0, P c0 -> hoare (eq c0) m Q) -> hoare P m Q.
Proof. intros H w Hw. apply (H (w_core w) Hw w eq_refl). Qed.

(** * Fault-free evaluation of the fragments *)
Local Notation nf := no_faults.

Lemma evals_load c k :
  evals (load nf k) c (match sget (k_st c) k with Some v => Ok v | None => Fail ENotExist end) c.
Proof. apply evals_prim. destruct (sget (k_st c) k); reflexivity. Qed.
Lemma evals_store c k v : evals (store nf k v) c (Ok tt) (set_st c (sput (k_st c) k v)).
Proof. apply evals_prim. reflexivity. Qed.
Lemma evals_delete c k : evals (delete nf k) c (Ok tt) (set_st c (sdel (k_st c) k)).
Proof. apply evals_prim. reflexivity. Qed.
Lemma evals_delete_dir c i d : evals (delete_dir nf i d) c (Ok tt) (set_st c (sdel_dir (k_st c) i d)).
Proof. apply evals_prim. reflexivity. Qed.
Lemma evals_exists c k : evals (exists_ nf k) c (Ok (present (k_st c) k)) c.
Proof. apply evals_prim. reflexivity. Qed.
Lemma evals_lock c : k_locked c = false -> evals (lock nf) c (Ok tt) (set_locked c true).
Proof. intros H. apply evals_prim. rewrite H. reflexivity. Qed.
Lemma evals_unlock c : evals (unlock nf) c (Ok tt) (set_locked c false).
Proof. apply evals_prim. reflexivity. Qed.
Lemma evals_load_ocsp c s :
  evals (load_ocsp nf s) c (match assoc_ser (k_ocsp c) s with Some b => Ok b | None => Fail ENotExist end) c.
Proof. apply evals_prim. destruct (assoc_ser (k_ocsp c) s); reflexivity. Qed.

Definition bump_key (c : core) : core := Core (k_st c) (k_ocsp c) (k_locked c) (k_nkey c + 1) (k_nser c).
Definition bump_ser (c : core) : core := Core (k_st c) (k_ocsp c) (k_locked c) (k_nkey c) (k_nser c + 1).
Lemma evals_gen_key c : evals gen_key c (Ok (k_nkey c)) (bump_key c).
Proof. eapply evals_local. reflexivity. Qed.

Lemma evals_check_storage c : evals (check_storage nf) c (Ok tt) c.
Proof.
  unfold check_storage.
  eapply evals_bind_ok; [apply evals_prim; reflexivity|].
  eapply evals_bind_ok; [apply evals_catch_ok; apply evals_prim; reflexivity|].
  eapply evals_bind_ok; [apply evals_catch_ok; apply evals_prim; reflexivity|].
  apply evals_ret.
Qed.

Lemma set_locked_roundtrip c : k_locked c = false -> set_locked (set_locked c true) false = c.
Proof. destruct c; cbn; intros ->; reflexivity. Qed.

Lemma evals_with_lock_ok {A} (body : M A) c a c' :
  k_locked c = false -> evals body (set_locked c true) (Ok a) c' ->
  evals (with_lock nf body) c (Ok a) (set_locked c' false).
Proof.
  intros HL HB. unfold with_lock.
  eapply evals_bind_ok; [apply evals_lock; exact HL|].
  eapply evals_bind_ok; [apply evals_catch_ok; exact HB|].
  eapply evals_bind_ok; [apply evals_catch_ok; apply evals_unlock|].
  apply evals_ret.
Qed.
Lemma evals_with_lock_fail {A} (body : M A) c e c' :
  k_locked c = false -> evals body (set_locked c true) (Fail e) c' ->
  evals (with_lock nf body) c (Fail e) (set_locked c' false).
Proof.
  intros HL HB. unfold with_lock.
  eapply evals_bind_ok; [apply evals_lock; exact HL|].
  eapply evals_bind_ok; [apply evals_catch_fail; exact HB|].
  eapply evals_bind_ok; [apply evals_catch_ok; apply evals_unlock|].
  apply evals_fail.
Qed.

(** ** storageHasCertResources *)
Lemma evals_has_res c i d : evals (has_res nf i d) c (Ok (complete (k_st c) i d)) c.
Proof.
  unfold has_res, complete.
  eapply evals_bind_ok; [apply evals_exists|].
  destruct (present (k_st c) (i, d, FCrt)); cbn; [|apply evals_ret].
  eapply evals_bind_ok; [apply evals_exists|].
  destruct (present (k_st c) (i, d, FKey)); cbn; [|apply evals_ret].
  apply evals_exists.
Qed.
Definition any_complete (st : storage) (is : list nat) (d : N) : bool :=
  existsb (fun i => complete st i d) is.
Lemma evals_has_any c is d : evals (has_any nf is d) c (Ok (any_complete (k_st c) is d)) c.
Proof.
  induction is as [|i r IH]; cbn; [apply evals_ret|].
  eapply evals_bind_ok; [apply evals_has_res|].
  destruct (complete (k_st c) i d); cbn; [apply evals_ret | exact IH].
Qed.

(** ** loads *)
Lemma evals_load_res c i d :
  typed (k_st c) ->
  evals (load_res nf i d) c (match bundle_at (k_st c) i d with Some b => Ok b | None => Fail ENotExist end) c.
Proof.
  intros T. destruct (T i d) as (A & B & C & _).
  unfold load_res, bundle_at, dir_key, dir_crt, dir_meta.
  destruct (sget (k_st c) (i, d, FKey)) as [vk|] eqn:EK.
  2:{ eapply evals_bind_fail. generalize (evals_load c (i, d, FKey)). rewrite EK. auto. }
  destruct (A _ eq_refl) as [k ->].
  eapply evals_bind_ok; [generalize (evals_load c (i, d, FKey)); rewrite EK; intros H; exact H|].
  destruct (sget (k_st c) (i, d, FCrt)) as [vc|] eqn:EC.
  2:{ eapply evals_bind_fail. generalize (evals_load c (i, d, FCrt)). rewrite EC. auto. }
  destruct (B _ eq_refl) as [x ->].
  eapply evals_bind_ok; [generalize (evals_load c (i, d, FCrt)); rewrite EC; intros H; exact H|].
  destruct (sget (k_st c) (i, d, FMeta)) as [vm|] eqn:EM.
  2:{ eapply evals_bind_fail. generalize (evals_load c (i, d, FMeta)). rewrite EM. auto. }
  destruct (C _ eq_refl) as [m ->].
  eapply evals_bind_ok; [generalize (evals_load c (i, d, FMeta)); rewrite EM; intros H; exact H|].
  apply evals_ret.
Qed.
Lemma evals_load_all c is d :
  typed (k_st c) -> evals (load_all nf is d) c (Ok (bundles (k_st c) is d)) c.
Proof.
  intros T. induction is as [|i r IH]; cbn; [apply evals_ret|].
  generalize (evals_load_res c i d T). destruct (bundle_at (k_st c) i d) as [b|]; intros H.
  - eapply evals_bind_ok; [apply evals_catch_ok; exact H|].
    eapply evals_bind_ok; [exact IH|]. apply evals_ret.
  - eapply evals_bind_ok; [apply evals_catch_fail; exact H|]. exact IH.
Qed.
Lemma evals_load_any c cfg d :
  typed (k_st c) ->
  evals (load_any nf cfg d) c
        (match newest_bundle (k_st c) cfg d with Some b => Ok b | None => Fail ENotExist end) c.
Proof.
  intros T. unfold load_any, newest_bundle.
  eapply evals_bind_ok; [apply evals_load_all; exact T|].
  destruct (newest (bundles (k_st c) (issuers cfg) d)); [apply evals_ret | apply evals_fail].
Qed.

Definition rev_of (ocsp : list (N * bool)) (x : cert) : option bool :=
  match assoc_ser ocsp (c_ser x) with
  | Some kc => if is_expired x then None else Some kc
  | None => None
  end.
(** what loadManagedCertificate returns *)
Definition managed_of (c : core) (cfg : config) (d : N) : res mcert :=
  match newest_bundle (k_st c) cfg d with
  | None => Fail ENotExist
  | Some (i, k, x, _) =>
      if N.eqb (c_pub x) k then Ok (MCert x k i (rev_of (k_ocsp c) x)) else Fail EMismatch
  end.
Lemma evals_load_managed c cfg d :
  typed (k_st c) -> evals (load_managed nf cfg d) c (managed_of c cfg d) c.
Proof.
  intros T. unfold load_managed, managed_of.
  generalize (evals_load_any c cfg d T).
  destruct (newest_bundle (k_st c) cfg d) as [[[[i k] x] m]|]; intros H.
  2:{ eapply evals_bind_fail; exact H. }
  eapply evals_bind_ok; [exact H|]. cbn.
  destruct (N.eqb (c_pub x) k); cbn; [|apply evals_fail].
  unfold rev_of. generalize (evals_load_ocsp c (c_ser x)).
  destruct (assoc_ser (k_ocsp c) (c_ser x)) as [kc|]; intros HO.
  - eapply evals_bind_ok; [apply evals_catch_ok; exact HO|]. apply evals_ret.
  - eapply evals_bind_ok; [apply evals_catch_fail; exact HO|]. apply evals_ret.
Qed.

(** ** issuers *)
Fixpoint first_up (orc : oracle) (is : list nat) : option (nat * (Z * validity)) :=
  match is with
  | [] => None
  | i :: r => match nth i (o_out orc) None with Some o => Some (i, o) | None => first_up orc r end
  end.
Lemma evals_try_issuers orc is k id c :
  evals (try_issuers orc is k id) c
        (match first_up orc is with
         | Some (i, (nb, v)) => Ok (i, Cert k id nb v (k_nser c))
         | None => Fail EIssuers end)
        (match first_up orc is with Some _ => bump_ser c | None => c end).
Proof.
  induction is as [|i r IH]; cbn; [apply evals_fail|].
  destruct (nth i (o_out orc) None) as [[nb v]|] eqn:E.
  - eapply evals_bind_ok.
    + apply evals_catch_ok. eapply evals_local. rewrite E. reflexivity.
    + apply evals_ret.
  - eapply evals_bind_ok.
    + apply evals_catch_fail. eapply evals_local. rewrite E. reflexivity.
    + exact IH.
Qed.
Lemma first_up_in orc is i o : first_up orc is = Some (i, o) -> In i is /\ nth i (o_out orc) None = Some o.
Proof.
  induction is as [|j r IH]; cbn; [discriminate|].
  destruct (nth j (o_out orc) None) eqn:E; intros H.
  - inversion H; subst. auto.
  - destruct (IH H); auto.
Qed.

(** ** reusePrivateKey *)
Fixpoint first_key_i (st : storage) (is : list nat) (d : N) : option (nat * keyid) :=
  match is with
  | [] => None
  | i :: r => match dir_key st i d with Some k => Some (i, k) | None => first_key_i st r d end
  end.
Lemma evals_reuse_key c is d :
  typed (k_st c) -> evals (reuse_key nf is d) c (Ok (first_key_i (k_st c) is d)) c.
Proof.
  intros T. induction is as [|i r IH]; cbn; [apply evals_ret|].
  destruct (T i d) as (A & _). unfold dir_key.
  generalize (evals_load c (i, d, FKey)).
  destruct (sget (k_st c) (i, d, FKey)) as [v|]; intros H.
  - destruct (A _ eq_refl) as [k ->].
    eapply evals_bind_ok; [apply evals_catch_ok; exact H|]. apply evals_ret.
  - eapply evals_bind_ok; [apply evals_catch_fail; exact H|]. exact IH.
Qed.
Lemma first_key_i_in st is d i k : first_key_i st is d = Some (i, k) -> In i is /\ dir_key st i d = Some k.
Proof.
  induction is as [|j r IH]; cbn; [discriminate|].
  destruct (dir_key st j d) eqn:E; intros H.
  - inversion H; subst; auto.
  - destruct (IH H); auto.
Qed.

(** ** save *)
Definition put_bundle (st : storage) (i : nat) (d : N) (k : keyid) (x : cert) (m : list N) : storage :=
  sput (sput (sput st (i, d, FKey) (VKey k)) (i, d, FCrt) (VCrt x)) (i, d, FMeta) (VMeta m).
Lemma evals_save c i d k x m :
  evals (save nf i d k x m) c (Ok tt) (set_st c (put_bundle (k_st c) i d k x m)).
Proof.
  unfold save.
  eapply evals_bind_ok; [apply evals_catch_ok; apply evals_store|].
  eapply evals_bind_ok; [apply evals_catch_ok; apply evals_store|].
  eapply evals_bind_ok; [apply evals_catch_ok; apply evals_store|].
  apply evals_ret.
Qed.

(** ** typedness is preserved *)
Definition val_ok (k : fkey) (v : fval) : Prop :=
  match snd k with
  | FKey | FComp => exists x, v = VKey x
  | FCrt => exists x, v = VCrt x
  | FMeta => exists x, v = VMeta x
  end.
Lemma typed_alt st : typed st <-> (forall k v, sget st k = Some v -> val_ok k v).
Proof.
  split.
  - intros T [[i d] kd] v H. destruct (T i d) as (A & B & C & D). destruct kd; cbn; auto.
  - intros H i d. repeat split; intros v Hv; apply (H _ _ Hv).
Qed.
Lemma typed_sput st k v : typed st -> val_ok k v -> typed (sput st k v).
Proof.
  rewrite !typed_alt. intros T V k' v'. rewrite sget_sput.
  destruct (fkey_eqb k k') eqn:E; [apply fkey_eqb_eq in E; subst k'; intros [= <-]; exact V | apply T].
Qed.
Lemma typed_sdel st k : typed st -> typed (sdel st k).
Proof.
  rewrite !typed_alt. intros T k' v'. rewrite sget_sdel.
  destruct (fkey_eqb k k'); [discriminate | apply T].
Qed.
Lemma typed_sdel_dir st i d : typed st -> typed (sdel_dir st i d).
Proof. intros T. unfold sdel_dir. repeat apply typed_sdel. exact T. Qed.
Lemma typed_put_bundle st i d k x m : typed st -> typed (put_bundle st i d k x m).
Proof.
  intros T. unfold put_bundle.
  apply typed_sput; [apply typed_sput; [apply typed_sput; [exact T|]|]|]; cbn; eauto.
Qed.
Lemma typed_nil : typed [].
Proof. apply typed_alt. intros k v; cbn; discriminate. Qed.

(** * The data view: what each operation does to the core when nothing fails *)
Definition issue_save (sp : subject) (orc : oracle) (order : list nat) (k : keyid) (c : core) : res unit * core :=
  match first_up orc order with
  | None => (Fail EIssuers, c)
  | Some (i, (nb, v)) =>
      (Ok tt, set_st (bump_ser c) (put_bundle (k_st c) i (s_save sp) k (Cert k (s_id sp) nb v (k_nser c)) [s_id sp]))
  end.
Definition obtain_order (cfg : config) (orc : oracle) (kr : option (nat * keyid)) : list nat :=
  if rnd cfg then o_perm orc
  else match kr with Some (i, _) => move_front i (issuers cfg) | None => issuers cfg end.
Definition obtain_pure (cfg : config) (sp : subject) (orc : oracle) (c : core) : res unit * core :=
  if any_complete (k_st c) (issuers cfg) (s_pre sp) then (Ok tt, c) else
  let kr := if reuse cfg then first_key_i (k_st c) (issuers cfg) (s_pre sp) else None in
  match kr with
  | Some (_, k) => issue_save sp orc (obtain_order cfg orc kr) k c
  | None => issue_save sp orc (obtain_order cfg orc kr) (k_nkey c) (bump_key c)
  end.
Definition renew_pure (cfg : config) (sp : subject) (orc : oracle) (force : bool) (c : core) : res unit * core :=
  match newest_bundle (k_st c) cfg (s_load sp) with
  | None => (Fail ENotExist, c)
  | Some (_, k0, c0, _) =>
      if negb (is_due c0) && negb force then (Ok tt, c)
      else if reuse cfg then issue_save sp orc (issuers cfg) k0 c
           else issue_save sp orc (issuers cfg) (k_nkey c) (bump_key c)
  end.

Lemma set_locked_set_st c b st : set_locked (set_st c st) b = set_st (set_locked c b) st.
Proof. reflexivity. Qed.

Lemma evals_issue_save_locked sp orc order k c :
  evals (ic <- try_issuers orc order k (s_id sp) ;; save nf (fst ic) (s_save sp) k (snd ic) [s_id sp]) c
        (fst (issue_save sp orc order k c)) (snd (issue_save sp orc order k c)).
Proof.
  unfold issue_save. generalize (evals_try_issuers orc order k (s_id sp) c).
  destruct (first_up orc order) as [[i [nb v]]|]; intros H.
  - eapply evals_bind_ok; [exact H|]. cbn [fst snd].
    exact (evals_save (bump_ser c) i (s_save sp) k _ [s_id sp]).
  - eapply evals_bind_fail; exact H.
Qed.

(** results of the pure operations never are [Dead] *)
Lemma issue_save_not_dead sp orc order k c : fst (issue_save sp orc order k c) <> Dead.
Proof. unfold issue_save. destruct (first_up orc order) as [[i [nb v]]|]; cbn; discriminate. Qed.

Lemma issue_save_locked sp orc order k c b :
  issue_save sp orc order k (set_locked c b) =
  (fst (issue_save sp orc order k c), set_locked (snd (issue_save sp orc order k c)) b).
Proof. unfold issue_save. destruct (first_up orc order) as [[i [nb v]]|]; reflexivity. Qed.

Lemma evals_with_lock {A} (body : M A) c r c' :
  k_locked c = false -> r <> Dead -> evals body (set_locked c true) r c' ->
  evals (with_lock nf body) c r (set_locked c' false).
Proof.
  intros HL HD HB. destruct r as [a|e|]; [apply evals_with_lock_ok | apply evals_with_lock_fail | contradiction]; assumption.
Qed.

Lemma evals_obtain cfg sp orc c :
  typed (k_st c) -> k_locked c = false ->
  evals (obtain nf cfg sp orc) c (fst (obtain_pure cfg sp orc c)) (snd (obtain_pure cfg sp orc c)).
Proof.
  intros T HL. unfold obtain, obtain_pure.
  eapply evals_bind_ok; [apply evals_has_any|].
  destruct (any_complete (k_st c) (issuers cfg) (s_pre sp)) eqn:EP; cbn; [apply evals_ret|].
  eapply evals_bind_ok; [apply evals_check_storage|].
  set (kr := if reuse cfg then first_key_i (k_st c) (issuers cfg) (s_pre sp) else None).
  (* the locked body *)
  assert (HB : forall r c', (r, c') = match kr with
                                      | Some (_, k) => issue_save sp orc (obtain_order cfg orc kr) k c
                                      | None => issue_save sp orc (obtain_order cfg orc kr) (k_nkey c) (bump_key c)
                                      end ->
                evals (obtain_body nf cfg sp orc) (set_locked c true) r (set_locked c' true)).
  { intros r c' E. unfold obtain_body.
    eapply evals_bind_ok; [apply evals_has_any|]. cbn [k_st set_locked]. rewrite EP.
    eapply evals_bind_ok.
    { instantiate (2 := kr). instantiate (1 := set_locked c true). unfold kr.
      destruct (reuse cfg); [exact (evals_reuse_key (set_locked c true) _ _ T) | apply evals_ret]. }
    change (evals (k <- match kr with Some (_, k) => ret k | None => gen_key end ;;
                   ic <- try_issuers orc (obtain_order cfg orc kr) k (s_id sp) ;;
                   save nf (fst ic) (s_save sp) k (snd ic) [s_id sp])
                  (set_locked c true) r (set_locked c' true)).
    destruct kr as [[i0 k0]|].
    - eapply evals_bind_ok; [apply evals_ret|].
      generalize (evals_issue_save_locked sp orc (obtain_order cfg orc (Some (i0, k0))) k0 (set_locked c true)).
      rewrite issue_save_locked, <- E. cbn. auto.
    - eapply evals_bind_ok; [apply evals_gen_key|].
      generalize (evals_issue_save_locked sp orc (obtain_order cfg orc None) (k_nkey c) (bump_key (set_locked c true))).
      change (bump_key (set_locked c true)) with (set_locked (bump_key c) true).
      rewrite issue_save_locked, <- E. cbn. auto. }
  remember (match kr with
            | Some (_, k) => issue_save sp orc (obtain_order cfg orc kr) k c
            | None => issue_save sp orc (obtain_order cfg orc kr) (k_nkey c) (bump_key c)
            end) as rc eqn:Erc.
  destruct rc as [r c']. cbn [fst snd].
  assert (HD : r <> Dead).
  { destruct kr as [[i0 k0]|]; [generalize (issue_save_not_dead sp orc (obtain_order cfg orc (Some (i0, k0))) k0 c)
                               | generalize (issue_save_not_dead sp orc (obtain_order cfg orc None) (k_nkey c) (bump_key c))];
      rewrite <- Erc; auto. }
  assert (HLc' : set_locked (set_locked c' true) false = c').
  { assert (k_locked c' = false).
    { destruct kr as [[i0 k0]|]; unfold issue_save in Erc;
        destruct (first_up orc _) as [[i [nb v]]|]; inversion Erc; subst; cbn; exact HL. }
    destruct c'; cbn in *; subst; reflexivity. }
  rewrite <- HLc' at 1.
  apply evals_with_lock; [exact HL | exact HD | apply HB; reflexivity].
Qed.

Lemma evals_renew cfg sp orc force c :
  typed (k_st c) -> k_locked c = false ->
  evals (renew nf cfg sp orc force) c (fst (renew_pure cfg sp orc force c)) (snd (renew_pure cfg sp orc force c)).
Proof.
  intros T HL. unfold renew.
  eapply evals_bind_ok; [apply evals_check_storage|].
  remember (renew_pure cfg sp orc force c) as rc eqn:Erc. destruct rc as [r c']. cbn [fst snd].
  assert (HB : evals (renew_body nf cfg sp orc force) (set_locked c true) r (set_locked c' true)).
  { unfold renew_body. unfold renew_pure in Erc.
    generalize (evals_load_any (set_locked c true) cfg (s_load sp) T). cbn [k_st set_locked].
    destruct (newest_bundle (k_st c) cfg (s_load sp)) as [[[[i0 k0] c0] m0]|]; intros HLd.
    2:{ inversion Erc; subst. eapply evals_bind_fail; exact HLd. }
    eapply evals_bind_ok; [exact HLd|]. cbn.
    destruct (negb (is_due c0) && negb force); [inversion Erc; subst; apply evals_ret|].
    destruct (reuse cfg).
    - eapply evals_bind_ok; [apply evals_ret|].
      generalize (evals_issue_save_locked sp orc (issuers cfg) k0 (set_locked c true)).
      rewrite issue_save_locked, <- Erc. cbn. auto.
    - eapply evals_bind_ok; [apply evals_gen_key|].
      generalize (evals_issue_save_locked sp orc (issuers cfg) (k_nkey c) (bump_key (set_locked c true))).
      change (bump_key (set_locked c true)) with (set_locked (bump_key c) true).
      rewrite issue_save_locked, <- Erc. cbn. auto. }
  assert (HD : r <> Dead).
  { unfold renew_pure in Erc. destruct (newest_bundle (k_st c) cfg (s_load sp)) as [[[[i0 k0] c0] m0]|];
      [|inversion Erc; discriminate].
    destruct (negb (is_due c0) && negb force); [inversion Erc; discriminate|].
    destruct (reuse cfg);
      [generalize (issue_save_not_dead sp orc (issuers cfg) k0 c)
      | generalize (issue_save_not_dead sp orc (issuers cfg) (k_nkey c) (bump_key c))]; rewrite <- Erc; auto. }
  assert (HLc' : set_locked (set_locked c' true) false = c').
  { assert (k_locked c' = false).
    { unfold renew_pure in Erc. destruct (newest_bundle (k_st c) cfg (s_load sp)) as [[[[i0 k0] c0] m0]|];
        [|inversion Erc; subst; exact HL].
      destruct (negb (is_due c0) && negb force); [inversion Erc; subst; exact HL|].
      destruct (reuse cfg); unfold issue_save in Erc;
        destruct (first_up orc _) as [[i [nb v]]|]; inversion Erc; subst; cbn; exact HL. }
    destruct c'; cbn in *; subst; reflexivity. }
  rewrite <- HLc' at 1.
  apply evals_with_lock; [exact HL | exact HD | exact HB].
Qed.

(** moveCompromisedPrivateKey (errors are only logged by forceRenew) *)
Definition move_comp_pure (i : nat) (d : N) (c : core) : core :=
  match sget (k_st c) (i, d, FKey) with
  | None => c
  | Some v => set_st c (sdel (sput (k_st c) (i, d, FComp) v) (i, d, FKey))
  end.
Lemma evals_move_comp c i d :
  exists x, evals (catch (move_compromised nf i d)) c (Ok x) (move_comp_pure i d c).
Proof.
  unfold move_compromised, move_comp_pure.
  generalize (evals_load c (i, d, FKey)). destruct (sget (k_st c) (i, d, FKey)) as [v|]; intros H.
  - eexists. apply evals_catch_ok.
    eapply evals_bind_ok; [exact H|].
    eapply evals_bind_ok; [apply evals_catch_ok; apply evals_store|].
    exact (evals_delete (set_st c (sput (k_st c) (i, d, FComp) v)) (i, d, FKey)).
  - eexists. apply evals_catch_fail. eapply evals_bind_fail. exact H.
Qed.

Definition then_load (rc : res unit * core) (cfg : config) (d : N) : res mcert * core :=
  match fst rc with
  | Ok _ => (managed_of (snd rc) cfg d, snd rc)
  | Fail e => (Fail e, snd rc)
  | Dead => (Dead, snd rc)
  end.
Definition force_renew_pure (cfg : config) (sp : subject) (orc : oracle) (mc : mcert) (c : core) : res mcert * core :=
  then_load (match m_rev mc with
             | Some true => obtain_pure cfg (canon sp) orc (move_comp_pure (m_i mc) (s_save sp) c)
             | _ => renew_pure cfg (canon sp) orc true c
             end) cfg (s_save sp).
Definition manage_pure (cfg : config) (sp : subject) (orc : oracle) (c : core) : res mcert * core :=
  match managed_of c cfg (s_load sp) with
  | Fail ENotExist => then_load (obtain_pure cfg sp orc c) cfg (s_load sp)
  | Fail e => (Fail e, c)
  | Dead => (Dead, c)
  | Ok mc =>
      if negb (is_expired (m_c mc)) && (match m_rev mc with Some _ => true | None => false end)
      then force_renew_pure cfg sp orc mc c
      else if is_due (m_c mc) then then_load (renew_pure cfg sp orc false c) cfg (s_save sp)
      else (Ok mc, c)
  end.

(** typedness and the lock flag through the pure operations *)
Lemma issue_save_typed sp orc order k c : typed (k_st c) -> typed (k_st (snd (issue_save sp orc order k c))).
Proof.
  intros T. unfold issue_save. destruct (first_up orc order) as [[i [nb v]]|]; cbn; [|exact T].
  apply typed_put_bundle; exact T.
Qed.
Lemma issue_save_unlocked sp orc order k c : k_locked (snd (issue_save sp orc order k c)) = k_locked c.
Proof. unfold issue_save. destruct (first_up orc order) as [[i [nb v]]|]; reflexivity. Qed.
Lemma obtain_pure_typed cfg sp orc c : typed (k_st c) -> typed (k_st (snd (obtain_pure cfg sp orc c))).
Proof.
  intros T. unfold obtain_pure. destruct (any_complete _ _ _); [exact T|].
  destruct (if reuse cfg then _ else _) as [[i k]|]; apply issue_save_typed; exact T.
Qed.
Lemma obtain_pure_unlocked cfg sp orc c : k_locked (snd (obtain_pure cfg sp orc c)) = k_locked c.
Proof.
  unfold obtain_pure. destruct (any_complete _ _ _); [reflexivity|].
  destruct (if reuse cfg then _ else _) as [[i k]|]; rewrite issue_save_unlocked; reflexivity.
Qed.
Lemma renew_pure_typed cfg sp orc f c : typed (k_st c) -> typed (k_st (snd (renew_pure cfg sp orc f c))).
Proof.
  intros T. unfold renew_pure. destruct (newest_bundle _ _ _) as [[[[i0 k0] c0] m0]|]; [|exact T].
  destruct (negb (is_due c0) && negb f); [exact T|].
  destruct (reuse cfg); apply issue_save_typed; exact T.
Qed.
Lemma renew_pure_unlocked cfg sp orc f c : k_locked (snd (renew_pure cfg sp orc f c)) = k_locked c.
Proof.
  unfold renew_pure. destruct (newest_bundle _ _ _) as [[[[i0 k0] c0] m0]|]; [|reflexivity].
  destruct (negb (is_due c0) && negb f); [reflexivity|].
  destruct (reuse cfg); rewrite issue_save_unlocked; reflexivity.
Qed.
Lemma move_comp_typed i d c : typed (k_st c) -> typed (k_st (move_comp_pure i d c)).
Proof.
  intros T. unfold move_comp_pure. destruct (sget (k_st c) (i, d, FKey)) as [v|] eqn:E; [|exact T]. cbn [k_st set_st].
  apply typed_sdel, typed_sput; [exact T|].
  destruct (proj1 (typed_alt _) T _ _ E) as [x ->]. cbn. eauto.
Qed.
Lemma move_comp_unlocked i d c : k_locked (move_comp_pure i d c) = k_locked c.
Proof. unfold move_comp_pure. destruct (sget (k_st c) (i, d, FKey)); reflexivity. Qed.
Lemma obtain_pure_not_dead cfg sp orc c : fst (obtain_pure cfg sp orc c) <> Dead.
Proof.
  unfold obtain_pure. destruct (any_complete _ _ _); [discriminate|].
  destruct (if reuse cfg then _ else _) as [[i k]|]; apply issue_save_not_dead.
Qed.
Lemma renew_pure_not_dead cfg sp orc f c : fst (renew_pure cfg sp orc f c) <> Dead.
Proof.
  unfold renew_pure. destruct (newest_bundle _ _ _) as [[[[i0 k0] c0] m0]|]; [|discriminate].
  destruct (negb (is_due c0) && negb f); [discriminate|].
  destruct (reuse cfg); apply issue_save_not_dead.
Qed.

Lemma evals_then_load {A} (m : M A) cfg d c (rc : res unit * core) :
  (forall r, fst rc = Ok r -> exists a, evals m c (Ok a) (snd rc)) ->
  (forall e, fst rc = Fail e -> evals m c (Fail e) (snd rc)) ->
  fst rc <> Dead -> typed (k_st (snd rc)) ->
  evals (m ;;; load_managed nf cfg d) c (fst (then_load rc cfg d)) (snd (then_load rc cfg d)).
Proof.
  intros HO HF HD T. unfold then_load. destruct rc as [[u|e|] c1]; cbn in *.
  - destruct (HO u eq_refl) as [a Ha]. eapply evals_bind_ok; [exact Ha|]. apply evals_load_managed; exact T.
  - eapply evals_bind_fail. apply HF; reflexivity.
  - contradiction.
Qed.

Lemma evals_force_renew cfg sp orc mc c :
  typed (k_st c) -> k_locked c = false ->
  evals (force_renew nf cfg sp orc mc) c (fst (force_renew_pure cfg sp orc mc c)) (snd (force_renew_pure cfg sp orc mc c)).
Proof.
  intros T HL. unfold force_renew, force_renew_pure.
  destruct (m_rev mc) as [[|]|].
  - set (c1 := move_comp_pure (m_i mc) (s_save sp) c).
    assert (T1 : typed (k_st c1)) by (apply move_comp_typed; exact T).
    assert (L1 : k_locked c1 = false) by (unfold c1; rewrite move_comp_unlocked; exact HL).
    destruct (evals_move_comp c (m_i mc) (s_save sp)) as [x Hx].
    apply evals_then_load.
    + intros r Hr. exists tt. eapply evals_bind_ok; [exact Hx|].
      generalize (evals_obtain cfg (canon sp) orc c1 T1 L1). fold c1 in Hr. rewrite Hr. destruct r. auto.
    + intros e He. eapply evals_bind_ok; [exact Hx|].
      generalize (evals_obtain cfg (canon sp) orc c1 T1 L1). fold c1 in He. rewrite He. auto.
    + apply obtain_pure_not_dead.
    + apply obtain_pure_typed; exact T1.
  - apply evals_then_load.
    + intros r Hr. exists tt. generalize (evals_renew cfg (canon sp) orc true c T HL). rewrite Hr. destruct r; auto.
    + intros e He. generalize (evals_renew cfg (canon sp) orc true c T HL). rewrite He. auto.
    + apply renew_pure_not_dead.
    + apply renew_pure_typed; exact T.
  - apply evals_then_load.
    + intros r Hr. exists tt. generalize (evals_renew cfg (canon sp) orc true c T HL). rewrite Hr. destruct r; auto.
    + intros e He. generalize (evals_renew cfg (canon sp) orc true c T HL). rewrite He. auto.
    + apply renew_pure_not_dead.
    + apply renew_pure_typed; exact T.
Qed.

Lemma evals_manage cfg sp orc c :
  typed (k_st c) -> k_locked c = false ->
  evals (manage nf cfg sp orc) c (fst (manage_pure cfg sp orc c)) (snd (manage_pure cfg sp orc c)).
Proof.
  intros T HL. unfold manage, manage_pure.
  generalize (evals_load_managed c cfg (s_load sp) T).
  destruct (managed_of c cfg (s_load sp)) as [mc|e|] eqn:EM; intros HM.
  - eapply evals_bind_ok; [apply evals_catch_ok; exact HM|]. cbv beta iota.
    destruct (negb (is_expired (m_c mc)) && match m_rev mc with Some _ => true | None => false end).
    + apply evals_force_renew; assumption.
    + destruct (is_due (m_c mc)); [|apply evals_ret].
      apply evals_then_load.
      * intros r Hr. exists tt. generalize (evals_renew cfg sp orc false c T HL). rewrite Hr. destruct r; auto.
      * intros e He. generalize (evals_renew cfg sp orc false c T HL). rewrite He. auto.
      * apply renew_pure_not_dead.
      * apply renew_pure_typed; exact T.
  - eapply evals_bind_ok; [apply evals_catch_fail; exact HM|]. cbv beta iota.
    destruct e; try apply evals_fail.
    apply evals_then_load.
    + intros r Hr. exists tt. generalize (evals_obtain cfg sp orc c T HL). rewrite Hr. destruct r; auto.
    + intros e He. generalize (evals_obtain cfg sp orc c T HL). rewrite He. auto.
    + apply obtain_pure_not_dead.
    + apply obtain_pure_typed; exact T.
  - exfalso. unfold managed_of in EM. destruct (newest_bundle _ _ _) as [[[[i k] x] m]|]; [|discriminate].
    destruct (N.eqb (c_pub x) k); discriminate.
Qed.
