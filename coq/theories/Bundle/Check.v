(** Correspondence for C06 and C07.  A case is a whole history (C06) or a fault experiment (C07)
    together with everything the real code was observed to do: result class, the double's
    operation log, what the issuers saw, the raw storage contents after each step (decoded from
    the real PEM: key and certificate numbers are public-key digests / serials), what ended up
    cached, and what a load with the requested spelling returns.
    [check_line] = (a) the model replays the same history and must produce the same observations,
    (b) [spec_ok]: the property's clauses evaluated on the implementation's observations only. *)
From CM Require Import Bundle.Model.
From CM Require Import Lib.Str Lib.Wire.
Open Scope Z_scope.

(** * equality tests *)
Definition validity_eqb (a b : validity) : bool :=
  match a, b with VFresh, VFresh | VDue, VDue | VExpired, VExpired => true | _, _ => false end.
Definition cert_eqb (a b : cert) : bool :=
  N.eqb (c_pub a) (c_pub b) && N.eqb (c_sub a) (c_sub b) && Z.eqb (c_nb a) (c_nb b) &&
  validity_eqb (c_val a) (c_val b) && N.eqb (c_ser a) (c_ser b).
Definition nlist_eqb (a b : list N) : bool := if list_eq_dec N.eq_dec a b then true else false.
Definition fval_eqb (a b : fval) : bool :=
  match a, b with
  | VKey x, VKey y => N.eqb x y
  | VCrt x, VCrt y => cert_eqb x y
  | VMeta x, VMeta y => nlist_eqb x y
  | _, _ => false
  end.
Definition storage_eqb (m o : storage) : bool :=
  Nat.eqb (length m) (length o) &&
  forallb (fun e => match sget m (fst e) with Some v => fval_eqb v (snd e) | None => false end) o.
Definition okind_code (k : okind) : Z :=
  match k with OStore => 0 | OLoad => 1 | ODelete => 2 | OExists => 3 | OLock => 4 | OUnlock => 5 end.
Definition fkind_code (k : fkind) : Z := match k with FKey => 0 | FCrt => 1 | FMeta => 2 | FComp => 3 end.
Definition err_code (e : err) : Z :=
  match e with ENotExist => 1 | EInjected => 2 | EMismatch => 3 | EIssuers => 4 | EOther => 5 end.
Definition res_code {A} (r : res A) : Z := match r with Ok _ => 0 | Fail e => err_code e | Dead => 6 end.
Definition oerr_code (e : option err) : Z := match e with None => 0 | Some e => err_code e end.
(** events as integer lists: comparison and [explain] output use the same encoding *)
Definition target_enc (t : otarget) : list Z :=
  match t with
  | TFile (i, d, k) => [0; Z.of_nat i; Z.of_N d; fkind_code k]
  | TDir i d => [1; Z.of_nat i; Z.of_N d]
  | TTest => [2]
  | TOcsp s => [3; Z.of_N s]
  | TLock => [4]
  end.
Definition logev_enc (e : logev) : list Z :=
  match e with
  | LOp k t er => 0 :: okind_code k :: target_enc t ++ [oerr_code er]
  | LIssue i k ok => [1; Z.of_nat i; Z.of_N k; if ok then 1 else 0]
  | LGen k => [2; Z.of_N k]
  end.
Definition zlist_eqb (a b : list Z) : bool := if list_eq_dec Z.eq_dec a b then true else false.
Definition log_eqb (a b : list logev) : bool :=
  zlist_eqb (concat (map logev_enc a)) (concat (map logev_enc b)) && Nat.eqb (length a) (length b).

(** * decoders *)
Definition get_validity : dec validity :=
  x <- get_z ;; ret (if x =? 0 then VFresh else if x =? 1 then VDue else VExpired).
Definition get_fkind : dec fkind :=
  x <- get_z ;; ret (if x =? 0 then FKey else if x =? 1 then FCrt else if x =? 2 then FMeta else FComp).
Definition get_cert : dec cert :=
  p <- get_n ;; s <- get_n ;; nb <- get_z ;; v <- get_validity ;; sr <- get_n ;; ret (Cert p s nb v sr).
Definition get_fval : dec fval :=
  t <- get_z ;;
  if t =? 0 then (k <- get_n ;; ret (VKey k))
  else if t =? 1 then (c <- get_cert ;; ret (VCrt c))
  else (m <- get_list get_n ;; ret (VMeta m)).
Definition get_entry : dec (fkey * fval) :=
  i <- get_nat ;; d <- get_n ;; k <- get_fkind ;; v <- get_fval ;; ret ((i, d, k), v).
Definition get_storage : dec storage := get_list get_entry.
Definition get_okind : dec okind :=
  x <- get_z ;; ret (if x =? 0 then OStore else if x =? 1 then OLoad else if x =? 2 then ODelete
                     else if x =? 3 then OExists else if x =? 4 then OLock else OUnlock).
Definition get_target : dec otarget :=
  t <- get_z ;;
  if t =? 0 then (i <- get_nat ;; d <- get_n ;; k <- get_fkind ;; ret (TFile (i, d, k)))
  else if t =? 1 then (i <- get_nat ;; d <- get_n ;; ret (TDir i d))
  else if t =? 2 then ret TTest
  else if t =? 3 then (s <- get_n ;; ret (TOcsp s))
  else ret TLock.
Definition get_oerr : dec (option err) :=
  x <- get_z ;; ret (if x =? 0 then None else if x =? 1 then Some ENotExist else if x =? 2 then Some EInjected
                     else if x =? 3 then Some EMismatch else if x =? 4 then Some EIssuers else Some EOther).
Definition get_logev : dec logev :=
  t <- get_z ;;
  if t =? 0 then (k <- get_okind ;; tg <- get_target ;; e <- get_oerr ;; ret (LOp k tg e))
  else if t =? 1 then (i <- get_nat ;; k <- get_n ;; ok <- get_bool ;; ret (LIssue i k ok))
  else (k <- get_n ;; ret (LGen k)).
Definition get_config : dec config :=
  n <- get_nat ;; r <- get_bool ;; x <- get_bool ;; ret (Config n r x).
Definition get_subject : dec subject :=
  a <- get_n ;; b <- get_n ;; c <- get_n ;; d <- get_n ;; ret (Subject a b c d).
Definition get_oracle : dec oracle :=
  o <- get_list (get_opt (get_pair get_z get_validity)) ;; p <- get_list get_nat ;; ret (Oracle o p).
Definition get_hop : dec hop :=
  t <- get_z ;;
  if t =? 0 then ret HObtain
  else if t =? 1 then (f <- get_bool ;; ret (HRenew f))
  else if t =? 2 then ret HManage
  else if t =? 3 then (i <- get_nat ;; kc <- get_bool ;; ret (HRevokeEnv i kc))
  else ret HRevokeApi.

(** what was cached / loaded: serial, key, names *)
Definition seen := (N * keyid * list N)%type.
Definition get_seen : dec seen := s <- get_n ;; k <- get_n ;; n <- get_list get_n ;; ret (s, k, n).
Record obs := Obs {
  ob_res : Z;                      (* result class of the call *)
  ob_cached : option seen;         (* the Certificate that ended up in the cache (manage) *)
  ob_probe : Z * option seen;      (* a load with the requested spelling afterwards *)
  ob_log : list logev;             (* double's log: storage ops, issuer calls, key generations *)
  ob_st : storage                  (* raw storage afterwards *)
}.
Definition get_obs : dec obs :=
  r <- get_z ;; c <- get_opt get_seen ;; pr <- get_z ;; ps <- get_opt get_seen ;;
  l <- get_list get_logev ;; st <- get_storage ;; ret (Obs r c (pr, ps) l st).
(** a step: operation, issuer answers, the Storage-call indices (within this step) that fail, observation *)
(** [cancel] = Some nrun: the retrying entry point was called with a context that is cancelled (before the
    call, or by the first failing issuer answer); nrun attempts were seen to run *)
Definition step := (hop * oracle * list nat * list oracle * option nat * obs)%type.
Definition get_step : dec step :=
  h <- get_hop ;; o <- get_oracle ;; f <- get_list get_nat ;; m <- get_list get_oracle ;; c <- get_opt get_nat ;;
  b <- get_obs ;; ret (h, o, f, m, c, b).
(** * the model's observation of one step *)
Definition seen_of (mc : mcert) : seen := (c_ser (m_c mc), m_k mc, [c_sub (m_c mc)]).
Definition probe (cfg : config) (sp : subject) (w : world) : Z * option seen :=
  match load_managed no_faults cfg (s_load sp) (clear_log w) with
  | (Ok mc, _) => (0, Some (seen_of mc))
  | (r, _) => (res_code r, None)
  end.
Definition model_step (pl : plan) (cfg : config) (sp : subject) (w : world) (h : hop) (orc : oracle) : obs * world :=
  let '(r, w') := run_hop pl cfg sp orc h (clear_log w) in
  (Obs (res_code r)
       (match r with Ok (Some mc) => Some (seen_of mc) | _ => None end)
       (probe cfg sp w') (rev (w_log w')) (w_st w'), w').

(** [more] non-empty = the retrying entry point (ObtainCertAsync / RenewCertAsync) with the issuers'
    answers of the following attempts; an obtain / renew with one attempt is the same program either way *)
Definition run_step (pl : plan) (cfg : config) (sp : subject) (orc : oracle) (more : list oracle) (cancel : option nat) (h : hop) : M (option mcert) :=
  match cancel, h with
  | Some n, HObtain => Model.bind (obtain_async_c pl cfg sp orc more n) (fun _ => Model.ret None)
  | Some n, HRenew f => Model.bind (renew_async_c pl cfg sp orc more f n) (fun _ => Model.ret None)
  | _, _ =>
  match more, h with
  | _ :: _, HObtain => Model.bind (obtain_async pl cfg sp orc more) (fun _ => Model.ret None)
  | _ :: _, HRenew f => Model.bind (renew_async pl cfg sp orc more f) (fun _ => Model.ret None)
  | _, _ => run_hop pl cfg sp orc h
  end
  end.
Definition model_step_r (pl : plan) (cfg : config) (sp : subject) (w : world) (h : hop) (orc : oracle) (more : list oracle) (cancel : option nat) : obs * world :=
  let '(r, w') := run_step pl cfg sp orc more cancel h (clear_log w) in
  (Obs (res_code r)
       (match r with Ok (Some mc) => Some (seen_of mc) | _ => None end)
       (probe cfg sp w') (rev (w_log w')) (w_st w'), w').
Definition step_plan (f : list nat) : plan :=
  {| p_fail := fun n => existsb (Nat.eqb n) f; p_crash := None |}.


Definition seen_eqb (a b : seen) : bool :=
  let '(s, k, n) := a in let '(s', k', n') := b in N.eqb s s' && N.eqb k k' && nlist_eqb n n'.
Definition oseen_eqb (a b : option seen) : bool :=
  match a, b with Some x, Some y => seen_eqb x y | None, None => true | _, _ => false end.
Definition obs_eqb (m o : obs) : bool :=
  Z.eqb (ob_res m) (ob_res o) && oseen_eqb (ob_cached m) (ob_cached o) &&
  Z.eqb (fst (ob_probe m)) (fst (ob_probe o)) && oseen_eqb (snd (ob_probe m)) (snd (ob_probe o)) &&
  log_eqb (ob_log m) (ob_log o) && storage_eqb (ob_st m) (ob_st o).

(** * C06 *)
Fixpoint replay6 (cfg : config) (sp : subject) (w : world) (steps : list step) : bool :=
  match steps with
  | [] => true
  | (h, orc, f, more, cn, o) :: r =>
      let '(m, w') := model_step_r (step_plan f) cfg sp w h orc more cn in
      obs_eqb m o && replay6 cfg sp (break_lock w') r     (* a failed Unlock: the Locker's staleness rule *)
  end.
(** first disagreeing step and the model's view of it (for [explain]) *)
Fixpoint first_diff (cfg : config) (sp : subject) (w : world) (steps : list step) (n : Z) : list Z :=
  match steps with
  | [] => [-1]
  | (h, orc, f, more, cn, o) :: r =>
      let '(m, w') := model_step_r (step_plan f) cfg sp w h orc more cn in
      if obs_eqb m o then first_diff cfg sp (break_lock w') r (n + 1)
      else n :: ob_res m :: fst (ob_probe m) :: Z.of_nat (length (ob_st m)) :: Z.of_nat (length (ob_log m)) ::
           concat (map logev_enc (ob_log m))
  end.

(** ** the specification, on the implementation's observations only *)
Definition issued_ok (l : list logev) : list (nat * keyid) :=
  flat_map (fun e => match e with LIssue i k true => [(i, k)] | _ => [] end) l.
Definition generated (l : list logev) (k : keyid) : bool :=
  existsb (fun e => match e with LGen k' => N.eqb k k' | _ => false end) l.
Definition seen_of_bundle (b : bundle) : seen := let '(_, k, c, _) := b in (c_ser c, k, [c_sub c]).
Definition good_bundle (sp : subject) (b : bundle) : bool :=
  let '(_, k, c, m) := b in N.eqb (c_pub c) k && N.eqb (c_sub c) (s_id sp) && nlist_eqb m [s_id sp].
Definition cert_in (st : storage) (ser : N) : bool :=
  existsb (fun e => match snd e with VCrt c => N.eqb (c_ser c) ser | _ => false end) st.
Fixpoint first_key (st : storage) (is : list nat) (d : N) : option keyid :=
  match is with
  | [] => None
  | i :: r => match dir_key st i d with Some k => Some k | None => first_key st r d end
  end.
Definition is_op (h : hop) : bool := match h with HObtain | HRenew _ | HManage => true | _ => false end.

(** revocations known so far, from the implementation's storage at the time of the revocation *)
Definition env_after (sp : subject) (st0 : storage) (h : hop) (env : list (N * bool)) : list (N * bool) :=
  match h with
  | HRevokeEnv i kc => match dir_crt st0 i (s_save sp) with Some c => (c_ser c, kc) :: env | None => env end
  | _ => env
  end.
(** is the bundle that a load picks revoked (and not expired), and for key compromise? *)
Definition revoked_state (env : list (N * bool)) (b : bundle) : option bool :=
  let c := b_cert b in if is_expired c then None else assoc_ser env (c_ser c).

(** the clauses that speak about states (storage before / after, what was cached, what a reload
    returns) ... *)
Definition spec_success (cfg : config) (sp : subject) (h : hop) (o : obs) : bool :=
  let st1 := ob_st o in
  let ok := (ob_res o =? 0) && is_op h in
  (* success_bundle_complete: some issuer directory holds key, chain, metadata; key matches leaf;
     metadata and certificate name the subject *)
  (negb ok || existsb (fun i => match bundle_at st1 i (s_save sp) with Some b => good_bundle sp b | None => false end) (issuers cfg))
  (* load_roundtrip + newest_of_issuers_loaded: loading with the requested spelling yields the
     newest stored bundle, bytes intact (key matches) *)
  && (negb ok || match newest_bundle st1 cfg (s_save sp) with
                 | Some b => matching b && Z.eqb (fst (ob_probe o)) 0 && oseen_eqb (snd (ob_probe o)) (Some (seen_of_bundle b))
                 | None => false end)
  (* cached_covers_requested: what manage cached is that bundle and lists exactly the identifier *)
  && (negb ok || match h with
                 | HManage => match newest_bundle st1 cfg (s_save sp), ob_cached o with
                              | Some b, Some sn => seen_eqb sn (seen_of_bundle b) && nlist_eqb (snd sn) [s_id sp]
                              | _, _ => false end
                 | _ => true end).
Definition spec_state (cfg : config) (sp : subject) (env : list (N * bool)) (st0 : storage) (h : hop) (o : obs) : bool :=
  spec_success cfg sp h o
  (* compromised_key_never_reused: manage succeeded on a certificate revoked for key compromise
     => what is served afterwards does not use that key *)
  && (match h with
      | HManage =>
          match newest_bundle st0 cfg (s_load sp) with
          | Some ((_, k0, _, _) as b0) =>
              match revoked_state env b0 with
              | Some true => negb (ob_res o =? 0) ||
                             match ob_cached o with Some (_, k, _) => negb (N.eqb k k0) | None => false end
              | _ => true
              end
          | None => true
          end
      | _ => true
      end).
(** ... and the clauses that speak about the issuer calls and key generations in the log *)
Definition spec_issued (cfg : config) (sp : subject) (st0 : storage) (h : hop) (o : obs) : bool :=
  let st1 := ob_st o in
  let iss := issued_ok (ob_log o) in
  let ok := (ob_res o =? 0) && is_op h in
  (* what the issuer just returned is stored, with the key that was in the CSR *)
  (negb ok || forallb (fun ik => match bundle_at st1 (fst ik) (s_save sp) with
                                    | Some ((_, k, c, _) as b) => good_bundle sp b && N.eqb k (snd ik) && negb (cert_in st0 (c_ser c))
                                    | None => false end) iss).
Definition spec_log (cfg : config) (sp : subject) (env : list (N * bool)) (st0 : storage) (h : hop) (o : obs) : bool :=
  let iss := issued_ok (ob_log o) in
  spec_issued cfg sp st0 h o
  (* fresh_key_unless_reuse / reuse_keeps_key *)
  && forallb (fun ik =>
       let k := snd ik in
       if negb (reuse cfg) then generated (ob_log o) k
       else match h with
            | HRenew _ => match newest_bundle st0 cfg (s_load sp) with Some (_, k0, _, _) => N.eqb k k0 | None => false end
            | HObtain => match first_key st0 (issuers cfg) (s_pre sp) with Some k0 => N.eqb k k0 | None => generated (ob_log o) k end
            | HManage =>
                match newest_bundle st0 cfg (s_load sp) with
                | Some ((_, k0, _, _) as b0) =>
                    match revoked_state env b0 with
                    | Some true => negb (N.eqb k k0)   (* the replacement is never issued on the compromised key *)
                    | _ => N.eqb k k0
                    end
                | None => match first_key st0 (issuers cfg) (s_pre sp) with Some k0 => N.eqb k k0 | None => generated (ob_log o) k end
                end
            | _ => true
            end) iss.
(** a step under injected storage errors: the property's first clause still binds - a REPORTED SUCCESS
    leaves a complete, matching, reloadable bundle, what was issued is stored, and the cached certificate
    names the identifier (a reported error is fine) - and so do the key clauses: fresh key / reused key,
    and no issuance on a key revoked for compromise (the quarantine of that key may be what failed) *)
Definition spec_faulted (cfg : config) (sp : subject) (env : list (N * bool)) (st0 : storage) (h : hop) (o : obs) : bool :=
  spec_success cfg sp h o && spec_log cfg sp env st0 h o
  (* after a key-compromise revocation nothing that is stored anew certifies the compromised key, even
     when the quarantine of that key failed *)
  && (match h with
      | HManage =>
          match newest_bundle st0 cfg (s_load sp) with
          | Some ((_, k0, _, _) as b0) =>
              match revoked_state env b0 with
              | Some true => forallb (fun e => match snd e with
                                               | VCrt c => cert_in st0 (c_ser c) || negb (N.eqb (c_pub c) k0)
                                               | _ => true end) (ob_st o)
              | _ => true
              end
          | None => true
          end
      | _ => true
      end).
Definition spec_step (cfg : config) (sp : subject) (env : list (N * bool)) (st0 : storage) (h : hop) (o : obs) : bool :=
  spec_state cfg sp env st0 h o && spec_log cfg sp env st0 h o.

(** most_recently_issued_loaded (Recency.v): as long as every step's issuer answers are dated after
    all stored certificates (a forward history: judged on the oracle = input and the
    implementation's storage), what a load returns carries the highest serial among the issuers'
    complete bundles *)
Definition forwardb (orc : oracle) (st : storage) : bool :=
  forallb (fun a => match a with
                    | Some (nb, _) => forallb (fun e => match snd e with VCrt y => (c_nb y <? nb)%Z | _ => true end) st
                    | None => true end) (o_out orc).
Definition spec_recent (cfg : config) (sp : subject) (h : hop) (o : obs) : bool :=
  negb ((ob_res o =? 0) && is_op h) ||
  match snd (ob_probe o) with
  | Some (ser, _, _) =>
      forallb (fun j => match bundle_at (ob_st o) j (s_save sp) with
                        | Some b => N.leb (c_ser (b_cert b)) ser
                        | None => true end) (issuers cfg)
  | None => true
  end.

Fixpoint spec6 (cfg : config) (sp : subject) (env : list (N * bool)) (st0 : storage) (fwd : bool) (steps : list step) : bool :=
  match steps with
  | [] => true
  | (h, orc, f, more, _, o) :: r =>
      (* the recency clause is claimed for fault-free forward histories *)
      let fwd' := fwd && (negb (is_op h) || forallb (fun x => forwardb x st0) (orc :: more)) && (match f with [] => true | _ => false end) in
      (match f with
       | [] => spec_step cfg sp env st0 h o
       | _ => spec_faulted cfg sp env st0 h o
       end) && (negb fwd' || spec_recent cfg sp h o) &&
      spec6 cfg sp (env_after sp st0 h env) (ob_st o) fwd' r
  end.

Definition get_case6 : dec (config * subject * list step) :=
  c <- get_config ;; s <- get_subject ;; st <- get_list get_step ;; ret (c, s, st).
Definition check_line6 (l : list Z) : Z :=
  match decode get_case6 l with
  | Some (cfg, sp, steps) => code (replay6 cfg sp empty_world steps) (spec6 cfg sp [] [] true steps)
  | None => code_decode_error
  end.
Definition explain_line6 (l : list Z) : list Z :=
  match decode get_case6 l with
  | Some (cfg, sp, steps) => first_diff cfg sp empty_world steps 0
  | None => []
  end.

(** * C07 *)
Fixpoint run_setup (cfg : config) (sp : subject) (w : world) (hs : list (hop * oracle)) : world :=
  match hs with
  | [] => w
  | (h, orc) :: r => run_setup cfg sp (snd (run_hop no_faults cfg sp orc h (clear_log w))) r
  end.
Definition mk_plan (fails : list nat) (from : option nat) (crash : option nat) : plan :=
  {| p_fail := fun n => existsb (Nat.eqb n) fails || match from with Some f => Nat.leb f n | None => false end;
     p_crash := crash |}.

Record case7 := Case7 {
  c7_cfg : config; c7_sp : subject;
  c7_setup : list (hop * oracle);
  c7_st0 : storage;                         (* implementation's storage after the set-up *)
  c7_hop : hop; c7_orc : oracle;
  c7_fails : list nat; c7_from : option nat; c7_crash : option nat;
  c7_obs1 : obs;                            (* the faulted run *)
  c7_rorc : oracle; c7_obs2 : obs;          (* recovery: fresh instance, ManageSync *)
  c7_twin : bool                            (* recovery by an on-demand handshake on a copy: served a valid matching cert *)
}.
Definition get_case7 : dec case7 :=
  c <- get_config ;; s <- get_subject ;;
  su <- get_list (get_pair get_hop get_oracle) ;; st0 <- get_storage ;;
  h <- get_hop ;; o <- get_oracle ;;
  f <- get_list get_nat ;; fr <- get_opt get_nat ;; cr <- get_opt get_nat ;;
  o1 <- get_obs ;; ro <- get_oracle ;; o2 <- get_obs ;; tw <- get_bool ;;
  ret (Case7 c s su st0 h o f fr cr o1 ro o2 tw).

(** recovery as the model sees it: the Locker's staleness rule, then manage on a fresh instance *)
Definition recover (cfg : config) (sp : subject) (orc : oracle) (w : world) : obs * world :=
  model_step no_faults cfg sp (break_lock w) HManage orc.

Definition model7 (c : case7) : storage * obs * obs * bool :=
  let w0 := run_setup (c7_cfg c) (c7_sp c) empty_world (c7_setup c) in
  let pl := mk_plan (c7_fails c) (c7_from c) (c7_crash c) in
  let '(o1, w1) := model_step pl (c7_cfg c) (c7_sp c) w0 (c7_hop c) (c7_orc c) in
  let '(o2, w2) := recover (c7_cfg c) (c7_sp c) (c7_rorc c) w1 in
  (w_st w0, o1, o2, negb (stuck (w_st w1) (c7_cfg c) (s_load (c7_sp c)))).
(** the probe of the faulted run is not observed (the instance is gone): compare the rest *)
Definition obs1_eqb (m o : obs) : bool :=
  Z.eqb (ob_res m) (ob_res o) && log_eqb (ob_log m) (ob_log o) && storage_eqb (ob_st m) (ob_st o).
Definition agree7 (c : case7) : bool :=
  let '(st0, o1, o2, tw) := model7 c in
  storage_eqb st0 (c7_st0 c) && obs1_eqb o1 (c7_obs1 c) && obs_eqb o2 (c7_obs2 c) && Bool.eqb tw (c7_twin c).

(** the property on the implementation's observations: recovery succeeds, serves a certificate
    that is in storage with its matching key, named for the subject, not due for renewal; the
    handshake twin succeeded too *)
(** the revocations of the scenario (they are the last set-up steps: the certificate the CA revoked
    is the one in the implementation's storage after the set-up) *)
Definition env7 (c : case7) : list (N * bool) :=
  fold_left (fun env ho => env_after (c7_sp c) (c7_st0 c) (fst ho) env) (c7_setup c) [].
(** the recovery clause as a function of what was observed of the recovery: result, cached
    certificate, storage, handshake twin *)
Definition spec7_core (cfg : config) (sp : subject) (o2 : obs) (twin : bool) : bool :=
  (ob_res o2 =? 0) &&
  match ob_cached o2 with
  | Some (ser, k, names) =>
      nlist_eqb names [s_id sp] &&
      existsb (fun i => match bundle_at (ob_st o2) i (s_save sp) with
                        | Some ((_, k', c', _) as b) => N.eqb (c_ser c') ser && N.eqb k' k && good_bundle sp b && negb (is_due c')
                        | None => false end) (issuers cfg)
  | None => false
  end && twin.
Definition spec7 (c : case7) : bool :=
  spec7_core (c7_cfg c) (c7_sp c) (c7_obs2 c) (c7_twin c)
  (* ... and the recovery itself obeys the clauses of C06 (complete matching bundle under the
     documented keys, reload, key reuse / freshness), judged from the storage the fault left behind *)
  && spec_step (c7_cfg c) (c7_sp c) (env7 c) (ob_st (c7_obs1 c)) HManage (c7_obs2 c).

Definition check_line7 (l : list Z) : Z :=
  match decode get_case7 l with
  | Some c => code (agree7 c) (spec7 c)
  | None => code_decode_error
  end.
Definition explain_line7 (l : list Z) : list Z :=
  match decode get_case7 l with
  | Some c => let '(st0, o1, o2, tw) := model7 c in
              [if storage_eqb st0 (c7_st0 c) then 1 else 0; if obs1_eqb o1 (c7_obs1 c) then 1 else 0;
               if obs_eqb o2 (c7_obs2 c) then 1 else 0; if Bool.eqb tw (c7_twin c) then 1 else 0;
               ob_res o1; ob_res o2; Z.of_nat (length (ob_st o1)); Z.of_nat (length (ob_log o1))]
              ++ concat (map logev_enc (ob_log o1))
  | None => []
  end.
