(** C07 under ARBITRARY fault plans: any set of failing Storage-call indices, any crash point.
    The programs touch the certificate files only through [save] (storeTx); whatever the plan, the
    storage afterwards is the storage before, or differs in exactly one directory that is in one of
    seven torn states. From that: the only way to reach a stuck storage. *)
From Coq Require Import List NArith ZArith Bool Lia.
From CM Require Import Bundle.Model Bundle.Proofs.
Import ListNotations.
Open Scope N_scope.

(** * read-only programs *)
Definition ro {A} (m : M A) : Prop := forall w, w_core (snd (m w)) = w_core w.

Lemma ro_ret {A} (a : A) : ro (ret a). Proof. intros w; reflexivity. Qed.
Lemma ro_fail {A} e : ro (@fail A e). Proof. intros w; reflexivity. Qed.
Lemma ro_bind {A B} (m : M A) (f : A -> M B) : ro m -> (forall a, ro (f a)) -> ro (bind m f).
Proof.
  intros Hm Hf w. unfold bind. specialize (Hm w). destruct (m w) as [[a|e|] w1]; cbn in *; auto.
  rewrite Hf. exact Hm.
Qed.
Lemma ro_catch {A} (m : M A) : ro m -> ro (catch m).
Proof. intros Hm w. unfold catch. specialize (Hm w). destruct (m w) as [[a|e|] w1]; cbn in *; auto. Qed.
Lemma ro_prim {A} pl k t (onf : res A) eff : (forall c, snd (eff c) = c) -> ro (prim pl k t onf eff).
Proof.
  intros H w. unfold prim. destruct (p_fail pl (w_cnt w)).
  - destruct (crash_at pl (w_cnt w)); reflexivity.
  - specialize (H (w_core w)). destruct (eff (w_core w)) as [r c2]; cbn in *. destruct (crash_at pl (w_cnt w)); cbn; exact H.
Qed.
Lemma ro_load pl k : ro (load pl k).
Proof. apply ro_prim. intros c. destruct (sget (k_st c) k); reflexivity. Qed.
Lemma ro_exists pl k : ro (exists_ pl k).
Proof. apply ro_prim. reflexivity. Qed.
Lemma ro_load_ocsp pl s : ro (load_ocsp pl s).
Proof. apply ro_prim. intros c. destruct (assoc_ser (k_ocsp c) s); reflexivity. Qed.
Lemma ro_check_storage pl : ro (check_storage pl).
Proof.
  unfold check_storage. apply ro_bind; [apply ro_prim; reflexivity|]. intros _.
  apply ro_bind; [apply ro_catch, ro_prim; reflexivity|]. intros x.
  apply ro_bind; [apply ro_catch, ro_prim; reflexivity|]. intros _.
  destruct x; [apply ro_ret | apply ro_fail].
Qed.
Lemma ro_has_res pl i d : ro (has_res pl i d).
Proof.
  unfold has_res. apply ro_bind; [apply ro_exists|]. intros c.
  destruct (negb c); [apply ro_ret|]. apply ro_bind; [apply ro_exists|]. intros k.
  destruct (negb k); [apply ro_ret | apply ro_exists].
Qed.
Lemma ro_has_any pl is d : ro (has_any pl is d).
Proof.
  induction is as [|i r IH]; cbn; [apply ro_ret|].
  apply ro_bind; [apply ro_has_res|]. intros b. destruct b; [apply ro_ret | exact IH].
Qed.
Lemma ro_load_res pl i d : ro (load_res pl i d).
Proof.
  unfold load_res. apply ro_bind; [apply ro_load|]. intros kv.
  apply ro_bind; [apply ro_load|]. intros cv. apply ro_bind; [apply ro_load|]. intros mv.
  destruct kv, cv, mv; first [apply ro_ret | apply ro_fail].
Qed.
Lemma ro_load_all pl is d : ro (load_all pl is d).
Proof.
  induction is as [|i r IH]; cbn; [apply ro_ret|].
  apply ro_bind; [apply ro_catch, ro_load_res|]. intros [b|e].
  - apply ro_bind; [exact IH|]. intros bs. apply ro_ret.
  - destruct e; first [exact IH | apply ro_fail].
Qed.
Lemma ro_load_any pl cfg d : ro (load_any pl cfg d).
Proof.
  unfold load_any. apply ro_bind; [apply ro_load_all|]. intros bs.
  destruct (newest bs); [apply ro_ret | apply ro_fail].
Qed.
Lemma ro_load_managed pl cfg d : ro (load_managed pl cfg d).
Proof.
  unfold load_managed. apply ro_bind; [apply ro_load_any|]. intros [[[i k] x] m].
  destruct (negb (N.eqb (c_pub x) k)); [apply ro_fail|].
  apply ro_bind; [apply ro_catch, ro_load_ocsp|]. intros o. apply ro_ret.
Qed.
Lemma ro_reuse_key pl is d : ro (reuse_key pl is d).
Proof.
  induction is as [|i r IH]; cbn; [apply ro_ret|].
  apply ro_bind; [apply ro_catch, ro_load|]. intros [[k|x|m]|e]; try apply ro_ret; try apply ro_fail.
  destruct e; first [exact IH | apply ro_fail].
Qed.

(** * results of reads are true, whatever the plan (a failing read yields an error, never a wrong value) *)
Lemma bind_run {A B} (m : M A) (f : A -> M B) w :
  bind m f w = match m w with (Ok a, w') => f a w' | (Fail e, w') => (Fail e, w') | (Dead, w') => (Dead, w') end.
Proof. reflexivity. Qed.

Lemma load_ok pl k w v : fst (load pl k w) = Ok v -> sget (w_st w) k = Some v.
Proof.
  unfold load, prim, w_st. destruct (p_fail pl (w_cnt w)).
  - destruct (crash_at pl (w_cnt w)); cbn; discriminate.
  - destruct (sget (k_st (w_core w)) k); destruct (crash_at pl (w_cnt w)); cbn; congruence.
Qed.
Lemma load_notexist pl k w : fst (load pl k w) = Fail ENotExist -> sget (w_st w) k = None.
Proof.
  unfold load, prim, w_st. destruct (p_fail pl (w_cnt w)).
  - destruct (crash_at pl (w_cnt w)); cbn; discriminate.
  - destruct (sget (k_st (w_core w)) k); destruct (crash_at pl (w_cnt w)); cbn; congruence.
Qed.

Lemma reuse_key_res pl is d w kr :
  fst (reuse_key pl is d w) = Ok kr ->
  match kr with
  | Some (i, k) => In i is /\ dir_key (w_st w) i d = Some k
  | None => forall j, In j is -> sget (w_st w) (j, d, FKey) = None
  end.
Proof.
  revert w. induction is as [|i r IH]; intros w; cbn [reuse_key].
  - cbn. intros [= <-]. intros j [].
  - rewrite bind_run. unfold catch.
    generalize (load_ok pl (i, d, FKey) w), (load_notexist pl (i, d, FKey) w), (ro_load pl (i, d, FKey) w).
    destruct (load pl (i, d, FKey) w) as [[v|e|] w1]; cbn [fst snd]; intros HO HN HR; [| |discriminate].
    + destruct v as [k|x|m]; cbn; try discriminate. intros [= <-]. split; [left; reflexivity|].
      unfold dir_key. rewrite (HO _ eq_refl). reflexivity.
    + destruct e; cbn; try discriminate. intros H. specialize (IH w1 H).
      assert (Est : w_st w1 = w_st w) by (unfold w_st; rewrite HR; reflexivity).
      destruct kr as [[j k]|].
      * rewrite Est in IH. destruct IH; auto.
      * intros j [<-|Hj]; [apply HN; reflexivity | rewrite <- Est; apply IH, Hj].
Qed.

Lemma load_res_res pl i d w b : fst (load_res pl i d w) = Ok b -> bundle_at (w_st w) i d = Some b.
Proof.
  unfold load_res. rewrite bind_run.
  generalize (load_ok pl (i, d, FKey) w), (ro_load pl (i, d, FKey) w).
  destruct (load pl (i, d, FKey) w) as [[kv|e|] w1]; cbn [fst snd]; intros HO1 HR1; try discriminate.
  rewrite bind_run.
  generalize (load_ok pl (i, d, FCrt) w1), (ro_load pl (i, d, FCrt) w1).
  destruct (load pl (i, d, FCrt) w1) as [[cv|e|] w2]; cbn [fst snd]; intros HO2 HR2; try discriminate.
  rewrite bind_run.
  generalize (load_ok pl (i, d, FMeta) w2), (ro_load pl (i, d, FMeta) w2).
  destruct (load pl (i, d, FMeta) w2) as [[mv|e|] w3]; cbn [fst snd]; intros HO3 HR3; try discriminate.
  assert (E1 : w_st w1 = w_st w) by (unfold w_st; rewrite HR1; reflexivity).
  assert (E2 : w_st w2 = w_st w) by (unfold w_st; rewrite HR2, HR1; reflexivity).
  specialize (HO1 _ eq_refl). specialize (HO2 _ eq_refl). specialize (HO3 _ eq_refl). rewrite E1 in HO2. rewrite E2 in HO3.
  destruct kv as [k| |]; try (destruct cv, mv; discriminate).
  destruct cv as [|x|]; try (destruct mv; discriminate).
  destruct mv as [| |m]; try discriminate.
  cbn. intros [= <-]. unfold bundle_at, dir_key, dir_crt, dir_meta. rewrite HO1, HO2, HO3. reflexivity.
Qed.
Lemma load_all_res pl is d w bs :
  fst (load_all pl is d w) = Ok bs -> forall b, In b bs -> exists i, In i is /\ bundle_at (w_st w) i d = Some b.
Proof.
  revert w bs. induction is as [|i r IH]; intros w bs; cbn [load_all].
  - cbn. intros [= <-] b [].
  - rewrite bind_run. unfold catch.
    generalize (load_res_res pl i d w), (ro_load_res pl i d w).
    destruct (load_res pl i d w) as [[b0|e|] w1]; cbn [fst snd]; intros HO HR; [| |discriminate];
      assert (Est : w_st w1 = w_st w) by (unfold w_st; rewrite HR; reflexivity).
    + rewrite bind_run. generalize (IH w1). destruct (load_all pl r d w1) as [[bs1|e|] w2]; cbn [fst]; intros IH1; try discriminate.
      cbn. intros [= <-] b [<-|Hb].
      * exists i. split; [left; reflexivity | apply HO; reflexivity].
      * destruct (IH1 _ eq_refl b Hb) as (j & Hj & Hbj). exists j. rewrite <- Est. auto.
    + destruct e; cbn; try discriminate. intros H b Hb.
      destruct (IH w1 bs H b Hb) as (j & Hj & Hbj). exists j. rewrite <- Est. auto.
Qed.
Lemma load_any_res pl cfg d w b :
  fst (load_any pl cfg d w) = Ok b -> exists i, In i (issuers cfg) /\ bundle_at (w_st w) i d = Some b.
Proof.
  unfold load_any. rewrite bind_run. generalize (load_all_res pl (issuers cfg) d w).
  destruct (load_all pl (issuers cfg) d w) as [[bs|e|] w1]; cbn [fst]; intros H; try discriminate.
  destruct (newest bs) as [b'|] eqn:EN; cbn; [|discriminate]. intros [= <-].
  apply (H bs eq_refl). apply newest_in, EN.
Qed.

(** * what a step may do to the core without touching the certificate files *)
Definition keeps (c c' : core) : Prop :=
  k_st c' = k_st c /\ k_ocsp c' = k_ocsp c /\ k_nkey c <= k_nkey c' /\ k_nser c <= k_nser c'.
Lemma keeps_refl c : keeps c c. Proof. unfold keeps; repeat split; lia. Qed.
Lemma keeps_trans a b c : keeps a b -> keeps b c -> keeps a c.
Proof. unfold keeps. intros (A1 & A2 & A3 & A4) (B1 & B2 & B3 & B4). repeat split; try congruence; lia. Qed.
Lemma keeps_eq a b : a = b -> keeps b a. Proof. intros ->; apply keeps_refl. Qed.

Definition pres {A} (m : M A) : Prop := forall w, keeps (w_core w) (w_core (snd (m w))).
Lemma pres_ro {A} (m : M A) : ro m -> pres m.
Proof. intros H w. rewrite H. apply keeps_refl. Qed.
Lemma pres_bind {A B} (m : M A) (f : A -> M B) : pres m -> (forall a, pres (f a)) -> pres (bind m f).
Proof.
  intros Hm Hf w. unfold bind. specialize (Hm w). destruct (m w) as [[a|e|] w1]; cbn in *; auto.
  eapply keeps_trans; [exact Hm | apply Hf].
Qed.
Lemma pres_catch {A} (m : M A) : pres m -> pres (catch m).
Proof. intros Hm w. unfold catch. specialize (Hm w). destruct (m w) as [[a|e|] w1]; cbn in *; auto. Qed.
Lemma pres_prim {A} pl k t (onf : res A) eff : (forall c, keeps c (snd (eff c))) -> pres (prim pl k t onf eff).
Proof.
  intros H w. unfold prim. destruct (p_fail pl (w_cnt w)).
  - destruct (crash_at pl (w_cnt w)); apply keeps_refl.
  - specialize (H (w_core w)). destruct (eff (w_core w)) as [r c2]; cbn in *. destruct (crash_at pl (w_cnt w)); cbn; exact H.
Qed.
Lemma pres_lock pl : pres (lock pl).
Proof. apply pres_prim. intros c. destruct (k_locked c); cbn; unfold keeps; cbn; repeat split; lia. Qed.
Lemma pres_unlock pl : pres (unlock pl).
Proof. apply pres_prim. intros c. unfold keeps; cbn; repeat split; lia. Qed.
Lemma pres_local {A} (f : core -> res A * core * logev) : (forall c, keeps c (snd (fst (f c)))) -> pres (local f).
Proof. intros H w. unfold local. specialize (H (w_core w)). destruct (f (w_core w)) as [[r c] e]; cbn in *. exact H. Qed.
Lemma pres_gen_key : pres gen_key.
Proof. apply pres_local. intros c. unfold keeps; cbn; repeat split; lia. Qed.
Lemma pres_issue orc i k id : pres (issue orc i k id).
Proof. apply pres_local. intros c. destruct (nth i (o_out orc) None) as [[nb v]|]; unfold keeps; cbn; repeat split; lia. Qed.
Lemma pres_try_issuers orc is k id : pres (try_issuers orc is k id).
Proof.
  induction is as [|i r IH]; cbn; [apply pres_ro, ro_fail|].
  apply pres_bind; [apply pres_catch, pres_issue|]. intros [c|e]; [apply pres_ro, ro_ret | exact IH].
Qed.

Lemma gen_key_res w k : fst (gen_key w) = Ok k -> k = k_nkey (w_core w).
Proof. unfold gen_key, local. cbn. congruence. Qed.
Lemma try_issuers_res orc is k id w i x :
  fst (try_issuers orc is k id w) = Ok (i, x) -> In i is /\ c_pub x = k /\ c_sub x = id.
Proof.
  revert w. induction is as [|j r IH]; intros w; cbn [try_issuers]; [cbn; discriminate|].
  rewrite bind_run. unfold catch, issue, local.
  destruct (nth j (o_out orc) None) as [[nb v]|]; cbn.
  - intros [= <- <-]. cbn. auto.
  - intros H. destruct (IH _ H) as (A & B & C). auto.
Qed.

(** * the torn states of one save *)
Inductive torn (st : storage) (i : nat) (d : N) (k : keyid) (x : cert) (m : list N) : storage -> Prop :=
| torn_k : torn st i d k x m (sput st (i, d, FKey) (VKey k))
| torn_kd : torn st i d k x m (sdel (sput st (i, d, FKey) (VKey k)) (i, d, FKey))
| torn_kc : torn st i d k x m (sput (sput st (i, d, FKey) (VKey k)) (i, d, FCrt) (VCrt x))
| torn_kc_dc : torn st i d k x m (sdel (sput (sput st (i, d, FKey) (VKey k)) (i, d, FCrt) (VCrt x)) (i, d, FCrt))
| torn_kc_dc_dk : torn st i d k x m
    (sdel (sdel (sput (sput st (i, d, FKey) (VKey k)) (i, d, FCrt) (VCrt x)) (i, d, FCrt)) (i, d, FKey))
| torn_kc_dk : torn st i d k x m (sdel (sput (sput st (i, d, FKey) (VKey k)) (i, d, FCrt) (VCrt x)) (i, d, FKey))
| torn_kcm : torn st i d k x m (put_bundle st i d k x m).

(** [save] under any plan: storage unchanged or torn; nothing else changes *)
Lemma save_effect pl i d k x m w :
  let c := w_core w in let c' := w_core (snd (save pl i d k x m w)) in
  k_ocsp c' = k_ocsp c /\ k_locked c' = k_locked c /\ k_nkey c' = k_nkey c /\ k_nser c' = k_nser c /\
  (k_st c' = k_st c \/ torn (k_st c) i d k x m (k_st c')).
Proof.
  cbv zeta. unfold save, store, delete, prim, bind, catch, ret, fail. cbn.
  repeat match goal with
         | |- context [if ?b then _ else _] => destruct b; cbn
         end;
    repeat split; try reflexivity; first [left; reflexivity | right; constructor].
Qed.

(** * the effect of obtain / renew / manage under a plan
    The walk through the programs is generic in the plan [pl] and in the relation [T] that
    describes what one [save] under that plan can leave behind ([save_T]): instantiated below with
    every plan and the seven [torn] states, and with "calm" plans (no crash, no two consecutive
    failing calls) and the six [torn_safe] states. *)
(** where the key of the interrupted save comes from: freshly generated (and, with key reuse, only
    because no issuer directory under the name had a key), or — with key reuse — a key that is in storage *)
Definition key_origin (cfg : config) (sp : subject) (c : core) (k : keyid) : Prop :=
  (k_nkey c <= k /\
   (reuse cfg = true -> forall j, In j (issuers cfg) -> sget (k_st c) (j, s_pre sp, FKey) = None)) \/
  (reuse cfg = true /\ exists j d, In j (issuers cfg) /\ dir_key (k_st c) j d = Some k).
(** without revocations in the environment no load ever reports one, whatever the plan *)
Lemma load_managed_rev_none pl cfg d w mc :
  k_ocsp (w_core w) = [] -> fst (load_managed pl cfg d w) = Ok mc -> m_rev mc = None.
Proof.
  intros HO. unfold load_managed. rewrite bind_run. generalize (ro_load_any pl cfg d w).
  destruct (load_any pl cfg d w) as [[[[[i k] x] m]|e|] w1]; cbn [fst snd]; intros HR; try discriminate.
  destruct (negb (N.eqb (c_pub x) k)); [cbn; discriminate|].
  rewrite bind_run. unfold catch, load_ocsp, prim. rewrite HR, HO. cbn [assoc_ser].
  destruct (p_fail pl (w_cnt w1)); destruct (crash_at pl (w_cnt w1)); cbn; try discriminate;
    intros [= <-]; reflexivity.
Qed.

Definition is_op7 (h : hop) : bool := match h with HObtain | HRenew _ | HManage => true | _ => false end.
(** * forced replacement of a revoked certificate: what the quarantine of the key can leave behind *)
Inductive quar (st : storage) (i : nat) (d : N) : storage -> Prop :=
| q_none : quar st i d st
| q_del : quar st i d (sdel st (i, d, FKey))
| q_put v : sget st (i, d, FKey) = Some v -> quar st i d (sput st (i, d, FComp) v)
| q_put_del v : sget st (i, d, FKey) = Some v -> quar st i d (sdel (sput st (i, d, FComp) v) (i, d, FKey)).
Definition qkeeps (i : nat) (d : N) (c c1 : core) : Prop :=
  k_ocsp c1 = k_ocsp c /\ k_nkey c1 = k_nkey c /\ k_nser c1 = k_nser c /\ quar (k_st c) i d (k_st c1).
Lemma qkeeps_refl i d c : qkeeps i d c c.
Proof. repeat split. constructor. Qed.
Lemma move_compromised_effect pl i d w :
  qkeeps i d (w_core w) (w_core (snd (catch (move_compromised pl i d) w))) /\
  fst (catch (move_compromised pl i d) w) <> Fail EOther.
Proof.
  unfold qkeeps, move_compromised, load, store, delete, prim, bind, catch, ret, fail. cbn.
  repeat match goal with
         | |- context [if ?b then _ else _] => destruct b; cbn
         | |- context [match sget ?s ?k with _ => _ end] => destruct (sget s k) eqn:?; cbn
         end;
    (split; [repeat split; try reflexivity; constructor; assumption | discriminate]).
Qed.

Section Gen.
  Variable pl : plan.
  Variable T : storage -> nat -> N -> keyid -> cert -> list N -> storage -> Prop.
  Hypothesis save_T : forall i d k x m w,
    let c := w_core w in let c' := w_core (snd (save pl i d k x m w)) in
    k_ocsp c' = k_ocsp c /\ k_locked c' = k_locked c /\ k_nkey c' = k_nkey c /\ k_nser c' = k_nser c /\
    (k_st c' = k_st c \/ T (k_st c) i d k x m (k_st c')).

Definition one_torn_g (cfg : config) (sp : subject) (c c' : core) : Prop :=
  k_ocsp c' = k_ocsp c /\ k_nkey c <= k_nkey c' /\ k_nser c <= k_nser c' /\
  exists i k x, c_pub x = k /\ c_sub x = s_id sp /\ key_origin cfg sp c k /\
                T (k_st c) i (s_save sp) k x [s_id sp] (k_st c').
Definition eff7_g (cfg : config) (sp : subject) (c c' : core) : Prop := keeps c c' \/ one_torn_g cfg sp c c'.

Lemma key_origin_pre cfg sp c c1 k : keeps c c1 -> key_origin cfg sp c1 k -> key_origin cfg sp c k.
Proof.
  intros (E & _ & HK & _) [[H1 H2]|[HR (j & d & Hj & Hd)]].
  - left. rewrite <- E. split; [lia | exact H2].
  - right. split; [exact HR|]. exists j, d. rewrite <- E. auto.
Qed.
Lemma eff7_pre_g cfg sp c c1 c2 : keeps c c1 -> eff7_g cfg sp c1 c2 -> eff7_g cfg sp c c2.
Proof.
  intros HK [H|(A & B & C & i & k & x & Hp & Hs & Ho & Ht)]; [left; eapply keeps_trans; eauto|].
  right. generalize HK; intros (E & E2 & E3 & E4). unfold one_torn_g. repeat split; try congruence; try lia.
  exists i, k, x. rewrite <- E. repeat split; auto. eapply key_origin_pre; eauto.
Qed.
Lemma eff7_post_g cfg sp c c1 c2 : eff7_g cfg sp c c1 -> keeps c1 c2 -> eff7_g cfg sp c c2.
Proof.
  intros [H|(A & B & C & i & k & x & Hp & Hs & Ho & Ht)] HK; [left; eapply keeps_trans; eauto|].
  right. destruct HK as (E & E2 & E3 & E4). unfold one_torn_g. repeat split; try congruence; try lia.
  exists i, k, x. rewrite E. auto.
Qed.

Definition spec7_g {A} (cfg : config) (sp : subject) (m : M A) : Prop :=
  forall w, eff7_g cfg sp (w_core w) (w_core (snd (m w))).
Lemma spec7_pres_g {A} cfg sp (m : M A) : pres m -> spec7_g cfg sp m.
Proof. intros H w. left. apply H. Qed.
Lemma spec7_bind_l_g {A B} cfg sp (m : M A) (f : A -> M B) :
  pres m -> (forall a, spec7_g cfg sp (f a)) -> spec7_g cfg sp (bind m f).
Proof.
  intros Hm Hf w. unfold bind. specialize (Hm w). destruct (m w) as [[a|e|] w1]; cbn in *; try solve [left; exact Hm].
  eapply eff7_pre_g; [exact Hm | apply Hf].
Qed.
Lemma spec7_bind_r_g {A B} cfg sp (m : M A) (f : A -> M B) :
  spec7_g cfg sp m -> (forall a, pres (f a)) -> spec7_g cfg sp (bind m f).
Proof.
  intros Hm Hf w. unfold bind. specialize (Hm w). destruct (m w) as [[a|e|] w1]; cbn in *; try exact Hm.
  eapply eff7_post_g; [exact Hm | apply Hf].
Qed.
Lemma spec7_catch_g {A} cfg sp (m : M A) : spec7_g cfg sp m -> spec7_g cfg sp (catch m).
Proof. intros Hm w. unfold catch. specialize (Hm w). destruct (m w) as [[a|e|] w1]; cbn in *; exact Hm. Qed.
Lemma spec7_with_lock_g {A} cfg sp (body : M A) : spec7_g cfg sp body -> spec7_g cfg sp (with_lock pl body).
Proof.
  intros HB. unfold with_lock.
  apply spec7_bind_l_g; [apply pres_lock|]. intros _.
  apply spec7_bind_r_g; [apply spec7_catch_g, HB|]. intros x.
  apply pres_bind; [apply pres_catch, pres_unlock|]. intros _.
  destruct x; apply pres_ro; [apply ro_ret | apply ro_fail].
Qed.

(** the tail shared by obtain and renew: try the issuers, save what the first one returns *)
Lemma tail_effect_g cfg sp orc order k w0 w :
  keeps w0 (w_core w) -> key_origin cfg sp w0 k ->
  eff7_g cfg sp w0 (w_core (snd ((ic <- try_issuers orc order k (s_id sp) ;;
                                save pl (fst ic) (s_save sp) k (snd ic) [s_id sp]) w))).
Proof.
  intros HK HO. rewrite bind_run.
  generalize (pres_try_issuers orc order k (s_id sp) w), (try_issuers_res orc order k (s_id sp) w).
  destruct (try_issuers orc order k (s_id sp) w) as [[[i x]|e|] w1]; cbn [fst snd]; intros HP HR;
    try solve [left; eapply keeps_trans; eauto].
  destruct (HR i x eq_refl) as (_ & Hp & Hs).
  assert (HK1 : keeps w0 (w_core w1)) by (eapply keeps_trans; eauto).
  destruct (save_T i (s_save sp) k x [s_id sp] w1) as (A & _ & B & C & [D|D]).
  - left. destruct HK1 as (E1 & E2 & E3 & E4). unfold keeps. repeat split; try congruence; lia.
  - right. destruct HK1 as (E1 & E2 & E3 & E4). unfold one_torn_g. repeat split; try congruence; try lia.
    exists i, k, x. rewrite <- E1. auto.
Qed.

Lemma obtain_body_effect_g cfg sp orc : spec7_g cfg sp (obtain_body pl cfg sp orc).
Proof.
  intros w. unfold obtain_body. rewrite bind_run.
  generalize (ro_has_any pl (issuers cfg) (s_pre sp) w).
  destruct (has_any pl (issuers cfg) (s_pre sp) w) as [[re|e|] w1]; cbn [fst snd]; intros HR1;
    try solve [left; apply keeps_eq; exact HR1].
  destruct re; [left; apply keeps_eq; exact HR1|].
  rewrite bind_run.
  destruct (reuse cfg) eqn:ER.
  - generalize (ro_reuse_key pl (issuers cfg) (s_pre sp) w1), (reuse_key_res pl (issuers cfg) (s_pre sp) w1).
    destruct (reuse_key pl (issuers cfg) (s_pre sp) w1) as [[kr|e|] w2]; cbn [fst snd]; intros HR2 HRes;
      try solve [left; apply keeps_eq; congruence].
    specialize (HRes kr eq_refl).
    assert (E2 : w_core w2 = w_core w) by congruence.
    assert (Est : w_st w1 = k_st (w_core w)) by (unfold w_st; rewrite HR1; reflexivity).
    destruct kr as [[i0 k0]|].
    + rewrite bind_run. cbn [ret fst snd].
      apply tail_effect_g; [apply keeps_eq; exact E2|].
      right. split; [exact ER|]. exists i0, (s_pre sp). rewrite <- Est. exact HRes.
    + rewrite bind_run. generalize (pres_gen_key w2), (gen_key_res w2).
      destruct (gen_key w2) as [[k|e|] w3]; cbn [fst snd]; intros HP HG;
        try solve [left; rewrite E2 in HP; exact HP].
      apply tail_effect_g; [rewrite <- E2; exact HP|].
      left. rewrite (HG k eq_refl), E2. split; [lia|]. intros _ j Hj. rewrite <- Est. apply HRes, Hj.
  - cbn [ret]. rewrite bind_run. generalize (pres_gen_key w1), (gen_key_res w1).
    destruct (gen_key w1) as [[k|e|] w3]; cbn [fst snd]; intros HP HG;
      try solve [left; rewrite HR1 in HP; exact HP].
    apply tail_effect_g; [rewrite <- HR1; exact HP|].
    left. rewrite (HG k eq_refl), HR1. split; [lia | congruence].
Qed.
Lemma obtain_effect_g cfg sp orc : spec7_g cfg sp (obtain pl cfg sp orc).
Proof.
  unfold obtain. apply spec7_bind_l_g; [apply pres_ro, ro_has_any|]. intros pre.
  destruct pre; [apply spec7_pres_g, pres_ro, ro_ret|].
  apply spec7_bind_l_g; [apply pres_ro, ro_check_storage|]. intros _.
  apply spec7_with_lock_g, obtain_body_effect_g.
Qed.

Lemma renew_body_effect_g cfg sp orc f : spec7_g cfg sp (renew_body pl cfg sp orc f).
Proof.
  intros w. unfold renew_body. rewrite bind_run.
  generalize (ro_load_any pl cfg (s_load sp) w), (load_any_res pl cfg (s_load sp) w).
  destruct (load_any pl cfg (s_load sp) w) as [[b|e|] w1]; cbn [fst snd]; intros HR1 HRes;
    try solve [left; apply keeps_eq; exact HR1].
  destruct (HRes b eq_refl) as (j & Hj & Hb). destruct b as [[[j0 k0] c0] m0].
  destruct (negb (is_due c0) && negb f); [left; apply keeps_eq; exact HR1|].
  rewrite bind_run. destruct (reuse cfg) eqn:ER.
  - cbn [ret fst snd]. apply tail_effect_g; [apply keeps_eq; exact HR1|].
    right. split; [exact ER|]. exists j, (s_load sp). split; [exact Hj|].
    apply bundle_at_inv in Hb. apply Hb.
  - generalize (pres_gen_key w1), (gen_key_res w1).
    destruct (gen_key w1) as [[k|e|] w3]; cbn [fst snd]; intros HP HG;
      try solve [left; rewrite HR1 in HP; exact HP].
    apply tail_effect_g; [rewrite <- HR1; exact HP|].
    left. rewrite (HG k eq_refl), HR1. split; [lia | congruence].
Qed.
Lemma renew_effect_g cfg sp orc f : spec7_g cfg sp (renew pl cfg sp orc f).
Proof.
  unfold renew. apply spec7_bind_l_g; [apply pres_ro, ro_check_storage|]. intros _.
  apply spec7_with_lock_g, renew_body_effect_g.
Qed.

Lemma manage_effect_g cfg sp orc w :
  k_ocsp (w_core w) = [] -> eff7_g cfg sp (w_core w) (w_core (snd (manage pl cfg sp orc w))).
Proof.
  intros HO. unfold manage. rewrite bind_run. unfold catch.
  generalize (ro_load_managed pl cfg (s_load sp) w), (load_managed_rev_none pl cfg (s_load sp) w).
  destruct (load_managed pl cfg (s_load sp) w) as [[mc|e|] w1]; cbn [fst snd]; intros HR HRev;
    try solve [left; apply keeps_eq; exact HR].
  - rewrite (HRev mc HO eq_refl). rewrite andb_false_r.
    destruct (is_due (m_c mc)); [|left; apply keeps_eq; exact HR].
    rewrite <- HR. apply (spec7_bind_r_g cfg sp (renew pl cfg sp orc false)); [apply renew_effect_g|].
    intros _. apply pres_ro, ro_load_managed.
  - destruct e; try solve [left; apply keeps_eq; exact HR].
    rewrite <- HR. apply (spec7_bind_r_g cfg sp (obtain pl cfg sp orc)); [apply obtain_effect_g|].
    intros _. apply pres_ro, ro_load_managed.
Qed.

(** faulted_effect_g: every operation of the property's fault experiments, under every plan *)
Lemma faulted_effect_g cfg sp orc h w :
  is_op7 h = true -> k_ocsp (w_core w) = [] ->
  eff7_g cfg sp (w_core w) (w_core (snd (run_hop pl cfg sp orc h w))).
Proof.
  intros Hop HO. destruct h as [|f| |i kc|]; try discriminate; cbn [run_hop].
  - apply (spec7_bind_r_g cfg sp (obtain pl cfg sp orc)); [apply obtain_effect_g | intros; apply pres_ro, ro_ret].
  - apply (spec7_bind_r_g cfg sp (renew pl cfg sp orc f)); [apply renew_effect_g | intros; apply pres_ro, ro_ret].
  - rewrite bind_run. generalize (manage_effect_g cfg sp orc w HO).
    destruct (manage pl cfg sp orc w) as [[mc|e|] w1]; cbn [fst snd]; auto.
Qed.


  (** ** with revocations pending: manage may first quarantine the key (forceRenew) *)
  Definition eff7r_g (cfg : config) (sp : subject) (c c' : core) : Prop :=
    exists c1 q, qkeeps q (s_save sp) c c1 /\ (eff7_g cfg sp c1 c' \/ eff7_g cfg (canon sp) c1 c').
  Lemma eff7r_of_eff7 cfg sp c c' : eff7_g cfg sp c c' -> eff7r_g cfg sp c c'.
  Proof. intros H. exists c, 0%nat. split; [apply qkeeps_refl | left; exact H]. Qed.
  Lemma eff7r_of_eff7c cfg sp c c' : eff7_g cfg (canon sp) c c' -> eff7r_g cfg sp c c'.
  Proof. intros H. exists c, 0%nat. split; [apply qkeeps_refl | right; exact H]. Qed.

  Lemma then_load_effect {A} cfg sp0 d (m : M A) :
    spec7_g cfg sp0 m -> spec7_g cfg sp0 (m ;;; load_managed pl cfg d).
  Proof. intros H. apply spec7_bind_r_g; [exact H | intros _; apply pres_ro, ro_load_managed]. Qed.

  Lemma manage_effect_rev_g cfg sp orc w :
    eff7r_g cfg sp (w_core w) (w_core (snd (manage pl cfg sp orc w))).
  Proof.
    unfold manage. rewrite bind_run. unfold catch at 1.
    generalize (ro_load_managed pl cfg (s_load sp) w).
    destruct (load_managed pl cfg (s_load sp) w) as [[mc|e|] w1]; cbn [fst snd]; intros HR;
      try solve [apply eff7r_of_eff7; left; apply keeps_eq; exact HR].
    - destruct (negb (is_expired (m_c mc)) && _).
      + unfold force_renew. rewrite <- HR. destruct (m_rev mc) as [[|]|].
        * (* key compromise: quarantine, then obtain under the canonical name *)
          rewrite bind_run. rewrite bind_run.
          destruct (move_compromised_effect pl (m_i mc) (s_save sp) w1) as [HQ _].
          destruct (catch (move_compromised pl (m_i mc) (s_save sp)) w1) as [[u|e|] w2]; cbn [fst snd] in *.
          -- exists (w_core w2), (m_i mc). split; [exact HQ|]. right.
             apply (then_load_effect cfg (canon sp) (s_save sp) (obtain pl cfg (canon sp) orc)). apply obtain_effect_g.
          -- exists (w_core w2), (m_i mc). split; [exact HQ|]. left. left. apply keeps_refl.
          -- exists (w_core w2), (m_i mc). split; [exact HQ|]. left. left. apply keeps_refl.
        * apply eff7r_of_eff7c.
          apply (then_load_effect cfg (canon sp) (s_save sp) (renew pl cfg (canon sp) orc true)). apply renew_effect_g.
        * apply eff7r_of_eff7c.
          apply (then_load_effect cfg (canon sp) (s_save sp) (renew pl cfg (canon sp) orc true)). apply renew_effect_g.
      + destruct (is_due (m_c mc)); [|apply eff7r_of_eff7; left; apply keeps_eq; exact HR].
        rewrite <- HR. apply eff7r_of_eff7.
        apply (then_load_effect cfg sp (s_save sp) (renew pl cfg sp orc false)). apply renew_effect_g.
    - destruct e; try solve [apply eff7r_of_eff7; left; apply keeps_eq; exact HR].
      rewrite <- HR. apply eff7r_of_eff7.
      apply (then_load_effect cfg sp (s_load sp) (obtain pl cfg sp orc)). apply obtain_effect_g.
  Qed.

  Lemma faulted_effect_rev_g cfg sp orc h w :
    is_op7 h = true -> eff7r_g cfg sp (w_core w) (w_core (snd (run_hop pl cfg sp orc h w))).
  Proof.
    intros Hop. destruct h as [|f| |i kc|]; try discriminate; cbn [run_hop].
    - apply eff7r_of_eff7. apply (spec7_bind_r_g cfg sp (obtain pl cfg sp orc)); [apply obtain_effect_g | intros; apply pres_ro, ro_ret].
    - apply eff7r_of_eff7. apply (spec7_bind_r_g cfg sp (renew pl cfg sp orc f)); [apply renew_effect_g | intros; apply pres_ro, ro_ret].
    - rewrite bind_run. generalize (manage_effect_rev_g cfg sp orc w).
      destruct (manage pl cfg sp orc w) as [[mc|e|] w1]; cbn [fst snd]; auto.
  Qed.
End Gen.

(** ** every plan: the seven torn states *)
Definition one_torn := one_torn_g torn.
Definition eff7 := eff7_g torn.
Lemma faulted_effect pl cfg sp orc h w :
  is_op7 h = true -> k_ocsp (w_core w) = [] ->
  eff7 cfg sp (w_core w) (w_core (snd (run_hop pl cfg sp orc h w))).
Proof. apply (faulted_effect_g pl torn (save_effect pl)). Qed.

(** * the only way to get stuck *)
Lemma same_dir_refl i d : same_dir i d i d = true.
Proof. apply same_dir_true; auto. Qed.
Lemma torn_other st i d k x m st' i' d' kd :
  torn st i d k x m st' -> same_dir i d i' d' = false -> sget st' (i', d', kd) = sget st (i', d', kd).
Proof.
  intros HT HD. destruct HT; unfold put_bundle; rewrite ?sget_sdel, ?sget_sput, ?fkey_eqb_dir, ?HD; cbn; reflexivity.
Qed.

Ltac here := unfold dir_key, dir_crt, dir_meta, put_bundle;
             rewrite ?sget_sdel, ?sget_sput, ?fkey_eqb_dir, ?same_dir_refl; cbn.

(** in the directory of the interrupted save: a complete bundle there is either key/certificate of the
    new pair (matching), or the new key next to the OLD certificate and OLD metadata *)
Lemma torn_here st i d k x m st' :
  torn st i d k x m st' ->
  forall k' x' m', dir_key st' i d = Some k' -> dir_crt st' i d = Some x' -> dir_meta st' i d = Some m' ->
  (k' = k /\ x' = x) \/
  (k' = k /\ dir_crt st i d = Some x' /\ dir_meta st i d = Some m' /\ st' = sput st (i, d, FKey) (VKey k)).
Proof.
  intros HT k' x' m'. destruct HT; here; intros HK HC HM; try discriminate.
  - right. injection HK as <-. auto.
  - left. injection HK as <-. injection HC as <-. auto.
  - left. injection HK as <-. injection HC as <-. auto.
Qed.

Lemma stuck_char cfg sp c0 c1 :
  (forall i b, In i (issuers cfg) -> bundle_at (k_st c0) i (s_save sp) = Some b -> matching b = true) ->
  eff7 cfg sp c0 c1 -> stuck (k_st c1) cfg (s_save sp) = true ->
  exists i k x m, In i (issuers cfg) /\ key_origin cfg sp c0 k /\
    dir_crt (k_st c0) i (s_save sp) = Some x /\ dir_meta (k_st c0) i (s_save sp) = Some m /\ c_pub x <> k /\
    k_st c1 = sput (k_st c0) (i, s_save sp, FKey) (VKey k).
Proof.
  intros HG HE HS. unfold stuck in HS.
  destruct (newest_bundle (k_st c1) cfg (s_save sp)) as [[[[j kj] xj] mj]|] eqn:EN; [|discriminate].
  cbn in HS. apply negb_true_iff, N.eqb_neq in HS.
  destruct (newest_bundle_inv _ _ _ _ _ _ _ EN) as (Hj & HK & HC & HM).
  destruct HE as [(E & _)|(_ & _ & _ & i & k & x & Hp & Hs & Ho & HT)].
  - exfalso. rewrite E in HK, HC, HM.
    assert (Hb : bundle_at (k_st c0) j (s_save sp) = Some (j, kj, xj, mj)) by (unfold bundle_at; rewrite HK, HC, HM; reflexivity).
    specialize (HG _ _ Hj Hb). cbn in HG. apply N.eqb_eq in HG. contradiction.
  - destruct (same_dir i (s_save sp) j (s_save sp)) eqn:ED.
    + apply same_dir_true in ED. destruct ED as [-> _].
      destruct (torn_here _ _ _ _ _ _ _ HT _ _ _ HK HC HM) as [[-> ->]|(-> & HC0 & HM0 & Est)].
      * contradiction.
      * exists j, k, xj, mj. auto 10.
    + exfalso. unfold dir_key, dir_crt, dir_meta in HK, HC, HM.
      rewrite (torn_other _ _ _ _ _ _ _ _ _ FKey HT ED) in HK.
      rewrite (torn_other _ _ _ _ _ _ _ _ _ FCrt HT ED) in HC.
      rewrite (torn_other _ _ _ _ _ _ _ _ _ FMeta HT ED) in HM.
      assert (Hb : bundle_at (k_st c0) j (s_save sp) = Some (j, kj, xj, mj)).
      { unfold bundle_at, dir_key, dir_crt, dir_meta.
        destruct (sget (k_st c0) (j, s_save sp, FKey)) as [[?|?|?]|]; try discriminate.
        destruct (sget (k_st c0) (j, s_save sp, FCrt)) as [[?|?|?]|]; try discriminate.
        destruct (sget (k_st c0) (j, s_save sp, FMeta)) as [[?|?|?]|]; try discriminate. congruence. }
      specialize (HG _ _ Hj Hb). cbn in HG. apply N.eqb_eq in HG. contradiction.
Qed.

(** with key reuse (same key everywhere, every certificate next to its key) no plan gets stuck *)
Definition all_same_key (st : storage) : Prop :=
  forall j d j' d' k k', dir_key st j d = Some k -> dir_key st j' d' = Some k' -> k = k'.
Definition crt_has_key (st : storage) (cfg : config) (d : N) : Prop :=
  forall i x, In i (issuers cfg) -> dir_crt st i d = Some x -> dir_key st i d = Some (c_pub x).

Lemma matching_of_crt_has_key st cfg d :
  crt_has_key st cfg d -> forall i b, In i (issuers cfg) -> bundle_at st i d = Some b -> matching b = true.
Proof.
  intros H i [[[j k] x] m] Hi Hb. apply bundle_at_inv in Hb. destruct Hb as (_ & HK & HC & _).
  rewrite (H i x Hi HC) in HK. injection HK as <-. cbn. apply N.eqb_refl.
Qed.

Lemma never_stuck_with_reuse cfg sp c0 c1 :
  reuse cfg = true -> s_pre sp = s_save sp ->
  crt_has_key (k_st c0) cfg (s_save sp) -> all_same_key (k_st c0) ->
  eff7 cfg sp c0 c1 -> stuck (k_st c1) cfg (s_save sp) = false.
Proof.
  intros HR HP HCK HSame HE. apply not_true_is_false. intros HS.
  destruct (stuck_char cfg sp c0 c1 (matching_of_crt_has_key _ _ _ HCK) HE HS)
    as (i & k & x & m & Hi & Ho & HC & HM & Hne & _).
  generalize (HCK i x Hi HC); intros HK.
  destruct Ho as [[_ Hnone]|[_ (j & d & Hj & Hd)]].
  - specialize (Hnone HR i Hi). rewrite HP in Hnone. unfold dir_key in HK. rewrite Hnone in HK. discriminate.
  - apply Hne. apply (HSame _ _ _ _ _ _ HK Hd).
Qed.
(** nor does an operation that finds no certificate in any issuer's directory (first obtain) *)
Lemma never_stuck_without_old_cert cfg sp c0 c1 :
  (forall i, In i (issuers cfg) -> dir_crt (k_st c0) i (s_save sp) = None) ->
  eff7 cfg sp c0 c1 -> stuck (k_st c1) cfg (s_save sp) = false.
Proof.
  intros HN HE. apply not_true_is_false. intros HS.
  assert (HG : forall i b, In i (issuers cfg) -> bundle_at (k_st c0) i (s_save sp) = Some b -> matching b = true).
  { intros i [[[j k] x] m] Hi Hb. apply bundle_at_inv in Hb. destruct Hb as (_ & _ & HC & _). rewrite (HN i Hi) in HC. discriminate. }
  destruct (stuck_char cfg sp c0 c1 HG HE HS) as (i & k & x & m & Hi & _ & HC & _).
  rewrite (HN i Hi) in HC. discriminate.
Qed.

(** * storage errors without process death: calm plans never get stuck
    A plan is calm when the process does not die and no two consecutive Storage calls fail: every
    single failing call (fault kind (b) of the property, for every index k) is calm, and so is any
    set of failing calls without two neighbours. Under a calm plan the rollback Delete that
    directly follows a failed Store always succeeds, so the state "new key next to the old
    certificate" cannot be left behind. *)
Definition calm (pl : plan) : Prop :=
  p_crash pl = None /\ forall n, p_fail pl n = true -> p_fail pl (S n) = false.
Definition single_error (k : nat) : plan := {| p_fail := Nat.eqb k; p_crash := None |}.
Lemma calm_single_error k : calm (single_error k).
Proof.
  split; [reflexivity|]. cbn. intros n H. apply Nat.eqb_eq in H. subst. apply Nat.eqb_neq. lia.
Qed.
Lemma calm_no_faults : calm no_faults.
Proof. split; [reflexivity | cbn; discriminate]. Qed.

Inductive torn_safe (st : storage) (i : nat) (d : N) (k : keyid) (x : cert) (m : list N) : storage -> Prop :=
| ts_kd : torn_safe st i d k x m (sdel (sput st (i, d, FKey) (VKey k)) (i, d, FKey))
| ts_kc : torn_safe st i d k x m (sput (sput st (i, d, FKey) (VKey k)) (i, d, FCrt) (VCrt x))
| ts_kc_dc : torn_safe st i d k x m (sdel (sput (sput st (i, d, FKey) (VKey k)) (i, d, FCrt) (VCrt x)) (i, d, FCrt))
| ts_kc_dc_dk : torn_safe st i d k x m
    (sdel (sdel (sput (sput st (i, d, FKey) (VKey k)) (i, d, FCrt) (VCrt x)) (i, d, FCrt)) (i, d, FKey))
| ts_kc_dk : torn_safe st i d k x m (sdel (sput (sput st (i, d, FKey) (VKey k)) (i, d, FCrt) (VCrt x)) (i, d, FKey))
| ts_kcm : torn_safe st i d k x m (put_bundle st i d k x m).
Lemma torn_safe_torn st i d k x m st' : torn_safe st i d k x m st' -> torn st i d k x m st'.
Proof. intros H; destruct H; constructor. Qed.

Lemma save_effect_calm pl : calm pl -> forall i d k x m w,
  let c := w_core w in let c' := w_core (snd (save pl i d k x m w)) in
  k_ocsp c' = k_ocsp c /\ k_locked c' = k_locked c /\ k_nkey c' = k_nkey c /\ k_nser c' = k_nser c /\
  (k_st c' = k_st c \/ torn_safe (k_st c) i d k x m (k_st c')).
Proof.
  intros [HC HN] i d k x m w. cbv zeta.
  unfold save, store, delete, prim, bind, catch, ret, fail, crash_at. rewrite HC. cbn.
  repeat match goal with
         | H : p_fail pl ?n = true |- context [p_fail pl (S ?n)] => rewrite (HN n H); cbn
         | |- context [if p_fail pl ?n then _ else _] => destruct (p_fail pl n) eqn:?; cbn
         end;
    repeat split; try reflexivity; first [left; reflexivity | right; constructor].
Qed.

Definition eff7_calm := eff7_g torn_safe.
Lemma faulted_effect_calm pl cfg sp orc h w :
  calm pl -> is_op7 h = true -> k_ocsp (w_core w) = [] ->
  eff7_calm cfg sp (w_core w) (w_core (snd (run_hop pl cfg sp orc h w))).
Proof. intros HC. apply (faulted_effect_g pl torn_safe (save_effect_calm pl HC)). Qed.

(** in the directory of a save interrupted under a calm plan, a complete bundle is the new pair *)
Lemma torn_safe_here st i d k x m st' :
  torn_safe st i d k x m st' ->
  forall k' x' m', dir_key st' i d = Some k' -> dir_crt st' i d = Some x' -> dir_meta st' i d = Some m' ->
  k' = k /\ x' = x.
Proof.
  intros HT k' x' m'. destruct HT; here; intros HK HC HM; try discriminate;
    injection HK as <-; injection HC as <-; auto.
Qed.

Lemma never_stuck_calm cfg sp c0 c1 :
  (forall i b, In i (issuers cfg) -> bundle_at (k_st c0) i (s_save sp) = Some b -> matching b = true) ->
  eff7_calm cfg sp c0 c1 -> stuck (k_st c1) cfg (s_save sp) = false.
Proof.
  intros HG HE. apply not_true_is_false. intros HS. unfold stuck in HS.
  destruct (newest_bundle (k_st c1) cfg (s_save sp)) as [[[[j kj] xj] mj]|] eqn:EN; [|discriminate].
  cbn in HS. apply negb_true_iff, N.eqb_neq in HS.
  destruct (newest_bundle_inv _ _ _ _ _ _ _ EN) as (Hj & HK & HC & HM).
  assert (Hold : dir_key (k_st c0) j (s_save sp) = Some kj -> dir_crt (k_st c0) j (s_save sp) = Some xj ->
                 dir_meta (k_st c0) j (s_save sp) = Some mj -> False).
  { intros A B C.
    assert (Hb : bundle_at (k_st c0) j (s_save sp) = Some (j, kj, xj, mj)) by (unfold bundle_at; rewrite A, B, C; reflexivity).
    specialize (HG _ _ Hj Hb). cbn in HG. apply N.eqb_eq in HG. contradiction. }
  destruct HE as [(E & _)|(_ & _ & _ & i & k & x & Hp & Hs & Ho & HT)].
  - rewrite E in HK, HC, HM. auto.
  - destruct (same_dir i (s_save sp) j (s_save sp)) eqn:ED.
    + apply same_dir_true in ED. destruct ED as [-> _].
      destruct (torn_safe_here _ _ _ _ _ _ _ HT _ _ _ HK HC HM) as [-> ->]. contradiction.
    + apply torn_safe_torn in HT. unfold dir_key, dir_crt, dir_meta in HK, HC, HM.
      rewrite (torn_other _ _ _ _ _ _ _ _ _ FKey HT ED) in HK.
      rewrite (torn_other _ _ _ _ _ _ _ _ _ FCrt HT ED) in HC.
      rewrite (torn_other _ _ _ _ _ _ _ _ _ FMeta HT ED) in HM. auto.
Qed.

Lemma eff7_calm_eff7 cfg sp c0 c1 : eff7_calm cfg sp c0 c1 -> eff7 cfg sp c0 c1.
Proof.
  intros [H|(A & B & C & i & k & x & Hp & Hs & Ho & HT)]; [left; exact H|].
  right. repeat split; auto. exists i, k, x. repeat split; auto. apply torn_safe_torn, HT.
Qed.


(** * pending revocations: the quarantine never creates a bundle, so the analysis carries over *)
Definition eff7r := eff7r_g torn.
Lemma faulted_effect_rev pl cfg sp orc h w :
  is_op7 h = true -> eff7r cfg sp (w_core w) (w_core (snd (run_hop pl cfg sp orc h w))).
Proof. apply (faulted_effect_rev_g pl torn (save_effect pl)). Qed.
Lemma faulted_effect_rev_calm pl cfg sp orc h w :
  calm pl -> is_op7 h = true -> eff7r_g torn_safe cfg sp (w_core w) (w_core (snd (run_hop pl cfg sp orc h w))).
Proof. intros HC. apply (faulted_effect_rev_g pl torn_safe (save_effect_calm pl HC)). Qed.

Lemma quar_sget st q d st1 j d' kd :
  quar st q d st1 -> kd <> FComp -> sget st1 (j, d', kd) = Some (match sget st1 (j, d', kd) with Some v => v | None => VKey 0 end) ->
  sget st (j, d', kd) = sget st1 (j, d', kd).
Proof.
  intros HQ Hk. destruct HQ; rewrite ?sget_sdel, ?sget_sput, ?fkey_eqb_dir; try reflexivity;
    destruct kd; try contradiction; cbn; rewrite ?andb_false_r, ?andb_true_r; try reflexivity;
    destruct (same_dir q d j d'); cbn; intros Hx; try discriminate; reflexivity.
Qed.
Lemma quar_bundle st q d st1 j d' b : quar st q d st1 -> bundle_at st1 j d' = Some b -> bundle_at st j d' = Some b.
Proof.
  intros HQ. unfold bundle_at, dir_key, dir_crt, dir_meta.
  destruct (sget st1 (j, d', FKey)) as [[k| |]|] eqn:EK; try discriminate.
  destruct (sget st1 (j, d', FCrt)) as [[|x|]|] eqn:EC; try discriminate.
  destruct (sget st1 (j, d', FMeta)) as [[| |m]|] eqn:EM; try discriminate.
  rewrite (quar_sget _ _ _ _ j d' FKey HQ), (quar_sget _ _ _ _ j d' FCrt HQ), (quar_sget _ _ _ _ j d' FMeta HQ);
    rewrite ?EK, ?EC, ?EM; try reflexivity; try discriminate. auto.
Qed.
Lemma quar_crt_meta st q d st1 j d' :
  quar st q d st1 -> dir_crt st1 j d' = dir_crt st j d' /\ dir_meta st1 j d' = dir_meta st j d'.
Proof.
  intros HQ. unfold dir_crt, dir_meta.
  destruct HQ; rewrite ?sget_sdel, ?sget_sput, ?fkey_eqb_dir; cbn; rewrite ?andb_false_r; auto.
Qed.

(** stuck, with or without pending revocations: still only "a newly stored key next to an older
    certificate for a different key" - the storage is the one before the operation, possibly after the
    quarantine of a compromised key, plus the Store of the new .key *)
Lemma stuck_char_rev cfg sp c0 c' :
  (forall i b, In i (issuers cfg) -> bundle_at (k_st c0) i (s_save sp) = Some b -> matching b = true) ->
  eff7r cfg sp c0 c' -> stuck (k_st c') cfg (s_save sp) = true ->
  exists st1 q i k x m, quar (k_st c0) q (s_save sp) st1 /\ In i (issuers cfg) /\
    dir_crt (k_st c0) i (s_save sp) = Some x /\ dir_meta (k_st c0) i (s_save sp) = Some m /\ c_pub x <> k /\
    k_st c' = sput st1 (i, s_save sp, FKey) (VKey k).
Proof.
  intros HG (c1 & q & (_ & _ & _ & HQ) & HE) HS.
  assert (HG1 : forall i b, In i (issuers cfg) -> bundle_at (k_st c1) i (s_save sp) = Some b -> matching b = true).
  { intros i b Hi Hb. apply (HG i b Hi). eapply quar_bundle; eauto. }
  assert (R : exists i k x m, In i (issuers cfg) /\ dir_crt (k_st c1) i (s_save sp) = Some x /\
              dir_meta (k_st c1) i (s_save sp) = Some m /\ c_pub x <> k /\ k_st c' = sput (k_st c1) (i, s_save sp, FKey) (VKey k)).
  { destruct HE as [HE|HE].
    - destruct (stuck_char cfg sp c1 c' HG1 HE HS) as (i & k & x & m & A & _ & B & C & D & E). exists i, k, x, m. auto.
    - destruct (stuck_char cfg (canon sp) c1 c' HG1 HE HS) as (i & k & x & m & A & _ & B & C & D & E). exists i, k, x, m. auto. }
  destruct R as (i & k & x & m & A & B & C & D & E).
  destruct (quar_crt_meta _ _ _ _ i (s_save sp) HQ) as [EC EM]. rewrite EC in B. rewrite EM in C.
  exists (k_st c1), q, i, k, x, m. auto 10.
Qed.

Lemma never_stuck_calm_rev cfg sp c0 c' :
  (forall i b, In i (issuers cfg) -> bundle_at (k_st c0) i (s_save sp) = Some b -> matching b = true) ->
  eff7r_g torn_safe cfg sp c0 c' -> stuck (k_st c') cfg (s_save sp) = false.
Proof.
  intros HG (c1 & q & (_ & _ & _ & HQ) & HE).
  assert (HG1 : forall i b, In i (issuers cfg) -> bundle_at (k_st c1) i (s_save sp) = Some b -> matching b = true).
  { intros i b Hi Hb. apply (HG i b Hi). eapply quar_bundle; eauto. }
  destruct HE as [HE|HE].
  - apply (never_stuck_calm cfg sp c1 c' HG1 HE).
  - apply (never_stuck_calm cfg (canon sp) c1 c' HG1 HE).
Qed.

(** typedness and subject fields survive every torn save *)
Lemma torn_typed st i d k x m st' : typed st -> torn st i d k x m st' -> typed st'.
Proof.
  intros T HT. destruct HT; unfold put_bundle;
    repeat first [apply typed_sdel | apply typed_sput]; try exact T; cbn; eauto.
Qed.
Lemma torn_crt st i d k x m st' i' d' y :
  torn st i d k x m st' -> dir_crt st' i' d' = Some y -> dir_crt st i' d' = Some y \/ y = x.
Proof.
  intros HT. destruct (same_dir i d i' d') eqn:ED.
  - apply same_dir_true in ED. destruct ED as [<- <-].
    destruct HT; here; intros H; try discriminate; auto; injection H as <-; auto.
  - unfold dir_crt. rewrite (torn_other _ _ _ _ _ _ _ _ _ _ HT ED). auto.
Qed.

(** * recoverable, end to end: any reachable state, any plan, then a fault-free manage on a fresh instance *)
Lemma rec7_after_fault cfg sp c0 c1 :
  Inv6 cfg sp c0 -> k_ocsp c0 = [] -> (1 <= n_iss cfg)%nat -> eff7 cfg sp c0 c1 ->
  Rec7 cfg sp (set_locked c1 false).
Proof.
  intros I HO Hn HE. constructor; cbn [k_st k_locked k_ocsp set_locked]; auto.
  - destruct HE as [(E & _)|(_ & _ & _ & i & k & x & _ & _ & _ & HT)].
    + rewrite E. apply (i_typed _ _ _ I).
    + eapply torn_typed; [apply (i_typed _ _ _ I) | exact HT].
  - destruct HE as [(_ & E & _)|(E & _)]; congruence.
  - intros i y Hy. destruct HE as [(E & _)|(_ & _ & _ & j & k & x & _ & Hs & _ & HT)].
    + rewrite E in Hy. apply (i_crt _ _ _ I _ _ _ Hy).
    + destruct (torn_crt _ _ _ _ _ _ _ _ _ _ HT Hy) as [H| ->]; [apply (i_crt _ _ _ I _ _ _ H) | exact Hs].
Qed.

Lemma recoverable_after_fault pl cfg sp orc h orc_r w0 :
  Inv6 cfg sp (w_core w0) -> k_ocsp (w_core w0) = [] -> canonical sp -> (1 <= n_iss cfg)%nat ->
  is_op7 h = true ->
  let w1 := snd (run_hop pl cfg sp orc h w0) in
  stuck (w_st w1) cfg (s_save sp) = false ->
  all_up cfg orc_r (w_st w1) (s_save sp) ->
  exists mc c', evals (manage no_faults cfg sp orc_r) (w_core (break_lock w1)) (Ok mc) c' /\ served_ok cfg sp mc c'.
Proof.
  intros I HO HC Hn Hop w1 HS HU.
  assert (HE : eff7 cfg sp (w_core w0) (w_core w1)) by (apply faulted_effect; assumption).
  assert (R : Rec7 cfg sp (set_locked (w_core w1) false)) by (eapply rec7_after_fault; eauto).
  destruct (recoverable cfg sp orc_r (set_locked (w_core w1) false) R HC HU HS) as (mc & c' & HM & HOK).
  exists mc, c'. split; [|exact HOK].
  generalize (evals_manage cfg sp orc_r (set_locked (w_core w1) false) (r_typed _ _ _ R) (r_unlocked _ _ _ R)).
  rewrite HM. auto.
Qed.


(** storage errors (calm plans): never stuck, hence always recoverable — no exception *)
Lemma calm_never_stuck pl cfg sp orc h w0 :
  calm pl -> Inv6 cfg sp (w_core w0) -> k_ocsp (w_core w0) = [] -> is_op7 h = true ->
  stuck (w_st (snd (run_hop pl cfg sp orc h w0))) cfg (s_save sp) = false.
Proof.
  intros HC I HO Hop. apply (never_stuck_calm cfg sp (w_core w0)).
  - intros i [[[j k] x] m] Hi Hb. destruct (inv_bundle_good _ _ _ _ _ _ _ _ _ I Hb) as (_ & _ & Hp & _).
    cbn. apply N.eqb_eq, Hp.
  - apply faulted_effect_calm; assumption.
Qed.
Lemma recoverable_after_storage_errors pl cfg sp orc h orc_r w0 :
  calm pl -> Inv6 cfg sp (w_core w0) -> k_ocsp (w_core w0) = [] -> canonical sp -> (1 <= n_iss cfg)%nat ->
  is_op7 h = true ->
  let w1 := snd (run_hop pl cfg sp orc h w0) in
  all_up cfg orc_r (w_st w1) (s_save sp) ->
  exists mc c', evals (manage no_faults cfg sp orc_r) (w_core (break_lock w1)) (Ok mc) c' /\ served_ok cfg sp mc c'.
Proof.
  intros HC I HO HCan Hn Hop w1 HU. apply (recoverable_after_fault pl cfg sp orc h orc_r w0); auto.
  apply calm_never_stuck; assumption.
Qed.


Lemma calm_never_stuck_rev pl cfg sp orc h w0 :
  calm pl -> Inv6 cfg sp (w_core w0) -> is_op7 h = true ->
  stuck (w_st (snd (run_hop pl cfg sp orc h w0))) cfg (s_save sp) = false.
Proof.
  intros HC I Hop. apply (never_stuck_calm_rev cfg sp (w_core w0)).
  - intros i [[[j k] x] m] Hi Hb. destruct (inv_bundle_good _ _ _ _ _ _ _ _ _ I Hb) as (_ & _ & Hp & _).
    cbn. apply N.eqb_eq, Hp.
  - apply faulted_effect_rev_calm; assumption.
Qed.

Lemma typed_break_lock w : typed (k_st (w_core w)) -> typed (k_st (w_core (break_lock w))).
Proof. intros H. exact H. Qed.

(** helpers to establish the hypotheses on concrete storages *)
Definition keys_of (st : storage) : list keyid :=
  flat_map (fun e => match e with ((_, _, FKey), VKey k) => [k] | _ => [] end) st.
Lemma sget_in st k v : sget st k = Some v -> In (k, v) st.
Proof.
  induction st as [|[k' v'] r IH]; cbn; [discriminate|].
  destruct (fkey_eqb k' k) eqn:E; [apply fkey_eqb_eq in E; subst; intros [= <-]; left; reflexivity | intros H; right; apply IH, H].
Qed.
Lemma dir_key_in_keys st i d k : dir_key st i d = Some k -> In k (keys_of st).
Proof.
  unfold dir_key. destruct (sget st (i, d, FKey)) as [[k0|?|?]|] eqn:E; try discriminate. intros [= <-].
  apply sget_in in E. unfold keys_of. apply in_flat_map. exists ((i, d, FKey), VKey k0). split; [exact E | left; reflexivity].
Qed.
Lemma all_same_key_of_keys st k0 : (forall k, In k (keys_of st) -> k = k0) -> all_same_key st.
Proof.
  intros H j d j' d' k k' H1 H2. rewrite (H _ (dir_key_in_keys _ _ _ _ H1)), (H _ (dir_key_in_keys _ _ _ _ H2)). reflexivity.
Qed.
