(** C06, last clause: "with several issuers configured the most recently issued stored certificate is
    the one loaded".  The code sorts by NotBefore (loadCertResourceAnyIssuer); issuance order is the
    order of the serial numbers the model hands out ([k_nser]).  The two orders agree in every
    history whose issuers never date a certificate at or before one that is already stored
    ("forward" oracles) - then the loaded bundle is the one issued last.  An issuer that backdates
    behind a stored certificate breaks the clause (refuted witness in Props/C06.v). *)
From Coq Require Import List NArith ZArith Bool Lia.
From CM Require Import Bundle.Model Bundle.Proofs.
Import ListNotations.
Open Scope N_scope.

(** every certificate in storage after the step was there before (same place), or satisfies [P] *)
Definition new_crts (c c' : core) (P : cert -> Prop) : Prop :=
  forall i d x, dir_crt (k_st c') i d = Some x -> dir_crt (k_st c) i d = Some x \/ P x.
Lemma nc_refl c P : new_crts c c P.
Proof. intros i d x H; left; exact H. Qed.
Lemma nc_st_eq c0 c c' P : k_st c = k_st c0 -> new_crts c c' P -> new_crts c0 c' P.
Proof. intros E H i d x Hx. rewrite <- E. apply H, Hx. Qed.
Lemma nc_crt_eq c0 c c' P :
  (forall i d, dir_crt (k_st c) i d = dir_crt (k_st c0) i d) -> new_crts c c' P -> new_crts c0 c' P.
Proof. intros E H i d x Hx. rewrite <- E. apply H, Hx. Qed.
Lemma nc_then_load c rc cfg d P : new_crts c (snd rc) P -> new_crts c (snd (then_load rc cfg d)) P.
Proof. unfold then_load. destruct rc as [[u|e|] c1]; auto. Qed.

(** what an issuance in this step looks like: the next serial, dated by one of the oracle's answers *)
Definition issued_now (orc : oracle) (ser : N) (x : cert) : Prop :=
  c_ser x = ser /\ exists i v, nth i (o_out orc) None = Some (c_nb x, v).

Lemma first_up_nth orc is i o : first_up orc is = Some (i, o) -> nth i (o_out orc) None = Some o.
Proof. intros H. apply first_up_in in H. apply H. Qed.

Lemma nc_issue_save sp orc order k c :
  new_crts c (snd (issue_save sp orc order k c)) (issued_now orc (k_nser c)).
Proof.
  unfold issue_save. destruct (first_up orc order) as [[i [nb v]]|] eqn:EF; cbn [snd]; [|apply nc_refl].
  intros i' d' x. cbn [k_st set_st bump_ser]. rewrite dir_crt_put_bundle.
  destruct (same_dir i (s_save sp) i' d'); [|left; assumption].
  intros [= <-]. right. split; [reflexivity|]. exists i, v. cbn. apply (first_up_nth _ _ _ _ EF).
Qed.
Lemma nc_obtain cfg sp orc c : new_crts c (snd (obtain_pure cfg sp orc c)) (issued_now orc (k_nser c)).
Proof.
  unfold obtain_pure. destruct (any_complete _ _ _); [apply nc_refl|].
  destruct (if reuse cfg then _ else _) as [[j k]|].
  - apply nc_issue_save.
  - apply (nc_st_eq c (bump_key c)); [reflexivity|]. apply (nc_issue_save sp orc _ _ (bump_key c)).
Qed.
Lemma nc_renew cfg sp orc f c : new_crts c (snd (renew_pure cfg sp orc f c)) (issued_now orc (k_nser c)).
Proof.
  unfold renew_pure. destruct (newest_bundle _ _ _) as [[[[i0 k0] c0] m0]|]; [|apply nc_refl].
  destruct (_ && _); [apply nc_refl|]. destruct (reuse cfg).
  - apply nc_issue_save.
  - apply (nc_st_eq c (bump_key c)); [reflexivity|]. apply (nc_issue_save sp orc _ _ (bump_key c)).
Qed.
Lemma k_nser_move_comp i d c : k_nser (move_comp_pure i d c) = k_nser c.
Proof. unfold move_comp_pure. destruct (sget (k_st c) (i, d, FKey)); reflexivity. Qed.
Lemma nc_del_assets c i d P : new_crts c (set_st c (del_assets (k_st c) i d)) P.
Proof.
  intros i' d' x. cbn [k_st set_st]. unfold dir_crt. rewrite sget_del_assets_dir.
  destruct (same_dir i d i' d'); [discriminate | left; assumption].
Qed.
Lemma nc_revoke_api is sp c P : new_crts c (snd (revoke_api_pure is sp c)) P.
Proof.
  revert c. induction is as [|i r IH]; intros c; cbn [revoke_api_pure]; [apply nc_refl|].
  destruct (bundle_at _ _ _); [|apply nc_refl]. destruct (negb _); [apply nc_refl|].
  intros i' d' x H. destruct (IH _ i' d' x H) as [H'|H']; [|right; exact H'].
  destruct (nc_del_assets c i (s_pre sp) (fun _ => False) i' d' x H') as [H''|[]]. left; exact H''.
Qed.

Lemma nc_run_hop cfg sp orc h c :
  new_crts c (snd (run_hop_pure cfg sp orc h c)) (issued_now orc (k_nser c)).
Proof.
  destruct h as [|f| |i kc|]; cbn [run_hop_pure snd].
  - apply nc_obtain.
  - apply nc_renew.
  - unfold manage_pure. destruct (managed_of c cfg (s_load sp)) as [mc|e|]; [| |apply nc_refl].
    + destruct (_ && _).
      * unfold force_renew_pure. apply nc_then_load. destruct (m_rev mc) as [[|]|].
        -- apply (nc_crt_eq c (move_comp_pure (m_i mc) (s_save sp) c)); [apply dir_crt_move_comp|].
           rewrite <- (k_nser_move_comp (m_i mc) (s_save sp) c). apply nc_obtain.
        -- apply nc_renew.
        -- apply nc_renew.
      * destruct (is_due _); [apply nc_then_load, nc_renew | apply nc_refl].
    + destruct e; try apply nc_refl. apply nc_then_load, nc_obtain.
  - unfold revoke_env_pure. destruct (sget _ _) as [[k|x|m]|]; intros i' d' x' H; left; exact H.
  - apply nc_revoke_api.
Qed.

(** ** forward histories *)
(** the issuers' answers of this step are dated after every stored certificate *)
Definition forward (orc : oracle) (st : storage) : Prop :=
  forall i nb v, nth i (o_out orc) None = Some (nb, v) ->
  forall j d y, dir_crt st j d = Some y -> (c_nb y < nb)%Z.
Inductive reach6f (cfg : config) (sp : subject) : core -> Prop :=
| reach6f_empty : reach6f cfg sp empty_core
| reach6f_step c orc h r c' :
    reach6f cfg sp c -> forward orc (k_st c) -> evals (run_hop no_faults cfg sp orc h) c r c' -> reach6f cfg sp c'.
Lemma reach6f_reach6 cfg sp c : reach6f cfg sp c -> reach6 cfg sp c.
Proof. induction 1; [apply reach6_empty | eapply reach6_step; eauto]. Qed.

(** issuance order and NotBefore order agree on the stored certificates *)
Definition ser_nb_mono (st : storage) : Prop :=
  forall i d x i' d' x', dir_crt st i d = Some x -> dir_crt st i' d' = Some x' ->
                         c_ser x < c_ser x' -> (c_nb x < c_nb x')%Z.
Lemma reach6f_mono cfg sp c : reach6f cfg sp c -> ser_nb_mono (k_st c).
Proof.
  induction 1 as [|c orc h r c' HR IH HF HE].
  - intros i d x i' d' x' H. discriminate H.
  - pose proof (reach6_inv _ _ _ (reach6f_reach6 _ _ _ HR)) as I.
    destruct (evals_det _ _ _ _ _ _ HE (evals_run_hop cfg sp orc h c (i_typed _ _ _ I) (i_unlocked _ _ _ I))) as [_ ->].
    pose proof (nc_run_hop cfg sp orc h c) as NC.
    intros i d x i' d' x' Hx Hx' Hlt.
    destruct (NC _ _ _ Hx) as [Ho|(Hs & j & v & Hn)]; destruct (NC _ _ _ Hx') as [Ho'|(Hs' & j' & v' & Hn')].
    + apply (IH _ _ _ _ _ _ Ho Ho' Hlt).
    + apply (HF _ _ _ Hn' _ _ _ Ho).
    + exfalso. destruct (i_crt _ _ _ I _ _ _ Ho') as (_ & _ & Hb & _). lia.
    + exfalso. lia.
Qed.

(** most_recently_issued_loaded: in a forward history the bundle a load picks carries the highest
    serial among the issuers' complete bundles: it is the certificate that was issued last *)
Theorem most_recently_issued_loaded cfg sp c d i k x m c' :
  reach6f cfg sp c -> evals (load_any no_faults cfg d) c (Ok (i, k, x, m)) c' ->
  bundle_at (k_st c) i d = Some (i, k, x, m) /\
  forall j b', (j < n_iss cfg)%nat -> bundle_at (k_st c) j d = Some b' -> c_ser (b_cert b') <= c_ser x.
Proof.
  intros HR HE. pose proof (reach6_inv _ _ _ (reach6f_reach6 _ _ _ HR)) as I.
  destruct (m_newest_of_issuers_loaded cfg d c i k x m c' (i_typed _ _ _ I) HE) as (_ & Hb & Hmax).
  split; [exact Hb|]. intros j [[[j0 k'] x'] m'] Hj Hb'. cbn.
  destruct (Hmax j _ Hj Hb') as [Hle _]. cbn in Hle.
  destruct (N.le_gt_cases (c_ser x') (c_ser x)) as [H|H]; [exact H|]. exfalso.
  apply bundle_at_inv in Hb. apply bundle_at_inv in Hb'.
  destruct Hb as (_ & _ & HC & _). destruct Hb' as (_ & _ & HC' & _).
  generalize (reach6f_mono _ _ _ HR _ _ _ _ _ _ HC HC' H). lia.
Qed.

(** * the monitor's recency clause ([Check.spec_recent]) on the model's own observation *)
From CM Require Import Bundle.Check.
Theorem monitor_sound_recent cfg sp orc h w :
  reach6f cfg sp (w_core w) -> forward orc (k_st (w_core w)) -> s_load sp = s_save sp ->
  spec_recent cfg sp h (fst (model_step no_faults cfg sp w h orc)) = true.
Proof.
  intros HR HF HL. pose proof (reach6_inv _ _ _ (reach6f_reach6 _ _ _ HR)) as I.
  pose proof (evals_run_hop cfg sp orc h (w_core w) (i_typed _ _ _ I) (i_unlocked _ _ _ I)) as EV.
  assert (HR' : reach6f cfg sp (snd (run_hop_pure cfg sp orc h (w_core w)))) by (eapply reach6f_step; eauto).
  destruct (EV (clear_log w) eq_refl) as [E1 E2].
  unfold model_step. destruct (run_hop no_faults cfg sp orc h (clear_log w)) as [r w'] eqn:ER.
  cbn [fst snd] in *. unfold spec_recent. cbn [ob_res ob_probe ob_st snd].
  rewrite <- E2 in HR'. pose proof (reach6_inv _ _ _ (reach6f_reach6 _ _ _ HR')) as I'.
  destruct ((res_code r =? 0)%Z && is_op h); [|reflexivity]. cbn [negb orb].
  unfold probe.
  destruct (evals_load_managed (w_core w') cfg (s_load sp) (i_typed _ _ _ I') (clear_log w') eq_refl) as [P1 _].
  destruct (load_managed no_faults cfg (s_load sp) (clear_log w')) as [rp wp]. cbn [fst] in P1. subst rp.
  unfold managed_of. destruct (newest_bundle (k_st (w_core w')) cfg (s_load sp)) as [[[[i k] x] m]|] eqn:EN; [|reflexivity].
  destruct (N.eqb (c_pub x) k); [|reflexivity]. cbn [snd seen_of m_c].
  pose proof (evals_load_any (w_core w') cfg (s_load sp) (i_typed _ _ _ I')) as EL. rewrite EN in EL.
  destruct (most_recently_issued_loaded cfg sp (w_core w') (s_load sp) i k x m (w_core w') HR' EL) as [_ Hmax].
  apply forallb_forall. intros j Hj. unfold w_st. rewrite <- HL.
  destruct (bundle_at (k_st (w_core w')) j (s_load sp)) as [b|] eqn:EB; [|reflexivity].
  apply N.leb_le. apply (Hmax j b); [apply in_seq in Hj; cbn in Hj; lia | exact EB].
Qed.
