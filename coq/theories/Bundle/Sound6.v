(** Soundness of C06's monitor w.r.t. the theorems: the state clauses of the check
    ([Check.spec_state]: complete matching bundle, reload = newest bundle, cached certificate names the
    identifier, compromised key not served again), evaluated on the MODEL's own observation of a step from
    a reachable state, are true under the hypotheses of the corresponding theorems - so a clause failing
    on the implementation's observation means the implementation left the proved behaviour.
    (The log clauses [Check.spec_log] speak about issuer calls and key generations; the program logic
    used for the proofs abstracts from the log, they are covered by the correspondence only.) *)
From Coq Require Import List NArith ZArith Bool Lia.
From CM Require Import Bundle.Model Bundle.Proofs Bundle.Check.
Import ListNotations.
Open Scope N_scope.

Lemma nlist_eqb_refl6 a : nlist_eqb a a = true.
Proof. unfold nlist_eqb. destruct (list_eq_dec N.eq_dec a a); [reflexivity | contradiction]. Qed.
Lemma seen_eqb_refl a : seen_eqb a a = true.
Proof. destruct a as [[s k] n]. cbn. rewrite !N.eqb_refl, nlist_eqb_refl6. reflexivity. Qed.
Lemma rev_of_revoked_state env i k x m : revoked_state env (i, k, x, m) = rev_of env x.
Proof. unfold revoked_state, rev_of. cbn. destruct (is_expired x); destruct (assoc_ser env (c_ser x)); reflexivity. Qed.
Lemma res_code_ok {A} (r : res A) : (res_code r =? 0)%Z = true -> exists a, r = Ok a.
Proof. destruct r as [a|e|]; cbn; [eauto | destruct e; discriminate | discriminate]. Qed.

Theorem monitor_sound_state cfg sp orc h w :
  reach6 cfg sp (w_core w) -> oracle_ok cfg orc -> s_load sp = s_save sp ->
  (n_iss cfg = 1%nat \/ reuse cfg = false) ->
  spec_state cfg sp (k_ocsp (w_core w)) (w_st w) h (fst (model_step no_faults cfg sp w h orc)) = true.
Proof.
  intros HR HOr HL H1. pose proof (reach6_inv _ _ _ HR) as I.
  pose proof (evals_run_hop cfg sp orc h (w_core w) (i_typed _ _ _ I) (i_unlocked _ _ _ I)) as EV.
  destruct (EV (clear_log w) eq_refl) as [E1 E2].
  unfold model_step. destruct (run_hop no_faults cfg sp orc h (clear_log w)) as [r w'] eqn:ER.
  cbn [fst snd] in *. unfold spec_state, spec_success. cbn [ob_res ob_st ob_cached ob_probe fst snd].
  set (c := w_core w) in *. set (c' := w_core w') in *.
  assert (Hst : w_st w' = k_st c') by reflexivity. rewrite Hst.
  (* facts available when the step reports success *)
  assert (OK : (res_code r =? 0)%Z = true -> exists r0, r = Ok r0 /\ evals (run_hop no_faults cfg sp orc h) c (Ok r0) c').
  { intros H0. destruct (res_code_ok _ H0) as [r0 ->]. exists r0. split; [reflexivity|].
    rewrite E1. replace c' with (snd (run_hop_pure cfg sp orc h c)) by (symmetry; exact E2). exact EV. }
  (* the compromised-key clause first: it is not guarded by [is_op] *)
  assert (C6 : match h with
               | HManage =>
                   match newest_bundle (w_st w) cfg (s_load sp) with
                   | Some ((_, k0, _, _) as b0) =>
                       match revoked_state (k_ocsp c) b0 with
                       | Some true => negb (res_code r =? 0)%Z ||
                                      match (match r with Ok (Some mc) => Some (seen_of mc) | _ => None end) with
                                      | Some (_, k, _) => negb (N.eqb k k0) | None => false end
                       | _ => true
                       end
                   | None => true
                   end
               | _ => true
               end = true).
  { destruct h; try reflexivity.
    destruct (newest_bundle (w_st w) cfg (s_load sp)) as [[[[i0 k0] x0] m0]|] eqn:EN; [|reflexivity].
    rewrite rev_of_revoked_state. destruct (rev_of (k_ocsp c) x0) as [[|]|] eqn:ERv; try reflexivity.
    destruct (res_code r =? 0)%Z eqn:E0; [|reflexivity]. cbn [negb orb].
    destruct (OK eq_refl) as (r0 & -> & HEv).
    (* what manage loaded first *)
    assert (HB : bundle_at (k_st c) i0 (s_load sp) = Some (i0, k0, x0, m0)).
    { destruct (newest_bundle_inv _ _ _ _ _ _ _ EN) as (_ & A & B & C). unfold bundle_at. fold c. unfold w_st in A, B, C. fold c in A, B, C. rewrite A, B, C. reflexivity. }
    destruct (inv_bundle_good _ _ _ _ _ _ _ _ _ I HB) as (_ & _ & Hp & _).
    pose proof (evals_load_managed c cfg (s_load sp) (i_typed _ _ _ I)) as EL.
    unfold managed_of in EL. unfold w_st in EN. fold c in EN. rewrite EN in EL.
    rewrite Hp, N.eqb_refl in EL.
    (* the result of manage *)
    cbn [run_hop] in HEv.
    pose proof (evals_manage cfg sp orc c (i_typed _ _ _ I) (i_unlocked _ _ _ I)) as EM.
    assert (exists mc, r0 = Some mc /\ evals (manage no_faults cfg sp orc) c (Ok mc) c') as (mc & -> & HM).
    { destruct (evals_det _ _ _ _ _ _ HEv (evals_run_hop cfg sp orc HManage c (i_typed _ _ _ I) (i_unlocked _ _ _ I))) as [Er Ec].
      cbn [run_hop_pure fst snd] in Er, Ec.
      destruct (fst (manage_pure cfg sp orc c)) as [mc|e|] eqn:EF; try discriminate.
      injection Er as ->. exists mc. split; [reflexivity|]. rewrite Ec. try rewrite EF in EM. exact EM. }
    cbn [seen_of].
    pose proof (m_compromised_key_never_reused_partial cfg sp c orc _ mc c' HR HOr H1 EL ERv HM) as HNe.
    cbn [m_k] in HNe. apply negb_true_iff, N.eqb_neq. exact HNe. }
  destruct ((res_code r =? 0)%Z && is_op h) eqn:Eok.
  2:{ cbn [negb orb andb]. exact C6. }
  apply andb_true_iff in Eok. destruct Eok as [E0 Eop]. cbn [negb orb].
  destruct (OK E0) as (r0 & -> & HEv).
  (* clause 1 *)
  destruct (m_success_bundle_complete cfg sp c orc h r0 c' HR HOr Eop HEv) as (i & k & x & Hi & Hb & Hp & Hs).
  assert (C1 : existsb (fun i => match bundle_at (k_st c') i (s_save sp) with Some b => good_bundle sp b | None => false end) (issuers cfg) = true).
  { apply existsb_exists. exists i. split; [exact Hi|]. rewrite Hb. cbn [good_bundle].
    rewrite Hp, Hs, !N.eqb_refl, nlist_eqb_refl6. reflexivity. }
  rewrite C1. cbn [andb].
  (* clause 3 *)
  destruct (m_reload_after_success cfg sp c orc h r0 c' HR HOr Eop HEv HL) as (mc & HLd & HNw & Hpm & Hsm).
  rewrite HNw. cbn [matching]. rewrite Hpm, N.eqb_refl. cbn [andb].
  unfold probe. destruct (HLd (clear_log w') eq_refl) as [P1 _].
  destruct (load_managed no_faults cfg (s_load sp) (clear_log w')) as [rp wp]. cbn [fst] in P1. subst rp.
  cbn [fst snd Z.eqb andb oseen_eqb seen_of seen_of_bundle]. rewrite seen_eqb_refl. cbn [andb].
  (* clause 4, then clause 6 *)
  rewrite C6, andb_true_r.
  destruct h; try reflexivity.
  cbn [run_hop] in HEv.
  destruct (evals_det _ _ _ _ _ _ HEv (evals_run_hop cfg sp orc HManage c (i_typed _ _ _ I) (i_unlocked _ _ _ I))) as [Er Ec].
  cbn [run_hop_pure fst snd] in Er, Ec.
  destruct (fst (manage_pure cfg sp orc c)) as [mc1|e|] eqn:EF; try discriminate.
  injection Er as ->. cbn [seen_of seen_of_bundle].
  pose proof (evals_manage cfg sp orc c (i_typed _ _ _ I) (i_unlocked _ _ _ I)) as EM. try rewrite EF in EM. rewrite <- Ec in EM.
  destruct (m_cached_covers_requested cfg sp c orc mc1 c' HR EM) as (Hs1 & Hp1 & _ & HN1).
  rewrite HNw in HN1. injection HN1 as Ei Ek Ex.
  rewrite Ek, Ex, seen_eqb_refl. cbn [snd andb]. unfold seen_of. cbn [snd]. rewrite Hs1. apply nlist_eqb_refl6.
Qed.
