(** Bundle — the data view of obtain / renew / manage (C06) and the same programs under
    crash / storage-fault plans (C07).

    Go code abstracted (read from /repo, modelled as it is):
      config.go   manageOne, obtainCert, renewCert, reusePrivateKey, storageHasCertResources(AnyIssuer),
                  checkStorage, RevokeCert, deleteSiteAssets
      crypto.go   saveCertResource (Store .key, .crt, .json in this order through storeTx),
                  loadCertResource (Load .key, .crt, .json), loadCertResourceAnyIssuer (newest NotBefore
                  among the issuers whose three Loads succeed; stable insertion sort => first issuer on ties)
      storage.go  storeTx (roll back = Delete the keys already written, in reverse order, results ignored)
      certificates.go  loadManagedCertificate / makeCertificate (tls.X509KeyPair: key must match leaf),
                  reloadManagedCertificate
      maintain.go forceRenew, moveCompromisedPrivateKey
      ocsp.go     stapleOCSP: the cached staple file is Loaded first

    Cryptography is abstract: a private key is a number ([keyid], fresh keys are numbered by a
    counter), a certificate records the key it was issued for ([c_pub]); "key matches leaf" is
    [c_pub c = k].  The harness establishes the numbers from real PEM (public-key digests, serial
    numbers), so equality of numbers on the implementation side IS the real cryptographic check.

    Every Storage call is a primitive of a small state/exception monad that counts operations,
    consults a fault plan (which operation indices fail, after which index the process dies) and
    logs the operation; the log is compared with the double's log of the real run. *)
From Coq Require Import List NArith ZArith Bool Lia.
Import ListNotations.
Open Scope N_scope.

(** * Data *)
Definition keyid := N.
Inductive validity := VFresh | VDue | VExpired.   (* not due | in renewal window | expired *)
Record cert := Cert { c_pub : keyid; c_sub : N; c_nb : Z; c_val : validity; c_ser : N }.

Inductive fkind := FKey | FCrt | FMeta | FComp.   (* .key .crt .json .key.compromised *)
Inductive fval := VKey (k : keyid) | VCrt (c : cert) | VMeta (sans : list N).
Definition fkey := (nat * N * fkind)%type.        (* issuer index, site directory id, file *)
Definition storage := list (fkey * fval).

Definition fkind_eqb (a b : fkind) : bool :=
  match a, b with FKey, FKey | FCrt, FCrt | FMeta, FMeta | FComp, FComp => true | _, _ => false end.
Definition fkey_eqb (a b : fkey) : bool :=
  let '(i, d, k) := a in let '(i', d', k') := b in
  Nat.eqb i i' && N.eqb d d' && fkind_eqb k k'.

Fixpoint sget (st : storage) (k : fkey) : option fval :=
  match st with
  | [] => None
  | (k', v) :: r => if fkey_eqb k' k then Some v else sget r k
  end.
Definition sdel (st : storage) (k : fkey) : storage :=
  filter (fun e => negb (fkey_eqb (fst e) k)) st.
Definition sput (st : storage) (k : fkey) (v : fval) : storage := (k, v) :: sdel st k.
Definition sdel_dir (st : storage) (i : nat) (d : N) : storage :=
  sdel (sdel (sdel (sdel st (i, d, FKey)) (i, d, FCrt)) (i, d, FMeta)) (i, d, FComp).

Definition is_due (c : cert) : bool := match c_val c with VFresh => false | _ => true end.
Definition is_expired (c : cert) : bool := match c_val c with VExpired => true | _ => false end.

(** a subject as the code sees it: the directory id the pre-check looks under ([Safe name]),
    the one loads look under ([Safe (idna name)]), the one saves go to ([Safe (names of the CSR)]),
    and the identifier that ends up in the CSR / certificate *)
Record subject := Subject { s_pre : N; s_load : N; s_save : N; s_id : N }.
(** [cert.Names[0]] of a loaded certificate is the canonical spelling: all three agree *)
Definition canon (sp : subject) : subject :=
  {| s_pre := s_save sp; s_load := s_save sp; s_save := s_save sp; s_id := s_id sp |}.

Record config := Config { n_iss : nat; reuse : bool; rnd : bool }.
Definition issuers (cfg : config) : list nat := seq 0 (n_iss cfg).

(** what the issuers will answer during one high-level operation, and (policy
    UseFirstRandomIssuer) the order the shuffle produced *)
Record oracle := Oracle { o_out : list (option (Z * validity)); o_perm : list nat }.

(** * Operations, log, faults *)
Inductive okind := OStore | OLoad | ODelete | OExists | OLock | OUnlock.
Inductive otarget := TFile (k : fkey) | TDir (i : nat) (d : N) | TTest | TOcsp (ser : N) | TLock.
Inductive err := ENotExist | EInjected | EMismatch | EIssuers | EOther.
Inductive logev :=
| LOp (k : okind) (t : otarget) (e : option err)
| LIssue (i : nat) (k : keyid) (ok : bool)
| LGen (k : keyid).

Record plan := Plan { p_fail : nat -> bool; p_crash : option nat }.
Definition no_faults : plan := {| p_fail := fun _ => false; p_crash := None |}.
Definition crash_at (pl : plan) (n : nat) : bool :=
  match p_crash pl with Some c => Nat.eqb c n | None => false end.

(** the part of the world the programs can read and write ([core]), and the bookkeeping of the
    fault machinery (operation counter, log) that they cannot *)
Record core := Core {
  k_st : storage;
  k_ocsp : list (N * bool);       (* revoked certificates: serial, reason = keyCompromise? *)
  k_locked : bool;
  k_nkey : N;                     (* next fresh key *)
  k_nser : N                      (* next certificate serial *)
}.
Record world := World {
  w_core : core;
  w_cnt : nat;                    (* storage operations so far *)
  w_log : list logev              (* newest first *)
}.
Definition w_st (w : world) : storage := k_st (w_core w).
Definition empty_core : core := Core [] [] false 0 0.
Definition empty_world : world := World empty_core 0 [].

Definition set_st (c : core) (st : storage) : core :=
  Core st (k_ocsp c) (k_locked c) (k_nkey c) (k_nser c).
Definition set_locked (c : core) (b : bool) : core :=
  Core (k_st c) (k_ocsp c) b (k_nkey c) (k_nser c).

Inductive res (A : Type) := Ok (a : A) | Fail (e : err) | Dead.
Arguments Ok {A} a. Arguments Fail {A} e. Arguments Dead {A}.
Definition res_err {A} (r : res A) : option err := match r with Fail e => Some e | _ => None end.

Definition M (A : Type) := world -> res A * world.
Definition ret {A} (a : A) : M A := fun w => (Ok a, w).
Definition fail {A} (e : err) : M A := fun w => (Fail e, w).
Definition bind {A B} (m : M A) (f : A -> M B) : M B :=
  fun w => match m w with
           | (Ok a, w') => f a w'
           | (Fail e, w') => (Fail e, w')
           | (Dead, w') => (Dead, w')
           end.
(** errors can be handled, death cannot *)
Definition catch {A} (m : M A) : M (A + err) :=
  fun w => match m w with
           | (Ok a, w') => (Ok (inl a), w')
           | (Fail e, w') => (Ok (inr e), w')
           | (Dead, w') => (Dead, w')
           end.
Notation "x <- m ;; f" := (bind m (fun x => f)) (at level 61, m at next level, right associativity).
Notation "m ;;; f" := (bind m (fun _ => f)) (at level 61, right associativity).

(** something that is not a Storage call (key generation, an issuer's answer): acts on the core
    and leaves a log entry *)
Definition local {A} (f : core -> res A * core * logev) : M A :=
  fun w => let '(r, c, e) := f (w_core w) in (r, World c (w_cnt w) (e :: w_log w)).

Fixpoint assoc_ser (l : list (N * bool)) (s : N) : option bool :=
  match l with [] => None | (s', b) :: r => if N.eqb s' s then Some b else assoc_ser r s end.

Section WithPlan.
  Variable pl : plan.

  (** one Storage call: index [w_cnt]; if the plan fails it, it has no effect and yields
      [on_fail]; otherwise [eff]; it is logged with its outcome; if the plan says the process
      dies after this index, the result is [Dead] (the effect has taken place) *)
  Definition prim {A} (k : okind) (t : otarget) (on_fail : res A) (eff : core -> res A * core) : M A :=
    fun w =>
      let n := w_cnt w in
      let '(r, c2) := if p_fail pl n then (on_fail, w_core w) else eff (w_core w) in
      let w3 := World c2 (S n) (LOp k t (if p_fail pl n then Some EInjected else res_err r) :: w_log w) in
      if crash_at pl n then (Dead, w3) else (r, w3).

  Definition store (k : fkey) (v : fval) : M unit :=
    prim OStore (TFile k) (Fail EInjected) (fun c => (Ok tt, set_st c (sput (k_st c) k v))).
  Definition load (k : fkey) : M fval :=
    prim OLoad (TFile k) (Fail EInjected)
         (fun c => match sget (k_st c) k with Some v => (Ok v, c) | None => (Fail ENotExist, c) end).
  Definition delete (k : fkey) : M unit :=
    prim ODelete (TFile k) (Fail EInjected) (fun c => (Ok tt, set_st c (sdel (k_st c) k))).
  Definition delete_dir (i : nat) (d : N) : M unit :=
    prim ODelete (TDir i d) (Fail EInjected) (fun c => (Ok tt, set_st c (sdel_dir (k_st c) i d))).
  (** Storage.Exists has no error result: a failing back-end answers false *)
  Definition exists_ (k : fkey) : M bool :=
    prim OExists (TFile k) (Ok false)
         (fun c => (Ok (match sget (k_st c) k with Some _ => true | None => false end), c)).
  (** checkStorage's scratch key (rw_test_<random>): not part of the state *)
  Definition store_test : M unit := prim OStore TTest (Fail EInjected) (fun c => (Ok tt, c)).
  Definition load_test : M unit := prim OLoad TTest (Fail EInjected) (fun c => (Ok tt, c)).
  Definition delete_test : M unit := prim ODelete TTest (Fail EInjected) (fun c => (Ok tt, c)).
  Definition lock : M unit :=
    prim OLock TLock (Fail EInjected)
         (fun c => if k_locked c then (Fail EOther, c) else (Ok tt, set_locked c true)).
  Definition unlock : M unit :=
    prim OUnlock TLock (Fail EInjected) (fun c => (Ok tt, set_locked c false)).
  Definition load_ocsp (ser : N) : M bool :=
    prim OLoad (TOcsp ser) (Fail EInjected)
         (fun c => match assoc_ser (k_ocsp c) ser with Some b => (Ok b, c) | None => (Fail ENotExist, c) end).

  Definition gen_key : M keyid :=
    local (fun c => (Ok (k_nkey c), Core (k_st c) (k_ocsp c) (k_locked c) (k_nkey c + 1) (k_nser c), LGen (k_nkey c))).
  (** Issuer.Issue for a CSR with key [k] and identifier [id]: the issuer certifies the CSR's key *)
  Definition issue (orc : oracle) (i : nat) (k : keyid) (id : N) : M cert :=
    local (fun c => match nth i (o_out orc) None with
                    | Some (nb, v) =>
                        (Ok (Cert k id nb v (k_nser c)),
                         Core (k_st c) (k_ocsp c) (k_locked c) (k_nkey c) (k_nser c + 1), LIssue i k true)
                    | None => (Fail EIssuers, c, LIssue i k false)
                    end).

  (** ** storageHasCertResources / AnyIssuer: Exists .crt && .key && .json, issuers in order *)
  Definition has_res (i : nat) (d : N) : M bool :=
    c <- exists_ (i, d, FCrt) ;;
    if negb c then ret false else
    k <- exists_ (i, d, FKey) ;;
    if negb k then ret false else exists_ (i, d, FMeta).
  Fixpoint has_any (is : list nat) (d : N) : M bool :=
    match is with
    | [] => ret false
    | i :: r => b <- has_res i d ;; if b then ret true else has_any r d
    end.

  (** ** loadCertResource / loadCertResourceAnyIssuer *)
  Definition bundle := (nat * keyid * cert * list N)%type.   (* issuer, key, certificate, SANs *)
  Definition b_cert (b : bundle) : cert := snd (fst b).
  Definition load_res (i : nat) (d : N) : M bundle :=
    kv <- load (i, d, FKey) ;;
    cv <- load (i, d, FCrt) ;;
    mv <- load (i, d, FMeta) ;;
    match kv, cv, mv with
    | VKey k, VCrt c, VMeta m => ret (i, k, c, m)
    | _, _, _ => fail EOther
    end.
  Fixpoint load_all (is : list nat) (d : N) : M (list bundle) :=
    match is with
    | [] => ret []
    | i :: r =>
        x <- catch (load_res i d) ;;
        match x with
        | inl b => bs <- load_all r d ;; ret (b :: bs)
        | inr ENotExist => load_all r d
        | inr e => fail e
        end
    end.
  (** first element of the stable descending sort by NotBefore *)
  Fixpoint newest (bs : list bundle) : option bundle :=
    match bs with
    | [] => None
    | b :: r => match newest r with
                | Some b' => if (c_nb (b_cert b) <? c_nb (b_cert b'))%Z then Some b' else Some b
                | None => Some b
                end
    end.
  Definition load_any (cfg : config) (d : N) : M bundle :=
    bs <- load_all (issuers cfg) d ;;
    match newest bs with Some b => ret b | None => fail ENotExist end.

  (** ** loadManagedCertificate: X509KeyPair, then the cached OCSP staple *)
  Record mcert := MCert { m_c : cert; m_k : keyid; m_i : nat; m_rev : option bool }.
  Definition load_managed (cfg : config) (d : N) : M mcert :=
    b <- load_any cfg d ;;
    let '(i, k, c, _) := b in
    if negb (N.eqb (c_pub c) k) then fail EMismatch else
    o <- catch (load_ocsp (c_ser c)) ;;
    ret (MCert c k i (match o with
                      | inl kc => if is_expired c then None else Some kc   (* staple outliving the cert is rejected *)
                      | inr _ => None end)).

  (** ** checkStorage, lock *)
  (** the deferred Delete's error is assigned to a local variable after the result has been
      computed (the result is unnamed), so it is never returned *)
  Definition check_storage : M unit :=
    store_test ;;;
    x <- catch load_test ;;
    _ <- catch delete_test ;;
    match x with
    | inr e => fail e
    | inl _ => ret tt
    end.
  Definition with_lock {A} (body : M A) : M A :=
    lock ;;;
    x <- catch body ;;
    _ <- catch unlock ;;      (* deferred releaseLock: its error is only logged *)
    match x with inl a => ret a | inr e => fail e end.

  (** ** saveCertResource = storeTx [.key; .crt; .json] *)
  Definition save (i : nat) (d : N) (k : keyid) (c : cert) (m : list N) : M unit :=
    x <- catch (store (i, d, FKey) (VKey k)) ;;
    match x with
    | inr e => fail e
    | inl _ =>
        x <- catch (store (i, d, FCrt) (VCrt c)) ;;
        match x with
        | inr e => _ <- catch (delete (i, d, FKey)) ;; fail e
        | inl _ =>
            x <- catch (store (i, d, FMeta) (VMeta m)) ;;
            match x with
            | inr e => _ <- catch (delete (i, d, FCrt)) ;; _ <- catch (delete (i, d, FKey)) ;; fail e
            | inl _ => ret tt
            end
        end
    end.

  Fixpoint try_issuers (orc : oracle) (is : list nat) (k : keyid) (id : N) : M (nat * cert) :=
    match is with
    | [] => fail EIssuers
    | i :: r =>
        x <- catch (issue orc i k id) ;;
        match x with inl c => ret (i, c) | inr _ => try_issuers orc r k id end
    end.

  (** ** reusePrivateKey: first issuer directory (under the raw name) that has a key *)
  Fixpoint reuse_key (is : list nat) (d : N) : M (option (nat * keyid)) :=
    match is with
    | [] => ret None
    | i :: r =>
        x <- catch (load (i, d, FKey)) ;;
        match x with
        | inl (VKey k) => ret (Some (i, k))
        | inl _ => fail EOther
        | inr ENotExist => reuse_key r d
        | inr e => fail e
        end
    end.
  Definition move_front (i : nat) (is : list nat) : list nat :=
    i :: filter (fun j => negb (Nat.eqb j i)) is.

  (** ** obtainCert (one attempt) *)
  Definition obtain_body (cfg : config) (sp : subject) (orc : oracle) : M unit :=
    re <- has_any (issuers cfg) (s_pre sp) ;;
    if re then ret tt else
    kr <- (if reuse cfg then reuse_key (issuers cfg) (s_pre sp) else ret None) ;;
    let order := match kr with Some (i, _) => move_front i (issuers cfg) | None => issuers cfg end in
    let order := if rnd cfg then o_perm orc else order in
    k <- match kr with Some (_, k) => ret k | None => gen_key end ;;
    ic <- try_issuers orc order k (s_id sp) ;;
    save (fst ic) (s_save sp) k (snd ic) [s_id sp].
  Definition obtain (cfg : config) (sp : subject) (orc : oracle) : M unit :=
    pre <- has_any (issuers cfg) (s_pre sp) ;;
    if pre then ret tt else
    check_storage ;;;
    with_lock (obtain_body cfg sp orc).

  (** ** renewCert (one attempt) *)
  Definition renew_body (cfg : config) (sp : subject) (orc : oracle) (force : bool) : M unit :=
    b <- load_any cfg (s_load sp) ;;
    let '(_, k0, c0, _) := b in
    if negb (is_due c0) && negb force then ret tt else
    k <- (if reuse cfg then ret k0 else gen_key) ;;
    ic <- try_issuers orc (issuers cfg) k (s_id sp) ;;
    save (fst ic) (s_save sp) k (snd ic) [s_id sp].
  Definition renew (cfg : config) (sp : subject) (orc : oracle) (force : bool) : M unit :=
    check_storage ;;;
    with_lock (renew_body cfg sp orc force).

  (** ** the retrying entry points (ObtainCertAsync / RenewCertAsync; also what ManageAsync, on-demand
      issuance and forceRenew call): pre-check, checkStorage and the lock are taken once, then
      doWithRetry re-runs the per-attempt closure - which is exactly [obtain_body] / [renew_body], a new key
      per attempt included - until it succeeds or fails with a non-retryable error. The issuers'
      answers differ per attempt ([o] for the first, [more] for the following ones); the failure of
      the last listed attempt is final (the issuer doubles make it non-retryable). *)
  Fixpoint retry {A} (body : oracle -> M A) (o : oracle) (more : list oracle) : M A :=
    match more with
    | [] => body o
    | o' :: r => x <- catch (body o) ;; match x with inl a => ret a | inr _ => retry body o' r end
    end.
  Definition obtain_async (cfg : config) (sp : subject) (o : oracle) (more : list oracle) : M unit :=
    pre <- has_any (issuers cfg) (s_pre sp) ;;
    if pre then ret tt else
    check_storage ;;;
    with_lock (retry (obtain_body cfg sp) o more).
  Definition renew_async (cfg : config) (sp : subject) (o : oracle) (more : list oracle) (force : bool) : M unit :=
    check_storage ;;;
    with_lock (retry (fun x => renew_body cfg sp x force) o more).

  (** ... with a context that is (or gets) cancelled: doWithRetry's select between the back-off timer and
      ctx.Done() is a race when both are ready, so the number of attempts that actually ran ([nrun]) is
      part of the observation; when the cancellation wins, the call returns context.Canceled - never
      success (error class [EOther]). The Storage back-ends of the experiments ignore the cancelled
      context (FileStorage; the double in its default mode), as do the issuer doubles. *)
  Fixpoint retry_c {A} (body : oracle -> M A) (o : oracle) (more : list oracle) (nrun : nat) : M A :=
    match nrun with
    | O => fail EOther
    | S n =>
        x <- catch (body o) ;;
        match x with
        | inl a => ret a
        | inr e => match more with [] => fail e | o' :: r => retry_c body o' r n end
        end
    end.
  Definition obtain_async_c (cfg : config) (sp : subject) (o : oracle) (more : list oracle) (nrun : nat) : M unit :=
    pre <- has_any (issuers cfg) (s_pre sp) ;;
    if pre then ret tt else
    check_storage ;;;
    with_lock (retry_c (obtain_body cfg sp) o more nrun).
  Definition renew_async_c (cfg : config) (sp : subject) (o : oracle) (more : list oracle) (force : bool) (nrun : nat) : M unit :=
    check_storage ;;;
    with_lock (retry_c (fun x => renew_body cfg sp x force) o more nrun).

  (** ** forceRenew / moveCompromisedPrivateKey *)
  Definition move_compromised (i : nat) (d : N) : M unit :=
    v <- load (i, d, FKey) ;;
    x <- catch (store (i, d, FComp) v) ;;
    match x with
    | inr e => _ <- catch (delete (i, d, FKey)) ;; fail e
    | inl _ => delete (i, d, FKey)
    end.
  Definition force_renew (cfg : config) (sp : subject) (orc : oracle) (mc : mcert) : M mcert :=
    let csp := canon sp in
    (match m_rev mc with
     | Some true => _ <- catch (move_compromised (m_i mc) (s_save sp)) ;; obtain cfg csp orc
     | _ => renew cfg csp orc true
     end) ;;;
    load_managed cfg (s_save sp).

  (** ** manageOne on a fresh cache; the result is the certificate that ends up cached *)
  Definition manage (cfg : config) (sp : subject) (orc : oracle) : M mcert :=
    x <- catch (load_managed cfg (s_load sp)) ;;
    match x with
    | inr ENotExist => obtain cfg sp orc ;;; load_managed cfg (s_load sp)
    | inr e => fail e
    | inl mc =>
        if negb (is_expired (m_c mc)) && (match m_rev mc with Some _ => true | None => false end)
        then force_renew cfg sp orc mc
        else if is_due (m_c mc) then renew cfg sp orc false ;;; load_managed cfg (s_save sp)
        else ret mc
    end.

  (** ** RevokeCert: every issuer must have the bundle; revoke, then delete the site's assets *)
  Fixpoint revoke_api (is : list nat) (sp : subject) : M unit :=
    match is with
    | [] => ret tt
    | i :: r =>
        load_res i (s_load sp) ;;;
        e <- exists_ (i, s_pre sp, FKey) ;;
        if negb e then fail EOther else
        delete (i, s_pre sp, FCrt) ;;; delete (i, s_pre sp, FKey) ;;; delete (i, s_pre sp, FMeta) ;;;
        delete_dir i (s_pre sp) ;;;
        revoke_api r sp
    end.

  (** environment: the CA revokes the certificate currently stored with issuer [i] *)
  Definition revoke_env (sp : subject) (i : nat) (kc : bool) : M unit :=
    fun w => let c := w_core w in
             match sget (k_st c) (i, s_save sp, FCrt) with
             | Some (VCrt x) =>
                 (Ok tt, World (Core (k_st c) ((c_ser x, kc) :: k_ocsp c) (k_locked c) (k_nkey c) (k_nser c)) (w_cnt w) (w_log w))
             | _ => (Ok tt, w)
             end.

  (** high-level operations of a history *)
  Inductive hop := HObtain | HRenew (force : bool) | HManage | HRevokeEnv (i : nat) (kc : bool) | HRevokeApi.
  Definition run_hop (cfg : config) (sp : subject) (orc : oracle) (h : hop) : M (option mcert) :=
    match h with
    | HObtain => obtain cfg sp orc ;;; ret None
    | HRenew f => renew cfg sp orc f ;;; ret None
    | HManage => mc <- manage cfg sp orc ;; ret (Some mc)
    | HRevokeEnv i kc => revoke_env sp i kc ;;; ret None
    | HRevokeApi => revoke_api (issuers cfg) sp ;;; ret None
    end.
End WithPlan.

(** the staleness rule of the Locker after the holder died (or failed to unlock) *)
Definition break_lock (w : world) : world := World (set_locked (w_core w) false) (w_cnt w) (w_log w).
Definition clear_log (w : world) : world := World (w_core w) 0 [].

(** * Pure vocabulary used by specifications and theorems *)
Definition dir_key (st : storage) (i : nat) (d : N) : option keyid :=
  match sget st (i, d, FKey) with Some (VKey k) => Some k | _ => None end.
Definition dir_crt (st : storage) (i : nat) (d : N) : option cert :=
  match sget st (i, d, FCrt) with Some (VCrt c) => Some c | _ => None end.
Definition dir_meta (st : storage) (i : nat) (d : N) : option (list N) :=
  match sget st (i, d, FMeta) with Some (VMeta m) => Some m | _ => None end.
(** the complete bundle of issuer [i] (what loadCertResource returns), if all three files are there *)
Definition bundle_at (st : storage) (i : nat) (d : N) : option bundle :=
  match dir_key st i d, dir_crt st i d, dir_meta st i d with
  | Some k, Some c, Some m => Some (i, k, c, m)
  | _, _, _ => None
  end.
Definition present (st : storage) (k : fkey) : bool :=
  match sget st k with Some _ => true | None => false end.
(** storageHasCertResources *)
Definition complete (st : storage) (i : nat) (d : N) : bool :=
  present st (i, d, FCrt) && present st (i, d, FKey) && present st (i, d, FMeta).
Definition matching (b : bundle) : bool := let '(_, k, c, _) := b in N.eqb (c_pub c) k.
Fixpoint bundles (st : storage) (is : list nat) (d : N) : list bundle :=
  match is with
  | [] => []
  | i :: r => match bundle_at st i d with Some b => b :: bundles st r d | None => bundles st r d end
  end.
(** what loadCertResourceAnyIssuer picks *)
Definition newest_bundle (st : storage) (cfg : config) (d : N) : option bundle :=
  newest (bundles st (issuers cfg) d).
(** the state C07's refuted class ends in: the bundle every load picks has a key that does not
    match its certificate; ManageSync then fails, and obtain is a no-op because the bundle is "complete" *)
Definition stuck (st : storage) (cfg : config) (d : N) : bool :=
  match newest_bundle st cfg d with Some b => negb (matching b) | None => false end.
