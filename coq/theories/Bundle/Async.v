(** The retrying entry points (ObtainCertAsync / RenewCertAsync: [retry], [obtain_async], [renew_async]) and
    their runs under a cancelled context ([retry_c], [obtain_async_c], [renew_async_c]): a reported success
    leaves a complete matching bundle; a cancellation that wins before the first attempt never reports
    success. *)
From Coq Require Import List NArith ZArith Bool Lia.
From CM Require Import Bundle.Model Bundle.Proofs Bundle.Faults Bundle.ErrSucc.
Import ListNotations.
Open Scope N_scope.

Notation nf := no_faults.

(** * without faults a failed attempt leaves the certificate files as they were *)
Lemma save_nf_ok i d k x m w : fst (save nf i d k x m w) = Ok tt.
Proof. reflexivity. Qed.

Lemma tail_fail_keeps orc order k id d m w e :
  fst ((ic <- try_issuers orc order k id ;; save nf (fst ic) d k (snd ic) m) w) = Fail e ->
  w_st (snd ((ic <- try_issuers orc order k id ;; save nf (fst ic) d k (snd ic) m) w)) = w_st w.
Proof.
  rewrite bind_run. generalize (pres_try_issuers orc order k id w).
  destruct (try_issuers orc order k id w) as [[[i x]|e'|] w1]; cbn [fst snd]; intros (E & _).
  - rewrite save_nf_ok. discriminate.
  - intros _. unfold w_st. rewrite E. reflexivity.
  - discriminate.
Qed.

Lemma obtain_body_fail_keeps cfg sp orc w e :
  fst (obtain_body nf cfg sp orc w) = Fail e -> w_st (snd (obtain_body nf cfg sp orc w)) = w_st w.
Proof.
  unfold obtain_body. rewrite bind_run. generalize (ro_has_any nf (issuers cfg) (s_pre sp) w).
  destruct (has_any nf (issuers cfg) (s_pre sp) w) as [[re|e'|] w1]; cbn [fst snd]; intros R1;
    try (intros _; unfold w_st; rewrite R1; reflexivity).
  destruct re; [cbn; discriminate|].
  rewrite bind_run.
  assert (R2 : w_core (snd ((if reuse cfg then reuse_key nf (issuers cfg) (s_pre sp) else ret None) w1)) = w_core w1).
  { destruct (reuse cfg); [apply ro_reuse_key | reflexivity]. }
  destruct ((if reuse cfg then reuse_key nf (issuers cfg) (s_pre sp) else ret None) w1) as [[kr|e'|] w2]; cbn [fst snd] in *;
    try (intros _; unfold w_st; rewrite R2, R1; reflexivity).
  rewrite bind_run. destruct kr as [[i0 k0]|].
  - cbn [ret fst snd]. intros H. rewrite (tail_fail_keeps _ _ _ _ _ _ _ _ H). unfold w_st. rewrite R2, R1. reflexivity.
  - generalize (pres_gen_key w2). destruct (gen_key w2) as [[k|e'|] w3]; cbn [fst snd]; intros (E3 & _);
      try (intros _; unfold w_st; rewrite E3, R2, R1; reflexivity).
    intros H. rewrite (tail_fail_keeps _ _ _ _ _ _ _ _ H). unfold w_st. rewrite E3, R2, R1. reflexivity.
Qed.

Lemma renew_body_fail_keeps cfg sp orc f w e :
  fst (renew_body nf cfg sp orc f w) = Fail e -> w_st (snd (renew_body nf cfg sp orc f w)) = w_st w.
Proof.
  unfold renew_body. rewrite bind_run. generalize (ro_load_any nf cfg (s_load sp) w).
  destruct (load_any nf cfg (s_load sp) w) as [[[[[j0 k0] c0] m0]|e'|] w1]; cbn [fst snd]; intros R1;
    try (intros _; unfold w_st; rewrite R1; reflexivity).
  destruct (negb (is_due c0) && negb f); [cbn; discriminate|].
  rewrite bind_run. destruct (reuse cfg).
  - cbn [ret fst snd]. intros H. rewrite (tail_fail_keeps _ _ _ _ _ _ _ _ H). unfold w_st. rewrite R1. reflexivity.
  - generalize (pres_gen_key w1). destruct (gen_key w1) as [[k|e'|] w3]; cbn [fst snd]; intros (E3 & _);
      try (intros _; unfold w_st; rewrite E3, R1; reflexivity).
    intros H. rewrite (tail_fail_keeps _ _ _ _ _ _ _ _ H). unfold w_st. rewrite E3, R1. reflexivity.
Qed.

(** the cancellation won the race before the first attempt: an error, whatever the plan *)
Lemma retry_c_zero {A} (body : oracle -> M A) o more w : retry_c body o more 0 w = (Fail EOther, w).
Proof. destruct more; reflexivity. Qed.
Lemma retry_c_S {A} (body : oracle -> M A) o more n :
  retry_c body o more (S n) =
  (x <- catch (body o) ;;
   match x with
   | inl a => ret a
   | inr e => match more with [] => fail e | o' :: r => retry_c body o' r n end
   end).
Proof. destruct more; reflexivity. Qed.

(** * the retry loops: a success is the success of one attempt, started from unchanged certificate files *)
Section Retry.
  Context {A : Type} (body : oracle -> M A).
  Hypothesis body_fail_keeps : forall o w e, fst (body o w) = Fail e -> w_st (snd (body o w)) = w_st w.

  Lemma retry_ok more : forall o w a,
    fst (retry body o more w) = Ok a ->
    exists o' w1, In o' (o :: more) /\ w_st w1 = w_st w /\ fst (body o' w1) = Ok a /\
                  w_st (snd (retry body o more w)) = w_st (snd (body o' w1)).
  Proof.
    induction more as [|o1 r IH]; intros o w a; cbn [retry].
    - intros H. exists o, w. repeat split; auto; left; reflexivity.
    - rewrite bind_run. unfold catch.
      generalize (body_fail_keeps o w). destruct (body o w) as [[a'|e|] w1] eqn:EB; cbn [fst snd]; intros HK.
      + cbn. intros [= <-]. exists o, w. rewrite EB. repeat split; auto; left; reflexivity.
      + intros H. destruct (IH o1 w1 a H) as (o' & w2 & Hin & E & HB & EF).
        exists o', w2. split; [right; exact Hin|]. split; [rewrite E; apply (HK e eq_refl)|]. split; assumption.
      + discriminate.
  Qed.

  Lemma retry_c_ok nrun : forall more o w a,
    fst (retry_c body o more nrun w) = Ok a ->
    exists o' w1, In o' (o :: more) /\ w_st w1 = w_st w /\ fst (body o' w1) = Ok a /\
                  w_st (snd (retry_c body o more nrun w)) = w_st (snd (body o' w1)).
  Proof.
    induction nrun as [|n IH]; intros more o w a; [rewrite retry_c_zero; intros H; discriminate H|].
    rewrite retry_c_S, bind_run. unfold catch.
    generalize (body_fail_keeps o w). destruct (body o w) as [[a'|e|] w1] eqn:EB; cbn [fst snd]; intros HK.
    - cbn. intros [= <-]. exists o, w. rewrite EB. repeat split; auto; left; reflexivity.
    - destruct more as [|o1 r]; [intros H; unfold fail in H; cbn [fst] in H; discriminate H|].
      intros H. destruct (IH r o1 w1 a H) as (o' & w2 & Hin & E & HB & EF).
      exists o', w2. split; [right; exact Hin|]. split; [rewrite E; apply (HK e eq_refl)|]. split; assumption.
    - discriminate.
  Qed.
End Retry.


(** * a reported success leaves a complete matching bundle *)
Section Success.
  Variables (cfg : config) (sp : subject) (o : oracle) (more : list oracle).
  Hypothesis HOr : forall o', In o' (o :: more) -> oracle_ok cfg o'.

  (** obtain: pre-check, checkStorage, lock, then any loop whose success is one attempt's success *)
  Lemma obtain_loop_ok (loop : M unit) w :
    typed (w_st w) ->
    (forall w0 a, fst (loop w0) = Ok a ->
       exists o' w1, In o' (o :: more) /\ w_st w1 = w_st w0 /\ fst (obtain_body nf cfg sp o' w1) = Ok a /\
                     w_st (snd (loop w0)) = w_st (snd (obtain_body nf cfg sp o' w1))) ->
    fst ((pre <- has_any nf (issuers cfg) (s_pre sp) ;; if pre then ret tt else check_storage nf ;;; with_lock nf loop) w) = Ok tt ->
    step_ok cfg sp (s_pre sp) (w_st w)
      (w_st (snd ((pre <- has_any nf (issuers cfg) (s_pre sp) ;; if pre then ret tt else check_storage nf ;;; with_lock nf loop) w))).
  Proof.
    intros T HL. rewrite bind_run.
    generalize (has_any_true nf (issuers cfg) (s_pre sp) w), (ro_has_any nf (issuers cfg) (s_pre sp) w).
    destruct (has_any nf (issuers cfg) (s_pre sp) w) as [[pre|e|] w1]; cbn [fst snd]; intros H1 R1; try discriminate.
    assert (E1 : w_st w1 = w_st w) by (unfold w_st; rewrite R1; reflexivity).
    destruct pre.
    - intros _. left. split; [exact E1|]. destruct (H1 eq_refl) as (i & Hi & Hc).
      apply (complete_bundle_at _ _ _ T) in Hc. destruct Hc as [b Hb]. exists i, b. auto.
    - rewrite bind_run. generalize (ro_check_storage nf w1).
      destruct (check_storage nf w1) as [[u|e|] w2]; cbn [fst snd]; intros R2; try discriminate.
      assert (E2 : w_st w2 = w_st w) by (unfold w_st; rewrite R2, R1; reflexivity).
      intros H. destruct (with_lock_ok nf _ _ _ H) as (w3 & E3 & HB & EF). rewrite EF.
      destruct (HL w3 tt HB) as (o' & w4 & Hin & E4 & HB4 & EF4). rewrite EF4.
      rewrite <- E2, <- E3, <- E4. apply obtain_body_ok; [rewrite E4, E3, E2; exact T | apply HOr, Hin | exact HB4].
  Qed.
  Lemma renew_loop_ok f (loop : M unit) w :
    (forall w0 a, fst (loop w0) = Ok a ->
       exists o' w1, In o' (o :: more) /\ w_st w1 = w_st w0 /\ fst (renew_body nf cfg sp o' f w1) = Ok a /\
                     w_st (snd (loop w0)) = w_st (snd (renew_body nf cfg sp o' f w1))) ->
    fst ((check_storage nf ;;; with_lock nf loop) w) = Ok tt ->
    step_ok cfg sp (s_load sp) (w_st w) (w_st (snd ((check_storage nf ;;; with_lock nf loop) w))).
  Proof.
    intros HL. rewrite bind_run. generalize (ro_check_storage nf w).
    destruct (check_storage nf w) as [[u|e|] w2]; cbn [fst snd]; intros R2; try discriminate.
    assert (E2 : w_st w2 = w_st w) by (unfold w_st; rewrite R2; reflexivity).
    intros H. destruct (with_lock_ok nf _ _ _ H) as (w3 & E3 & HB & EF). rewrite EF.
    destruct (HL w3 tt HB) as (o' & w4 & Hin & E4 & HB4 & EF4). rewrite EF4.
    rewrite <- E2, <- E3, <- E4. apply renew_body_ok. exact HB4.
  Qed.
End Success.

Definition async_op := (bool * bool * option nat)%type.   (* renew?, force, cancelled with nrun attempts *)
Definition run_async (cfg : config) (sp : subject) (o : oracle) (more : list oracle) (op : async_op) : M unit :=
  match op with
  | (false, _, None) => obtain_async nf cfg sp o more
  | (false, _, Some n) => obtain_async_c nf cfg sp o more n
  | (true, f, None) => renew_async nf cfg sp o more f
  | (true, f, Some n) => renew_async_c nf cfg sp o more f n
  end.

Theorem async_success_bundle_complete cfg sp o more op w :
  Inv6 cfg sp (w_core w) -> canonical sp -> (forall o', In o' (o :: more) -> oracle_ok cfg o') ->
  fst (run_async cfg sp o more op w) = Ok tt ->
  Good cfg sp (w_st (snd (run_async cfg sp o more op w))).
Proof.
  intros I [HP HL] HOr. pose proof (pre_of_inv _ _ _ I) as P. fold (w_st w) in P.
  destruct op as [[[|] f] [n|]]; cbn [run_async]; intros H.
  - apply (step_ok_good cfg sp (s_load sp) (w_st w)); auto. unfold renew_async_c in *.
    apply (renew_loop_ok cfg sp o more f); [|exact H].
    intros w0 a. apply (retry_c_ok (fun x => renew_body nf cfg sp x f)). intros; apply renew_body_fail_keeps with (e := e); assumption.
  - apply (step_ok_good cfg sp (s_load sp) (w_st w)); auto. unfold renew_async in *.
    apply (renew_loop_ok cfg sp o more f); [|exact H].
    intros w0 a. apply (retry_ok (fun x => renew_body nf cfg sp x f)). intros; apply renew_body_fail_keeps with (e := e); assumption.
  - apply (step_ok_good cfg sp (s_pre sp) (w_st w)); auto. unfold obtain_async_c in *.
    apply (obtain_loop_ok cfg sp o more HOr); [apply (p_typed _ _ _ P) | | exact H].
    intros w0 a. apply (retry_c_ok (obtain_body nf cfg sp)). intros; apply obtain_body_fail_keeps with (e := e); assumption.
  - apply (step_ok_good cfg sp (s_pre sp) (w_st w)); auto. unfold obtain_async in *.
    apply (obtain_loop_ok cfg sp o more HOr); [apply (p_typed _ _ _ P) | | exact H].
    intros w0 a. apply (retry_ok (obtain_body nf cfg sp)). intros; apply obtain_body_fail_keeps with (e := e); assumption.
Qed.

(** * a cancellation that wins before the first attempt never reports success - under any fault plan *)
Theorem cancelled_renew_never_succeeds pl cfg sp o more f w :
  fst (renew_async_c pl cfg sp o more f 0 w) <> Ok tt.
Proof.
  unfold renew_async_c. rewrite bind_run.
  destruct (check_storage pl w) as [[u|e|] w2]; cbn [fst snd]; try discriminate.
  intros H. destruct (with_lock_ok pl _ _ _ H) as (w3 & _ & HB & _). rewrite retry_c_zero in HB. discriminate HB.
Qed.
(** ... for obtain the only success is the no-op of the pre-check: a complete bundle was already there *)
Theorem cancelled_obtain_success_is_noop pl cfg sp o more w :
  fst (obtain_async_c pl cfg sp o more 0 w) = Ok tt ->
  w_st (snd (obtain_async_c pl cfg sp o more 0 w)) = w_st w /\
  exists i, In i (issuers cfg) /\ complete (w_st w) i (s_pre sp) = true.
Proof.
  unfold obtain_async_c. rewrite bind_run.
  generalize (has_any_true pl (issuers cfg) (s_pre sp) w), (ro_has_any pl (issuers cfg) (s_pre sp) w).
  destruct (has_any pl (issuers cfg) (s_pre sp) w) as [[pre|e|] w1]; cbn [fst snd]; intros H1 R1; try discriminate.
  destruct pre.
  - unfold ret; cbn [fst snd]. intros _. split; [unfold w_st; rewrite R1; reflexivity | apply H1; reflexivity].
  - rewrite bind_run. destruct (check_storage pl w1) as [[u|e|] w2]; cbn [fst snd]; try discriminate.
    intros H. destruct (with_lock_ok pl _ _ _ H) as (w3 & _ & HB & _). rewrite retry_c_zero in HB. discriminate HB.
Qed.
