(** C07 with revocations pending: recovery by a fresh instance's manage from any non-stuck storage,
    one issuer. (With several issuers the replacement after key compromise is C06's known finding:
    another issuer's older bundle makes obtain a no-op.) *)
From Coq Require Import List NArith ZArith Bool Lia.
From CM Require Import Bundle.Model Bundle.Proofs Bundle.Faults.
Import ListNotations.
Open Scope N_scope.

Record Rec7r (cfg : config) (sp : subject) (c : core) : Prop := {
  rr_typed : typed (k_st c);
  rr_unlocked : k_locked c = false;
  (** the revoked serials belong to certificates issued earlier *)
  rr_ocsp_old : forall s kc, In (s, kc) (k_ocsp c) -> s < k_nser c;
  rr_sub : forall i x, dir_crt (k_st c) i (s_save sp) = Some x -> c_sub x = s_id sp;
  rr_niss : (1 <= n_iss cfg)%nat
}.

Lemma assoc_ser_none l s : (forall s' kc, In (s', kc) l -> s' <> s) -> assoc_ser l s = None.
Proof.
  induction l as [|[s' b] r IH]; cbn; [reflexivity|]. intros H.
  destruct (N.eqb s' s) eqn:E; [apply N.eqb_eq in E; exfalso; apply (H s' b); [left; reflexivity | exact E]|].
  apply IH. intros s'' kc Hin. apply (H s'' kc). right; exact Hin.
Qed.

Lemma all_up_crt_eq cfg orc st st' d :
  (forall j, dir_crt st' j d = dir_crt st j d) -> all_up cfg orc st d -> all_up cfg orc st' d.
Proof.
  intros E [H1 H2]. split; [|exact H2]. intros i Hi. destruct (H1 i Hi) as (nb & A & B).
  exists nb. split; [exact A|]. intros j x Hx. rewrite E in Hx. apply (B j x Hx).
Qed.

(** issue (all issuers answer), save, reload: the new certificate is served *)
Lemma issue_then_load cfg sp sp' orc order k c :
  s_save sp' = s_save sp -> s_id sp' = s_id sp ->
  all_up cfg orc (k_st c) (s_save sp) -> order <> [] -> incl order (issuers cfg) ->
  (forall s kc, In (s, kc) (k_ocsp c) -> s < k_nser c) ->
  exists mc c', then_load (issue_save sp' orc order k c) cfg (s_save sp) = (Ok mc, c') /\
                served_ok cfg sp mc c' /\ m_k mc = k.
Proof.
  intros ES EI HU Hne Hincl HOld.
  assert (HU' : all_up cfg orc (k_st c) (s_save sp')) by (rewrite ES; exact HU).
  destruct (issue_save_all_up cfg sp' orc order k c HU' Hne Hincl) as (i & nb & Hi & E1 & E2).
  rewrite E1. unfold then_load. cbn [fst snd]. unfold managed_of. cbn [k_st set_st bump_ser k_ocsp].
  rewrite ES, EI in *. rewrite E2. cbn [c_pub]. rewrite N.eqb_refl.
  unfold rev_of. cbn [c_ser]. rewrite assoc_ser_none.
  2:{ intros s' kc Hin. generalize (HOld s' kc Hin). lia. }
  eexists _, _. split; [reflexivity|]. split; [|reflexivity].
  cbn [m_c m_k m_i]. repeat split; auto. cbn [k_st set_st]. eexists; exact E2.
Qed.

Lemma k_ocsp_move_comp i d c : k_ocsp (move_comp_pure i d c) = k_ocsp c.
Proof. unfold move_comp_pure. destruct (sget (k_st c) (i, d, FKey)); reflexivity. Qed.
Lemma k_nser_move_comp' i d c : k_nser (move_comp_pure i d c) = k_nser c.
Proof. unfold move_comp_pure. destruct (sget (k_st c) (i, d, FKey)); reflexivity. Qed.
Lemma dir_key_move_comp_same i d c k : dir_key (k_st c) i d = Some k -> dir_key (k_st (move_comp_pure i d c)) i d = None.
Proof.
  unfold dir_key, move_comp_pure. destruct (sget (k_st c) (i, d, FKey)) as [v|] eqn:E; [|discriminate].
  intros _. cbn [k_st set_st]. rewrite sget_move_comp.
  assert (H : same_dir i d i d = true) by (apply same_dir_true; auto). rewrite H. reflexivity.
Qed.

Lemma recoverable_rev cfg sp orc c :
  Rec7r cfg sp c -> canonical sp -> all_up cfg orc (k_st c) (s_save sp) ->
  stuck (k_st c) cfg (s_save sp) = false -> n_iss cfg = 1%nat ->
  exists mc c', manage_pure cfg sp orc c = (Ok mc, c') /\ served_ok cfg sp mc c'.
Proof.
  intros R [HP HL] HU HS H1.
  assert (Hiss : issuers cfg = [0%nat]) by (unfold issuers; rewrite H1; reflexivity).
  assert (Hne : issuers cfg <> []) by (rewrite Hiss; discriminate).
  unfold manage_pure, managed_of. rewrite HL. unfold stuck in HS.
  destruct (newest_bundle (k_st c) cfg (s_save sp)) as [[[[i k] x] m]|] eqn:EN.
  - cbn in HS. apply negb_false_iff in HS. rewrite HS. cbn [m_c m_rev].
    destruct (newest_bundle_inv _ _ _ _ _ _ _ EN) as (Hi & HK & HC & HM).
    assert (Ei : i = 0%nat) by (rewrite Hiss in Hi; destruct Hi as [<-|[]]; reflexivity). subst i.
    destruct (rev_of (k_ocsp c) x) as [kc|] eqn:ERv.
    + (* revoked (hence not expired): forced replacement *)
      rewrite (rev_of_some_not_expired _ _ _ ERv). cbn [negb andb].
      unfold force_renew_pure. cbn [m_rev m_i]. destruct kc.
      * (* key compromise: quarantine, then obtain under the canonical name *)
        set (c2 := move_comp_pure 0 (s_save sp) c).
        assert (HK2 : dir_key (k_st c2) 0 (s_save sp) = None) by (eapply dir_key_move_comp_same; eauto).
        unfold obtain_pure. cbn [s_pre canon].
        assert (EA : any_complete (k_st c2) (issuers cfg) (s_save sp) = false).
        { rewrite Hiss. cbn [any_complete existsb]. unfold complete, present.
          unfold dir_key in HK2. destruct (sget (k_st c2) (0%nat, s_save sp, FKey)) as [[?|?|?]|] eqn:E; try discriminate;
            [| |rewrite andb_false_r; reflexivity].
          - exfalso. assert (T2 : typed (k_st c2)) by (apply move_comp_typed, (rr_typed _ _ _ R)).
            destruct (T2 0%nat (s_save sp)) as (A & _). destruct (A _ E) as [? A']. discriminate A'.
          - exfalso. assert (T2 : typed (k_st c2)) by (apply move_comp_typed, (rr_typed _ _ _ R)).
            destruct (T2 0%nat (s_save sp)) as (A & _). destruct (A _ E) as [? A']. discriminate A'. }
        rewrite EA.
        assert (EK : (if reuse cfg then first_key_i (k_st c2) (issuers cfg) (s_save sp) else None) = None).
        { destruct (reuse cfg); [|reflexivity]. rewrite Hiss. cbn [first_key_i]. rewrite HK2. reflexivity. }
        rewrite EK.
        assert (HU2 : all_up cfg orc (k_st (bump_key c2)) (s_save sp)).
        { apply (all_up_crt_eq cfg orc (k_st c)); [|exact HU]. intros j. apply dir_crt_move_comp. }
        destruct (issue_then_load cfg sp (canon sp) orc (obtain_order cfg orc None) (k_nkey c2) (bump_key c2)
                    eq_refl eq_refl HU2) as (mc & c' & E & HOK & _).
        -- eapply obtain_order_nonempty; [exact HU | apply (rr_niss _ _ _ R)].
        -- apply obtain_order_incl; [intros Hr; apply (proj2 HU Hr) | discriminate].
        -- intros s kc0 Hin. unfold bump_key in *. cbn [k_ocsp k_nser] in *. unfold c2 in *.
           rewrite k_ocsp_move_comp in Hin. rewrite k_nser_move_comp'.
           apply (rr_ocsp_old _ _ _ R s kc0 Hin).
        -- exists mc, c'. split; [exact E | exact HOK].
      * (* revoked, not for key compromise: forced renewal under the canonical name *)
        unfold renew_pure. cbn [s_load canon]. rewrite EN. rewrite andb_false_r.
        destruct (reuse cfg).
        -- destruct (issue_then_load cfg sp (canon sp) orc (issuers cfg) k c eq_refl eq_refl HU Hne (incl_refl _) (rr_ocsp_old _ _ _ R))
             as (mc & c' & E & HOK & _). exists mc, c'. auto.
        -- destruct (issue_then_load cfg sp (canon sp) orc (issuers cfg) (k_nkey c) (bump_key c) eq_refl eq_refl HU Hne (incl_refl _) (rr_ocsp_old _ _ _ R))
             as (mc & c' & E & HOK & _). exists mc, c'. auto.
    + (* no revocation in force *)
      rewrite andb_false_r. destruct (is_due x) eqn:ED.
      * unfold renew_pure. rewrite HL, EN, ED. cbn [negb andb].
        destruct (reuse cfg).
        -- destruct (issue_then_load cfg sp sp orc (issuers cfg) k c eq_refl eq_refl HU Hne (incl_refl _) (rr_ocsp_old _ _ _ R))
             as (mc & c' & E & HOK & _). exists mc, c'. auto.
        -- destruct (issue_then_load cfg sp sp orc (issuers cfg) (k_nkey c) (bump_key c) eq_refl eq_refl HU Hne (incl_refl _) (rr_ocsp_old _ _ _ R))
             as (mc & c' & E & HOK & _). exists mc, c'. auto.
      * eexists _, _. split; [reflexivity|]. cbn [m_c m_k m_i]. apply N.eqb_eq in HS.
        repeat split; auto; try (apply (rr_sub _ _ _ R _ _ HC)); try (rewrite Hiss; left; reflexivity); eauto.
  - (* nothing loadable: obtain, then load *)
    assert (EA : any_complete (k_st c) (issuers cfg) (s_pre sp) = false)
      by (rewrite HP; apply newest_none_no_complete; [apply (rr_typed _ _ _ R) | exact EN]).
    unfold obtain_pure. rewrite EA.
    set (kr := if reuse cfg then first_key_i (k_st c) (issuers cfg) (s_pre sp) else None).
    assert (HKR : forall i k, kr = Some (i, k) -> In i (issuers cfg)).
    { unfold kr. intros i k. destruct (reuse cfg); [|discriminate]. intros H. apply (first_key_i_in _ _ _ _ _ H). }
    assert (Hord : incl (obtain_order cfg orc kr) (issuers cfg)).
    { apply obtain_order_incl; [|exact HKR]. intros Hr. apply (proj2 HU Hr). }
    assert (Hne' : obtain_order cfg orc kr <> []) by (eapply obtain_order_nonempty; [exact HU | apply (rr_niss _ _ _ R)]).
    destruct kr as [[i0 k0]|].
    + destruct (issue_then_load cfg sp sp orc _ k0 c eq_refl eq_refl HU Hne' Hord (rr_ocsp_old _ _ _ R)) as (mc & c' & E & HOK & _).
      exists mc, c'. auto.
    + destruct (issue_then_load cfg sp sp orc _ (k_nkey c) (bump_key c) eq_refl eq_refl HU Hne' Hord (rr_ocsp_old _ _ _ R)) as (mc & c' & E & HOK & _).
      exists mc, c'. auto.
Qed.


(** * from a faulted run to the recovery: the hypotheses are invariants *)
Lemma quar_typed st q d st1 : typed st -> quar st q d st1 -> typed st1.
Proof.
  intros T HQ. destruct HQ as [| |v Hv|v Hv]; repeat first [apply typed_sdel | apply typed_sput]; try exact T;
    destruct (T q d) as (A & _); destruct (A _ Hv) as [k ->]; cbn; eauto.
Qed.

(** the serial counter only grows and the revocation list does not change under obtain / renew / manage,
    whatever the plan *)
Lemma eff7r_counters cfg sp c c' :
  eff7r cfg sp c c' -> k_ocsp c' = k_ocsp c /\ k_nser c <= k_nser c'.
Proof.
  intros (c1 & q & (A & _ & B & _) & HE).
  assert (G : forall sp0, eff7 cfg sp0 c1 c' -> k_ocsp c' = k_ocsp c1 /\ k_nser c1 <= k_nser c').
  { intros sp0 [(_ & E & _ & F)|(E & _ & F & _)]; auto. }
  destruct HE as [HE|HE]; destruct (G _ HE) as [E F]; split; try congruence; lia.
Qed.

Definition ocsp_old (c : core) : Prop := forall s kc, In (s, kc) (k_ocsp c) -> s < k_nser c.
Lemma revoke_api_counters is sp c :
  k_ocsp (snd (revoke_api_pure is sp c)) = k_ocsp c /\ k_nser (snd (revoke_api_pure is sp c)) = k_nser c.
Proof.
  revert c. induction is as [|i r IH]; intros c; cbn [revoke_api_pure]; [auto|].
  destruct (bundle_at _ _ _); [|auto]. destruct (negb _); [auto|].
  destruct (IH (set_st c (del_assets (k_st c) i (s_pre sp)))) as [A B]. rewrite A, B. auto.
Qed.
Lemma ocsp_old_reach cfg sp c : reach6 cfg sp c -> ocsp_old c.
Proof.
  induction 1 as [|c orc h r c' HR IH HE]; [intros s kc []|].
  pose proof (reach6_inv _ _ _ HR) as I.
  pose proof (evals_run_hop cfg sp orc h c (i_typed _ _ _ I) (i_unlocked _ _ _ I)) as EV.
  destruct (evals_det _ _ _ _ _ _ HE EV) as [_ ->].
  destruct (is_op7 h) eqn:Hop.
  - (* obtain / renew / manage: through the effect theorem with the empty plan *)
    pose proof (faulted_effect_rev no_faults cfg sp orc h (World c 0 []) Hop) as HF.
    destruct (EV (World c 0 []) eq_refl) as [_ E2]. cbn [w_core] in HF. rewrite E2 in HF.
    destruct (eff7r_counters _ _ _ _ HF) as [A B].
    intros s kc Hin. rewrite A in Hin. generalize (IH s kc Hin). lia.
  - destruct h as [|f| |i kc|]; try discriminate; cbn [run_hop_pure snd].
    + unfold revoke_env_pure. destruct (sget (k_st c) (i, s_save sp, FCrt)) as [[?|x|?]|] eqn:E; try exact IH.
      intros s kc0 [H|Hin]; cbn [k_nser]; [|apply (IH s kc0 Hin)].
      injection H as <- _. assert (HC : dir_crt (k_st c) i (s_save sp) = Some x) by (unfold dir_crt; rewrite E; reflexivity).
      apply (i_crt _ _ _ I _ _ _ HC).
    + destruct (revoke_api_counters (issuers cfg) sp c) as [A B].
      intros s kc Hin. rewrite A in Hin. rewrite B. apply (IH s kc Hin).
Qed.

Lemma rec7r_after_fault cfg sp c0 c1 :
  Inv6 cfg sp c0 -> ocsp_old c0 -> (1 <= n_iss cfg)%nat -> eff7r cfg sp c0 c1 ->
  Rec7r cfg sp (set_locked c1 false).
Proof.
  intros I HO Hn HE. pose proof (eff7r_counters _ _ _ _ HE) as [EO EN].
  destruct HE as (c2 & q & (_ & _ & _ & HQ) & HE).
  assert (T2 : typed (k_st c2)) by (eapply quar_typed; [apply (i_typed _ _ _ I) | exact HQ]).
  assert (S2 : forall i x, dir_crt (k_st c2) i (s_save sp) = Some x -> c_sub x = s_id sp).
  { intros i x Hx. destruct (quar_crt_meta _ _ _ _ i (s_save sp) HQ) as [E _]. rewrite E in Hx. apply (i_crt _ _ _ I _ _ _ Hx). }
  assert (G : forall sp0, s_save sp0 = s_save sp -> s_id sp0 = s_id sp -> eff7 cfg sp0 c2 c1 ->
              typed (k_st c1) /\ forall i x, dir_crt (k_st c1) i (s_save sp) = Some x -> c_sub x = s_id sp).
  { intros sp0 ES EI [(E & _)|(_ & _ & _ & j & k & x & _ & Hs & _ & HT)].
    - rewrite E. auto.
    - split; [eapply torn_typed; eauto|]. intros i y Hy.
      destruct (torn_crt _ _ _ _ _ _ _ _ _ _ HT Hy) as [H| ->]; [apply (S2 _ _ H) | congruence]. }
  assert (G' : typed (k_st c1) /\ forall i x, dir_crt (k_st c1) i (s_save sp) = Some x -> c_sub x = s_id sp)
    by (destruct HE as [HE|HE]; [apply (G sp) | apply (G (canon sp))]; auto).
  destruct G' as [T1 S1].
  constructor; cbn [k_st k_locked k_ocsp k_nser set_locked]; auto.
  intros s kc Hin. rewrite EO in Hin. generalize (HO s kc Hin). lia.
Qed.

(** recoverable with revocations pending (one issuer): any reachable state, any plan, then a fault-free
    manage on a fresh instance - outside the stuck class *)
Theorem recoverable_after_fault_rev pl cfg sp orc h orc_r w0 :
  reach6 cfg sp (w_core w0) -> canonical sp -> n_iss cfg = 1%nat -> is_op7 h = true ->
  let w1 := snd (run_hop pl cfg sp orc h w0) in
  stuck (w_st w1) cfg (s_save sp) = false ->
  all_up cfg orc_r (w_st w1) (s_save sp) ->
  exists mc c', evals (manage no_faults cfg sp orc_r) (w_core (break_lock w1)) (Ok mc) c' /\ served_ok cfg sp mc c'.
Proof.
  intros HR HC H1 Hop w1 HS HU. pose proof (reach6_inv _ _ _ HR) as I.
  assert (Hn : (1 <= n_iss cfg)%nat) by lia.
  assert (R : Rec7r cfg sp (set_locked (w_core w1) false)).
  { apply (rec7r_after_fault cfg sp (w_core w0)); auto; [apply (ocsp_old_reach cfg sp), HR | apply faulted_effect_rev, Hop]. }
  destruct (recoverable_rev cfg sp orc_r (set_locked (w_core w1) false) R HC HU HS H1) as (mc & c' & HM & HOK).
  exists mc, c'. split; [|exact HOK].
  generalize (evals_manage cfg sp orc_r (set_locked (w_core w1) false) (rr_typed _ _ _ R) (rr_unlocked _ _ _ R)).
  rewrite HM. auto.
Qed.
