(** Soundness of C07's monitor w.r.t. the theorems: evaluated on the MODEL's own observation of the
    recovery, the recovery clause of the check ([Check.spec7_core]) is true whenever the hypotheses of
    the recoverability theorem hold - so "the clause fails on the implementation's observation" means
    that the implementation left the set of behaviours the theorem describes. *)
From Coq Require Import List NArith ZArith Bool Lia.
From CM Require Import Bundle.Model Bundle.Proofs Bundle.Faults Bundle.Check.
Import ListNotations.
Open Scope N_scope.

(** * all metadata files name the subject: invariant of every state the experiments pass through *)
Definition metas_ok (sp : subject) (st : storage) : Prop :=
  forall i d m, dir_meta st i d = Some m -> m = [s_id sp].

Lemma metas_ok_put_bundle sp st i d k x :
  metas_ok sp st -> metas_ok sp (put_bundle st i d k x [s_id sp]).
Proof.
  intros H i' d' m. rewrite dir_meta_put_bundle. destruct (same_dir i d i' d'); [intros [= <-]; reflexivity | apply H].
Qed.
Lemma metas_ok_issue_save sp orc order k c :
  metas_ok sp (k_st c) -> metas_ok sp (k_st (snd (issue_save sp orc order k c))).
Proof.
  intros H. unfold issue_save. destruct (first_up orc order) as [[i [nb v]]|]; cbn [snd k_st set_st bump_ser]; [|exact H].
  apply metas_ok_put_bundle, H.
Qed.
Lemma metas_ok_obtain cfg sp sp' orc c :
  s_id sp' = s_id sp -> metas_ok sp (k_st c) -> metas_ok sp (k_st (snd (obtain_pure cfg sp' orc c))).
Proof.
  intros E H. unfold obtain_pure. destruct (any_complete _ _ _); [exact H|].
  assert (G : forall order k c0, metas_ok sp (k_st c0) -> metas_ok sp (k_st (snd (issue_save sp' orc order k c0)))).
  { intros order k c0 H0. unfold issue_save. destruct (first_up orc order) as [[i [nb v]]|]; cbn [snd k_st set_st bump_ser]; [|exact H0].
    rewrite E. apply metas_ok_put_bundle, H0. }
  destruct (if reuse cfg then _ else _) as [[j k]|]; apply G; exact H.
Qed.
Lemma metas_ok_renew cfg sp sp' orc f c :
  s_id sp' = s_id sp -> metas_ok sp (k_st c) -> metas_ok sp (k_st (snd (renew_pure cfg sp' orc f c))).
Proof.
  intros E H. unfold renew_pure. destruct (newest_bundle _ _ _) as [[[[i0 k0] c0] m0]|]; [|exact H].
  destruct (_ && _); [exact H|].
  assert (G : forall order k c1, metas_ok sp (k_st c1) -> metas_ok sp (k_st (snd (issue_save sp' orc order k c1)))).
  { intros order k c1 H0. unfold issue_save. destruct (first_up orc order) as [[i [nb v]]|]; cbn [snd k_st set_st bump_ser]; [|exact H0].
    rewrite E. apply metas_ok_put_bundle, H0. }
  destruct (reuse cfg); apply G; exact H.
Qed.
Lemma metas_ok_move_comp sp i d c : metas_ok sp (k_st c) -> metas_ok sp (k_st (move_comp_pure i d c)).
Proof.
  intros H. unfold move_comp_pure. destruct (sget (k_st c) (i, d, FKey)) as [v|]; [|exact H].
  cbn [k_st set_st]. intros i' d' m. unfold dir_meta. rewrite sget_move_comp.
  destruct (same_dir i d i' d'); apply H.
Qed.
Lemma metas_ok_then_load sp rc cfg d : metas_ok sp (k_st (snd rc)) -> metas_ok sp (k_st (snd (then_load rc cfg d))).
Proof. unfold then_load. destruct rc as [[u|e|] c1]; auto. Qed.
Lemma metas_ok_manage cfg sp orc c :
  metas_ok sp (k_st c) -> metas_ok sp (k_st (snd (manage_pure cfg sp orc c))).
Proof.
  intros H. unfold manage_pure. destruct (managed_of c cfg (s_load sp)) as [mc|e|]; [| |exact H].
  - destruct (_ && _).
    + unfold force_renew_pure. apply metas_ok_then_load. destruct (m_rev mc) as [[|]|].
      * apply metas_ok_obtain; [reflexivity | apply metas_ok_move_comp, H].
      * apply metas_ok_renew; [reflexivity | exact H].
      * apply metas_ok_renew; [reflexivity | exact H].
    + destruct (is_due _); [apply metas_ok_then_load, metas_ok_renew; [reflexivity | exact H] | exact H].
  - destruct e; try exact H. apply metas_ok_then_load, metas_ok_obtain; [reflexivity | exact H].
Qed.

Lemma metas_ok_revoke_api sp is c : metas_ok sp (k_st c) -> metas_ok sp (k_st (snd (revoke_api_pure is sp c))).
Proof.
  revert c. induction is as [|i r IH]; intros c H; cbn [revoke_api_pure]; [exact H|].
  destruct (bundle_at _ _ _); [|exact H]. destruct (negb _); [exact H|].
  apply IH. cbn [k_st set_st]. intros i' d' m. unfold dir_meta. rewrite sget_del_assets_dir.
  destruct (same_dir i (s_pre sp) i' d'); [discriminate | apply H].
Qed.
Lemma metas_ok_run_hop cfg sp orc h c :
  metas_ok sp (k_st c) -> metas_ok sp (k_st (snd (run_hop_pure cfg sp orc h c))).
Proof.
  intros H. destruct h as [|f| |i kc|]; cbn [run_hop_pure snd].
  - apply metas_ok_obtain; [reflexivity | exact H].
  - apply metas_ok_renew; [reflexivity | exact H].
  - apply metas_ok_manage, H.
  - unfold revoke_env_pure. destruct (sget _ _) as [[k|x|m]|]; exact H.
  - apply metas_ok_revoke_api, H.
Qed.
Lemma metas_ok_reach cfg sp c : reach6 cfg sp c -> metas_ok sp (k_st c).
Proof.
  induction 1 as [|c orc h r c' HR IH HE]; [intros i d m H; discriminate H|].
  pose proof (reach6_inv _ _ _ HR) as I.
  destruct (evals_det _ _ _ _ _ _ HE (evals_run_hop cfg sp orc h c (i_typed _ _ _ I) (i_unlocked _ _ _ I))) as [_ ->].
  apply metas_ok_run_hop, IH.
Qed.

(** the torn states of one save keep it *)
Lemma metas_ok_torn sp st i d k x st' : metas_ok sp st -> torn st i d k x [s_id sp] st' -> metas_ok sp st'.
Proof.
  intros H HT i' d' m. destruct HT; unfold put_bundle, dir_meta;
    rewrite ?sget_sdel, ?sget_sput, ?fkey_eqb_dir; cbn; rewrite ?andb_false_r, ?andb_true_r;
    try (destruct (same_dir i d i' d'); cbn; [intros [= <-]; reflexivity|]); apply H.
Qed.
Lemma metas_ok_eff7 cfg sp c c' : metas_ok sp (k_st c) -> eff7 cfg sp c c' -> metas_ok sp (k_st c').
Proof.
  intros H [(E & _)|(_ & _ & _ & i & k & x & _ & _ & _ & HT)]; [rewrite E; exact H|].
  eapply metas_ok_torn; eauto.
Qed.

(** * the monitor on the model's own observation of the recovery *)
Lemma nlist_eqb_refl a : nlist_eqb a a = true.
Proof. unfold nlist_eqb. destruct (list_eq_dec N.eq_dec a a); [reflexivity | contradiction]. Qed.

Lemma recover_obs cfg sp orc w mc c' :
  evals (manage no_faults cfg sp orc) (w_core (break_lock w)) (Ok mc) c' ->
  let o := fst (recover cfg sp orc w) in
  ob_res o = 0%Z /\ ob_cached o = Some (seen_of mc) /\ ob_st o = k_st c'.
Proof.
  intros HE. unfold recover, model_step. cbn [run_hop].
  destruct (HE (clear_log (break_lock w)) eq_refl) as [E1 E2].
  unfold bind. destruct (manage no_faults cfg sp orc (clear_log (break_lock w))) as [r w'] eqn:EM.
  cbn [fst snd] in E1, E2. subst r. cbn [ret fst snd ob_res ob_cached ob_st res_code].
  unfold w_st. rewrite E2. auto.
Qed.

(** monitor_sound_core: under the hypotheses of the recoverability theorem the recovery clause of the
    check holds of the model's observation (twin = "not stuck") *)
Theorem monitor_sound_core pl cfg sp orc h orc_r w0 :
  reach6 cfg sp (w_core w0) -> k_ocsp (w_core w0) = [] -> canonical sp -> (1 <= n_iss cfg)%nat ->
  is_op7 h = true ->
  let w1 := snd (run_hop pl cfg sp orc h w0) in
  stuck (w_st w1) cfg (s_save sp) = false ->
  all_up cfg orc_r (w_st w1) (s_save sp) ->
  spec7_core cfg sp (fst (recover cfg sp orc_r w1)) (negb (stuck (w_st w1) cfg (s_load sp))) = true.
Proof.
  intros HR HO HC Hn Hop w1 HS HU. pose proof (reach6_inv _ _ _ HR) as I.
  destruct (recoverable_after_fault pl cfg sp orc h orc_r w0 I HO HC Hn Hop HS HU) as (mc & c' & HM & HOK).
  fold w1 in HM.
  destruct (recover_obs cfg sp orc_r w1 mc c' HM) as (E1 & E2 & E3).
  assert (HMeta : metas_ok sp (k_st c')).
  { assert (H1 : metas_ok sp (k_st (w_core (break_lock w1)))).
    { unfold break_lock. cbn [w_core k_st set_locked].
      apply (metas_ok_eff7 cfg sp (w_core w0)); [apply metas_ok_reach with (cfg := cfg), HR | apply faulted_effect; assumption]. }
    pose proof (evals_manage cfg sp orc_r (w_core (break_lock w1))) as EV.
    assert (T : typed (k_st (w_core (break_lock w1))) /\ k_locked (w_core (break_lock w1)) = false).
    { pose proof (rec7_after_fault cfg sp (w_core w0) (w_core w1) I HO Hn (faulted_effect pl cfg sp orc h w0 Hop HO)) as R.
      split; [apply (r_typed _ _ _ R) | apply (r_unlocked _ _ _ R)]. }
    destruct T as [T1 T2]. specialize (EV T1 T2).
    destruct (evals_det _ _ _ _ _ _ HM EV) as [_ ->]. apply metas_ok_manage, H1. }
  destruct HOK as (Hp & Hd & Hs & Hi & m & HN).
  destruct (newest_bundle_inv _ _ _ _ _ _ _ HN) as (_ & HK & HCt & HMt).
  unfold spec7_core. rewrite E1, E2, E3. cbn [seen_of Z.eqb andb].
  rewrite Hs, nlist_eqb_refl. cbn [andb].
  destruct HC as [_ HL]. rewrite HL, HS. cbn [negb]. rewrite andb_true_r.
  apply existsb_exists. exists (m_i mc). split; [exact Hi|].
  unfold bundle_at. rewrite HK, HCt, HMt. cbn [good_bundle].
  rewrite !N.eqb_refl, Hp, N.eqb_refl, Hs, N.eqb_refl, Hd. cbn [andb negb].
  rewrite (HMeta _ _ _ HMt), nlist_eqb_refl. reflexivity.
Qed.

(** ... and it rejects the refuted class: on a stuck storage the recovery's result is the key mismatch *)
Lemma recover_obs_fail cfg sp orc w e c' :
  evals (manage no_faults cfg sp orc) (w_core (break_lock w)) (Fail e) c' ->
  ob_res (fst (recover cfg sp orc w)) = err_code e.
Proof.
  intros HE. unfold recover, model_step. cbn [run_hop].
  destruct (HE (clear_log (break_lock w)) eq_refl) as [E1 _].
  unfold bind. destruct (manage no_faults cfg sp orc (clear_log (break_lock w))) as [r w'] eqn:EM.
  cbn [fst] in E1. subst r. reflexivity.
Qed.
Theorem monitor_rejects_stuck cfg sp orc w tw :
  typed (w_st w) -> canonical sp -> stuck (w_st w) cfg (s_save sp) = true ->
  spec7_core cfg sp (fst (recover cfg sp orc w)) tw = false.
Proof.
  intros T HC HS.
  assert (T' : typed (k_st (w_core (break_lock w)))) by exact T.
  assert (HS' : stuck (k_st (w_core (break_lock w))) cfg (s_save sp) = true) by exact HS.
  destruct (stuck_is_permanent cfg sp orc (w_core (break_lock w)) T' HC HS') as [HM _].
  generalize (evals_manage cfg sp orc (w_core (break_lock w)) T' eq_refl). rewrite HM. intros EV.
  unfold spec7_core. rewrite (recover_obs_fail cfg sp orc w EMismatch _ EV). reflexivity.
Qed.
