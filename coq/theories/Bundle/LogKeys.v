(** The log clause of the monitor, on the model: WITHOUT key reuse every issuer call an operation makes -
    under any fault plan, in any attempt of a retried or cancelled asynchronous call, in the obtain that
    follows a key quarantine - is for a key that was generated in that same operation (the log of the
    operation contains the key generation). This is what [Check.spec_log] checks with [generated]. *)
From Coq Require Import List NArith ZArith Bool Lia.
From CM Require Import Bundle.Model.
Import ListNotations.
Open Scope N_scope.

(** the log is newest first; [emits m P]: whatever the start, [m] only adds a segment satisfying [P] *)
Definition emits {A} (m : M A) (P : list logev -> Prop) : Prop :=
  forall w, exists seg, w_log (snd (m w)) = seg ++ w_log w /\ P seg.

Definition quiet (seg : list logev) : Prop := forall i k b, ~ In (LIssue i k b) seg.
Definition fresh_seg (seg : list logev) : Prop := forall i k b, In (LIssue i k b) seg -> In (LGen k) seg.

Lemma quiet_nil : quiet []. Proof. intros i k b H; exact H. Qed.
Lemma quiet_app a b : quiet a -> quiet b -> quiet (a ++ b).
Proof. intros A B i k x H. apply in_app_or in H. destruct H; [eapply A | eapply B]; eauto. Qed.
Lemma fresh_nil : fresh_seg []. Proof. intros i k b H; contradiction H. Qed.
Lemma fresh_app a b : fresh_seg a -> fresh_seg b -> fresh_seg (a ++ b).
Proof. intros A B i k x H. apply in_app_or in H. apply in_or_app. destruct H; [left; eapply A | right; eapply B]; eauto. Qed.
Lemma quiet_fresh a : quiet a -> fresh_seg a.
Proof. intros Q i k b H. destruct (Q i k b H). Qed.

Section Rules.
  Variable P : list logev -> Prop.
  Hypothesis P_nil : P [].
  Hypothesis P_app : forall a b, P a -> P b -> P (a ++ b).

  Lemma e_ret {A} (a : A) : emits (ret a) P. Proof. intros w. exists []. auto. Qed.
  Lemma e_fail {A} e : emits (@fail A e) P. Proof. intros w. exists []. auto. Qed.
  Lemma e_bind {A B} (m : M A) (f : A -> M B) : emits m P -> (forall a, emits (f a) P) -> emits (bind m f) P.
  Proof.
    intros Hm Hf w. unfold bind. destruct (Hm w) as (s1 & E1 & P1). destruct (m w) as [[a|e|] w1]; cbn [snd] in *; eauto.
    destruct (Hf a w1) as (s2 & E2 & P2). exists (s2 ++ s1). rewrite E2, E1, app_assoc. auto.
  Qed.
  Lemma e_catch {A} (m : M A) : emits m P -> emits (catch m) P.
  Proof. intros Hm w. unfold catch. destruct (Hm w) as (s1 & E1 & P1). destruct (m w) as [[a|e|] w1]; cbn [snd] in *; eauto. Qed.
  Lemma e_weaken {A} (m : M A) (Q : list logev -> Prop) : (forall s, Q s -> P s) -> emits m Q -> emits m P.
  Proof. intros H Hm w. destruct (Hm w) as (s & E & Qs). eauto. Qed.
End Rules.

Lemma e_prim {A} pl k t (onf : res A) eff : emits (prim pl k t onf eff) quiet.
Proof.
  intros w. unfold prim. destruct (p_fail pl (w_cnt w)); [|destruct (eff (w_core w)) as [r c2]];
    destruct (crash_at pl (w_cnt w)); cbn [snd w_log];
    (eexists [_]; split; [reflexivity|]; intros i k0 b [H|[]]; discriminate H).
Qed.

Ltac q_bind := apply (e_bind quiet quiet_app).
Ltac qret := apply (e_ret quiet quiet_nil).
Ltac qfail := apply (e_fail quiet quiet_nil).
Ltac qcp := apply (e_catch quiet), e_prim.

Section Quiet.
  Variable pl : plan.
  Lemma q_load k : emits (load pl k) quiet. Proof. apply e_prim. Qed.
  Lemma q_has_res i d : emits (has_res pl i d) quiet.
  Proof.
    unfold has_res. q_bind; [apply e_prim|]. intros c. destruct (negb c); [qret|].
    q_bind; [apply e_prim|]. intros k. destruct (negb k); [qret | apply e_prim].
  Qed.
  Lemma q_has_any is d : emits (has_any pl is d) quiet.
  Proof.
    induction is as [|i r IH]; cbn [has_any]; [qret|]. q_bind; [apply q_has_res|]. intros b. destruct b; [qret | exact IH].
  Qed.
  Lemma q_load_res i d : emits (load_res pl i d) quiet.
  Proof.
    unfold load_res. q_bind; [apply e_prim|]. intros kv. q_bind; [apply e_prim|]. intros cv. q_bind; [apply e_prim|]. intros mv.
    destruct kv, cv, mv; first [qret | qfail].
  Qed.
  Lemma q_load_all is d : emits (load_all pl is d) quiet.
  Proof.
    induction is as [|i r IH]; cbn [load_all]; [qret|]. q_bind; [apply (e_catch quiet), q_load_res|]. intros [b|e].
    - q_bind; [exact IH|]. intros bs. qret.
    - destruct e; first [exact IH | qfail].
  Qed.
  Lemma q_load_any cfg d : emits (load_any pl cfg d) quiet.
  Proof. unfold load_any. q_bind; [apply q_load_all|]. intros bs. destruct (newest bs); [qret | qfail]. Qed.
  Lemma q_load_managed cfg d : emits (load_managed pl cfg d) quiet.
  Proof.
    unfold load_managed. q_bind; [apply q_load_any|]. intros [[[i k] c] m].
    destruct (negb _); [qfail|]. q_bind; [qcp|]. intros o. qret.
  Qed.
  Lemma q_check_storage : emits (check_storage pl) quiet.
  Proof.
    unfold check_storage. q_bind; [apply e_prim|]. intros _. q_bind; [qcp|]. intros x. q_bind; [qcp|]. intros _.
    destruct x; [qret | qfail].
  Qed.
  Lemma q_reuse_key is d : emits (reuse_key pl is d) quiet.
  Proof.
    induction is as [|i r IH]; cbn [reuse_key]; [qret|]. q_bind; [qcp|]. intros [[k|x|m]|e]; try qret; try qfail.
    destruct e; first [exact IH | qfail].
  Qed.
  Lemma q_save i d k x m : emits (save pl i d k x m) quiet.
  Proof.
    unfold save. q_bind; [qcp|]. intros [u|e]; [|qfail]. q_bind; [qcp|]. intros [u2|e].
    2:{ q_bind; [qcp|]. intros _. qfail. }
    q_bind; [qcp|]. intros [u3|e]; [qret|]. q_bind; [qcp|]. intros _. q_bind; [qcp|]. intros _. qfail.
  Qed.
  Lemma q_move_compromised i d : emits (move_compromised pl i d) quiet.
  Proof.
    unfold move_compromised. q_bind; [apply e_prim|]. intros v. q_bind; [qcp|]. intros [u|e]; [apply e_prim|].
    q_bind; [qcp|]. intros _. qfail.
  Qed.
  Lemma e_with_lock {A} (body : M A) (P : list logev -> Prop) : P [] -> (forall a b, P a -> P b -> P (a ++ b)) -> (forall s, quiet s -> P s) ->
    emits body P -> emits (with_lock pl body) P.
  Proof.
    intros Pn Pa Pq HB. unfold with_lock.
    apply (e_bind P Pa); [apply (e_weaken P _ quiet Pq), e_prim|]. intros _.
    apply (e_bind P Pa); [apply (e_catch P), HB|]. intros x.
    apply (e_bind P Pa); [apply (e_catch P), (e_weaken P _ quiet Pq), e_prim|]. intros _.
    destruct x; [apply (e_ret P Pn) | apply (e_fail P Pn)].
  Qed.
  Lemma q_revoke_api is sp : emits (revoke_api pl is sp) quiet.
  Proof.
    induction is as [|i r IH]; cbn [revoke_api]; [qret|]. q_bind; [apply q_load_res|]. intros _.
    q_bind; [apply e_prim|]. intros e. destruct (negb e); [qfail|].
    q_bind; [apply e_prim|]. intros _. q_bind; [apply e_prim|]. intros _. q_bind; [apply e_prim|]. intros _.
    q_bind; [apply e_prim|]. intros _. exact IH.
  Qed.
End Quiet.

(** * the issuing unit: a key generation, then issuer calls for that key only, then the save *)
Definition only_key (k : keyid) (seg : list logev) : Prop := forall e, In e seg -> exists i b, e = LIssue i k b.
Lemma e_try_issuers orc is k id : emits (try_issuers orc is k id) (only_key k).
Proof.
  induction is as [|i r IH]; cbn [try_issuers]; intros w.
  - exists []. split; [reflexivity | intros e []].
  - unfold bind, catch, issue, local. destruct (nth i (o_out orc) None) as [[nb v]|]; cbn [fst snd w_log].
    + exists [LIssue i k true]. split; [reflexivity|]. intros e [<-|[]]. eauto.
    + match goal with |- context [try_issuers orc r k id ?w1] => destruct (IH w1) as (s & E & O) end.
      cbn [w_log] in E. exists (s ++ [LIssue i k false]). rewrite E, <- app_assoc. split; [reflexivity|].
      intros e H. apply in_app_or in H. destruct H as [H|[<-|[]]]; eauto.
Qed.
Lemma e_issue_unit pl orc order id d m :
  emits (k <- gen_key ;; ic <- try_issuers orc order k id ;; save pl (fst ic) d k (snd ic) m) fresh_seg.
Proof.
  intros w. unfold bind at 1. unfold gen_key, local. cbn [fst snd].
  set (k := k_nkey (w_core w)). set (w1 := World _ (w_cnt w) (LGen k :: w_log w)).
  assert (G : exists s, w_log (snd ((ic <- try_issuers orc order k id ;; save pl (fst ic) d k (snd ic) m) w1)) = s ++ w_log w1 /\
                        forall e, In e s -> (exists i b, e = LIssue i k b) \/ (forall i k' b, e <> LIssue i k' b)).
  { unfold bind. destruct (e_try_issuers orc order k id w1) as (s1 & E1 & O1).
    destruct (try_issuers orc order k id w1) as [[ic|e|] w2]; cbn [snd] in *;
      try (exists s1; split; [exact E1 | intros e0 H; left; apply O1, H]).
    destruct (q_save pl (fst ic) d k (snd ic) m w2) as (s2 & E2 & Q2).
    exists (s2 ++ s1). rewrite E2, E1, app_assoc. split; [reflexivity|]. intros e0 H. apply in_app_or in H.
    destruct H as [H|H]; [right; intros i k' b ->; exact (Q2 _ _ _ H) | left; apply O1, H]. }
  destruct G as (s & E & HS). exists (s ++ [LGen k]). unfold w1 in E at 2. cbn [w_log] in E. rewrite E, <- app_assoc.
  split; [reflexivity|]. intros i k' b H. apply in_app_or in H. apply in_or_app.
  destruct H as [H|[H|[]]]; [|discriminate H].
  destruct (HS _ H) as [(i' & b' & Eq)|N]; [injection Eq as _ <- _; right; left; reflexivity | destruct (N i k' b eq_refl)].
Qed.

Ltac f_bind := apply (e_bind fresh_seg fresh_app).
Ltac f_quiet := apply (e_weaken fresh_seg _ quiet quiet_fresh).

Section Fresh.
  Variables (pl : plan) (cfg : config) (sp : subject).
  Hypothesis no_reuse : reuse cfg = false.

  Lemma f_obtain_body orc : emits (obtain_body pl cfg sp orc) fresh_seg.
  Proof.
    unfold obtain_body. rewrite no_reuse. f_bind; [f_quiet; apply q_has_any|]. intros re.
    destruct re; [apply (e_ret fresh_seg fresh_nil)|].
    (* kr = None: the key is generated *)
    intros w. unfold bind at 1. cbn [ret fst snd]. apply e_issue_unit.
  Qed.
  Lemma f_renew_body orc f : emits (renew_body pl cfg sp orc f) fresh_seg.
  Proof.
    unfold renew_body. rewrite no_reuse. f_bind; [f_quiet; apply q_load_any|]. intros [[[j k0] c0] m0].
    destruct (_ && _); [apply (e_ret fresh_seg fresh_nil) | apply e_issue_unit].
  Qed.
  Lemma f_locked {A} (body : M A) : emits body fresh_seg -> emits (with_lock pl body) fresh_seg.
  Proof. apply e_with_lock; [apply fresh_nil | apply fresh_app | apply quiet_fresh]. Qed.
  Lemma f_obtain orc : emits (obtain pl cfg sp orc) fresh_seg.
  Proof.
    unfold obtain. f_bind; [f_quiet; apply q_has_any|]. intros pre. destruct pre; [apply (e_ret fresh_seg fresh_nil)|].
    f_bind; [f_quiet; apply q_check_storage|]. intros _. apply f_locked, f_obtain_body.
  Qed.
  Lemma f_renew orc f : emits (renew pl cfg sp orc f) fresh_seg.
  Proof. unfold renew. f_bind; [f_quiet; apply q_check_storage|]. intros _. apply f_locked, f_renew_body. Qed.
  Lemma f_retry {A} (body : oracle -> M A) : (forall o, emits (body o) fresh_seg) ->
    forall more o, emits (retry body o more) fresh_seg.
  Proof.
    intros HB. induction more as [|o1 r IH]; intros o; cbn [retry]; [apply HB|].
    f_bind; [apply (e_catch fresh_seg), HB|]. intros [a|e]; [apply (e_ret fresh_seg fresh_nil) | apply IH].
  Qed.
  Lemma f_retry_c {A} (body : oracle -> M A) : (forall o, emits (body o) fresh_seg) ->
    forall nrun more o, emits (retry_c body o more nrun) fresh_seg.
  Proof.
    intros HB. induction nrun as [|n IH]; intros more o.
    - destruct more; apply (e_fail fresh_seg fresh_nil).
    - assert (E : retry_c body o more (S n) =
                  (x <- catch (body o) ;; match x with inl a => ret a | inr e => match more with [] => fail e | o' :: r => retry_c body o' r n end end))
        by (destruct more; reflexivity).
      rewrite E. f_bind; [apply (e_catch fresh_seg), HB|]. intros [a|e]; [apply (e_ret fresh_seg fresh_nil)|].
      destruct more; [apply (e_fail fresh_seg fresh_nil) | apply IH].
  Qed.
End Fresh.

Lemma f_manage pl cfg sp orc : reuse cfg = false -> emits (manage pl cfg sp orc) fresh_seg.
Proof.
  intros NR. unfold manage. f_bind; [apply (e_catch fresh_seg); f_quiet; apply q_load_managed|]. intros [mc|e].
  - destruct (_ && _).
    + unfold force_renew. f_bind; [|intros _; f_quiet; apply q_load_managed].
      destruct (m_rev mc) as [[|]|]; try (apply f_renew; exact NR).
      f_bind; [apply (e_catch fresh_seg); f_quiet; apply q_move_compromised|]. intros _. apply f_obtain; exact NR.
    + destruct (is_due _); [|apply (e_ret fresh_seg fresh_nil)].
      f_bind; [apply f_renew; exact NR | intros _; f_quiet; apply q_load_managed].
  - destruct e; try apply (e_fail fresh_seg fresh_nil).
    f_bind; [apply f_obtain; exact NR | intros _; f_quiet; apply q_load_managed].
Qed.

(** fresh_key_in_log: every operation of a history, under every fault plan *)
Theorem fresh_key_in_log pl cfg sp orc h : reuse cfg = false -> emits (run_hop pl cfg sp orc h) fresh_seg.
Proof.
  intros NR. destruct h as [|f| |i kc|]; cbn [run_hop].
  - f_bind; [apply f_obtain; exact NR | intros _; apply (e_ret fresh_seg fresh_nil)].
  - f_bind; [apply f_renew; exact NR | intros _; apply (e_ret fresh_seg fresh_nil)].
  - f_bind; [apply f_manage; exact NR | intros mc; apply (e_ret fresh_seg fresh_nil)].
  - f_bind; [|intros _; apply (e_ret fresh_seg fresh_nil)].
    intros w. exists []. split; [|apply fresh_nil]. unfold revoke_env. destruct (sget _ _) as [[?|?|?]|]; reflexivity.
  - f_bind; [f_quiet; apply q_revoke_api | intros _; apply (e_ret fresh_seg fresh_nil)].
Qed.
(** ... and the retrying entry points, with or without a cancelled context *)
Theorem fresh_key_in_log_async pl cfg sp o more f :
  reuse cfg = false ->
  emits (obtain_async pl cfg sp o more) fresh_seg /\ emits (renew_async pl cfg sp o more f) fresh_seg /\
  (forall n, emits (obtain_async_c pl cfg sp o more n) fresh_seg) /\
  (forall n, emits (renew_async_c pl cfg sp o more f n) fresh_seg).
Proof.
  intros NR. repeat split; try intros n.
  - unfold obtain_async. f_bind; [f_quiet; apply q_has_any|]. intros pre. destruct pre; [apply (e_ret fresh_seg fresh_nil)|].
    f_bind; [f_quiet; apply q_check_storage|]. intros _. apply f_locked, f_retry. intros; apply f_obtain_body, NR.
  - unfold renew_async. f_bind; [f_quiet; apply q_check_storage|]. intros _. apply f_locked, f_retry. intros; apply f_renew_body, NR.
  - unfold obtain_async_c. f_bind; [f_quiet; apply q_has_any|]. intros pre. destruct pre; [apply (e_ret fresh_seg fresh_nil)|].
    f_bind; [f_quiet; apply q_check_storage|]. intros _. apply f_locked, f_retry_c. intros; apply f_obtain_body, NR.
  - unfold renew_async_c. f_bind; [f_quiet; apply q_check_storage|]. intros _. apply f_locked, f_retry_c. intros; apply f_renew_body, NR.
Qed.
