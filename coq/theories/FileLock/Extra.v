(** C08 — further theorems over the timed LTS and about the monitors (added last; the existing
    files keep their shape): the acquisition context has no influence on a held lock; a lock file
    left by a creator that died in its creation gap becomes obtainable; exactly when two names
    share a lock file; what the monitors' [true] means. *)
From Coq Require Import List ZArith Bool Lia.
From CM Require Import Lib.Str Lib.Wire Lib.SafeSteps Gen.Consts Safe.Model Safe.KeysProofs.
From CM Require Import FileLock.Model FileLock.Check FileLock.Proofs.
Import ListNotations.
Open Scope Z_scope.

(** * the context passed to Lock matters to the waiting call only *)

(** a context that ends (cancel, deadline) is only ever noticed by a Lock call that is sleeping
    in one of its selects; the step changes that thread alone: no lock file, no content, no
    modification time, no heartbeat and no other thread is touched *)
Theorem cancel_affects_only_the_waiting_call c s t s' : step c s (LCancel t) = Some s' ->
  (exists ec u, cs s t = CSleep ec u) /\ cs s' t = CFailed ErrCtx /\
  hb s' = hb s /\ file s' = file s /\ content s' = content s /\ mtime s' = mtime s /\ now s' = now s /\
  forall t', t' <> t -> cs s' t' = cs s t'.
Proof.
  cbn [step]. destruct (cs s t) eqn:E; try discriminate. intros H; injection H as <-.
  split; [eauto|]. cbn [cs hb file content mtime now set_cs]. rewrite upd_eq.
  repeat (split; [reflexivity|]). intros t' Hne. apply upd_neq. exact Hne.
Qed.

(** in particular the end of the ACQUISITION context is no step at all of a thread that holds
    the lock (or has created the file): Lock has returned, nothing of the lock listens to it *)
Theorem ended_context_is_no_step_of_a_holder c s t i : owner s t i -> step c s (LCancel t) = None.
Proof. intros [[ec H]|H]; cbn [step]; rewrite H; reflexivity. Qed.

(** and whatever contexts end along the way ([LCancel] of any waiter at any time is among the
    labels of the runs): the lock file of a holder is kept fresh by its heartbeat - either it
    carries an Updated stamp with the next refresh due one interval later and at most [delta]
    overdue, or the heartbeat is between its truncate and its write *)
Theorem held_lock_is_kept_fresh c (Hchk : checks c = true) (Hgrd : guard c = true) (Hcfg : good_cfg c) s t i :
  reach c (live_ok c) init s -> cs s t = CHolding i ->
  file s = Some i /\
  ((exists p cr due u, hb s i = HSleep p cr due /\ content s i = FMeta (Some cr) (Some u) /\
                       due = u + interval c /\ now s <= due + delta c /\ is_stale c (now s) (Some cr) (Some u) = false) \/
   (exists p cr sn, hb s i = HTrunc p cr i (Some cr) sn /\ content s i = FEmpty)).
Proof.
  intros R Hh. destruct (BothInv_reach c Hchk Hgrd Hcfg s R) as (HB & HM & _).
  split; [apply (M_file c s HM t); right; exact Hh|].
  destruct (M_hold c s HM t i Hh) as [(p & cr & due & u & H1 & H2 & H3)|H]; [left | right; exact H].
  exists p, cr, due, u. split; [exact H1|]. split; [exact H2|]. split; [exact H3|].
  pose proof (HB_sleep c s HB _ _ _ _ H1) as Hs. split; [exact Hs|].
  destruct Hcfg as (Hint & Hdel & Hfac & _). unfold is_stale. apply Z.ltb_ge. lia.
Qed.

(** * a creator that died in its creation gap *)

(** The process of a thread that has created the lock file and not yet written it is killed in
    ANY reachable state (whoever else is alive: former holders with lingering heartbeats,
    waiters, other lock cycles).  In every later state in which that file is still in place: it
    is empty, its modification time is that of the create, and a waiter that has used up its
    retries and reads it when more than factor * interval has passed since the create removes
    it and creates its own lock file by its own next three steps, in no time. *)
Theorem dead_creator_lock_obtainable c (Hchk : checks c = true) (Hcfg : good_cfg c) s0 t ec0 i s ls s' w ec :
  HBInv c s0 -> cs s0 t = CCreated ec0 i -> file s0 = Some i ->
  step c s0 (LKill (cproc s0 t)) = Some s ->
  run c s ls = Some s' -> file s' = Some i ->
  cs s' w = CExists ec -> (retries c <= S ec)%nat -> factor c * interval c < now s' - mtime s0 i ->
  content s' i = FEmpty /\ mtime s' i = mtime s0 i /\
  exists s3, run c s' [LOpenRead w; LRemove w; LTryCreate w] = Some s3 /\
             cs s3 w = CCreated (S ec) (nexti s') /\ file s3 = Some (nexti s') /\ now s3 = now s'.
Proof.
  intros HB Hc Hf Hk Hr Hf' Hw Hret Hold.
  assert (Hemp : content s0 i = FEmpty) by (destruct (HB_created c s0 HB _ _ _ Hc) as (E & _); exact E).
  destruct (empty_recovers c Hchk Hcfg s0 t i s ls s' HB (or_introl (ex_intro _ ec0 Hc)) Hf Hemp Hk Hr Hf') as (Hct & Hmt & _).
  split; [exact Hct|]. split; [exact Hmt|].
  assert (Hcond : ((S ec <? retries c)%nat || (guard c && negb (factor c * interval c <? now s' - mtime s' i))) = false).
  { apply orb_false_iff. split; [apply Nat.ltb_ge; exact Hret|].
    rewrite Hmt. apply Z.ltb_lt in Hold. rewrite Hold. cbn. apply andb_false_r. }
  cbn [run step]. rewrite Hw, Hf', Hct, Hcond. cbn [step cs set_cs]. rewrite upd_eq.
  cbn [step cs file]. rewrite upd_eq. eexists. split; [reflexivity|].
  cbn [cs file now nexti]. rewrite upd_eq. auto.
Qed.

(** * when do two names share a lock file *)

(** exactly when their Safe images are equal: Safe is the only thing between a lock name and
    its file (no cut, no hash, no case left) *)
Theorem names_share_lock_file_iff lower is_space :
  (forall c, is_upper_ascii (lower c) = false) ->
  forall root n1 n2, good_str root = true ->
  (lock_filename lower is_space root n1 = lock_filename lower is_space root n2 <->
   safe lower is_space n1 = safe lower is_space n2).
Proof.
  intros H2 root n1 n2 Hr. split.
  - intros E.
    destruct (lockfile_in_locks_dir lower is_space H2 root n1 Hr) as [K1 _].
    destruct (lockfile_in_locks_dir lower is_space H2 root n2 Hr) as [K2 _].
    rewrite E, K2 in K1. apply app_inv_head in K1. injection K1; intros K.
    apply app_inv_tail in K. congruence.
  - intros E. unfold lock_filename. rewrite E. reflexivity.
Qed.

(** * what the monitors' [true] means *)

(** mutual-exclusion monitor: the hold intervals of two different threads in an accepted case do
    not overlap (up to the clock slack) *)
Theorem mutex_ok_sound c : mutex_ok c = true ->
  forall t1 a1 e1 t2 a2 e2, In (t1, a1, e1) (holds_of c) -> In (t2, a2, e2) (holds_of c) ->
  t1 = t2 \/ e1 <= a2 + clock_slack \/ e2 <= a1 + clock_slack.
Proof.
  unfold mutex_ok. intros H t1 a1 e1 t2 a2 e2 H1 H2. rewrite forallb_forall in H.
  specialize (H _ H1). rewrite forallb_forall in H. specialize (H _ H2). cbn in H.
  apply orb_true_iff in H. destruct H as [H|H]; [apply orb_true_iff in H; destruct H as [H|H]|].
  - left. apply Z.eqb_eq. exact H.
  - right; left. apply Z.leb_le. exact H.
  - right; right. apply Z.leb_le. exact H.
Qed.

(** recovery monitors (kill of the holder, pre-made lock file of a dead owner, creator dead in its
    gap all use [recovered_by]): in an accepted case either somebody acquired in (from, to], or no
    contender that was there by from + 2 s and was not killed returned an error of its own at or
    after [from], and none was still waiting at [to] within the observed horizon *)
Theorem recovered_by_sound c from to : recovered_by c from to = true ->
  (exists o, In o (cobs c) /\ oout o = 0 /\ from < otime o <= to) \/
  (forall o st, In o (cobs c) -> first_time (cevents c) 0 (otid o) = Some st -> st <= from + 2000000000 ->
     not_killed c o = true ->
     ~ ((oout o = 2 \/ oout o = 3) /\ from <= otime o) /\
     ~ (persistent_waiter c from to o = true /\ to < chorizon c)).
Proof.
  unfold recovered_by. intros H. apply orb_true_iff in H. destruct H as [H|H].
  - left. apply existsb_exists in H. destruct H as (o & Ho & H). exists o. split; [exact Ho|].
    rewrite !andb_true_iff in H. destruct H as ((A & B) & C).
    apply Z.eqb_eq in A. apply Z.ltb_lt in B. apply Z.leb_le in C. auto.
  - right. intros o st Ho Hst Hle Hnk. apply negb_true_iff in H.
    assert (Hf : (match first_time (cevents c) 0 (otid o) with
                  | Some st => (st <=? from + 2000000000) && not_killed c o &&
                               ((((oout o =? 2) || (oout o =? 3)) && (from <=? otime o)) ||
                                (persistent_waiter c from to o && (to <? chorizon c)))
                  | None => false end) = false).
    { destruct (existsb _ (cobs c)) eqn:E in H; [discriminate|].
      rewrite <- Bool.not_true_iff_false in E. rewrite existsb_exists in E.
      apply Bool.not_true_iff_false. intros X. apply E. exists o. split; [exact Ho | exact X]. }
    rewrite Hst in Hf. apply Z.leb_le in Hle. rewrite Hle, Hnk in Hf. cbn [andb] in Hf.
    apply orb_false_iff in Hf. destruct Hf as [F1 F2]. split.
    + intros [[A|A] B]; apply Z.leb_le in B; rewrite B, A in F1; cbn in F1; discriminate.
    + intros [A B]. apply Z.ltb_lt in B. rewrite A, B in F2. discriminate.
Qed.

(** names monitor: in an accepted names case every thread whose name nobody else uses acquired
    within the prompt bound; and the model's lock file is the implementation's for every name *)
Theorem names_spec_ok_sound c : names_spec_ok c = true ->
  forall t, In t (nthreads c) -> count_name c (nname t) = 1%nat -> nout t = 0 /\ nret t - nstart t <= nprompt c.
Proof.
  unfold names_spec_ok. intros H t Ht Hc. rewrite forallb_forall in H. specialize (H t Ht).
  rewrite Hc in H. cbn in H. apply andb_true_iff in H. destruct H as [A B].
  apply Z.eqb_eq in A. apply Z.leb_le in B. auto.
Qed.
Theorem names_model_agrees_sound c : names_model_agrees c = true ->
  forall t, In t (nthreads c) -> model_lock_file (nroot c) (nname t) = nfile t.
Proof.
  unfold names_model_agrees. intros H t Ht. rewrite forallb_forall in H. specialize (H t Ht).
  apply str_eqb_eq. exact H.
Qed.

(** * an old heartbeat and a file it cannot decode *)

(** a heartbeat that wakes up and finds a lock file it cannot decode - empty, or with undecodable
    contents: the file of somebody who died in the middle of creating it - gives up; it does not
    truncate, write or touch the modification time (it must not adopt the file: only a file whose
    Created stamp is its own is refreshed).  In any state. *)
Theorem heartbeat_gives_up_on_undecodable_file c s i p cr due j :
  hb s i = HSleep p cr due -> due <= now s -> file s = Some j ->
  content s j = FEmpty \/ content s j = FGarbage ->
  exists s', step c s (LHbWake i) = Some s' /\ hb s' i = HDone /\
             content s' = content s /\ mtime s' = mtime s /\ file s' = file s /\ cs s' = cs s.
Proof.
  intros Hh Hd Hf Hc. cbn [step]. rewrite Hh. apply Z.leb_le in Hd. rewrite Hd, Hf.
  destruct Hc as [Hc|Hc]; rewrite Hc; (eexists; split; [reflexivity|]); cbn [hb content mtime file cs];
    rewrite upd_eq; auto.
Qed.

(** in every state of every run from [init] (kills, cancels, anything) a heartbeat that has
    truncated is about to write its OWN file with its OWN Created stamp: heartbeats never write
    into a lock file created by somebody else *)
Theorem heartbeat_writes_only_its_own_file c (Hchk : checks c = true) (Hcfg : good_cfg c) ok s i p cr j fcr sn :
  reach c ok init s -> hb s i = HTrunc p cr j fcr sn -> j = i /\ fcr = Some cr.
Proof. intros R H. exact (HB_trunc c s (HBInv_reach c Hchk Hcfg ok s R) _ _ _ _ _ _ H). Qed.

(** cancel monitor: in an accepted case every Lock call whose context ended and whose process
    was not killed has returned, at the latest [cancel_bound] after the end of the context *)
Theorem cancel_ok_sound c : cancel_ok c = true ->
  forall e o, In e (cevents c) -> ekind e = 3 ->
    find (fun o => otid o =? ea e) (cobs c) = Some o ->
    first_time (cevents c) 2 (pid_of (cevents c) (otid o)) = None ->
    oout o <> -1 /\ otime o <= etime e + cancel_bound.
Proof.
  unfold cancel_ok. intros H e o He Hk Hf Hnk. rewrite forallb_forall in H. specialize (H e He).
  rewrite Hk in H. cbn in H. rewrite Hf, Hnk in H. apply andb_true_iff in H. destruct H as [A B].
  apply negb_true_iff, Z.eqb_neq in A. apply Z.leb_le in B. auto.
Qed.

(** * lock files without a live owner, in any state (pre-made files of dead holders) *)

(** an empty or undecodable lock file that has not been modified for more than factor * interval
    is removed and replaced by a waiter that has used up its retries, by its own three steps, in
    no time - for the code with the modification-time guard and the undecodable-as-empty rule *)
Theorem old_unreadable_file_obtainable c s i w ec : undec c = true ->
  file s = Some i -> content s i = FEmpty \/ content s i = FGarbage ->
  cs s w = CExists ec -> (retries c <= S ec)%nat -> factor c * interval c < now s - mtime s i ->
  exists s3, run c s [LOpenRead w; LRemove w; LTryCreate w] = Some s3 /\
             cs s3 w = CCreated (S ec) (nexti s) /\ file s3 = Some (nexti s) /\ now s3 = now s.
Proof.
  intros Hu Hf Hc Hw Hret Hold.
  assert (Hcond : ((S ec <? retries c)%nat || (guard c && negb (factor c * interval c <? now s - mtime s i))) = false).
  { apply orb_false_iff. split; [apply Nat.ltb_ge; exact Hret|].
    apply Z.ltb_lt in Hold. rewrite Hold. cbn. apply andb_false_r. }
  cbn [run step]. rewrite Hw, Hf.
  destruct Hc as [Hc|Hc]; rewrite Hc; try rewrite Hu; rewrite Hcond; cbn [step cs set_cs]; rewrite upd_eq;
    cbn [step cs file]; rewrite upd_eq; (eexists; split; [reflexivity|]); cbn [cs file now nexti]; rewrite upd_eq; auto.
Qed.

(** ... and as long as it was modified within factor * interval, or the retries are not used
    up, the waiter only sleeps the empty-retry time: it neither removes the file nor fails *)
Theorem young_unreadable_file_waited_for c s i w ec : undec c = true -> guard c = true ->
  file s = Some i -> content s i = FEmpty \/ content s i = FGarbage -> cs s w = CExists ec ->
  (S ec < retries c)%nat \/ now s - mtime s i <= factor c * interval c ->
  exists s1, step c s (LOpenRead w) = Some s1 /\ cs s1 w = CSleep (S ec) (now s + esleep c) /\ file s1 = file s.
Proof.
  intros Hu Hg Hf Hc Hw Hy.
  assert (Hcond : ((S ec <? retries c)%nat || (guard c && negb (factor c * interval c <? now s - mtime s i))) = true).
  { apply orb_true_iff. destruct Hy as [Hy|Hy]; [left; apply Nat.ltb_lt; exact Hy | right].
    rewrite Hg. cbn. apply negb_true_iff, Z.ltb_ge. exact Hy. }
  cbn [step]. rewrite Hw, Hf. destruct Hc as [Hc|Hc]; rewrite Hc; try rewrite Hu; rewrite Hcond;
    (eexists; split; [reflexivity|]); cbn [cs file set_cs]; rewrite upd_eq; auto.
Qed.

(** free-lock monitor: in an accepted case without a pre-made file, kills, suspensions or crashed
    creators, a thread all of whose contenders had finished or came later acquired promptly *)
Theorem free_ok_sound c : free_ok c = true -> cinit c = None ->
  existsb (fun e => (ekind e =? 2) || (ekind e =? 4) || (ekind e =? 6)) (cevents c) = false ->
  forall o st, In o (cobs c) -> first_time (cevents c) 0 (otid o) = Some st -> free_for c o st = true ->
  oout o = 0 /\ otime o - st <= free_prompt.
Proof.
  unfold free_ok. intros H Hi Hk o st Ho Hst Hf. rewrite Hi, Hk in H. cbn [orb] in H.
  rewrite forallb_forall in H. specialize (H o Ho). rewrite Hst, Hf in H. cbn in H.
  apply andb_true_iff in H. destruct H as [A B]. apply Z.eqb_eq in A. apply Z.leb_le in B. auto.
Qed.

(** * the simulator refines the LTS

    What is compared with the implementation is [simulate]; what the theorems are about is the
    LTS.  Every step of the simulator is a (possibly empty) sequence of LTS steps - except the
    content patch of a creator that crashed in the MIDDLE of its write ([ECrashCreate] with the
    garbage flag), which is outside the LTS by design. *)
Lemma take_sound c m l m' : take c m l = Some m' -> step c (sst m) l = Some (sst m').
Proof. unfold take. destruct (step c (sst m) l) as [s'|]; [|discriminate]. intros H; injection H as <-. reflexivity. Qed.

Definition no_garbage_crash (sc : list (Z * sevent)) : Prop :=
  forall t e, In (t, e) sc -> match e with ECrashCreate _ _ g => g = false | _ => True end.

Lemma crash_create_sound c m t p : exists ls, run c (sst m) ls = Some (sst (crash_create c m t p false)).
Proof.
  unfold crash_create.
  destruct (take c m (LStart t p)) as [m1|] eqn:E1; [|exists []; reflexivity].
  pose proof (take_sound _ _ _ _ E1) as S1.
  destruct (take c m1 (LTryCreate t)) as [m2|] eqn:E2; [|exists [LStart t p]; cbn [run]; rewrite S1; reflexivity].
  pose proof (take_sound _ _ _ _ E2) as S2.
  destruct (take c m2 (LKill p)) as [m3|] eqn:E3.
  - pose proof (take_sound _ _ _ _ E3) as S3. exists [LStart t p; LTryCreate t; LKill p]. cbn [run]. rewrite S1, S2, S3.
    destruct (cs (sst m2) t); reflexivity.
  - exists [LStart t p; LTryCreate t]. cbn [run]. rewrite S1, S2. reflexivity.
Qed.

Theorem sim_step_refines_lts c m m' : sim_step c m = Some m' -> no_garbage_crash (script m) ->
  exists ls, run c (sst m) ls = Some (sst m').
Proof.
  unfold sim_step. intros H Hng.
  repeat match type of H with
         | context [match ?x with _ => _ end] =>
             lazymatch type of x with config => fail | sim => fail | state => fail | _ => destruct x eqn:? end
         | context [if ?b then _ else _] => destruct b eqn:?
         end;
    try discriminate.
  all: try (match type of H with Some _ = Some _ => injection H as <- end).
  all: first
    [ match goal with |- context [crash_create ?cc ?mm ?t ?p ?g] =>
        assert (g = false) as -> by (match goal with Hn : no_garbage_crash (_ :: _) |- _ => exact (Hn _ _ (or_introl eq_refl)) end);
        destruct (crash_create_sound cc mm t p) as [ls0 Hls0]; exists ls0; exact Hls0 end
    | match goal with E : take _ _ ?l = Some _ |- _ =>
        exists [l]; cbn [run]; pose proof (take_sound _ _ _ _ E) as S; cbn [sst] in S; rewrite S; reflexivity end
    | exists []; reflexivity ].
Qed.

Lemma run_app c ls1 : forall s s1 ls2 s2, run c s ls1 = Some s1 -> run c s1 ls2 = Some s2 -> run c s (ls1 ++ ls2) = Some s2.
Proof.
  induction ls1 as [|l ls1 IH]; intros s s1 ls2 s2; cbn [run app].
  - intros H; injection H as <-. auto.
  - destruct (step c s l) as [x|]; [|discriminate]. apply IH.
Qed.

Lemma take_script c m l m' : take c m l = Some m' -> script m' = script m.
Proof. unfold take. destruct (step c (sst m) l); [|discriminate]. intros H; injection H as <-. reflexivity. Qed.
Lemma crash_create_script c m t p g : script (crash_create c m t p g) = script m.
Proof.
  unfold crash_create.
  destruct (take c m (LStart t p)) as [m1|] eqn:E1; [|reflexivity]. rewrite <- (take_script _ _ _ _ E1).
  destruct (take c m1 (LTryCreate t)) as [m2|] eqn:E2; [|reflexivity]. rewrite <- (take_script _ _ _ _ E2).
  destruct (take c m2 (LKill p)) as [m3|] eqn:E3; [|reflexivity]. rewrite <- (take_script _ _ _ _ E3).
  destruct (cs (sst m2) t); try reflexivity. destruct g; reflexivity.
Qed.

Lemma sim_step_script c m m' : sim_step c m = Some m' -> forall x, In x (script m') -> In x (script m).
Proof.
  unfold sim_step. intros H.
  repeat match type of H with
         | context [match ?x with _ => _ end] =>
             lazymatch type of x with config => fail | sim => fail | state => fail | _ => destruct x eqn:? end
         | context [if ?b then _ else _] => destruct b eqn:?
         end;
    try discriminate.
  all: try (match type of H with Some _ = Some _ => injection H as <- end).
  all: intros x Hx.
  all: first
    [ match goal with E : take _ _ _ = Some _ |- _ => rewrite (take_script _ _ _ _ E) in Hx; cbn [script] in Hx end
    | rewrite crash_create_script in Hx; cbn [script] in Hx
    | cbn [script] in Hx ].
  all: first [ exact Hx | right; exact Hx
             | match goal with E : script _ = _ |- _ => rewrite E in Hx; exact Hx end
             | match goal with E : script _ = _ :: _ |- _ => rewrite E; right; exact Hx end ].
Qed.

(** the whole simulation is a run of the LTS: whatever the correspondence compares with the
    implementation is one of the schedules the theorems quantify over *)
Theorem simulate_refines_lts c fuel : forall horizon m, no_garbage_crash (script m) ->
  exists ls, run c (sst m) ls = Some (sst (simulate c fuel horizon m)).
Proof.
  induction fuel as [|k IH]; intros horizon m Hng; cbn [simulate].
  - exists []. reflexivity.
  - destruct (horizon <? now (sst m)); [exists []; reflexivity|].
    destruct (sim_step c m) as [m1|] eqn:E; [|exists []; reflexivity].
    destruct (sim_step_refines_lts c m m1 E Hng) as [ls1 H1].
    assert (Hng1 : no_garbage_crash (script m1)).
    { intros t e Hin. apply (Hng t e). exact (sim_step_script c m m1 E _ Hin). }
    destruct (IH horizon m1 Hng1) as [ls2 H2]. exists (ls1 ++ ls2). exact (run_app c ls1 _ _ _ _ H1 H2).
Qed.

(** fresh-pre-file monitor: in an accepted case nobody obtained the lock more than 100 ms before
    the pre-made lock file became stale (by Updated, else Created; by its modification time when it
    is empty or undecodable) - whatever the age of its Created stamp.  Model side: a file that is
    not stale only makes a waiter sleep ([step] of [LOpenRead] on fresh [FMeta]; for empty files
    [young_unreadable_file_waited_for]). *)
Theorem fresh_prefile_respected_sound c tf : fresh_prefile_respected c = true -> pre_free_at c = Some tf ->
  forall o, In o (cobs c) -> oout o = 0 -> tf - 100000000 <= otime o.
Proof.
  unfold fresh_prefile_respected. intros H E o Ho Ha. rewrite E in H. rewrite forallb_forall in H.
  specialize (H o Ho). rewrite Ha in H. cbn in H. apply negb_true_iff, Z.ltb_ge in H. exact H.
Qed.
Theorem fresh_file_makes_a_waiter_sleep c s i cr u w ec : file s = Some i -> content s i = FMeta cr u ->
  is_stale c (now s) cr u = false -> cs s w = CExists ec ->
  exists s1 ec', step c s (LOpenRead w) = Some s1 /\ cs s1 w = CSleep ec' (now s + poll c) /\ file s1 = file s.
Proof.
  intros Hf Hc Hs Hw. cbn [step]. rewrite Hw, Hf, Hc, Hs. do 2 eexists. split; [reflexivity|].
  cbn [cs file set_cs]. rewrite upd_eq. auto.
Qed.
