(** Proofs about the FileLock LTS.

    Part A: invariants of every run (kills, give-ups, anything) of the code WITH the
            heartbeat's Created check: a heartbeat only ever writes its own inode, creation
            stamps are unique.
    Part B: mutual exclusion for runs without kills in which no waiter gives up on an empty
            file ([mutex_no_crash], [waiter_after_release]).
    Part C: cancellation ([cancel_prompt]).
    Part D: recovery after the holder's death ([kill_abandons], [abandoned_frozen],
            [stale_obtainable], [stale_within_bound]). *)
From Coq Require Import List ZArith Bool Lia.
From CM Require Import FileLock.Model.
Import ListNotations.
Open Scope Z_scope.

Lemma upd_eq {A} (f : nat -> A) n x : upd f n x n = x.
Proof. unfold upd. rewrite Nat.eqb_refl. reflexivity. Qed.
Lemma upd_neq {A} (f : nat -> A) n x m : m <> n -> upd f n x m = f m.
Proof. intros H. unfold upd. destruct (Nat.eqb_spec m n); [contradiction | reflexivity]. Qed.

Lemma opt_eqb_eq a b : opt_eqb a b = true <-> a = b.
Proof.
  destruct a, b; cbn; try (split; congruence).
  rewrite Z.eqb_eq. split; congruence.
Qed.

(** runs whose every step satisfies a predicate on (state before, label) *)
Inductive reach (c : config) (ok : state -> label -> Prop) : state -> state -> Prop :=
| reach_refl s : reach c ok s s
| reach_step s s1 l s2 : reach c ok s s1 -> ok s1 l -> step c s1 l = Some s2 -> reach c ok s s2.

Lemma reach_weaken c (ok ok' : state -> label -> Prop) s s' :
  (forall x l, ok x l -> ok' x l) -> reach c ok s s' -> reach c ok' s s'.
Proof. intros H R. induction R; [constructor | econstructor; eauto]. Qed.

Lemma reach_invariant c (ok : state -> label -> Prop) (P : state -> Prop) s s' :
  (forall x l y, P x -> ok x l -> step c x l = Some y -> P y) -> P s -> reach c ok s s' -> P s'.
Proof. intros Hstep H0 R. induction R; eauto. Qed.

Definition any_label (_ : state) (_ : label) : Prop := True.

(** * Part A *)
Definition hb_stamp (h : hbstate) : option Z :=
  match h with HSleep _ cr _ | HTrunc _ cr _ _ _ => Some cr | _ => None end.
Definition has_stamp (s : state) (i : ino) (cr : Z) : Prop :=
  (exists u, content s i = FMeta (Some cr) u) \/ hb_stamp (hb s i) = Some cr.

Record HBInv (c : config) (s : state) : Prop := {
  HB_trunc : forall i p cr j fcr sn, hb s i = HTrunc p cr j fcr sn -> j = i /\ fcr = Some cr;
  HB_uniq : forall i j cr, has_stamp s i cr -> has_stamp s j cr -> i = j;
  HB_le : forall i cr, has_stamp s i cr -> cr <= lastcreate s;
  HB_sleep : forall i p cr due, hb s i = HSleep p cr due -> now s <= due + delta c;
  HB_lt : forall i, hb s i <> HNone -> (i < nexti s)%nat;
  HB_created : forall t ec i, cs s t = CCreated ec i ->
               content s i = FEmpty /\ hb s i = HNone /\ (i < nexti s)%nat;
  HB_file : forall i, file s = Some i -> (i < nexti s)%nat;
  HB_fresh : forall i, (nexti s <= i)%nat -> content s i = FEmpty;
  HB_created_uniq : forall t1 t2 e1 e2 i, cs s t1 = CCreated e1 i -> cs s t2 = CCreated e2 i -> t1 = t2;
  HB_held : forall t i, cs s t = CHolding i -> hb s i <> HNone;
  HB_proc : forall t i q, cs s t = CHolding i -> hb_proc (hb s i) = Some q -> q = cproc s t;
  HB_time : forall i cr u, content s i = FMeta cr (Some u) -> u <= now s;
  HB_tids : forall t, cs s t <> CIdle -> In t (tids s);
  HB_nogarbage : forall i, content s i <> FGarbage     (* runs from [init]: nobody writes garbage *)
}.

Definition good_cfg (c : config) : Prop :=
  0 < interval c /\ 0 <= delta c /\ interval c + delta c <= factor c * interval c /\
  0 <= eps c <= factor c * interval c.

Lemma HBInv_init c : HBInv c init.
Proof.
  constructor; cbn; try discriminate; try congruence.
  - intros i j cr [[u H]|H] _; discriminate.
  - intros i cr [[u H]|H]; discriminate.
Qed.

Ltac inv_step H :=
  match type of H with
  | step ?c ?s ?l = Some ?s' =>
      destruct l; cbn [step] in H;
      repeat match type of H with
             | context [match cs ?s ?t with _ => _ end] => destruct (cs s t) eqn:?Ecs
             | context [match hb ?s ?i with _ => _ end] => destruct (hb s i) eqn:?Ehb
             | context [match file ?s with _ => _ end] => destruct (file s) eqn:?Ef
             | context [match content ?s ?i with _ => _ end] => destruct (content s i) eqn:?Ect
             | context [if ?b then _ else _] => destruct b eqn:?Eb
             end; try discriminate; injection H as <-
  end.

Lemma kill_hb_stamp p f i cr : hb_stamp (kill_hb p f i) = Some cr -> hb_stamp (f i) = Some cr.
Proof.
  unfold kill_hb. destruct (hb_proc (f i)) as [q|] eqn:E; [|auto]. destruct (Nat.eqb q p); [discriminate | auto].
Qed.
Lemma kill_hb_none p f i : f i = HNone -> kill_hb p f i = HNone.
Proof. intros H. unfold kill_hb. rewrite H. reflexivity. Qed.
Lemma kill_hb_cases p f i : kill_hb p f i = f i \/ (kill_hb p f i = HDone /\ hb_proc (f i) = Some p).
Proof.
  unfold kill_hb. destruct (hb_proc (f i)) as [q|] eqn:E; [|auto].
  destruct (Nat.eqb_spec q p); [subst; auto | auto].
Qed.
Lemma kill_cs_cases p pr f t : kill_cs p pr f t = f t \/ (kill_cs p pr f t = CDead /\ pr t = p /\ f t <> CIdle).
Proof.
  unfold kill_cs. destruct (f t) eqn:E; auto; destruct (Nat.eqb_spec (pr t) p); auto; right; repeat split; auto; discriminate.
Qed.

Lemma kill_cs_other p pr f t : pr t <> p -> kill_cs p pr f t = f t.
Proof. intros H. unfold kill_cs. destruct (f t); auto; destruct (Nat.eqb_spec (pr t) p); auto; contradiction. Qed.
Lemma kill_cs_dead p pr f t : pr t = p -> f t <> CIdle -> kill_cs p pr f t = CDead.
Proof. intros H Hn. unfold kill_cs. destruct (f t); try contradiction; rewrite H, Nat.eqb_refl; reflexivity. Qed.

Section PartA.
Variable c : config.
Hypothesis Hchk : checks c = true.
Hypothesis Hcfg : good_cfg c.

(** the heartbeat's truncate targets its own inode *)
Lemma wake_target s i p cr due j fcr u :
  HBInv c s -> hb s i = HSleep p cr due -> content s j = FMeta fcr u ->
  (checks c && negb (opt_eqb fcr (Some cr))) = false -> j = i /\ fcr = Some cr.
Proof.
  intros HI Hh Hc Hb. rewrite Hchk in Hb. cbn in Hb. apply negb_false_iff, opt_eqb_eq in Hb. subst fcr.
  split; [|reflexivity]. apply (HB_uniq c s HI j i cr).
  - left. eauto.
  - right. rewrite Hh. reflexivity.
Qed.

(** new stamps come only from createLockfile, and are later than all others *)
Lemma step_stamps s l s' : HBInv c s -> step c s l = Some s' ->
  forall k x, has_stamp s' k x ->
    has_stamp s k x \/ (exists t ec, l = LWriteMeta t /\ cs s t = CCreated ec k /\ x = now s /\ lastcreate s < now s).
Proof.
  intros HI Hstep. pose proof (HB_trunc c s HI) as Htr.
  inv_step Hstep; intros k x Hs; unfold has_stamp in *; cbn [content hb set_cs] in Hs; auto.
  all: try solve [left; destruct (Nat.eq_dec k i) as [->|Hk];
                   [rewrite upd_eq in Hs; destruct Hs as [Hs|Hs]; [auto | discriminate]
                   | rewrite upd_neq in Hs by assumption; exact Hs]].
  - (* create *)
    left. destruct (Nat.eq_dec k (nexti s)) as [->|Hk].
    + rewrite !upd_eq in Hs. destruct Hs as [[u Hu]|Hu]; discriminate.
    + rewrite !upd_neq in Hs by assumption. exact Hs.
  - (* write meta *)
    apply Z.ltb_lt in Eb. destruct (Nat.eq_dec k i) as [->|Hk].
    + right. exists t, ec. rewrite !upd_eq in Hs. repeat split; auto.
      destruct Hs as [[u Hu]|Hu]; [injection Hu; auto | cbn in Hu; injection Hu; auto].
    + left. rewrite !upd_neq in Hs by assumption. exact Hs.
  - (* truncate *)
    left. destruct (wake_target s i p created due i0 created0 updated HI Ehb Ect Eb0) as [-> ->].
    destruct (Nat.eq_dec k i) as [->|Hk].
    + rewrite !upd_eq in Hs. destruct Hs as [[u Hu]|Hu]; [discriminate|]. cbn in Hu. right. rewrite Ehb. exact Hu.
    + rewrite !upd_neq in Hs by assumption. exact Hs.
  - (* hb write *)
    left. destruct (Htr _ _ _ _ _ _ Ehb) as [-> ->].
    destruct (Nat.eq_dec k i) as [->|Hk].
    + rewrite !upd_eq in Hs. right. rewrite Ehb. cbn.
      destruct Hs as [[u Hu]|Hu]; [injection Hu; intros; subst; reflexivity | exact Hu].
    + rewrite !upd_neq in Hs by assumption. exact Hs.
  - (* kill *)
    left. destruct Hs as [Hs|Hs]; [auto|]. right. exact (kill_hb_stamp _ _ _ _ Hs).
Qed.

Lemma can_tick_hb s d i : can_tick c s d = true -> (i < nexti s)%nat -> hb_allows c s (now s + d) (hb s i) = true.
Proof.
  unfold can_tick. rewrite !andb_true_iff. intros [[_ H] _] Hi. rewrite forallb_forall in H.
  apply H. apply in_seq. lia.
Qed.
Lemma can_tick_nonneg s d : can_tick c s d = true -> 0 <= d.
Proof. unfold can_tick. rewrite !andb_true_iff. intros [[H _] _]. apply Z.leb_le. exact H. Qed.
Lemma can_tick_cs s d t : can_tick c s d = true -> In t (tids s) -> cs_allows c s (now s + d) (cs s t) = true.
Proof.
  unfold can_tick. rewrite !andb_true_iff. intros [_ H] Hi. rewrite forallb_forall in H. apply H. exact Hi.
Qed.

Lemma HBInv_step s l s' : HBInv c s -> step c s l = Some s' -> HBInv c s'.
Proof.
  intros HI Hstep. destruct Hcfg as (Hint & Hdel & Hfac).
  pose proof (step_stamps s l s' HI Hstep) as Hst.
  constructor.
  - (* HB_trunc *)
    pose proof (HB_trunc c s HI) as Htr.
    inv_step Hstep; cbn [hb set_cs]; intros i' p' cr' j' fcr' sn' H'; try (eapply Htr; eassumption).
    all: try (destruct (Nat.eq_dec i' i) as [->|Hne]; [rewrite upd_eq in H'; try discriminate | rewrite upd_neq in H' by assumption; eapply Htr; eassumption]).
    + destruct (Nat.eq_dec i' (nexti s)) as [->|Hne]; [rewrite upd_eq in H'; discriminate | rewrite upd_neq in H' by assumption; eapply Htr; eassumption].
    + injection H'; intros _ <- <- <- <-.
      destruct (wake_target s i p created due i0 created0 updated HI Ehb Ect Eb0) as [-> ->]. auto.
    + destruct (kill_hb_cases p (hb s) i') as [E|[E _]]; rewrite E in H'; [eapply Htr; eassumption | discriminate].
  - (* HB_uniq *)
    intros i j cr Hi Hj.
    destruct (Hst i cr Hi) as [Hi'|(t1 & e1 & -> & Hc1 & -> & Hlt)];
      destruct (Hst j _ Hj) as [Hj'|(t2 & e2 & Hl & Hc2 & Hx & Hlt2)].
    + exact (HB_uniq c s HI i j cr Hi' Hj').
    + subst cr. apply (HB_le c s HI) in Hi'. lia.
    + apply (HB_le c s HI) in Hj'. lia.
    + injection Hl; intros <-. congruence.
  - (* HB_le *)
    intros i cr Hi. destruct (Hst i cr Hi) as [Hi'|(t1 & e1 & -> & Hc1 & -> & Hlt)].
    + apply (HB_le c s HI) in Hi'.
      assert (lastcreate s <= lastcreate s').
      { clear - Hstep. inv_step Hstep; cbn; try lia; apply Z.ltb_lt in Eb; lia. }
      lia.
    + cbn [step] in Hstep. rewrite Hc1 in Hstep. apply Z.ltb_lt in Hlt. rewrite Hlt in Hstep.
      injection Hstep; intros <-. cbn. lia.
  - (* HB_sleep *)
    pose proof (HB_sleep c s HI) as Hsl. pose proof (HB_lt c s HI) as Hlt.
    inv_step Hstep; cbn [hb now set_cs]; intros i' p' cr' due' H'; try (eapply Hsl; eassumption).
    all: try (destruct (Nat.eq_dec i' i) as [->|Hne]; [rewrite upd_eq in H'; try discriminate | rewrite upd_neq in H' by assumption; eapply Hsl; eassumption]).
    + (* tick *)
      assert (Hi : (i' < nexti s)%nat) by (apply Hlt; rewrite H'; discriminate).
      pose proof (can_tick_hb s d i' Eb Hi) as Ha. rewrite H' in Ha. cbn in Ha. apply Z.leb_le in Ha. exact Ha.
    + destruct (Nat.eq_dec i' (nexti s)) as [->|Hne]; [rewrite upd_eq in H'; discriminate | rewrite upd_neq in H' by assumption; eapply Hsl; eassumption].
    + injection H'; intros <- <- <-. lia.
    + injection H'; intros <- <- <-. lia.
    + destruct (kill_hb_cases p (hb s) i') as [E|[E _]]; rewrite E in H'; [eapply Hsl; eassumption | discriminate].
  - (* HB_lt *)
    pose proof (HB_lt c s HI) as Hlt. pose proof (HB_created c s HI) as Hcr.
    inv_step Hstep; cbn [hb nexti set_cs]; intros i' H'; try (apply Hlt; assumption).
    all: try (destruct (Nat.eq_dec i' i) as [->|Hne]; [| rewrite upd_neq in H' by assumption; apply Hlt; assumption]).
    + destruct (Nat.eq_dec i' (nexti s)) as [->|Hne]; [lia | rewrite upd_neq in H' by assumption; apply Hlt in H'; lia].
    + apply (Hcr _ _ _ Ecs).
    + apply Hlt. congruence.
    + apply Hlt. congruence.
    + apply Hlt. congruence.
    + apply Hlt. congruence.
    + apply Hlt. congruence.
    + apply Hlt. congruence.
    + apply Hlt. intros E. apply H'. apply kill_hb_none. exact E.
  - (* HB_created *)
    pose proof (HB_created c s HI) as Hcr. pose proof (HB_created_uniq c s HI) as Hcu.
    pose proof (HB_trunc c s HI) as Htr.
    inv_step Hstep; cbn [cs content hb nexti set_cs]; intros t' ec' i' H'.
    all: try (destruct (Nat.eq_dec t' t) as [->|Hne]; [rewrite upd_eq in H'; try discriminate | rewrite upd_neq in H' by assumption]).
    all: try (eapply Hcr; eassumption).
    all: try solve [destruct (Hcr _ _ _ H') as (H1 & H2 & H3);
                    assert (i' <> i) by (intros ->; congruence); rewrite upd_neq by assumption; auto].
    + (* create: new *)
      injection H'; intros <- <-. rewrite !upd_eq. auto.
    + destruct (Hcr _ _ _ H') as (H1 & H2 & H3). rewrite !upd_neq by lia. auto.
    + (* write meta, another thread's created *)
      destruct (Hcr _ _ _ H') as (H1 & H2 & H3).
      assert (i' <> i) by (intros ->; apply Hne; eapply Hcu; eassumption).
      rewrite !upd_neq by assumption. auto.
    + (* truncate *)
      destruct (wake_target s i p created due i0 created0 updated HI Ehb Ect Eb0) as [-> ->].
      destruct (Hcr _ _ _ H') as (H1 & H2 & H3).
      assert (i' <> i) by (intros ->; congruence). rewrite !upd_neq by assumption. auto.
    + (* hb write *)
      destruct (Htr _ _ _ _ _ _ Ehb) as [-> ->].
      destruct (Hcr _ _ _ H') as (H1 & H2 & H3).
      assert (i' <> i) by (intros ->; congruence). rewrite !upd_neq by assumption. auto.
    + (* kill *)
      destruct (kill_cs_cases p (cproc s) (cs s) t') as [E|[E _]]; rewrite E in H'; [|discriminate].
      destruct (Hcr _ _ _ H') as (H1 & H2 & H3). split; [assumption|]. split; [apply kill_hb_none; assumption | assumption].
  - (* HB_file *)
    inv_step Hstep; cbn [file nexti set_cs]; intros i' H'; try (apply (HB_file c s HI); assumption); try discriminate.
    all: try (injection H'; intros <-; apply (HB_file c s HI); assumption).
    injection H'; intros <-. lia.
  - (* HB_fresh *)
    pose proof (HB_fresh c s HI) as Hfr. pose proof (HB_created c s HI) as Hcr.
    pose proof (HB_lt c s HI) as Hlt. pose proof (HB_trunc c s HI) as Htr.
    inv_step Hstep; cbn [content nexti set_cs]; intros i' H'; try (apply Hfr; assumption).
    + rewrite upd_neq by lia. apply Hfr. lia.
    + destruct (Hcr _ _ _ Ecs) as (_ & _ & H3). rewrite upd_neq by lia. apply Hfr; assumption.
    + apply (HB_file c s HI) in Ef. rewrite upd_neq by lia. apply Hfr; assumption.
    + destruct (Htr _ _ _ _ _ _ Ehb) as [-> _].
      assert ((i < nexti s)%nat) by (apply Hlt; congruence). rewrite upd_neq by lia. apply Hfr; assumption.
  - (* HB_created_uniq *)
    pose proof (HB_created_uniq c s HI) as Hcu. pose proof (HB_created c s HI) as Hcr.
    inv_step Hstep; cbn [cs set_cs]; intros t1 t2 e1 e2 i' H1 H2; try (eapply Hcu; eassumption).
    all: try ((destruct (Nat.eq_dec t1 t) as [->|Hn1]; [rewrite upd_eq in H1; try discriminate | rewrite upd_neq in H1 by assumption]);
              (destruct (Nat.eq_dec t2 t) as [->|Hn2]; [rewrite upd_eq in H2; try discriminate | rewrite upd_neq in H2 by assumption]);
              try reflexivity; try (eapply Hcu; eassumption)).
    + injection H1; intros <- <-. destruct (Hcr _ _ _ H2) as (_ & _ & H3). lia.
    + injection H2; intros <- <-. destruct (Hcr _ _ _ H1) as (_ & _ & H3). lia.
    + destruct (kill_cs_cases p (cproc s) (cs s) t1) as [E1|[E1 _]]; rewrite E1 in H1; [|discriminate].
      destruct (kill_cs_cases p (cproc s) (cs s) t2) as [E2|[E2 _]]; rewrite E2 in H2; [|discriminate].
      eapply Hcu; eassumption.
  - (* HB_held *)
    pose proof (HB_held c s HI) as Hh. pose proof (HB_lt c s HI) as Hlt. pose proof (HB_created c s HI) as Hcr.
    inv_step Hstep; cbn [cs hb set_cs]; intros t' i' H'.
    all: try (destruct (Nat.eq_dec t' t) as [->|Hne]; [rewrite upd_eq in H'; try discriminate | rewrite upd_neq in H' by assumption]).
    all: try (eapply Hh; eassumption).
    all: try solve [destruct (Nat.eq_dec i' i) as [->|Hni]; [rewrite upd_eq; discriminate | rewrite upd_neq by assumption; eapply Hh; eassumption]].
    + assert ((i' < nexti s)%nat) by (apply Hlt; eapply Hh; eassumption). rewrite upd_neq by lia. eapply Hh; eassumption.
    + injection H'; intros <-. rewrite upd_eq. discriminate.
    + destruct (kill_cs_cases p (cproc s) (cs s) t') as [E|[E _]]; rewrite E in H'; [|discriminate].
      pose proof (Hh _ _ H') as Hx. destruct (kill_hb_cases p (hb s) i') as [E2|[E2 _]]; rewrite E2; [assumption | discriminate].
  - (* HB_proc *)
    pose proof (HB_proc c s HI) as Hp. pose proof (HB_held c s HI) as Hh. pose proof (HB_lt c s HI) as Hlt.
    pose proof (HB_created c s HI) as Hcr. pose proof (HB_trunc c s HI) as Htr.
    inv_step Hstep; cbn [cs hb cproc set_cs]; intros t' i' q H' Hq.
    all: try (destruct (Nat.eq_dec t' t) as [->|Hne]; [rewrite upd_eq in H'; try discriminate | rewrite upd_neq in H' by assumption]).
    all: try (eapply Hp; eassumption).
    + (* start: cproc changes only for the starting thread *)
      rewrite upd_neq by assumption. eapply Hp; eassumption.
    + assert ((i' < nexti s)%nat) by (apply Hlt; eapply Hh; eassumption). rewrite upd_neq in Hq by lia. eapply Hp; eassumption.
    + injection H'; intros <-. rewrite upd_eq in Hq. cbn in Hq. congruence.
    + (* write meta, another holder *)
      assert (i' <> i) by (intros ->; destruct (Hcr _ _ _ Ecs) as (_ & E & _); exact (Hh _ _ H' E)).
      rewrite upd_neq in Hq by assumption. eapply Hp; eassumption.
    + destruct (Nat.eq_dec i' i) as [->|Hni]; [rewrite upd_eq in Hq; discriminate | rewrite upd_neq in Hq by assumption; eapply Hp; eassumption].
    + destruct (Nat.eq_dec i' i) as [->|Hni]; [rewrite upd_eq in Hq; discriminate | rewrite upd_neq in Hq by assumption; eapply Hp; eassumption].
    + destruct (Nat.eq_dec i' i) as [->|Hni]; [rewrite upd_eq in Hq; cbn in Hq; apply (Hp t' i); [assumption | rewrite Ehb; exact Hq] | rewrite upd_neq in Hq by assumption; eapply Hp; eassumption].
    + destruct (Nat.eq_dec i' i) as [->|Hni]; [rewrite upd_eq in Hq; discriminate | rewrite upd_neq in Hq by assumption; eapply Hp; eassumption].
    + destruct (Nat.eq_dec i' i) as [->|Hni]; [rewrite upd_eq in Hq; discriminate | rewrite upd_neq in Hq by assumption; eapply Hp; eassumption].
    + destruct (Nat.eq_dec i' i) as [->|Hni]; [rewrite upd_eq in Hq; cbn in Hq; apply (Hp t' i); [assumption | rewrite Ehb; exact Hq] | rewrite upd_neq in Hq by assumption; eapply Hp; eassumption].
    + destruct (kill_cs_cases p (cproc s) (cs s) t') as [E|[E _]]; rewrite E in H'; [|discriminate].
      destruct (kill_hb_cases p (hb s) i') as [E2|[E2 _]]; rewrite E2 in Hq; [eapply Hp; eassumption | discriminate].
  - (* HB_time *)
    pose proof (HB_time c s HI) as Ht. pose proof (HB_trunc c s HI) as Htr.
    inv_step Hstep; cbn [content now set_cs]; intros i' cr' u' H'; try (eapply Ht; eassumption).
    + apply Ht in H'. apply can_tick_nonneg in Eb. lia.
    + destruct (Nat.eq_dec i' (nexti s)) as [->|Hni]; [rewrite upd_eq in H'; discriminate | rewrite upd_neq in H' by assumption; eapply Ht; eassumption].
    + destruct (Nat.eq_dec i' i) as [->|Hni]; [rewrite upd_eq in H'; injection H'; intros; lia | rewrite upd_neq in H' by assumption; eapply Ht; eassumption].
    + destruct (Nat.eq_dec i' i0) as [->|Hni]; [rewrite upd_eq in H'; discriminate | rewrite upd_neq in H' by assumption; eapply Ht; eassumption].
    + destruct (Nat.eq_dec i' target) as [->|Hni]; [rewrite upd_eq in H'; injection H'; intros; lia | rewrite upd_neq in H' by assumption; eapply Ht; eassumption].
  - (* HB_tids *)
    pose proof (HB_tids c s HI) as Hti.
    inv_step Hstep; cbn [cs tids set_cs]; intros t' H'; try (apply Hti; exact H').
    all: try (destruct (Nat.eq_dec t' t) as [->|Hne]; [apply Hti; congruence | rewrite upd_neq in H' by assumption; apply Hti; exact H']).
    + destruct (Nat.eq_dec t' t) as [->|Hne]; [left; reflexivity | right; rewrite upd_neq in H' by assumption; apply Hti; exact H'].
    + apply Hti. intros E. apply H'. unfold kill_cs. rewrite E. reflexivity.
  - (* HB_nogarbage *)
    pose proof (HB_nogarbage c s HI) as Hng.
    inv_step Hstep; cbn [content set_cs]; intros i' H'; try (eapply Hng; eassumption).
    all: match type of H' with
         | upd _ ?k _ _ = _ => destruct (Nat.eq_dec i' k) as [->|Hne];
                               [rewrite upd_eq in H'; discriminate | rewrite upd_neq in H' by assumption; eapply Hng; eassumption]
         end.
Qed.

Lemma HBInv_reach ok s : reach c ok init s -> HBInv c s.
Proof.
  apply (reach_invariant c ok (HBInv c)); [|apply HBInv_init].
  intros x l y Hx _ Hs. exact (HBInv_step x l y Hx Hs).
Qed.
End PartA.

(** * Part B: mutual exclusion while every holder lives *)
Definition owner (s : state) (t : tid) (i : ino) : Prop :=
  (exists ec, cs s t = CCreated ec i) \/ cs s t = CHolding i.

(** a waiter reaches the empty-retry limit on an empty lock file *)
Definition gives_up (c : config) (s : state) (l : label) : Prop :=
  exists t ec i, l = LOpenRead t /\ cs s t = CExists ec /\ file s = Some i /\ content s i = FEmpty /\
                 (S ec <? retries c)%nat = false.
(** SIGKILL of a process one of whose threads has created or holds the lock file.  Kills of
    any other process (waiters, processes that released long ago, their old heartbeats) are
    allowed in the runs of Part B: "as long as every holder is alive". *)
Definition kills_owner (s : state) (l : label) : Prop :=
  exists p t i, l = LKill p /\ owner s t i /\ cproc s t = p.
Definition live_ok (c : config) (s : state) (l : label) : Prop := ~ kills_owner s l.

(** an empty lock file in place was created or truncated at most max(delta, eps) ago *)
Definition gapb (c : config) : Z := Z.max (delta c) (eps c).
Definition GapInv (c : config) (s : state) : Prop :=
  forall i, file s = Some i -> content s i = FEmpty -> now s <= mtime s i + gapb c.

Record MInv (c : config) (s : state) : Prop := {
  M_file : forall t i, owner s t i -> file s = Some i;
  M_one : forall t1 t2 i1 i2, owner s t1 i1 -> owner s t2 i2 -> t1 = t2;
  M_owned : forall i, file s = Some i -> exists t, owner s t i;
  M_nostale : forall t ec, cs s t <> CStale ec;
  M_hold : forall t i, cs s t = CHolding i ->
     (exists p cr due u, hb s i = HSleep p cr due /\ content s i = FMeta (Some cr) (Some u) /\ due = u + interval c) \/
     (exists p cr sn, hb s i = HTrunc p cr i (Some cr) sn /\ content s i = FEmpty)
}.

Lemma MInv_init c : MInv c init.
Proof.
  constructor; cbn; try discriminate.
  - intros t i [[ec H]|H]; discriminate.
  - intros t1 t2 i1 i2 [[ec H]|H]; discriminate.
Qed.

Section PartB.
Variable c : config.
Hypothesis Hchk : checks c = true.
Hypothesis Hgrd : guard c = true.
Hypothesis Hcfg : good_cfg c.

Lemma owner_upd_other s t x t' i (f := upd (cs s) t x) :
  t' <> t -> ((exists ec, f t' = CCreated ec i) \/ f t' = CHolding i) <-> owner s t' i.
Proof. intros H. unfold f, owner. rewrite upd_neq by assumption. tauto. Qed.

(** a lock file that has an owner is never judged stale *)
Lemma owned_not_stale s i cr u : HBInv c s -> MInv c s -> file s = Some i -> content s i = FMeta cr u ->
  is_stale c (now s) cr u = false.
Proof.
  intros HB HM Hf Hc. destruct Hcfg as (Hint & Hdel & Hfac).
  destruct (M_owned c s HM i Hf) as [t [[ec Ho]|Ho]].
  - destruct (HB_created c s HB _ _ _ Ho) as (E & _). congruence.
  - destruct (M_hold c s HM t i Ho) as [(p & cr' & due & u' & Hh & Hc' & Hd)|(p & cr' & sn' & Hh & Hc')]; [|congruence].
    rewrite Hc in Hc'. injection Hc'; intros -> ->.
    pose proof (HB_sleep c s HB _ _ _ _ Hh) as Hs. unfold is_stale. apply Z.ltb_ge. lia.
Qed.

Lemma GapInv_init : GapInv c init.
Proof. intros i H. discriminate. Qed.

Lemma GapInv_step s l s' : HBInv c s -> MInv c s -> GapInv c s -> step c s l = Some s' -> GapInv c s'.
Proof.
  intros HB HM HG Hstep. destruct Hcfg as (Hint & Hdel & Hfac & Heps).
  assert (Hgb : 0 <= gapb c /\ delta c <= gapb c /\ eps c <= gapb c) by (unfold gapb; lia).
  inv_step Hstep; unfold GapInv; cbn [file content now mtime set_cs]; intros i' Hf' Hc'; try (apply HG; assumption); try discriminate.
  all: try (apply HG; [congruence | assumption]).
  - (* tick *)
    destruct (M_owned c s HM i' Hf') as [t [[ec Ho]|Ho]].
    + assert (Hin : In t (tids s)) by (apply (HB_tids c s HB); congruence).
      pose proof (can_tick_cs c s d t Eb Hin) as Ha. rewrite Ho in Ha. cbn in Ha. apply Z.leb_le in Ha. lia.
    + destruct (M_hold c s HM t i' Ho) as [(p & cr & due & u & Hh & Hc2 & _)|(p & cr & sn & Hh & _)]; [congruence|].
      assert (Hlt : (i' < nexti s)%nat) by (apply (HB_lt c s HB); congruence).
      pose proof (can_tick_hb c s d i' Eb Hlt) as Ha. rewrite Hh in Ha. cbn in Ha. apply Z.leb_le in Ha. lia.
  - (* create *)
    injection Hf'; intros <-. rewrite upd_eq. lia.
  - (* write meta *)
    destruct (Nat.eq_dec i' i) as [->|Hne]; [rewrite upd_eq in Hc'; discriminate|].
    rewrite upd_neq in Hc' by assumption. rewrite upd_neq by assumption. apply HG; assumption.
  - (* heartbeat truncates the file in place *)
    injection Hf'; intros <-. rewrite upd_eq. lia.
  - (* heartbeat write *)
    destruct (Nat.eq_dec i' target) as [->|Hne]; [rewrite upd_eq in Hc'; discriminate|].
    rewrite upd_neq in Hc' by assumption. rewrite upd_neq by assumption. apply HG; assumption.
Qed.

Lemma MInv_step s l s' : HBInv c s -> MInv c s -> GapInv c s -> live_ok c s l -> step c s l = Some s' -> MInv c s'.
Proof.
  intros HB HM HG Hnk Hstep.
  pose proof (M_file c s HM) as Mf. pose proof (M_one c s HM) as Mo.
  pose proof (M_nostale c s HM) as Mn. pose proof (M_hold c s HM) as Mh.
  assert (Mfile : forall i, file s = Some i -> exists t, owner s t i) by exact (M_owned c s HM).
  pose proof (owned_not_stale s) as Hns.
  destruct l.
  - (* tick *)
    cbn [step] in Hstep. destruct (can_tick c s d); [|discriminate]. injection Hstep as <-.
    constructor; cbn [cs file content hb now]; [exact Mf | exact Mo | exact Mfile | exact Mn | exact Mh].
  - (* start *)
    cbn [step] in Hstep. destruct (cs s t) eqn:Ecs; try discriminate. injection Hstep as <-.
    assert (Hown : forall t' i, ((exists ec, upd (cs s) t (CTry 0) t' = CCreated ec i) \/ upd (cs s) t (CTry 0) t' = CHolding i) -> owner s t' i).
    { intros t' i H. destruct (Nat.eq_dec t' t) as [->|Hne]; [rewrite upd_eq in H; destruct H as [[ec H]|H]; discriminate|].
      apply (owner_upd_other s t (CTry 0) t' i Hne). exact H. }
    constructor; unfold owner; cbn [cs file content hb].
    + intros t' i H. apply (Mf t'). auto.
    + intros t1 t2 i1 i2 H1 H2. eapply Mo; eauto.
    + intros i H. destruct (Mfile i H) as [t' Ho]. exists t'.
      assert (t' <> t) by (intros ->; destruct Ho as [[ec Ho]|Ho]; congruence).
      apply (owner_upd_other s t (CTry 0) t' i H0). exact Ho.
    + intros t' ec. destruct (Nat.eq_dec t' t) as [->|Hne]; [rewrite upd_eq; discriminate | rewrite upd_neq by assumption; apply Mn].
    + intros t' i H. destruct (Nat.eq_dec t' t) as [->|Hne]; [rewrite upd_eq in H; discriminate | rewrite upd_neq in H by assumption; exact (Mh _ _ H)].
  - (* try create *)
    cbn [step] in Hstep. destruct (cs s t) eqn:Ecs; try discriminate.
    remember (file s) as fo eqn:Ef in Hstep; destruct fo as [j|]; symmetry in Ef.
    + injection Hstep as <-.
      assert (Hown : forall t' i, ((exists ec', upd (cs s) t (CExists ec) t' = CCreated ec' i) \/ upd (cs s) t (CExists ec) t' = CHolding i) <-> owner s t' i).
      { intros t' i. destruct (Nat.eq_dec t' t) as [->|Hne]; [|apply owner_upd_other; assumption].
        rewrite upd_eq. unfold owner. rewrite Ecs. split; intros [[e H]|H]; discriminate. }
      constructor; unfold owner; cbn [cs file content hb set_cs].
      * intros t' i H. apply (Mf t'). apply Hown. exact H.
      * intros t1 t2 i1 i2 H1 H2. apply Hown in H1, H2. eapply Mo; eauto.
      * intros i H. destruct (Mfile i H) as [t' Ho]. exists t'. apply Hown. exact Ho.
      * intros t' ec'. destruct (Nat.eq_dec t' t) as [->|Hne]; [rewrite upd_eq; discriminate | rewrite upd_neq by assumption; apply Mn].
      * intros t' i H. destruct (Nat.eq_dec t' t) as [->|Hne]; [rewrite upd_eq in H; discriminate | rewrite upd_neq in H by assumption; exact (Mh _ _ H)].
    + injection Hstep as <-.
      assert (Hnone : forall t' i, ~ owner s t' i) by (intros t' i H; apply Mf in H; congruence).
      assert (Hown : forall t' i, ((exists ec', upd (cs s) t (CCreated ec (nexti s)) t' = CCreated ec' i) \/ upd (cs s) t (CCreated ec (nexti s)) t' = CHolding i) -> t' = t /\ i = nexti s).
      { intros t' i H. destruct (Nat.eq_dec t' t) as [->|Hne].
        - rewrite upd_eq in H. destruct H as [[e H]|H]; [injection H; auto | discriminate].
        - apply (owner_upd_other s t _ t' i Hne) in H. destruct (Hnone _ _ H). }
      constructor; unfold owner; cbn [cs file content hb].
      * intros t' i H. apply Hown in H. destruct H as [_ ->]. reflexivity.
      * intros t1 t2 i1 i2 H1 H2. apply Hown in H1, H2. destruct H1, H2. congruence.
      * intros i H. injection H; intros <-. exists t. left. exists ec. apply upd_eq.
      * intros t' ec'. destruct (Nat.eq_dec t' t) as [->|Hne]; [rewrite upd_eq; discriminate | rewrite upd_neq by assumption; apply Mn].
      * intros t' i H. exfalso. destruct (Nat.eq_dec t' t) as [->|Hne]; [rewrite upd_eq in H; discriminate|].
        rewrite upd_neq in H by assumption. apply (Hnone t' i). right. exact H.
  - (* write meta *)
    cbn [step] in Hstep. destruct (cs s t) eqn:Ecs; try discriminate.
    destruct (lastcreate s <? now s); [|discriminate]. injection Hstep as <-.
    assert (Hown : forall t' i', ((exists ec', upd (cs s) t (CHolding i) t' = CCreated ec' i') \/ upd (cs s) t (CHolding i) t' = CHolding i') <-> owner s t' i').
    { intros t' i'. destruct (Nat.eq_dec t' t) as [->|Hne]; [|apply owner_upd_other; assumption].
      rewrite upd_eq. unfold owner. rewrite Ecs. split.
      - intros [[e H]|H]; [discriminate | injection H; intros <-; left; eauto].
      - intros [[e H]|H]; [injection H; intros <- <-; auto | discriminate]. }
    constructor; unfold owner; cbn [cs file content hb].
    + intros t' i' H. apply (Mf t'). apply Hown. exact H.
    + intros t1 t2 i1 i2 H1 H2. apply Hown in H1, H2. eapply Mo; eauto.
    + intros i' H. destruct (Mfile i' H) as [t' Ho]. exists t'. apply Hown. exact Ho.
    + intros t' ec'. destruct (Nat.eq_dec t' t) as [->|Hne]; [rewrite upd_eq; discriminate | rewrite upd_neq by assumption; apply Mn].
    + intros t' i' H. destruct (Nat.eq_dec t' t) as [->|Hne].
      * rewrite upd_eq in H. injection H; intros <-. left. exists (cproc s t), (now s), (now s + interval c), (now s).
        rewrite !upd_eq. auto.
      * rewrite upd_neq in H by assumption. exfalso. apply Hne.
        apply (Mo t' t i' i); [right; assumption | left; eauto].
  - (* open + read *)
    cbn [step] in Hstep. destruct (cs s t) eqn:Ecs; try discriminate.
    assert (Hgen : forall x, (forall e, x <> CStale e) -> (forall e j, x <> CCreated e j) -> (forall j, x <> CHolding j) ->
                   MInv c (set_cs s t x)).
    { intros x Hx1 Hx2 Hx3.
      assert (Hown : forall t' i, ((exists ec', upd (cs s) t x t' = CCreated ec' i) \/ upd (cs s) t x t' = CHolding i) <-> owner s t' i).
      { intros t' i. destruct (Nat.eq_dec t' t) as [->|Hne]; [|apply owner_upd_other; assumption].
        rewrite upd_eq. unfold owner. rewrite Ecs. split; [intros [[e H]|H]; [destruct (Hx2 _ _ H) | destruct (Hx3 _ H)] | intros [[e H]|H]; discriminate]. }
      constructor; unfold owner; cbn [cs file content hb set_cs].
      - intros t' i H. apply (Mf t'). apply Hown. exact H.
      - intros t1 t2 i1 i2 H1 H2. apply Hown in H1, H2. eapply Mo; eauto.
      - intros i H. destruct (Mfile i H) as [t' Ho]. exists t'. apply Hown. exact Ho.
      - intros t' ec'. destruct (Nat.eq_dec t' t) as [->|Hne]; [rewrite upd_eq; apply Hx1 | rewrite upd_neq by assumption; apply Mn].
      - intros t' i H. destruct (Nat.eq_dec t' t) as [->|Hne]; [rewrite upd_eq in H; destruct (Hx3 _ H) | rewrite upd_neq in H by assumption; exact (Mh _ _ H)]. }
    remember (file s) as fo eqn:Ef in Hstep; destruct fo as [i|]; symmetry in Ef.
    + destruct (content s i) as [|cr u|] eqn:Ect.
      * (* an empty file in place is young: with the mtime guard nobody gives up on it *)
        assert (Hyoung : (guard c && negb (factor c * interval c <? now s - mtime s i)) = true).
        { rewrite Hgrd. cbn. apply negb_true_iff, Z.ltb_ge. pose proof (HG i Ef Ect) as Hg.
          destruct Hcfg as (Hint & Hdel & Hfac & Heps). unfold gapb in Hg. lia. }
        rewrite Hyoung, orb_true_r in Hstep. injection Hstep as <-. apply Hgen; intros; discriminate.
      * rewrite (Hns i cr u HB HM Ef Ect) in Hstep. injection Hstep as <-. apply Hgen; intros; discriminate.
      * destruct (HB_nogarbage c s HB i Ect).
    + injection Hstep as <-. apply Hgen; intros; discriminate.
  - (* remove *)
    cbn [step] in Hstep. destruct (cs s t) eqn:Ecs; try discriminate. destruct (Mn t ec Ecs).
  - (* wake *)
    cbn [step] in Hstep. destruct (cs s t) eqn:Ecs; try discriminate.
    destruct (until <=? now s); [|discriminate]. injection Hstep as <-.
    assert (Hown : forall t' i, ((exists ec', upd (cs s) t (CTry ec) t' = CCreated ec' i) \/ upd (cs s) t (CTry ec) t' = CHolding i) <-> owner s t' i).
    { intros t' i. destruct (Nat.eq_dec t' t) as [->|Hne]; [|apply owner_upd_other; assumption].
      rewrite upd_eq. unfold owner. rewrite Ecs. split; intros [[e H]|H]; discriminate. }
    constructor; unfold owner; cbn [cs file content hb set_cs].
    + intros t' i H. apply (Mf t'). apply Hown. exact H.
    + intros t1 t2 i1 i2 H1 H2. apply Hown in H1, H2. eapply Mo; eauto.
    + intros i H. destruct (Mfile i H) as [t' Ho]. exists t'. apply Hown. exact Ho.
    + intros t' ec'. destruct (Nat.eq_dec t' t) as [->|Hne]; [rewrite upd_eq; discriminate | rewrite upd_neq by assumption; apply Mn].
    + intros t' i H. destruct (Nat.eq_dec t' t) as [->|Hne]; [rewrite upd_eq in H; discriminate | rewrite upd_neq in H by assumption; exact (Mh _ _ H)].
  - (* cancel *)
    cbn [step] in Hstep. destruct (cs s t) eqn:Ecs; try discriminate. injection Hstep as <-.
    assert (Hown : forall t' i, ((exists ec', upd (cs s) t (CFailed ErrCtx) t' = CCreated ec' i) \/ upd (cs s) t (CFailed ErrCtx) t' = CHolding i) <-> owner s t' i).
    { intros t' i. destruct (Nat.eq_dec t' t) as [->|Hne]; [|apply owner_upd_other; assumption].
      rewrite upd_eq. unfold owner. rewrite Ecs. split; intros [[e H]|H]; discriminate. }
    constructor; unfold owner; cbn [cs file content hb set_cs].
    + intros t' i H. apply (Mf t'). apply Hown. exact H.
    + intros t1 t2 i1 i2 H1 H2. apply Hown in H1, H2. eapply Mo; eauto.
    + intros i H. destruct (Mfile i H) as [t' Ho]. exists t'. apply Hown. exact Ho.
    + intros t' ec'. destruct (Nat.eq_dec t' t) as [->|Hne]; [rewrite upd_eq; discriminate | rewrite upd_neq by assumption; apply Mn].
    + intros t' i H. destruct (Nat.eq_dec t' t) as [->|Hne]; [rewrite upd_eq in H; discriminate | rewrite upd_neq in H by assumption; exact (Mh _ _ H)].
  - (* unlock *)
    cbn [step] in Hstep. destruct (cs s t) eqn:Ecs; try discriminate. injection Hstep as <-.
    assert (Hnone : forall t' i', ~ ((exists ec', upd (cs s) t CReleased t' = CCreated ec' i') \/ upd (cs s) t CReleased t' = CHolding i')).
    { intros t' i' H. destruct (Nat.eq_dec t' t) as [->|Hne]; [rewrite upd_eq in H; destruct H as [[e H]|H]; discriminate|].
      apply (owner_upd_other s t _ t' i' Hne) in H. apply Hne. apply (Mo t' t i' i); [assumption | right; assumption]. }
    constructor; unfold owner; cbn [cs file content hb].
    + intros t' i' H. destruct (Hnone _ _ H).
    + intros t1 t2 i1 i2 H1. destruct (Hnone _ _ H1).
    + discriminate.
    + intros t' ec'. destruct (Nat.eq_dec t' t) as [->|Hne]; [rewrite upd_eq; discriminate | rewrite upd_neq by assumption; apply Mn].
    + intros t' i' H. exfalso. apply (Hnone t' i'). right. exact H.
  - (* heartbeat wake *)
    cbn [step] in Hstep. destruct (hb s i) as [|p cr due| |] eqn:Ehb; try discriminate.
    destruct (due <=? now s); [|discriminate].
    (* the heartbeat of a held lock does not stop *)
    assert (Hdone : forall s1, s1 = State (now s) (file s) (content s) (nexti s) (cs s) (cproc s) (tids s) (upd (hb s) i HDone) (lastcreate s) (mtime s) ->
                    (forall t j, cs s t = CHolding j -> j <> i) -> MInv c s1).
    { intros s1 -> Hne. constructor; cbn [cs file content hb].
      - exact Mf.
      - exact Mo.
      - exact Mfile.
      - exact Mn.
      - intros t j H. rewrite upd_neq by (apply (Hne t); assumption). exact (Mh _ _ H). }
    remember (file s) as fo eqn:Ef in Hstep; destruct fo as [j|]; symmetry in Ef.
    + destruct (content s j) as [|fcr u|] eqn:Ect.
      * injection Hstep as <-. apply Hdone; [rewrite Ef; reflexivity|].
        intros t j' H ->. assert (j = i) by (pose proof (Mf t _ (or_intror H)); congruence); subst j.
        destruct (Mh t i H) as [(p' & cr' & due' & u' & Hh & Hc' & Hd)|(p' & cr' & sn' & Hh & Hc')]; congruence.
      * destruct (checks c && negb (opt_eqb fcr (Some cr))) eqn:Eck.
        -- injection Hstep as <-. apply Hdone; [rewrite Ef; reflexivity|].
           intros t j' H ->. assert (j = i) by (pose proof (Mf t _ (or_intror H)); congruence); subst j.
           destruct (Mh t i H) as [(p' & cr' & due' & u' & Hh & Hc' & Hd)|(p' & cr' & sn' & Hh & Hc')]; [|congruence].
           rewrite Ehb in Hh. injection Hh; intros _ <- _. rewrite Ect in Hc'. injection Hc'; intros _ ->.
           rewrite Hchk in Eck. cbn in Eck. rewrite Z.eqb_refl in Eck. discriminate.
        -- injection Hstep as <-.
           destruct (wake_target c Hchk s i p cr due j fcr u HB Ehb Ect Eck) as [-> ->].
           rewrite <- Ef.
           constructor; cbn [cs file content hb]; [exact Mf | exact Mo | exact Mfile | exact Mn |].
           intros t j H. assert (j = i) by (pose proof (Mf t j (or_intror H)); congruence); subst j.
           right. exists p, cr, (now s). rewrite !upd_eq. auto.
      * injection Hstep as <-. apply Hdone; [rewrite Ef; reflexivity|].
        intros t j' H ->. assert (j = i) by (pose proof (Mf t _ (or_intror H)); congruence); subst j.
        destruct (Mh t i H) as [(p' & cr' & due' & u' & Hh & Hc' & Hd)|(p' & cr' & sn' & Hh & Hc')]; congruence.
    + injection Hstep as <-. apply Hdone; [rewrite Ef; reflexivity|].
      intros t j' H ->. pose proof (Mf t _ (or_intror H)); congruence.
  - (* heartbeat write *)
    cbn [step] in Hstep. destruct (hb s i) as [| |p cr j fcr sn|] eqn:Ehb; try discriminate. injection Hstep as <-.
    destruct (HB_trunc c s HB _ _ _ _ _ _ Ehb) as [-> ->].
    constructor; cbn [cs file content hb now]; [exact Mf | exact Mo | exact Mfile | exact Mn |].
    intros t j H. destruct (Nat.eq_dec j i) as [->|Hne].
    + left. exists p, cr, (now s + interval c), (now s). rewrite !upd_eq. auto.
    + rewrite !upd_neq by assumption. exact (Mh _ _ H).
  - (* kill of a process that owns nothing *)
    cbn [step] in Hstep. injection Hstep as <-.
    assert (Hkeep : forall t i, owner s t i -> kill_cs p (cproc s) (cs s) t = cs s t).
    { intros t i Ho. apply kill_cs_other. intros E. apply Hnk. exists p, t, i. auto. }
    assert (Hback : forall t i, ((exists ec, kill_cs p (cproc s) (cs s) t = CCreated ec i) \/ kill_cs p (cproc s) (cs s) t = CHolding i) -> owner s t i).
    { intros t i H. destruct (kill_cs_cases p (cproc s) (cs s) t) as [E|[E _]]; rewrite E in H; [exact H|].
      destruct H as [[ec H]|H]; discriminate. }
    constructor; unfold owner; cbn [cs file content hb].
    + intros t i H. apply (Mf t). apply Hback. exact H.
    + intros t1 t2 i1 i2 H1 H2. apply Hback in H1, H2. eapply Mo; eauto.
    + intros i H. destruct (Mfile i H) as [t Ho]. exists t. rewrite (Hkeep t i Ho). exact Ho.
    + intros t ec H. destruct (kill_cs_cases p (cproc s) (cs s) t) as [E|[E _]]; rewrite E in H; [exact (Mn _ _ H) | discriminate].
    + intros t i H. assert (Ho : owner s t i) by (apply Hback; right; exact H).
      assert (Hc : cs s t = CHolding i) by (rewrite <- (Hkeep t i Ho); exact H).
      assert (Hp : cproc s t <> p) by (intros E; apply Hnk; exists p, t, i; auto).
      assert (Hkh : kill_hb p (hb s) i = hb s i).
      { destruct (kill_hb_cases p (hb s) i) as [E|[_ E]]; [exact E|].
        exfalso. apply Hp. symmetry. exact (HB_proc c s HB t i p Hc E). }
      rewrite Hkh. exact (Mh _ _ Hc).
Qed.

Definition BothInv (s : state) : Prop := HBInv c s /\ MInv c s /\ GapInv c s.

Lemma BothInv_reach s : reach c (live_ok c) init s -> BothInv s.
Proof.
  apply (reach_invariant c (live_ok c) BothInv).
  - intros x l y (HB & HM & HG) Hok Hs. split; [exact (HBInv_step c Hchk Hcfg x l y HB Hs)|].
    split; [exact (MInv_step x l y HB HM HG Hok Hs) | exact (GapInv_step x l y HB HM HG Hs)].
  - split; [apply HBInv_init | split; [apply MInv_init | apply GapInv_init]].
Qed.

(** Mutual exclusion: at most one thread holds the lock. *)
Theorem mutex_no_crash s t1 t2 i1 i2 : reach c (live_ok c) init s ->
  cs s t1 = CHolding i1 -> cs s t2 = CHolding i2 -> t1 = t2.
Proof.
  intros R H1 H2. destruct (BothInv_reach s R) as (_ & HM & _).
  apply (M_one c s HM t1 t2 i1 i2); right; assumption.
Qed.

(** While every owner lives nobody ever judges the lock file stale: no thread is about to
    remove it (the documented race between two waiters that both remove a stale file needs
    a dead holder first). *)
Theorem stale_removal_needs_dead_owner s t ec : reach c (live_ok c) init s -> cs s t <> CStale ec.
Proof. intros R. destruct (BothInv_reach s R) as (_ & HM & _). apply (M_nostale c s HM). Qed.

(** A create can only succeed when nobody holds (or is about to hold) the lock ... *)
Theorem waiter_after_release s t s' ec i : reach c (live_ok c) init s ->
  step c s (LTryCreate t) = Some s' -> cs s' t = CCreated ec i ->
  forall t' j, cs s t' <> CHolding j.
Proof.
  intros R Hs Hc t' j H. destruct (BothInv_reach s R) as (_ & HM & _).
  assert (Hf : file s = Some j) by (apply (M_file c s HM t'); right; assumption).
  cbn [step] in Hs. destruct (cs s t) eqn:Ecs; try discriminate. rewrite Hf in Hs. injection Hs as <-.
  cbn in Hc. rewrite upd_eq in Hc. discriminate.
Qed.
End PartB.

(** ... and a holder stops holding only by its own Unlock (or by being killed) *)
Lemma holder_leaves_only_by_unlock c s l s' t i : step c s l = Some s' ->
  cs s t = CHolding i -> cs s' t <> CHolding i -> l = LUnlock t \/ exists p, l = LKill p.
Proof.
  intros Hs Hh Hn. inv_step Hs; cbn [cs set_cs] in Hn; eauto; try congruence.
  all: try (destruct (Nat.eq_dec t t0) as [->|Hne]; [congruence | rewrite upd_neq in Hn by assumption; congruence]).
  destruct (Nat.eq_dec t t0) as [->|Hne]; [left; reflexivity | rewrite upd_neq in Hn by assumption; congruence].
Qed.

(** * Part C: cancellation *)

(** from every select, a cancelled context makes Lock return ctx.Err() at once *)
Theorem cancel_prompt c s t ec until : cs s t = CSleep ec until ->
  exists s', step c s (LCancel t) = Some s' /\ cs s' t = CFailed ErrCtx /\ now s' = now s.
Proof.
  intros H. cbn [step]. rewrite H. eexists. split; [reflexivity|]. cbn. rewrite upd_eq. auto.
Qed.

(** ... and the select is the only place where a Lock call waits: in every other state of
    the call the thread's own next step is enabled without time passing (the metadata
    write only needs a clock reading later than the previous creation's) *)
Theorem lock_call_waits_only_in_select c s t :
  match cs s t with
  | CTry _ => exists s', step c s (LTryCreate t) = Some s'
  | CExists _ => exists s', step c s (LOpenRead t) = Some s'
  | CStale _ => exists s', step c s (LRemove t) = Some s'
  | CCreated _ _ => lastcreate s < now s -> exists s', step c s (LWriteMeta t) = Some s'
  | _ => True
  end.
Proof.
  destruct (cs s t) eqn:E; auto; cbn [step]; rewrite E.
  - destruct (file s); eauto.
  - intros H. apply Z.ltb_lt in H. rewrite H. eauto.
  - destruct (file s) as [i|]; [|eauto]. destruct (content s i); [match goal with |- context [if ?b then _ else _] => destruct b end | destruct (is_stale c (now s) created updated) | destruct (undec c); [match goal with |- context [if ?b then _ else _] => destruct b end|]]; eauto.
  - eauto.
Qed.

(** a free lock is obtained at once: with no lock file a Lock call at the top of its loop
    creates the file and returns nil by its own two steps, in no time ... *)
Theorem free_lock_obtained_at_once c s t ec : file s = None -> cs s t = CTry ec -> lastcreate s < now s ->
  exists s2, run c s [LTryCreate t; LWriteMeta t] = Some s2 /\ cs s2 t = CHolding (nexti s) /\
             file s2 = Some (nexti s) /\ now s2 = now s.
Proof.
  intros Hf Hc Hl. cbn [run step]. rewrite Hc, Hf. cbn [cs lastcreate now]. rewrite upd_eq.
  apply Z.ltb_lt in Hl. rewrite Hl. eexists. split; [reflexivity|]. cbn. rewrite upd_eq. auto.
Qed.

(** ... and a lock that is free stays free until some Lock call creates the file: nothing
    else (no heartbeat, no waiter, no Unlock, no kill) makes a lock file appear *)
Theorem only_create_makes_lock_file c s l s' : step c s l = Some s' -> file s = None -> file s' <> None ->
  exists t, l = LTryCreate t.
Proof.
  intros Hs Hf Hn. inv_step Hs; cbn [file set_cs] in Hn; try congruence; eauto.
Qed.

(** a waiter never sleeps longer than the longer of the two intervals: in every state of
    every run (any labels, kills included) a sleeping Lock call is due to look at the lock
    file again within max(poll, esleep) *)
Definition sleep_bound (c : config) : Z := Z.max (poll c) (esleep c).
Definition SleepInv (c : config) (s : state) : Prop :=
  forall t ec u, cs s t = CSleep ec u -> u <= now s + sleep_bound c.
Lemma SleepInv_step c s l s' : SleepInv c s -> step c s l = Some s' -> SleepInv c s'.
Proof.
  unfold SleepInv, sleep_bound. intros HI Hs t' ec' u'.
  inv_step Hs; cbn [cs now set_cs]; intros H;
    try (destruct (Nat.eq_dec t' t) as [->|Hne];
         [rewrite upd_eq in H; try discriminate; try (injection H; intros <- <-; lia)
         | rewrite upd_neq in H by assumption; exact (HI _ _ _ H)]);
    try exact (HI _ _ _ H).
  - apply can_tick_nonneg in Eb. specialize (HI _ _ _ H). lia.
  - destruct (kill_cs_cases p (cproc s) (cs s) t') as [E|[E _]]; rewrite E in H; [exact (HI _ _ _ H) | discriminate].
Qed.
Lemma SleepInv_reach c ok s : reach c ok init s -> SleepInv c s.
Proof.
  apply (reach_invariant c ok (SleepInv c)).
  - intros x l y Hx _ Hs. exact (SleepInv_step c x l y Hx Hs).
  - intros t ec u H. discriminate.
Qed.

(** * Part D: recovery after the holder's death *)

(** the lock file (inode [i]) is in place but nobody maintains it: no creator is about to
    write its metadata and its heartbeat is not running *)
Definition abandoned (s : state) (i : ino) : Prop :=
  file s = Some i /\ (forall t ec, cs s t <> CCreated ec i) /\
  (forall p cr due, hb s i <> HSleep p cr due) /\ (forall p cr j fcr sn, hb s i <> HTrunc p cr j fcr sn).

Section PartD.
Variable c : config.
Hypothesis Hchk : checks c = true.
Hypothesis Hcfg : good_cfg c.

(** killing the process of the thread that holds the lock - or that has created the lock file
    and not yet written it - abandons the lock file: its heartbeat (if started) dies with it *)
Lemma kill_abandons s t i s' : HBInv c s -> owner s t i -> file s = Some i ->
  step c s (LKill (cproc s t)) = Some s' -> abandoned s' i.
Proof.
  intros HB Ho Hf Hs. cbn [step] in Hs. injection Hs as <-. unfold abandoned. cbn [file cs hb].
  split; [assumption|].
  assert (Hnc : forall t' ec, kill_cs (cproc s t) (cproc s) (cs s) t' <> CCreated ec i).
  { intros t' ec H. destruct (kill_cs_cases (cproc s t) (cproc s) (cs s) t') as [E|[E _]]; rewrite E in H; [|discriminate].
    destruct Ho as [[ec0 Ho]|Ho].
    - assert (t' = t) by exact (HB_created_uniq c s HB _ _ _ _ _ H Ho). subst t'.
      rewrite kill_cs_dead in E by (auto; congruence). congruence.
    - destruct (HB_created c s HB _ _ _ H) as (_ & E2 & _). exact (HB_held c s HB _ _ Ho E2). }
  split; [exact Hnc|].
  destruct Ho as [[ec0 Ho]|Hh].
  - destruct (HB_created c s HB _ _ _ Ho) as (_ & E2 & _).
    rewrite (kill_hb_none _ _ _ E2). split; intros; discriminate.
  - pose proof (fun q => HB_proc c s HB t i q) as Hp. split.
    + intros p cr due H. destruct (kill_hb_cases (cproc s t) (hb s) i) as [E|[E _]]; rewrite E in H; [|discriminate].
      assert (Hq := Hp p Hh ltac:(rewrite H; reflexivity)). subst p.
      unfold kill_hb in E. rewrite H in E. cbn in E. rewrite Nat.eqb_refl in E. discriminate.
    + intros p cr j fcr sn H. destruct (kill_hb_cases (cproc s t) (hb s) i) as [E|[E _]]; rewrite E in H; [|discriminate].
      assert (Hq := Hp p Hh ltac:(rewrite H; reflexivity)). subst p.
      unfold kill_hb in E. rewrite H in E. cbn in E. rewrite Nat.eqb_refl in E. discriminate.
Qed.

(** while an abandoned lock file stays in place nobody writes it, and it stays abandoned *)
Lemma abandoned_step s l s' i : HBInv c s -> abandoned s i -> step c s l = Some s' -> file s' = Some i ->
  content s' i = content s i /\ abandoned s' i.
Proof.
  intros HB (Hf & Hnc & Hns & Hnt) Hs Hf'. unfold abandoned.
  pose proof (HB_file c s HB i Hf) as Hlt. pose proof (HB_trunc c s HB) as Htr.
  destruct l; cbn [step] in Hs.
  - destruct (can_tick c s d); [|discriminate]. injection Hs as <-. cbn in *. auto.
  - destruct (cs s t) eqn:Ecs; try discriminate. injection Hs as <-. cbn [file cs hb content] in *.
    split; [reflexivity|]. split; [assumption|]. split; [|auto].
    intros t' ec. destruct (Nat.eq_dec t' t) as [->|Hne]; [rewrite upd_eq; discriminate | rewrite upd_neq by assumption; apply Hnc].
  - destruct (cs s t) eqn:Ecs; try discriminate. rewrite Hf in Hs. injection Hs as <-. cbn [file cs hb content set_cs] in *.
    split; [reflexivity|]. split; [assumption|]. split; [|auto].
    intros t' ec'. destruct (Nat.eq_dec t' t) as [->|Hne]; [rewrite upd_eq; discriminate | rewrite upd_neq by assumption; apply Hnc].
  - destruct (cs s t) eqn:Ecs; try discriminate. destruct (lastcreate s <? now s); [|discriminate].
    injection Hs as <-. cbn [file cs hb content] in *.
    assert (i <> i0) by (intros ->; exact (Hnc _ _ Ecs)).
    rewrite !upd_neq by assumption. split; [reflexivity|]. split; [assumption|]. split; [|auto].
    intros t' ec'. destruct (Nat.eq_dec t' t) as [->|Hne]; [rewrite upd_eq; discriminate | rewrite upd_neq by assumption; apply Hnc].
  - destruct (cs s t) eqn:Ecs; try discriminate.
    assert (Hgen : forall x, (forall e, x <> CCreated e i) -> content (set_cs s t x) i = content s i /\
              file (set_cs s t x) = Some i /\ (forall t' e, cs (set_cs s t x) t' <> CCreated e i) /\
              (forall p cr due, hb (set_cs s t x) i <> HSleep p cr due) /\ (forall p cr j fcr sn, hb (set_cs s t x) i <> HTrunc p cr j fcr sn)).
    { intros x Hx. cbn. split; [reflexivity|]. split; [assumption|]. split; [|auto].
      intros t' e. destruct (Nat.eq_dec t' t) as [->|Hne]; [rewrite upd_eq; apply Hx | rewrite upd_neq by assumption; apply Hnc]. }
    rewrite Hf in Hs. destruct (content s i); [match type of Hs with context [if ?b then _ else _] => destruct b end | destruct (is_stale c (now s) created updated) | destruct (undec c); [match type of Hs with context [if ?b then _ else _] => destruct b end|]];
      injection Hs as <-; apply Hgen; intros; discriminate.
  - destruct (cs s t) eqn:Ecs; try discriminate. injection Hs as <-. cbn in Hf'. discriminate.
  - destruct (cs s t) eqn:Ecs; try discriminate. destruct (until <=? now s); [|discriminate]. injection Hs as <-.
    cbn [file cs hb content set_cs] in *. split; [reflexivity|]. split; [assumption|]. split; [|auto].
    intros t' ec'. destruct (Nat.eq_dec t' t) as [->|Hne]; [rewrite upd_eq; discriminate | rewrite upd_neq by assumption; apply Hnc].
  - destruct (cs s t) eqn:Ecs; try discriminate. injection Hs as <-.
    cbn [file cs hb content set_cs] in *. split; [reflexivity|]. split; [assumption|]. split; [|auto].
    intros t' ec'. destruct (Nat.eq_dec t' t) as [->|Hne]; [rewrite upd_eq; discriminate | rewrite upd_neq by assumption; apply Hnc].
  - destruct (cs s t) eqn:Ecs; try discriminate. injection Hs as <-. cbn in Hf'. discriminate.
  - (* heartbeat wake: of another inode *)
    destruct (hb s i0) as [|p cr due| |] eqn:Ehb; try discriminate.
    assert (Hne : i <> i0) by (intros ->; exact (Hns _ _ _ Ehb)).
    destruct (due <=? now s); [|discriminate]. rewrite Hf in Hs.
    assert (Hdone : content (State (now s) (Some i) (content s) (nexti s) (cs s) (cproc s) (tids s) (upd (hb s) i0 HDone) (lastcreate s) (mtime s)) i = content s i /\
              Some i = Some i /\ (forall t' e, cs s t' <> CCreated e i) /\
              (forall p cr due, upd (hb s) i0 HDone i <> HSleep p cr due) /\ (forall p cr j fcr sn, upd (hb s) i0 HDone i <> HTrunc p cr j fcr sn)).
    { cbn. rewrite upd_neq by assumption. auto. }
    destruct (content s i) as [|fcr u|] eqn:Ect; try (injection Hs as <-; exact Hdone).
    destruct (checks c && negb (opt_eqb fcr (Some cr))) eqn:Eck; [injection Hs as <-; exact Hdone|].
    destruct (wake_target c Hchk s i0 p cr due i fcr u HB Ehb Ect Eck) as [E _]. contradiction.
  - (* heartbeat write: to its own inode *)
    destruct (hb s i0) as [| |p cr j fcr sn|] eqn:Ehb; try discriminate. injection Hs as <-.
    destruct (Htr _ _ _ _ _ _ Ehb) as [-> ->].
    assert (Hne : i <> i0) by (intros ->; exact (Hnt _ _ _ _ _ Ehb)).
    cbn [file cs hb content] in *. rewrite !upd_neq by assumption. auto.
  - (* kill *)
    injection Hs as <-. cbn [file cs hb content] in *. split; [reflexivity|]. split; [assumption|]. split; [|split].
    + intros t' e H. destruct (kill_cs_cases p (cproc s) (cs s) t') as [E|[E _]]; rewrite E in H; [exact (Hnc _ _ H) | discriminate].
    + intros p' cr due H. destruct (kill_hb_cases p (hb s) i) as [E|[E _]]; rewrite E in H; [exact (Hns _ _ _ H) | discriminate].
    + intros p' cr j fcr sn H. destruct (kill_hb_cases p (hb s) i) as [E|[E _]]; rewrite E in H; [exact (Hnt _ _ _ _ _ H) | discriminate].
Qed.

(** ... nor changes its modification time *)
Lemma abandoned_mtime_step s l s' i : HBInv c s -> abandoned s i -> step c s l = Some s' ->
  mtime s' i = mtime s i.
Proof.
  intros HB (Hf & Hnc & Hns & Hnt) Hs.
  pose proof (HB_file c s HB i Hf) as Hlt. pose proof (HB_trunc c s HB) as Htr.
  inv_step Hs; cbn [mtime set_cs]; try reflexivity; try congruence.
  - (* write meta *)
    assert (i <> i0) by (intros ->; exact (Hnc _ _ Ecs)). rewrite upd_neq by assumption. reflexivity.
  - (* heartbeat truncate *)
    assert (E1 : i1 = i) by congruence. subst i1.
    destruct (wake_target c Hchk s i0 p created due i created0 updated HB Ehb Ect Eb0) as [E _].
    subst i0. destruct (Hns _ _ _ Ehb).
  - (* heartbeat write *)
    destruct (Htr _ _ _ _ _ _ Ehb) as [-> ->].
    assert (i <> i0) by (intros ->; exact (Hnt _ _ _ _ _ Ehb)). rewrite upd_neq by assumption. reflexivity.
Qed.

(** once the name points elsewhere (or nowhere) it never points to inode [i] again *)
Lemma gone_step s l s' i : (i < nexti s)%nat -> file s <> Some i -> step c s l = Some s' ->
  (i < nexti s')%nat /\ file s' <> Some i.
Proof.
  intros Hlt Hf Hs. inv_step Hs; cbn [file nexti set_cs]; try (split; [lia | congruence]).
  all: try (split; [lia | discriminate]).
  split; [lia|]. intros E. injection E; intros <-. lia.
Qed.

Lemma abandoned_run ls : forall s s' i, HBInv c s -> abandoned s i -> run c s ls = Some s' -> file s' = Some i ->
  content s' i = content s i /\ abandoned s' i /\ HBInv c s' /\ now s <= now s' /\ mtime s' i = mtime s i.
Proof.
  induction ls as [|l ls IH]; intros s s' i HB Ha; cbn [run].
  - intros H _; injection H; intros <-. split; [reflexivity|]. split; [assumption|]. split; [assumption|]. split; [lia | reflexivity].
  - destruct (step c s l) as [s1|] eqn:E; [|discriminate]. intros Hr Hf'.
    pose proof (HBInv_step c Hchk Hcfg s l s1 HB E) as HB1.
    assert (Hnow : now s <= now s1).
    { clear - E. inv_step E; cbn; try lia. apply can_tick_nonneg in Eb. lia. }
    assert (Hdec : file s1 = Some i \/ file s1 <> Some i).
    { destruct (file s1) as [j|]; [destruct (Nat.eq_dec j i); [left; congruence | right; congruence] | right; discriminate]. }
    destruct Hdec as [Hf1|Hf1].
    + destruct (abandoned_step s l s1 i HB Ha E Hf1) as [Hc1 Ha1].
      pose proof (abandoned_mtime_step s l s1 i HB Ha E) as Hm1.
      destruct (IH s1 s' i HB1 Ha1 Hr Hf') as (H1 & H2 & H3 & H4 & H5). split; [congruence|]. split; [assumption|]. split; [assumption|]. split; [lia | congruence].
    + exfalso. destruct Ha as (Hf & _). pose proof (HB_file c s HB i Hf) as Hlt.
      assert (Hg : (i < nexti s1)%nat /\ file s1 <> Some i).
      { split; [|assumption]. clear - E Hlt. inv_step E; cbn; lia. }
      clear - Hg Hr Hf'. revert s1 Hg Hr. induction ls as [|l' ls IH']; intros s1 [Hg1 Hg2]; cbn [run].
      * intros H; injection H; intros <-. contradiction.
      * destruct (step c s1 l') as [s2|] eqn:E2; [|discriminate]. apply IH'. exact (gone_step s1 l' s2 i Hg1 Hg2 E2).
Qed.

(** a waiter at the top of its loop obtains a stale lock by its own next four steps *)
Lemma stale_obtainable s i cr u w ec : file s = Some i -> content s i = FMeta cr u ->
  is_stale c (now s) cr u = true -> cs s w = CTry ec ->
  exists s4 ec', run c s [LTryCreate w; LOpenRead w; LRemove w; LTryCreate w] = Some s4 /\
                 cs s4 w = CCreated ec' (nexti s) /\ file s4 = Some (nexti s) /\ now s4 = now s.
Proof.
  intros Hf Hc Hst Hw.
  set (s1 := set_cs s w (CExists ec)).
  assert (E1 : step c s (LTryCreate w) = Some s1) by (cbn [step]; rewrite Hw, Hf; reflexivity).
  set (ec' := if resets c then 0%nat else ec).
  set (s2 := set_cs s1 w (CStale ec')).
  assert (E2 : step c s1 (LOpenRead w) = Some s2).
  { cbn [step]. unfold s1. cbn [cs set_cs file content now]. rewrite upd_eq, Hf, Hc, Hst. reflexivity. }
  set (s3 := State (now s2) None (content s2) (nexti s2) (upd (cs s2) w (CTry ec')) (cproc s2) (tids s2) (hb s2) (lastcreate s2) (mtime s2)).
  assert (E3 : step c s2 (LRemove w) = Some s3).
  { cbn [step]. unfold s2 at 1. cbn [cs set_cs]. rewrite upd_eq. reflexivity. }
  assert (E4 : exists s4, step c s3 (LTryCreate w) = Some s4 /\ cs s4 w = CCreated ec' (nexti s) /\ file s4 = Some (nexti s) /\ now s4 = now s).
  { cbn [step]. unfold s3 at 1 2. cbn [cs file]. rewrite upd_eq. eexists. split; [reflexivity|].
    cbn. rewrite upd_eq. auto. }
  destruct E4 as (s4 & E4 & H1 & H2 & H3).
  exists s4, ec'. cbn [run]. rewrite E1, E2, E3, E4. auto.
Qed.

(** Recovery.  The holder's process is killed in a reachable state [s0].  In every later
    state in which the dead lock file is still in place and more than factor * interval
    has passed since the kill, its content is unchanged and stale, and any waiter at the
    top of its loop obtains the lock by its own next four steps (no time needed). *)
Theorem stale_recovers s0 t i cr u s ls s' w ec :
  HBInv c s0 -> cs s0 t = CHolding i -> file s0 = Some i -> content s0 i = FMeta cr (Some u) ->
  step c s0 (LKill (cproc s0 t)) = Some s ->
  run c s ls = Some s' -> file s' = Some i -> factor c * interval c < now s' - now s0 ->
  cs s' w = CTry ec ->
  content s' i = FMeta cr (Some u) /\
  exists s4 ec', run c s' [LTryCreate w; LOpenRead w; LRemove w; LTryCreate w] = Some s4 /\
                 cs s4 w = CCreated ec' (nexti s') /\ file s4 = Some (nexti s') /\ now s4 = now s'.
Proof.
  intros HB Hh Hf Hc Hk Hr Hf' Hlate Hw.
  pose proof (kill_abandons s0 t i s HB (or_intror Hh) Hf Hk) as Ha.
  pose proof (HBInv_step c Hchk Hcfg s0 _ s HB Hk) as HBs.
  assert (Hcs : content s i = content s0 i /\ now s = now s0).
  { cbn [step] in Hk. injection Hk as <-. cbn. auto. }
  destruct Hcs as [Hcs Hns].
  destruct (abandoned_run ls s s' i HBs Ha Hr Hf') as (Hc' & _ & _ & Hnow & _).
  assert (Hcont : content s' i = FMeta cr (Some u)) by congruence.
  split; [assumption|]. apply (stale_obtainable s' i cr (Some u) w ec); auto.
  pose proof (HB_time c s0 HB i cr u Hc) as Hu. unfold is_stale. apply Z.ltb_lt. lia.
Qed.

(** the same when the holder died while the file was empty (killed between the O_EXCL
    create and the metadata write, or in a heartbeat's truncate gap): the file stays empty,
    and every read of it counts towards the retry limit *)
Theorem empty_recovers s0 t i s ls s' :
  HBInv c s0 -> owner s0 t i -> file s0 = Some i -> content s0 i = FEmpty ->
  step c s0 (LKill (cproc s0 t)) = Some s ->
  run c s ls = Some s' -> file s' = Some i ->
  content s' i = FEmpty /\ mtime s' i = mtime s0 i /\
  forall w ec, cs s' w = CExists ec ->
    exists s1, step c s' (LOpenRead w) = Some s1 /\
      cs s1 w = if (S ec <? retries c)%nat || (guard c && negb (factor c * interval c <? now s' - mtime s0 i))
                then CSleep (S ec) (now s' + esleep c) else CStale (S ec).
Proof.
  intros HB Hh Hf Hc Hk Hr Hf'.
  pose proof (kill_abandons s0 t i s HB Hh Hf Hk) as Ha.
  pose proof (HBInv_step c Hchk Hcfg s0 _ s HB Hk) as HBs.
  assert (Hcs : content s i = content s0 i /\ mtime s i = mtime s0 i) by (cbn [step] in Hk; injection Hk as <-; split; reflexivity).
  destruct Hcs as [Hcs Hms].
  destruct (abandoned_run ls s s' i HBs Ha Hr Hf') as (Hc' & _ & _ & _ & Hm').
  assert (Hcont : content s' i = FEmpty) by congruence.
  assert (Hmt : mtime s' i = mtime s0 i) by congruence.
  split; [assumption|]. split; [assumption|]. intros w ec Hw. cbn [step]. rewrite Hw, Hf', Hcont, Hmt.
  match goal with |- context [if ?b then _ else _] => destruct b end; eexists; (split; [reflexivity|]); cbn; rewrite upd_eq; reflexivity.
Qed.
End PartD.

(** * Two lock files: steps on one never change, enable or disable steps on the other *)
Lemma step2_independent c s1 s2 l s1' s2' :
  step2 c (s1, s2) (L1 l) = Some (s1', s2') -> s2' = s2 /\ step c s1 l = Some s1'.
Proof.
  cbn. destruct l; cbn [fst snd]; try discriminate;
    match goal with |- context [step c s1 ?l] => destruct (step c s1 l) eqn:E; [|discriminate] end;
    intros H; injection H; intros <- <-; auto.
Qed.
Lemma step2_enabled c s1 s2 l s2' : step c s2 l = Some s2' ->
  (forall d, l <> LTick d) -> (forall p, l <> LKill p) -> step2 c (s1, s2) (L2 l) = Some (s1, s2').
Proof.
  intros H Hd Hk. destruct l; cbn [step2 fst snd]; try rewrite H; try reflexivity.
  - destruct (Hd d eq_refl).
  - destruct (Hk p eq_refl).
Qed.
