(** C08 — timed model of the file lock of certmagic.FileStorage (filestorage.go: Lock,
    Unlock, createLockfile / atomicallyCreateFile, keepLockfileFresh,
    updateLockfileFreshness, fileLockIsStale) for ONE lock file.
    Executable definitions only.

    The lock file is a directory entry (absent, or bound to an inode) plus the inode's
    content.  Every label is one system-call-level step of one goroutine: the O_EXCL
    create and the write of the metadata are separate steps (the file is empty in
    between), so are the heartbeat's truncate and write; open+decode+staleness decision is
    one step; os.Remove and Unlock act on the NAME.  Any number of contender threads in
    any number of processes; [LKill p] is SIGKILL of process p (its threads and heartbeat
    goroutines vanish, files stay).  Time is in ns; [LTick] lets time pass but not beyond
    [delta] after a live heartbeat's wake-up time, nor beyond [eps] after its truncate
    (the timing hypothesis H-live: a live process runs each heartbeat within [delta] of its
    due time and writes within [eps] of truncating).

    The model is parameterised by a configuration read from the source by the translator
    (Gen.Consts): the constants, whether emptyCount is ever reset, and whether a
    heartbeat stops when the file's Created is not the one it wrote. *)
From Coq Require Import List ZArith Bool Lia.
Import ListNotations.
Open Scope Z_scope.

Record config := Config {
  interval : Z;      (* lockFreshnessInterval *)
  poll : Z;          (* fileLockPollInterval *)
  factor : Z;        (* stale after factor * interval *)
  retries : nat;     (* empty reads before the file is treated as stale *)
  esleep : Z;        (* sleep between empty reads *)
  resets : bool;     (* emptyCount reset by a successful decode? *)
  checks : bool;     (* heartbeat compares Created? *)
  guard : bool;      (* an empty file counts as stale only if it was not modified within factor * interval? *)
  undec : bool;      (* undecodable contents are treated like an empty file (else Lock returns an error)? *)
  delta : Z;         (* H-live: heartbeat latency bound *)
  eps : Z            (* H-live: longest truncate -> write gap of a heartbeat (0 on a healthy disk) *)
}.

Definition tid := nat.
Definition pid := nat.
Definition ino := nat.

(** content of a lock file: empty; JSON with optional created / updated (a missing or
    zero time is [None]); anything json cannot decode (truncated JSON, garbage) *)
Inductive fcontent := FEmpty | FMeta (created updated : option Z) | FGarbage.

Inductive errkind := ErrCtx | ErrDecode.

Inductive cstate :=
| CIdle
| CTry (ec : nat)                     (* in Lock's loop, about to call createLockfile; ec = emptyCount *)
| CCreated (ec : nat) (i : ino)       (* O_EXCL create succeeded (inode i), metadata not written yet *)
| CExists (ec : nat)                  (* create said EEXIST; about to open and decode *)
| CStale (ec : nat)                   (* judged the file stale; about to os.Remove it *)
| CSleep (ec : nat) (until : Z)       (* in select { time.After ; ctx.Done } *)
| CHolding (i : ino)                  (* Lock returned nil *)
| CFailed (e : errkind)               (* Lock returned an error *)
| CReleased                           (* Unlock returned *)
| CDead.

(** a keepLockfileFresh goroutine, identified by the inode whose creation started it *)
Inductive hbstate :=
| HNone
| HSleep (p : pid) (created : Z) (due : Z)
| HTrunc (p : pid) (created : Z) (target : ino) (fcreated : option Z) (since : Z)   (* truncated [target] at [since], about to write *)
| HDone.

Record state := State {
  now : Z;
  file : option ino;
  content : ino -> fcontent;
  nexti : ino;
  cs : tid -> cstate;
  cproc : tid -> pid;
  tids : list tid;           (* threads started so far *)
  hb : ino -> hbstate;
  lastcreate : Z;            (* clock reading written by the latest createLockfile *)
  mtime : ino -> Z           (* modification time of each inode: set by create, write, truncate *)
}.

Inductive label :=
| LTick (d : Z)
| LStart (t : tid) (p : pid)   (* thread t of process p calls Lock *)
| LTryCreate (t : tid)         (* os.OpenFile(O_CREATE|O_WRONLY|O_EXCL) *)
| LWriteMeta (t : tid)         (* Encode {created: now, updated: now}, Sync, Close; go keepLockfileFresh; return nil *)
| LOpenRead (t : tid)          (* os.Open, Decode, fileLockIsStale *)
| LRemove (t : tid)            (* os.Remove(filename) of a file judged stale *)
| LWake (t : tid)              (* time.After fired *)
| LCancel (t : tid)            (* ctx.Done() fired in the select *)
| LUnlock (t : tid)            (* os.Remove(filename) *)
| LHbWake (i : ino)            (* heartbeat: Sleep over; OpenFile, ReadAll, Unmarshal, (Created check), Truncate *)
| LHbWrite (i : ino)           (* heartbeat: Encode {created, updated: now}, Sync, Close *)
| LKill (p : pid).

Definition upd {A} (f : nat -> A) (n : nat) (x : A) : nat -> A :=
  fun m => if Nat.eqb m n then x else f m.

Definition opt_eqb (a b : option Z) : bool :=
  match a, b with
  | Some x, Some y => x =? y
  | None, None => true
  | _, _ => false
  end.

Section WithConfig.
Variable c : config.

(** fileLockIsStale: ref = Updated, or Created when Updated is zero; a zero ref is
    infinitely old *)
Definition is_stale (t : Z) (created updated : option Z) : bool :=
  match (match updated with Some u => Some u | None => created end) with
  | Some r => factor c * interval c <? t - r
  | None => true
  end.

(** H-live: time may not pass beyond [delta] after the wake-up time of a live heartbeat *)
Definition hb_allows (s : state) (t : Z) (h : hbstate) : bool :=
  match h with
  | HSleep _ _ due => t <=? due + delta c
  | HTrunc _ _ j _ _ => t <=? mtime s j + eps c      (* mtime s j = the instant of the truncate *)
  | _ => true
  end.
(** ... nor beyond [delta] after the O_EXCL create of a live thread that has not yet written
    the metadata (a live process is not stalled for longer than [delta]) *)
Definition cs_allows (s : state) (t : Z) (x : cstate) : bool :=
  match x with
  | CCreated _ i => t <=? mtime s i + delta c
  | _ => true
  end.
Definition can_tick (s : state) (d : Z) : bool :=
  (0 <=? d) && forallb (fun i => hb_allows s (now s + d) (hb s i)) (seq 0 (nexti s)) &&
  forallb (fun t => cs_allows s (now s + d) (cs s t)) (tids s).

Definition set_cs (s : state) (t : tid) (x : cstate) : state :=
  State (now s) (file s) (content s) (nexti s) (upd (cs s) t x) (cproc s) (tids s) (hb s) (lastcreate s) (mtime s).

Definition kill_cs (p : pid) (pr : tid -> pid) (f : tid -> cstate) : tid -> cstate :=
  fun t => match f t with
           | CIdle => CIdle
           | x => if Nat.eqb (pr t) p then CDead else x
           end.
Definition hb_proc (h : hbstate) : option pid :=
  match h with HSleep p _ _ | HTrunc p _ _ _ _ => Some p | _ => None end.
Definition kill_hb (p : pid) (f : ino -> hbstate) : ino -> hbstate :=
  fun i => match hb_proc (f i) with
           | Some q => if Nat.eqb q p then HDone else f i
           | None => f i
           end.

Definition step (s : state) (l : label) : option state :=
  match l with
  | LTick d =>
      if can_tick s d then
        Some (State (now s + d) (file s) (content s) (nexti s) (cs s) (cproc s) (tids s) (hb s) (lastcreate s) (mtime s))
      else None
  | LStart t p =>
      match cs s t with
      | CIdle => Some (State (now s) (file s) (content s) (nexti s) (upd (cs s) t (CTry 0)) (upd (cproc s) t p)
                             (t :: tids s) (hb s) (lastcreate s) (mtime s))
      | _ => None
      end
  | LTryCreate t =>
      match cs s t with
      | CTry ec =>
          match file s with
          | None =>
              let i := nexti s in
              Some (State (now s) (Some i) (upd (content s) i FEmpty) (S i) (upd (cs s) t (CCreated ec i))
                          (cproc s) (tids s) (upd (hb s) i HNone) (lastcreate s) (upd (mtime s) i (now s)))
          | Some _ => Some (set_cs s t (CExists ec))
          end
      | _ => None
      end
  | LWriteMeta t =>
      match cs s t with
      | CCreated ec i =>
          (* clock readings of successive creations of the lock file are distinct *)
          if lastcreate s <? now s then
            Some (State (now s) (file s) (upd (content s) i (FMeta (Some (now s)) (Some (now s)))) (nexti s)
                        (upd (cs s) t (CHolding i)) (cproc s) (tids s)
                        (upd (hb s) i (HSleep (cproc s t) (now s) (now s + interval c))) (now s) (upd (mtime s) i (now s)))
          else None
      | _ => None
      end
  | LOpenRead t =>
      match cs s t with
      | CExists ec =>
          match file s with
          | None => Some (set_cs s t (CTry ec))                     (* os.IsNotExist: try to create again *)
          | Some i =>
              match content s i with
              | FEmpty =>
                  if (S ec <? retries c)%nat || (guard c && negb (factor c * interval c <? now s - mtime s i))
                  then Some (set_cs s t (CSleep (S ec) (now s + esleep c)))
                  else Some (set_cs s t (CStale (S ec)))            (* zero meta: stale *)
              | FGarbage =>
                  if undec c then
                    if (S ec <? retries c)%nat || (guard c && negb (factor c * interval c <? now s - mtime s i))
                    then Some (set_cs s t (CSleep (S ec) (now s + esleep c)))
                    else Some (set_cs s t (CStale (S ec)))
                  else Some (set_cs s t (CFailed ErrDecode))
              | FMeta cr u =>
                  let ec' := if resets c then O else ec in
                  if is_stale (now s) cr u then Some (set_cs s t (CStale ec'))
                  else Some (set_cs s t (CSleep ec' (now s + poll c)))
              end
          end
      | _ => None
      end
  | LRemove t =>
      match cs s t with
      | CStale ec =>
          Some (State (now s) None (content s) (nexti s) (upd (cs s) t (CTry ec)) (cproc s) (tids s) (hb s) (lastcreate s) (mtime s))
      | _ => None
      end
  | LWake t =>
      match cs s t with
      | CSleep ec until => if until <=? now s then Some (set_cs s t (CTry ec)) else None
      | _ => None
      end
  | LCancel t =>
      match cs s t with
      | CSleep _ _ => Some (set_cs s t (CFailed ErrCtx))
      | _ => None
      end
  | LUnlock t =>
      match cs s t with
      | CHolding _ =>
          Some (State (now s) None (content s) (nexti s) (upd (cs s) t CReleased) (cproc s) (tids s) (hb s) (lastcreate s) (mtime s))
      | _ => None
      end
  | LHbWake i =>
      match hb s i with
      | HSleep p cr due =>
          if due <=? now s then
            match file s with
            | None => Some (State (now s) (file s) (content s) (nexti s) (cs s) (cproc s) (tids s) (upd (hb s) i HDone) (lastcreate s) (mtime s))
            | Some j =>
                match content s j with
                | FMeta fcr _ =>
                    if checks c && negb (opt_eqb fcr (Some cr)) then
                      Some (State (now s) (file s) (content s) (nexti s) (cs s) (cproc s) (tids s) (upd (hb s) i HDone) (lastcreate s) (mtime s))
                    else
                      Some (State (now s) (file s) (upd (content s) j FEmpty) (nexti s) (cs s) (cproc s) (tids s)
                                  (upd (hb s) i (HTrunc p cr j fcr (now s))) (lastcreate s) (upd (mtime s) j (now s)))
                | _ => (* json.Unmarshal fails: terminate *)
                    Some (State (now s) (file s) (content s) (nexti s) (cs s) (cproc s) (tids s) (upd (hb s) i HDone) (lastcreate s) (mtime s))
                end
            end
          else None
      | _ => None
      end
  | LHbWrite i =>
      match hb s i with
      | HTrunc p cr j fcr _ =>
          Some (State (now s) (file s) (upd (content s) j (FMeta fcr (Some (now s)))) (nexti s) (cs s) (cproc s) (tids s)
                      (upd (hb s) i (HSleep p cr (now s + interval c))) (lastcreate s) (upd (mtime s) j (now s)))
      | _ => None
      end
  | LKill p =>
      Some (State (now s) (file s) (content s) (nexti s) (kill_cs p (cproc s) (cs s)) (cproc s) (tids s)
                  (kill_hb p (hb s)) (lastcreate s) (mtime s))
  end.

Fixpoint run (s : state) (ls : list label) : option state :=
  match ls with
  | [] => Some s
  | l :: r => match step s l with Some s' => run s' r | None => None end
  end.

(** ** deterministic simulation of a scenario (for the correspondence)

    A script is a time-ordered list of external events.  The simulator repeatedly
    (1) lets a cancelled thread that sits in a select return, (2) performs the pending
    zero-time step of the lowest-numbered thread / heartbeat, (3) otherwise advances time
    to the next due instant (script event, heartbeat wake-up, thread wake-up) and fires it.
    Every step it takes is a [step] of the LTS above. *)
Inductive sevent :=
| EStart (t : tid) (p : pid)
| EUnlock (t : tid)
| EKill (p : pid)
| ECancel (t : tid)
| EStop (p : pid)     (* SIGSTOP: the process's threads and heartbeats take no step until ... *)
| ECont (p : pid)     (* ... SIGCONT *)
| ECrashCreate (t : tid) (p : pid) (garbage : bool).
  (* thread t of a new process p calls Lock and the process is killed between the O_EXCL create and
     the end of the metadata write: LStart, LTryCreate, LKill.  With [garbage] the crash hit the middle
     of the write and left undecodable contents - that part is outside the LTS (whose metadata write is
     one atomic step): the simulator patches the content of the dead creator's inode *)

Definition transient_label (s : state) (t : tid) : option label :=
  match cs s t with
  | CTry _ => Some (LTryCreate t)
  | CCreated _ _ => Some (LWriteMeta t)
  | CExists _ => Some (LOpenRead t)
  | CStale _ => Some (LRemove t)
  | _ => None
  end.

Fixpoint first_some {A B} (f : A -> option B) (l : list A) : option B :=
  match l with
  | [] => None
  | x :: r => match f x with Some y => Some y | None => first_some f r end
  end.

Definition mem_nat (x : nat) (l : list nat) : bool := existsb (Nat.eqb x) l.

(** earliest pending wake-up: (time, label) *)
Definition min_due (a b : option (Z * label)) : option (Z * label) :=
  match a, b with
  | Some (x, la), Some (y, lb) => if y <? x then b else a
  | None, _ => b
  | _, None => a
  end.
Definition hb_runs (stopped : list pid) (h : hbstate) : bool :=
  match hb_proc h with Some p => negb (mem_nat p stopped) | None => true end.
Definition th_runs (stopped : list pid) (s : state) (t : tid) : bool := negb (mem_nat (cproc s t) stopped).

Definition next_due (stopped : list pid) (lat : tid -> Z) (s : state) : option (Z * label) :=
  let hbs := map (fun i => if hb_runs stopped (hb s i) then
                           match hb s i with
                           | HSleep _ _ due => Some (due, LHbWake i)
                           | HTrunc _ _ _ _ since => Some (since + eps c, LHbWrite i)   (* the gap lasts eps *)
                           | _ => None
                           end else None) (seq 0 (nexti s)) in
  let ths := map (fun t => if th_runs stopped s t then
                           match cs s t with CSleep _ u => Some (u + lat t, LWake t) | _ => None end
                           else None) (rev (tids s)) in
  fold_left min_due (hbs ++ ths) None.

(** outcome log: (thread, code, time); codes 0 acquired, 1 context error, 2 decode error *)
Definition outcome_of (x : cstate) : option Z :=
  match x with
  | CHolding _ => Some 0
  | CFailed ErrCtx => Some 1
  | CFailed ErrDecode => Some 2
  | _ => None
  end.
Definition new_outcomes (s s' : state) : list (tid * Z * Z) :=
  flat_map (fun t => match outcome_of (cs s t), outcome_of (cs s' t) with
                     | None, Some o => [(t, o, now s')]
                     | _, _ => []
                     end) (rev (tids s')).

Definition label_of_event (e : sevent) : label :=
  match e with
  | EStart t p => LStart t p
  | EUnlock t => LUnlock t
  | EKill p => LKill p
  | ECancel t => LCancel t
  | EStop _ | ECont _ | ECrashCreate _ _ _ => LTick 0
  end.

Record sim := Sim {
  sst : state;
  script : list (Z * sevent);
  cancelled : list tid;
  outlog : list (tid * Z * Z);
  trace : list label;         (* the labels taken, newest first *)
  stopped : list pid;         (* processes between SIGSTOP and SIGCONT *)
  slow_rm : list (pid * Z);   (* processes whose unlink(2) calls are delayed (injected), and by how much *)
  stale_at : list (tid * Z);  (* when each thread that is about to remove a stale file judged it stale *)
  lat0 : Z;                   (* scheduling latency: every sleep of a Lock call lasts this much longer ... *)
  lats : list (tid * Z)       (* ... plus this much for the listed threads *)
}.

Definition assoc {A} (k : nat) (l : list (nat * A)) : option A :=
  match find (fun x => Nat.eqb (fst x) k) l with Some x => Some (snd x) | None => None end.

(** threads that entered [CStale] by this step *)
Definition new_stale (s s' : state) : list (tid * Z) :=
  flat_map (fun t => match cs s t, cs s' t with
                     | CStale _, _ => []
                     | _, CStale _ => [(t, now s')]
                     | _, _ => []
                     end) (rev (tids s')).

Definition take (m : sim) (l : label) : option sim :=
  match step (sst m) l with
  | Some s' => Some (Sim s' (script m) (cancelled m) (outlog m ++ new_outcomes (sst m) s') (l :: trace m) (stopped m)
                         (slow_rm m) (new_stale (sst m) s' ++ stale_at m) (lat0 m) (lats m))
  | None => None
  end.

(** the instant at which the delayed os.Remove of a thread in [CStale] takes place *)
Definition rm_due (m : sim) (t : tid) : option Z :=
  let s := sst m in
  match cs s t with
  | CStale _ =>
      match assoc (cproc s t) (slow_rm m) with
      | Some d => Some (match assoc t (stale_at m) with Some t0 => t0 | None => now s end + d)
      | None => None
      end
  | _ => None
  end.

Definition garble (m : sim) (i : ino) : sim :=
  let s := sst m in
  Sim (State (now s) (file s) (upd (content s) i FGarbage) (nexti s) (cs s) (cproc s) (tids s) (hb s) (lastcreate s) (mtime s))
      (script m) (cancelled m) (outlog m) (trace m) (stopped m) (slow_rm m) (stale_at m) (lat0 m) (lats m).
Definition crash_create (m : sim) (t : tid) (p : pid) (g : bool) : sim :=
  match take m (LStart t p) with
  | Some m1 =>
      match take m1 (LTryCreate t) with
      | Some m2 =>
          let created := match cs (sst m2) t with CCreated _ i => Some i | _ => None end in
          match take m2 (LKill p) with
          | Some m3 => match created with Some i => if g then garble m3 i else m3 | None => m3 end
          | None => m2
          end
      | None => m1
      end
  | None => m
  end.

Definition sim_step (m : sim) : option sim :=
  let s := sst m in
  let st := stopped m in
  (* 1. a cancelled context wins every select *)
  match first_some (fun t => match cs s t with
                             | CSleep _ _ => if mem_nat t (cancelled m) && th_runs st s t then Some (LCancel t) else None
                             | _ => None
                             end)
                   (rev (tids s)) with
  | Some l => take m l
  | None =>
  (* 2. steps that are due now: heartbeat writes whose gap is over, then threads *)
  match first_some (fun i => match hb s i with
                             | HTrunc _ _ _ _ since => if (since + eps c <=? now s) && hb_runs st (hb s i) then Some (LHbWrite i) else None
                             | _ => None
                             end) (seq 0 (nexti s)) with
  | Some l => take m l
  | None =>
  match first_some (fun t => if th_runs st s t then
                               match rm_due m t with
                               | Some due => if due <=? now s then transient_label s t else None
                               | None => transient_label s t
                               end
                             else None) (rev (tids s)) with
  | Some l =>
      (* WriteMeta needs a clock reading later than the previous creation's: 1 ns passes *)
      match l with
      | LWriteMeta _ => if lastcreate s <? now s then take m l else take m (LTick 1)
      | _ => take m l
      end
  | None =>
  (* 3. next instant *)
  let due := fold_left min_due
                       (map (fun t => if th_runs st s t then
                                        match rm_due m t with Some d => Some (d, LRemove t) | None => None end
                                      else None) (rev (tids s)))
                       (next_due st (fun t => lat0 m + match assoc t (lats m) with Some x => x | None => 0 end) s) in
  match script m, due with
  | (te, e) :: rest, _ =>
      let script_first := match due with Some (td, _) => te <=? td | None => true end in
      if script_first then
        if now s <? te then take m (LTick (te - now s))
        else
          let m' := Sim s rest (match e with ECancel t => t :: cancelled m | _ => cancelled m end) (outlog m) (trace m)
                        (match e with
                         | EStop p => p :: st
                         | ECont p => filter (fun q => negb (Nat.eqb q p)) st
                         | _ => st
                         end) (slow_rm m) (stale_at m) (lat0 m) (lats m) in
          match e with
          | ECancel _ | EStop _ | ECont _ => Some m'   (* take effect at the next steps *)
          | ECrashCreate t p g => Some (crash_create m' t p g)
          | _ => match take m' (label_of_event e) with Some m'' => Some m'' | None => Some m' end
          end
      else
        match due with
        | Some (td, l) => if now s <? td then take m (LTick (td - now s)) else take m l
        | None => None
        end
  | [], Some (td, l) => if now s <? td then take m (LTick (td - now s)) else take m l
  | [], None => None
  end end end end.

(** run until nothing is left to do, the horizon is passed, or the fuel is exhausted *)
Fixpoint simulate (fuel : nat) (horizon : Z) (m : sim) : sim :=
  match fuel with
  | O => m
  | S k =>
      if horizon <? now (sst m) then m
      else match sim_step m with
           | Some m' => simulate k horizon m'
           | None => m
           end
  end.

End WithConfig.

Definition init_state (f : option fcontent) (last : Z) (mt : Z) : state :=
  State 0 (match f with Some _ => Some O | None => None end)
        (fun _ => match f with Some x => x | None => FEmpty end)
        (match f with Some _ => 1%nat | None => O end)
        (fun _ => CIdle) (fun _ => O) [] (fun _ => HNone) last (fun _ => mt).

Definition init : state := init_state None (-1) 0.

(** ** two lock files side by side (shared clock, shared processes) *)
Inductive label2 := L1 (l : label) | L2 (l : label) | LBoth (l : label).
Definition step2 (c : config) (s : state * state) (l : label2) : option (state * state) :=
  match l with
  | L1 (LTick _) | L1 (LKill _) | L2 (LTick _) | L2 (LKill _) => None
  | L1 l => match step c (fst s) l with Some s1 => Some (s1, snd s) | None => None end
  | L2 l => match step c (snd s) l with Some s2 => Some (fst s, s2) | None => None end
  | LBoth (LTick d) =>
      match step c (fst s) (LTick d), step c (snd s) (LTick d) with
      | Some s1, Some s2 => Some (s1, s2)
      | _, _ => None
      end
  | LBoth (LKill p) =>
      match step c (fst s) (LKill p), step c (snd s) (LKill p) with
      | Some s1, Some s2 => Some (s1, s2)
      | _, _ => None
      end
  | LBoth _ => None
  end.
