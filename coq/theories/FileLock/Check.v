(** Correspondence for C08.  A case is a scenario that the Go harness ran against the real
    FileStorage.Lock / Unlock on a real directory (goroutines and child processes, SIGKILL,
    context cancellation, pre-made lock files): the initial lock file, the timed script of
    external events as they actually happened, and for every thread how and when its Lock
    call returned.

    [model_agrees]: the deterministic simulation of the timed LTS ([FileLock.Model.simulate],
    constants from Gen.Consts) on the same script predicts the same outcome for every thread
    at the same time, within the tolerance.  Because the implementation's poll instants
    are only known up to scheduling jitter, the script is also simulated with the external
    events shifted by -J and +J and with latencies added to the sleeps (see [variant]).

    [spec_ok]: the property's clauses evaluated on the implementation's observation
    alone: hold intervals of live holders are disjoint; after a holder is killed a
    persistent waiter acquires within the bound; a cancelled blocked Lock returns promptly;
    a free lock is obtained at once. *)
From CM Require Import Lib.Str Lib.Wire Lib.SafeSteps Gen.Consts Safe.Model FileLock.Model.
Open Scope Z_scope.

(** H-live latency bound used when simulating: any value below (factor-1)*interval *)
Definition sim_delta : Z := 2000000000.
Definition cfg_repo_eps (d e : Z) : config :=
  Config lock_freshness_interval file_lock_poll_interval lock_stale_factor (Z.to_nat lock_empty_retries)
         lock_empty_sleep lock_empty_count_resets (lock_hb_checks_created && lock_hb_check_before_truncate)
         (lock_empty_mtime_guard && (lock_empty_mtime_factor =? lock_stale_factor)) lock_undecodable_as_empty d e.
Definition cfg_repo (d : Z) : config := cfg_repo_eps d 0.

Record ev := Ev { etime : Z; ekind : Z; ea : Z; eb : Z }.   (* kind: 0 start(tid, pid) 1 unlock(tid) 2 kill(pid) 3 cancel(tid) 4 stop(pid) 5 cont(pid) 6 crash in the creation gap (tid, 2*pid + garbage) *)
Record ob := Ob { otid : Z; oout : Z; otime : Z }.          (* out: 0 acquired 1 ctx error 2 decode error 3 other -1 never returned *)

Record case := Case {
  cinit : option fcontent;
  cmtime : Z;          (* modification time of the pre-made lock file (relative, <= 0) *)
  cevents : list ev;
  chorizon : Z;
  ctol : Z;
  cjit : Z;
  cgap : Z;            (* injected truncate -> write delay of the heartbeats (slow storage), else 0 *)
  cslow : list (nat * Z); (* processes whose unlink calls are delayed (injected), with the delay *)
  cobs : list ob
}.

Definition get_optz : dec (option Z) := get_opt get_z.
Definition get_init : dec (option fcontent * Z) :=
  tag <- get_z ;;
  if tag =? 0 then ret (None, 0)
  else if tag =? 1 then (m <- get_z ;; ret (Some FEmpty, m))
  else if tag =? 2 then (m <- get_z ;; ret (Some FGarbage, m))
  else (c <- get_optz ;; u <- get_optz ;; m <- get_z ;; ret (Some (FMeta c u), m)).
Definition get_ev : dec ev := t <- get_z ;; k <- get_z ;; a <- get_z ;; b <- get_z ;; ret (Ev t k a b).
Definition get_ob : dec ob := t <- get_z ;; o <- get_z ;; x <- get_z ;; ret (Ob t o x).
Definition get_case : dec case :=
  i <- get_init ;; es <- get_list get_ev ;; h <- get_z ;; tol <- get_z ;; j <- get_z ;; g <- get_z ;;
  sl <- get_list (p <- get_nat ;; d <- get_z ;; ret (p, d)) ;;
  os <- get_list get_ob ;;
  ret (Case (fst i) (snd i) es h tol j g sl os).

Definition sevent_of (e : ev) : sevent :=
  let a := Z.to_nat (ea e) in
  if ekind e =? 0 then EStart a (Z.to_nat (eb e))
  else if ekind e =? 1 then EUnlock a
  else if ekind e =? 2 then EKill a
  else if ekind e =? 4 then EStop a
  else if ekind e =? 5 then ECont a
  else if ekind e =? 6 then ECrashCreate a (Z.to_nat (eb e / 2)) (Z.odd (eb e))
  else ECancel a.

(** a scenario that suspends a process (SIGSTOP ... SIGCONT) violates H-live on purpose: it is
    simulated with a heartbeat latency bound that allows any lateness *)
Definition suspends (es : list ev) : bool := existsb (fun e => ekind e =? 4) es.
Definition no_bound : Z := 1000000000000000.

(** shift the events that race with the waiters' poll instants (unlock, kill) by [j] *)
Definition script_of (j : Z) (es : list ev) : list (Z * sevent) :=
  map (fun e => ((if (ekind e =? 1) || (ekind e =? 2) then Z.max 0 (etime e + j) else etime e), sevent_of e)) es.

(** *** scheduling jitter

    The implementation's poll instants are known only up to scheduling latency: every sleep
    of a Lock call lasts the nominal time plus whatever the machine adds (tens of ms when
    idle, hundreds under load or under strace).  A [variant] fixes such latencies for the
    simulation: a shift [vj] of the unlock / kill events, a latency [vlat0] added to every
    sleep, and extra latencies for single threads.  The comparison first looks for ONE
    variant without latency that explains the whole observation; failing that, every
    thread's observation must be explained by SOME variant of a grid up to 600 ms (threads
    independently: the envelope of the admissible jitter).  What the model must get right
    in every variant: who ends how, and when up to a poll period. *)
Record variant := Variant { vj : Z; vlat0 : Z; vlats : list (tid * Z) }.

Definition sim_cfg (c : case) : config :=
  cfg_repo_eps (if suspends (cevents c) then no_bound else sim_delta) (cgap c).
Definition sim_run (c : case) (v : variant) : sim :=
  simulate (sim_cfg c) 4000 (chorizon c)
           (Sim (init_state (cinit c) (-1) (cmtime c)) (script_of (vj v) (cevents c)) [] [] [] [] (cslow c) [] (vlat0 v) (vlats v)).
Definition model_outlog_v (c : case) (v : variant) : list (tid * Z * Z) := outlog (sim_run c v).
Definition model_outlog (c : case) (j : Z) : list (tid * Z * Z) := model_outlog_v c (Variant j 0 []).

Definition find_out (lg : list (tid * Z * Z)) (t : Z) : option (Z * Z) :=
  match find (fun x => Z.of_nat (fst (fst x)) =? t) lg with
  | Some (_, o, tm) => Some (o, tm)
  | None => None
  end.

Definition ob_agrees (tol : Z) (lg : list (tid * Z * Z)) (o : ob) : bool :=
  match find_out lg (otid o) with
  | Some (mo, mt) => (mo =? oout o) && (Z.abs (mt - otime o) <=? tol)
  | None => oout o =? -1
  end.

(** [exists_lazy] stops at the first hit also under vm_compute *)
Fixpoint exists_lazy {A} (f : A -> bool) (l : list A) : bool :=
  match l with
  | [] => false
  | x :: r => if f x then true else exists_lazy f r
  end.

Definition ms : Z := 1000000.
Definition uniform_lats : list Z := map (fun x => x * ms) [20; 40; 60; 80; 100; 130; 160; 200; 250; 300; 350; 400; 450; 500; 550; 600].
Definition single_lats : list Z := map (fun x => x * ms) [120; 300; 550].
Definition case_tids (c : case) : list tid :=
  map (fun e => Z.to_nat (ea e)) (filter (fun e => ekind e =? 0) (cevents c)).
Definition base_variants (c : case) : list variant :=
  [Variant 0 0 []; Variant (- cjit c) 0 []; Variant (cjit c) 0 []].
Definition all_variants (c : case) : list variant :=
  flat_map (fun j =>
              Variant j 0 [] ::
              map (fun l => Variant j l []) uniform_lats ++
              flat_map (fun t => map (fun l => Variant j 0 [(t, l)]) single_lats) (case_tids c))
           [0; - cjit c; cjit c].

Definition agrees_with (c : case) (v : variant) : bool := forallb (ob_agrees (ctol c) (model_outlog_v c v)) (cobs c).
Definition model_agrees (c : case) : bool :=
  if exists_lazy (agrees_with c) (base_variants c) then true
  else forallb (fun o => exists_lazy (fun v => ob_agrees (ctol c) (model_outlog_v c v) o) (all_variants c)) (cobs c).

(** ** the monitors *)
Definition slack : Z := 1500000000.
Definition recovery_bound : Z :=
  lock_stale_factor * lock_freshness_interval + file_lock_poll_interval + lock_empty_retries * lock_empty_sleep + slack.
Definition cancel_bound : Z := 900000000.
Definition clock_slack : Z := 5000000.

Definition first_time (es : list ev) (k a : Z) : option Z :=
  match find (fun e => (ekind e =? k) && (ea e =? a)) es with Some e => Some (etime e) | None => None end.
Definition pid_of (es : list ev) (t : Z) : Z :=
  match find (fun e => (ekind e =? 0) && (ea e =? t)) es with Some e => eb e | None => -1 end.
Definition zmin_opt (a : Z) (b : option Z) : Z := match b with Some x => Z.min a x | None => a end.

(** end of a hold: the Unlock call, or the kill of the holder's process, or never *)
Definition hold_end (c : case) (t : Z) : Z :=
  zmin_opt (zmin_opt (chorizon c + 1000000000000) (first_time (cevents c) 1 t)) (first_time (cevents c) 2 (pid_of (cevents c) t)).

Definition holds_of (c : case) : list (Z * Z * Z) :=   (* (tid, from, to) *)
  flat_map (fun o => if oout o =? 0 then [(otid o, otime o, Z.max (otime o) (hold_end c (otid o)))] else []) (cobs c).

Definition disjoint (h1 h2 : Z * Z * Z) : bool :=
  let '(t1, a1, e1) := h1 in let '(t2, a2, e2) := h2 in
  (t1 =? t2) || (e1 <=? a2 + clock_slack) || (e2 <=? a1 + clock_slack).
Definition mutex_ok (c : case) : bool :=
  let hs := holds_of c in forallb (fun h1 => forallb (disjoint h1) hs) hs.

(** a thread is a persistent waiter over [from, to] if it called Lock by [from] + 2 s, has
    not returned before [from], and is neither cancelled nor killed before [to] *)
Definition persistent_waiter (c : case) (from to : Z) (o : ob) : bool :=
  match first_time (cevents c) 0 (otid o) with
  | Some st =>
      (st <=? from + 2000000000) &&
      ((oout o =? -1) || (from <? otime o)) &&
      match first_time (cevents c) 3 (otid o) with Some tc => to + 1000000000 <=? tc | None => true end &&
      match first_time (cevents c) 2 (pid_of (cevents c) (otid o)) with Some tk => to <? tk | None => true end
  | None => false
  end.

Definition not_killed (c : case) (o : ob) : bool :=
  match first_time (cevents c) 2 (pid_of (cevents c) (otid o)) with Some _ => false | None => true end.

(** after time [from] the lock is obtainable for good (its holder is dead and the file stale,
    at the latest, at [from] + ...): some thread acquires by [to], or else no contender that
    was there gave up with an error of its own or is still waiting at [to] *)
Definition recovered_by (c : case) (from to : Z) : bool :=
  existsb (fun o => (oout o =? 0) && (from <? otime o) && (otime o <=? to)) (cobs c) ||
  negb (existsb (fun o =>
          match first_time (cevents c) 0 (otid o) with
          | Some st =>
              (st <=? from + 2000000000) && not_killed c o &&
              ((((oout o =? 2) || (oout o =? 3)) && (from <=? otime o)) ||
               (persistent_waiter c from to o && (to <? chorizon c)))
          | None => false
          end) (cobs c)).

Definition recovers_ok (c : case) : bool :=
  forallb (fun e =>
    if ekind e =? 2 then
      let tk := etime e in
      (* was a thread of the killed process holding at the kill? *)
      let held := existsb (fun h => let '(t, a, e1) := h in (pid_of (cevents c) t =? ea e) && (a <=? tk) && (tk <=? e1)) (holds_of c) in
      negb held || recovered_by c tk (tk + recovery_bound)
    else true) (cevents c).

(** a pre-made lock file has no live owner (its holder is dead): it becomes obtainable once it
    is stale - by its timestamps (Updated, else Created; none: at once), or, for an empty or
    undecodable file, by its modification time - and then a persistent waiter must acquire
    within a poll interval, the empty-read retries and the slack.  A waiter that returns an
    error, or is still waiting then, fails the clause. *)
Definition stale_span : Z := lock_stale_factor * lock_freshness_interval.
Definition pre_free_at (c : case) : option Z :=
  match cinit c with
  | None => None
  | Some (FMeta cr u) =>
      Some (match (match u with Some x => Some x | None => cr end) with
            | Some r => Z.max 0 (r + stale_span)
            | None => 0
            end)
  | Some _ => Some (Z.max 0 (cmtime c + stale_span))
  end.
Definition pre_bound : Z := file_lock_poll_interval + lock_empty_retries * lock_empty_sleep + slack.
Definition prefile_recovers_ok (c : case) : bool :=
  match pre_free_at c with
  | None => true
  | Some tf => recovered_by c (tf - 1) (tf + pre_bound)
  end.

(** a process that died between its O_EXCL create and the end of its metadata write leaves a lock
    file (empty, or undecodable) that nobody maintains: it is obtainable once its modification
    time - the instant of the crash - is older than the staleness span, whoever else is alive
    (a former holder's lingering heartbeat must not adopt it) *)
Definition crash_create_recovers_ok (c : case) : bool :=
  forallb (fun e => if ekind e =? 6 then
                      let tf := etime e + stale_span in recovered_by c (tf - 1) (tf + pre_bound)
                    else true) (cevents c).

(** a pre-made lock file that is NOT yet stale - its Updated stamp (Created when there is none), or
    for an empty / undecodable file its modification time, is younger than the staleness span - is
    the lock of a holder that must be presumed alive, however old its Created stamp is: nobody may
    obtain the lock before the file has become stale *)
Definition fresh_prefile_respected (c : case) : bool :=
  match pre_free_at c with
  | None => true
  | Some tf => forallb (fun o => negb ((oout o =? 0) && (otime o <? tf - 100000000))) (cobs c)
  end.

Definition cancel_ok (c : case) : bool :=
  forallb (fun e =>
    if ekind e =? 3 then
      match find (fun o => otid o =? ea e) (cobs c) with
      | Some o =>
          (* returned before the cancel, or promptly after it (killed threads excepted) *)
          match first_time (cevents c) 2 (pid_of (cevents c) (otid o)) with
          | Some _ => true
          | None => negb (oout o =? -1) && (otime o <=? etime e + cancel_bound)
          end
      | None => true
      end
    else true) (cevents c).

(** a free lock is obtained at once: in a scenario without a pre-made lock file and without
    kills or suspensions, a thread all of whose contenders either finished (Lock failed, or Unlock called)
    at least [free_margin] before it called Lock, or call Lock only [free_prompt] after it,
    acquires within [free_prompt] (well below the poll interval) *)
Definition free_prompt : Z := 900000000.
Definition free_margin : Z := 100000000.
Definition finished_before (c : case) (o' : ob) (t : Z) : bool :=
  if oout o' =? 0 then match first_time (cevents c) 1 (otid o') with Some u => u + free_margin <=? t | None => false end
  else if oout o' =? -1 then false
  else otime o' + free_margin <=? t.
Definition free_for (c : case) (o : ob) (st : Z) : bool :=
  forallb (fun e => if ekind e =? 0 then
                      (ea e =? otid o) || (st + free_prompt <? etime e) ||
                      match find (fun o' => otid o' =? ea e) (cobs c) with
                      | Some o' => finished_before c o' st
                      | None => false
                      end
                    else true) (cevents c).
Definition free_ok (c : case) : bool :=
  match cinit c with
  | Some _ => true
  | None =>
      existsb (fun e => (ekind e =? 2) || (ekind e =? 4) || (ekind e =? 6)) (cevents c) ||
      forallb (fun o => match first_time (cevents c) 0 (otid o) with
                        | Some st => negb (free_for c o st) || ((oout o =? 0) && (otime o - st <=? free_prompt))
                        | None => true
                        end) (cobs c)
  end.

Definition spec_ok (c : case) : bool :=
  mutex_ok c && recovers_ok c && prefile_recovers_ok c && crash_create_recovers_ok c && cancel_ok c && free_ok c &&
  fresh_prefile_respected c.

(** ** "distinct names never block each other": cases of kind 1

    A names case lists the threads of one scenario (no pre-made lock file) with the name each
    passed to Lock, the lock file the implementation uses for that name (lockFilename on
    the root "/r"), and when and how its Lock returned.
    [names_model_agrees]: the model's lock file for the name ([Safe.Model.lock_filename]: Safe
    from the statement sequence translated from storage.go) is the implementation's, for
    every thread - so the grouping of threads into lock files, which the scenario cases
    (kind 0) are built on, is the model's.
    [names_spec_ok]: a thread whose name no other thread of the scenario uses acquired the
    lock within [prompt] of calling Lock (names are ASCII here). *)
Record nthread := NThread { nname : str; nfile : str; nstart : Z; nout : Z; nret : Z }.
Record ncase := NCase { nroot : str; nthreads : list nthread; nprompt : Z }.
Definition get_nthread : dec nthread :=
  n <- get_str ;; f <- get_str ;; st <- get_z ;; o <- get_z ;; r <- get_z ;; ret (NThread n f st o r).
Definition get_ncase : dec ncase :=
  r <- get_str ;; ts <- get_list get_nthread ;; p <- get_z ;; ret (NCase r ts p).

Definition model_lock_file (root name : str) : str :=
  lock_filename (tbl_lower []) (tbl_space []) root name.
Definition names_model_agrees (c : ncase) : bool :=
  forallb (fun t => str_eqb (model_lock_file (nroot c) (nname t)) (nfile t)) (nthreads c).
Definition count_name (c : ncase) (n : str) : nat :=
  length (filter (fun t => str_eqb (nname t) n) (nthreads c)).
Definition names_spec_ok (c : ncase) : bool :=
  forallb (fun t => negb (count_name c (nname t) =? 1)%nat ||
                    ((nout t =? 0) && (nret t - nstart t <=? nprompt c))) (nthreads c).

(** ** system-call level: cases of kind 2

    The scenario of a kind-0 case plus, for one traced process, its system calls on the lock
    file in order (codes of c08ParseTrace in the harness).
    [sys_agrees]: the steps the simulation takes for the threads and heartbeats of that
    process, each mapped to the system calls it stands for in the state it is taken in, give
    exactly the observed sequence.
    [sys_spec_ok]: on the observation alone - the lock file is only ever created with
    O_CREAT|O_EXCL, never renamed, truncated by name or opened for writing in another way; it
    is written only right after that create or right after an ftruncate that follows an
    O_RDWR open and a read; every write is followed by fsync and close. *)
Definition sys_of (c : config) (s : state) (l : label) : list Z :=
  match l with
  | LTryCreate _ => match file s with None => [1] | Some _ => [2] end
  | LWriteMeta _ => [3; 4; 5]
  | LOpenRead _ => match file s with None => [11] | Some _ => [10; 7; 5] end
  | LRemove _ => match file s with None => [15] | Some _ => [9] end
  | LUnlock _ => match file s with None => [15] | Some _ => [9] end
  | LHbWake i =>
      match hb s i, file s with
      | HSleep _ cr _, Some j =>
          match content s j with
          | FMeta fcr _ => if checks c && negb (opt_eqb fcr (Some cr)) then [6; 7; 5] else [6; 7; 8]
          | _ => [6; 7; 5]
          end
      | _, _ => [12]
      end
  | LHbWrite _ => [3; 4; 5]
  | _ => []
  end.
Definition label_pid (s : state) (l : label) : option pid :=
  match l with
  | LTryCreate t | LWriteMeta t | LOpenRead t | LRemove t | LWake t | LCancel t | LUnlock t => Some (cproc s t)
  | LHbWake i | LHbWrite i => hb_proc (hb s i)
  | _ => None
  end.
Fixpoint sys_trace_of (c : config) (p : pid) (s : state) (ls : list label) : list Z :=
  match ls with
  | [] => []
  | l :: r =>
      let here := match label_pid s l with Some q => if Nat.eqb q p then sys_of c s l else [] | None => [] end in
      match step c s l with
      | Some s' => here ++ sys_trace_of c p s' r
      | None => here
      end
  end.
Definition model_syscalls_v (c : case) (p : pid) (v : variant) : list Z :=
  sys_trace_of (sim_cfg c) p (init_state (cinit c) (-1) (cmtime c)) (rev (trace (sim_run c v))).
Definition model_syscalls (c : case) (p : pid) : list Z := model_syscalls_v c p (Variant 0 0 []).
Fixpoint zl_eqb (a b : list Z) : bool :=
  match a, b with
  | [], [] => true
  | x :: a', y :: b' => (x =? y) && zl_eqb a' b'
  | _, _ => false
  end.
(** the number of polls a waiter makes depends on the latencies: some variant must give exactly
    the observed sequence *)
Definition sys_agrees (c : case) (p : pid) (obs : list Z) : bool :=
  exists_lazy (fun v => zl_eqb (model_syscalls_v c p v) obs) (all_variants c).

Fixpoint sys_shape (prev2 prev1 : Z) (l : list Z) : bool :=
  match l with
  | [] => true
  | x :: r =>
      negb ((x =? 13) || (x =? 14) || (x =? 16)) &&
      (negb (x =? 3) || (prev1 =? 1) || ((prev1 =? 8) && (prev2 =? 7))) &&
      (negb (x =? 8) || (prev1 =? 7)) &&
      (negb (x =? 3) || match r with 4 :: 5 :: _ => true | _ => false end) &&
      sys_shape prev1 x r
  end.
Definition sys_spec_ok (obs : list Z) : bool := sys_shape 0 0 obs.

Definition check_line (l : list Z) : Z :=
  match l with
  | 2 :: r =>
      match decode (c <- get_case ;; p <- get_nat ;; o <- get_list get_z ;; ret (c, p, o)) r with
      | Some (c, p, o) => code (sys_agrees c p o) (sys_spec_ok o)
      | None => code_decode_error
      end
  | 0 :: r =>
      match decode get_case r with
      | Some c => code (model_agrees c) (spec_ok c)
      | None => code_decode_error
      end
  | 1 :: r =>
      match decode get_ncase r with
      | Some c => code (names_model_agrees c) (names_spec_ok c)
      | None => code_decode_error
      end
  | _ => code_decode_error
  end.

(** diagnostics: the model's outcome log (tid, outcome, time in ms) for the unshifted script,
    then the three monitor verdicts; for a names case, per thread: does the model's lock file
    agree, is the thread's name unique, was it prompt *)
Definition explain_line (l : list Z) : list Z :=
  match l with
  | 0 :: r =>
      match decode get_case r with
      | Some c =>
          flat_map (fun x => [Z.of_nat (fst (fst x)); snd (fst x); snd x / 1000000]) (model_outlog c 0) ++
          [-7; (if mutex_ok c then 1 else 0); (if recovers_ok c then 1 else 0); (if cancel_ok c then 1 else 0);
           (if free_ok c then 1 else 0); (if prefile_recovers_ok c then 1 else 0);
           (if crash_create_recovers_ok c then 1 else 0)]
      | None => []
      end
  | 2 :: r =>
      match decode (c <- get_case ;; p <- get_nat ;; o <- get_list get_z ;; ret (c, p, o)) r with
      | Some (c, p, _) => model_syscalls c p
      | None => []
      end
  | 1 :: r =>
      match decode get_ncase r with
      | Some c =>
          flat_map (fun t => [(if str_eqb (model_lock_file (nroot c) (nname t)) (nfile t) then 1 else 0);
                              Z.of_nat (count_name c (nname t));
                              (if (nout t =? 0) && (nret t - nstart t <=? nprompt c) then 1 else 0)]) (nthreads c)
      | None => []
      end
  | _ => []
  end.
