(** Witnesses against the stronger statements, for the code as it was before the two
    file-lock fixes.  The configurations are written out here (not taken from
    Gen.Consts): the theorems speak about the code variant they name, whatever the tree
    currently contains. *)
From Coq Require Import List ZArith Bool Lia.
From CM Require Import FileLock.Model FileLock.Proofs.
Import ListNotations.
Open Scope Z_scope.

Definition sec : Z := 1000000000.

(** the code before the heartbeat fix: keepLockfileFresh refreshes whatever file it finds *)
Definition cfg_nofix : config := Config (5 * sec) sec 2 8 250000000 false false false false (2 * sec) 0.
(** the code before the emptyCount fix (heartbeat fix applied): emptyCount is cumulative
    over the whole Lock call *)
Definition cfg_asis : config := Config (5 * sec) sec 2 8 250000000 false true false false (2 * sec) 0.

(** ** 1. the zombie heartbeat

    Thread 0 of process 0 locks and unlocks; one second later thread 1 of process 1 locks
    the same name and its process is killed; thread 2 of process 0 waits.  Process 0's
    heartbeat goroutine of the FIRST lock wakes at 5 s, finds process 1's lock file and
    refreshes it, every 5 s, for ever. *)
Definition zombie_prefix : list label :=
  [LStart 0 0; LTryCreate 0; LWriteMeta 0; LUnlock 0; LTick sec;
   LStart 1 1; LTryCreate 1; LWriteMeta 1; LKill 1;
   LStart 2 0; LTryCreate 2; LOpenRead 2;
   LTick (4 * sec); LHbWake 0; LHbWrite 0]%nat.
Definition zombie_round : list label := [LTick (5 * sec); LHbWake 0%nat; LHbWrite 0%nat].
Fixpoint zombie_rounds (n : nat) : list label :=
  match n with O => [] | S k => zombie_round ++ zombie_rounds k end.

Definition zombie_shape (s : state) : Prop :=
  file s = Some 1%nat /\ nexti s = 2%nat /\ hb s 1%nat = HDone /\ cs s 1%nat = CDead /\
  hb s 0%nat = HSleep 0%nat 0 (now s + 5 * sec) /\
  content s 1%nat = FMeta (Some sec) (Some (now s)) /\
  (forall t ec i, cs s t <> CCreated ec i).

Lemma zombie_round_keeps s : zombie_shape s ->
  exists s', run cfg_nofix s zombie_round = Some s' /\ zombie_shape s' /\ now s' = now s + 5 * sec.
Proof.
  intros (Hf & Hn & H1 & Hc & H0 & Hct & Hncr).
  unfold zombie_round. cbn [run].
  assert (Ht : can_tick cfg_nofix s (5 * sec) = true).
  { unfold can_tick. rewrite Hn. cbn [seq forallb]. rewrite H0, H1. cbn [hb_allows delta cfg_nofix].
    apply andb_true_iff. split.
    - apply andb_true_iff. split; [reflexivity|]. cbn [andb]. rewrite andb_true_r. apply Z.leb_le. unfold sec. lia.
    - apply forallb_forall. intros t _. destruct (cs s t) eqn:E; try reflexivity. destruct (Hncr _ _ _ E). }
  cbn [step]. rewrite Ht. cbn [step hb now file content]. rewrite H0.
  replace (now s + 5 * sec <=? now s + 5 * sec) with true by (symmetry; apply Z.leb_refl).
  rewrite Hf, Hct. cbn [checks cfg_nofix andb]. cbn [step hb]. rewrite upd_eq.
  eexists. split; [reflexivity|]. unfold zombie_shape. cbn [file nexti hb cs content now interval cfg_nofix].
  rewrite !upd_eq. rewrite !upd_neq by discriminate. repeat split; auto.
Qed.

Lemma zombie_rounds_keep n : forall s, zombie_shape s ->
  exists s', run cfg_nofix s (zombie_rounds n) = Some s' /\ zombie_shape s' /\ now s' = now s + Z.of_nat n * (5 * sec).
Proof.
  induction n as [|n IH]; intros s Hs.
  - exists s. split; [reflexivity|]. split; [assumption|]. lia.
  - destruct (zombie_round_keeps s Hs) as (s1 & R1 & Hs1 & N1).
    destruct (IH s1 Hs1) as (s2 & R2 & Hs2 & N2).
    exists s2. split; [|split; [assumption | lia]].
    cbn [zombie_rounds]. revert R1 R2. generalize (zombie_rounds n) as rest. unfold zombie_round. cbn [run app].
    intros rest. destruct (step cfg_nofix s (LTick (5 * sec))) as [a|]; [|discriminate].
    destruct (step cfg_nofix a (LHbWake 0%nat)) as [b|]; [|discriminate].
    destruct (step cfg_nofix b (LHbWrite 0%nat)) as [d|]; [|discriminate].
    intros E; injection E; intros ->. auto.
Qed.

(** For the code without the fix: a reachable state in which the holder is dead and a
    waiter is polling, from which time passes without bound while the dead holder's lock
    file is never stale. *)
Theorem stale_recovers_refuted_zombie :
  exists s0, run cfg_nofix init zombie_prefix = Some s0 /\
    cs s0 1%nat = CDead /\ (exists ec u, cs s0 2%nat = CSleep ec u) /\
    forall n, exists s i cr u, run cfg_nofix s0 (zombie_rounds n) = Some s /\
      now s = now s0 + Z.of_nat n * (5 * sec) /\ cs s 1%nat = CDead /\
      file s = Some i /\ content s i = FMeta cr u /\ is_stale cfg_nofix (now s) cr u = false.
Proof.
  destruct (run cfg_nofix init zombie_prefix) as [s0|] eqn:E; [|vm_compute in E; discriminate].
  exists s0. split; [reflexivity|].
  assert (Hs0 : zombie_shape s0 /\ (exists ec u, cs s0 2%nat = CSleep ec u)).
  { revert E. vm_compute. intros E; injection E; intros <-. cbn. repeat split; eauto.
    intros [|[|[|t]]] ec i; cbn; discriminate. }
  destruct Hs0 as [Hs0 Hw]. split; [apply Hs0|]. split; [exact Hw|].
  intros n. destruct (zombie_rounds_keep n s0 Hs0) as (s & R & (Hf & Hn & H1 & Hc & H0 & Hct & _) & N).
  exists s, 1%nat, (Some sec), (Some (now s)). repeat split; auto.
  unfold is_stale. apply Z.ltb_ge. cbn. lia.
Qed.

(** the same schedule on the fixed code: the old heartbeat stops at its first wake-up *)
Example zombie_fixed_stops :
  exists s, run cfg_asis init zombie_prefix = None /\
            run cfg_asis init (firstn 14 zombie_prefix) = Some s /\ hb s 0%nat = HDone.
Proof.
  destruct (run cfg_asis init (firstn 14 zombie_prefix)) as [s|] eqn:E; [|vm_compute in E; discriminate].
  exists s. split; [vm_compute; reflexivity|]. split; [reflexivity|].
  revert E. vm_compute. intros E; injection E; intros <-. reflexivity.
Qed.

(** ** 2. the cumulative empty count

    Thread 0 holds the lock for 40 s; its heartbeat runs exactly on time.  Thread 1 polls;
    it reads the file, finds it fresh, and one second later happens to read it in the
    truncate gap of the heartbeat - at eight heartbeats, 5 s apart, with successful reads
    in between.  The eighth time it treats the live lock as stale, removes it and creates
    its own: two holders, nobody killed. *)
Definition gap_read (w : tid) : list label :=
  [LTick (4 * sec); LWake w; LTryCreate w; LOpenRead w;
   LTick sec; LWake w; LTryCreate w; LHbWake 0%nat; LOpenRead w; LHbWrite 0%nat].
Definition empty_count_run : list label :=
  [LStart 0 0; LTryCreate 0; LWriteMeta 0; LStart 1 1; LTryCreate 1; LOpenRead 1]%nat ++
  gap_read 1%nat ++ gap_read 1%nat ++ gap_read 1%nat ++ gap_read 1%nat ++
  gap_read 1%nat ++ gap_read 1%nat ++ gap_read 1%nat ++ gap_read 1%nat ++
  [LRemove 1; LTryCreate 1; LWriteMeta 1]%nat.

Theorem mutex_refuted_empty_count :
  exists s i1 i2, run cfg_asis init empty_count_run = Some s /\
    (forall p, ~ In (LKill p) empty_count_run) /\
    cs s 0%nat = CHolding i1 /\ cs s 1%nat = CHolding i2 /\ i1 <> i2.
Proof.
  destruct (run cfg_asis init empty_count_run) as [s|] eqn:E; [|vm_compute in E; discriminate].
  exists s, 0%nat, 1%nat. split; [reflexivity|]. split.
  - intros p H. unfold empty_count_run, gap_read in H. cbn in H.
    repeat (destruct H as [H|H]; [discriminate|]). exact H.
  - revert E. vm_compute. intros E; injection E; intros <-. cbn. repeat split; auto; discriminate.
Qed.

(** with a count that is reset by every successful decode the same schedule is harmless:
    the eighth gap read just sleeps again *)
Definition cfg_resets : config := Config (5 * sec) sec 2 8 250000000 true true false false (2 * sec) 0.
Example empty_count_run_with_reset :
  run cfg_resets init empty_count_run = None /\
  exists s, run cfg_resets init (firstn 86 empty_count_run) = Some s /\
            cs s 0%nat = CHolding 0%nat /\ exists ec u, cs s 1%nat = CSleep ec u.
Proof.
  split; [vm_compute; reflexivity|].
  destruct (run cfg_resets init (firstn 86 empty_count_run)) as [s|] eqn:E; [|vm_compute in E; discriminate].
  exists s. split; [reflexivity|]. revert E. vm_compute. intros E; injection E; intros <-. cbn. eauto.
Qed.


(** ** 3. eight creation gaps in a row: why "no waiter gives up on an empty live file" is a
    hypothesis of the mutual-exclusion theorem even for the repaired code

    [cfg_resets] is the code with both fixes, on a healthy disk (eps = 0).  Eight processes
    take and release the lock one after the other, 250 ms apart.  The waiter (thread 0)
    happens to read the lock file each time between the O_EXCL create and the metadata
    write of the current taker: eight consecutive empty reads, no successful read in
    between, nobody killed, every heartbeat on time.  At the eighth it treats the file of
    the live thread 8 as stale and removes it; thread 8 writes its (unlinked) file and
    holds, the waiter creates a new file and holds too.  Each creation gap lasts
    microseconds in practice, so this needs eight coincidences; the model's interleaving
    semantics allows them. *)
Definition gap_round (k : nat) : list label :=
  [LTick (250000000); LStart k k; LTryCreate k; LWake 0%nat; LTryCreate 0%nat; LOpenRead 0%nat].
Definition creation_gaps_run : list label :=
  [LStart 1 1; LTryCreate 1; LStart 0 0; LTryCreate 0; LOpenRead 0; LWriteMeta 1; LUnlock 1]%nat ++
  flat_map (fun k => gap_round k ++ [LWriteMeta k; LUnlock k]) [2; 3; 4; 5; 6; 7]%nat ++
  gap_round 8%nat ++ [LRemove 0; LTryCreate 0; LWriteMeta 8; LTick 1; LWriteMeta 0]%nat.

Definition is_kill (l : label) : bool := match l with LKill _ => true | _ => false end.

Lemma creation_gaps_proj :
  match run cfg_resets init creation_gaps_run with
  | Some s => cs s 8%nat = CHolding 7%nat /\ cs s 0%nat = CHolding 8%nat /\ now s = 1750000001
  | None => False
  end.
Proof. vm_compute. repeat split; reflexivity. Qed.

Theorem mutex_refuted_creation_gaps :
  exists s i1 i2, run cfg_resets init creation_gaps_run = Some s /\
    (forall p, ~ In (LKill p) creation_gaps_run) /\
    cs s 8%nat = CHolding i1 /\ cs s 0%nat = CHolding i2 /\ i1 <> i2 /\ now s < 2 * sec.
Proof.
  pose proof creation_gaps_proj as P.
  destruct (run cfg_resets init creation_gaps_run) as [s|]; [|contradiction].
  destruct P as (P1 & P2 & P3).
  exists s, 7%nat, 8%nat. split; [reflexivity|]. split.
  - intros p H.
    assert (F : forallb (fun l => negb (is_kill l)) creation_gaps_run = true) by (vm_compute; reflexivity).
    rewrite forallb_forall in F. specialize (F _ H). discriminate.
  - rewrite P3. split; [exact P1|]. split; [exact P2|]. split; [discriminate | unfold sec; lia].
Qed.

(** ** 4. the documented race after a crash (filestorage.go, comment above FileStorage and in
    the stale branch of Lock: "locking becomes imperfect if lock files are stale")

    The holder (thread 0, process 0) is killed.  10 s later two waiters of different
    processes both read the dead file and judge it stale.  Waiter 1 removes it, creates its
    own lock file and holds.  Waiter 2's os.Remove - of the NAME - comes only now: it
    removes waiter 1's live file, creates its own and holds too.  The code is the repaired
    one; every heartbeat is on time.  Mutual exclusion among live holders is lost after a
    recovery; it needs a dead holder first ([stale_removal_needs_dead_owner] in Proofs). *)
Definition stale_race_run : list label :=
  [LStart 0 0; LTryCreate 0; LWriteMeta 0; LKill 0;
   LStart 1 1; LStart 2 2; LTick (10 * sec + 1);
   LTryCreate 1; LOpenRead 1; LTryCreate 2; LOpenRead 2;
   LRemove 1; LTryCreate 1; LWriteMeta 1;
   LRemove 2; LTryCreate 2; LTick 1; LWriteMeta 2]%nat.

Lemma stale_race_proj :
  match run cfg_resets init stale_race_run with
  | Some s => cs s 0%nat = CDead /\ cs s 1%nat = CHolding 1%nat /\ cs s 2%nat = CHolding 2%nat
  | None => False
  end.
Proof. vm_compute. repeat split; reflexivity. Qed.

Theorem mutex_after_crash_refuted_stale_race :
  exists s i1 i2, run cfg_resets init stale_race_run = Some s /\
    cs s 0%nat = CDead /\ cs s 1%nat = CHolding i1 /\ cs s 2%nat = CHolding i2 /\ i1 <> i2.
Proof.
  pose proof stale_race_proj as P.
  destruct (run cfg_resets init stale_race_run) as [s|]; [|contradiction].
  destruct P as (P0 & P1 & P2).
  exists s, 1%nat, 2%nat. split; [reflexivity|]. split; [exact P0|]. split; [exact P1|]. split; [exact P2 | discriminate].
Qed.

(** ** 5. one write gap longer than the retries (slow storage)

    The repaired code ([cfg_slow]: both fixes) on storage where a heartbeat's truncate ->
    write gap lasts up to 2 s (H-live(eps) with eps = 2 s).  The holder's first heartbeat
    truncates at 5 s; the waiter reads the empty file eight times, 250 ms apart, all within
    that ONE gap, treats the live lock as stale, removes it and creates its own; the
    heartbeat then writes the unlinked file.  Two holders, nobody killed, the heartbeat on
    time.  The empty-count reset cannot help: there is no successful read in between. *)
Definition cfg_slow : config := Config (5 * sec) sec 2 8 250000000 true true false false (2 * sec) (2 * sec).
Definition gap_poll : list label := [LTick 250000000; LWake 1%nat; LTryCreate 1%nat; LOpenRead 1%nat].
Definition long_gap_run : list label :=
  [LStart 0 0; LTryCreate 0; LWriteMeta 0; LStart 1 1; LTryCreate 1; LOpenRead 1;
   LTick (5 * sec); LHbWake 0; LWake 1; LTryCreate 1; LOpenRead 1]%nat ++
  gap_poll ++ gap_poll ++ gap_poll ++ gap_poll ++ gap_poll ++ gap_poll ++ gap_poll ++
  [LRemove 1; LTryCreate 1; LWriteMeta 1; LHbWrite 0]%nat.

Lemma long_gap_proj :
  match run cfg_slow init long_gap_run with
  | Some s => cs s 0%nat = CHolding 0%nat /\ cs s 1%nat = CHolding 1%nat /\ now s = 6750000000
  | None => False
  end.
Proof. vm_compute. repeat split; reflexivity. Qed.

Theorem mutex_refuted_long_write_gap :
  exists s i1 i2, run cfg_slow init long_gap_run = Some s /\
    (forall p, ~ In (LKill p) long_gap_run) /\
    cs s 0%nat = CHolding i1 /\ cs s 1%nat = CHolding i2 /\ i1 <> i2 /\
    now s < 5 * sec + eps cfg_slow.
Proof.
  pose proof long_gap_proj as P.
  destruct (run cfg_slow init long_gap_run) as [s|]; [|contradiction].
  destruct P as (P1 & P2 & P3).
  exists s, 0%nat, 1%nat. split; [reflexivity|]. split.
  - intros p H.
    assert (F : forallb (fun l => negb (is_kill l)) long_gap_run = true) by (vm_compute; reflexivity).
    rewrite forallb_forall in F. specialize (F _ H). discriminate.
  - rewrite P3. split; [exact P1|]. split; [exact P2|]. split; [discriminate | cbn; unfold sec; lia].
Qed.
