(** C19 — models of (a) doWithRetry, (b) jobManager (async.go), (c) the test-CA logic of
    ACMEIssuer.Issue / doIssue (acmeissuer.go).  Executable definitions only. *)
From Coq Require Import List ZArith Bool Lia.
From CM Require Import Lib.Str.
Import ListNotations.
Open Scope Z_scope.

(** * (a) doWithRetry

    Times are nanoseconds since [start := time.Now()].  One loop iteration consumes one element
    of the input: what [f] returns on that call, how long the call takes, and by how much the
    timer is late (scheduling latency, >= 0) — the loop itself is deterministic given these. *)

Inductive outcome := OOk | OPlain | ONoRetry | OCanceled.
Definition outcome_eqb (a b : outcome) : bool :=
  match a, b with OOk, OOk | OPlain, OPlain | ONoRetry, ONoRetry | OCanceled, OCanceled => true | _, _ => false end.

Record call := Call { c_out : outcome; c_dur : Z; c_late : Z }.

Inductive result :=
| RNil              (* f returned nil *)
| RErrCanceled      (* f returned an error that Is context.Canceled *)
| RErrNoRetry       (* f returned an error that As ErrNoRetry *)
| RCtxCanceled      (* ctx.Done() won the select: context.Canceled *)
| RGiveUp           (* "final attempt; giving up": returns the last error (before 9155753: nil) *)
| RLoopExit         (* loop condition false at the top: returns the last error *)
| RPending.         (* input exhausted: still retrying *)
Definition result_code (r : result) : Z :=
  match r with RNil => 0 | RErrCanceled => 1 | RErrNoRetry => 2 | RCtxCanceled => 3
             | RGiveUp => 4 | RLoopExit => 5 | RPending => 6 end.

(** does the caller see nil?  [fixed = false]: the code before 9155753, where giving up
    after the horizon returned nil *)
Definition returns_nil_gen (fixed : bool) (r : result) : bool :=
  match r with RNil => true | RGiveUp => negb fixed | _ => false end.
Definition returns_nil : result -> bool := returns_nil_gen true.

Record attempt := Att {
  a_no : Z;        (* value of the AttemptsCtxKey counter the call sees *)
  a_start : Z;
  a_end : Z;
  a_out : outcome
}.

(** retryIntervals[intervalIndex], intervalIndex = -1 meaning "do not wait" *)
Definition wait_of (iv : list Z) (idx : Z) : Z :=
  if idx >=? 0 then nth (Z.to_nat idx) iv 0 else 0.
(** if intervalIndex < len(retryIntervals)-1 { intervalIndex++ } *)
Definition next_idx (iv : list Z) (idx : Z) : Z :=
  if idx <? Z.of_nat (length iv) - 1 then idx + 1 else idx.

(** [cancel]: instant at which ctx is cancelled (None: never); [pick0]: what the select picks
    when both the zero timer and ctx.Done() are ready (Go chooses at random) *)
Fixpoint retry_loop (iv : list Z) (maxd : Z) (cancel : option Z) (pick0 : bool)
         (calls : list call) (t : Z) (idx : Z) (k : Z) : list attempt * result * Z :=
  if negb (t <? maxd) then ([], RLoopExit, t) else
  let wait := wait_of iv idx in
  match calls with
  | [] => ([], RPending, t)
  | c :: rest =>
      let fire := t + wait + c_late c in
      let ctx_wins :=
        match cancel with
        | Some cn => if (wait =? 0) && (cn <=? t) then pick0 else cn <? fire
        | None => false
        end in
      if ctx_wins then ([], RCtxCanceled, match cancel with Some cn => Z.max t cn | None => t end)
      else
        let a := Att k fire (fire + c_dur c) (c_out c) in
        let t' := fire + c_dur c in
        match c_out c with
        | OOk => ([a], RNil, t')
        | OCanceled => ([a], RErrCanceled, t')
        | ONoRetry => ([a], RErrNoRetry, t')
        | OPlain =>
            if t' <? maxd then
              let '(l, r, te) := retry_loop iv maxd cancel pick0 rest t' (next_idx iv idx) (k + 1) in
              (a :: l, r, te)
            else ([a], RGiveUp, t')
        end
  end.

Definition do_with_retry (iv : list Z) (maxd : Z) (cancel : option Z) (pick0 : bool) (calls : list call) :=
  retry_loop iv maxd cancel pick0 calls 0 (-1) 0.

(** the documented schedule: the pause before attempt k+1 *)
Definition sched (iv : list Z) (k : nat) : Z := nth (Nat.min k (length iv - 1)) iv 0.

Definition all_positive (iv : list Z) : bool := forallb (fun x => 0 <? x) iv.
Fixpoint nondecreasing (iv : list Z) : bool :=
  match iv with
  | a :: (b :: _) as r => (a <=? b) && nondecreasing r
  | _ => true
  end.

(** * (b) jobManager

    Workers are anonymous: [idle] of them are at the top of the loop (about to lock and look
    at the queue), one runs each job of [running], one is between the job's return and the
    release of its name for each job of [finishing]. *)

Record job := Job { j_id : nat; j_name : str }.

Record jm := JM {
  queue : list job;
  names : list str;
  active : nat;            (* jm.activeWorkers *)
  idle : nat;
  running : list job;
  finishing : list job
}.

Inductive jkind := KOk | KErr | KPanic.

Inductive jlabel :=
| Submit (j : job)
| Take                     (* a worker at the top: pops the head, or exits if the queue is empty *)
| Return (id : nat) (k : jkind)
| Release (id : nat).

Definition has_name (n : str) (l : list str) : bool := existsb (str_eqb n) l.
Fixpoint remove_name (n : str) (l : list str) : list str :=
  match l with [] => [] | x :: r => if str_eqb n x then remove_name n r else x :: remove_name n r end.
Definition is_empty_name (n : str) : bool := match n with [] => true | _ => false end.

Fixpoint take_job (id : nat) (l : list job) : option (job * list job) :=
  match l with
  | [] => None
  | j :: r => if (j_id j =? id)%nat then Some (j, r)
              else match take_job id r with Some (x, r') => Some (x, j :: r') | None => None end
  end.

(** [fixed]: the code as it is now (a panic is recovered around the job); [false]: as it was
    (the panic killed the worker: name and worker slot were never released) *)
Definition jstep_gen (fixed : bool) (maxw : nat) (s : jm) (l : jlabel) : option jm :=
  match l with
  | Submit j =>
      (* ids are identifiers of the model only: a submission uses a fresh one *)
      if existsb (Nat.eqb (j_id j)) (map j_id (queue s ++ running s ++ finishing s)) then None else
      if negb (is_empty_name (j_name j)) && has_name (j_name j) (names s) then Some s
      else
        let names' := if is_empty_name (j_name j) then names s else j_name j :: names s in
        let q' := queue s ++ [j] in
        if (active s <? maxw)%nat
        then Some (JM q' names' (S (active s)) (S (idle s)) (running s) (finishing s))
        else Some (JM q' names' (active s) (idle s) (running s) (finishing s))
  | Take =>
      match idle s with
      | O => None
      | S i =>
          match queue s with
          | [] => Some (JM [] (names s) (pred (active s)) i (running s) (finishing s))
          | j :: q => Some (JM q (names s) (active s) i (running s ++ [j]) (finishing s))
          end
      end
  | Return id k =>
      match take_job id (running s) with
      | None => None
      | Some (j, r) =>
          match k, fixed with
          | KPanic, false => Some (JM (queue s) (names s) (active s) (idle s) r (finishing s))
          | _, _ => Some (JM (queue s) (names s) (active s) (idle s) r (finishing s ++ [j]))
          end
      end
  | Release id =>
      match take_job id (finishing s) with
      | None => None
      | Some (j, r) =>
          let names' := if is_empty_name (j_name j) then names s else remove_name (j_name j) (names s) in
          Some (JM (queue s) names' (active s) (S (idle s)) (running s) r)
      end
  end.

Definition jstep := jstep_gen true.
Definition jstep_orig := jstep_gen false.

Fixpoint jrun_gen (fixed : bool) (maxw : nat) (s : jm) (ls : list jlabel) : option jm :=
  match ls with
  | [] => Some s
  | l :: r => match jstep_gen fixed maxw s l with Some s' => jrun_gen fixed maxw s' r | None => None end
  end.
Definition jrun := jrun_gen true.

Definition jinit : jm := JM [] [] 0 0 [] [].

Definition held (s : jm) : list job := queue s ++ running s ++ finishing s.
Definition named (l : list job) : list str :=
  filter (fun n => negb (is_empty_name n)) (map j_name l).
Definition live (s : jm) : nat := (idle s + length (running s) + length (finishing s))%nat.

Definition is_worker_step (l : jlabel) : bool := match l with Submit _ => false | _ => true end.
Definition measure (s : jm) : nat :=
  (4 * length (queue s) + 3 * length (running s) + 2 * length (finishing s) + idle s)%nat.

(** * (c) ACMEIssuer.Issue / doIssue: which CA is ordered from, which certificate is returned

    [norm] is the directory URL newBasicACMEClient derives from am.CA (default CA, https://
    prefix); it is a parameter. *)

Inductive order_outcome := OrdOk | OrdRateLimited | OrdFail.   (* certificate | HTTP 429 problem | other error *)

Inductive issue_result :=
| ICert (directory : str)      (* the certificate obtained from the order against [directory] *)
| IErr                          (* an error that lets doWithRetry continue *)
| IErrNoRetry.

Section TestCA.
  Variable norm : str -> str.

  (** newACMEClient(useTestCA).Directory and acmeClient.usingTestCA *)
  Definition directory_for (ca testca : str) (useTestCA : bool) : str :=
    if useTestCA && negb (is_empty_name testca) then testca else norm ca.
  Definition using_test_ca (testca dir : str) : bool :=
    negb (is_empty_name testca) && str_eqb dir testca.

  (** doIssue(attempts) with the outcome of its order: (directory ordered from, usedTestCA, outcome) *)
  Definition do_issue (ca testca : str) (attempts : Z) : str * bool :=
    let dir := directory_for ca testca (0 <? attempts) in
    (dir, using_test_ca testca dir).

  (** Issue: [outs] are the outcomes of the successive orders.  Returns the directories that
      were ordered from, in order, and the result. *)
  Definition issue (ca testca : str) (attempts : Z) (outs : list order_outcome) : list str * issue_result :=
    let (d1, used_test) := do_issue ca testca attempts in
    match outs with
    | [] => ([], IErr)
    | o1 :: rest =>
        match o1 with
        | OrdOk =>
            if (0 <? attempts) && used_test && negb (str_eqb ca testca) then
              let (d2, _) := do_issue ca testca 0 in
              match rest with
              | OrdOk :: _ => ([d1; d2], ICert d2)
              | OrdRateLimited :: _ => ([d1; d2], IErr)
              | OrdFail :: _ => ([d1; d2], IErrNoRetry)
              | [] => ([d1], IErr)
              end
            else ([d1], ICert d1)
        | _ => ([d1], IErr)
        end
    end.

  (** the asynchronous obtain: doWithRetry around Issue.  [outs] are the outcomes of the
      successive orders (whichever CA they go to); attempt [k] consumes one or two of them.
      Returns every directory ordered from, in order, and the final result ([IErr]: the input
      is exhausted, still retrying). *)
  Fixpoint obtain_async (fuel : nat) (ca testca : str) (k : Z) (outs : list order_outcome) : list str * issue_result :=
    match fuel, outs with
    | O, _ => ([], IErr)
    | _, [] => ([], IErr)
    | S f, _ =>
        let (ds, r) := issue ca testca k outs in
        match r with
        | IErr => let (ds', r') := obtain_async f ca testca (k + 1) (skipn (length ds) outs) in (ds ++ ds', r')
        | _ => (ds, r)
        end
    end.
End TestCA.

(** secureCAURL's scheme rule (acmeclient.go): "https://" is assumed when the URL contains no
    "://"; the two literals are parameters (translated from the source) *)
Fixpoint contains (p s : str) : bool :=
  has_prefix p s || match s with [] => false | _ :: r => contains p r end.
Definition norm_url (sep prefix : str) (ca : str) : str :=
  if contains sep ca then ca else prefix ++ ca.
