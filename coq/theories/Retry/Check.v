(** Correspondence for C19.  Case kinds:
    0  doWithRetry called directly (hook) with a scripted function; 1 the same loop reached through
       Config.ManageAsync with a failing issuer double (attempt numbers and instants of Issue);
    2  a jobManager history (Submit / job finishes ok|error|panic), snapshot after every step;
    3  CA selection of the ACME issuer (newACMEClient directory, usingTestCA).
    [model_ok]: the model's output equals the observation; [spec_ok]: the theorems' statements
    evaluated on the observation alone. *)
From Coq Require Import List ZArith Bool Lia.
From CM Require Import Lib.Str Lib.Wire Gen.Consts Retry.Model.
Import ListNotations.
Open Scope Z_scope.

Definition margin : Z := 5000000.        (* 5 ms *)
Definition late_bound : Z := 3000000000. (* 3 s: timer / scheduling latency beyond this is a disagreement *)
Definition prompt : Z := 1500000000.     (* 1.5 s *)

(** * retry cases *)

Record oatt := OAtt { o_no : Z; o_start : Z; o_end : Z; o_out : Z }.   (* outcome: 0 ok 1 plain 2 noretry 3 canceled *)
Record rcase := RCase {
  r_iv : list Z; r_maxd : Z; r_shrunk : bool; r_cancel : option Z; r_pick0 : bool;
  r_atts : list oatt; r_res : Z; r_te : Z
}.

Definition outcome_of (z : Z) : outcome :=
  if z =? 0 then OOk else if z =? 1 then OPlain else if z =? 2 then ONoRetry else OCanceled.
Definition outcome_code (o : outcome) : Z :=
  match o with OOk => 0 | OPlain => 1 | ONoRetry => 2 | OCanceled => 3 end.

Definition pause_of (iv : list Z) (k : nat) : Z := match k with O => 0 | S p => sched iv p end.

(** inputs of the model recovered from the observed instants: duration of each call and the
    latency of each timer relative to the schedule *)
Fixpoint calls_of (iv : list Z) (prev_end : Z) (k : nat) (l : list oatt) : list call :=
  match l with
  | [] => []
  | a :: r => Call (outcome_of (o_out a)) (o_end a - o_start a) (o_start a - prev_end - pause_of iv k)
              :: calls_of iv (o_end a) (S k) r
  end.

Definition att_eqb (a : attempt) (o : oatt) : bool :=
  (a_no a =? o_no o) && (a_start a =? o_start o) && (a_end a =? o_end o) && (outcome_code (a_out a) =? o_out o).
Fixpoint atts_eqb (l : list attempt) (o : list oatt) : bool :=
  match l, o with
  | [], [] => true
  | a :: l', x :: o' => att_eqb a x && atts_eqb l' o'
  | _, _ => false
  end.

Definition near_tie (c : rcase) : bool :=
  match r_cancel c with
  | Some cn => existsb (fun a => Z.abs (cn - o_start a) <? margin) (r_atts c)
  | None => false
  end.

(** an attempt that ends within the margin of the horizon: "giving up" or "will retry" may
    both be what the code decided (it reads the clock again after the call) *)
Definition near_horizon (c : rcase) : bool :=
  existsb (fun a => Z.abs (o_end a - r_maxd c) <? margin) (r_atts c).

(** observed result 7 = an error that is neither a cancellation nor ErrNoRetry: what the loop
    returns when it gives up at the horizon (model results 4, 5) *)
Definition res_match (r : result) (obs : Z) : bool :=
  (result_code r =? obs) || ((obs =? 7) && ((result_code r =? 4) || (result_code r =? 5))).

Definition retry_model_ok (c : rcase) : bool :=
  let calls := calls_of (r_iv c) 0 0 (r_atts c) in
  let calls' := if r_res c =? 3 then calls ++ [Call OOk 0 0] else calls in
  let '(atts, r, te) := do_with_retry (r_iv c) (r_maxd c) (r_cancel c) (r_pick0 c) calls' in
  (* the horizon is the one in the source unless the harness shrank it *)
  (r_shrunk c || (r_maxd c =? max_retry_duration)) &&
  (near_tie c || near_horizon c ||
  (forallb (fun k => (0 <=? c_late k) && (c_late k <=? late_bound)) calls &&
   atts_eqb atts (r_atts c) && res_match r (r_res c) &&
   (te <=? r_te c) && (r_te c <=? te + late_bound))).

Fixpoint pauses_ok (iv : list Z) (k : nat) (prev_end : Z) (l : list oatt) : bool :=
  match l with
  | [] => true
  | a :: r => (o_no a =? Z.of_nat k) && (prev_end + pause_of iv k <=? o_start a) && (o_start a <=? o_end a) &&
              (match k with O => true | _ => prev_end <? o_start a end) &&
              pauses_ok iv (S k) (o_end a) r
  end.

Definition last_out (l : list oatt) : Z := match rev l with a :: _ => o_out a | [] => -1 end.
Definition last_oend (l : list oatt) : Z := match rev l with a :: _ => o_end a | [] => 0 end.
Definition all_plain (l : list oatt) : bool := forallb (fun a => o_out a =? 1) l.

Definition retry_spec_ok (c : rcase) : bool :=
  let l := r_atts c in
  (* attempt numbers count up; pauses follow the schedule and are never zero *)
  pauses_ok (r_iv c) 0 0 l &&
  (* stops exactly on success / cancellation / non-retryable error *)
  all_plain (removelast l) &&
  (if r_res c =? 0 then last_out l =? 0
   else if r_res c =? 1 then last_out l =? 3
   else if r_res c =? 2 then last_out l =? 2
   else if r_res c =? 3 then all_plain l && (match r_cancel c with Some _ => true | None => false end)
   (* an error that does not end the retries is returned only when the loop gives up at the
      horizon: the last attempt ended after it *)
   else if (r_res c =? 4) || (r_res c =? 5) || (r_res c =? 7) then
     all_plain l && negb (length l =? 0)%nat && (r_maxd c - margin <=? last_oend l)
   else false) &&
  (* cancellation is prompt *)
  match r_cancel c with
  | Some cn =>
      forallb (fun a => (o_no a =? 0) || (o_start a <=? cn + margin)) l &&
      (if r_res c =? 3 then
         (cn - margin <=? r_te c) && (r_te c <=? Z.max (last_oend l) cn + prompt) &&
         (* it did not sit out the pause: when the cancellation came at least 50 ms before the
            timer was due, the return is before that instant *)
         (let due := last_oend l + pause_of (r_iv c) (length l) in
          if (Z.max (last_oend l) cn + 50000000 <=? due) then r_te c <? due else true)
       else true)
  | None => true
  end.

(** * job manager cases *)

Record jobs_obs := JObs { jo_queue : list str; jo_names : list str; jo_active : nat; jo_running : list nat; jo_started : list nat }.
Record jop := JOp { jo_tag : Z; jo_id : nat; jo_name : str; jo_kind : Z; jo_obs : jobs_obs }.
Record jcase := JCase { jc_max : nat; jc_ops : list jop }.

Fixpoint settle (fuel : nat) (maxw : nat) (s : jm) : jm :=
  match fuel with
  | O => s
  | S f => match idle s with O => s | _ => match jstep maxw s Take with Some s' => settle f maxw s' | None => s end end
  end.

Definition strs_eqb (a b : list str) : bool :=
  (length a =? length b)%nat && forallb (fun p => str_eqb (fst p) (snd p)) (combine a b).
Definition set_eqb (a b : list str) : bool :=
  (length a =? length b)%nat && forallb (fun x => has_name x b) a && forallb (fun x => has_name x a) b.
Definition nmem (x : nat) (l : list nat) : bool := existsb (Nat.eqb x) l.
Definition nset_eqb (a b : list nat) : bool :=
  (length a =? length b)%nat && forallb (fun x => nmem x b) a && forallb (fun x => nmem x a) b.

Definition jobs_eq (s : jm) (o : jobs_obs) : bool :=
  strs_eqb (map j_name (queue s)) (jo_queue o) && set_eqb (names s) (jo_names o) &&
  (active s =? jo_active o)%nat && nset_eqb (map j_id (running s)) (jo_running o) &&
  (length (finishing s) =? 0)%nat && (idle s =? 0)%nat.

Definition kind_of (z : Z) : jkind := if z =? 0 then KOk else if z =? 1 then KErr else KPanic.

Fixpoint jobs_replay (maxw : nat) (s : jm) (ops : list jop) : bool :=
  match ops with
  | [] => true
  | o :: r =>
      let s1 :=
        if jo_tag o =? 0 then jstep maxw s (Submit (Job (jo_id o) (jo_name o)))
        else match jstep maxw s (Return (jo_id o) (kind_of (jo_kind o))) with
             | Some x => jstep maxw x (Release (jo_id o))
             | None => None
             end in
      match s1 with
      | Some x => let x' := settle (S (length (queue x) + idle x)) maxw x in
                  jobs_eq x' (jo_obs o) && jobs_replay maxw x' r
      | None => false
      end
  end.

Definition jobs_model_ok (c : jcase) : bool := jobs_replay (jc_max c) jinit (jc_ops c).

Fixpoint nodup_strs (l : list str) : bool :=
  match l with [] => true | x :: r => negb (has_name x r) && nodup_strs r end.
Fixpoint nodup_nats (l : list nat) : bool :=
  match l with [] => true | x :: r => negb (nmem x r) && nodup_nats r end.
Definition nonempty_names (l : list str) : list str := filter (fun n => negb (is_empty_name n)) l.

(** name of a submitted job id (from the Submit operations of the history) *)
Fixpoint name_of (ops : list jop) (id : nat) : str :=
  match ops with
  | [] => []
  | o :: r => if (jo_tag o =? 0) && (jo_id o =? id)%nat then jo_name o else name_of r id
  end.

(** [prev]: observation before the operation; [acc]: ids accepted so far *)
Fixpoint jobs_spec (all : list jop) (maxw : nat) (prev : jobs_obs) (acc : list nat) (ops : list jop) : bool :=
  match ops with
  | [] =>
      (* quiescent end of the history after every running job was finished: nothing is left and
         exactly the accepted jobs have run *)
      (length (jo_queue prev) =? 0)%nat && (length (jo_names prev) =? 0)%nat && (jo_active prev =? 0)%nat &&
      (length (jo_running prev) =? 0)%nat && nset_eqb (jo_started prev) acc
  | o :: r =>
      let ob := jo_obs o in
      let held_names := nonempty_names (jo_queue ob ++ map (name_of all) (jo_running ob)) in
      (* one job per name; the name set is the set of names queued or running *)
      nodup_strs held_names && set_eqb (jo_names ob) held_names &&
      nodup_nats (jo_started ob) && forallb (fun i => nmem i (jo_started ob)) (jo_running ob) &&
      (* workers: one per running job, within the limit; queued work has a worker *)
      (jo_active ob =? length (jo_running ob))%nat && (jo_active ob <=? maxw)%nat &&
      ((length (jo_queue ob) =? 0)%nat || (1 <=? jo_active ob)%nat) &&
      (* nothing starts that was not accepted *)
      forallb (fun i => nmem i (jo_started prev) || nmem i (if jo_tag o =? 0 then jo_id o :: acc else acc)) (jo_started ob) &&
      (if jo_tag o =? 0 then
         let dup := negb (is_empty_name (jo_name o)) && has_name (jo_name o) (jo_names prev) in
         (* a duplicate changes nothing; anything else is queued or started *)
         (if dup then strs_eqb (jo_queue ob) (jo_queue prev) && negb (nmem (jo_id o) (jo_started ob))
          else nmem (jo_id o) (jo_started ob) || has_name (jo_name o) (jo_queue ob) ||
               (is_empty_name (jo_name o) && (length (jo_queue prev) <? length (jo_queue ob))%nat)) &&
         jobs_spec all maxw ob (if dup then acc else jo_id o :: acc) r
       else
         (* the finished job is gone and its name is free again, whatever its outcome *)
         negb (nmem (jo_id o) (jo_running ob)) &&
         (is_empty_name (name_of all (jo_id o)) || negb (has_name (name_of all (jo_id o)) (jo_names ob))) &&
         jobs_spec all maxw ob acc r)
  end.

Definition jobs_spec_ok (c : jcase) : bool :=
  (1 <=? jc_max c)%nat && jobs_spec (jc_ops c) (jc_max c) (JObs [] [] 0 [] []) [] (jc_ops c).

(** * concurrent submissions: [pre] jobs submitted one after the other, then a burst of Submit
      calls from as many goroutines at once (no job returns meanwhile).  The order in which
      the manager's mutex admitted the burst is read off the state afterwards: the jobs that
      started are a prefix of the acceptance order, the queue is the rest in order; a
      duplicate is a no-op wherever it falls after its twin.  [jb_subs]: (id, name, accepted)
      in that order, duplicates last; then the snapshot at quiescence and the ids that had
      started once everything was drained. *)

Record jbsub := JBSub { jb_id : nat; jb_name : str; jb_acc : bool }.
Record jbcase := JBCase { jb_max : nat; jb_subs : list jbsub; jb_obs : jobs_obs; jb_final_started : list nat }.

Fixpoint jb_replay (maxw : nat) (s : jm) (l : list jbsub) : option jm :=
  match l with
  | [] => Some s
  | x :: r =>
      match jstep maxw s (Submit (Job (jb_id x) (jb_name x))) with
      | Some s' =>
          (* the model must agree on whether this submission was a duplicate *)
          let dup := negb (is_empty_name (jb_name x)) && has_name (jb_name x) (names s) in
          if Bool.eqb dup (negb (jb_acc x))
          then jb_replay maxw (settle (S (length (queue s') + idle s')) maxw s') r
          else None
      | None => None
      end
  end.

Definition jb_model_ok (c : jbcase) : bool :=
  match jb_replay (jb_max c) jinit (jb_subs c) with
  | Some s => jobs_eq s (jb_obs c) &&
              nset_eqb (jb_final_started c) (map jb_id (filter jb_acc (jb_subs c)))
  | None => false
  end.

Definition jb_spec_ok (c : jbcase) : bool :=
  let ob := jb_obs c in
  let acc := filter jb_acc (jb_subs c) in
  let acc_names := nonempty_names (map jb_name acc) in
  let all_names := nonempty_names (map jb_name (jb_subs c)) in
  (1 <=? jb_max c)%nat &&
  (* at most one job per name, and every name that was submitted is held by exactly one job *)
  nodup_strs acc_names && forallb (fun n => has_name n acc_names) all_names &&
  set_eqb (jo_names ob) acc_names &&
  (* unnamed jobs are never dropped *)
  forallb (fun x => jb_acc x || negb (is_empty_name (jb_name x))) (jb_subs c) &&
  (* every accepted job is running or queued, once; workers: one per running job, as many as
     the limit allows *)
  nodup_nats (jo_running ob) && forallb (fun i => nmem i (map jb_id acc)) (jo_running ob) &&
  (length (jo_running ob) + length (jo_queue ob) =? length acc)%nat &&
  (jo_active ob =? length (jo_running ob))%nat &&
  (length (jo_running ob) =? Nat.min (jb_max c) (length acc))%nat &&
  (* in the end every accepted job ran exactly once, and nothing else *)
  nodup_nats (jb_final_started c) && nset_eqb (jb_final_started c) (map jb_id acc).

(** * the package-level job manager with both submitters of renewal jobs for one managed name:
      Config.ManageAsync on a stored certificate inside its renewal window (issuer failing
      retryably: the job stays in back-off), then Cache.RenewManagedCertificates.  Observed on
      the job manager (snapshot hook), relative to its state before the case: names added and
      workers added after ManageAsync, and after the maintenance pass. *)

Record grcase := GR { gr_names1 : nat; gr_workers1 : nat; gr_names2 : nat; gr_workers2 : nat }.

(** both submit under the same job name: the second submission is a duplicate *)
Definition gr_model : option (nat * nat * nat * nat) :=
  let n := [114%N] in
  match jstep 1000 jinit (Submit (Job 1 n)) with
  | Some s0 =>
      let s1 := settle 4 1000 s0 in
      match jstep 1000 s1 (Submit (Job 2 n)) with
      | Some s2 => let s3 := settle 4 1000 s2 in
                   Some (length (names s1), active s1, length (names s3), active s3)
      | None => None
      end
  | None => None
  end.

Definition gr_model_ok (c : grcase) : bool :=
  match gr_model with
  | Some (n1, a1, n2, a2) =>
      (gr_names1 c =? n1)%nat && (gr_workers1 c =? a1)%nat && (gr_names2 c =? n2)%nat && (gr_workers2 c =? a2)%nat
  | None => false
  end.

(** at most one background renewal job per name queued or running at any time *)
Definition gr_spec_ok (c : grcase) : bool :=
  (gr_names1 c <=? 1)%nat && (gr_workers1 c <=? 1)%nat && (gr_names2 c <=? 1)%nat && (gr_workers2 c <=? 1)%nat.

(** * CA selection *)

Record cacase := CACase { ca_given : str; ca_given_test : str;   (* the template given to NewACMEIssuer *)
                          ca_ca : str; ca_test : str; ca_has_scheme : bool;
                          ca_dir0 : str; ca_dir1 : str; ca_using0 : bool; ca_using1 : bool }.

(** NewACMEIssuer: an empty CA is the default CA; an empty TestCA is the default test CA only
    when the CA is the default one *)
Definition effective_cas (ca test : str) : str * str :=
  let ca' := if is_empty_name ca then default_acme_ca else ca in
  (ca', if is_empty_name test && str_eqb ca' default_acme_ca then default_acme_test_ca else test).

Definition ca_model_ok (c : cacase) : bool :=
  (let (a, t) := effective_cas (ca_given c) (ca_given_test c) in str_eqb a (ca_ca c) && str_eqb t (ca_test c)) &&
  let norm := norm_url ca_scheme_sep ca_default_scheme in   (* secureCAURL's scheme rule, literals from the source *)
  str_eqb (directory_for norm (ca_ca c) (ca_test c) true) (ca_dir1 c) &&
  str_eqb (directory_for norm (ca_ca c) (ca_test c) false) (ca_dir0 c) &&
  Bool.eqb (using_test_ca (ca_test c) (ca_dir1 c)) (ca_using1 c) &&
  Bool.eqb (using_test_ca (ca_test c) (ca_dir0 c)) (ca_using0 c).

(** the certificate Issue hands back comes from the production directory: on a retry either
    the issuer knows it used the test CA (and orders again from production) or the directory
    it used is the production one *)
Definition ca_spec_ok (c : cacase) : bool :=
  (negb (ca_has_scheme c) || str_eqb (ca_dir0 c) (ca_ca c)) &&
  (str_eqb (ca_ca c) (ca_test c) || ca_using1 c || str_eqb (ca_dir1 c) (ca_dir0 c)) &&
  (* retries are tried against the test CA first when one is configured *)
  (is_empty_name (ca_test c) || str_eqb (ca_dir1 c) (ca_test c)).

(** * end-to-end cases: the real ACMEIssuer against two mock ACME CAs (production, test)

    Observed at the CAs and by signature checks, not through certmagic: for every call of Issue
    the attempt number it was given, the orders the CAs received during the call (directory URL
    of the CA that got it, scripted outcome: 0 certificate, 1 HTTP 429, 2 other refusal), the
    class of the result, and which CA's key signed the certificate it returned; at the end what
    the asynchronous obtain returned and who signed the certificate in storage / served. *)

Record eord := EOrd { eo_dir : str; eo_out : Z }.
Record eatt := EAtt { e_no : Z; e_orders : list eord; e_res : Z; e_from : Z }.
Record ecase := ECase {
  e_async : bool;
  e_ca : str; e_test : str;            (* ACMEIssuer.CA / TestCA *)
  e_prod_url : str; e_test_url : str;  (* directory URLs of the two mock CAs *)
  e_atts : list eatt;
  e_final : Z;                         (* 0 nil, 1 other error, 2 ErrNoRetry *)
  e_stored : Z; e_served : Z           (* signer: 0 production CA, 1 test CA, -1 no certificate *)
}.

Definition e_norm : str -> str := norm_url ca_scheme_sep ca_default_scheme.
Definition out_of (z : Z) : order_outcome := if z =? 0 then OrdOk else if z =? 1 then OrdRateLimited else OrdFail.
Definition res_code (r : issue_result) : Z := match r with ICert _ => 0 | IErr => 1 | IErrNoRetry => 2 end.
Definition signer_code (c : ecase) (r : issue_result) : Z :=
  match r with
  | ICert d => if str_eqb d (e_prod_url c) then 0 else if str_eqb d (e_test_url c) then 1 else 7
  | _ => -1
  end.

Definition eatt_model_ok (c : ecase) (a : eatt) : bool :=
  let '(ds, r) := issue e_norm (e_ca c) (e_test c) (e_no a) (map (fun o => out_of (eo_out o)) (e_orders a)) in
  strs_eqb ds (map eo_dir (e_orders a)) && (res_code r =? e_res a) && (signer_code c r =? e_from a).

(** the retry loop around Issue: attempt numbers count up from [k]; it goes on exactly while
    the result is a retryable error; returns the last attempt *)
Fixpoint echain (k : Z) (l : list eatt) : bool * option eatt :=
  match l with
  | [] => (true, None)
  | [a] => (e_no a =? k, Some a)
  | a :: r => let (ok, last) := echain (k + 1) r in ((e_no a =? k) && (e_res a =? 1) && ok, last)
  end.

Definition e2e_model_ok (c : ecase) : bool :=
  forallb (eatt_model_ok c) (e_atts c) &&
  (let k0 := match e_atts c with a :: _ => if e_async c then 0 else e_no a | [] => 0 end in
   let (ok, last) := echain k0 (e_atts c) in
   ok &&
   match last with
   | Some a =>
       (* Issue called directly: one call; its result is the case's result *)
       (e_async c || (length (e_atts c) =? 1)%nat) &&
       (if e_res a =? 0 then (e_final c =? 0) && (e_stored c =? e_from a) && (e_served c =? e_from a)
        else if e_res a =? 2 then (e_final c =? 2) && (e_stored c =? -1) && (e_served c =? -1)
        else (* a retryable error can only be the end when Issue was called directly *)
             negb (e_async c) && (e_final c =? 1) && (e_stored c =? -1))
   | None => false
   end).

(** the property on the observation alone *)
Fixpoint test_ok_followed (c : ecase) (l : list eord) : bool :=
  match l with
  | [] => true
  | o :: r =>
      (if str_eqb (eo_dir o) (e_test_url c) && (eo_out o =? 0)
       then match r with o' :: _ => str_eqb (eo_dir o') (e_prod_url c) | [] => false end
       else true) && test_ok_followed c r
  end.

Fixpoint enumbers (k : Z) (l : list eatt) : bool :=
  match l with [] => true | a :: r => (e_no a =? k) && enumbers (k + 1) r end.

Definition e2e_spec_ok (c : ecase) : bool :=
  let distinct := negb (is_empty_name (e_test c)) && negb (str_eqb (e_ca c) (e_test c)) in
  (* the harness configured the production CA as CA and, when distinct, the test CA as TestCA *)
  str_eqb (e_ca c) (e_prod_url c) && (negb distinct || str_eqb (e_test c) (e_test_url c)) &&
  (* never a certificate of the test CA: not returned, not stored, not served *)
  forallb (fun a => negb (e_from a =? 1)) (e_atts c) && negb (e_stored c =? 1) && negb (e_served c =? 1) &&
  (negb distinct ||
   forallb (fun a =>
     (* success on the test CA is followed by a production order in the same call *)
     test_ok_followed c (e_orders a) &&
     (* a retry goes to the test CA first, the first attempt to production *)
     match e_orders a with
     | o :: _ => str_eqb (eo_dir o) (if 0 <? e_no a then e_test_url c else e_prod_url c)
     | [] => true
     end &&
     (* a certificate is returned only after a successful production order *)
     Bool.eqb (e_res a =? 0) (existsb (fun o => str_eqb (eo_dir o) (e_prod_url c) && (eo_out o =? 0)) (e_orders a))) (e_atts c)) &&
  (distinct || forallb (fun a => forallb (fun o => str_eqb (eo_dir o) (e_prod_url c)) (e_orders a)) (e_atts c)) &&
  (* asynchronous: the attempt number goes up by one per attempt; retried until success or
     a non-retryable error; nil only with a production certificate stored and served *)
  (negb (e_async c) ||
   (enumbers 0 (e_atts c) && forallb (fun a => e_res a =? 1) (removelast (e_atts c)) &&
    match rev (e_atts c) with
    | a :: _ => (e_res a =? e_final c) && negb (e_res a =? 1)
    | [] => false
    end &&
    Bool.eqb (e_final c =? 0) (e_stored c =? 0) && Bool.eqb (e_final c =? 0) (e_served c =? 0))).

(** * wire *)

Inductive tcase := TRetry (c : rcase) | TJobs (c : jcase) | TCA (c : cacase) | TE2E (c : ecase) | TJBurst (c : jbcase) | TGRenew (c : grcase).

Definition get_zlist : dec (list Z) := get_list get_z.
Definition get_oatt : dec oatt := (n <- get_z ;; s <- get_z ;; e <- get_z ;; o <- get_z ;; ret (OAtt n s e o))%Z.
Definition get_rcase : dec rcase :=
  (iv <- get_zlist ;; m <- get_z ;; sh <- get_bool ;; cn <- get_opt get_z ;; p <- get_bool ;; l <- get_list get_oatt ;;
   r <- get_z ;; te <- get_z ;; ret (RCase iv m sh cn p l r te))%Z.
Definition get_jobs_obs : dec jobs_obs :=
  (q <- get_list get_str ;; n <- get_list get_str ;; a <- get_nat ;; r <- get_list get_nat ;; st <- get_list get_nat ;;
   ret (JObs q n a r st))%Z.
Definition get_jop : dec jop :=
  (t <- get_z ;; i <- get_nat ;; n <- get_str ;; k <- get_z ;; o <- get_jobs_obs ;; ret (JOp t i n k o))%Z.
Definition get_jcase : dec jcase := (m <- get_nat ;; l <- get_list get_jop ;; ret (JCase m l))%Z.
Definition get_cacase : dec cacase :=
  (ga <- get_str ;; gt <- get_str ;; a <- get_str ;; t <- get_str ;; h <- get_bool ;; d0 <- get_str ;; d1 <- get_str ;;
   u0 <- get_bool ;; u1 <- get_bool ;; ret (CACase ga gt a t h d0 d1 u0 u1))%Z.
Definition get_eord : dec eord := (d <- get_str ;; o <- get_z ;; ret (EOrd d o))%Z.
Definition get_eatt : dec eatt := (n <- get_z ;; l <- get_list get_eord ;; r <- get_z ;; f <- get_z ;; ret (EAtt n l r f))%Z.
Definition get_ecase : dec ecase :=
  (m <- get_z ;; a <- get_str ;; t <- get_str ;; pu <- get_str ;; tu <- get_str ;; l <- get_list get_eatt ;;
   f <- get_z ;; st <- get_z ;; sv <- get_z ;; ret (ECase (m =? 1) a t pu tu l f st sv))%Z.
Definition get_jbsub : dec jbsub := (i <- get_nat ;; n <- get_str ;; a <- get_bool ;; ret (JBSub i n a))%Z.
Definition get_jbcase : dec jbcase :=
  (m <- get_nat ;; l <- get_list get_jbsub ;; o <- get_jobs_obs ;; f <- get_list get_nat ;; ret (JBCase m l o f))%Z.
Definition get_case : dec tcase :=
  (k <- get_z ;;
   if (k =? 0) || (k =? 1) then (c <- get_rcase ;; ret (TRetry c))
   else if k =? 2 then (c <- get_jcase ;; ret (TJobs c))
   else if k =? 3 then (c <- get_cacase ;; ret (TCA c))
   else if k =? 4 then (c <- get_ecase ;; ret (TE2E c))
   else if k =? 5 then (c <- get_jbcase ;; ret (TJBurst c))
   else (a <- get_nat ;; b <- get_nat ;; x <- get_nat ;; y <- get_nat ;; ret (TGRenew (GR a b x y))))%Z.

Definition check_line (l : list Z) : Z :=
  match decode get_case l with
  | Some (TRetry c) => code (retry_model_ok c) (retry_spec_ok c)
  | Some (TJobs c) => code (jobs_model_ok c) (jobs_spec_ok c)
  | Some (TCA c) => code (ca_model_ok c) (ca_spec_ok c)
  | Some (TE2E c) => code (e2e_model_ok c) (e2e_spec_ok c)
  | Some (TJBurst c) => code (jb_model_ok c) (jb_spec_ok c)
  | Some (TGRenew c) => code (gr_model_ok c) (gr_spec_ok c)
  | None => code_decode_error
  end.

(** diagnostics: for a retry case the model's result code and return instant *)
Definition explain_line (l : list Z) : list Z :=
  match decode get_case l with
  | Some (TRetry c) =>
      let calls := calls_of (r_iv c) 0 0 (r_atts c) in
      let calls' := if r_res c =? 3 then calls ++ [Call OOk 0 0] else calls in
      let '(atts, r, te) := do_with_retry (r_iv c) (r_maxd c) (r_cancel c) (r_pick0 c) calls' in
      [result_code r; te; Z.of_nat (length atts)]
  | Some (TJobs c) => [if jobs_model_ok c then 1 else 0]
  | Some (TCA c) => [if ca_model_ok c then 1 else 0]
  | Some (TE2E c) => map (fun a => if eatt_model_ok c a then 1 else 0) (e_atts c)
  | Some (TJBurst c) => [if jb_model_ok c then 1 else 0]
  | Some (TGRenew c) => [if gr_model_ok c then 1 else 0]
  | None => []
  end.
