(** C19 — proofs about the retry loop, the job manager and the test-CA logic. *)
From Coq Require Import List ZArith Bool Lia Arith NArith.
From CM Require Import Lib.Str Retry.Model.
Import ListNotations.

(** * (b) jobManager *)

Definition str_dec : forall a b : str, {a = b} + {a <> b} := list_eq_dec N.eq_dec.
Definition cnt (n : str) (l : list job) : nat := count_occ str_dec (map j_name l) n.
Definition idc (i : nat) (l : list job) : nat := count_occ Nat.eq_dec (map j_id l) i.

Lemma cnt_app : forall n a b, cnt n (a ++ b) = (cnt n a + cnt n b)%nat.
Proof. intros. unfold cnt. rewrite map_app. apply count_occ_app. Qed.
Lemma idc_app : forall n a b, idc n (a ++ b) = (idc n a + idc n b)%nat.
Proof. intros. unfold idc. rewrite map_app. apply count_occ_app. Qed.
Lemma cnt_cons : forall n j l, cnt n (j :: l) = ((if str_dec (j_name j) n then 1 else 0) + cnt n l)%nat.
Proof. intros. unfold cnt. cbn [map count_occ]. destruct (str_dec (j_name j) n); reflexivity. Qed.
Lemma idc_cons : forall n j l, idc n (j :: l) = ((if Nat.eq_dec (j_id j) n then 1 else 0) + idc n l)%nat.
Proof. intros. unfold idc. cbn [map count_occ]. destruct (Nat.eq_dec (j_id j) n); reflexivity. Qed.
Lemma cnt_nil : forall n, cnt n [] = 0%nat. Proof. reflexivity. Qed.
Lemma idc_nil : forall n, idc n [] = 0%nat. Proof. reflexivity. Qed.

Lemma take_job_spec : forall id l j r, take_job id l = Some (j, r) ->
  j_id j = id /\ length l = S (length r) /\
  (forall n, cnt n l = ((if str_dec (j_name j) n then 1 else 0) + cnt n r)%nat) /\
  (forall i, idc i l = ((if Nat.eq_dec (j_id j) i then 1 else 0) + idc i r)%nat) /\
  In j l.
Proof.
  intros id l. induction l as [|x l IH]; intros j r H; [discriminate|].
  cbn [take_job] in H. destruct (j_id x =? id)%nat eqn:E.
  - injection H as <- <-. apply Nat.eqb_eq in E. repeat split; auto.
    + intros n. apply cnt_cons.
    + intros i. apply idc_cons.
    + left; reflexivity.
  - destruct (take_job id l) as [[y r']|] eqn:T; [|discriminate]. injection H as <- <-.
    destruct (IH y r' eq_refl) as (H1 & H2 & H3 & H4 & H5). repeat split; auto.
    + cbn [length]. lia.
    + intros n. rewrite !cnt_cons, H3. lia.
    + intros i. rewrite !idc_cons, H4. lia.
    + right; exact H5.
Qed.

Lemma take_job_last : forall id l j, idc id l = 0%nat -> j_id j = id -> take_job id (l ++ [j]) = Some (j, l).
Proof.
  intros id l j. induction l as [|x l IH]; intros H Hj.
  - cbn. rewrite Hj, Nat.eqb_refl. reflexivity.
  - rewrite idc_cons in H. destruct (Nat.eq_dec (j_id x) id) as [E|E]; [lia|].
    cbn [app take_job]. apply Nat.eqb_neq in E. rewrite E. rewrite IH by (try assumption; lia). reflexivity.
Qed.

Lemma take_job_some : forall id l, (0 < idc id l)%nat -> exists j r, take_job id l = Some (j, r).
Proof.
  intros id l. induction l as [|x l IH]; intros H; [cbn in H; lia|].
  cbn [take_job]. destruct (j_id x =? id)%nat eqn:E; [eauto|].
  rewrite idc_cons in H. apply Nat.eqb_neq in E. destruct (Nat.eq_dec (j_id x) id); [contradiction|].
  destruct (IH ltac:(lia)) as (j & r & T). rewrite T. eauto.
Qed.

Lemma has_name_cons : forall n m l, has_name n (m :: l) = str_eqb n m || has_name n l.
Proof. reflexivity. Qed.

Lemma has_name_remove_same : forall n l, has_name n (remove_name n l) = false.
Proof.
  intros n l. induction l as [|x l IH]; [reflexivity|]. cbn [remove_name].
  destruct (str_eqb n x) eqn:E; [exact IH|]. rewrite has_name_cons, E, IH. reflexivity.
Qed.

Lemma has_name_remove_other : forall n m l, n <> m -> has_name n (remove_name m l) = has_name n l.
Proof.
  intros n m l Hnm. induction l as [|x l IH]; [reflexivity|]. cbn [remove_name].
  destruct (str_eqb m x) eqn:E.
  - apply str_eqb_eq in E. subst x. rewrite has_name_cons.
    destruct (str_eqb n m) eqn:E2; [apply str_eqb_eq in E2; contradiction|]. exact IH.
  - rewrite !has_name_cons, IH. reflexivity.
Qed.

Lemma is_empty_name_spec : forall n, is_empty_name n = true <-> n = [].
Proof. intros [|x n]; cbn; split; intros; congruence. Qed.

Lemma existsb_ids : forall id l, existsb (Nat.eqb id) (map j_id l) = false -> idc id l = 0%nat.
Proof.
  intros id l. induction l as [|x l IH]; intros H; [reflexivity|].
  cbn [map existsb] in H. apply orb_false_iff in H. destruct H as [H1 H2].
  rewrite idc_cons. apply Nat.eqb_neq in H1. destruct (Nat.eq_dec (j_id x) id); [congruence|]. rewrite IH by exact H2. reflexivity.
Qed.

Record jinv (s : jm) : Prop := {
  i_one : forall n, n <> [] -> (cnt n (queue s) + cnt n (running s) + cnt n (finishing s) <= 1)%nat;
  i_names : forall n, n <> [] ->
    (has_name n (names s) = true <-> (cnt n (queue s) + cnt n (running s) + cnt n (finishing s) = 1)%nat);
  i_noempty : has_name [] (names s) = false;
  i_ids : forall i, (idc i (queue s) + idc i (running s) + idc i (finishing s) <= 1)%nat;
  i_active : active s = live s;
  i_worker : queue s <> [] -> (1 <= live s)%nat
}.

Lemma jinv_init : jinv jinit.
Proof.
  constructor; cbn; intros; try lia; try reflexivity; try contradiction.
  all: try (split; [discriminate|unfold cnt; cbn; lia]).
Qed.

Ltac ifs := repeat match goal with
  | H : context [if ?c then _ else _] |- _ => revert H
  | |- context [if ?c then _ else _] => destruct c
  end; intros.

Lemma jstep_inv : forall maxw s l s', (1 <= maxw)%nat -> jinv s -> jstep maxw s l = Some s' -> jinv s'.
Proof.
  intros maxw s l s' Hm [I1 I2 I3 I4 I5 I6] H. unfold jstep, jstep_gen in H. destruct l as [j| |id k|id].
  - (* Submit *)
    destruct (existsb (Nat.eqb (j_id j)) (map j_id (queue s ++ running s ++ finishing s))) eqn:Eid; [discriminate|].
    apply existsb_ids in Eid. rewrite !idc_app in Eid.
    destruct (negb (is_empty_name (j_name j)) && has_name (j_name j) (names s)) eqn:Edup.
    { injection H as <-. constructor; assumption. }
    assert (Hn : forall n, n <> [] -> ((if str_dec (j_name j) n then 1 else 0) + (cnt n (queue s) + cnt n (running s) + cnt n (finishing s)) <= 1)%nat).
    { intros n Hn. specialize (I1 n Hn). destruct (str_dec (j_name j) n) as [E|E]; [|lia]. subst n.
      apply andb_false_iff in Edup. destruct Edup as [Ed|Ed].
      - apply negb_false_iff, is_empty_name_spec in Ed. contradiction.
      - destruct (Nat.eq_dec (cnt (j_name j) (queue s) + cnt (j_name j) (running s) + cnt (j_name j) (finishing s)) 1) as [Q|Q]; [|lia].
        apply (I2 _ Hn) in Q. congruence. }
    assert (Hnames : forall n, n <> [] ->
      (has_name n (if is_empty_name (j_name j) then names s else j_name j :: names s) = true <->
       ((if str_dec (j_name j) n then 1 else 0) + (cnt n (queue s) + cnt n (running s) + cnt n (finishing s)) = 1)%nat)).
    { intros n Hnn. specialize (Hn n Hnn). specialize (I1 n Hnn). specialize (I2 n Hnn).
      destruct (is_empty_name (j_name j)) eqn:Ee.
      - apply is_empty_name_spec in Ee. destruct (str_dec (j_name j) n) as [E|E]; [congruence|]. exact I2.
      - rewrite has_name_cons. destruct (str_dec (j_name j) n) as [E|E].
        + subst n. replace (str_eqb (j_name j) (j_name j)) with true by (symmetry; apply str_eqb_eq; reflexivity).
          cbn [orb]. split; intros; [lia|reflexivity].
        + replace (str_eqb n (j_name j)) with false.
          2:{ symmetry. destruct (str_eqb n (j_name j)) eqn:E2; [apply str_eqb_eq in E2; congruence|reflexivity]. }
          exact I2. }
    assert (Hne : has_name [] (if is_empty_name (j_name j) then names s else j_name j :: names s) = false).
    { destruct (is_empty_name (j_name j)) eqn:Ee; [exact I3|]. rewrite has_name_cons, I3.
      destruct (j_name j); [discriminate|reflexivity]. }
    assert (Hids : forall i, ((if Nat.eq_dec (j_id j) i then 1 else 0) + (idc i (queue s) + idc i (running s) + idc i (finishing s)) <= 1)%nat).
    { intros i. specialize (I4 i). destruct (Nat.eq_dec (j_id j) i); [subst i; lia|lia]. }
    assert (Hinv : forall a' i', a' = (i' + length (running s) + length (finishing s))%nat -> (1 <= a')%nat ->
      jinv (JM (queue s ++ [j]) (if is_empty_name (j_name j) then names s else j_name j :: names s) a' i' (running s) (finishing s))).
    { intros a' i' Ha Hl. constructor; unfold live; cbn [queue names active idle running finishing].
      - intros n Hnn. rewrite cnt_app, cnt_cons, cnt_nil. specialize (Hn n Hnn). lia.
      - intros n Hnn. rewrite cnt_app, cnt_cons, cnt_nil. rewrite (Hnames n Hnn). lia.
      - exact Hne.
      - intros i. rewrite idc_app, idc_cons, idc_nil. specialize (Hids i). lia.
      - exact Ha.
      - intros _. lia. }
    unfold live in *.
    destruct (active s <? maxw)%nat eqn:Ea; injection H as <-; apply Hinv; try lia.
    apply Nat.ltb_ge in Ea. lia.
  - (* Take *)
    destruct (idle s) as [|i] eqn:Ei; [discriminate|]. unfold live in *.
    destruct (queue s) as [|j q] eqn:Eq; injection H as <-; constructor; unfold live; cbn [queue names active idle running finishing].
    + intros n Hnn. specialize (I1 n Hnn). exact I1.
    + intros n Hnn. exact (I2 n Hnn).
    + exact I3.
    + exact I4.
    + lia.
    + intros Hq; contradiction.
    + intros n Hnn. specialize (I1 n Hnn). rewrite cnt_cons in I1. rewrite cnt_app, cnt_cons, cnt_nil. lia.
    + intros n Hnn. rewrite (I2 n Hnn). rewrite cnt_cons. rewrite cnt_app, cnt_cons, cnt_nil. lia.
    + exact I3.
    + intros i0. specialize (I4 i0). rewrite idc_cons in I4. rewrite idc_app, idc_cons, idc_nil. lia.
    + rewrite app_length. cbn [length]. lia.
    + intros _. rewrite app_length. cbn [length]. lia.
  - (* Return *)
    destruct (take_job id (running s)) as [[j r]|] eqn:T; [|discriminate].
    destruct (take_job_spec _ _ _ _ T) as (T1 & T2 & T3 & T4 & T5).
    assert (H' : Some (JM (queue s) (names s) (active s) (idle s) r (finishing s ++ [j])) = Some s') by (destruct k; exact H).
    injection H' as <-. unfold live in *. constructor; unfold live; cbn [queue names active idle running finishing].
    + intros n Hnn. specialize (I1 n Hnn). rewrite T3 in I1. rewrite cnt_app, cnt_cons, cnt_nil. lia.
    + intros n Hnn. rewrite (I2 n Hnn). rewrite T3. rewrite cnt_app, cnt_cons, cnt_nil. lia.
    + exact I3.
    + intros i. specialize (I4 i). rewrite T4 in I4. rewrite idc_app, idc_cons, idc_nil. lia.
    + rewrite app_length. cbn [length]. lia.
    + intros Hq. specialize (I6 Hq). rewrite app_length. cbn [length]. lia.
  - (* Release *)
    destruct (take_job id (finishing s)) as [[j r]|] eqn:T; [|discriminate].
    destruct (take_job_spec _ _ _ _ T) as (T1 & T2 & T3 & T4 & T5).
    injection H as <-. unfold live in *. constructor; unfold live; cbn [queue names active idle running finishing].
    + intros n Hnn. specialize (I1 n Hnn). rewrite T3 in I1. lia.
    + intros n Hnn. specialize (I1 n Hnn). specialize (I2 n Hnn). rewrite T3 in I1, I2.
      destruct (is_empty_name (j_name j)) eqn:Ee.
      * apply is_empty_name_spec in Ee. destruct (str_dec (j_name j) n); [congruence|]. rewrite I2. lia.
      * destruct (str_dec (j_name j) n) as [E|E].
        -- subst n. rewrite has_name_remove_same. split; [discriminate|lia].
        -- rewrite has_name_remove_other by congruence. rewrite I2. lia.
    + destruct (is_empty_name (j_name j)) eqn:Ee; [exact I3|].
      rewrite has_name_remove_other; [exact I3|]. destruct (j_name j); [discriminate|congruence].
    + intros i. specialize (I4 i). rewrite T4 in I4. lia.
    + lia.
    + intros Hq. specialize (I6 Hq). lia.
Qed.

Lemma jrun_inv : forall maxw ls s s', (1 <= maxw)%nat -> jinv s -> jrun maxw s ls = Some s' -> jinv s'.
Proof.
  intros maxw ls. induction ls as [|l ls IH]; intros s s' Hm Hi H; cbn in H.
  - injection H as <-. exact Hi.
  - unfold jrun in *. cbn [jrun_gen] in H. destruct (jstep_gen true maxw s l) as [s1|] eqn:E; [|discriminate].
    apply (IH s1); auto. apply (jstep_inv maxw s l); assumption.
Qed.

Definition reachable (maxw : nat) (s : jm) : Prop := exists ls, jrun maxw jinit ls = Some s.

Lemma reachable_inv : forall maxw s, (1 <= maxw)%nat -> reachable maxw s -> jinv s.
Proof. intros maxw s Hm [ls H]. exact (jrun_inv maxw ls jinit s Hm jinv_init H). Qed.

(** at most one job per (non-empty) name is queued, running or being finished, and the
    name set is exactly the set of those names *)
Theorem one_job_per_name : forall maxw s, (1 <= maxw)%nat -> reachable maxw s ->
  forall n, n <> [] ->
    (cnt n (held s) <= 1)%nat /\ (has_name n (names s) = true <-> cnt n (held s) = 1%nat).
Proof.
  intros maxw s Hm Hr n Hn. destruct (reachable_inv maxw s Hm Hr) as [I1 I2 _ _ _ _].
  unfold held. rewrite !cnt_app. specialize (I1 n Hn). specialize (I2 n Hn). split; [lia|].
  rewrite I2. lia.
Qed.

(** a duplicate submission is a no-op; any other submission is queued *)
Theorem submit_queues_or_is_duplicate : forall maxw s j s', jstep maxw s (Submit j) = Some s' ->
  (j_name j <> [] /\ has_name (j_name j) (names s) = true /\ s' = s) \/ queue s' = queue s ++ [j].
Proof.
  intros maxw s j s' H. unfold jstep, jstep_gen in H.
  destruct (existsb _ _); [discriminate|].
  destruct (negb (is_empty_name (j_name j)) && has_name (j_name j) (names s)) eqn:E.
  - left. apply andb_true_iff in E. destruct E as [E1 E2]. injection H as <-. repeat split; auto.
    intros Q. apply is_empty_name_spec in Q. rewrite Q in E1. discriminate.
  - right. destruct (active s <? maxw)%nat; injection H as <-; reflexivity.
Qed.

(** ** every queued job runs *)

Lemma worker_step_decreases : forall maxw s l s', is_worker_step l = true ->
  jstep maxw s l = Some s' -> (measure s' < measure s)%nat.
Proof.
  intros maxw s l s' Hw H. unfold jstep, jstep_gen in H. destruct l as [j| |id k|id]; [discriminate| | |].
  - destruct (idle s) as [|i] eqn:Ei; [discriminate|].
    destruct (queue s) as [|j q] eqn:Eq; injection H as <-; unfold measure;
      cbn [queue idle running finishing length]; rewrite ?Ei, ?Eq, ?app_length; cbn [length]; lia.
  - destruct (take_job id (running s)) as [[j r]|] eqn:T; [|discriminate].
    destruct (take_job_spec _ _ _ _ T) as (_ & T2 & _).
    assert (H' : Some (JM (queue s) (names s) (active s) (idle s) r (finishing s ++ [j])) = Some s') by (destruct k; exact H).
    injection H' as <-. unfold measure. cbn [queue idle running finishing]. rewrite app_length, T2. cbn [length]. lia.
  - destruct (take_job id (finishing s)) as [[j r]|] eqn:T; [|discriminate].
    destruct (take_job_spec _ _ _ _ T) as (_ & T2 & _).
    injection H as <-. unfold measure. cbn [queue idle running finishing]. rewrite T2. lia.
Qed.

Lemma worker_run_bounded : forall maxw ls s s', forallb is_worker_step ls = true ->
  jrun maxw s ls = Some s' -> (length ls + measure s' <= measure s)%nat.
Proof.
  intros maxw ls. induction ls as [|l ls IH]; intros s s' Hw H.
  - cbn in H. injection H as <-. cbn. lia.
  - cbn [forallb] in Hw. apply andb_true_iff in Hw. destruct Hw as [Hl Hw].
    unfold jrun in *. cbn [jrun_gen] in H. destruct (jstep_gen true maxw s l) as [s1|] eqn:E; [|discriminate].
    pose proof (worker_step_decreases maxw s l s1 Hl E). specialize (IH s1 s' Hw H). cbn [length]. lia.
Qed.

Lemma take_job_head : forall j l, take_job (j_id j) (j :: l) = Some (j, l).
Proof. intros. cbn. rewrite Nat.eqb_refl. reflexivity. Qed.

Lemma stuck_means_drained : forall maxw s, jinv s ->
  (forall l, is_worker_step l = true -> jstep maxw s l = None) ->
  queue s = [] /\ running s = [] /\ finishing s = [] /\ idle s = 0%nat /\ active s = 0%nat.
Proof.
  intros maxw s [_ _ _ _ I5 I6] Hst.
  assert (Hi : idle s = 0%nat).
  { specialize (Hst Take eq_refl). unfold jstep, jstep_gen in Hst. destruct (idle s); [reflexivity|].
    destruct (queue s); discriminate. }
  assert (Hr : running s = []).
  { destruct (running s) as [|j r] eqn:E; [reflexivity|].
    specialize (Hst (Return (j_id j) KOk) eq_refl). unfold jstep, jstep_gen in Hst.
    rewrite E, take_job_head in Hst. discriminate. }
  assert (Hf : finishing s = []).
  { destruct (finishing s) as [|j r] eqn:E; [reflexivity|].
    specialize (Hst (Release (j_id j)) eq_refl). unfold jstep, jstep_gen in Hst.
    rewrite E, take_job_head in Hst. discriminate. }
  unfold live in *. rewrite Hi, Hr, Hf in *. cbn [length] in *.
  repeat split; auto. destruct (queue s); [reflexivity|]. assert (1 <= 0)%nat by (apply I6; discriminate). lia.
Qed.

Lemma leaves_queue_by_running : forall maxw s l s' j, jstep maxw s l = Some s' ->
  In j (queue s) -> In j (queue s') \/ In j (running s').
Proof.
  intros maxw s l s' j H Hin. unfold jstep, jstep_gen in H. destruct l as [x| |id k|id].
  - destruct (existsb _ _); [discriminate|]. destruct (negb _ && _); [injection H as <-; auto|].
    destruct (active s <? maxw)%nat; injection H as <-; left; cbn [queue]; apply in_or_app; auto.
  - destruct (idle s); [discriminate|]. destruct (queue s) as [|y q] eqn:E; [contradiction|].
    injection H as <-. cbn [queue running]. destruct Hin as [->|Hin]; [right; apply in_or_app; right; left; reflexivity|left; exact Hin].
  - destruct (take_job id (running s)) as [[y r]|]; [|discriminate].
    assert (queue s' = queue s) by (destruct k; injection H as <-; reflexivity). left. congruence.
  - destruct (take_job id (finishing s)) as [[y r]|]; [|discriminate]. injection H as <-. left. exact Hin.
Qed.

(** Every submitted job eventually runs: from a reachable state the workers can take at most
    [measure s] further steps (whatever the jobs do: return, fail, panic), a job leaves the
    queue only by being run, and when no worker step is possible any more the queue is empty,
    no worker is left and no name is held. *)
Theorem every_job_runs : forall maxw s, (1 <= maxw)%nat -> reachable maxw s ->
  (forall j l s', jstep maxw s l = Some s' -> In j (queue s) -> In j (queue s') \/ In j (running s')) /\
  (queue s <> [] -> exists l s', is_worker_step l = true /\ jstep maxw s l = Some s') /\
  forall ls s', forallb is_worker_step ls = true -> jrun maxw s ls = Some s' ->
    (length ls <= measure s)%nat /\
    ((forall l, is_worker_step l = true -> jstep maxw s' l = None) ->
       queue s' = [] /\ running s' = [] /\ finishing s' = [] /\ active s' = 0%nat /\
       forall n, n <> [] -> has_name n (names s') = false).
Proof.
  intros maxw s Hm Hr. pose proof (reachable_inv maxw s Hm Hr) as Hi. split; [|split].
  - intros j l s' H Hin. exact (leaves_queue_by_running maxw s l s' j H Hin).
  - intros Hq. destruct Hi as [_ _ _ _ I5 I6]. specialize (I6 Hq). unfold live in I6.
    destruct (idle s) as [|i] eqn:Ei.
    + destruct (running s) as [|j r] eqn:Er.
      * destruct (finishing s) as [|j r] eqn:Ef; [cbn in I6; lia|].
        exists (Release (j_id j)). unfold jstep, jstep_gen. rewrite Ef, take_job_head. eexists; split; reflexivity.
      * exists (Return (j_id j) KOk). unfold jstep, jstep_gen. rewrite Er, take_job_head. eexists; split; reflexivity.
    + exists Take. unfold jstep, jstep_gen. rewrite Ei. destruct (queue s); eexists; split; reflexivity.
  - intros ls s' Hw Hrun. pose proof (worker_run_bounded maxw ls s s' Hw Hrun). split; [lia|].
    intros Hst. pose proof (jrun_inv maxw ls s s' Hm Hi Hrun) as Hi'.
    destruct (stuck_means_drained maxw s' Hi' Hst) as (Q & R & F & _ & A). repeat split; auto.
    intros n Hn. destruct Hi' as [_ I2 _ _ _ _]. specialize (I2 n Hn). rewrite Q, R, F in I2. cbn in I2.
    destruct (has_name n (names s')); [|reflexivity]. destruct I2 as [I2 _]. specialize (I2 eq_refl). lia.
Qed.

(** ** a job that fails or panics does not block its name *)

Lemma idc_existsb : forall id l, idc id l = 0%nat -> existsb (Nat.eqb id) (map j_id l) = false.
Proof.
  intros id l. induction l as [|x l IH]; intros H; [reflexivity|]. rewrite idc_cons in H.
  cbn [map existsb]. destruct (Nat.eq_dec (j_id x) id) as [E|E]; [lia|].
  apply orb_false_iff. split; [apply Nat.eqb_neq; congruence|apply IH; lia].
Qed.

Theorem failure_does_not_block_name : forall maxw s id j r k, (1 <= maxw)%nat -> reachable maxw s ->
  take_job id (running s) = Some (j, r) ->
  exists s1 s2, jstep maxw s (Return id k) = Some s1 /\ jstep maxw s1 (Release id) = Some s2 /\
    has_name (j_name j) (names s2) = false /\
    forall id', idc id' (held s2) = 0%nat ->
      exists s3, jstep maxw s2 (Submit (Job id' (j_name j))) = Some s3 /\
                 queue s3 = queue s2 ++ [Job id' (j_name j)].
Proof.
  intros maxw s id j r k Hm Hr T. pose proof (reachable_inv maxw s Hm Hr) as Hi.
  destruct (take_job_spec _ _ _ _ T) as (T1 & T2 & T3 & T4 & T5).
  set (s1 := JM (queue s) (names s) (active s) (idle s) r (finishing s ++ [j])).
  assert (H1 : jstep maxw s (Return id k) = Some s1).
  { unfold jstep, jstep_gen. rewrite T. destruct k; reflexivity. }
  assert (Hid0 : idc id (finishing s) = 0%nat).
  { destruct Hi as [_ _ _ I4 _ _]. specialize (I4 id). rewrite T4 in I4. destruct (Nat.eq_dec (j_id j) id); [lia|congruence]. }
  set (nm := if is_empty_name (j_name j) then names s else remove_name (j_name j) (names s)).
  set (s2 := JM (queue s) nm (active s) (S (idle s)) r (finishing s)).
  assert (H2 : jstep maxw s1 (Release id) = Some s2).
  { unfold jstep, jstep_gen, s1. cbn [finishing]. rewrite take_job_last by assumption. reflexivity. }
  assert (Hfree : has_name (j_name j) nm = false).
  { unfold nm. destruct (is_empty_name (j_name j)) eqn:Ee.
    - apply is_empty_name_spec in Ee. rewrite Ee. apply Hi.
    - apply has_name_remove_same. }
  exists s1, s2. repeat split; auto.
  intros id' Hfresh. unfold jstep, jstep_gen. cbn [j_id j_name].
  change (queue s2 ++ running s2 ++ finishing s2) with (held s2).
  rewrite (idc_existsb id' (held s2) Hfresh).
  change (names s2) with nm. rewrite Hfree, andb_false_r.
  destruct (active s2 <? maxw)%nat; eexists; split; reflexivity.
Qed.

(** * (a) doWithRetry *)
Open Scope Z_scope.

Definition idx_of (iv : list Z) (kk : nat) : Z :=
  match kk with O => -1 | S p => Z.of_nat (Nat.min p (length iv - 1)) end.
(** the pause in front of attempt number kk *)
Definition pause (iv : list Z) (kk : nat) : Z := match kk with O => 0 | S p => sched iv p end.

Lemma next_idx_of : forall iv kk, iv <> [] -> next_idx iv (idx_of iv kk) = idx_of iv (S kk).
Proof.
  intros iv kk Hne. assert (Hl : (1 <= length iv)%nat) by (destruct iv; [congruence|cbn; lia]).
  unfold next_idx, idx_of. destruct kk as [|p].
  - replace (-1 <? Z.of_nat (length iv) - 1) with true by (symmetry; apply Z.ltb_lt; lia).
    rewrite Nat.min_0_l. reflexivity.
  - destruct (Z.of_nat (Nat.min p (length iv - 1)) <? Z.of_nat (length iv) - 1) eqn:E;
      [apply Z.ltb_lt in E|apply Z.ltb_ge in E]; lia.
Qed.

Lemma wait_idx_of : forall iv kk, wait_of iv (idx_of iv kk) = pause iv kk.
Proof.
  intros iv [|p]; unfold wait_of, idx_of, pause, sched; [reflexivity|].
  replace (Z.of_nat (Nat.min p (length iv - 1)) >=? 0) with true by (symmetry; apply Z.geb_le; lia).
  rewrite Nat2Z.id. reflexivity.
Qed.

Lemma sched_positive : forall iv k, iv <> [] -> all_positive iv = true -> 0 < sched iv k.
Proof.
  intros iv k Hne Hp. unfold sched, all_positive in *. rewrite forallb_forall in Hp.
  apply Z.ltb_lt. apply Hp. apply nth_In. destruct iv; [congruence|cbn [length]; lia].
Qed.

Fixpoint trace_ok (iv : list Z) (t : Z) (kk : nat) (calls : list call) (atts : list attempt) {struct atts} : Prop :=
  match atts with
  | [] => True
  | a :: atts' =>
      match calls with
      | [] => False
      | c :: calls' =>
          a_no a = Z.of_nat kk /\ a_start a = t + pause iv kk + c_late c /\ a_end a = a_start a + c_dur c /\
          a_out a = c_out c /\ trace_ok iv (a_end a) (S kk) calls' atts'
      end
  end.

Definition plain (a : attempt) : Prop := a_out a = OPlain.

(** how the loop ends: on the first outcome that is not a plain error, with exactly that
    outcome; otherwise every attempt so far failed plainly *)
Definition stop_ok (atts : list attempt) (r : result) : Prop :=
  match r with
  | RNil => exists l a, atts = l ++ [a] /\ Forall plain l /\ a_out a = OOk
  | RErrCanceled => exists l a, atts = l ++ [a] /\ Forall plain l /\ a_out a = OCanceled
  | RErrNoRetry => exists l a, atts = l ++ [a] /\ Forall plain l /\ a_out a = ONoRetry
  | _ => Forall plain atts
  end.

Definition last_end (t : Z) (atts : list attempt) : Z := fold_left (fun _ a => a_end a) atts t.

Lemma stop_ok_cons : forall a l r, plain a -> stop_ok l r -> stop_ok (a :: l) r.
Proof.
  intros a l r Ha H. destruct r; cbn [stop_ok] in *;
    try (constructor; assumption);
    destruct H as (l0 & a0 & -> & Hl & Ho); exists (a :: l0), a0; (split; [reflexivity|split; [constructor; assumption|exact Ho]]).
Qed.

Lemma retry_loop_spec : forall iv maxd cancel pick0 calls t kk atts r te, iv <> [] ->
  retry_loop iv maxd cancel pick0 calls t (idx_of iv kk) (Z.of_nat kk) = (atts, r, te) ->
  trace_ok iv t kk calls atts /\ stop_ok atts r /\
  (* cancellation *)
  (forall cn, cancel = Some cn ->
     Forall (fun a => a_start a <= cn \/ pause iv (Z.to_nat (a_no a)) = 0) atts /\
     (r = RCtxCanceled -> te = Z.max (last_end t atts) cn)) /\
  (cancel = None -> r <> RCtxCanceled) /\
  (* only the horizon, or the end of the input, ends a run of plain failures *)
  (r = RPending -> length atts = length calls) /\
  (r = RGiveUp \/ r = RLoopExit -> maxd <= te).
Proof.
  intros iv maxd cancel pick0 calls. induction calls as [|c rest IH]; intros t kk atts r te Hne H.
  - cbn [retry_loop] in H. destruct (negb (t <? maxd)) eqn:Em; injection H as <- <- <-;
      (repeat split; try (cbn; auto; fail); try discriminate; try (intros; constructor));
      try (intros [Q|Q]; discriminate).
    intros _. apply negb_true_iff, Z.ltb_ge in Em. exact Em.
  - cbn [retry_loop] in H. destruct (negb (t <? maxd)) eqn:Em.
    { injection H as <- <- <-. repeat split; try (cbn; auto; fail); try discriminate; try (intros; constructor).
      intros _. apply negb_true_iff, Z.ltb_ge in Em. exact Em. }
    rewrite wait_idx_of in H.
    set (fire := t + pause iv kk + c_late c) in *.
    set (cw := match cancel with
               | Some cn => if (pause iv kk =? 0) && (cn <=? t) then pick0 else cn <? fire
               | None => false end) in *.
    destruct cw eqn:Ecw.
    { injection H as <- <- <-. split; [exact I|]. split; [constructor|].
      split; [|split; [|split; [discriminate|intros [Q|Q]; discriminate]]].
      - intros cn Hc. split; [constructor|]. intros _. rewrite Hc. reflexivity.
      - intros Hc. unfold cw in Ecw. rewrite Hc in Ecw. discriminate. }
    assert (Hstart : forall cn, cancel = Some cn -> fire <= cn \/ (pause iv kk = 0 /\ cn <= t)).
    { intros cn Hc. unfold cw in Ecw. rewrite Hc in Ecw.
      destruct ((pause iv kk =? 0) && (cn <=? t)) eqn:E.
      - right. apply andb_true_iff in E. destruct E as [E1 E2]. apply Z.eqb_eq in E1. apply Z.leb_le in E2. auto.
      - left. apply Z.ltb_ge in Ecw. exact Ecw. }
    set (a := Att (Z.of_nat kk) fire (fire + c_dur c) (c_out c)) in *.
    assert (Ha : forall l, trace_ok iv (fire + c_dur c) (S kk) rest l -> trace_ok iv t kk (c :: rest) (a :: l)).
    { intros l Hl. cbn [trace_ok a_no a_start a_end a_out a]. repeat split; auto. }
    assert (Hone : forall r0, (r0 = RNil /\ c_out c = OOk) \/ (r0 = RErrCanceled /\ c_out c = OCanceled) \/
                              (r0 = RErrNoRetry /\ c_out c = ONoRetry) ->
      ([a], r0, fire + c_dur c) = (atts, r, te) ->
      trace_ok iv t kk (c :: rest) atts /\ stop_ok atts r /\
      (forall cn, cancel = Some cn ->
         Forall (fun a => a_start a <= cn \/ pause iv (Z.to_nat (a_no a)) = 0) atts /\
         (r = RCtxCanceled -> te = Z.max (last_end t atts) cn)) /\
      (cancel = None -> r <> RCtxCanceled) /\
      (r = RPending -> length atts = length (c :: rest)) /\
      (r = RGiveUp \/ r = RLoopExit -> maxd <= te)).
    { intros r0 Hr0 E. injection E as <- <- <-. split; [apply Ha; exact I|]. split.
      - destruct Hr0 as [[-> Ho]|[[-> Ho]|[-> Ho]]]; cbn [stop_ok]; exists [], a; (split; [reflexivity|split; [constructor|exact Ho]]).
      - split; [|split; [|split]].
        + intros cn Hc. split.
          * constructor; [|constructor]. cbn [a_start a_no a]. rewrite Nat2Z.id. destruct (Hstart cn Hc) as [Q|[Q1 Q2]]; auto.
          * destruct Hr0 as [[-> _]|[[-> _]|[-> _]]]; discriminate.
        + destruct Hr0 as [[-> _]|[[-> _]|[-> _]]]; discriminate.
        + destruct Hr0 as [[-> _]|[[-> _]|[-> _]]]; discriminate.
        + destruct Hr0 as [[-> _]|[[-> _]|[-> _]]]; intros [Q|Q]; discriminate. }
    destruct (c_out c) eqn:Eo.
    + apply (Hone RNil); auto.
    + (* plain failure *)
      destruct (fire + c_dur c <? maxd) eqn:Eh.
      * rewrite next_idx_of in H by exact Hne.
        replace (Z.of_nat kk + 1) with (Z.of_nat (S kk)) in H by lia.
        destruct (retry_loop iv maxd cancel pick0 rest (fire + c_dur c) (idx_of iv (S kk)) (Z.of_nat (S kk))) as [[l r'] te'] eqn:R.
        injection H as <- <- <-.
        destruct (IH _ _ _ _ _ Hne R) as (I1 & I2 & I3 & I4 & I5 & I6).
        assert (Hpl : plain a) by (unfold plain, a; cbn [a_out]; first [exact Eo|reflexivity]).
        split; [apply Ha; exact I1|]. split; [apply stop_ok_cons; assumption|].
        split; [|split; [exact I4|split; [intros Q; cbn [length]; rewrite (I5 Q); reflexivity|exact I6]]].
        intros cn Hc. destruct (I3 cn Hc) as [J1 J2]. split.
        -- constructor.
           ++ cbn [a_start a_no a]. rewrite Nat2Z.id. destruct (Hstart cn Hc) as [Q|[Q1 Q2]]; auto.
           ++ exact J1.
        -- intros Q. rewrite (J2 Q). cbn [last_end fold_left a_end a]. reflexivity.
      * injection H as <- <- <-. split; [apply Ha; exact I|]. split; [cbn [stop_ok]; constructor; [unfold plain, a; cbn [a_out]; first [exact Eo|reflexivity]|constructor]|].
        split; [|split; [discriminate|split; [discriminate|]]].
        -- intros cn Hc. split; [|discriminate]. constructor; [|constructor].
           cbn [a_start a_no a]. rewrite Nat2Z.id. destruct (Hstart cn Hc) as [Q|[Q1 Q2]]; auto.
        -- intros _. apply Z.ltb_ge in Eh. exact Eh.
    + apply (Hone RErrNoRetry); auto.
    + apply (Hone RErrCanceled); auto.
Qed.

Definition att0 : attempt := Att 0 0 0 OOk.
Definition call0 : call := Call OOk 0 0.

Lemma trace_ok_nth : forall iv atts t kk calls, trace_ok iv t kk calls atts ->
  forall i, (i < length atts)%nat ->
    a_no (nth i atts att0) = Z.of_nat (kk + i) /\
    a_out (nth i atts att0) = c_out (nth i calls call0) /\
    a_end (nth i atts att0) = a_start (nth i atts att0) + c_dur (nth i calls call0) /\
    a_start (nth i atts att0) =
      (match i with O => t | S p => a_end (nth p atts att0) end) + pause iv (kk + i) + c_late (nth i calls call0).
Proof.
  intros iv atts. induction atts as [|a atts IH]; intros t kk calls H i Hi; [cbn in Hi; lia|].
  destruct calls as [|c calls]; [contradiction|]. cbn [trace_ok] in H. destruct H as (H1 & H2 & H3 & H4 & H5).
  destruct i as [|i].
  - cbn [nth]. rewrite Nat.add_0_r. repeat split; auto.
  - cbn [nth length] in *. destruct (IH _ _ _ H5 i ltac:(lia)) as (J1 & J2 & J3 & J4).
    replace (kk + S i)%nat with (S kk + i)%nat by lia. repeat split; auto.
    rewrite J4. destruct i; reflexivity.
Qed.

(** the attempt number visible to the retried function increases by one per attempt *)
Theorem attempt_counter_increments : forall iv maxd cancel pick0 calls atts r te, iv <> [] ->
  do_with_retry iv maxd cancel pick0 calls = (atts, r, te) ->
  forall i, (i < length atts)%nat -> a_no (nth i atts att0) = Z.of_nat i.
Proof.
  intros iv maxd cancel pick0 calls atts r te Hne H i Hi.
  destruct (retry_loop_spec iv maxd cancel pick0 calls 0 0 atts r te Hne H) as (Ht & _).
  apply (trace_ok_nth iv atts 0 0%nat calls Ht i Hi).
Qed.

(** no wait before the first attempt; before attempt k+1 the loop pauses for the k-th entry
    of the schedule (the last entry repeating), plus timer latency — never less, and the
    schedule is positive: no immediate retry *)
Theorem waits_follow_schedule : forall iv maxd cancel pick0 calls atts r te, iv <> [] ->
  do_with_retry iv maxd cancel pick0 calls = (atts, r, te) ->
  (forall a, hd_error atts = Some a -> a_start a = c_late (nth 0 calls call0)) /\
  forall k, (S k < length atts)%nat ->
    a_start (nth (S k) atts att0) = a_end (nth k atts att0) + sched iv k + c_late (nth (S k) calls call0) /\
    (all_positive iv = true -> 0 <= c_late (nth (S k) calls call0) ->
       a_end (nth k atts att0) < a_start (nth (S k) atts att0)).
Proof.
  intros iv maxd cancel pick0 calls atts r te Hne H.
  destruct (retry_loop_spec iv maxd cancel pick0 calls 0 0 atts r te Hne H) as (Ht & _).
  split.
  - intros a Ha. destruct atts as [|a' atts]; [discriminate|]. injection Ha as ->.
    destruct (trace_ok_nth iv _ 0 0%nat calls Ht 0%nat ltac:(cbn; lia)) as (_ & _ & _ & J). cbn [nth pause Nat.add] in J. lia.
  - intros k Hk. destruct (trace_ok_nth iv _ 0 0%nat calls Ht (S k) Hk) as (_ & _ & _ & J).
    cbn [Nat.add pause] in J. split; [exact J|]. intros Hp Hl.
    pose proof (sched_positive iv k Hne Hp). lia.
Qed.

(** retried until success, cancellation or a non-retryable error — and only then (or at the
    30-day horizon): the loop ends exactly at the first outcome that is not a plain error and
    returns it; while outcomes are plain errors and nobody cancels, it keeps going *)
Theorem stops_on_success_cancel_noretry : forall iv maxd cancel pick0 calls atts r te, iv <> [] ->
  do_with_retry iv maxd cancel pick0 calls = (atts, r, te) ->
  stop_ok atts r /\
  (forall i, (i < length atts)%nat -> a_out (nth i atts att0) = c_out (nth i calls call0)) /\
  (cancel = None -> r <> RCtxCanceled) /\
  (r = RPending -> length atts = length calls) /\
  (r = RGiveUp \/ r = RLoopExit -> maxd <= te).
Proof.
  intros iv maxd cancel pick0 calls atts r te Hne H.
  destruct (retry_loop_spec iv maxd cancel pick0 calls 0 0 atts r te Hne H) as (Ht & Hs & _ & Hc & Hp & Hg).
  repeat split; auto. intros i Hi. apply (trace_ok_nth iv atts 0 0%nat calls Ht i Hi).
Qed.

(** an operation that keeps failing with plain errors is retried for as long as the input
    lasts: nothing but the horizon ends it when nobody cancels *)
Theorem retries_while_failing : forall iv maxd pick0 calls atts r te, iv <> [] ->
  Forall (fun c => c_out c = OPlain) calls ->
  do_with_retry iv maxd None pick0 calls = (atts, r, te) ->
  (r = RPending /\ length atts = length calls) \/ ((r = RGiveUp \/ r = RLoopExit) /\ maxd <= te).
Proof.
  intros iv maxd pick0 calls atts r te Hne Hpl H.
  destruct (stops_on_success_cancel_noretry iv maxd None pick0 calls atts r te Hne H) as (Hs & Ho & Hc & Hp & Hg).
  assert (Hall : forall a, In a atts -> a_out a = OPlain).
  { intros a Ha. destruct (In_nth _ _ att0 Ha) as (i & Hi & <-). rewrite (Ho i Hi).
    destruct (Nat.lt_ge_cases i (length calls)) as [Hlt|Hge].
    - rewrite Forall_forall in Hpl. apply Hpl. apply nth_In. exact Hlt.
    - exfalso. (* more attempts than calls is impossible *)
      destruct (retry_loop_spec iv maxd None pick0 calls 0 0 atts r te Hne H) as (Ht & _).
      clear - Ht Hi Hge. revert Ht Hi Hge. generalize 0%Z, 0%nat. revert i calls.
      induction atts as [|a atts IH]; intros i calls t kk Ht Hi Hge; [cbn in Hi; lia|].
      destruct calls as [|c calls]; [exact Ht|]. cbn [trace_ok] in Ht. destruct Ht as (_ & _ & _ & _ & Ht).
      destruct i as [|i]; [cbn in Hge; lia|]. apply (IH i calls _ _ Ht); cbn [length] in *; lia. }
  assert (Hno : forall l a o, atts = l ++ [a] -> a_out a = o -> o <> OPlain -> False).
  { intros l a o -> Ho' Hne'. apply Hne'. rewrite <- Ho'. apply Hall. apply in_or_app. right. left. reflexivity. }
  destruct r; cbn [stop_ok] in Hs.
  - destruct Hs as (l & a & E & _ & Ho'). exfalso. apply (Hno l a OOk E Ho'). discriminate.
  - destruct Hs as (l & a & E & _ & Ho'). exfalso. apply (Hno l a OCanceled E Ho'). discriminate.
  - destruct Hs as (l & a & E & _ & Ho'). exfalso. apply (Hno l a ONoRetry E Ho'). discriminate.
  - exfalso. apply Hc; reflexivity.
  - right. split; [left; reflexivity|apply Hg; left; reflexivity].
  - right. split; [right; reflexivity|apply Hg; right; reflexivity].
  - left. split; [reflexivity|apply Hp; reflexivity].
Qed.

(** cancellation stops the retries promptly: no attempt starts after the cancellation instant
    (attempt 0 excepted when the context was cancelled before the call — Go's select may pick
    either ready case), and the loop returns at the cancellation instant or, if an attempt
    was running then, when that attempt returns — it never sits out the pause *)
Theorem cancel_prompt : forall iv maxd cn pick0 calls atts r te, iv <> [] -> all_positive iv = true ->
  do_with_retry iv maxd (Some cn) pick0 calls = (atts, r, te) ->
  (forall i, (i < length atts)%nat -> a_start (nth i atts att0) <= cn \/ i = 0%nat) /\
  (r = RCtxCanceled -> te = Z.max (last_end 0 atts) cn).
Proof.
  intros iv maxd cn pick0 calls atts r te Hne Hpos H.
  destruct (retry_loop_spec iv maxd (Some cn) pick0 calls 0 0 atts r te Hne H) as (Ht & _ & Hc & _).
  destruct (Hc cn eq_refl) as [H1 H2]. split; [|exact H2].
  intros i Hi. rewrite Forall_forall in H1. destruct (H1 (nth i atts att0) (nth_In _ _ Hi)) as [Q|Q]; [left; exact Q|].
  right. destruct (trace_ok_nth iv atts 0 0%nat calls Ht i Hi) as (J & _). rewrite J in Q. rewrite Nat2Z.id in Q.
  cbn [Nat.add] in Q. destruct i as [|p]; [reflexivity|]. cbn [pause] in Q.
  pose proof (sched_positive iv p Hne Hpos). lia.
Qed.

(** nil means success: the loop returns nil only when the last attempt succeeded — also at
    the horizon ("final attempt; giving up" returns the last error) *)
Theorem nil_only_after_success : forall iv maxd cancel pick0 calls atts r te, iv <> [] ->
  do_with_retry iv maxd cancel pick0 calls = (atts, r, te) -> returns_nil r = true ->
  exists l a, atts = l ++ [a] /\ Forall plain l /\ a_out a = OOk.
Proof.
  intros iv maxd cancel pick0 calls atts r te Hne H Hn.
  destruct (stops_on_success_cancel_noretry iv maxd cancel pick0 calls atts r te Hne H) as (Hs & _).
  destruct r; try discriminate Hn. exact Hs.
Qed.

(** the code before 9155753: "giving up" after the horizon was reported as success — the loop
    returned nil although every attempt had failed *)
Theorem giving_up_returned_nil_orig_refuted : exists iv maxd calls atts r te,
  iv <> [] /\ all_positive iv = true /\
  do_with_retry iv maxd None false calls = (atts, r, te) /\ returns_nil_gen false r = true /\
  Forall plain atts /\ atts <> [].
Proof.
  exists [10], 25, [Call OPlain 1 0; Call OPlain 1 0; Call OPlain 20 0].
  eexists. exists RGiveUp. eexists. split; [discriminate|]. split; [reflexivity|]. split; [vm_compute; reflexivity|].
  split; [reflexivity|]. split; [repeat constructor|discriminate].
Qed.

(** * (c) test CA *)
Close Scope Z_scope.

Section TestCAProofs.
  Variable norm : str -> str.

  (** a certificate returned by Issue always comes from an order against the production
      directory when a different test CA is configured (or none) *)
  Theorem test_cert_never_returned : forall ca testca attempts outs ds d,
    ca <> testca -> issue norm ca testca attempts outs = (ds, ICert d) -> d = norm ca.
  Proof.
    intros ca testca attempts outs ds d Hne H. unfold issue, do_issue, directory_for in H.
    assert (Hneq : str_eqb ca testca = false).
    { destruct (str_eqb ca testca) eqn:E; [apply str_eqb_eq in E; contradiction|reflexivity]. }
    rewrite Hneq in H. cbn [negb andb] in H. rewrite andb_true_r in H.
    destruct outs as [|o1 rest]; [discriminate|]. destruct o1; try discriminate.
    destruct (0 <? attempts)%Z eqn:Ea; cbn [andb] in H.
    - destruct (is_empty_name testca) eqn:Ee; cbn [negb] in H.
      + unfold using_test_ca in H. rewrite Ee in H. cbn [negb andb] in H. injection H as _ <-. reflexivity.
      + unfold using_test_ca in H. rewrite Ee in H. cbn [negb andb] in H.
        replace (str_eqb testca testca) with true in H by (symmetry; apply str_eqb_eq; reflexivity).
        destruct rest as [|[| |] rest']; try discriminate. injection H as _ <-. reflexivity.
    - injection H as _ <-. reflexivity.
  Qed.

  (** retries go to the test CA first; success there is followed by a production order *)
  Theorem test_success_followed_by_production : forall ca testca attempts rest,
    (0 < attempts)%Z -> testca <> [] -> ca <> testca ->
    fst (issue norm ca testca attempts (OrdOk :: rest)) =
      match rest with [] => [testca] | _ => [testca; norm ca] end /\
    (forall o rest', rest = o :: rest' ->
       snd (issue norm ca testca attempts (OrdOk :: rest)) =
         match o with OrdOk => ICert (norm ca) | OrdRateLimited => IErr | OrdFail => IErrNoRetry end).
  Proof.
    intros ca testca attempts rest Ha Ht Hne. unfold issue, do_issue, directory_for.
    apply Z.ltb_lt in Ha. rewrite Ha.
    assert (Hneq : str_eqb ca testca = false).
    { destruct (str_eqb ca testca) eqn:E; [apply str_eqb_eq in E; contradiction|reflexivity]. }
    assert (Hee : is_empty_name testca = false) by (destruct testca; [congruence|reflexivity]).
    unfold using_test_ca. rewrite Hneq, Hee. cbn [negb andb].
    replace (str_eqb testca testca) with true by (symmetry; apply str_eqb_eq; reflexivity).
    cbn [andb Z.ltb Z.compare]. split.
    - destruct rest as [|[| |] r]; reflexivity.
    - intros o rest' ->. destruct o; reflexivity.
  Qed.

  (** which directory an order goes to *)
  Theorem first_order_directory : forall ca testca attempts o rest,
    hd_error (fst (issue norm ca testca attempts (o :: rest))) =
      Some (if (0 <? attempts)%Z && negb (is_empty_name testca) then testca else norm ca).
  Proof.
    intros ca testca attempts o rest. unfold issue, do_issue, directory_for.
    destruct o; try reflexivity.
    destruct ((0 <? attempts)%Z && using_test_ca testca _ && negb (str_eqb ca testca)); [|reflexivity].
    destruct rest as [|[| |] r]; reflexivity.
  Qed.

  (** a failed test order never leads to a production order in the same call, and its error
      lets the retry loop continue *)
  Theorem failed_order_is_retryable : forall ca testca attempts o rest, o <> OrdOk ->
    issue norm ca testca attempts (o :: rest) = ([directory_for norm ca testca (0 <? attempts)%Z], IErr).
  Proof. intros ca testca attempts o rest Ho. unfold issue, do_issue. destruct o; [congruence| |]; reflexivity. Qed.

  (** ** the asynchronous obtain (doWithRetry around Issue) with a distinct test CA *)
  Lemma issue_cases : forall ca testca k o1 rest, testca <> [] -> ca <> testca -> norm ca <> testca ->
    issue norm ca testca k (o1 :: rest) =
      if (0 <? k)%Z then
        match o1 with
        | OrdOk => match rest with
                   | [] => ([testca], IErr)
                   | OrdOk :: _ => ([testca; norm ca], ICert (norm ca))
                   | OrdRateLimited :: _ => ([testca; norm ca], IErr)
                   | OrdFail :: _ => ([testca; norm ca], IErrNoRetry)
                   end
        | _ => ([testca], IErr)
        end
      else match o1 with OrdOk => ([norm ca], ICert (norm ca)) | _ => ([norm ca], IErr) end.
  Proof.
    intros ca testca k o1 rest Ht Hne Hn. unfold issue, do_issue, directory_for, using_test_ca.
    assert (E1 : str_eqb ca testca = false).
    { destruct (str_eqb ca testca) eqn:E; [apply str_eqb_eq in E; contradiction|reflexivity]. }
    assert (E2 : str_eqb (norm ca) testca = false).
    { destruct (str_eqb (norm ca) testca) eqn:E; [apply str_eqb_eq in E; contradiction|reflexivity]. }
    assert (E3 : is_empty_name testca = false) by (destruct testca; [congruence|reflexivity]).
    assert (E4 : str_eqb testca testca = true) by (apply str_eqb_eq; reflexivity).
    rewrite E1, E3. destruct (0 <? k)%Z; cbn [andb negb].
    - rewrite E4. cbn [andb]. destruct o1; reflexivity.
    - reflexivity.
  Qed.

  Lemma nth_error_skipn' : forall (A : Type) n (l : list A) i, nth_error (skipn n l) i = nth_error l (n + i).
  Proof. induction n; intros l i; [reflexivity|]. destruct l; [destruct i; reflexivity|]. cbn. apply IHn. Qed.

  (** [ds] are the directories of the first [length ds] orders, in the order of [outs] *)
  Definition follows (testca prod : str) (ds : list str) (outs : list order_outcome) : Prop :=
    forall i, nth_error ds i = Some testca -> nth_error outs i = Some OrdOk ->
              (S i < length outs)%nat -> nth_error ds (S i) = Some prod.

  Lemma obtain_async_inv : forall fuel ca testca k outs ds r,
    testca <> [] -> ca <> testca -> norm ca <> testca -> (0 <= k)%Z ->
    obtain_async norm fuel ca testca k outs = (ds, r) ->
    (length ds <= length outs)%nat /\
    (* a certificate comes from the production directory *)
    (forall d, r = ICert d -> d = norm ca) /\
    (* a successful test order is followed by a production order *)
    follows testca (norm ca) ds outs /\
    (* every order goes to one of the two directories; the first attempt to production,
       every later attempt to the test CA first *)
    (forall d, In d ds -> d = testca \/ d = norm ca) /\
    (forall d, hd_error ds = Some d -> d = if (0 <? k)%Z then testca else norm ca).
  Proof.
    induction fuel as [|f IH]; intros ca testca k outs ds r Ht Hne Hn Hk H.
    - cbn in H. inversion H; subst. unfold follows. split; [cbn; lia|]. split; [discriminate|].
      split; [intros i Hi; destruct i; discriminate|]. split; [intros d []|discriminate].
    - destruct outs as [|o1 rest].
      { cbn in H. inversion H; subst. unfold follows. split; [cbn; lia|]. split; [discriminate|].
        split; [intros i Hi; destruct i; discriminate|]. split; [intros d []|discriminate]. }
      cbn [obtain_async] in H. rewrite (issue_cases ca testca k o1 rest Ht Hne Hn) in H.
      assert (Base1 : forall (d1 : str) (rr : issue_result), (forall d, rr = ICert d -> d = norm ca) ->
                (d1 = if (0 <? k)%Z then testca else norm ca) -> d1 <> testca \/ o1 <> OrdOk \/ rest = [] ->
                (1 <= length (o1 :: rest))%nat /\ (forall d, rr = ICert d -> d = norm ca) /\
                follows testca (norm ca) [d1] (o1 :: rest) /\
                (forall d, In d [d1] -> d = testca \/ d = norm ca) /\
                (forall d, hd_error [d1] = Some d -> d = if (0 <? k)%Z then testca else norm ca)).
      { intros d1 rr Hr Hd Hx. split; [cbn; lia|]. split; [exact Hr|]. split; [|split].
        - intros i Hi Ho Hl. destruct i as [|i]; [|destruct i; discriminate].
          cbn in Hi, Ho. inversion Hi; inversion Ho; subst.
          destruct Hx as [Hx|[Hx|Hx]]; try congruence. subst rest. cbn in Hl. lia.
        - intros d [<-|[]]. destruct (0 <? k)%Z; subst; auto.
        - intros d Hd'. cbn in Hd'. inversion Hd'; subst. reflexivity. }
      (* the continuation after a retryable failure of this attempt *)
      assert (Cont : forall (dsk : list str) n, dsk <> [] -> n = length dsk -> (n <= length (o1 :: rest))%nat ->
                (forall d, In d dsk -> d = testca \/ d = norm ca) ->
                (forall d, hd_error dsk = Some d -> d = if (0 <? k)%Z then testca else norm ca) ->
                follows testca (norm ca) dsk (o1 :: rest) ->
                (* the last order of the attempt is not a successful test order with a successor *)
                (nth_error dsk (n - 1) = Some testca -> nth_error (o1 :: rest) (n - 1) = Some OrdOk -> (n < length (o1 :: rest))%nat -> False) ->
                forall ds' r', obtain_async norm f ca testca (k + 1) (skipn n (o1 :: rest)) = (ds', r') ->
                (length (dsk ++ ds') <= length (o1 :: rest))%nat /\ (forall d, r' = ICert d -> d = norm ca) /\
                follows testca (norm ca) (dsk ++ ds') (o1 :: rest) /\
                (forall d, In d (dsk ++ ds') -> d = testca \/ d = norm ca) /\
                (forall d, hd_error (dsk ++ ds') = Some d -> d = if (0 <? k)%Z then testca else norm ca)).
      { intros dsk n Hnn -> Hlen Hin Hhd Hfol Hlast ds' r' Hrec.
        destruct (IH ca testca (k + 1)%Z _ ds' r' Ht Hne Hn ltac:(lia) Hrec) as [L [C [F [I Hh]]]].
        rewrite skipn_length in L.
        split; [rewrite app_length; lia|]. split; [exact C|]. split; [|split].
        - intros i Hi Ho Hl.
          destruct (Nat.lt_ge_cases (S i) (length dsk)) as [Hlt|Hge].
          + rewrite nth_error_app1 in Hi by lia. rewrite nth_error_app1 by lia. apply Hfol; auto.
          + destruct (Nat.eq_dec (S i) (length dsk)) as [He|Hn'].
            * exfalso. rewrite nth_error_app1 in Hi by lia.
              apply Hlast; replace (length dsk - 1)%nat with i by lia; auto. lia.
            * rewrite nth_error_app2 in Hi by lia. rewrite nth_error_app2 by lia.
              replace (S i - length dsk)%nat with (S (i - length dsk)) by lia.
              apply F; auto.
              -- rewrite nth_error_skipn'. replace (length dsk + (i - length dsk))%nat with i by lia. exact Ho.
              -- rewrite skipn_length. lia.
        - intros d Hd. apply in_app_or in Hd. destruct Hd; auto.
        - intros d Hd. destruct dsk as [|x dsk']; [congruence|]. cbn in Hd. apply Hhd. cbn. exact Hd. }
      destruct (0 <? k)%Z eqn:Ek.
      + destruct o1 as [| |].
        * destruct rest as [|[| |] rest'].
          -- match type of H with (let (_, _) := ?X in _) = _ => destruct X as [ds' r'] eqn:Hrec end.
          inversion H; subst.
          apply (Cont [testca] 1%nat);
            [discriminate | reflexivity | cbn; lia | intros d [<-|[]]; auto | intros d Hd; inversion Hd; reflexivity | intros i Hi Ho Hl; cbn in Hl; lia | intros _ _ Hl; cbn in Hl; lia | exact Hrec].
          -- inversion H; subst. split; [cbn; lia|]. split; [intros d Hd; inversion Hd; reflexivity|].
          split; [intros i Hi Ho Hl; destruct i as [|[|i]]; [reflexivity|cbn in Hi; exfalso; apply Hn; congruence|destruct i; discriminate]|]. split; [intros d [<-|[<-|[]]]; auto|intros d Hd; inversion Hd; reflexivity].
          -- match type of H with (let (_, _) := ?X in _) = _ => destruct X as [ds' r'] eqn:Hrec end.
          inversion H; subst.
          apply (Cont [testca; norm ca] 2%nat);
            [discriminate | reflexivity | cbn; lia | intros d [<-|[<-|[]]]; auto | intros d Hd; inversion Hd; reflexivity | intros i Hi Ho Hl; destruct i as [|[|i]]; [reflexivity|cbn in Hi; exfalso; apply Hn; congruence|destruct i; discriminate] | intros Hi; cbn in Hi; exfalso; apply Hn; congruence | exact Hrec].
          -- inversion H; subst. split; [cbn; lia|]. split; [discriminate|].
          split; [intros i Hi Ho Hl; destruct i as [|[|i]]; [reflexivity|cbn in Hi; exfalso; apply Hn; congruence|destruct i; discriminate]|]. split; [intros d [<-|[<-|[]]]; auto|intros d Hd; inversion Hd; reflexivity].
        * match type of H with (let (_, _) := ?X in _) = _ => destruct X as [ds' r'] eqn:Hrec end.
          inversion H; subst.
          apply (Cont [testca] 1%nat);
            [discriminate | reflexivity | cbn; lia | intros d [<-|[]]; auto | intros d Hd; inversion Hd; reflexivity | intros i Hi Ho Hl; destruct i as [|i]; [cbn in Ho; discriminate|destruct i; discriminate] | intros _ Ho; cbn in Ho; discriminate | exact Hrec].
        * match type of H with (let (_, _) := ?X in _) = _ => destruct X as [ds' r'] eqn:Hrec end.
          inversion H; subst.
          apply (Cont [testca] 1%nat);
            [discriminate | reflexivity | cbn; lia | intros d [<-|[]]; auto | intros d Hd; inversion Hd; reflexivity | intros i Hi Ho Hl; destruct i as [|i]; [cbn in Ho; discriminate|destruct i; discriminate] | intros _ Ho; cbn in Ho; discriminate | exact Hrec].
      + destruct o1 as [| |].
        * inversion H; subst. apply Base1; auto. intros d Hd; inversion Hd; reflexivity.
        * match type of H with (let (_, _) := ?X in _) = _ => destruct X as [ds' r'] eqn:Hrec end.
          inversion H; subst.
          apply (Cont [norm ca] 1%nat);
            [discriminate | reflexivity | cbn; lia | intros d [<-|[]]; auto | intros d Hd; inversion Hd; reflexivity | intros i Hi Ho Hl; destruct i as [|i]; [cbn in Ho; discriminate|destruct i; discriminate] | intros _ Ho; cbn in Ho; discriminate | exact Hrec].
        * match type of H with (let (_, _) := ?X in _) = _ => destruct X as [ds' r'] eqn:Hrec end.
          inversion H; subst.
          apply (Cont [norm ca] 1%nat);
            [discriminate | reflexivity | cbn; lia | intros d [<-|[]]; auto | intros d Hd; inversion Hd; reflexivity | intros i Hi Ho Hl; destruct i as [|i]; [cbn in Ho; discriminate|destruct i; discriminate] | intros _ Ho; cbn in Ho; discriminate | exact Hrec].
  Qed.
End TestCAProofs.

(** * the job manager as it was before the fix (kept as a record of the finding) *)
Theorem panic_leaks_name_and_worker_orig :
  let a := [97%N] in let b := [98%N] in
  exists s, jrun_gen false 1 jinit [Submit (Job 1 a); Take; Return 1 KPanic] = Some s /\
    has_name a (names s) = true /\ held s = [] /\ active s = 1%nat /\ live s = 0%nat /\
    (* the name is blocked for ever and the next job finds no worker *)
    jstep_orig 1 s (Submit (Job 2 a)) = Some s /\
    exists s', jstep_orig 1 s (Submit (Job 3 b)) = Some s' /\ queue s' = [Job 3 b] /\
      forall l, is_worker_step l = true -> jstep_orig 1 s' l = None.
Proof.
  cbn zeta. eexists. split; [vm_compute; reflexivity|]. repeat split.
  eexists. split; [vm_compute; reflexivity|]. split; [reflexivity|].
  intros [j| |id k|id] Hl; try discriminate; reflexivity.
Qed.
